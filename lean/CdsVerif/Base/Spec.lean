/-
  Sequential reference specifications of the libcds container families, in the
  result-determined form of `Lin.Spec`.  Operations and results use one uniform
  wire type so that the driver can parse every history the same way.
-/
import CdsVerif.Base.Lin
namespace CdsVerif.Spec
open CdsVerif.Lin

/-- Operation as written by the harness: a name and integer arguments. -/
structure GOp where
  name : String
  args : List Int
deriving DecidableEq, Repr

abbrev GRet := List Int

/-- Lift a deterministic step function to a result-determined spec. -/
def detSpec {σ : Type} (init : σ) (step : σ → GOp → Option (σ × GRet)) : Spec σ GOp GRet where
  init := init
  next s op r := match step s op with
    | some (s', r') => if r = r' then some s' else none
    | none => none

/-! ### FIFO queue (unbounded) -/

def fifoStep (q : List Int) (op : GOp) : Option (List Int × GRet) :=
  match op.name, op.args with
  | "enq", [v] => some (q ++ [v], [1])
  | "deq", [] => match q with
    | [] => some ([], [0])
    | x :: xs => some (xs, [1, x])
  | _, _ => none

def fifo : Spec (List Int) GOp GRet := detSpec [] fifoStep

/-! ### Bounded FIFO queue: `enq` fails exactly when `cap` items are present -/

def bfifoStep (cap : Nat) (q : List Int) (op : GOp) : Option (List Int × GRet) :=
  match op.name, op.args with
  | "enq", [v] => if q.length < cap then some (q ++ [v], [1]) else some (q, [0])
  | "deq", [] => match q with
    | [] => some ([], [0])
    | x :: xs => some (xs, [1, x])
  | "front", [] => match q with          -- single-consumer peek
    | [] => some ([], [0])
    | x :: xs => some (x :: xs, [1, x])
  | _, _ => none

def bfifo (cap : Nat) : Spec (List Int) GOp GRet := detSpec [] (bfifoStep cap)

/-! ### LIFO stack -/

def lifoStep (s : List Int) (op : GOp) : Option (List Int × GRet) :=
  match op.name, op.args with
  | "push", [v] => some (v :: s, [1])
  | "pop", [] => match s with
    | [] => some ([], [0])
    | x :: xs => some (xs, [1, x])
  | _, _ => none

def lifo : Spec (List Int) GOp GRet := detSpec [] lifoStep

/-! ### Double-ended queue (front of the list = front of the deque) -/

def dequeStep (d : List Int) (op : GOp) : Option (List Int × GRet) :=
  match op.name, op.args with
  | "push_front", [v] => some (v :: d, [1])
  | "push_back", [v] => some (d ++ [v], [1])
  | "pop_front", [] => match d with
    | [] => some ([], [0])
    | x :: xs => some (xs, [1, x])
  | "pop_back", [] => match d.getLast? with
    | none => some (d, [0])
    | some x => some (d.dropLast, [1, x])
  | _, _ => none

def deque : Spec (List Int) GOp GRet := detSpec [] dequeStep

/-! ### Max-priority queue.  Items are (priority, id) pairs encoded as
    `prio * 1000 + id`; `pop` must return *some* item of maximal priority
    (ties may be broken either way), so the spec is result-determined but not
    deterministic. -/

def prioOf (v : Int) : Int := v / 1000

def pqNext (cap : Nat) (s : List Int) (op : GOp) (r : GRet) : Option (List Int) :=
  match op.name, op.args, r with
  | "push", [v], [1] => if cap = 0 ∨ s.length < cap then some (v :: s) else none
  | "push", [_], [0] => if cap ≠ 0 ∧ s.length ≥ cap then some s else none
  | "pop", [], [0] => if s.isEmpty then some s else none
  | "pop", [], [1, v] =>
      if v ∈ s ∧ s.all (fun w => decide (prioOf w ≤ prioOf v)) then some (s.erase v) else none
  | _, _, _ => none

/-- `cap = 0` means unbounded. -/
def maxpq (cap : Nat) : Spec (List Int) GOp GRet := { init := [], next := pqNext cap }

/-! ### Set / map over integer keys with an integer payload.
    State: association list sorted by nothing in particular; keys unique. -/

abbrev MapSt := List (Int × Int)

def mfind (m : MapSt) (k : Int) : Option Int := (m.find? (fun e => e.1 == k)).map (·.2)
def merase (m : MapSt) (k : Int) : MapSt := m.filter (fun e => !(e.1 == k))
def minKey? (m : MapSt) : Option (Int × Int) :=
  m.foldl (fun acc e => match acc with
    | none => some e
    | some a => if e.1 < a.1 then some e else some a) none
def maxKey? (m : MapSt) : Option (Int × Int) :=
  m.foldl (fun acc e => match acc with
    | none => some e
    | some a => if a.1 < e.1 then some e else some a) none

/-- Operations:
  `insert k v → [b]`; `update k v allow → [ok, inserted]` (existing item's payload
  is replaced by `v` when the container's update does so: flag `repl` chooses);
  `erase k → [b]` or `[b, v]` (with the payload observed by the erase functor);
  `find k → [b]` or `[1, v]`; `extract k → [0] | [1, v]`; `contains k → [b]`;
  `extract_min`, `extract_max → [0] | [1, k, v]`; `size → [n]`; `empty → [b]`;
  `clear → []`. -/
def mapStep (m : MapSt) (op : GOp) : Option (MapSt × GRet) :=
  match op.name, op.args with
  | "insert", [k, v] => match mfind m k with
    | some _ => some (m, [0])
    | none => some ((k, v) :: m, [1])
  | "update", [k, v, allow] => match mfind m k with
    | some _ => some ((k, v) :: merase m k, [1, 0])
    | none => if allow ≠ 0 then some ((k, v) :: m, [1, 1]) else some (m, [0, 0])
  | "upsert_keep", [k, v, allow] => match mfind m k with   -- update that keeps the old payload
    | some _ => some (m, [1, 0])
    | none => if allow ≠ 0 then some ((k, v) :: m, [1, 1]) else some (m, [0, 0])
  | "erase", [k] => match mfind m k with
    | some v => some (merase m k, [1, v])
    | none => some (m, [0])
  | "extract", [k] => match mfind m k with
    | some v => some (merase m k, [1, v])
    | none => some (m, [0])
  | "find", [k] => match mfind m k with
    | some v => some (m, [1, v])
    | none => some (m, [0])
  | "contains", [k] => some (m, [if (mfind m k).isSome then 1 else 0])
  | "extract_min", [] => match minKey? m with
    | some (k, v) => some (merase m k, [1, k, v])
    | none => some (m, [0])
  | "extract_max", [] => match maxKey? m with
    | some (k, v) => some (merase m k, [1, k, v])
    | none => some (m, [0])
  | "size", [] => some (m, [Int.ofNat m.length])
  | "empty", [] => some (m, [if m.isEmpty then 1 else 0])
  | "clear", [] => some ([], [])
  | _, _ => none

def map : Spec MapSt GOp GRet := detSpec [] mapStep

/-! ### Object pool over a bounded FIFO of free objects (C24)

    `kind`: 0 vyukov_queue_pool, 1 lazy_vyukov_queue_pool, 2 bounded_vyukov_queue_pool.  Objects `1 .. cap` are the
    preallocated block; larger numbers are heap objects (any number above `cap` is accepted as a heap object: which
    heap object the allocator returns is not the pool's business).  The operation name does not matter (the
    harness client decides dynamically whether an operation allocates or deallocates); the RESULT says what
    happened: `[1, o]` allocated `o`, `[2, p]` deallocated `p`, `[0]` std::bad_alloc, `[-1]` skipped.
    An allocation must return the OLDEST free object when there is one; it goes to the heap (or fails, bounded
    pool) only when the free queue is empty. -/
def poolNext (kind cap : Nat) (q : List Int) (_ : GOp) (r : GRet) : Option (List Int) :=
  match r with
  | [1, o] => match q with
    | x :: rest => if x = o then some rest else none
    | [] => if kind ≠ 2 ∧ (cap : Int) < o then some [] else none
  | [2, p] =>
    if kind = 0 ∧ (cap : Int) < p then some q                -- heap object of the vyukov pool: Delete
    else if q.length < cap then some (q ++ [p])
    else if kind = 1 then some q                            -- lazy pool, queue full: Delete
    else none                                               -- cannot happen: the block has `cap` objects
  | [0] => if kind = 2 ∧ q = [] then some q else none
  | [-1] => some q
  | _ => none

def pool (kind cap : Nat) (initq : List Int) : Spec (List Int) GOp GRet := ⟨initq, poolNext kind cap⟩

/-! ### Concurrent set / map specification.
    libcds runs the user functor of `update` / `find` / `erase` on the item outside the operation's
    linearization point ("func must guarantee that during changing no any other modifications could be made on
    this item by concurrent threads"), so a payload written by `update` on an EXISTING key becomes visible at
    some later instant, possibly never (the item may be erased first).  The concurrent specification therefore
    keeps, per key, the set of payloads that may still be observed: `update` of an existing key adds its payload
    to that set.  Everything about KEYS (presence, uniqueness, return flags) is as strict as in `mapStep`.
    `relaxMinMax` additionally lets `extract_min` / `extract_max` remove any present key (C15's wording); the
    real-time clause is judged by the harness oracle. -/

def mkeys (m : MapSt) : List Int := (m.map (·.1)).eraseDups
def mhas (m : MapSt) (k : Int) : Bool := m.any (fun e => e.1 == k)

def mapConcNext (relaxMinMax : Bool) (m : MapSt) (op : GOp) (r : GRet) : Option MapSt :=
  match op.name, op.args, r with
  | "insert", [k, v], [1] => if mhas m k then none else some ((k, v) :: m)
  | "insert", [k, _], [0] => if mhas m k then some m else none
  | "update", [k, v, _], [1, 0] => if mhas m k then some ((k, v) :: m) else none
  | "update", [k, v, allow], [1, 1] => if !mhas m k ∧ allow ≠ 0 then some ((k, v) :: m) else none
  | "update", [k, _, allow], [0, 0] => if !mhas m k ∧ allow = 0 then some m else none
  | "upsert_keep", [k, _, _], [1, 0] => if mhas m k then some m else none
  | "upsert_keep", [k, v, allow], [1, 1] => if !mhas m k ∧ allow ≠ 0 then some ((k, v) :: m) else none
  | "upsert_keep", [k, _, allow], [0, 0] => if !mhas m k ∧ allow = 0 then some m else none
  | "erase", [k], [1, v] => if (k, v) ∈ m then some (merase m k) else none
  | "erase", [k], [0] => if mhas m k then none else some m
  | "extract", [k], [1, v] => if (k, v) ∈ m then some (merase m k) else none
  | "extract", [k], [0] => if mhas m k then none else some m
  | "find", [k], [1, v] => if (k, v) ∈ m then some m else none
  | "find", [k], [0] => if mhas m k then none else some m
  | "contains", [k], [1] => if mhas m k then some m else none
  | "contains", [k], [0] => if mhas m k then none else some m
  | "extract_min", [], [0] => if m.isEmpty then some m else none
  | "extract_max", [], [0] => if m.isEmpty then some m else none
  | "extract_min", [], [1, k, v] =>
    if (k, v) ∈ m ∧ (relaxMinMax ∨ m.all (fun e => decide (k ≤ e.1))) then some (merase m k) else none
  | "extract_max", [], [1, k, v] =>
    if (k, v) ∈ m ∧ (relaxMinMax ∨ m.all (fun e => decide (e.1 ≤ k))) then some (merase m k) else none
  | _, _, _ => none

def mapConc : Spec MapSt GOp GRet := { init := [], next := mapConcNext false }
def mapRelaxed : Spec MapSt GOp GRet := { init := [], next := mapConcNext true }

/-! ### Bag (free lists, pools): `put x`, `get → x` for any `x` present, `get → none`
    only when empty. -/

def bagNext (s : List Int) (op : GOp) (r : GRet) : Option (List Int) :=
  match op.name, op.args, r with
  | "put", [v], [1] => if v ∈ s then none else some (v :: s)
  | "get", [], [0] => if s.isEmpty then some s else none
  | "get", [], [1, v] => if v ∈ s then some (s.erase v) else none
  | _, _, _ => none

def bag (init : List Int) : Spec (List Int) GOp GRet := { init := init, next := bagNext }

/-! ### Locks: a family of mutual-exclusion locks indexed by a number.
    Operations carry the calling thread as first argument.  `lock` is enabled only when the lock is
    free (or, for a re-entrant lock, owned by the caller): a history is linearizable to this
    specification exactly when critical sections of the same lock never overlap. -/

abbrev LockSt := List (Int × Int × Nat)     -- (lock, owner, depth)

def lockOwner (s : LockSt) (l : Int) : Option (Int × Nat) := (s.find? (fun e => e.1 == l)).map (·.2)
def lockSet (s : LockSt) (l t : Int) (d : Nat) : LockSt := (l, t, d) :: s.filter (fun e => !(e.1 == l))
def lockClear (s : LockSt) (l : Int) : LockSt := s.filter (fun e => !(e.1 == l))

def lockNext (reentrant : Bool) (nlocks : Nat) (s : LockSt) (op : GOp) (r : GRet) : Option LockSt :=
  match op.name, op.args, r with
  | "lock", [t, l], [] => match lockOwner s l with
    | none => some (lockSet s l t 1)
    | some (o, d) => if reentrant ∧ o = t then some (lockSet s l t (d + 1)) else none
  | "try_lock", [t, l], [1] => match lockOwner s l with
    | none => some (lockSet s l t 1)
    | some (o, d) => if reentrant ∧ o = t then some (lockSet s l t (d + 1)) else none
  | "try_lock", [t, l], [0] => match lockOwner s l with
    | none => none
    | some (o, _) => if reentrant ∧ o = t then none else some s
  | "unlock", [t, l], [] => match lockOwner s l with
    | some (o, d) => if o = t then (if d ≤ 1 then some (lockClear s l) else some (lockSet s l t (d - 1))) else none
    | none => none
  | "unlock_if", [_, _], [0] => some s
  | "unlock_if", [t, l], [1] => match lockOwner s l with
    | some (o, d) => if o = t then (if d ≤ 1 then some (lockClear s l) else some (lockSet s l t (d - 1))) else none
    | none => none
  -- lock_all / unlock_all of lock_array take the cells one by one and are not atomic operations; the
  -- history specification leaves them unconstrained (the harness' occupancy oracle judges them)
  | "lock_all", [_], [] => some s
  | "unlock_all", [_], [] => some s
  | _, _, _ => none

def lockSpec (reentrant : Bool) (nlocks : Nat) : Spec LockSt GOp GRet := { init := [], next := lockNext reentrant nlocks }

/-! ### Spec laws quoted by the properties (C20): theorems about the reference model -/

theorem update_ret_inserted (m : MapSt) (k v allow : Int) (m' : MapSt) (r : GRet)
    (h : mapStep m ⟨"update", [k, v, allow]⟩ = some (m', r)) :
    r = [1, 1] ↔ (mfind m k = none ∧ allow ≠ 0) := by
  simp only [mapStep] at h
  cases hf : mfind m k with
  | some x => simp [hf] at h; simp [← h.2]
  | none =>
    simp only [hf] at h
    by_cases ha : allow ≠ 0
    · simp [ha] at h; simp [← h.2, ha]
    · simp [ha] at h; simp [← h.2, ha]

theorem update_ret_updated (m : MapSt) (k v allow : Int) (m' : MapSt) (r : GRet)
    (h : mapStep m ⟨"update", [k, v, allow]⟩ = some (m', r)) :
    r = [1, 0] ↔ (mfind m k).isSome := by
  simp only [mapStep] at h
  cases hf : mfind m k with
  | some x => simp [hf] at h; simp [← h.2]
  | none =>
    simp only [hf] at h
    by_cases ha : allow ≠ 0
    · simp [ha] at h; simp [← h.2]
    · simp [ha] at h; simp [← h.2]

theorem update_ret_refused (m : MapSt) (k v allow : Int) (m' : MapSt) (r : GRet)
    (h : mapStep m ⟨"update", [k, v, allow]⟩ = some (m', r)) :
    r = [0, 0] ↔ (mfind m k = none ∧ allow = 0) := by
  simp only [mapStep] at h
  cases hf : mfind m k with
  | some x => simp [hf] at h; simp [← h.2]
  | none =>
    simp only [hf] at h
    by_cases ha : allow ≠ 0
    · simp [ha] at h; simp [← h.2, ha]
    · simp [ha] at h; simp [← h.2]; simpa using ha

end CdsVerif.Spec

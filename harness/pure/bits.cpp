// Tie D for C25: calls the real libcds bit helpers on boundary, exhaustive-small and seeded random
// inputs and prints `fn args -> outs` lines.  The same lines (inputs) are evaluated by the Lean
// definitions regenerated from the headers (cdsdriver eval) and compared by tools/props.py.
#include <cstdint>
#include <cstdio>
#include <cstdlib>
#include <cstring>
#include <vector>
#include <cds/algo/bitop.h>
#include <cds/algo/int_algo.h>
#include <cds/algo/bit_reversal.h>

namespace generic_bitop {
    int isPow2_32( uint32_t ); int isPow2_64( uint64_t );
    int msb32( uint32_t ); int msb32nz( uint32_t ); int msb64( uint64_t ); int msb64nz( uint64_t );
    int lsb32( uint32_t ); int lsb32nz( uint32_t ); int lsb64( uint64_t ); int lsb64nz( uint64_t );
    uint32_t rbo32( uint32_t ); uint64_t rbo64( uint64_t );
    int sbc32( uint32_t ); int sbc64( uint64_t ); int zbc32( uint32_t ); int zbc64( uint64_t );
    bool complement32( uint32_t*, unsigned ); bool complement64( uint64_t*, unsigned );
}

static uint64_t rng_s;
static uint64_t rnd()
{
    uint64_t z = ( rng_s += 0x9E3779B97F4A7C15ull );
    z = ( z ^ ( z >> 30 )) * 0xBF58476D1CE4E5B9ull;
    z = ( z ^ ( z >> 27 )) * 0x94D049BB133111EBull;
    return z ^ ( z >> 31 );
}

static std::vector<uint64_t> inputs( int bits, size_t nrandom )
{
    std::vector<uint64_t> v;
    uint64_t mask = bits == 64 ? ~0ull : (( 1ull << bits ) - 1 );
    if ( bits <= 16 ) {
        for ( uint64_t x = 0; x <= mask; ++x ) v.push_back( x );
        return v;
    }
    v.push_back( 0 ); v.push_back( mask );
    for ( int k = 0; k < bits; ++k ) {
        uint64_t p = 1ull << k;
        v.push_back( p ); v.push_back(( p - 1 ) & mask ); v.push_back(( p + 1 ) & mask ); v.push_back( ~p & mask );
    }
    v.push_back( 0xAAAAAAAAAAAAAAAAull & mask ); v.push_back( 0x5555555555555555ull & mask );
    v.push_back( 0x0123456789ABCDEFull & mask ); v.push_back( 0xFEDCBA9876543210ull & mask );
    for ( size_t i = 0; i < nrandom; ++i ) {
        uint64_t x = rnd();
        switch ( i % 4 ) {          // vary the density of set bits and the position of the top bit
        case 1: x &= rnd(); break;
        case 2: x |= rnd(); break;
        case 3: x >>= ( rnd() % bits ); break;
        }
        v.push_back( x & mask );
    }
    return v;
}

// 32-bit (i=int printed as unsigned 32) helpers
static unsigned long u32( int x ) { return (unsigned long)(uint32_t) x; }

int main( int argc, char** argv )
{
    uint64_t seed = argc > 1 ? strtoull( argv[1], nullptr, 10 ) : 1;
    size_t nrandom = argc > 2 ? strtoull( argv[2], nullptr, 10 ) : 2000;
    rng_s = seed * 0x2545F4914F6CDD1Dull + 99;
    namespace br = cds::algo::bit_reversal;
    namespace g = generic_bitop;

    for ( uint64_t b : inputs( 8, 0 )) {
        printf( "muldiv32_byte %lu -> %u\n", (unsigned long) b, (unsigned) br::muldiv::muldiv32_byte( uint8_t( b )));
        printf( "muldiv64_byte %lu -> %u\n", (unsigned long) b, (unsigned) br::muldiv::muldiv64_byte( uint8_t( b )));
    }
    for ( uint64_t x64 : inputs( 32, nrandom )) {
        uint32_t x = uint32_t( x64 );
        printf( "swar32 %u -> %u\n", x, br::swar()( x ));
        printf( "lookup32 %u -> %u\n", x, br::lookup()( x ));
        printf( "muldiv32_32 %u -> %u\n", x, br::muldiv::muldiv32( x ));
        printf( "muldiv64_32 %u -> %u\n", x, br::muldiv::muldiv64( x ));
        printf( "muldiv_op32 %u -> %u\n", x, br::muldiv()( x ));
        // portable implementations
        printf( "isPow2_32 %u -> %d\n", x, g::isPow2_32( x ));
        printf( "msb32 %u -> %lu\n", x, u32( g::msb32( x )));
        printf( "msb32nz %u -> %lu\n", x, u32( g::msb32nz( x )));
        printf( "lsb32 %u -> %lu\n", x, u32( g::lsb32( x )));
        printf( "lsb32nz %u -> %lu\n", x, u32( g::lsb32nz( x )));
        printf( "rbo32 %u -> %u\n", x, g::rbo32( x ));
        printf( "sbc32 %u -> %lu\n", x, u32( g::sbc32( x )));
        printf( "zbc32 %u -> %lu\n", x, u32( g::zbc32( x )));
        // the implementations libcds really uses on this platform (inline asm / builtins), against the same models
        printf( "isPow2_32 %u -> %d\n", x, (int) cds::bitop::platform::isPow2_32( x ));
        printf( "msb32 %u -> %lu\n", x, u32( cds::bitop::MSB( x )));
        printf( "lsb32 %u -> %lu\n", x, u32( cds::bitop::LSB( x )));
        if ( x ) {
            printf( "msb32nz %u -> %lu\n", x, u32( cds::bitop::MSBnz( x )));
            printf( "lsb32nz %u -> %lu\n", x, u32( cds::bitop::LSBnz( x )));
        }
        printf( "rbo32 %u -> %u\n", x, cds::bitop::RBO( x ));
        printf( "sbc32 %u -> %lu\n", x, u32( cds::bitop::SBC( x )));
        printf( "zbc32 %u -> %lu\n", x, u32( cds::bitop::ZBC( x )));
        for ( unsigned bit : { 0u, 1u, 7u, 15u, 16u, 30u, 31u, unsigned( rnd() % 32 ) } ) {
            uint32_t y = x; bool r = g::complement32( &y, bit );
            printf( "complement32 %u %u -> %d %u\n", x, bit, (int) r, y );
            uint32_t z = x; bool r2 = cds::bitop::complement( z, int( bit ));
            printf( "complement32 %u %u -> %d %u\n", x, bit, (int) r2, z );
        }
    }
    for ( uint64_t x : inputs( 64, nrandom )) {
        printf( "swar64 %lu -> %lu\n", x, br::swar()( uint64_t( x )));
        printf( "lookup64 %lu -> %lu\n", x, br::lookup()( uint64_t( x )));
        printf( "muldiv32_64 %lu -> %lu\n", x, br::muldiv::muldiv32( uint64_t( x )));
        printf( "muldiv64_64 %lu -> %lu\n", x, br::muldiv::muldiv64( uint64_t( x )));
        printf( "muldiv_op64 %lu -> %lu\n", x, br::muldiv()( uint64_t( x )));
        printf( "isPow2_64 %lu -> %d\n", x, g::isPow2_64( x ));
        printf( "msb64 %lu -> %lu\n", x, u32( g::msb64( x )));
        printf( "msb64nz %lu -> %lu\n", x, u32( g::msb64nz( x )));
        printf( "lsb64 %lu -> %lu\n", x, u32( g::lsb64( x )));
        printf( "lsb64nz %lu -> %lu\n", x, u32( g::lsb64nz( x )));
        printf( "rbo64 %lu -> %lu\n", x, g::rbo64( x ));
        printf( "sbc64 %lu -> %lu\n", x, u32( g::sbc64( x )));
        printf( "zbc64 %lu -> %lu\n", x, u32( g::zbc64( x )));
        printf( "msb64 %lu -> %lu\n", x, u32( cds::bitop::MSB( uint64_t( x ))));
        printf( "lsb64 %lu -> %lu\n", x, u32( cds::bitop::LSB( uint64_t( x ))));
        if ( x ) {
            printf( "msb64nz %lu -> %lu\n", x, u32( cds::bitop::MSBnz( uint64_t( x ))));
            printf( "lsb64nz %lu -> %lu\n", x, u32( cds::bitop::LSBnz( uint64_t( x ))));
        }
        printf( "rbo64 %lu -> %lu\n", x, cds::bitop::RBO( uint64_t( x )));
        printf( "sbc64 %lu -> %lu\n", x, u32( cds::bitop::SBC( uint64_t( x ))));
        printf( "zbc64 %lu -> %lu\n", x, u32( cds::bitop::ZBC( uint64_t( x ))));
        for ( unsigned bit : { 0u, 1u, 31u, 32u, 33u, 62u, 63u, unsigned( rnd() % 64 ) } ) {
            uint64_t y = x; bool r = g::complement64( &y, bit );
            printf( "complement64 %lu %u -> %d %lu\n", x, bit, (int) r, y );
            uint64_t z = x; bool r2 = cds::bitop::complement( z, int( bit ));
            printf( "complement64 %lu %u -> %d %lu\n", x, bit, (int) r2, z );
        }
        // integer helpers (size_t)
        printf( "log2floor %lu -> %lu\n", x, (unsigned long) cds::beans::log2floor( size_t( x )));
        printf( "is_power2 %lu -> %d\n", x, (int) cds::beans::is_power2( size_t( x )));
        printf( "log2 %lu -> %lu\n", x, (unsigned long) cds::beans::log2( size_t( x )));
        printf( "floor2 %lu -> %lu\n", x, (unsigned long) cds::beans::floor2( size_t( x )));
        printf( "log2ceil %lu -> %lu\n", x, (unsigned long) cds::beans::log2ceil( size_t( x )));
        printf( "ceil2 %lu -> %lu\n", x, (unsigned long) cds::beans::ceil2( size_t( x )));
    }
    return 0;
}

/-
  C08 — exactness of the history checker used by tie H.
  The algorithm-level theorems (SegmentedQueue machine, every schedule) are in Props/C08Segmented.lean.
-/
import CdsVerif.Base.Spec
namespace CdsVerif.Props.C08
open CdsVerif.Lin CdsVerif.Spec

/-- The history checker used by the harness is exact for the specification it judges against. -/
theorem C08_history_oracle_exact (ops : List (OpRec GOp GRet)) (hwf : ∀ o ∈ ops, o.inv ≤ o.res) :
    linCheck fifo ops = true ↔ Linearizable fifo ops :=
  linCheck_iff _ ops hwf

end CdsVerif.Props.C08

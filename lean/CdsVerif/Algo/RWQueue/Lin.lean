/-
  Linearizability of the RWQueue (two-lock queue) model (property C06), and its lock discipline.

  `Inv.lean` shows that each linearization point (the linking store of `enqueue`; the null load of an empty
  `dequeue`; the step that moves `m_Head.ptr` of a non-empty `dequeue`) is exactly the `fifo` transition of the
  operation on the abstract queue and that every other step leaves the abstract queue unchanged (`StepEff`); the
  generic ghost-log construction of `Algo/QueueLin/Ghost.lean` turns this into linearizability of every run.
-/
import CdsVerif.Algo.RWQueue.Inv
import CdsVerif.Algo.QueueLin.Ghost
namespace CdsVerif.Algo.RWQueue
open CdsVerif.Machine CdsVerif.Spec CdsVerif.Lin CdsVerif.Algo.QueueLin

/-- In state `s1` thread `t` holds the head lock and is about to load `m_Head.ptr->m_pNext`, which is null: the chain
    from `m_Head.ptr` is the dummy alone, the abstract queue is empty. -/
def EmptyAt (s1 : St) (t : Tid) : Prop :=
  s1.pc t = .deqRead ∧ s1.hlock = true ∧ s1.next s1.head = none ∧ absNodes s1 = [s1.head] ∧ absQueue s1 = []

def qsys : QSys St where
  model := model
  init := init
  Inv := SInv
  absQ := absQueue
  lpRet := fun s t => postRet (s.pc t)
  postRet := fun s t => postRet (s.pc t)
  opOf := fun s t => opOf s.val (s.pc t)
  EmptyAt := EmptyAt

theorem opOf_none_of_post {val : Nat → Int} {pc : PC} {r : GRet} (h : postRet pc = some r) : opOf val pc = none := by
  cases pc with
  | deqUnlock x => cases x <;> simp_all [postRet, opOf]
  | _ => simp_all [postRet, opOf]

theorem qsys_ok : qsys.OK where
  inv_init := ⟨[dummy], sinv_init⟩
  abs_init := by simp [qsys, absQueue, absNodes, init, walk]
  lp_init := by intro t; simp [qsys, init, postRet]
  op_init := by intro t; simp [qsys, init, opOf]
  post_lp := by intro s t r h; exact h
  post_op := by intro s t r h; exact opOf_none_of_post h
  lp_post := by intro s t r h _; exact h
  empty_abs := by intro s t ⟨_, _, _, _, h⟩; exact h
  invoke := by
    intro s t op s' ⟨l, hl⟩ hs
    obtain ⟨hl', he⟩ := sinvl_invoke hl hs
    refine ⟨⟨l, hl'⟩, ⟨?_, ?_⟩, ?_, he.now.1, he.now.2, ?_⟩
    · intro t2 ht; simp only [qsys]; rw [he.frame t2 ht]
    · intro t2 ht; simp only [qsys]; rw [he.frame t2 ht, he.ops t2 ht]
    · simp [qsys, he.was, postRet]
    · simp only [qsys]; rw [hl.absQueue_eq, hl'.absQueue_eq, he.abs]
  step := by
    intro s t s' ev ⟨l, hl⟩ hs
    obtain ⟨l', hl', he⟩ := sinvl_step hl hs
    refine ⟨⟨l', hl'⟩, ⟨?_, ?_⟩, ?_, ?_, ?_, he.op, ?_⟩
    · intro t2 ht; simp only [qsys]; rw [he.frame t2 ht]
    · intro t2 ht; simp only [qsys]; rw [he.frame t2 ht, he.val]
    · simp only [qsys]; rw [hl.absQueue_eq, hl'.absQueue_eq, he.val]; exact he.lp
    · simp only [qsys]; rw [hl.absQueue_eq, hl'.absQueue_eq, he.val]; intro hc; rw [he.nolp hc]
    · intro r hr; exact Or.inl (he.keep r hr)
    · intro h1 h2
      obtain ⟨e1, e2, e3⟩ := he.emp h1 h2
      exact ⟨e1, hl.hlocked t (by simp [e1, holdsH]), e2, by rw [hl.absNodes_eq, e3], by rw [hl.absQueue_eq, e3]; rfl⟩
  result := by
    intro s t s' r ⟨l, hl⟩ hs
    obtain ⟨hl', hdone, hidl, hframe, hval⟩ := sinvl_result hl hs
    refine ⟨⟨l, hl'⟩, ⟨?_, ?_⟩, ?_, ?_, ?_, ?_⟩
    · intro t2 ht; simp only [qsys]; rw [hframe t2 ht]
    · intro t2 ht; simp only [qsys]; rw [hframe t2 ht, hval]
    · simp [qsys, hdone, postRet]
    · simp [qsys, hidl, postRet]
    · simp [qsys, hidl, opOf]
    · simp only [qsys]; rw [hl.absQueue_eq, hl'.absQueue_eq, hval]

theorem sinv_reachable (s : St) (h : model.Reachable init s) : SInv s :=
  inv_reachable qsys_ok s h

/-! ### Main theorems (instances of `Algo/QueueLin/Ghost.lean`) -/

/-- **Linearizability of RWQueue** (Herlihy–Wing, with completion of pending operations). -/
theorem rwqueue_linearizable (sched : List (Tid × Act)) (s : St) (os : List (Tid × Obs))
    (h : model.run init sched = some (s, os)) :
    ∃ extra : List (OpRec GOp GRet),
      (∀ e ∈ extra, pendingOf os e.tid = some (e.op, e.inv) ∧ e.res = os.length ∧
          postRet (s.pc e.tid) = some e.ret) ∧
      extra.Pairwise (fun a b => a.tid ≠ b.tid) ∧
      Linearizable fifo (historyOf os ++ extra) :=
  linearizable qsys_ok sched s os h

theorem rwqueue_linearizable_no_effect_pending (sched : List (Tid × Act)) (s : St) (os : List (Tid × Obs))
    (h : model.run init sched = some (s, os)) (hq : ∀ t, postRet (s.pc t) = none) :
    Linearizable fifo (historyOf os) :=
  linearizable_no_effect_pending qsys_ok sched s os h hq

theorem rwqueue_linearizable_complete_runs (sched : List (Tid × Act)) (s : St) (os : List (Tid × Obs))
    (h : model.run init sched = some (s, os)) (hq : ∀ t, s.pc t = .idle) :
    Linearizable fifo (historyOf os) :=
  rwqueue_linearizable_no_effect_pending sched s os h (fun t => by simp [hq t, postRet])

theorem rwqueue_no_invention (sched : List (Tid × Act)) (s : St) (os : List (Tid × Obs))
    (h : model.run init sched = some (s, os)) (r : OpRec GOp GRet) (hr : r ∈ historyOf os)
    (hop : r.op = ⟨"deq", []⟩) (v : Int) (hret : r.ret = [1, v]) :
    ∃ i t', i < r.res ∧ os[i]? = some (t', .call ⟨"enq", [v]⟩) :=
  no_invention qsys_ok sched s os h r hr hop v hret

theorem rwqueue_no_duplication (sched : List (Tid × Act)) (s : St) (os : List (Tid × Obs))
    (h : model.run init sched = some (s, os)) :
    ∃ extra : List (OpRec GOp GRet),
      (∀ e ∈ extra, pendingOf os e.tid = some (e.op, e.inv) ∧ e.res = os.length ∧
          postRet (s.pc e.tid) = some e.ret) ∧
      extra.Pairwise (fun a b => a.tid ≠ b.tid) ∧
      ∀ v, (historyOf os).countP (isDeqOf v) ≤ (historyOf os ++ extra).countP (isEnq v) :=
  no_duplication qsys_ok sched s os h

/-- **The empty dequeue, on runs.**  If a completed `deq` returned `[0]`, there is an instant `j` strictly between
    its call and its return at which the caller held the head lock, was about to load `m_Head.ptr->m_pNext`, that
    link was null and the abstract queue was empty. -/
theorem rwqueue_empty_hindsight (sched : List (Tid × Act)) (s : St) (os : List (Tid × Obs))
    (h : model.run init sched = some (s, os)) (r : OpRec GOp GRet) (hr : r ∈ historyOf os) (hret : r.ret = [0]) :
    ∃ j s1, r.inv < j ∧ j < r.res ∧ model.run init (sched.take j) = some (s1, os.take j) ∧
      EmptyAt s1 r.tid ∧ absQueue s1 = [] :=
  empty_hindsight qsys_ok sched s os h r hr hret

/-- Refinement, on `absQueue`. -/
theorem step_refines {s s' : St} {t : Tid} {ev : Ev} (h : SInv s) (hs : step s t = some (s', ev)) :
    (postRet (s.pc t) = none → ∀ r, postRet (s'.pc t) = some r →
      ∃ op, opOf s.val (s.pc t) = some op ∧ fifo.next (absQueue s) op r = some (absQueue s')) ∧
    ((postRet (s.pc t) ≠ none ∨ postRet (s'.pc t) = none) → absQueue s' = absQueue s) := by
  have := qsys_ok.step s t s' ev h hs
  exact ⟨this.lp, this.nolp⟩

/-- Lock discipline in every reachable state: at most one thread is inside the critical section of each lock, the
    lock word of an occupied critical section is set, and when the tail lock is free `m_Tail.ptr` is the last node
    of the chain from `m_Head.ptr`. -/
theorem reachable_locks (s : St) (h : model.Reachable init s) :
    (∀ t1 t2, holdsT (s.pc t1) = true → holdsT (s.pc t2) = true → t1 = t2) ∧
    (∀ t, holdsT (s.pc t) = true → s.tlock = true) ∧
    (∀ t1 t2, holdsH (s.pc t1) = true → holdsH (s.pc t2) = true → t1 = t2) ∧
    (∀ t, holdsH (s.pc t) = true → s.hlock = true) ∧
    (s.tlock = false → ∃ l0, absNodes s = l0 ++ [s.tail]) := by
  obtain ⟨l, hl⟩ := sinv_reachable s h
  refine ⟨hl.tmutex, hl.tlocked, hl.hmutex, hl.hlocked, fun hf => ?_⟩
  obtain ⟨h1, h2⟩ := hl.tailfree hf
  rw [hl.absNodes_eq]
  exact Chain.last hl.chain h1 h2

/-- Structure of the reachable states: the chain from `m_Head.ptr` is finite, duplicate-free and ends in null. -/
theorem reachable_chain (s : St) (h : model.Reachable init s) :
    Chain s.next (some s.head) (absNodes s) ∧ (absNodes s).Nodup ∧ (∃ r, absNodes s = s.head :: r) := by
  obtain ⟨l, hl⟩ := sinv_reachable s h
  rw [hl.absNodes_eq]
  exact ⟨hl.chain, hl.nodup, hl.head_cons⟩

end CdsVerif.Algo.RWQueue

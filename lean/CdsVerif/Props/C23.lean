/-
  C23 — exactness of the history checker used by tie H.
  The algorithm-level theorems are in Props/C23Kernel.lean, Props/C23KernelR.lean (flat-combining kernel machine,
  every schedule) and Props/C23Batch.lean (batch functions).
-/
import CdsVerif.Base.Spec
namespace CdsVerif.Props.C23
open CdsVerif.Lin CdsVerif.Spec

/-- The oracle of tie H is exact: a history of the real container is accepted by the driver iff it is
    linearizable to the sequential specification. -/
theorem C23_history_oracle_exact  (ops : List (OpRec GOp GRet)) (hwf : ∀ o ∈ ops, o.inv ≤ o.res) :
    linCheck fifo ops = true ↔ Linearizable fifo ops :=
  linCheck_iff _ ops hwf

end CdsVerif.Props.C23

// Tie D for C17: growth / rehash keeps exactly the set of elements, for degenerate hash functions.
// Single-threaded, hence exact: after every operation the container's content (contains() of every key of the
// key space, and size()) is compared with a std::set reference.
// Line: <container> <cfg…> ops <op…> -> <per-op observation> ;  an `X …` token marks the first disagreement.
#include <cstring>
#include <cstdint>
#include <cstdio>
#include <cstdlib>
#include <set>
#include <string>
#include <vector>
#include <csignal>
#include <unistd.h>
#include <cds/init.h>
#include <cds/gc/hp.h>
#include <cds/container/cuckoo_set.h>
#include <cds/container/striped_set/std_list.h>
#include <cds/container/striped_set.h>
#include <cds/container/michael_list_hp.h>
#include <cds/container/split_list_set.h>
#include <cds/container/feldman_hashset_hp.h>

namespace cc = cds::container;

static uint64_t rng_s;
static uint64_t rnd()
{
    uint64_t z = ( rng_s += 0x9E3779B97F4A7C15ull );
    z = ( z ^ ( z >> 30 )) * 0xBF58476D1CE4E5B9ull;
    z = ( z ^ ( z >> 27 )) * 0x94D049BB133111EBull;
    return z ^ ( z >> 31 );
}

// hash families: 0 identity, 1 constant, 2 k % 3, 3 (k / 3) % 3, 4 k % 2, 5 k * 16, 6 k >> 2
static int g_h1 = 0, g_h2 = 0;
static size_t hfam( int f, long k )
{
    switch ( f ) {
    case 1: return 7;
    case 2: return size_t( k % 3 );
    case 3: return size_t(( k / 3 ) % 3 );
    case 4: return size_t( k % 2 );
    case 5: return size_t( k * 16 );
    case 6: return size_t( k >> 2 );
    default: return size_t( k );
    }
}
struct hash1 { size_t operator()( long k ) const { return hfam( g_h1, k ); } };
struct hash2 { size_t operator()( long k ) const { return hfam( g_h2, k ); } };

static std::string g_current;
static void on_alarm( int )
{
    // a case that does not finish is a result: report it as a hang of this configuration
    std::printf( "%s -> X hang\n", g_current.c_str());
    std::fflush( stdout );
    _exit( 3 );
}

template <class Set>
static void run_ops( Set& s, char const* name, std::string const& cfg, int keyspace, int nops, bool can_erase )
{
    std::set<long> ref;
    std::string ops, obs;
    bool bad = false;
    g_current = std::string( name ) + " " + cfg + " keyspace=" + std::to_string( keyspace );
    alarm( 10 );
    for ( int i = 0; i < nops && !bad; ++i ) {
        long k = long( rnd() % keyspace );
        bool ins = !can_erase || rnd() % 100 < 70;
        bool r = ins ? s.insert( k ) : s.erase( k );
        bool e = ins ? ref.insert( k ).second : ref.erase( k ) > 0;
        ops += ( ins ? " i" : " e" ) + std::to_string( k );
        obs += " " + std::to_string( int( r ));
        if ( r != e ) { obs += " X result-differs-at-op-" + std::to_string( i ); bad = true; break; }
        for ( long q = 0; q < keyspace; ++q )
            if ( s.contains( q ) != ( ref.count( q ) > 0 )) {
                obs += " X key-" + std::to_string( q ) + ( ref.count( q ) ? "-lost" : "-phantom" ) + "-after-op-" + std::to_string( i );
                bad = true; break;
            }
        if ( !bad && s.size() != ref.size()) { obs += " X size-" + std::to_string( s.size()) + "-expected-" + std::to_string( ref.size()); bad = true; }
    }
    alarm( 0 );
    std::printf( "%s %s ops%s ->%s\n", name, cfg.c_str(), ops.c_str(), obs.c_str());
}

template <class ProbeSet>
static void cuckoo_case( char const* name )
{
    struct traits : cc::cuckoo::traits {
        typedef std::equal_to<long> equal_to;
        typedef cds::opt::hash_tuple< hash1, hash2 > hash;
        typedef ProbeSet probeset_type;
        typedef cc::cuckoo::striping<> mutex_policy;
    };
    typedef cc::CuckooSet<long, traits> set_t;
    static int const fams[][2] = { { 2, 3 }, { 0, 5 }, { 4, 6 }, { 1, 0 }, { 2, 4 }, { 0, 0 } };
    int f = int( rnd() % 6 );
    g_h1 = fams[f][0]; g_h2 = fams[f][1];
    size_t init = size_t( 1 + rnd() % 8 ), pset = size_t( 2 + rnd() % 3 ), thr = size_t( rnd() % pset );      // threshold < probe-set size as documented (0 = default)
    int keyspace = 4 + int( rnd() % 14 );
    // cuckoo hashing cannot store more keys than the buckets its hash functions can address: with a hash family of
    // bounded range, growing the table never helps and insert() resizes forever (liveness, not the subject of C17).
    // Keep the key space within what always fits: 2 * probe-set size (one bucket per table in the worst case).
    bool bounded = ( g_h1 >= 1 && g_h1 <= 4 ) || ( g_h2 >= 1 && g_h2 <= 4 );
    if ( bounded && keyspace > int( pset ) * 2 ) keyspace = int( pset ) * 2;
    if ( g_h1 == 2 && g_h2 == 3 ) keyspace = 6 + int( rnd() % ( 3 * pset ));   // 3 x 3 grid of hash pairs: fits in 6 buckets of pset slots, but only after relocations
    set_t s( init, pset, thr );
    std::string cfg = "h=" + std::to_string( g_h1 ) + "," + std::to_string( g_h2 ) + " init=" + std::to_string( init ) + " pset=" + std::to_string( pset ) + " thr=" + std::to_string( thr );
    run_ops( s, name, cfg, keyspace, 40 + int( rnd() % 60 ), true );
}

static void striped_case()
{
    typedef cc::StripedSet< std::list<long>, cds::opt::hash<hash1>, cds::opt::less<std::less<long>>,
        cds::opt::resizing_policy< cc::striped_set::load_factor_resizing<0> > > set_t;
    static int const fams[] = { 0, 1, 2, 4, 5, 6 };
    g_h1 = fams[rnd() % 6];
    size_t cap = size_t( 1 + rnd() % 8 ), lf = size_t( 1 + rnd() % 3 );
    set_t s( cap, cc::striped_set::load_factor_resizing<0>( lf ));
    run_ops( s, "striped", "h=" + std::to_string( g_h1 ) + " cap=" + std::to_string( cap ) + " lf=" + std::to_string( lf ), 8 + int( rnd() % 40 ), 60 + int( rnd() % 100 ), true );
}

static void splitlist_case()
{
    struct traits : cc::split_list::traits {
        typedef cc::michael_list_tag ordered_list;
        typedef hash1 hash;
        struct ordered_list_traits : cc::michael_list::traits { typedef std::less<long> less; };
    };
    typedef cc::SplitListSet< cds::gc::HP, long, traits > set_t;
    static int const fams[] = { 0, 1, 2, 4, 5, 6 };
    g_h1 = fams[rnd() % 6];
    size_t items = size_t( 2 << ( rnd() % 5 )), lf = size_t( 1 + rnd() % 2 );
    set_t s( items, lf );
    run_ops( s, "splitlist", "h=" + std::to_string( g_h1 ) + " items=" + std::to_string( items ) + " lf=" + std::to_string( lf ), 8 + int( rnd() % 60 ), 60 + int( rnd() % 120 ), true );
}

int main( int argc, char** argv )
{
    uint64_t seed = argc > 1 ? strtoull( argv[1], nullptr, 10 ) : 1;
    size_t n = argc > 2 ? strtoull( argv[2], nullptr, 10 ) : 200;
    size_t first = argc > 3 ? strtoull( argv[3], nullptr, 10 ) : 0;      // resume after a case that hung
    std::signal( SIGALRM, on_alarm );
    cds::Initialize();
    {
        cds::gc::HP hp;
        cds::threading::Manager::attachThread();
        for ( size_t i = first; i < n; ++i ) {
            rng_s = ( seed * 0x2545F4914F6CDD1Dull + 13 ) ^ ( i * 0x9E3779B97F4A7C15ull );     // every case is reproducible on its own
            std::printf( "# case %zu\n", i );
            cuckoo_case< cc::cuckoo::list >( "cuckoo_list" );
            cuckoo_case< cc::cuckoo::vector<4> >( "cuckoo_vector" );
            striped_case();
            splitlist_case();
        }
        cds::threading::Manager::detachThread();
    }
    cds::Terminate();
    return 0;
}

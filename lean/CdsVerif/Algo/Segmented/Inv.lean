/-
  Structural invariant of the SegmentedQueue machine (property C08, part A), proved for every interleaving, any
  number of threads, any quasi factor and any permutation input.
-/
import CdsVerif.Algo.Segmented.Model
namespace CdsVerif.Algo.Segmented
open CdsVerif.Machine CdsVerif.Spec

/-! ### The permutation input -/

theorem nextPerm_lt (K : Nat) (ps : List Nat) : ∀ j, j ∈ (nextPerm K ps).1 → j < K := by
  intro j hj
  unfold nextPerm at hj
  split at hj
  · rename_i h
    simp only [isPerm, Bool.and_eq_true, List.all_eq_true, decide_eq_true_eq] at h
    exact h.1.2 j hj
  · simpa using hj

theorem nextPerm_all (K : Nat) (ps : List Nat) : ∀ j, j < K → j ∈ (nextPerm K ps).1 := by
  intro j hj
  unfold nextPerm
  split
  · rename_i h
    simp only [isPerm, Bool.and_eq_true, List.all_eq_true, decide_eq_true_eq] at h
    have := h.2 j (by simpa using hj)
    simpa using this
  · simpa using hj

theorem scanE_cases (x : Nat) (ps : List Nat) (g : Nat) (l : List Nat) :
    (l = [] ∧ scanE x ps g l = .ctTry x ps (some g)) ∨ (∃ i r, l = i :: r ∧ scanE x ps g l = .enqRd x ps g i r) := by
  cases l with
  | nil => left; exact ⟨rfl, rfl⟩
  | cons i r => right; exact ⟨i, r, rfl, rfl⟩

theorem scanD_cases (ps : List Nat) (g : Nat) (hn : Bool) (l : List Nat) :
    (l = [] ∧ hn = true ∧ scanD ps g hn l = .deqDone none) ∨ (l = [] ∧ hn = false ∧ scanD ps g hn l = .rhTry ps g) ∨
    (∃ i r, l = i :: r ∧ scanD ps g hn l = .deqRd ps g i r hn) := by
  cases l with
  | nil => cases hn <;> simp [scanD]
  | cons i r => right; right; exact ⟨i, r, rfl, rfl⟩

/-! ### Projections of the program counter -/

/-- Inside a critical section of `m_Lock`. -/
def PC.inCS : PC → Bool
  | .ctIn .. => true
  | .ctTail .. => true
  | .ctUnlock .. => true
  | .rhIn .. => true
  | .rhHead .. => true
  | .rhUnlock .. => true
  | _ => false

/-- The segment pointer a thread holds. -/
def PC.ptr : PC → Option Nat
  | .enqRd _ _ g _ _ => some g
  | .enqCas _ _ g _ _ => some g
  | .ctTry _ _ pt => pt
  | .ctSpin _ _ pt => pt
  | .ctIn _ _ pt => pt
  | .ctTail _ _ n => some n
  | .ctUnlock _ _ n => some n
  | .deqRd _ g _ _ _ => some g
  | .deqCas _ g _ _ _ _ => some g
  | .rhTry _ g => some g
  | .rhSpin _ g => some g
  | .rhIn _ g => some g
  | .rhUnlock _ r => r
  | _ => none

/-- The segment pointer of a dequeuer. -/
def PC.dptr : PC → Option Nat
  | .deqRd _ g _ _ _ => some g
  | .deqCas _ g _ _ _ _ => some g
  | .rhTry _ g => some g
  | .rhSpin _ g => some g
  | .rhIn _ g => some g
  | .rhUnlock _ r => r
  | _ => none

/-- The argument of `create_tail` (a segment seen fully populated), before the critical section decides. -/
def PC.ctArg : PC → Option Nat
  | .ctTry _ _ pt => pt
  | .ctSpin _ _ pt => pt
  | .ctIn _ _ pt => pt
  | _ => none

/-- The argument of `remove_head` (a segment seen fully deleted). -/
def PC.rhArg : PC → Option Nat
  | .rhTry _ g => some g
  | .rhSpin _ g => some g
  | .rhIn _ g => some g
  | _ => none

/-- The segment just allocated / found by `create_tail`, which is the last one while the lock is held. -/
def PC.ctNew : PC → Option Nat
  | .ctTail _ _ n => some n
  | .ctUnlock _ _ n => some n
  | _ => none

/-! ### The structural invariant -/

structure InvS (s : St) : Prop where
  lo_le : s.lo ≤ s.nseg
  head_some : ∀ h, s.head = some h → h ≤ s.lo ∧ h < s.nseg
  head_none : s.head = none → s.lo = s.nseg
  tail_some : ∀ p, s.tail = some p → p + 1 = s.nseg
  fresh : ∀ g i, s.nseg ≤ g → s.cell g i = .null
  wide : ∀ g i, s.K ≤ i → s.cell g i = .null
  dead : ∀ g i, g < s.lo → i < s.K → (s.cell g i).isDel = true
  full : ∀ g i, g + 1 < s.nseg → i < s.K → s.cell g i ≠ .null
  holder_lock : ∀ t, s.holder = some t → s.lock = true
  cs : ∀ t, (s.pc t).inCS = true → s.holder = some t
  ptr : ∀ t g, (s.pc t).ptr = some g → g < s.nseg
  dptr : ∀ t g, (s.pc t).dptr = some g → g ≤ s.lo
  ctArg : ∀ t g j, (s.pc t).ctArg = some g → j < s.K → s.cell g j ≠ .null
  rhArg : ∀ t g j, (s.pc t).rhArg = some g → j < s.K → (s.cell g j).isDel = true
  ctNew : ∀ t n, (s.pc t).ctNew = some n → n + 1 = s.nseg
  rhHead : ∀ t ps, s.pc t = .rhHead ps → s.lo = s.nseg
  eRd : ∀ t x ps g i rest, s.pc t = .enqRd x ps g i rest →
    i < s.K ∧ (∀ j, j ∈ rest → j < s.K) ∧ ∀ j, j < s.K → j = i ∨ j ∈ rest ∨ s.cell g j ≠ .null
  eCas : ∀ t x ps g i rest, s.pc t = .enqCas x ps g i rest →
    i < s.K ∧ (∀ j, j ∈ rest → j < s.K) ∧ ∀ j, j < s.K → j = i ∨ j ∈ rest ∨ s.cell g j ≠ .null
  dRd : ∀ t ps g i rest hn, s.pc t = .deqRd ps g i rest hn →
    i < s.K ∧ (∀ j, j ∈ rest → j < s.K) ∧ ∀ j, j < s.K → j = i ∨ j ∈ rest ∨ (s.cell g j).isDel = true ∨ hn = true
  dCas : ∀ t ps g i x rest hn, s.pc t = .deqCas ps g i x rest hn →
    i < s.K ∧ (∀ j, j ∈ rest → j < s.K) ∧ (s.cell g i = .item x ∨ s.cell g i = .del x) ∧
    ∀ j, j < s.K → j = i ∨ j ∈ rest ∨ (s.cell g j).isDel = true ∨ hn = true

theorem invS_init (K : Nat) : InvS (init K) := by
  constructor <;> intros <;> simp_all [init, PC.inCS, PC.ptr, PC.dptr, PC.ctArg, PC.rhArg, PC.ctNew]

theorem invS_invoke (s s' : St) (t : Tid) (op : GOp) (h : InvS s) (hi : invoke s t op = some s') : InvS s' := by
  obtain ⟨h1, h2, h3, h4, h5, h6, h7, h8, h9, h10, h11, h12, h13, h14, h15, h16, h17, h18, h19, h20⟩ := h
  unfold invoke at hi
  split at hi
  · split at hi
    · simp only [Option.some.injEq] at hi; subst hi
      constructor <;> intros <;> grind [upd, PC.inCS, PC.ptr, PC.dptr, PC.ctArg, PC.rhArg, PC.ctNew]
    · simp at hi
  · simp only [Option.some.injEq] at hi; subst hi
    constructor <;> intros <;> grind [upd, PC.inCS, PC.ptr, PC.dptr, PC.ctArg, PC.rhArg, PC.ctNew]
  · simp at hi

theorem invS_result (s s' : St) (t : Tid) (r : GRet) (h : InvS s) (hr : result s t = some (s', r)) : InvS s' := by
  obtain ⟨h1, h2, h3, h4, h5, h6, h7, h8, h9, h10, h11, h12, h13, h14, h15, h16, h17, h18, h19, h20⟩ := h
  unfold result at hr
  split at hr <;> (try (simp at hr; done)) <;>
    (simp only [Option.some.injEq, Prod.mk.injEq] at hr; obtain ⟨rfl, _⟩ := hr
     constructor <;> intros <;> grind [upd, PC.inCS, PC.ptr, PC.dptr, PC.ctArg, PC.rhArg, PC.ctNew])

end CdsVerif.Algo.Segmented

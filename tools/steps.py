"""Reusable steps of a property check: the Lean obligation step and the ties."""
import json
import os
import re

import vlib
from vlib import Result

TRUSTED_COMMON = [
    "Lean 4.33 kernel (leanchecker re-check in the thorough tier)",
    "axioms propext, Classical.choice, Quot.sound only (audited by #print axioms on every run)",
    "sequentially consistent interleaving semantics; memory_order arguments are not modelled",
    "g++ 12, the instrumented atomics shim, the baton scheduler and the name registry of /verif/harness",
    "Lean compiler/runtime for the executable driver (produces test verdicts, not theorems)",
]


def lean_step(res, prop_module, thorough=False, extra_allowed=(), extra_targets=()):
    """Build the property module(s) and the driver, audit them.  A failure is a violation with
    no failing input (the caller may add a search)."""
    with vlib.lean_lock():
        return _lean_step(res, prop_module, thorough, extra_allowed, extra_targets)


def _lean_step(res, prop_module, thorough=False, extra_allowed=(), extra_targets=()):
    # tie T first, always: the generated modules must reflect /repo's CURRENT headers before anything is built
    if not getattr(res, "_regenerated", False):
        regenerate(res)
        res._regenerated = True
    if isinstance(prop_module, (list, tuple)):
        ok = True
        acc = {"obligations": 0, "discharged": 0, "theorems": [], "axioms_used": set(), "cmds": []}
        for m in prop_module:
            ok = _lean_step(res, m, thorough, extra_allowed, extra_targets) and ok
            acc["obligations"] += res.cov.get("obligations", 0)
            acc["discharged"] += res.cov.get("discharged", 0)
            acc["theorems"] += res.cov.get("theorems", [])
            acc["axioms_used"] |= set(res.cov.get("axioms_used", []))
            acc["cmds"].append(res.cov.get("checker_cmd", ""))
        res.cov.update({"obligations": acc["obligations"], "discharged": acc["discharged"], "theorems": acc["theorems"],
                        "axioms_used": sorted(acc["axioms_used"]), "checker_cmd": " ; ".join(acc["cmds"])})
        return ok
    ok = True
    try:
        vlib.lake_build([prop_module, "cdsdriver"] + list(extra_targets))
        vlib._driver_copy = None        # the driver may have been relinked: take a fresh private copy on next use
    except vlib.LeanError as e:
        res.cov.setdefault("obligations", 1)
        res.cov.setdefault("discharged", 0)
        res.violation("proof-broken:" + prop_module,
                      {"kind": "proof-broken", "theorem_module": prop_module, "lean_error": e.log[-6000:]}, no_input=True)
        return False
    thms, discharged, axioms, problems = vlib.audit(prop_module, extra_allowed)
    res.cov["obligations"] = len(thms)
    res.cov["discharged"] = discharged
    res.cov["theorems"] = thms
    res.cov["axioms_used"] = axioms
    res.cov["checker_cmd"] = "cd /verif/lean && lake build %s cdsdriver && lake env lean <#print axioms of every theorem of %s>" % (prop_module, prop_module)
    if thorough:
        okc, log = vlib.leanchecker(prop_module)
        res.cov["leanchecker"] = "ok" if okc else log
        res.cov["checker_cmd"] += " && lake env leanchecker " + prop_module
        if not okc:
            problems.append("leanchecker rejected %s: %s" % (prop_module, log))
    if problems:
        ok = False
        res.violation("audit:" + prop_module, {"kind": "audit", "problems": problems}, no_input=True)
    for t in thms[:3]:
        res.sample({"obligation": t})
    return ok


def parse_end(block):
    m = re.search(r"^END (.*)$", block, flags=re.M)
    d = {}
    if m:
        for kv in m.group(1).split():
            if "=" in kv:
                k, v = kv.split("=", 1)
                d[k] = v
    return d


def header_of(block):
    m = re.search(r"^# family=.*$", block, flags=re.M)
    d = {}
    if m:
        for kv in m.group(0)[2:].split():
            if "=" in kv:
                k, v = kv.split("=", 1)
                d[k] = v
    return d


def sched_of(block):
    m = re.search(r"^# sched=(.*)$", block, flags=re.M)
    return m.group(1) if m else ""


def tie_H(res, client, runs, hang_is_violation=True, label=None, exe=None, ignore_oracle=None, only_oracle=None, judged=True, history_oracle=None):
    """History conformance: run the real container under the deterministic scheduler, judge every
    history with the verified checker.  `runs` = list of dicts {args: [...], cases: n}."""
    exe = exe or vlib.build_client(client)
    label = label or client
    total = 0
    hashes = set()
    nontrivial = set()
    per_variant = {}
    for run in runs:
        args = ["--seed", str(res.seed)] + run["args"]
        text, aborted = vlib.run_cases(exe, args, run["cases"], timeout=run.get("timeout", 600))
        for a in aborted:
            if a["rc"] not in (41, 42):
                res.violation("%s:crash:rc=%s" % (label, a["rc"]), {"kind": "crash", "client": client, "args": run["args"], "case": a["case"],
                                                                    "cmd": a["cmd"], "note": "the harness process died inside this case (signal/abort/sanitizer); re-run the command to reproduce"})
        verdicts = vlib.driver(["lincheck"], text) if judged else ""
        vmap = {}
        for line in verdicts.split("\n"):
            w = line.split()
            if len(w) >= 2:
                vmap[w[1]] = w[0]
        for cid, block in vlib.split_cases(text):
            total += 1
            end = parse_end(block)
            hdr = header_of(block)
            var = hdr.get("variant", "?")
            per_variant[var] = per_variant.get(var, 0) + 1
            h = (var, end.get("hash"))
            hashes.add(h)
            if int(end.get("cas_fail", "0")) + int(end.get("yields", "0")) > 0:
                nontrivial.add(h)
            status = end.get("status", "?")
            verdict = vmap.get(cid, "MISSING")
            replay = {"kind": "failing-history", "client": client, "args": run["args"], "case": cid,
                      "variant": var, "schedule": sched_of(block), "block": block[:20000]}
            if status != "ok":
                # `budget` = the step budget ran out while threads were still making steps (a livelock of this particular,
                # possibly unfair, schedule); `deadlock` = every live thread waits and nothing is written any more.
                # Callers whose property says nothing about progress under unfair schedules pass hang_is_violation="deadlock".
                if hang_is_violation is True or (hang_is_violation == "deadlock" and status != "budget"):
                    res.violation("%s:%s:hang:%s" % (label, var, status), dict(replay, kind="hang", status=status))
                res.add("hangs")
                res.cov.setdefault("hang_status", {})
                res.cov["hang_status"][status] = res.cov["hang_status"].get(status, 0) + 1
                continue
            xs = re.findall(r"^X (.*)$", block, flags=re.M)
            if ignore_oracle:       # oracle verdicts that belong to another property
                xs = [x for x in xs if not re.search(ignore_oracle, x)]
            if only_oracle:
                xs = [x for x in xs if re.search(only_oracle, x)]
            if xs:
                res.violation("%s:%s:oracle:%s" % (label, var, "-".join(xs[0].rstrip(":").split()[:2]).rstrip(":")), dict(replay, kind="oracle", oracle=xs))
            if history_oracle:
                bad = history_oracle(block)
                if bad:
                    res.violation("%s:%s:history-oracle:%s" % (label, var, bad.split(":")[0]), dict(replay, kind="oracle", oracle=[bad]))
            if not judged or re.match(r"CASE \S+ none\b", block):
                pass        # oracle-only client or variant (no abstract data type claimed): X lines and hangs decide
            elif verdict == "NOTLIN":
                res.violation("%s:%s:not-linearizable" % (label, var), replay)
            elif verdict != "LIN":
                res.violation("%s:%s:driver:%s" % (label, var, verdict), dict(replay, kind="driver-problem"), no_input=True)
            if total % 997 == 1:
                ops = re.findall(r"^O .*$", block, flags=re.M)
                res.sample({"client": client, "variant": var, "mode": hdr.get("mode"), "schedule": sched_of(block)[:120], "history": ops[:12]})
    res.add("evaluations", total)
    res.add("programs", total)
    res.add("traces_validated_against_impl", total)
    res.cov["distinct_nontrivial"] = res.cov.get("distinct_nontrivial", 0) + len(nontrivial)
    res.cov["distinct_traces"] = res.cov.get("distinct_traces", 0) + len(hashes)
    res.cov.setdefault("per_variant", {}).update({label + ":" + k: v for k, v in per_variant.items()})
    res.cov["disagreements_checked"] = res.cov.get("disagreements_checked", 0) + total
    return total


# ---------------------------------------------------------------- T + D (pure functions)

import subprocess
import sys as _sys
_sys.path.insert(0, os.path.dirname(os.path.abspath(__file__)))


def regenerate(res):
    """Tie T: regenerate CdsVerif/Gen from /repo's current headers.  A function that can no longer be
    translated is a violation without failing input (the property is no longer shown)."""
    import cxx2lean
    with vlib.lean_lock():
        man, errors, changed = cxx2lean.generate(vlib.REPO, vlib.LEAN)
    res.cov["translated_functions"] = len(man)
    res.cov["translation_changed_since_last_run"] = bool(changed)
    for e in errors:
        res.violation("translation:" + str(e.get("function") or e.get("unit")),
                      {"kind": "translation-broken", "detail": e}, no_input=True)
    return man, errors


def build_pure(name, sources, with_libcds=False, extra=()):
    """Plain (uninstrumented) build of a differential driver against /repo's headers."""
    import glob
    srcs = [os.path.join(vlib.HARNESS, "pure", s) for s in sources]
    if with_libcds:
        srcs += sorted(glob.glob(os.path.join(vlib.REPO, "src", "*.cpp")))
        extra = list(extra) + ["-fno-access-control", "-mcx16", "-lboost_thread", "-lboost_system", "-pthread"]
    key = vlib.files_hash(srcs) + vlib.repo_tree_hash()
    exe = os.path.join(vlib.BIN, "%s-%s" % (name, key[:24]))
    if not os.path.exists(exe):
        os.makedirs(vlib.BIN, exist_ok=True)
        rc, o, e = vlib.sh(["g++", "-std=gnu++11", "-O1", "-g", "-DNDEBUG", "-w", "-I" + vlib.REPO] + srcs + ["-o", exe] + list(extra), timeout=900)
        if rc != 0:
            raise RuntimeError("compile %s failed:\n%s" % (name, e[-3000:]))
    return exe


def tie_D(res, exe, args, driver_cmd, compare, label, timeout=120):
    """Differential evaluation: the C++ driver prints `<input> -> <outputs>`; the Lean definitions are
    evaluated on the same inputs; `compare(input, impl_out, model_out)` returns None or a mismatch text."""
    try:
        rc, out, err = vlib.sh([exe] + args, timeout=timeout)
    except subprocess.TimeoutExpired as ex:
        partial = ex.stdout.decode() if isinstance(ex.stdout, bytes) else (ex.stdout or "")
        res.violation("%s:driver-hang" % label, {"kind": "hang", "cmd": [exe] + args, "last_output": partial[-1500:]})
        return []
    if rc != 0:
        res.violation("%s:driver-crash" % label, {"kind": "crash", "cmd": [exe] + args, "stderr": err[-2000:]})
        return []
    lines = [l for l in out.split("\n") if " -> " in l or l.endswith(" ->")]
    inputs = "\n".join(l.split(" ->")[0] for l in lines) + "\n"
    mout = vlib.driver(driver_cmd, inputs).split("\n")
    n = 0
    distinct = set()
    rows = []
    for l, m in zip(lines, mout):
        inp, _, impl = l.partition(" ->")
        n += 1
        distinct.add(inp)
        rows.append((inp, impl.split(), m.split()))
        bad = compare(inp, impl.split(), m.split())
        if bad:
            fn = inp.split()[0]
            if bad.startswith("@"):          # the oracle names the class of the failure itself
                cls, _, bad = bad[1:].partition(": ")
                res.violation("%s:%s:%s" % (label, fn, cls),
                              {"kind": "pure-input", "function": fn, "input": inp, "impl": impl.strip(), "model": m, "why": bad})
                continue
            res.violation("%s:model-vs-impl:%s" % (label, fn),
                          {"kind": "pure-input", "function": fn, "input": inp, "impl": impl.strip(), "model": m, "why": bad})
    if len(mout) - 1 < len(lines) and not (len(mout) == len(lines)):
        res.violation("%s:driver-short-output" % label, {"kind": "driver-problem", "lines": len(lines), "model_lines": len(mout)}, no_input=True)
    res.add("evaluations", n)
    res.add("programs", n)
    res.add("disagreements_checked", n)
    res.cov["distinct_nontrivial"] = res.cov.get("distinct_nontrivial", 0) + len(distinct)
    if rows:
        for r in rows[:: max(1, len(rows) // 3)][:3]:
            res.sample({"input": r[0][:160], "impl": " ".join(r[1])[:160], "model": " ".join(r[2])[:160]})
    return rows


def freelist_pre(text):
    """Translate the free-list client's trace into the vocabulary of the Lean machines Algo/FreeList and
    Algo/TaggedFreeList: dynamic operations (put_last / put_any / get, which name the node only in their result)
    become `put <tid> <node>` / `get <tid>`, results become the machine's ([1] / [1, node] / [0]); the nodes a thread
    holds at the start and the main thread's untraced initial puts go into the header line (own= / init=)."""
    out = []
    for cid, block in vlib.split_cases(text):
        lines = block.split("\n")
        init = [l.split()[5] for l in lines if l.startswith("H 90 ") and " put " in l]
        # next RET of each CALL
        pend = {}
        kind = {}
        for i, l in enumerate(lines):
            w = l.split()
            if len(w) >= 3 and w[0] == "T" and w[2] == "CALL":
                pend[w[1]] = i
            elif len(w) >= 3 and w[0] == "T" and w[2] == "RET" and w[1] in pend:
                kind[pend.pop(w[1])] = (w[3], w[4] if len(w) > 4 else "0")
        own = []
        got = set(init)
        new = []
        for i, l in enumerate(lines):
            w = l.split()
            if len(w) >= 3 and w[0] == "T" and w[2] == "CALL":
                k = kind.get(i)
                if k is None:
                    new.append(l)        # unfinished call (aborted case): left as is
                elif k[0] == "1":
                    if k[1] not in got:
                        own.append("%s:%s" % (k[1], w[1]))
                        got.add(k[1])
                    new.append("T %s CALL put %s %s" % (w[1], w[1], k[1]))
                else:
                    new.append("T %s CALL get %s" % (w[1], w[1]))
            elif len(w) >= 4 and w[0] == "T" and w[2] == "RET":
                if w[3] == "1":
                    new.append("T %s RET 1" % w[1])
                elif len(w) > 4 and w[4] != "0":
                    got.add(w[4])
                    new.append("T %s RET 1 %s" % (w[1], w[4]))
                else:
                    new.append("T %s RET 0" % w[1])
            else:
                new.append(l)
        for i, l in enumerate(new):
            if l.startswith("# family="):
                new[i] = l + " own=" + ",".join(own) + " init=" + ",".join(init)
                break
        out.append("\n".join(new))
    return "\n".join(out) + "\n"


def tie_A(res, client, model, runs, label=None, pre=None):
    """Atomic-trace conformance: the Lean machine `model` must accept, step by step, the atomic operations
    the real code performed (cdsdriver replay <model>)."""
    exe = vlib.build_client(client)
    label = label or (client + ":" + model)
    total = 0
    steps_total = 0
    hashes = set()
    nontrivial = set()
    for run in runs:
        args = ["--seed", str(res.seed), "--trace", "1"] + run["args"]
        text, aborted = vlib.run_cases(exe, args, run["cases"], timeout=run.get("timeout", 600))
        for a in aborted:
            if a["rc"] not in (41, 42):
                res.violation("%s:crash:rc=%s" % (label, a["rc"]), {"kind": "crash", "client": client, "args": run["args"], "case": a["case"], "cmd": a["cmd"]})
        verdicts = vlib.driver(["replay", model], pre(text) if pre else text)
        vmap = {}
        snapmap = {}
        for line in verdicts.split("\n"):
            w = line.split(None, 2)
            if len(w) >= 2:
                if w[0] in ("SNAPOK", "SNAPDIFF"):
                    # the client dumped the real structure at the quiescent end of the case (SNAP line) and the driver compared it
                    # with the rendering of the machine's final state (snapOf of Props/C18Reach: reachable => well-formed)
                    snapmap[w[1]] = (w[0], w[2] if len(w) > 2 else "")
                    continue
                vmap[w[1]] = (w[0], w[2] if len(w) > 2 else "")
        for cid, block in vlib.split_cases(text):
            total += 1
            end = parse_end(block)
            hdr = header_of(block)
            var = hdr.get("variant", "?")
            h = (var, end.get("hash"))
            hashes.add(h)
            if cid in snapmap:
                res.add("final_structures_compared_with_machine")
                if snapmap[cid][0] == "SNAPDIFF":
                    res.violation("%s:%s:final-structure-differs" % (label, var),
                                  {"kind": "model-divergence", "client": client, "model": model, "args": run["args"], "case": cid, "variant": var,
                                   "schedule": sched_of(block), "first_divergence": snapmap[cid][1], "block": block[:20000]}, no_input=True)
            if int(end.get("cas_fail", "0")) + int(end.get("yields", "0")) > 0:
                nontrivial.add(h)
            v = vmap.get(cid, ("MISSING", ""))
            replay = {"kind": "model-divergence", "client": client, "model": model, "args": run["args"], "case": cid,
                      "variant": var, "schedule": sched_of(block), "first_divergence": v[1], "block": block[:20000]}
            if end.get("status") != "ok":
                res.violation("%s:%s:hang:%s" % (label, var, end.get("status")), dict(replay, kind="hang"))
                continue
            if v[0] == "OK":
                m = re.search(r"steps=(\d+)", v[1])
                steps_total += int(m.group(1)) if m else 0
            else:
                # a divergence between model and code: the property is no longer shown by the theorem; the
                # history/oracle ties of the same check decide whether a failing input exists
                sig = re.sub(r"line=\d+", "", v[1])[:80]
                res.violation("%s:%s:diverge" % (label, var), replay, no_input=True)
            if total % 499 == 1:
                tl = [l for l in block.split("\n") if l.startswith("T ")]
                res.sample({"client": client, "model": model, "variant": var, "trace_excerpt": tl[:14]})
    res.add("evaluations", total)
    res.add("programs", total)
    res.add("traces_validated_against_impl", total)
    res.cov["disagreements_checked"] = res.cov.get("disagreements_checked", 0) + total
    res.add("model_steps_matched", steps_total)
    res.cov["distinct_nontrivial"] = res.cov.get("distinct_nontrivial", 0) + len(nontrivial)
    res.cov["distinct_traces"] = res.cov.get("distinct_traces", 0) + len(hashes)
    return total


def tie_S(res, client, runs, label=None):
    """Snapshot tie (C18): after each scheduled program the client dumps the quiescent structure (SNAP), its
    traversal (ITER), size()/empty() and the library's consistency check; `cdsdriver snapshot` judges the dump with
    the Lean well-formedness functions (theorems in Props/C18: well-formed => traversal exact, sorted, duplicate-free,
    levels are sub-lists, search-tree order, ...) and returns the abstract content; the content must equal ITER, and
    it must be a possible final content of the history: one `contains k` observation per key of the program, taken
    from the snapshot, is appended to the history before the verified linearizability checker judges it."""
    exe = vlib.build_client(client)
    label = label or client
    total = 0
    notes = {}
    per_variant = {}
    for run in runs:
        args = ["--seed", str(res.seed)] + run["args"]
        text, aborted = vlib.run_cases(exe, args, run["cases"], timeout=run.get("timeout", 600))
        for a in aborted:
            if a["rc"] in (-9, 124, 137):
                # the chunk was killed by the time limit: an operation (or the destructor) of the real container did not return.
                # Progress is not part of the snapshot properties (C18 speaks of quiescent points that ARE reached):
                # recorded in the evidence, not reported; the remaining cases of the chunk are re-run by run_cases.
                res.add("hangs")
                res.cov.setdefault("hang_status", {})
                res.cov["hang_status"]["timeout"] = res.cov["hang_status"].get("timeout", 0) + 1
                res.cov.setdefault("hang_cases", []).append({"args": run["args"], "case": a["case"], "status": "timeout"})
            elif a["rc"] not in (41, 42):
                res.violation("%s:crash:rc=%s" % (label, a["rc"]), {"kind": "crash", "client": client, "args": run["args"], "case": a["case"], "cmd": a["cmd"]})
        sv = vlib.driver(["snapshot"], text)
        snap = {}
        cur = None
        for line in sv.split("\n"):
            w = line.split(None, 2)
            if not w:
                continue
            if w[0] == "CASE":
                cur = w[1]
                snap[cur] = {"wf": None, "abs": None, "notes": [], "why": ""}
            elif cur is not None and w[0] == "WF":
                m = re.search(r"abs=\[(.*)\]", line)
                snap[cur]["wf"] = True
                snap[cur]["abs"] = [int(x) for x in m.group(1).split(",") if x.strip()] if m else None
            elif cur is not None and w[0] == "NOTWF":
                snap[cur]["wf"] = False
                snap[cur]["why"] = line
            elif cur is not None and w[0] == "NOTE":
                snap[cur]["notes"].append(line)
        # histories extended by the final observations
        ext = []
        blocks = list(vlib.split_cases(text))
        for cid, block in blocks:
            sn = snap.get(cid)
            lines = block.rstrip("\n").split("\n")
            if sn and sn["abs"] is not None:
                keys = set()
                tmax = 0
                for l in lines:
                    w = l.split()
                    if w[:1] == ["P"] and len(w) >= 4 and re.match(r"-?\d+$", w[3]) and w[2] not in ("extract_min", "extract_max"):
                        keys.add(int(w[3]))
                    if w[:1] == ["O"]:
                        tmax = max(tmax, int(w[3]))
                keys |= set(sn["abs"])
                obs = []
                t = tmax + 10
                for k in sorted(keys):
                    obs.append("O 99 %d %d contains %d : %d" % (t, t + 1, k, 1 if k in sn["abs"] else 0))
                    t += 2
                end = [i for i, l in enumerate(lines) if l.startswith("END")]
                at = end[0] if end else len(lines)
                lines = lines[:at] + obs + lines[at:]
            ext.append("\n".join(lines))
        verdicts = vlib.driver(["lincheck"], "\n".join(ext) + "\n")
        vmap = {}
        for line in verdicts.split("\n"):
            w = line.split()
            if len(w) >= 2:
                vmap[w[1]] = w[0]
        for cid, block in blocks:
            total += 1
            end = parse_end(block)
            hdr = header_of(block)
            var = hdr.get("variant", "?")
            per_variant[var] = per_variant.get(var, 0) + 1
            replay = {"kind": "snapshot", "client": client, "args": run["args"], "case": cid, "variant": var, "schedule": sched_of(block), "block": block[:20000]}
            if end.get("status") != "ok":
                # no quiescent point was reached (step budget exhausted under an unfair schedule, or a real deadlock):
                # nothing to judge for a property about quiescent points; recorded, not reported
                st = end.get("status") or "?"
                res.add("hangs")
                res.cov.setdefault("hang_status", {})
                res.cov["hang_status"][st] = res.cov["hang_status"].get(st, 0) + 1
                if len(res.cov.setdefault("hang_cases", [])) < 20:
                    res.cov["hang_cases"].append({"args": run["args"], "case": cid, "variant": var, "status": st})
                continue
            sn = snap.get(cid)
            for x in re.findall(r"^X (.*)$", block, flags=re.M):
                res.violation("%s:%s:oracle:%s" % (label, var, x.split()[0]), dict(replay, kind="oracle", oracle=[x]))
            if not sn or sn["wf"] is None:
                res.violation("%s:%s:driver:no-verdict" % (label, var), dict(replay, kind="driver-problem"), no_input=True)
                continue
            if sn["wf"] is False:
                res.violation("%s:%s:not-well-formed:%s" % (label, var, "-".join(sn["why"].split()[1:4])), dict(replay, verdict=sn["why"]))
                continue
            for n in sn["notes"]:
                key = " ".join(n.split()[1:4])
                notes[key] = notes.get(key, 0) + 1
                if "shape-balance" in n:
                    # C18 names AVL balance for Bronson at quiescent points: structural heights of two siblings differ by more than one.
                    # (A stale stored height or a routing node left with one child is bookkeeping of the relaxed-balance tree:
                    #  counted in the evidence as a note, not a violation.)
                    res.violation("%s:%s:avl-shape-imbalance" % (label, var), dict(replay, verdict=n))
            m = re.search(r"^ITER(.*)$", block, flags=re.M)
            if m:
                it = [int(x) for x in m.group(1).split()]
                if it != sn["abs"]:
                    res.violation("%s:%s:traversal-differs-from-content" % (label, var), dict(replay, iter=it, abs=sn["abs"]))
            v = vmap.get(cid, "MISSING")
            if v == "NOTLIN":
                res.violation("%s:%s:final-content-not-explained-by-history" % (label, var), dict(replay, kind="failing-history", abs=sn["abs"]))
            elif v != "LIN":
                res.violation("%s:%s:driver:%s" % (label, var, v), dict(replay, kind="driver-problem"), no_input=True)
            if total % 997 == 1:
                res.sample({"client": client, "variant": var, "snap": (re.findall(r"^SNAP.*$", block, flags=re.M) or [""])[0][:200], "abs": sn["abs"]})
    res.add("evaluations", total)
    res.add("programs", total)
    res.add("traces_validated_against_impl", total)
    res.cov["disagreements_checked"] = res.cov.get("disagreements_checked", 0) + total
    res.cov.setdefault("per_variant", {}).update({label + ":" + k: v for k, v in per_variant.items()})
    allnotes = res.cov.setdefault("snapshot_notes", {})
    for k, v in notes.items():
        allnotes[k] = allnotes.get(k, 0) + v
    return total


def minmax_oracle(block):
    """C15: a key returned by extract_min (extract_max) must not be larger (smaller) than a key that was present
    throughout the call.  `k2` is certainly present throughout when the successful inserts of k2 completed before the
    call began outnumber the successful removals of k2 that began before the call ended."""
    ops = []
    for line in block.split("\n"):
        if not line.startswith("O "):
            continue
        head, _, ret = line.partition(" : ")
        w = head.split()
        r = [int(x) for x in ret.split()] if ret.strip() else []
        ops.append({"inv": int(w[2]), "res": int(w[3]), "name": w[4], "args": [int(x) for x in w[5:]], "ret": r})
    def inserted(o):
        if o["name"] == "insert" and o["ret"][:1] == [1]:
            return o["args"][0]
        if o["name"] in ("update", "upsert_keep") and o["ret"] == [1, 1]:
            return o["args"][0]
        return None
    def removed(o):
        if o["name"] in ("erase", "extract") and o["ret"][:1] == [1]:
            return o["args"][0]
        if o["name"] in ("extract_min", "extract_max") and o["ret"][:1] == [1]:
            return o["ret"][1]
        return None
    for c in ops:
        if c["name"] not in ("extract_min", "extract_max") or c["ret"][:1] != [1]:
            continue
        k = c["ret"][1]
        keys = set(filter(lambda x: x is not None, (inserted(o) for o in ops)))
        for k2 in keys:
            if (c["name"] == "extract_min" and k2 < k) or (c["name"] == "extract_max" and k2 > k):
                ins = sum(1 for o in ops if inserted(o) == k2 and o["res"] < c["inv"])
                rem = sum(1 for o in ops if o is not c and removed(o) == k2 and o["inv"] < c["res"])
                if ins - rem >= 1:
                    return "%s-skipped-a-key-present-throughout: returned %d although %d was present during the whole call" % (c["name"], k, k2)
    return None

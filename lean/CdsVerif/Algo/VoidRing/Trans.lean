/-
  Transitions of the `WeakRingBuffer<void>` machine: who can fail and when, which cells are written,
  and the consequences of the invariant used by Props/C12VoidRing.lean.
-/
import CdsVerif.Algo.VoidRing.Inv
namespace CdsVerif.Algo.VoidRing
open CdsVerif.Machine CdsVerif.Spec

/-! ### Frames of the plain-work helpers -/

theorem place_frame (s : St) (sz : Nat) (id : Int) (b : Nat) :
    (place s sz id b).cap = s.cap ∧ (place s sz id b).front = s.front ∧ (place s sz id b).back = s.back ∧
    (place s sz id b).cp = s.cp ∧ (place s sz id b).pfront = s.pfront ∧ ∀ r, (place s sz id b).pp ≠ .done r := by
  unfold place
  split
  · split <;> simp
  · simp

theorem deliver_frame (s : St) (op : COp) (f : Nat) (c : Cell) :
    (deliver s op f c).mem = s.mem ∧ (deliver s op f c).cap = s.cap ∧ (deliver s op f c).pp = s.pp ∧
    (deliver s op f c).front = s.front ∧ (deliver s op f c).back = s.back ∧ (deliver s op f c).cp ≠ .done [0] := by
  cases op <;> simp [deliver]

theorem readHdr_frame (s : St) (op : COp) (f : Nat) :
    (readHdr s op f).mem = s.mem ∧ (readHdr s op f).cap = s.cap ∧ (readHdr s op f).pp = s.pp ∧
    (readHdr s op f).front = s.front ∧ (readHdr s op f).back = s.back ∧ (readHdr s op f).cp ≠ .done [0] := by
  unfold readHdr
  split
  · simp
  · exact deliver_frame s op f _

/-- The plain writes of back() hit no live cell. -/
theorem place_mem_live (s : St) (sz : Nat) (id : Int) (hpos : 0 < s.cap) (hpf : s.pfront ≤ s.front)
    (hroom : s.back + realSize sz ≤ s.pfront + s.cap) (j : Nat) (hj1 : s.front ≤ j) (hj2 : j < s.back) :
    (place s sz id s.back).mem (j % s.cap) = s.mem (j % s.cap) := by
  have hr8 := realSize_ge sz
  have holt : s.back % s.cap < s.cap := Nat.mod_lt _ hpos
  unfold place
  split
  · have := mod_ne_of_lt (cap := s.cap) hj2 (by omega)
    split <;> simp [upd, this]
  · dsimp only
    exact wrRec_other _ _ _ _ _ (fun i hi => live_cell_ne (r := realSize sz) hj1 hj2 (by omega) (by omega) hi)

/-- No step of any thread changes a cell of the live region `[front_, back_)`; the capacity is constant. -/
theorem step_mem_live (s : St) (t : Tid) (r : St × Ev) (h : VInv s) (hr : step s t = some r) :
    r.1.cap = s.cap ∧ ∀ j, s.front ≤ j → j < s.back → r.1.mem (j % s.cap) = s.mem (j % s.cap) := by
  have hpos := h.cap_pos
  have hpf := h.pfront_le
  have hbl := h.back_le
  unfold step at hr
  split at hr
  · split at hr
    · rename_i sz id hpp
      split at hr <;> simp only [Option.some.injEq] at hr <;> subst hr
      · exact ⟨rfl, fun _ _ _ => rfl⟩
      · exact ⟨(place_frame _ _ _ _).1, place_mem_live s sz id hpos hpf (by omega)⟩
    · rename_i sz id b hpp
      obtain ⟨rfl, -, -⟩ := h.p_bLdFront sz id b hpp
      split at hr <;> simp only [Option.some.injEq] at hr <;> subst hr
      · exact ⟨rfl, fun _ _ _ => rfl⟩
      · exact ⟨(place_frame _ _ _ _).1,
          place_mem_live { s with pfront := s.front } sz id hpos (Nat.le_refl _) (by dsimp only; omega)⟩
    · split at hr <;> simp only [Option.some.injEq] at hr <;> subst hr <;> exact ⟨rfl, fun _ _ _ => rfl⟩
    · rename_i sz id b hpp
      simp only [Option.some.injEq] at hr; subst hr
      obtain ⟨⟨-, hb, htl, -, -, hreal⟩, hroom⟩ := h.p_wStBack sz id b hpp
      refine ⟨rfl, fun j hj1 hj2 => ?_⟩
      dsimp only
      have holt : s.back % s.cap < s.cap := Nat.mod_lt _ hpos
      have hb0 : b % s.cap = 0 := by
        rw [hb, Nat.add_mod, Nat.mod_eq_of_lt (a := s.cap - s.back % s.cap) (by omega),
          show s.back % s.cap + (s.cap - s.back % s.cap) = s.cap by omega]
        exact Nat.mod_self _
      exact wrRec_other _ _ _ _ _ (fun i hi => by
        have := live_cell_ne (cap := s.cap) (q := b) (r := realSize sz) hj1 (by omega) (by omega) (by omega) hi
        rwa [hb0] at this)
    · simp only [Option.some.injEq] at hr; subst hr; exact ⟨rfl, fun _ _ _ => rfl⟩
    · simp only [Option.some.injEq] at hr; subst hr; exact ⟨rfl, fun _ _ _ => rfl⟩
    · split at hr <;> simp only [Option.some.injEq] at hr <;> subst hr <;> exact ⟨rfl, fun _ _ _ => rfl⟩
    · split at hr <;> simp only [Option.some.injEq] at hr <;> subst hr <;> exact ⟨rfl, fun _ _ _ => rfl⟩
    · simp at hr
  · split at hr
    · split at hr
      · split at hr <;> simp only [Option.some.injEq] at hr <;> subst hr
        · exact ⟨rfl, fun _ _ _ => rfl⟩
        · exact ⟨(readHdr_frame _ _ _).2.1, fun _ _ _ => by rw [(readHdr_frame _ _ _).1]⟩
      · split at hr <;> simp only [Option.some.injEq] at hr <;> subst hr
        · exact ⟨rfl, fun _ _ _ => rfl⟩
        · exact ⟨(readHdr_frame _ _ _).2.1, fun _ _ _ => by rw [(readHdr_frame _ _ _).1]⟩
      · split at hr <;> simp only [Option.some.injEq] at hr <;> subst hr <;> exact ⟨rfl, fun _ _ _ => rfl⟩
      · split at hr <;> simp only [Option.some.injEq] at hr <;> subst hr <;> exact ⟨rfl, fun _ _ _ => rfl⟩
      · simp only [Option.some.injEq] at hr; subst hr; exact ⟨rfl, fun _ _ _ => rfl⟩
      · split at hr <;> simp only [Option.some.injEq] at hr <;> subst hr
        · exact ⟨rfl, fun _ _ _ => rfl⟩
        · exact ⟨(deliver_frame _ _ _ _).2.1, fun _ _ _ => by rw [(deliver_frame _ _ _ _).1]⟩
      · split at hr <;> simp only [Option.some.injEq] at hr <;> subst hr
        · exact ⟨rfl, fun _ _ _ => rfl⟩
        · exact ⟨(deliver_frame _ _ _ _).2.1, fun _ _ _ => by rw [(deliver_frame _ _ _ _).1]⟩
      · split at hr <;> simp only [Option.some.injEq] at hr <;> subst hr <;> exact ⟨rfl, fun _ _ _ => rfl⟩
      · split at hr <;> simp only [Option.some.injEq] at hr <;> subst hr <;> exact ⟨rfl, fun _ _ _ => rfl⟩
      · simp only [Option.some.injEq] at hr; subst hr; exact ⟨rfl, fun _ _ _ => rfl⟩
      · split at hr <;> simp only [Option.some.injEq] at hr <;> subst hr <;> exact ⟨rfl, fun _ _ _ => rfl⟩
      · split at hr <;> simp only [Option.some.injEq] at hr <;> subst hr <;> exact ⟨rfl, fun _ _ _ => rfl⟩
      · simp at hr
    · simp at hr

theorem invoke_frame (s : St) (t : Tid) (op : GOp) (s' : St) (h : invoke s t op = some s') :
    s'.cap = s.cap ∧ s'.mem = s.mem ∧ (t = 0 → s'.cp = s.cp ∧ ∀ r, s'.pp ≠ .done r) ∧
    (t ≠ 0 → s'.pp = s.pp ∧ ∀ r, s'.cp ≠ .done r) := by
  unfold invoke at h
  split at h
  · rename_i ht
    split at h
    · split at h <;> simp at h; subst h; simp [ht]
    · simp at h; subst h; simp [ht]
    · simp at h
  · rename_i ht
    split at h
    · split at h
      · simp at h; subst h; simp [ht]
      · simp at h; subst h; simp [ht]
      · simp at h
    · simp at h

theorem result_frame (s : St) (t : Tid) (r : St × GRet) (h : result s t = some r) :
    r.1.cap = s.cap ∧ r.1.mem = s.mem ∧ (t = 0 → r.1.cp = s.cp ∧ r.1.pp = .idle) ∧
    (t ≠ 0 → r.1.pp = s.pp ∧ r.1.cp = .idle) := by
  unfold result at h
  split at h
  · rename_i ht
    split at h
    · simp at h; subst h; simp [ht]
    · simp at h; subst h; simp [ht]
    · simp at h
  · rename_i ht
    split at h
    · split at h
      · simp at h; subst h; simp [ht]
      · simp at h; subst h; simp [ht]
      · simp at h
    · simp at h

/-- Every transition leaves the live cells and the capacity alone. -/
theorem apply_mem_live (s : St) (t : Tid) (a : Act) (s' : St) (o : Obs) (h : VInv s)
    (hap : model.apply s t a = some (s', o)) :
    s'.cap = s.cap ∧ ∀ j, s.front ≤ j → j < s.back → s'.mem (j % s.cap) = s.mem (j % s.cap) := by
  cases a with
  | invoke op =>
    simp only [Model.apply, model, Option.map_eq_some_iff, Prod.mk.injEq] at hap
    obtain ⟨s1, hs1, rfl, -⟩ := hap
    have := invoke_frame s t op s1 hs1
    exact ⟨this.1, fun _ _ _ => by rw [this.2.1]⟩
  | ret =>
    simp only [Model.apply, model, Option.map_eq_some_iff, Prod.mk.injEq] at hap
    obtain ⟨r, hr, rfl, -⟩ := hap
    have := result_frame s t r hr
    exact ⟨this.1, fun _ _ _ => by rw [this.2.1]⟩
  | step =>
    simp only [Model.apply, model, Option.map_eq_some_iff, Prod.mk.injEq] at hap
    obtain ⟨r, hr, rfl, -⟩ := hap
    exact step_mem_live s t r h hr

/-! ### Failures -/

/-- The producer's `done [0]` (back() returned nullptr) is entered only by one of the producer's two loads
    of `front_`, and only when the value loaded leaves less than `real_size` free bytes behind the local `back`. -/
theorem step_push_fail (s : St) (t : Tid) (r : St × Ev) (hr : step s t = some r)
    (hold : s.pp ≠ .done [0]) (hnew : r.1.pp = .done [0]) :
    t = 0 ∧ r.2 = evLd "front" s.front ∧ ∃ sz id b, (s.pp = .bLdFront sz id b ∨ s.pp = .wLdFront sz id b) ∧
      s.front + s.cap - b < realSize sz := by
  unfold step at hr
  split at hr
  · rename_i ht
    split at hr
    · split at hr <;> simp only [Option.some.injEq] at hr <;> subst hr
      · simp at hnew
      · exact absurd hnew ((place_frame _ _ _ _).2.2.2.2.2 _)
    · rename_i sz id b hpp
      split at hr <;> simp only [Option.some.injEq] at hr <;> subst hr
      · exact ⟨ht, rfl, sz, id, b, .inl hpp, by assumption⟩
      · exact absurd hnew ((place_frame _ _ _ _).2.2.2.2.2 _)
    · rename_i sz id b hpp
      split at hr <;> simp only [Option.some.injEq] at hr <;> subst hr
      · exact ⟨ht, rfl, sz, id, b, .inr hpp, by assumption⟩
      · simp at hnew
    · simp only [Option.some.injEq] at hr; subst hr; simp at hnew
    · simp only [Option.some.injEq] at hr; subst hr; simp at hnew
    · simp only [Option.some.injEq] at hr; subst hr; simp at hnew
    · split at hr <;> simp only [Option.some.injEq] at hr <;> subst hr <;> simp at hnew
    · split at hr <;> simp only [Option.some.injEq] at hr <;> subst hr <;> simp at hnew
    · simp at hr
  · split at hr
    · split at hr
      · split at hr <;> simp only [Option.some.injEq] at hr <;> subst hr
        · exact absurd hnew hold
        · rw [(readHdr_frame _ _ _).2.2.1] at hnew; exact absurd hnew hold
      · split at hr <;> simp only [Option.some.injEq] at hr <;> subst hr
        · exact absurd hnew hold
        · rw [(readHdr_frame _ _ _).2.2.1] at hnew; exact absurd hnew hold
      · split at hr <;> simp only [Option.some.injEq] at hr <;> subst hr <;> exact absurd hnew hold
      · split at hr <;> simp only [Option.some.injEq] at hr <;> subst hr <;> exact absurd hnew hold
      · simp only [Option.some.injEq] at hr; subst hr; exact absurd hnew hold
      · split at hr <;> simp only [Option.some.injEq] at hr <;> subst hr
        · exact absurd hnew hold
        · rw [(deliver_frame _ _ _ _).2.2.1] at hnew; exact absurd hnew hold
      · split at hr <;> simp only [Option.some.injEq] at hr <;> subst hr
        · exact absurd hnew hold
        · rw [(deliver_frame _ _ _ _).2.2.1] at hnew; exact absurd hnew hold
      · split at hr <;> simp only [Option.some.injEq] at hr <;> subst hr <;> exact absurd hnew hold
      · split at hr <;> simp only [Option.some.injEq] at hr <;> subst hr <;> exact absurd hnew hold
      · simp only [Option.some.injEq] at hr; subst hr; exact absurd hnew hold
      · split at hr <;> simp only [Option.some.injEq] at hr <;> subst hr <;> exact absurd hnew hold
      · split at hr <;> simp only [Option.some.injEq] at hr <;> subst hr <;> exact absurd hnew hold
      · simp at hr
    · simp at hr

theorem apply_push_fail (s : St) (t : Tid) (a : Act) (s' : St) (o : Obs)
    (hap : model.apply s t a = some (s', o)) (hold : s.pp ≠ .done [0]) (hnew : s'.pp = .done [0]) :
    t = 0 ∧ a = .step ∧ o = .ev (evLd "front" s.front) ∧
    ∃ sz id b, (s.pp = .bLdFront sz id b ∨ s.pp = .wLdFront sz id b) ∧ s.front + s.cap - b < realSize sz := by
  cases a with
  | invoke op =>
    simp only [Model.apply, model, Option.map_eq_some_iff, Prod.mk.injEq] at hap
    obtain ⟨s1, hs1, rfl, -⟩ := hap
    have hf := invoke_frame s t op s1 hs1
    by_cases ht : t = 0
    · exact absurd hnew ((hf.2.2.1 ht).2 _)
    · rw [(hf.2.2.2 ht).1] at hnew; exact absurd hnew hold
  | ret =>
    simp only [Model.apply, model, Option.map_eq_some_iff, Prod.mk.injEq] at hap
    obtain ⟨r, hr, rfl, -⟩ := hap
    have hf := result_frame s t r hr
    by_cases ht : t = 0
    · rw [(hf.2.2.1 ht).2] at hnew; simp at hnew
    · rw [(hf.2.2.2 ht).1] at hnew; exact absurd hnew hold
  | step =>
    simp only [Model.apply, model, Option.map_eq_some_iff, Prod.mk.injEq] at hap
    obtain ⟨r, hr, rfl, rfl⟩ := hap
    obtain ⟨ht, he, hrest⟩ := step_push_fail s t r hr hold hnew
    exact ⟨ht, rfl, by rw [he], hrest⟩

/-- The consumer's `done [0]` (front() returned nullptr) is entered only by one of the two reloads of
    `back_` in front(), and only when the value loaded is less than a header word ahead of `front`. -/
theorem step_pop_fail (s : St) (t : Tid) (r : St × Ev) (hr : step s t = some r)
    (hold : s.cp ≠ .done [0]) (hnew : r.1.cp = .done [0]) :
    t = 1 ∧ r.2 = evLd "back" s.back ∧ ∃ op f, (s.cp = .fLdBack op f ∨ s.cp = .gLdBack op f) ∧ s.back - f < 8 := by
  unfold step at hr
  split at hr
  · split at hr
    · split at hr <;> simp only [Option.some.injEq] at hr <;> subst hr
      · exact absurd hnew hold
      · rw [(place_frame _ _ _ _).2.2.2.1] at hnew; exact absurd hnew hold
    · split at hr <;> simp only [Option.some.injEq] at hr <;> subst hr
      · exact absurd hnew hold
      · rw [(place_frame _ _ _ _).2.2.2.1] at hnew; exact absurd hnew hold
    · split at hr <;> simp only [Option.some.injEq] at hr <;> subst hr <;> exact absurd hnew hold
    · simp only [Option.some.injEq] at hr; subst hr; exact absurd hnew hold
    · simp only [Option.some.injEq] at hr; subst hr; exact absurd hnew hold
    · simp only [Option.some.injEq] at hr; subst hr; exact absurd hnew hold
    · split at hr <;> simp only [Option.some.injEq] at hr <;> subst hr <;> exact absurd hnew hold
    · split at hr <;> simp only [Option.some.injEq] at hr <;> subst hr <;> exact absurd hnew hold
    · simp at hr
  · split at hr
    · rename_i ht
      split at hr
      · split at hr <;> simp only [Option.some.injEq] at hr <;> subst hr
        · simp at hnew
        · exact absurd hnew (readHdr_frame _ _ _).2.2.2.2.2
      · rename_i op f hcp
        split at hr <;> simp only [Option.some.injEq] at hr <;> subst hr
        · exact ⟨ht, rfl, op, f, .inl hcp, by assumption⟩
        · exact absurd hnew (readHdr_frame _ _ _).2.2.2.2.2
      · split at hr <;> simp only [Option.some.injEq] at hr <;> subst hr <;> simp at hnew
      · split at hr <;> simp only [Option.some.injEq] at hr <;> subst hr <;> simp at hnew
      · simp only [Option.some.injEq] at hr; subst hr; simp at hnew
      · split at hr <;> simp only [Option.some.injEq] at hr <;> subst hr
        · simp at hnew
        · exact absurd hnew (deliver_frame _ _ _ _).2.2.2.2.2
      · rename_i op f hcp
        split at hr <;> simp only [Option.some.injEq] at hr <;> subst hr
        · exact ⟨ht, rfl, op, f, .inr hcp, by assumption⟩
        · exact absurd hnew (deliver_frame _ _ _ _).2.2.2.2.2
      · split at hr <;> simp only [Option.some.injEq] at hr <;> subst hr <;> simp at hnew
      · split at hr <;> simp only [Option.some.injEq] at hr <;> subst hr <;> simp at hnew
      · simp only [Option.some.injEq] at hr; subst hr; simp at hnew
      · split at hr <;> simp only [Option.some.injEq] at hr <;> subst hr <;> simp at hnew
      · split at hr <;> simp only [Option.some.injEq] at hr <;> subst hr <;> simp at hnew
      · simp at hr
    · simp at hr

theorem apply_pop_fail (s : St) (t : Tid) (a : Act) (s' : St) (o : Obs)
    (hap : model.apply s t a = some (s', o)) (hold : s.cp ≠ .done [0]) (hnew : s'.cp = .done [0]) :
    t = 1 ∧ a = .step ∧ o = .ev (evLd "back" s.back) ∧
    ∃ op f, (s.cp = .fLdBack op f ∨ s.cp = .gLdBack op f) ∧ s.back - f < 8 := by
  cases a with
  | invoke op =>
    simp only [Model.apply, model, Option.map_eq_some_iff, Prod.mk.injEq] at hap
    obtain ⟨s1, hs1, rfl, -⟩ := hap
    have hf := invoke_frame s t op s1 hs1
    by_cases ht : t = 0
    · rw [(hf.2.2.1 ht).1] at hnew; exact absurd hnew hold
    · exact absurd hnew ((hf.2.2.2 ht).2 _)
  | ret =>
    simp only [Model.apply, model, Option.map_eq_some_iff, Prod.mk.injEq] at hap
    obtain ⟨r, hr, rfl, -⟩ := hap
    have hf := result_frame s t r hr
    by_cases ht : t = 0
    · rw [(hf.2.2.1 ht).1] at hnew; exact absurd hnew hold
    · rw [(hf.2.2.2 ht).2] at hnew; simp at hnew
  | step =>
    simp only [Model.apply, model, Option.map_eq_some_iff, Prod.mk.injEq] at hap
    obtain ⟨r, hr, rfl, rfl⟩ := hap
    obtain ⟨ht, he, hrest⟩ := step_pop_fail s t r hr hold hnew
    exact ⟨ht, rfl, by rw [he], hrest⟩

/-! ### Consequences of the invariant -/

theorem in_flight_le_cap (s : St) (h : VInv s) : s.front ≤ s.back ∧ s.back - s.front ≤ s.cap := by
  have := h.pfront_le; have := h.front_le; have := h.cback_le; have := h.back_le
  omega

/-- The bytes a record needs at the producer's position: its real size, plus the unusable tail when it does
    not fit before the end of the buffer (`Void.need` of the sequential model). -/
def need (s : St) (sz : Nat) : Nat :=
  if s.cap - s.back % s.cap < realSize sz then s.cap - s.back % s.cap + realSize sz else realSize sz

theorem realSize_le_need (s : St) (sz : Nat) : realSize sz ≤ need s sz := by
  unfold need; split <;> omega

/-- `recsOf` of a region whose oldest segment is a record. -/
theorem recsOf_head {l : List Seg} {sz : Nat} {id : Int} (h : l.head? = some (.data sz id)) :
    ∃ rest, recsOf l = (sz, id) :: rest := by
  obtain ⟨l', rfl⟩ := List.head?_eq_some_iff.mp h
  exact ⟨recsOf l', rfl⟩

/-- The cell behind the live region always has room for a header word (the repaired defect: with a capacity
    that is not a multiple of 8 the tail could be shorter than the marker written into it). -/
theorem header_fits (s : St) (h : VInv s) : s.back % s.cap + 8 ≤ s.cap := by
  have h8 := mod_cap_mod8 h.cap8 s.back
  have hb := h.back8
  have hc := h.cap8
  have hlt : s.back % s.cap < s.cap := Nat.mod_lt _ h.cap_pos
  omega

end CdsVerif.Algo.VoidRing

HOOK_COMMITS = ["1ff129b", "a99d5e7"]
FIX_COMMITS = ["4e1b160", "0b73798", "872da6d", "b5a5c41", "ada87a3", "a2a8667", "23387d2", "95cd43f", "1d40f2f", "9fea99c", "bc380c0", "6fab2aa", "6b8e051", "ae1cc55", "185de16", "f515ae6"]
NOTES = "See DESIGN.md. Every check rebuilds the Lean property module, audits axioms, rebuilds the harness from /repo's working tree (content-hash cache) and runs the ties."
NOT_APPLICABLE = {}
CHECKS = {'C09': {'category': 'translation_validation',
         'technique': 'Lean 4: verified linearizability checker (sound+complete theorem) judging histories of the real stacks under a deterministic scheduler',
         'text': 'Histories of every stack variant, produced by the real code under seeded random/PCT schedules and exhaustive <=1 (thorough <=2) preemption enumeration, are judged against the Lean '
                 'LIFO specification by a checker proved sound and complete in Lean. The theorem is about the checker and the specification; the algorithm model (Treiber atomic-step machine) is '
                 'added on top when finished.',
         'note': 'SC interleavings only; memory orders not modelled; explored schedules only for the history tie; Lean kernel + propext/Classical.choice/Quot.sound.'},
 'C22': {'category': 'proof',
         'technique': 'Lean 4: inductive invariants over atomic-step machines of spin_lock, reentrant_spin_lock and pool_monitor (all schedules, threads, locks/nodes, pool capacities) + atomic-trace '
                      'conformance of the real spin and reentrant locks + history tie and occupancy/pool oracles for all five lock kinds',
         'text': 'C22 (spin): mutual exclusion. C22Monitors: C22_reentrant_mutex, C22_reentrant_lock_word, C22_reentrant_release_by_last_unlock, C22_reentrant_other_threads_excluded; '
                 'C22_pool_monitor_mutex, C22_pool_lock_unique, C22_pool_lock_returned_only_when_unused, C22_pool_refcount_counts_users, C22_pool_spinbit_mutex. Spin and reentrant machines are tied '
                 "by replaying instrumented traces step by step; the pool monitor machine is a hand model tied through the client's oracles and histories (its trace tie is not wired: the lock pool's "
                 'own operations are not model events). injecting_monitor and lock_array: histories judged against the Lean lock specification plus occupancy oracles.',
         'note': 'SC interleavings; memory orders not modelled; discipline (only a holder unlocks) assumed by the theorems and obeyed by the harness; Lean kernel + '
                 'propext/Classical.choice/Quot.sound.'},
 'C25': {'category': 'proof',
         'technique': 'Lean 4 theorems over BitVec about definitions regenerated from the C++ headers on every run (clang AST translator), cross-checked by differential evaluation against the '
                      'compiled code and a reference semantics',
         'text': 'Every bit-reversal implementation, the portable MSB/LSB/popcount/complement helpers and the integer helpers are translated from the headers to Lean on every run; theorems state '
                 'they equal the mathematical definition for all inputs (BitVec.reverse, log2 bounds, popcount...). The splitters are hand models (number_splitter composed from translated members) '
                 'with cut/safe_cut specification theorems; all are tied to the compiled code by differential runs that also compare against an independent reference to produce a failing input when '
                 'something breaks.',
         'note': 'Translator and clang AST trusted, cross-checked by differential runs; inline-asm bsr/bsf variants tied to the translated portable model by differential runs only; '
                 'undefined-behaviour flags (shift >= width) are part of the translation and carried as proof obligations.'},
 'C26': {'category': 'proof',
         'technique': 'Lean 4: closed-form characterisation of the bit-reversed counter by induction (all n < 2^63), undo and Dyck theorems, over a hand model whose primitive is translated; '
                      'differential tie on exhaustive small and random long sequences',
         'text': 'The exact sequence of slots is characterised (counter = n, highBit = log2 n, slot = 2^k + rev_k(n-2^k)); slots are pairwise distinct, complete levels are permutations, dec undoes '
                 "inc exactly, balanced sequences return to the start. The literal 'permutation of 1..n for every n' is false by design (n=5) and is a recorded known finding proved as "
                 'C26_literal_false.',
         'note': 'Hand model of a 30-line class tied by differential runs (exhaustive Dyck prefixes of length 14/18, random walks); no wrap-around at 2^64.'},
 'C27': {'category': 'proof',
         'technique': 'Lean 4 theorems over BitVec 64 about split-order functions regenerated from the headers each run, for each of the three reversal implementations; differential tie on the real '
                      'SplitListSet',
         'text': 'regular keys odd, dummies even, parent dummy before child dummy, bucket contiguity and split refinement are theorems about the translated '
                 'regular_hash/dummy_hash/bucket_no/parent_bucket for all 64-bit hashes and all table sizes 2^0..2^63, with the UB obligations discharged (after the fix: commit). The differential '
                 'tie calls the real functions (bucket_no through a real SplitListSet object).',
         'note': 'Translator trusted and cross-checked; bucket-count logarithm is a parameter (it is an atomic member); rcu/nogc textual copies covered by the fix commit and by reading, not by the '
                 'translator.'},
 'C28': {'category': 'proof',
         'technique': 'Lean 4 theorems about the translated metrics::make and the splitter models (layout exactness, path injectivity, expand-offset agreement); exhaustive differential run over all '
                      'configurations of the quantifier',
         'text': 'Layout exactness is proved for all head/array widths and hash sizes 1,2,4,8 about the Lean definition regenerated from feldman_hashset_base.h; equal hashes follow equal paths, '
                 'distinct hashes diverge before the bits run out (injectivity of the cut sequence, from the cut specification theorem), the slot expand_slot derives from bit_offset() equals the '
                 'traverse slot. All 4420 configurations are also run on the real code, and families of prefix-sharing hashes are inserted into a real FeldmanHashSet.',
         'note': 'split_bitstring/byte_splitter are hand models tied by differential runs; head width 64 is undefined (known finding with proved witness); widths above 32 with byte-array hashes are '
                 "outside split_bitstring's unsigned result (proved witness)."},
 'C01': {'category': 'translation_validation',
         'note': 'SC interleavings only (threads serialised by a baton at every atomic operation); explored schedules only (seeded random, PCT, exhaustive <=1/<=2 preemptions of small programs); '
                 'memory orders not modelled; Lean kernel + propext/Classical.choice/Quot.sound for the checker theorem. std::sort/binary_search/lower_bound modelled by contract; retire discipline '
                 '(retire after unlink, once) obeyed by the harness client.',
         'technique': 'Lean 4 theorems about the reclamation decision of a scan pass (pure model tied by differential runs on the real classic_scan/inplace_scan) + disposer-time oracle on the real '
                      'HP under a deterministic scheduler',
         'text': 'The decision of one scan pass (what is freed given the collected hazards and the retired array, both strategies including the odd-address fallback) is a Lean model with theorems '
                 "'nothing equal to a hazard is freed'; it is tied to the real functions by differential runs. The interleaving-level clause (a guard validated before retirement is seen by every "
                 'later pass) is decided on explored schedules of the real code by an oracle evaluated inside the disposer: no guard whose protect() completed may exist for the object. The protocol '
                 'theorem over all schedules is work in progress and not claimed.'},
 'C02': {'category': 'translation_validation',
         'technique': 'disposer-time oracle on the real DHP under a deterministic scheduler (initial guard counts 4..32, 40 guards per thread to force guard-block extension, detach/re-attach) + Lean '
                      'theorem on the shared scan decision model + HP protocol theorem',
         'text': "DHP's per-pass decision has the same shape as HP's classic scan (binary search of each retired entry in the sorted hazard copy); the Lean theorem covers that decision, and the "
                 'protocol machine of C01 covers the interleaving argument for static records. Guard blocks (block size 16 vs initial size), retired blocks and record reuse are decided on explored '
                 'schedules by the disposer-time oracle only.',
         'note': 'SC interleavings only (threads serialised by a baton at every atomic operation); memory orders not modelled; explored schedules only for the history/oracle/trace ties; Lean kernel '
                 '+ propext/Classical.choice/Quot.sound.'},
 'C03': {'category': 'translation_validation',
         'note': 'SC interleavings only (threads serialised by a baton at every atomic operation); explored schedules only (seeded random, PCT, exhaustive <=1/<=2 preemptions of small programs); '
                 'memory orders not modelled; Lean kernel + propext/Classical.choice/Quot.sound for the checker theorem.',
         'technique': 'Lean 4 theorems (a pass partitions the retired array: kept + freed is a permutation; unprotected => freed) on the scan model tied by differential runs + exactly-once oracles '
                      'on HP/DHP (per-object disposer counter, quiet-scan completeness, count after destruction)',
         'text': 'Per pass: nothing lost or duplicated and every unprotected entry freed are Lean theorems about the decision model (both HP strategies). Across passes, help_scan adoption, detach '
                 'and destruction are decided on explored schedules by counting disposer calls per object and checking after destruction of the singleton that every retired object was disposed '
                 'exactly once; thorough adds an ASan build and the retired-capacity boundary.'},
 'C06': {'category': 'translation_validation',
         'note': 'SC interleavings only (threads serialised by a baton at every atomic operation); explored schedules only (seeded random, PCT, exhaustive <=1/<=2 preemptions of small programs); '
                 'memory orders not modelled; Lean kernel + propext/Classical.choice/Quot.sound for the checker theorem.',
         'technique': 'Lean 4: histories of the real containers under a deterministic scheduler judged against the Lean sequential specification by a linearizability checker proved sound and '
                      'complete in Lean',
         'text': 'Every queue variant (MSQueue, MoirQueue, BasketQueue, OptimisticQueue, RWQueue, FCQueue; intrusive and container; HP/DHP; item counter, seq-cst) is run. The executable Lean model '
                 'here is the sequential specification (Spec.fifo) plus the definition of linearizability; the proved theorem is that the checker decides it exactly, so a history the real code '
                 "produces is accepted iff it is linearizable. The containers' algorithms themselves are not yet modelled step by step: the claim is validation of every explored execution of the "
                 'real code against the model, not a proof over all schedules. '},
 'C07': {'category': 'proof',
         'technique': 'Lean 4: atomic-step machine of VyukovMPMCCycleQueue enqueue/dequeue proved linearizable to the bounded FIFO for all schedules, thread counts and capacities 2^k (fixed '
                      'linearization points, full/empty instants, no-overwrite, cell ownership) + atomic-trace conformance of the real queue against that machine + histories judged by the verified '
                      'linearizability checker',
         'text': 'Algo/Vyukov models every atomic load/store/CAS of m_posEnqueue, m_posDequeue and the cell sequences; C07_vyukov_linearizable (Herlihy-Wing with pending operations), '
                 'C07_vyukov_full_means_full / empty_means_empty, C07_vyukov_positions, C07_vyukov_no_overwrite, C07_vyukov_cell_ownership are theorems for every k >= 1 and every schedule. The real '
                 "queue (dynamic/static buffers, intrusive) is replayed against the machine step by step with values (start state = the machine's own run of the client's warm-up rotations); all "
                 'variants including single-consumer front/pop_front are also judged as histories against Spec.bfifo.',
         'note': 'SC interleavings only (threads serialised by a baton at every atomic operation); memory orders not modelled; explored schedules only for the history/oracle/trace ties; Lean kernel '
                 '+ propext/Classical.choice/Quot.sound. Unbounded positions (no 2^64 wrap); weak CAS never fails spuriously; single_consumer front()/pop_front() has no machine (histories only); '
                 'capacity 1 is a precondition violation of the queue (recorded).'},
 'C10': {'category': 'translation_validation',
         'technique': 'Lean 4: theorems about a transcription of FCDeque::fc_process/fc_apply (elimination pass and batch application refine a permutation of the batch run by Spec.deque; collide '
                      'rule as iff) + kernel theorems of C23 + histories of the real FCDeque judged by the verified linearizability checker',
         'text': "Algo/FC/Batch transcribes the elimination loop shared by FCDeque/FCQueue/FCStack and the containers' apply functions; C10_collide_rule (iff), C10_cross_end_only_if_empty, "
                 'C10_batch_refines, C10_session_refines, C10_batch_linearizable are theorems for every batch. The transcription is a hand model; it is tied to the code by histories of the real '
                 'FCDeque (std::deque and boost deque, elimination on/off, compact factor 1-2, passes 1-4) under the deterministic scheduler, where every collision the real code performs must be '
                 'explained by Spec.deque.',
         'note': 'SC interleavings only (threads serialised by a baton at every atomic operation); memory orders not modelled; explored schedules only for the history/oracle/trace ties; Lean kernel '
                 '+ propext/Classical.choice/Quot.sound. Fixed batch (requests arriving during the walk not modelled); composition batch + kernel is not a Lean theorem.'},
 'C11': {'category': 'translation_validation',
         'technique': 'Lean 4: histories of the real priority queues judged against Spec.maxpq by the verified linearizability checker (FCPriorityQueue; MSPriorityQueue without push/pop overlap) + '
                      'FC batch theorem for FCPriorityQueue + conservation/capacity oracle for MSPriorityQueue histories with push/pop overlap',
         'text': 'FCPriorityQueue: C11_fcpq_batch_refines / batch_linearizable (Algo/FC/Batch) plus histories. MSPriorityQueue: histories without overlap are generated by construction (pre-filled '
                 "pops-only; pushes-only then sequential drain) and judged against the bounded max-priority queue with the object's capacity; histories with overlap (mspq_mixed, imspq_mixed) are "
                 "judged by the conservation oracle (every pushed item popped exactly once after a drain, nothing else popped) and 'push fails only if capacity items can have been present'.",
         'note': 'SC interleavings only (threads serialised by a baton at every atomic operation); memory orders not modelled; explored schedules only for the history/oracle/trace ties; Lean kernel '
                 '+ propext/Classical.choice/Quot.sound. No atomic-step model of the Hunt heap.'},
 'C13': {'category': 'translation_validation',
         'note': 'SC interleavings only (threads serialised by a baton at every atomic operation); explored schedules only (seeded random, PCT, exhaustive <=1/<=2 preemptions of small programs); '
                 'memory orders not modelled; Lean kernel + propext/Classical.choice/Quot.sound for the checker theorem.',
         'technique': 'Lean 4: histories of the real containers under a deterministic scheduler judged against the Lean sequential specification by a linearizability checker proved sound and '
                      'complete in Lean',
         'text': '31 list variants (Michael/Lazy/Iterable; set and kv; HP/DHP/RCU gpi,gpb; intrusive; nogc; compare/less; item counter). The executable Lean model here is the sequential '
                 'specification (Spec.mapConc (keys strict, functor payloads not atomic with the operation)) plus the definition of linearizability; the proved theorem is that the checker decides it '
                 "exactly, so a history the real code produces is accepted iff it is linearizable. The containers' algorithms themselves are not yet modelled step by step: the claim is validation of "
                 'every explored execution of the real code against the model, not a proof over all schedules. '},
 'C14': {'category': 'translation_validation',
         'note': 'SC interleavings only (threads serialised by a baton at every atomic operation); explored schedules only (seeded random, PCT, exhaustive <=1/<=2 preemptions of small programs); '
                 'memory orders not modelled; Lean kernel + propext/Classical.choice/Quot.sound for the checker theorem.',
         'technique': 'Lean 4: histories of the real containers under a deterministic scheduler judged against the Lean sequential specification by a linearizability checker proved sound and '
                      'complete in Lean',
         'text': '53 hash variants (MichaelHashSet/Map over every list, SplitList static/dynamic tables with growth, FeldmanHashSet/Map at minimal widths with shared-prefix hashes; HP/DHP/RCU/nogc). '
                 'The executable Lean model here is the sequential specification (Spec.mapConc) plus the definition of linearizability; the proved theorem is that the checker decides it exactly, so '
                 "a history the real code produces is accepted iff it is linearizable. The containers' algorithms themselves are not yet modelled step by step: the claim is validation of every "
                 'explored execution of the real code against the model, not a proof over all schedules. '},
 'C15': {'category': 'translation_validation',
         'note': 'SC interleavings only (threads serialised by a baton at every atomic operation); explored schedules only (seeded random, PCT, exhaustive <=1/<=2 preemptions of small programs); '
                 'memory orders not modelled; Lean kernel + propext/Classical.choice/Quot.sound for the checker theorem.',
         'technique': 'Lean 4: histories of the real containers under a deterministic scheduler judged against the Lean sequential specification by a linearizability checker proved sound and '
                      'complete in Lean',
         'text': '27 variants (SkipListSet/Map, EllenBinTree set/map, BronsonAVLTreeMap value/pointer with injecting and pool monitors; HP/DHP/RCU). The executable Lean model here is the sequential '
                 'specification (Spec.mapRelaxed) plus the definition of linearizability; the proved theorem is that the checker decides it exactly, so a history the real code produces is accepted '
                 "iff it is linearizable. The containers' algorithms themselves are not yet modelled step by step: the claim is validation of every explored execution of the real code against the "
                 "model, not a proof over all schedules. extract_min/extract_max: returned key present and empty only if empty are in the specification; 'no key present throughout is smaller/larger' "
                 'is a real-time oracle over the history.'},
 'C16': {'category': 'translation_validation',
         'note': 'SC interleavings only (threads serialised by a baton at every atomic operation); explored schedules only (seeded random, PCT, exhaustive <=1/<=2 preemptions of small programs); '
                 'memory orders not modelled; Lean kernel + propext/Classical.choice/Quot.sound for the checker theorem.',
         'technique': 'Lean 4: histories of the real containers under a deterministic scheduler judged against the Lean sequential specification by a linearizability checker proved sound and '
                      'complete in Lean',
         'text': '23 variants (StripedSet/Map over list/set/flat buckets, striping and refinable policies with forced resizes; CuckooSet/Map striping/refinable, list/vector probe sets, stored hash '
                 'on/off). The executable Lean model here is the sequential specification (Spec.mapConc) plus the definition of linearizability; the proved theorem is that the checker decides it '
                 "exactly, so a history the real code produces is accepted iff it is linearizable. The containers' algorithms themselves are not yet modelled step by step: the claim is validation of "
                 'every explored execution of the real code against the model, not a proof over all schedules. '},
 'C23': {'category': 'translation_validation',
         'technique': 'Lean 4: 28-pc atomic-step machine of the flat-combining kernel with an 18-clause inductive invariant (mutual exclusion of combiners, exactly-once, response after execution, '
                      'pending not executed, owner republishes) for all schedules + batch theorems of the containers + histories of every flat-combining container and a reclamation oracle on the '
                      'real code',
         'text': 'Algo/FC/Kernel models acquire_record, publish, combine, try_combining, combining (useful/empty passes), combining_pass, compact_list (deactivation loop), wait_for_combining with '
                 'back-off and release_record with ages and compact factor; C23_mutex, C23_exactly_once, C23_response_after_exec, C23_pending_not_executed, C23_owner_republishes, '
                 'C23_active_unlinked_window hold for any number of threads. The machine is a hand model (publication list as a set, one record per thread, no thread exit); it is tied to the code '
                 "through the containers' histories (a request executed twice, never, or answered early breaks linearizability) and the record-reclamation clause is decided by a quarantining "
                 'allocator that checks, when a record is freed, that it is unreachable from the publication list (this found the compact_list defect, fixed).',
         'note': 'SC interleavings only (threads serialised by a baton at every atomic operation); memory orders not modelled; explored schedules only for the history/oracle/trace ties; Lean kernel '
                 '+ propext/Classical.choice/Quot.sound. Liveness of a deactivated request: safety form only. Wait strategy backoff only.'},
 'C04': {'category': 'proof',
         'note': 'SC interleavings only (threads serialised by a baton at every atomic operation); explored schedules only for the history/oracle ties; memory orders not modelled; Lean kernel + '
                 'propext/Classical.choice/Quot.sound. general_threaded and signal_buffered (OS thread / signals) are not run; std::mutex replaced by the spin lock through the template parameter; '
                 'the buffer is an atomic bag in the model (its queue is judged by C07).',
         'technique': 'Lean 4: inductive invariants over an atomic-step machine of the general-purpose RCU (two-phase flip, nesting, epoch tagging, buffer overflow, destruct) for all schedules and '
                      'thread counts + oracles evaluated on the real general_instant/general_buffered under a deterministic scheduler',
         'text': 'C04_grace_period, C04_no_dispose_under_preexisting_reader (both general flavours, including the epoch-tag lemma), C04_nested are Lean theorems about a hand model of '
                 'gp.h/gpi.h/gpb.h. The model is tied to the code by oracles on the real execution (disposer-time check against every open critical section that began before the retire, '
                 'synchronize-return check, deref of poisoned objects), 30000+ schedules per run including buffer capacity 1 and overflow; the trace-conformance replay of this machine is not wired '
                 'yet (named in the evidence).'},
 'C05': {'category': 'proof',
         'note': 'SC interleavings only (threads serialised by a baton at every atomic operation); explored schedules only for the history/oracle ties; memory orders not modelled; Lean kernel + '
                 'propext/Classical.choice/Quot.sound. same limits as C04.',
         'technique': 'Lean 4: conservation invariant (every retired object in exactly one place) and exactly-once theorems over the same RCU machine incl. destruct + per-object disposer counters on '
                      'the real code',
         'text': 'C05_at_most_once, C05_only_after_retire, C05_only_after_grace_period, C05_conservation, C05_all_disposed_after_destruct are Lean theorems about the RCU machine (including the '
                 'element whose push failed on a full buffer and the pushed-back element with a newer epoch). The real flavours are run with per-object counters checked after destruction of the '
                 'singleton.'},
 'C12': {'category': 'proof',
         'note': 'SC interleavings only (threads serialised by a baton at every atomic operation); explored schedules only for the history/oracle ties; memory orders not modelled; Lean kernel + '
                 'propext/Classical.choice/Quot.sound. counters are Nat (no 2^64 wrap); capacity rounded to a multiple of 8 by the constructor after the fix commit.',
         'technique': 'Lean 4: invariant proofs over a two-thread atomic-step machine of the typed ring buffer (all interleavings, any capacity and batch sizes) tied by trace conformance; proved '
                      'sequential model of the variable-size record layout; byte-exact consumer oracle on the real void buffer',
         'text': "C12_typed_fifo, buffer content, push/pop failure characterisations and never-overwrites are theorems about the machine that the real typed buffer's traces are replayed against step "
                 "by step (3000+ traces per run). The void variant's record layout (headers, tail markers, wrap) is a proved sequential model over the translated size helpers; its producer/consumer "
                 'interleavings are decided by the byte-exact oracle on explored schedules.'},
 'C08': {'category': 'exploration',
         'note': 'SC interleavings only (threads serialised by a baton at every atomic operation); explored schedules only for the history/oracle ties; memory orders not modelled; Lean kernel + '
                 'propext/Classical.choice/Quot.sound.',
         'technique': 'oracles over self-recorded real-time histories of the real SegmentedQueue (conservation, quasi bound in its sound real-time reading, empty rule) under a deterministic '
                      'scheduler with a deterministic permutation generator; no Lean model yet',
         'text': 'Decided on explored schedules only. The Lean side currently contributes only the verified checker infrastructure; a segmented-queue model is not written.'},
 'C17': {'category': 'translation_validation',
         'note': 'sequential growth only; concurrent resizes are judged by C14/C16.',
         'technique': 'single-threaded differential runs of CuckooSet/StripedSet/SplitListSet growth against a std::set reference after every operation, with degenerate hash families; Lean theorems '
                      "for the split-order (C27) and Feldman (C28) parts of 'growth moves nothing it should not'",
         'text': 'SplitList growth never moves an element and Feldman expansion moves one element one level: these parts rest on the C27/C28 theorems. Striped and cuckoo rehash have no Lean model '
                 'yet: decided exactly (single-threaded) on generated sequences. The CuckooSet::resize drop is a recorded known finding with a kept witness.'},
 'C20': {'category': 'translation_validation',
         'note': 'variants are those instantiated by the harness clients, not the full trait matrix of test/unit.',
         'technique': 'single-threaded operation sequences on every variant of every client judged against the strict Lean reference specifications by the verified checker; spec laws of update() as '
                      'Lean theorems',
         'text': 'About 190 container variants x 2500 sequences per quick run; return values and payloads observed through functors are compared with Spec.map/fifo/bfifo/lifo/deque/maxpq. '
                 'size/empty/clear, functor call counts and disposer counts are only partly covered (named in the evidence).'},
 'C21': {'category': 'proof',
         'technique': 'Lean 4: atomic-step machines of FreeList (reference-counted) and TaggedFreeList (tagged double-width CAS) with node reuse, proved for all schedules (no double hand-out, '
                      'conservation, quiescent completeness, tag / reference lemmas) + atomic-trace conformance of the real free lists against the machines + ownership oracles (also for '
                      'CachedFreeList)',
         'text': 'C21_freelist_no_double_handout, C21_freelist_conservation, C21_freelist_quiescent_complete, C21_freelist_ref_means_unchanged, C21_freelist_no_borrow and the tagged counterparts '
                 '(C21_tagged_cas_means_unchanged: equal tag means no successful head CAS in between) hold for any number of threads and nodes, with stale pointers and counted references on reused '
                 "nodes. Real traces (every atomic operation on head, m_freeListRefs, m_freeListNext with values, every result) are replayed against the machines; the start state is the machine's "
                 "own run of the client's initial puts. CachedFreeList has no machine and is decided by the client's oracles.",
         'note': 'SC interleavings only (threads serialised by a baton at every atomic operation); memory orders not modelled; explored schedules only for the history/oracle/trace ties; Lean kernel '
                 '+ propext/Classical.choice/Quot.sound. FreeList count below 2^31, TaggedFreeList tag unbounded; CachedFreeList: explored schedules only.'},
 'C24': {'category': 'exploration',
         'technique': 'ownership / marker / destructor / preallocated-range oracles on the real vyukov_queue_pool, lazy, bounded pools and pool_allocator under a deterministic scheduler, up to and '
                      'past capacity; the pooled type has a constructor and destructor with visible effects that are scheduling points; the underlying queue is the machine proved in C07',
         'text': 'Decided on explored schedules only: double-alloc, corrupted marker, destroyed-while-allocated, foreign object, heap-while-free, spurious bad_alloc, and at quiescence '
                 'lost-pool-object / overcommit / lazy reuse order / leak. Rests on C07 (Lean machine + trace conformance) for the underlying queue.',
         'note': 'SC interleavings only (threads serialised by a baton at every atomic operation); memory orders not modelled; explored schedules only for the history/oracle/trace ties; Lean kernel '
                 '+ propext/Classical.choice/Quot.sound.'},
 'C18': {'category': 'translation_validation',
         'technique': 'Lean 4: well-formedness predicates over dumps of the quiescent structures with theorems (well-formed => traversal exact, strictly increasing, duplicate-free; skip-list levels '
                      'are ordered sub-lists; search-tree order; strict AVL; split order) + the dump of every explored final state of the real containers judged by those Lean functions + final '
                      'content tied to the history by the verified linearizability checker',
         'text': 'After each program (concurrent, any explored schedule, or sequential) the main thread dumps the structure through the private fields; `cdsdriver snapshot` evaluates '
                 "listWf/skipWf/ellenWf/avlWf/splitWf (Base/Snapshot) and returns the abstract content, which must equal the container's own traversal, agree with size()/empty() where a counter "
                 'exists, and be a possible final content of the history (one contains-observation per key is appended and the verified checker judges the whole). C18_list, C18_skiplist, C18_ellen, '
                 "C18_avl, C18_avl_strict, C18_splitlist state what well-formedness implies; both libraries' check_consistency() are transcribed and Bronson's is proved vacuous for balance "
                 '(libCheck_eq_localOrder). AVL balance is judged on structural heights (shapeBalanced_iff).',
         'note': 'SC interleavings only (threads serialised by a baton at every atomic operation); memory orders not modelled; explored schedules only for the history/oracle/trace ties; Lean kernel '
                 "+ propext/Classical.choice/Quot.sound. 'Every reachable quiescent state is well-formed' is decided on explored schedules, not proved. Known finding: Bronson can be left imbalanced "
                 'by 2 at quiescence.'},
 'C19': {'category': 'exploration',
         'technique': 'relational oracle over the real iterators of IterableList, MichaelHashSet/SplitListSet over it and FeldmanHashSet/Map (forward and reverse) with concurrent updaters under a '
                      "deterministic scheduler; the oracle's clauses are stated as decidable Lean definitions (Props/C19)",
         'text': 'One iterating thread and 2-3 updating threads; the client logs additions, removals, visits and erase_at calls with scheduler timestamps and judges: never a disposed current element '
                 '(flag read on arrival and before leaving, scheduling points in between), every element present throughout visited (exactly once / in key order for lists, at least once for '
                 'Feldman), no phantom, erase_at true removes exactly that element, erase_at false only if the element was removed or replaced, final content. Feldman hashes share prefixes so that '
                 'array nodes split under the iterator. No iterator model in Lean yet.',
         'note': 'SC interleavings only (threads serialised by a baton at every atomic operation); memory orders not modelled; explored schedules only for the history/oracle/trace ties; Lean kernel '
                 '+ propext/Classical.choice/Quot.sound. HP (and DHP for the intrusive list) only; RCU Feldman iterators not driven.'}}

/-
  C14 — the split-ordered list (cds::intrusive::SplitListSet<HP> over MichaelList<HP>, DYNAMIC bucket table — the
  configuration underneath the harness variant `sset_michael_hp`: insert, erase with functor, find with functor,
  contains) is a linearizable set / map, for every hash function:
    * the single shared list stays sorted by split order, dummy nodes are never erased, every published bucket
      pointer points to the linked unmarked dummy of its bucket, and a bucket's dummy precedes every key of the
      bucket — so a search from the dummy finds exactly what a search from the head would;
    * every concurrent history of the atomic-step model `Algo/SplitList/Model.lean` is linearizable to `Spec.map`
      (full proof, hindsight linearization points of the failing operations included);
    * growing the table changes no operation's result, and a lazily initialised child bucket sees every key of its
      range.
  Property theorems only; the model, the invariant and the proofs live in
  `Algo/SplitList/{Model,Lemmas,Inv,Mono,StepInit,StepCount,StepSearch,StepCas,Reach,Lin,Cfg64}.lean`.

  Hypotheses.  The theorems hold for every configuration `c : Cfg` (hash functor, `regular_hash`, `dummy_hash`,
  capacity, load factor) that satisfies `SOHyp c`, i.e. the split-order facts of `Props/C27.lean` in the form used:
  `C27_regular_odd_*` / `C27_dummy_even_*` (parity), `C27_dummy_before_regular_*` (the dummy of `hash mod 2^k` sorts
  before the regular key, every `k ≤ 63`), `C27_parent_dummy_before_*` with `C27_parent_bucket` (parent's dummy before
  the bucket's dummy, bucket numbers `< 2^63`), `dummy_hash( 0 ) = 0`, and `capacity ≤ 2^63`.  The contiguity
  (`C27_contiguous_*`) and injectivity facts are NOT needed for correctness.  `C14_cfg64_hyp` discharges `SOHyp` for
  the 64-bit bit-reversal keys of the real code (`cfg64`, any hash functor into `size_t`).
  Assumptions of the model (not proved here): garbage-collected heap (no node reuse while a thread may still hold a
  pointer: hazard pointers, C01/C02); the first aux-node segment is never exhausted (see `Model.lean`).
  Tie to the real code: traces of the harness client `hashset`, variant `isset_michael_hp_named`, are replayed step by
  step by `cdsdriver replay splitlist`.
-/
import CdsVerif.Algo.SplitList.Lin
import CdsVerif.Algo.SplitList.Cfg64
namespace CdsVerif.Props.C14SplitList
open CdsVerif.Machine CdsVerif.Lin CdsVerif.Spec CdsVerif.Algo

/-! ### (2) Linearizability -/

/-- Linearizability, general form (Herlihy–Wing with completion of pending operations), for EVERY configuration
    satisfying the split-order hypotheses, every schedule, any number of threads, any client program of
    `insert k v` / `erase k` / `find k` / `contains k`, any keys.  The history of the completed operations of the run —
    extended by response records for pending operations that have passed their linearization point definitively (at
    most one per thread; result fixed at the linearization point, response time "end of run"), all other pending
    operations being dropped — is linearizable to the sequential map. -/
theorem C14_splitlist_linearizable (c : SplitList.Cfg) (hc : SplitList.SOHyp c) (sched : List (Tid × Act))
    (s : SplitList.St) (os : List (Tid × Obs))
    (h : (SplitList.model c).run (SplitList.init c) sched = some (s, os)) :
    ∃ extra : List (OpRec GOp GRet),
      (∀ e ∈ extra, SplitList.pendingOf os e.tid = some (e.op, e.inv) ∧ e.res = os.length ∧
          SplitList.postRet s.val (s.pc e.tid) = some e.ret) ∧
      extra.Pairwise (fun a b => a.tid ≠ b.tid) ∧
      Linearizable map (SplitList.historyOf os ++ extra) :=
  SplitList.splitlist_linearizable hc sched s os h

/-- Runs in which every invoked operation has returned: the history is linearizable as it is. -/
theorem C14_splitlist_linearizable_complete_runs (c : SplitList.Cfg) (hc : SplitList.SOHyp c)
    (sched : List (Tid × Act)) (s : SplitList.St) (os : List (Tid × Obs))
    (h : (SplitList.model c).run (SplitList.init c) sched = some (s, os)) (hq : ∀ t, s.pc t = .idle) :
    Linearizable map (SplitList.historyOf os) :=
  SplitList.splitlist_linearizable_complete_runs hc sched s os h hq

/-- Runs at whose end no thread is between its definitive linearization point and its return. -/
theorem C14_splitlist_linearizable_no_effect_pending (c : SplitList.Cfg) (hc : SplitList.SOHyp c)
    (sched : List (Tid × Act)) (s : SplitList.St) (os : List (Tid × Obs))
    (h : (SplitList.model c).run (SplitList.init c) sched = some (s, os))
    (hq : ∀ t, SplitList.postRet s.val (s.pc t) = none) :
    Linearizable map (SplitList.historyOf os) :=
  SplitList.splitlist_linearizable_no_effect_pending hc sched s os h hq

theorem C14_splitlist_history_sound (os : List (Tid × Obs)) (r : OpRec GOp GRet) (h : r ∈ SplitList.historyOf os) :
    os[r.inv]? = some (r.tid, .call r.op) ∧ os[r.res]? = some (r.tid, .ret r.ret) ∧ r.inv < r.res :=
  SplitList.historyOf_sound os r h

/-- Every completed operation takes effect at an instant strictly inside its interval (in particular: a key reported
    absent was absent, a key reported present was present, at some instant during the operation). -/
theorem C14_splitlist_effect_instant (c : SplitList.Cfg) (hc : SplitList.SOHyp c) (sched : List (Tid × Act))
    (s : SplitList.St) (os : List (Tid × Obs))
    (h : (SplitList.model c).run (SplitList.init c) sched = some (s, os)) (r : OpRec GOp GRet)
    (hr : r ∈ SplitList.historyOf os) :
    ∃ j s1, r.inv < j ∧ j < r.res ∧
      (SplitList.model c).run (SplitList.init c) (sched.take j) = some (s1, os.take j) ∧
      ∃ m', map.next (SplitList.absMap s1) r.op r.ret = some m' :=
  SplitList.splitlist_effect_instant hc sched s os h r hr

theorem C14_splitlist_absent_hindsight (c : SplitList.Cfg) (hc : SplitList.SOHyp c) (sched : List (Tid × Act))
    (s : SplitList.St) (os : List (Tid × Obs))
    (h : (SplitList.model c).run (SplitList.init c) sched = some (s, os)) (r : OpRec GOp GRet)
    (hr : r ∈ SplitList.historyOf os) (k : Int)
    (hop : r.op = ⟨"erase", [k]⟩ ∨ r.op = ⟨"find", [k]⟩ ∨ r.op = ⟨"contains", [k]⟩) (hret : r.ret = [0]) :
    ∃ j s1, r.inv < j ∧ j < r.res ∧
      (SplitList.model c).run (SplitList.init c) (sched.take j) = some (s1, os.take j) ∧
      ∀ v, (k, v) ∉ SplitList.absMap s1 :=
  SplitList.splitlist_absent_hindsight hc sched s os h r hr k hop hret

theorem C14_splitlist_present_hindsight (c : SplitList.Cfg) (hc : SplitList.SOHyp c) (sched : List (Tid × Act))
    (s : SplitList.St) (os : List (Tid × Obs))
    (h : (SplitList.model c).run (SplitList.init c) sched = some (s, os)) (r : OpRec GOp GRet)
    (hr : r ∈ SplitList.historyOf os) (k : Int)
    (hop : (∃ v, r.op = ⟨"insert", [k, v]⟩ ∧ r.ret = [0]) ∨ (∃ v, r.op = ⟨"find", [k]⟩ ∧ r.ret = [1, v]) ∨
      (r.op = ⟨"contains", [k]⟩ ∧ r.ret = [1]) ∨ (∃ v, r.op = ⟨"erase", [k]⟩ ∧ r.ret = [1, v])) :
    ∃ j s1 v, r.inv < j ∧ j < r.res ∧
      (SplitList.model c).run (SplitList.init c) (sched.take j) = some (s1, os.take j) ∧
      (k, v) ∈ SplitList.absMap s1 ∧ ∀ w, r.ret = [1, w] → w = v :=
  SplitList.splitlist_present_hindsight hc sched s os h r hr k hop

/-- Refinement: the step at which a thread fixes its result (tentatively for the hindsight points) is exactly the
    `Spec.map` transition of its operation on the abstract map; every other step — all of `get_bucket`, `init_bucket`
    (linking a dummy node, publishing a bucket pointer), `inc_item_count` (growing the table) and every physical
    unlink — leaves the abstract map unchanged. -/
theorem C14_splitlist_lp_refines (c : SplitList.Cfg) (hc : SplitList.SOHyp c) (s s' : SplitList.St) (t : Tid) (ev : Ev)
    (hreach : (SplitList.model c).Reachable (SplitList.init c) s) (hs : SplitList.step c s t = some (s', ev)) :
    (SplitList.lpRet c s.so s.uk s.val (s.pc t) = none →
      ∀ r, SplitList.lpRet c s'.so s'.uk s'.val (s'.pc t) = some r →
      ∃ op m', SplitList.opOf s.uk s.val (s.pc t) = some op ∧ map.next (SplitList.absMap s) op r = some m' ∧
        ∀ k v, mfind m' k = some v ↔ (k, v) ∈ SplitList.absMap s') ∧
    ((SplitList.lpRet c s.so s.uk s.val (s.pc t) ≠ none ∨ SplitList.lpRet c s'.so s'.uk s'.val (s'.pc t) = none) →
      ∀ k v, (k, v) ∈ SplitList.absMap s' ↔ (k, v) ∈ SplitList.absMap s) :=
  SplitList.step_refines hc hreach hs

/-! ### (1) Structure: split order, dummies, bucket table -/

/-- The list stays sorted by split order, dummies are never erased.  In every reachable state: following the
    pointers from the dummy of bucket 0 visits the finite list `absNodes s` and ends in null; ALL linked nodes (dummy
    nodes and items, marked or not) are strictly sorted by ( split-order hash, user key ), hence pairwise different;
    no dummy node (even id) is ever marked; linked dummy nodes carry an even key, linked items carry
    `regular_hash( hash( key ))`. -/
theorem C14_splitlist_sorted (c : SplitList.Cfg) (hc : SplitList.SOHyp c) (s : SplitList.St)
    (hreach : (SplitList.model c).Reachable (SplitList.init c) s) :
    Michael.Chain s.next (some 0) (SplitList.absNodes s) ∧
      (SplitList.absNodes s).Pairwise (SplitList.KLt s.so s.uk) ∧ (SplitList.absNodes s).Nodup ∧
      (∀ a, a % 2 = 0 → s.mark a = false) ∧
      (∀ a, a ∈ SplitList.absNodes s →
        (a % 2 = 0 → s.so a % 2 = 0) ∧ (a % 2 = 1 → s.so a = c.reg (c.hash (s.uk a)))) :=
  SplitList.reachable_structure hc s hreach

/-- Every published bucket pointer points to the linked, unmarked dummy node of that bucket (the node carries
    `dummy_hash( bucket )`); bucket 0 is always published; the bucket count stays within the word. -/
theorem C14_splitlist_bucket_table (c : SplitList.Cfg) (hc : SplitList.SOHyp c) (s : SplitList.St)
    (hreach : (SplitList.model c).Reachable (SplitList.init c) s) :
    s.table 0 = some 0 ∧ s.cnt2 ≤ c.maxLog ∧
    ∀ b d, s.table b = some d →
      d ∈ SplitList.absNodes s ∧ d % 2 = 0 ∧ s.mark d = false ∧ s.so d = c.dum b ∧ s.uk d = 0 :=
  SplitList.reachable_table hc s hreach

/-- A key's bucket dummy precedes the key's position — for every table size `2^j`, `j ≤ maxLog`: if bucket
    `b = hash( key a ) mod 2^j` is published, its dummy `d` sorts before the linked item `a` and `a` lies on the part
    of the list behind `d`.  Hence a search from the dummy finds what a search from the head would, and (growth, 3b)
    a child bucket initialised lazily after the table has grown sees every key of its range that was inserted through
    its parent. -/
theorem C14_splitlist_bucket_sees (c : SplitList.Cfg) (hc : SplitList.SOHyp c) (s : SplitList.St)
    (hreach : (SplitList.model c).Reachable (SplitList.init c) s) (b d a j : Nat) (hb : s.table b = some d)
    (ha : a ∈ SplitList.absNodes s) (hodd : a % 2 = 1) (hj : j ≤ c.maxLog) (hab : c.hash (s.uk a) % 2 ^ j = b) :
    SplitList.KLt s.so s.uk d a ∧ ∃ l1 l2, SplitList.absNodes s = l1 ++ d :: l2 ∧ a ∈ l2 :=
  SplitList.reachable_bucket_sees hc s hreach b d a j hb ha hodd hj hab

/-- The dummy a MichaelList operation starts from (`refHead`) is linked, unmarked and sorts before the key the
    operation searches for. -/
theorem C14_splitlist_start_dummy (c : SplitList.Cfg) (hc : SplitList.SOHyp c) (s : SplitList.St)
    (hreach : (SplitList.model c).Reachable (SplitList.init c) s) (t : Tid) (d : Nat)
    (hd : SplitList.pcStart (s.pc t) = some d) :
    d ∈ SplitList.absNodes s ∧ d % 2 = 0 ∧ s.mark d = false ∧
      SplitList.klt (s.so d) (s.uk d) (SplitList.skeyS c s.so (s.pc t)) (SplitList.skeyU s.uk (s.pc t)) :=
  SplitList.reachable_start hc s hreach t d hd

/-- No key is ever present twice. -/
theorem C14_splitlist_no_duplicate_keys (c : SplitList.Cfg) (hc : SplitList.SOHyp c) (s : SplitList.St)
    (hreach : (SplitList.model c).Reachable (SplitList.init c) s) : ((SplitList.absMap s).map (·.1)).Nodup :=
  SplitList.reachable_no_duplicate_keys hc s hreach

/-- A marked node is frozen; keys and payloads of linked nodes never change; a published bucket pointer never
    changes; only marked nodes ever leave the list. -/
theorem C14_splitlist_frozen_and_immutable (c : SplitList.Cfg) (hc : SplitList.SOHyp c) (s s' : SplitList.St) (t : Tid)
    (a : Act) (o : Obs) (hreach : (SplitList.model c).Reachable (SplitList.init c) s)
    (hap : (SplitList.model c).apply s t a = some (s', o)) :
    (∀ x, s.mark x = true → s'.mark x = true ∧ s'.next x = s.next x) ∧
    (∀ x, x ∈ SplitList.absNodes s → s'.so x = s.so x ∧ s'.uk x = s.uk x ∧ s'.val x = s.val x) ∧
    (∀ b d, s.table b = some d → s'.table b = some d) ∧
    (∀ x, (x ∈ SplitList.absNodes s ∨ s.mark x = true) → (x ∈ SplitList.absNodes s' ∨ s'.mark x = true)) :=
  SplitList.frozen_and_immutable hc hreach hap

/-- A node is marked by exactly one erase (the one that returns success for it), and only items are marked. -/
theorem C14_splitlist_erase_once (c : SplitList.Cfg) (hc : SplitList.SOHyp c) (s s' : SplitList.St) (t : Tid) (ev : Ev)
    (hreach : (SplitList.model c).Reachable (SplitList.init c) s) (hs : SplitList.step c s t = some (s', ev)) :
    (∀ a, s.mark a = false → s'.mark a = true →
      ∃ k d p x, s.pc t = .eMark k d p a x ∧ s'.pc t = .eUnl k p a x ∧ s.uk a = k ∧ a ∈ SplitList.absNodes s ∧
        a % 2 = 1 ∧ SplitList.postRet s'.val (s'.pc t) = some [1, s.val a]) ∧
    (∀ t1 t2 k1 p1 a x1 k2 p2 x2, s'.pc t1 = .eUnl k1 p1 a x1 → s'.pc t2 = .eUnl k2 p2 a x2 → t1 = t2) :=
  SplitList.erase_once hc hreach hs

/-! ### (3) Growth -/

/-- Doubling the bucket count changes no operation's result.  The only step that changes `m_nBucketCountLog2`
    increments it, touches neither the list nor the marks nor the bucket table, leaves `absNodes` and `absMap`
    literally unchanged, is performed by a thread whose result `[1]` is already definitive and stays so, and changes
    no other thread's tentative or definitive result.  (No rehash: nothing but the count word changes.) -/
theorem C14_splitlist_growth (c : SplitList.Cfg) (hc : SplitList.SOHyp c) (s s' : SplitList.St) (t : Tid) (ev : Ev)
    (hreach : (SplitList.model c).Reachable (SplitList.init c) s) (hs : SplitList.step c s t = some (s', ev))
    (hg : s'.cnt2 ≠ s.cnt2) :
    s'.cnt2 = s.cnt2 + 1 ∧ s'.next = s.next ∧ s'.mark = s.mark ∧ s'.table = s.table ∧
      SplitList.absNodes s' = SplitList.absNodes s ∧ SplitList.absMap s' = SplitList.absMap s ∧
      SplitList.postRet s.val (s.pc t) = some [1] ∧ SplitList.postRet s'.val (s'.pc t) = some [1] ∧
      (∀ t2, t2 ≠ t → SplitList.lpRet c s'.so s'.uk s'.val (s'.pc t2) = SplitList.lpRet c s.so s.uk s.val (s.pc t2)) :=
  SplitList.growth_step hc hreach hs hg

/-- Publishing a bucket pointer is not a linearization point of anything and leaves the list and the abstract map
    alone (linking the dummy node: `C14_splitlist_lp_refines`, second part). -/
theorem C14_splitlist_publish (c : SplitList.Cfg) (hc : SplitList.SOHyp c) (s s' : SplitList.St) (t : Tid) (ev : Ev)
    (hreach : (SplitList.model c).Reachable (SplitList.init c) s) (hs : SplitList.step c s t = some (s', ev))
    (b : Nat) (hb : s'.table b ≠ s.table b) :
    s'.next = s.next ∧ s'.mark = s.mark ∧ s'.cnt2 = s.cnt2 ∧ SplitList.absNodes s' = SplitList.absNodes s ∧
      SplitList.lpRet c s.so s.uk s.val (s.pc t) = none ∧ SplitList.lpRet c s'.so s'.uk s'.val (s'.pc t) = none ∧
      (∀ k v, (k, v) ∈ SplitList.absMap s' ↔ (k, v) ∈ SplitList.absMap s) :=
  SplitList.publish_step hc hreach hs b hb

/-! ### The hypotheses hold for the real key functions -/

/-- `SOHyp` for 64-bit `size_t` keys: `regular_hash( h ) = reverse64( h ) | 1`, `dummy_hash( b ) = reverse64( b ) & ~1`,
    ANY hash functor (`mode` selects the three used by the harness), any capacity up to `2^63`, any load factor. -/
theorem C14_cfg64_hyp (mode : Nat) (cap lf : Nat) (hcap : cap ≤ 2 ^ 63) :
    SplitList.SOHyp (SplitList.cfg64 mode cap lf) :=
  SplitList.cfg64_hyp mode cap lf hcap

/-! ### Non-vacuity (the 64-bit configuration of the harness: capacity 64, load factor 1, hash = key) -/

def cfg : SplitList.Cfg := SplitList.cfg64 0 64 1
def steps (t : Tid) (n : Nat) : List (Tid × Act) := List.replicate n (t, .step)
def ins (k v : Int) : GOp := ⟨"insert", [k, v]⟩
def era (k : Int) : GOp := ⟨"erase", [k]⟩
def fnd (k : Int) : GOp := ⟨"find", [k]⟩
def con (k : Int) : GOp := ⟨"contains", [k]⟩

/-- Two buckets; keys 2, 4, 6 are inserted through bucket 0 (`hash mod 2 = 0`); the third insert exceeds the load
    factor and doubles the table (`cas+ cnt2 1 2`).  Then `find 2` computes bucket `2 mod 4 = 2`, which is not
    initialised: `init_bucket( 2 )` allocates the dummy `d1`, links it from the parent's dummy `d0` — it lands
    between `n2` (key 4) and `n1` (key 2) — publishes it (`st b2 d1`), and the search from `d1` finds key 2, which was
    inserted BEFORE the child bucket existed. -/
def growSched : List (Tid × Act) :=
  [(0, .invoke (ins 2 10))] ++ steps 0 8 ++ [(0, .ret), (0, .invoke (ins 4 20))] ++ steps 0 11 ++ [(0, .ret),
   (0, .invoke (ins 6 30))] ++ steps 0 17 ++ [(0, .ret), (1, .invoke (fnd 2))] ++ steps 1 22 ++ [(1, .ret)]

example : ((SplitList.model cfg).run (SplitList.init cfg) growSched).map (fun r => r.2.drop 36) =
    some [(0, .ev ⟨"ld", "maxc", "2", ""⟩),           -- T 0 A ld maxc 2            (inc_item_count of insert 6)
          (0, .ev ⟨"add", "items", "2", "1"⟩),        -- T 0 A add items 2 1        (3 > 2: grow)
          (0, .ev ⟨"ld", "cnt2", "1", ""⟩),
          (0, .ev ⟨"cas+", "maxc", "2", "4"⟩),
          (0, .ev ⟨"cas+", "cnt2", "1", "2"⟩),        -- T 0 A cas+ cnt2 1 2        (2 -> 4 buckets; nothing else changes)
          (0, .ret [1]),
          (1, .call (fnd 2)),
          (1, .ev ⟨"ld", "cnt2", "2", ""⟩),           -- bucket 2 mod 4 = 2
          (1, .ev ⟨"ld", "b2", "null", ""⟩),          -- T 1 A ld b2 null           (not initialised)
          (1, .ev ⟨"ld", "b0", "d0", ""⟩),            -- parent bucket 0
          (1, .ev ⟨"ld", "b2", "null", ""⟩),
          (1, .ev ⟨"ld", "acnt", "1", ""⟩),
          (1, .ev ⟨"add", "acnt", "1", "1"⟩),         -- alloc_aux_node: d1
          (1, .ev ⟨"ld", "d0", "n2", ""⟩),            -- insert_aux_node: MichaelList insert from d0
          (1, .ev ⟨"ld", "d0", "n2", ""⟩),
          (1, .ev ⟨"ld", "n2", "n1", ""⟩),
          (1, .ev ⟨"ld", "n2", "n1", ""⟩),
          (1, .ev ⟨"ld", "d0", "n2", ""⟩),
          (1, .ev ⟨"ld", "n1", "n3", ""⟩),
          (1, .ev ⟨"ld", "n1", "n3", ""⟩),
          (1, .ev ⟨"ld", "n2", "n1", ""⟩),
          (1, .ev ⟨"st", "d1", "n1", ""⟩),
          (1, .ev ⟨"cas+", "n2", "n1", "d1"⟩),        -- T 1 A cas+ n2 n1 d1        (dummy linked between key 4 and key 2)
          (1, .ev ⟨"st", "b2", "d1", ""⟩),            -- T 1 A st b2 d1             (bucket pointer published)
          (1, .ev ⟨"ld", "d1", "n1", ""⟩),            -- search from the child bucket's dummy
          (1, .ev ⟨"ld", "d1", "n1", ""⟩),
          (1, .ev ⟨"ld", "n1", "n3", ""⟩),
          (1, .ev ⟨"ld", "n1", "n3", ""⟩),
          (1, .ev ⟨"ld", "d1", "n1", ""⟩),
          (1, .ret [1, 10])] := by decide +kernel

set_option synthInstance.maxSize 2000 in
/-- The state at the end: list order d0, n2 (key 4), d1, n1 (key 2), n3 (key 6) — node ids 0, 3, 2, 1, 5;
    4 buckets, buckets 0 and 2 published; the history is linearizable. -/
example : ((SplitList.model cfg).run (SplitList.init cfg) growSched).map
    (fun r => (SplitList.absNodes r.1, SplitList.absMap r.1, r.1.cnt2, r.1.table 0, r.1.table 1, r.1.table 2,
      linCheck map (SplitList.historyOf r.2))) =
    some ([0, 3, 2, 1, 5], [(4, 20), (2, 10), (6, 30)], 2, some 0, none, some 2, true) := by decide +kernel

/-- A race on the initialisation of one bucket.  After the growth above, `find 2` (thread 1) and `contains 6`
    (thread 2) both find bucket 2 uninitialised and both allocate a dummy; thread 1 links `d1`; thread 2's
    `insert_aux_node` meets a node with the same key and fails, thread 2 waits (`ld b2 null`) until thread 1 has
    published `b2`, then searches from `d1`. -/
def raceSched : List (Tid × Act) :=
  [(0, .invoke (ins 2 10))] ++ steps 0 8 ++ [(0, .ret), (0, .invoke (ins 4 20))] ++ steps 0 11 ++ [(0, .ret),
   (0, .invoke (ins 6 30))] ++ steps 0 17 ++ [(0, .ret), (1, .invoke (fnd 2)), (2, .invoke (con 6))] ++
   steps 1 4 ++ steps 2 4 ++ steps 1 12 ++ steps 2 11 ++ steps 1 1 ++ steps 2 9 ++ [(2, .ret)] ++ steps 1 5 ++ [(1, .ret)]

set_option synthInstance.maxSize 2000 in
example : ((SplitList.model cfg).run (SplitList.init cfg) raceSched).map
    (fun r => ((r.2.drop 64).filter (fun x => x.1 == 2), SplitList.absNodes r.1, r.1.table 2, r.1.acnt,
      linCheck map (SplitList.historyOf r.2))) =
    some ([(2, .ev ⟨"ld", "acnt", "2", ""⟩),
           (2, .ev ⟨"add", "acnt", "2", "1"⟩),        -- thread 2 allocates d2 for the same bucket
           (2, .ev ⟨"ld", "d0", "n2", ""⟩),
           (2, .ev ⟨"ld", "d0", "n2", ""⟩),
           (2, .ev ⟨"ld", "n2", "d1", ""⟩),           -- thread 1's dummy is already linked
           (2, .ev ⟨"ld", "n2", "d1", ""⟩),
           (2, .ev ⟨"ld", "d0", "n2", ""⟩),
           (2, .ev ⟨"ld", "d1", "n1", ""⟩),
           (2, .ev ⟨"ld", "d1", "n1", ""⟩),
           (2, .ev ⟨"ld", "n2", "d1", ""⟩),           -- same key: insert_aux_node fails
           (2, .ev ⟨"ld", "b2", "null", ""⟩),         -- T 2 A ld b2 null           (waiting for the publication)
           (2, .ev ⟨"ld", "b2", "d1", ""⟩),           -- published by thread 1 in between
           (2, .ev ⟨"ld", "d1", "n1", ""⟩),
           (2, .ev ⟨"ld", "d1", "n1", ""⟩),
           (2, .ev ⟨"ld", "n1", "n3", ""⟩),
           (2, .ev ⟨"ld", "n1", "n3", ""⟩),
           (2, .ev ⟨"ld", "d1", "n1", ""⟩),
           (2, .ev ⟨"ld", "n3", "null", ""⟩),
           (2, .ev ⟨"ld", "n3", "null", ""⟩),
           (2, .ev ⟨"ld", "n1", "n3", ""⟩),
           (2, .ret [1])],
          [0, 3, 2, 1, 5], some 2, 3, true) := by decide +kernel

/-- An erase through a child bucket, and a find that misses afterwards (hindsight "absent" through a bucket dummy):
    with 4 buckets, `erase 2` goes through bucket 2 and `contains 2` then answers 0. -/
def eraseSched : List (Tid × Act) :=
  growSched ++ [(0, .invoke (era 2))] ++ steps 0 10 ++ [(0, .ret), (1, .invoke (con 2))] ++ steps 1 7 ++ [(1, .ret)]

set_option synthInstance.maxSize 2000 in
example : ((SplitList.model cfg).run (SplitList.init cfg) eraseSched).map
    (fun r => (r.2.drop 66, SplitList.absNodes r.1, SplitList.absMap r.1, linCheck map (SplitList.historyOf r.2))) =
    some ([(0, .call (era 2)),
           (0, .ev ⟨"ld", "cnt2", "2", ""⟩),
           (0, .ev ⟨"ld", "b2", "d1", ""⟩),
           (0, .ev ⟨"ld", "d1", "n1", ""⟩),
           (0, .ev ⟨"ld", "d1", "n1", ""⟩),
           (0, .ev ⟨"ld", "n1", "n3", ""⟩),
           (0, .ev ⟨"ld", "n1", "n3", ""⟩),
           (0, .ev ⟨"ld", "d1", "n1", ""⟩),
           (0, .ev ⟨"cas+", "n1", "n3", "n3|1"⟩),     -- linearization point of erase 2
           (0, .ev ⟨"cas+", "d1", "n1", "n3"⟩),
           (0, .ev ⟨"sub", "items", "3", "1"⟩),
           (0, .ret [1, 10]),
           (1, .call (con 2)),
           (1, .ev ⟨"ld", "cnt2", "2", ""⟩),
           (1, .ev ⟨"ld", "b2", "d1", ""⟩),
           (1, .ev ⟨"ld", "d1", "n3", ""⟩),
           (1, .ev ⟨"ld", "d1", "n3", ""⟩),
           (1, .ev ⟨"ld", "n3", "null", ""⟩),
           (1, .ev ⟨"ld", "n3", "null", ""⟩),
           (1, .ev ⟨"ld", "d1", "n3", ""⟩),           -- key 6 > key 2: absent
           (1, .ret [0])],
          [0, 3, 2, 5], [(4, 20), (6, 30)], true) := by decide +kernel

end CdsVerif.Props.C14SplitList

"""Differential tie between the sequential Lean model of CuckooSet (lean/CdsVerif/Algo/Cuckoo/Model.lean, evaluated by
`cdsdriver cuckooeval`) and the real container (harness/pure/resize.cpp, mode `layout`).

Every line is one configuration (hash family pair, initial size, probe-set size, threshold, key space) and 40-100
insert/erase operations; after EVERY operation the harness prints the result, the bucket count, size() and the content of
every non-empty probe set in probe-set order, followed by its own verdict against a std::set reference (`X ...` ends the
line: a lost key with its classification, a wrong result, a wrong size, a hang).  The Lean driver is given the text to the
left of ` ->` and must print the text to the right of it, token for token: the model has to lose the same key at the same
operation, put every key into the same probe set at the same position, and run out of fuel exactly where the real insert()
keeps doubling its tables.  Configurations outside the constructor's precondition (cuckoo_vector with a threshold >= 4) are
printed as `skip ...` by both sides and counted.

A disagreement is a defect of the MODEL (or of the harness), not of the property: signature `cuckoo-model:<container>:<class>`."""
import re

import steps
import vlib

# kept witness of the known CuckooSet::resize finding (the one of props.c17), replayed through the model on every run
WITNESS = ("explicit cuckoo_list 2 3 4 2 0 10 i3 e2 i1 i6 e0 e6 i7 e3 i8 i3 i3 e0 e7 e2 i9 e1 i2 i4 i5 i5 i1 i8 i1 e4 i8 i8 i3 i3 i1 i5 i4 i1 "
           "e8 i0 i8 e0 i1 e9 i1 i7 i6 i7 i9 i4 e9 i2 i8 i9 e1 i9 i0 e8 i5 e1 i8 i1").split()


def _class_of(tokens):
    """The class of a line by its verdict token: ok / skip / hang / lost-fullsets / lost-withroom / phantom / result-differs / size."""
    if tokens[:1] == ["skip"]:
        return "skip"
    if "X" not in tokens:
        return "ok"
    i = tokens.index("X")
    cls = tokens[i + 1] if i + 1 < len(tokens) else "?"
    return re.sub(r"-after-op-\d+|key-\d+-|-at-op-\d+|-\d+", "", cls).strip("-") or cls


def _first_difference(a, b):
    i = 0
    while i < min(len(a), len(b)) and a[i] == b[i]:
        i += 1
    return i


def cuckoo_tie(res, thorough):
    exe = steps.build_pure("resize", ["resize.cpp"], with_libcds=True)
    n_lines = 6000 if thorough else 700
    runs = [(["layout"] + WITNESS, 300), (["layout", str(res.seed), str(n_lines // 2)], 3600)]     # two lines (list, vector) per case
    lines = []
    for args, tmo in runs:
        rc, out, err = vlib.sh([exe] + args, timeout=tmo)
        if rc != 0:
            res.violation("cuckoo-model:harness-crash", {"kind": "crash", "cmd": [exe] + args, "rc": rc, "stderr": err[-1500:]}, no_input=True)
        lines += [l for l in out.split("\n") if " ->" in l]
    if not lines:
        res.violation("cuckoo-model:no-lines", {"kind": "driver-problem", "cmd": [exe] + runs[-1][0]}, no_input=True)
        return
    inputs = "\n".join(l.partition(" ->")[0] for l in lines) + "\n"
    mout = vlib.driver(["cuckooeval"], inputs).split("\n")
    if len(mout) < len(lines):
        res.violation("cuckoo-model:driver-short-output", {"kind": "driver-problem", "lines": len(lines), "model_lines": len(mout)}, no_input=True)
    seen = set()
    for l, m in zip(lines, mout):
        inp, _, impl = l.partition(" ->")
        it, mt = impl.split(), m.split()
        cls = _class_of(it)
        res.add("cuckoo_tie_lines")
        res.add("cuckoo_tie_" + re.sub(r"[^a-z]", "_", cls))
        if cls != "skip":
            res.add("evaluations"); res.add("programs"); res.add("disagreements_checked")
            res.add("cuckoo_tie_operations", len([t for t in it if t.startswith("L")]))
        if it == mt:
            res.add("cuckoo_tie_agreed")
            continue
        res.add("cuckoo_tie_disagreed")
        i = _first_difference(it, mt)
        what = "layout" if (i < len(it) and it[i].startswith("L")) or (i < len(mt) and mt[i].startswith("L")) else \
               "verdict" if "X" in it[i - 1:i + 1] + mt[i - 1:i + 1] else "result"
        sig = "cuckoo-model:%s:%s" % (inp.split()[0], what)
        if sig in seen:
            continue
        seen.add(sig)
        ops = inp.partition(" ops")[2].split()
        res.violation(sig, {"kind": "pure-input", "input": inp[:4000], "first_difference_at_token": i, "operation": ops[i // 2] if i // 2 < len(ops) else None,
                            "impl": " ".join(it[max(0, i - 2):i + 3])[:1500], "model": " ".join(mt[max(0, i - 2):i + 3])[:1500],
                            "cmd": "echo '<input>' | cdsdriver cuckooeval   versus   %s layout explicit <container> <h1> <h2> <init> <pset> <thr> <keyspace> <ops>" % exe})
    res.cov["cuckoo_tie_rule"] = ("lines = (configuration, 40-100 operations) of harness/pure/resize.cpp `layout` (CuckooSet with list and vector<4> probe sets, seeded by VERIF_SEED) "
                                  "plus the kept witness of the resize drop; agreement = identical text: result, bucket count, size() and the order of the keys in every probe set after "
                                  "every operation, the same lost key at the same operation, fuel exhausted exactly on the inserts that never return")
    if lines:
        res.sample({"input": lines[0].partition(" ->")[0][:200], "impl": lines[0].partition(" ->")[2][:200], "model": mout[0][:200]})


def model_reproduces(exe, inp):
    """True iff the Lean model of the unchanged code reproduces, token for token (results, layouts, the lost key and the operation at
    which it is noticed), the run of a line of the normal sweep (`<container> h=a,b init=.. pset=.. thr=.. ops ...`)."""
    w = inp.split()
    m = re.match(r"h=(\d+),(\d+)$", w[1])
    cfg = dict(x.split("=") for x in w[2:w.index("ops")] if "=" in x)
    ops = w[w.index("ops") + 1:]
    if not m or not ops or not all(k in cfg for k in ("init", "pset", "thr")):
        return False
    keyspace = max(int(o[1:]) for o in ops) + 1
    args = ["layout", "explicit", w[0], m.group(1), m.group(2), cfg["init"], cfg["pset"], cfg["thr"], str(keyspace)] + ops
    rc, out, err = vlib.sh([exe] + args, timeout=300)
    lines = [l for l in out.split("\n") if " ->" in l]
    if rc != 0 or len(lines) != 1:
        return False
    left, _, impl = lines[0].partition(" ->")
    if "lost" not in impl:
        return False
    mout = [l for l in vlib.driver(["cuckooeval"], left + "\n").split("\n") if l.strip()]
    return len(mout) == 1 and mout[0].split() == impl.split()

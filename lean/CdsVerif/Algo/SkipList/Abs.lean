/-
  Observation functions on states of the skip-list machine: the nodes linked at a level, the abstract set read off
  level 0, and the history of a run (the history functions are those of the MichaelList development; they only look
  at the observations).
-/
import CdsVerif.Algo.SkipList.Model
import CdsVerif.Algo.Michael.Lin
namespace CdsVerif.Algo.SkipList
open CdsVerif.Machine CdsVerif.Spec CdsVerif.Lin

/-- The items reachable from the head tower along level `l`, in list order (fuel: the number of items allocated). -/
def levelNodes (s : St) (l : Nat) : List Nat := Michael.walk (fun a => s.next a l) s.cnt (s.next 0 l)

/-- The `(key, payload)` pairs of the items linked at level 0 and not marked there. -/
def absMap (s : St) : List (Int × Int) :=
  ((levelNodes s 0).filter (fun a => !s.mark a 0)).map (fun a => (s.key a, s.val a))

/-- `l1` is a sub-list (same order, possibly with gaps) of `l2`. -/
def isSublist : List Nat → List Nat → Bool
  | [], _ => true
  | _ :: _, [] => false
  | a :: l1, b :: l2 => if a = b then isSublist l1 l2 else isSublist (a :: l1) l2

/-- The quiescent well-formedness statement of C18 for skip lists: every level is strictly increasing by key and a
    sub-list of the level below. -/
def wellFormed (s : St) (maxH : Nat) : Bool :=
  (List.range maxH).all (fun l =>
    (levelNodes s l).Pairwise (fun a b => s.key a < s.key b) &&
    (l == 0 || isSublist (levelNodes s l) (levelNodes s (l - 1))))

/-- The structural invariant CHECKED (not proved) on every state of every replayed real trace (`cdsdriver replay
    skiplist` evaluates it after each step):
    every level is a finite chain of allocated items, strictly sorted by key; every level is a sub-list of the level
    below — at ALL times, not only at quiescence: towers are linked bottom-up and unlinked top-down; an item marked on
    level 0 is marked on all its upper levels; and when no thread (0 .. 7) is inside an operation no marked item is
    linked any more on level 0. -/
def invB (maxH : Nat) (s : St) : Bool :=
  wellFormed s maxH &&
  (List.range maxH).all (fun l => (levelNodes s l).all (fun a => decide (0 < a ∧ a < s.cnt ∧ l < s.ht a))) &&
  (List.range s.cnt).all (fun a => !s.mark a 0 || (List.range (s.ht a)).all (fun l => s.mark a l)) &&
  (!((List.range 8).all (fun t => s.pc t == .idle)) || (levelNodes s 0).all (fun a => !s.mark a 0))

def replayInv (r : RSt) : Bool := invB r.c.maxH r.s

abbrev historyOf := Michael.historyOf
abbrev pendingOf := Michael.pendingOf

end CdsVerif.Algo.SkipList

/-
  C05 — each retired object is given to its disposer exactly once, after a grace period, no later than
  destruction of the singleton, including objects that arrived when the buffer was full
  (cds/urcu/details/gpi.h, gpb.h).
  Property theorems only; model in Algo/RCU/Model.lean, invariants in Algo/RCU/Inv.lean.
  Quantification as in C04: every reachable state, every schedule / thread count / client program / flavour /
  threshold `c` / physical buffer capacity `bc`.  Client discipline: an object is retired at most once.
-/
import CdsVerif.Props.C04
namespace CdsVerif.Props.C05
open CdsVerif.Machine CdsVerif.Spec CdsVerif.Algo CdsVerif.Algo.RCU

/-- At most once. -/
theorem C05_at_most_once (b : Bool) (n c bc : Nat) (s : RCU.St) (h : RCU.model.Reachable (RCU.init b n c bc) s)
    (p : RCU.Obj) : s.disposed p ≤ 1 := by
  have := (RCU.inv_reachable b n c bc s h).P.p4 p
  split at this <;> omega

/-- Only retired objects are disposed. -/
theorem C05_only_after_retire (b : Bool) (n c bc : Nat) (s : RCU.St) (h : RCU.model.Reachable (RCU.init b n c bc) s)
    (p : RCU.Obj) (hd : s.disposed p > 0) : s.retiredAt p ≠ none := by
  have hP := (RCU.inv_reachable b n c bc s h).P
  have h4 := hP.p4 p
  have h1 := hP.p1 p
  grind

/-- ... and only after a grace period: this is `C04_no_dispose_under_preexisting_reader`. -/
theorem C05_only_after_grace_period (b : Bool) (n c bc : Nat) (s : RCU.St)
    (h : RCU.model.Reachable (RCU.init b n c bc) s) (t : Tid) (s' : RCU.St) (e : Ev)
    (hstep : RCU.model.step s t = some (s', e)) (p : RCU.Obj) (hd : s'.disposed p ≠ s.disposed p) :
    ∀ u k r, s.secStart u = some k → s.retiredAt p = some r → r < k :=
  C04.C04_no_dispose_under_preexisting_reader b n c bc s h t s' e hstep p hd

/-- Conservation.  Every retired object is in exactly one place, exactly once: given to the disposer (once),
    or in the buffer (one entry), or in a local variable of exactly one thread that is executing
    retire_ptr / push_buffer / synchronize / clear_buffer / Destruct (one occurrence: `RCU.locals`).
    An object that has not been retired is nowhere. -/
theorem C05_conservation (b : Bool) (n c bc : Nat) (s : RCU.St) (h : RCU.model.Reachable (RCU.init b n c bc) s)
    (p : RCU.Obj) :
    (s.retiredAt p ≠ none →
      (s.disposed p = 1 ∧ p ∉ s.buf.map Prod.fst ∧ ∀ t, p ∉ RCU.locals (s.pc t)) ∨
      (s.disposed p = 0 ∧ (s.buf.map Prod.fst).count p = 1 ∧ ∀ t, p ∉ RCU.locals (s.pc t)) ∨
      (s.disposed p = 0 ∧ p ∉ s.buf.map Prod.fst ∧
        ∃ t, (RCU.locals (s.pc t)).count p = 1 ∧ ∀ t', t' ≠ t → p ∉ RCU.locals (s.pc t'))) ∧
    (s.retiredAt p = none → s.disposed p = 0 ∧ p ∉ s.buf.map Prod.fst ∧ ∀ t, p ∉ RCU.locals (s.pc t)) := by
  obtain ⟨p1, p2, p3, p4, p5, p6⟩ := (RCU.inv_reachable b n c bc s h).P
  have h1 := p1 p
  have h3 := p3 p
  have h4 := p4 p
  have cnt : ∀ l : List RCU.Obj, l.Nodup → p ∈ l → l.count p = 1 := by
    intro l hl hm
    have a := List.nodup_iff_count.1 hl p
    have b := List.count_pos_iff.2 hm
    omega
  constructor
  · intro hr
    cases hpl : s.place p with
    | fresh => exact absurd (h1.1 hpl) hr
    | gone =>
      left
      refine ⟨by simp [h4, hpl], fun hm => by simp [h3.2 hm] at hpl, fun t hm => by simp [(p2 p t).2 hm] at hpl⟩
    | buf =>
      right; left
      refine ⟨by simp [h4, hpl], cnt _ p6 (h3.1 hpl), fun t hm => by simp [(p2 p t).2 hm] at hpl⟩
    | thr t =>
      right; right
      refine ⟨by simp [h4, hpl], fun hm => by simp [h3.2 hm] at hpl, t, cnt _ (p5 t) ((p2 p t).1 hpl), ?_⟩
      intro t' hne hm
      have := (p2 p t').2 hm
      rw [hpl] at this
      exact hne (by injection this with h; exact h.symm)
  · intro hr
    have hf := h1.2 hr
    refine ⟨by simp [h4, hf], fun hm => by simp [h3.2 hm] at hf, fun t hm => by simp [(p2 p t).2 hm] at hf⟩

/-- No later than destruction of the singleton: once Destruct (`clear_buffer(max)`) has completed and every thread
    has returned, every object that was ever retired has been given to its disposer (exactly once, by
    `C05_at_most_once`).  This includes objects whose push failed because the buffer was full: they live in the
    `own` list of the retiring thread until that thread frees them, before it returns. -/
theorem C05_all_disposed_after_destruct (b : Bool) (n c bc : Nat) (s : RCU.St)
    (h : RCU.model.Reachable (RCU.init b n c bc) s) (hd : s.destroyed = true) (hidle : ∀ t, s.pc t = .idle)
    (p : RCU.Obj) (hr : s.retiredAt p ≠ none) : s.disposed p = 1 := by
  have hcons := (C05_conservation b n c bc s h p).1 hr
  have hbuf := ((RCU.inv_reachable b n c bc s h).A.a12 hd).1
  rcases hcons with h1 | h1 | h1
  · exact h1.1
  · rw [hbuf] at h1; simp at h1
  · obtain ⟨-, -, t, ht, -⟩ := h1
    rw [hidle t] at ht; simp [RCU.locals] at ht

/-- A thread that has returned to its client holds no object: an object whose push failed is freed by the retiring
    thread before `retire_ptr` returns (it is in nobody's hands afterwards). -/
theorem C05_idle_holds_nothing (s : RCU.St) (t : Tid) (h : s.pc t = .idle ∨ s.pc t = .done) :
    RCU.locals (s.pc t) = [] := by
  rcases h with h | h <;> rw [h] <;> rfl

/-! ### Non-vacuity -/

/-- Buffer full: physical capacity 1, threshold 5.  Object 1 is buffered; the push of object 2 fails, so the
    retiring thread synchronizes, clears the buffer (object 1, tag 0 ≤ epoch 0) and frees object 2 itself. -/
example : ∃ s os, RCU.model.run (RCU.init true 1 5 1)
    ([(0, .invoke ⟨"retire", [0, 1]⟩), (0, .step), (0, .step), (0, .step), (0, .ret),
      (0, .invoke ⟨"retire", [0, 2]⟩)] ++ List.replicate 14 (0, .step) ++ [(0, .ret)]) = some (s, os)
    ∧ s.disposed 1 = 1 ∧ s.disposed 2 = 1 ∧ s.buf = [] ∧ s.pc 0 = .idle := by
  refine ⟨_, _, rfl, ?_, ?_, ?_, ?_⟩ <;> decide

/-- the same run stopped just after the failed push: object 2 is in the thread's `own` list -/
example : ∃ s os, RCU.model.run (RCU.init true 1 5 1)
    [(0, .invoke ⟨"retire", [0, 1]⟩), (0, .step), (0, .step), (0, .step), (0, .ret),
     (0, .invoke ⟨"retire", [0, 2]⟩), (0, .step), (0, .step)] = some (s, os)
    ∧ s.pc 0 = .syncLd [2] ∧ s.buf = [(1, 0)] ∧ s.disposed 2 = 0 := by
  refine ⟨_, _, rfl, ?_, ?_, ?_⟩ <;> decide

/-- Destruct frees what is still buffered. -/
example : ∃ s os, RCU.model.run (RCU.init true 1 5 1)
    [(0, .invoke ⟨"retire", [0, 3]⟩), (0, .step), (0, .step), (0, .step), (0, .ret),
     (0, .invoke ⟨"destruct", [0]⟩), (0, .step), (0, .step), (0, .step), (0, .ret)] = some (s, os)
    ∧ s.disposed 3 = 1 ∧ s.destroyed = true ∧ s.pc 0 = .idle := by
  refine ⟨_, _, rfl, ?_, ?_, ?_⟩ <;> decide

/-- Instant flavour: the object is freed by retire_ptr itself; Destruct has nothing to do and returns at once. -/
example : ∃ s os, RCU.model.run (RCU.init false 1 1 1)
    ([(0, .invoke ⟨"retire", [0, 3]⟩)] ++ List.replicate 7 (0, .step) ++
     [(0, .ret), (0, .invoke ⟨"destruct", [0]⟩), (0, .ret)]) = some (s, os)
    ∧ s.disposed 3 = 1 ∧ s.destroyed = true ∧ s.pc 0 = .idle := by
  refine ⟨_, _, rfl, ?_, ?_, ?_⟩ <;> decide

/-- The epoch tag at work: thread 1 retires object 2 after thread 0's fetch_add (tag 1 > epoch 0 returned to
    thread 0).  Thread 0's clear_buffer(0) frees object 1 but pushes object 2 back. -/
example : ∃ s os, RCU.model.run (RCU.init true 2 1 4)
    ([(0, .invoke ⟨"retire", [0, 1]⟩)] ++ List.replicate 6 (0, .step) ++
     [(1, .invoke ⟨"retire", [1, 2]⟩)] ++ List.replicate 5 (1, .step) ++ List.replicate 11 (0, .step)) = some (s, os)
    ∧ s.disposed 1 = 1 ∧ s.disposed 2 = 0 ∧ s.buf = [(2, 1)] ∧ s.pc 0 = .sizeLd [] := by
  refine ⟨_, _, rfl, ?_, ?_, ?_, ?_⟩ <;> decide

end CdsVerif.Props.C05

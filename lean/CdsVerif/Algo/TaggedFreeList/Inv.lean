/-
  Structural invariant of the tagged free list model, proved for every interleaving.

  * `Chain s.next s.head.1 l` : following `next` from the head pointer visits exactly the nodes `l`, then null.
  * `Free s a` : node `a` is owned by no thread and is not the argument of a `put` in progress.
  * `TInvL s l w` : `l` is duplicate-free and consists EXACTLY of the free nodes (`memOwn`, `memPut`: a chain node
    is free; `held`: a node outside the chain is owned by, or in the `put` of, the thread `w a` - `w` is a witness
    of the invariant, not part of the state; `TInvL.mem` is the resulting equivalence); a node has at most one owner;
    the tag of every head snapshot held by a thread is at most the current tag, and when it is equal the current head
    IS the snapshot (`snap*`: every successful CAS increments the tag); a getter about to CAS whose snapshot still
    equals the head has read the CURRENT successor of the first node (`key`).
  Nodes are reused: a node may be on the chain, be taken, be put again, while a thread keeps a stale snapshot that
  designates it.  Nothing in the invariant says that a snapshot's node is on the chain or is unowned.
-/
import CdsVerif.Algo.TaggedFreeList.Model
namespace CdsVerif.Algo.TaggedFreeList
open CdsVerif.Machine CdsVerif.Spec

/-! ### Chains -/

def Chain (nx : Nat → Option Nat) : Option Nat → List Nat → Prop
  | p, [] => p = none
  | p, a :: l => p = some a ∧ Chain nx (nx a) l

theorem Chain.functional {nx : Nat → Option Nat} : ∀ {p : Option Nat} {l1 l2 : List Nat},
    Chain nx p l1 → Chain nx p l2 → l1 = l2
  | _, [], [], _, _ => rfl
  | _, [], _ :: _, h1, h2 => by simp [Chain] at h1 h2; simp [h1] at h2
  | _, _ :: _, [], h1, h2 => by simp [Chain] at h1 h2; simp [h2] at h1
  | _, a :: l1, b :: l2, h1, h2 => by
    simp only [Chain] at h1 h2
    have hab : a = b := by have := h1.1.symm.trans h2.1; simpa using this
    subst hab
    rw [Chain.functional h1.2 h2.2]

theorem Chain.upd {nx : Nat → Option Nat} {x : Nat} {v : Option Nat} :
    ∀ {p : Option Nat} {l : List Nat}, x ∉ l → Chain nx p l → Chain (upd nx x v) p l
  | _, [], _, h => h
  | _, a :: l, hx, h => by
    simp only [Chain] at h ⊢
    have hax : a ≠ x := fun e => hx (by simp [e])
    refine ⟨h.1, ?_⟩
    rw [upd_other _ _ _ _ hax]
    exact Chain.upd (fun hm => hx (List.mem_cons_of_mem _ hm)) h.2

/-- Executable chain walk with fuel (for the evaluated examples). -/
def walk (nx : Nat → Option Nat) : Nat → Option Nat → List Nat
  | 0, _ => []
  | _ + 1, none => []
  | f + 1, some a => a :: walk nx f (nx a)

theorem walk_of_chain {nx : Nat → Option Nat} : ∀ {fuel : Nat} {p : Option Nat} {l : List Nat},
    Chain nx p l → l.length ≤ fuel → walk nx fuel p = l
  | 0, _, [], _, _ => rfl
  | 0, _, _ :: _, _, hl => by simp at hl
  | f + 1, _, [], h, _ => by simp only [Chain] at h; subst h; rfl
  | f + 1, _, a :: l, h, hl => by
    simp only [Chain] at h
    obtain ⟨rfl, h2⟩ := h
    simp only [walk]
    rw [walk_of_chain h2 (by simpa using hl)]

/-! ### The structural invariant -/

/-- The node a `put` in progress holds (between the invocation and the successful CAS). -/
def putNode : PC → Option Nat
  | .putLd n => some n
  | .putSt n _ _ => some n
  | .putCas n _ _ => some n
  | _ => none

/-- Node `a` is owned by nobody and is not in the hands of a `put` in progress. -/
def Free (s : St) (a : Nat) : Prop := (∀ t, s.owns t a = false) ∧ ∀ t, putNode (s.pc t) ≠ some a

/-- A head snapshot `(p, g)` taken earlier: its tag is not ahead of the current tag, and if the tags are equal the
    head has not changed since the snapshot was taken. -/
def SnapOk (s : St) (p : Option Nat) (g : Nat) : Prop := g ≤ s.head.2 ∧ (g = s.head.2 → s.head.1 = p)

structure TInvL (s : St) (l : List Nat) (w : Nat → Tid) : Prop where
  chain : Chain s.next s.head.1 l
  nodup : l.Nodup
  memOwn : ∀ a t, a ∈ l → s.owns t a = false
  memPut : ∀ a t, a ∈ l → putNode (s.pc t) ≠ some a
  held : ∀ a, a ∉ l → s.owns (w a) a = true ∨ putNode (s.pc (w a)) = some a
  own1 : ∀ t1 t2 a, s.owns t1 a = true → s.owns t2 a = true → t1 = t2
  putown : ∀ t n t2, putNode (s.pc t) = some n → s.owns t2 n = false
  putuniq : ∀ t1 t2 n, putNode (s.pc t1) = some n → putNode (s.pc t2) = some n → t1 = t2
  linked : ∀ t n hp hg, s.pc t = .putCas n hp hg → s.next n = hp
  snapPutSt : ∀ t n hp hg, s.pc t = .putSt n hp hg → SnapOk s hp hg
  snapPutCas : ∀ t n hp hg, s.pc t = .putCas n hp hg → SnapOk s hp hg
  snapGetNext : ∀ t p g, s.pc t = .getNext p g → SnapOk s (some p) g
  snapGetCas : ∀ t p g nx, s.pc t = .getCas p g nx → SnapOk s (some p) g
  key : ∀ t p g nx, s.pc t = .getCas p g nx → s.head.1 = some p → s.head.2 = g → s.next p = nx

def TInv (s : St) : Prop := ∃ l w, TInvL s l w

theorem TInvL.unique {s : St} {l1 l2 : List Nat} {w1 w2 : Nat → Tid} (h1 : TInvL s l1 w1) (h2 : TInvL s l2 w2) :
    l1 = l2 :=
  Chain.functional h1.chain h2.chain

/-- The chain consists exactly of the free nodes. -/
theorem TInvL.mem {s : St} {l : List Nat} {w : Nat → Tid} (h : TInvL s l w) (a : Nat) : a ∈ l ↔ Free s a := by
  constructor
  · intro ha; exact ⟨fun t => h.memOwn a t ha, fun t => h.memPut a t ha⟩
  · intro hf
    apply Classical.byContradiction
    intro hn
    rcases h.held a hn with h1 | h1
    · rw [hf.1] at h1; cases h1
    · exact hf.2 _ h1

theorem tinv_init (own0 : Nat → Tid) : TInvL (init own0) [] own0 := by
  constructor <;> simp [init, Chain, putNode]
  intro t1 a h; exact h.symm

/-! ### Preservation: atomic steps -/

theorem getLoop_cases (p : Option Nat) (g : Nat) :
    getLoop p g = .done [0] ∨ ∃ a, p = some a ∧ getLoop p g = .getNext a g := by
  cases p <;> simp [getLoop]

macro "tinv_close" : tactic =>
  `(tactic| (constructor <;> intros <;> (try dsimp only at *) <;>
      grind [upd, upd2, SnapOk, putNode, Chain, Chain.upd]))

theorem tinvl_step_putLd {s s' : St} {t : Tid} {ev : Ev} {l : List Nat} {w : Nat → Tid} {n : Nat}
    (h : TInvL s l w) (hpc : s.pc t = .putLd n) (hs : step s t = some (s', ev)) : ∃ l' w', TInvL s' l' w' := by
  obtain ⟨hch, hnd, hmo, hmp, hheld, hown, hpo, hpu, hlk, hs1, hs2, hs3, hs4, hkey⟩ := h
  simp only [step, hpc] at hs
  simp at hs; obtain ⟨rfl, -⟩ := hs
  refine ⟨l, w, ?_⟩
  tinv_close

theorem tinvl_step_putSt {s s' : St} {t : Tid} {ev : Ev} {l : List Nat} {w : Nat → Tid} {n : Nat} {hp : Option Nat} {hg : Nat}
    (h : TInvL s l w) (hpc : s.pc t = .putSt n hp hg) (hs : step s t = some (s', ev)) : ∃ l' w', TInvL s' l' w' := by
  obtain ⟨hch, hnd, hmo, hmp, hheld, hown, hpo, hpu, hlk, hs1, hs2, hs3, hs4, hkey⟩ := h
  simp only [step, hpc] at hs
  simp at hs; obtain ⟨rfl, -⟩ := hs
  have hn : n ∉ l := fun hm => hmp n t hm (by simp [hpc, putNode])
  have hch' := Chain.upd (v := hp) hn hch
  have hhd : ∀ p, s.head.1 = some p → p ≠ n := by
    intro p hp' e; subst e
    cases l with
    | nil => simp_all [Chain]
    | cons b l0 => simp_all [Chain]
  refine ⟨l, w, ?_⟩
  tinv_close

theorem tinvl_step_putCas {s s' : St} {t : Tid} {ev : Ev} {l : List Nat} {w : Nat → Tid} {n : Nat} {hp : Option Nat} {hg : Nat}
    (h : TInvL s l w) (hpc : s.pc t = .putCas n hp hg) (hs : step s t = some (s', ev)) : ∃ l' w', TInvL s' l' w' := by
  obtain ⟨hch, hnd, hmo, hmp, hheld, hown, hpo, hpu, hlk, hs1, hs2, hs3, hs4, hkey⟩ := h
  simp only [step, hpc] at hs
  split at hs
  next heq =>
    simp at hs; obtain ⟨rfl, -⟩ := hs
    have hn : n ∉ l := fun hm => hmp n t hm (by simp [hpc, putNode])
    have hnn := hlk t n hp hg hpc
    have hpo' := hpo t n
    refine ⟨n :: l, w, ?_⟩
    tinv_close
  next hne =>
    simp at hs; obtain ⟨rfl, -⟩ := hs
    refine ⟨l, w, ?_⟩
    tinv_close

theorem tinvl_step_getLd {s s' : St} {t : Tid} {ev : Ev} {l : List Nat} {w : Nat → Tid}
    (h : TInvL s l w) (hpc : s.pc t = .getLd) (hs : step s t = some (s', ev)) : ∃ l' w', TInvL s' l' w' := by
  obtain ⟨hch, hnd, hmo, hmp, hheld, hown, hpo, hpu, hlk, hs1, hs2, hs3, hs4, hkey⟩ := h
  simp only [step, hpc] at hs
  simp at hs; obtain ⟨rfl, -⟩ := hs
  refine ⟨l, w, ?_⟩
  have hgl := getLoop_cases s.head.1 s.head.2
  generalize getLoop s.head.1 s.head.2 = q at *
  rcases hgl with rfl | ⟨a, ha, rfl⟩ <;> tinv_close

theorem tinvl_step_getNext {s s' : St} {t : Tid} {ev : Ev} {l : List Nat} {w : Nat → Tid} {p g : Nat}
    (h : TInvL s l w) (hpc : s.pc t = .getNext p g) (hs : step s t = some (s', ev)) : ∃ l' w', TInvL s' l' w' := by
  obtain ⟨hch, hnd, hmo, hmp, hheld, hown, hpo, hpu, hlk, hs1, hs2, hs3, hs4, hkey⟩ := h
  simp only [step, hpc] at hs
  simp at hs; obtain ⟨rfl, -⟩ := hs
  refine ⟨l, w, ?_⟩
  tinv_close

theorem tinvl_step_getCas {s s' : St} {t : Tid} {ev : Ev} {l : List Nat} {w : Nat → Tid} {p g : Nat} {nx : Option Nat}
    (h : TInvL s l w) (hpc : s.pc t = .getCas p g nx) (hs : step s t = some (s', ev)) : ∃ l' w', TInvL s' l' w' := by
  obtain ⟨hch, hnd, hmo, hmp, hheld, hown, hpo, hpu, hlk, hs1, hs2, hs3, hs4, hkey⟩ := h
  simp only [step, hpc] at hs
  split at hs
  next heq =>
    simp at hs; obtain ⟨rfl, -⟩ := hs
    have hnx := hkey t p g nx hpc heq.1 heq.2
    cases l with
    | nil => simp_all [Chain]
    | cons b l0 =>
      have hb : b = p := by simp_all [Chain]
      subst hb
      refine ⟨l0, Machine.upd w b t, ?_⟩
      tinv_close
  next hne =>
    simp at hs; obtain ⟨rfl, -⟩ := hs
    refine ⟨l, w, ?_⟩
    have hgl := getLoop_cases s.head.1 s.head.2
    generalize getLoop s.head.1 s.head.2 = q at *
    rcases hgl with rfl | ⟨a, ha, rfl⟩ <;> tinv_close

theorem tinvl_step {s s' : St} {t : Tid} {ev : Ev} {l : List Nat} {w : Nat → Tid}
    (h : TInvL s l w) (hs : step s t = some (s', ev)) : ∃ l' w', TInvL s' l' w' := by
  cases hpc : s.pc t with
  | idle => simp [step, hpc] at hs
  | done r => simp [step, hpc] at hs
  | putLd n => exact tinvl_step_putLd h hpc hs
  | putSt n hp hg => exact tinvl_step_putSt h hpc hs
  | putCas n hp hg => exact tinvl_step_putCas h hpc hs
  | getLd => exact tinvl_step_getLd h hpc hs
  | getNext p g => exact tinvl_step_getNext h hpc hs
  | getCas p g nx => exact tinvl_step_getCas h hpc hs

/-! ### Preservation: invocation and return -/

theorem tinvl_invoke {s s' : St} {t : Tid} {op : GOp} {l : List Nat} {w : Nat → Tid}
    (h : TInvL s l w) (hs : invoke s t op = some s') : TInvL s' l w := by
  obtain ⟨hch, hnd, hmo, hmp, hheld, hown, hpo, hpu, hlk, hs1, hs2, hs3, hs4, hkey⟩ := h
  obtain ⟨name, args⟩ := op
  unfold invoke at hs
  split at hs
  next x n hpc hname hargs =>
    split at hs
    next hc =>
      simp at hs; subst hs
      obtain ⟨-, hc⟩ := hc
      generalize n.toNat = m at *
      have hm : m ∉ l := fun hm => by have := hmo m t hm; simp [hc] at this
      have hwm : w m = t := by
        rcases hheld m hm with h1 | h1
        · exact hown _ _ _ h1 hc
        · have := hpo _ _ t h1; simp [hc] at this
      tinv_close
    next => simp at hs
  next hpc hname hargs =>
    simp at hs; subst hs
    tinv_close
  next => simp at hs

theorem tinvl_result {s s' : St} {t : Tid} {r : GRet} {l : List Nat} {w : Nat → Tid}
    (h : TInvL s l w) (hs : result s t = some (s', r)) : TInvL s' l w := by
  obtain ⟨hch, hnd, hmo, hmp, hheld, hown, hpo, hpu, hlk, hs1, hs2, hs3, hs4, hkey⟩ := h
  unfold result at hs
  split at hs
  next r' hpc =>
    simp at hs; obtain ⟨rfl, rfl⟩ := hs
    tinv_close
  next => simp at hs

/-! ### Reachable states -/

theorem tinv_apply {s s' : St} {t : Tid} {a : Act} {o : Obs} (h : TInv s)
    (hap : model.apply s t a = some (s', o)) : TInv s' := by
  obtain ⟨l, w, hl⟩ := h
  cases a with
  | invoke op =>
    simp only [Model.apply, model, Option.map_eq_some_iff] at hap
    obtain ⟨s1, hs1, heq⟩ := hap
    simp only [Prod.mk.injEq] at heq
    obtain ⟨rfl, -⟩ := heq
    exact ⟨l, w, tinvl_invoke hl hs1⟩
  | step =>
    simp only [Model.apply, model, Option.map_eq_some_iff] at hap
    obtain ⟨⟨s1, e⟩, hs1, heq⟩ := hap
    simp only [Prod.mk.injEq] at heq
    obtain ⟨rfl, -⟩ := heq
    exact tinvl_step hl hs1
  | ret =>
    simp only [Model.apply, model, Option.map_eq_some_iff] at hap
    obtain ⟨⟨s1, r⟩, hs1, heq⟩ := hap
    simp only [Prod.mk.injEq] at heq
    obtain ⟨rfl, -⟩ := heq
    exact ⟨l, w, tinvl_result hl hs1⟩

theorem tinv_reachable (own0 : Nat → Tid) (s : St) (h : model.Reachable (init own0) s) : TInv s :=
  model.inv_reachable TInv (init own0) ⟨[], own0, tinv_init own0⟩ (fun _ _ _ _ _ hi hap => tinv_apply hi hap) s h

/-! ### The tag counts the successful CAS operations on the head -/

/-- The observation is a successful CAS on `m_Head`. -/
def isHeadCasOk : Obs → Bool
  | .ev e => e.kind == "cas+" && e.loc == headLoc
  | _ => false

/-- Number of successful CAS operations on `m_Head` in a trace. -/
def casCount (os : List (Tid × Obs)) : Nat := os.countP (fun x => isHeadCasOk x.2)

/-- A step either is a successful CAS on the head, which increments the tag, or leaves the head (pointer and tag)
    as it is. -/
theorem step_head {s s' : St} {t : Tid} {ev : Ev} (hs : step s t = some (s', ev)) :
    (isHeadCasOk (.ev ev) = true ∧ s'.head.2 = s.head.2 + 1) ∨ (isHeadCasOk (.ev ev) = false ∧ s'.head = s.head) := by
  unfold step at hs
  split at hs
  all_goals (try split at hs)
  all_goals simp at hs
  all_goals obtain ⟨rfl, rfl⟩ := hs
  all_goals simp [isHeadCasOk, evLdHead, evLd, evSt, evCasOk, evCasFail, headLoc]
  all_goals simp_all

theorem apply_head {s s' : St} {t : Tid} {a : Act} {o : Obs} (hap : model.apply s t a = some (s', o)) :
    (isHeadCasOk o = true ∧ s'.head.2 = s.head.2 + 1) ∨ (isHeadCasOk o = false ∧ s'.head = s.head) := by
  cases a with
  | invoke op =>
    simp only [Model.apply, model, Option.map_eq_some_iff] at hap
    obtain ⟨s1, hs1, heq⟩ := hap
    simp only [Prod.mk.injEq] at heq
    obtain ⟨rfl, rfl⟩ := heq
    right
    refine ⟨rfl, ?_⟩
    unfold invoke at hs1
    split at hs1
    · split at hs1 <;> simp at hs1; subst hs1; rfl
    · simp at hs1; subst hs1; rfl
    · simp at hs1
  | step =>
    simp only [Model.apply, model, Option.map_eq_some_iff] at hap
    obtain ⟨⟨s1, e⟩, hs1, heq⟩ := hap
    simp only [Prod.mk.injEq] at heq
    obtain ⟨rfl, rfl⟩ := heq
    exact step_head hs1
  | ret =>
    simp only [Model.apply, model, Option.map_eq_some_iff] at hap
    obtain ⟨⟨s1, r⟩, hs1, heq⟩ := hap
    simp only [Prod.mk.injEq] at heq
    obtain ⟨rfl, rfl⟩ := heq
    right
    refine ⟨rfl, ?_⟩
    unfold result at hs1
    split at hs1
    · simp at hs1; obtain ⟨rfl, -⟩ := hs1; rfl
    · simp at hs1

theorem run_cons {s s' : St} {t : Tid} {a : Act} {rest : List (Tid × Act)} {os : List (Tid × Obs)}
    (h : model.run s ((t, a) :: rest) = some (s', os)) :
    ∃ s1 o os1, model.apply s t a = some (s1, o) ∧ model.run s1 rest = some (s', os1) ∧ os = (t, o) :: os1 := by
  simp only [Model.run] at h
  cases hap : model.apply s t a with
  | none => simp [hap] at h
  | some p =>
    obtain ⟨s1, o⟩ := p
    simp only [hap] at h
    cases hrr : model.run s1 rest with
    | none => simp [hrr] at h
    | some q =>
      obtain ⟨s2, os2⟩ := q
      simp only [hrr, Option.some.injEq, Prod.mk.injEq] at h
      exact ⟨s1, o, os2, rfl, by rw [← h.1]; exact hrr, h.2.symm⟩

/-- Along any run segment, the tag advances by exactly the number of successful CAS operations on the head; and
    if there was none, the head is what it was. -/
theorem run_tag : ∀ (sched : List (Tid × Act)) (s s' : St) (os : List (Tid × Obs)),
    model.run s sched = some (s', os) →
    s'.head.2 = s.head.2 + casCount os ∧ (casCount os = 0 → s'.head = s.head) := by
  intro sched
  induction sched with
  | nil =>
    intro s s' os h
    simp [Model.run] at h
    obtain ⟨rfl, rfl⟩ := h
    simp [casCount]
  | cons x rest ih =>
    intro s s' os h
    obtain ⟨t, a⟩ := x
    obtain ⟨s1, o, os1, hap, hrun, rfl⟩ := run_cons h
    obtain ⟨ih1, ih2⟩ := ih s1 s' os1 hrun
    rcases apply_head hap with ⟨ho, hh⟩ | ⟨ho, hh⟩
    · simp only [casCount, List.countP_cons, ho] at ih1 ih2 ⊢
      refine ⟨by simp; omega, by simp⟩
    · simp only [casCount, List.countP_cons, ho] at ih1 ih2 ⊢
      refine ⟨by rw [ih1, hh]; simp, fun h0 => by rw [ih2 (by simpa using h0), hh]⟩

/-- THE TAG LEMMA.  If the tag at the end of a run segment equals the tag at its beginning, then no successful
    CAS on the head happened in the segment, and the head pointer is the same too. -/
theorem tag_equal_means_unchanged {sched : List (Tid × Act)} {s s' : St} {os : List (Tid × Obs)}
    (h : model.run s sched = some (s', os)) (htag : s'.head.2 = s.head.2) :
    (∀ x ∈ os, isHeadCasOk x.2 = false) ∧ s'.head = s.head := by
  obtain ⟨h1, h2⟩ := run_tag sched s s' os h
  have h0 : casCount os = 0 := by omega
  refine ⟨?_, h2 h0⟩
  intro x hx
  simp only [casCount, List.countP_eq_zero] at h0
  simpa using h0 x hx

/-! ### The successful CAS of `get` -/

/-- When the CAS of `get` succeeds, the node it takes is the current first node of the chain, it is free (owned by
    nobody, not in a `put`), the value written to the head is its current successor, and the new chain is the old
    one without its first node. -/
theorem get_cas_success {s s' : St} {t : Tid} {ev : Ev} {p g : Nat} {nx : Option Nat} (h : TInv s)
    (hpc : s.pc t = .getCas p g nx) (hs : step s t = some (s', ev)) (hok : ev.kind = "cas+") :
    ∃ l, Chain s.next s.head.1 (p :: l) ∧ Free s p ∧ s.next p = nx ∧ Chain s'.next s'.head.1 l ∧
      s'.owns t p = true ∧ s'.pc t = .done [1, p] ∧ ev = evCasOk (some p) g nx (g + 1) := by
  obtain ⟨l, w, hl⟩ := h
  obtain ⟨l', w', hl'⟩ := tinvl_step hl hs
  simp only [step, hpc] at hs
  split at hs
  next heq =>
    simp at hs; obtain ⟨rfl, rfl⟩ := hs
    have hnx := hl.key t p g nx hpc heq.1 heq.2
    have hch := hl.chain
    cases l with
    | nil => simp_all [Chain]
    | cons b l0 =>
      have hb : b = p := by simp_all [Chain]
      subst hb
      refine ⟨l0, hch, (hl.mem b).1 (by simp), hnx, ?_, by simp [upd2], by simp [upd], rfl⟩
      simp only [Chain] at hch
      dsimp only
      rw [← hnx]; exact hch.2
  next hne =>
    simp at hs; obtain ⟨rfl, rfl⟩ := hs
    simp [evCasFail] at hok

/-- `get` decides to return a node only at a successful CAS on the head, and the node is the one the CAS expected. -/
theorem get_result_only_by_cas {s s' : St} {t : Tid} {ev : Ev} {v : Int} (hs : step s t = some (s', ev))
    (_hpre : s.pc t ≠ .done [1, v]) (hpost : s'.pc t = .done [1, v]) :
    ∃ p g nx, s.pc t = .getCas p g nx ∧ v = (p : Int) ∧ ev = evCasOk (some p) g nx (g + 1) := by
  unfold step at hs
  split at hs
  all_goals (try split at hs)
  all_goals simp at hs
  all_goals obtain ⟨rfl, rfl⟩ := hs
  all_goals simp [upd] at hpost
  next => rcases getLoop_cases s.head.1 s.head.2 with h | ⟨a, -, h⟩ <;> simp [h] at hpost
  next p g nx hpc hc => exact ⟨p, g, nx, hpc, hpost.symm, rfl⟩
  next => rcases getLoop_cases s.head.1 s.head.2 with h | ⟨a, -, h⟩ <;> simp [h] at hpost

/-! ### Quiescent states and sequential `get` -/

/-- When no operation is in progress, the chain consists exactly of the nodes owned by nobody. -/
theorem quiescent_chain {s : St} (h : TInv s) (hq : ∀ t, s.pc t = .idle) :
    ∃ l, Chain s.next s.head.1 l ∧ l.Nodup ∧ ∀ a, a ∈ l ↔ ∀ t, s.owns t a = false := by
  obtain ⟨l, w, hl⟩ := h
  refine ⟨l, hl.chain, hl.nodup, fun a => ?_⟩
  rw [hl.mem a]
  constructor
  · exact fun hf => hf.1
  · exact fun ho => ⟨ho, fun t => by simp [hq t, putNode]⟩

def getSched (t : Tid) : List (Tid × Act) :=
  [(t, .invoke ⟨"get", [(t : Int)]⟩), (t, .step), (t, .step), (t, .step), (t, .ret)]
def getEmptySched (t : Tid) : List (Tid × Act) :=
  [(t, .invoke ⟨"get", [(t : Int)]⟩), (t, .step), (t, .ret)]

/-- The results returned to the client, in order. -/
def retsOf (os : List (Tid × Obs)) : List GRet :=
  os.filterMap fun x => match x.2 with
    | .ret r => some r
    | _ => none

theorem upd_upd {α : Type} (f : Nat → α) (i : Nat) (v w : α) : upd (upd f i v) i w = upd f i w := by
  funext j; simp only [upd]; split <;> rfl

/-- A `get` that runs alone on a non-empty list: the complete run, with its trace. -/
theorem get_seq_run (s : St) (t : Tid) (a : Nat) (hidle : s.pc t = .idle) (hh : s.head.1 = some a) :
    model.run s (getSched t) = some
      ({ s with head := (s.next a, s.head.2 + 1), owns := upd2 s.owns t a true, pc := upd s.pc t .idle },
       [(t, .call ⟨"get", [(t : Int)]⟩), (t, .ev (evLdHead (some a) s.head.2)), (t, .ev (evLd (nloc a) (s.next a))),
        (t, .ev (evCasOk (some a) s.head.2 (s.next a) (s.head.2 + 1))), (t, .ret [1, (a : Int)])]) := by
  simp [getSched, Model.run, Model.apply, model, invoke, step, result, hidle, hh, getLoop, upd_upd]

/-- A `get` that runs alone on an empty list: the complete run, with its trace. -/
theorem get_seq_empty_run (s : St) (t : Tid) (hidle : s.pc t = .idle) (hh : s.head.1 = none) :
    model.run s (getEmptySched t) = some
      ({ s with pc := upd s.pc t .idle },
       [(t, .call ⟨"get", [(t : Int)]⟩), (t, .ev (evLdHead none s.head.2)), (t, .ret [0])]) := by
  simp [getEmptySched, Model.run, Model.apply, model, invoke, step, result, hidle, hh, getLoop, upd_upd]

/-- A `get` that runs alone on a non-empty chain `a :: l` returns `a`, owns it, and leaves the chain `l`. -/
theorem get_seq_nonempty (s : St) (t : Tid) (a : Nat) (l : List Nat) (hidle : s.pc t = .idle)
    (hch : Chain s.next s.head.1 (a :: l)) :
    ∃ s' os, model.run s (getSched t) = some (s', os) ∧ retsOf os = [[1, (a : Int)]] ∧
      s'.pc t = .idle ∧ Chain s'.next s'.head.1 l ∧ s'.owns t a = true ∧
      (∀ t2 n, s.owns t2 n = true → s'.owns t2 n = true) := by
  simp only [Chain] at hch
  obtain ⟨hh, hch2⟩ := hch
  refine ⟨_, _, get_seq_run s t a hidle hh, ?_, ?_, ?_, ?_, ?_⟩
  · simp [retsOf]
  · simp
  · exact hch2
  · simp [upd2]
  · intro t2 n h; simp only [upd2]; split <;> simp_all

/-- A `get` that runs alone on an empty chain returns "empty". -/
theorem get_seq_empty (s : St) (t : Tid) (hidle : s.pc t = .idle) (hh : s.head.1 = none) :
    ∃ s' os, model.run s (getEmptySched t) = some (s', os) ∧ retsOf os = [[0]] ∧
      s'.pc t = .idle ∧ s'.head = s.head ∧ s'.owns = s.owns := by
  refine ⟨_, _, get_seq_empty_run s t hidle hh, ?_, ?_, rfl, rfl⟩
  · simp [retsOf]
  · simp

theorem run_append : ∀ (s1 : List (Tid × Act)) (s2 : List (Tid × Act)) (s s' s'' : St) (o1 o2 : List (Tid × Obs)),
    model.run s s1 = some (s', o1) → model.run s' s2 = some (s'', o2) →
    model.run s (s1 ++ s2) = some (s'', o1 ++ o2) := by
  intro s1
  induction s1 with
  | nil =>
    intro s2 s s' s'' o1 o2 h1 h2
    simp [Model.run] at h1
    obtain ⟨rfl, rfl⟩ := h1
    simpa using h2
  | cons x rest ih =>
    intro s2 s s' s'' o1 o2 h1 h2
    obtain ⟨t, a⟩ := x
    obtain ⟨sa, o, os1, hap, hrun, rfl⟩ := run_cons h1
    have := ih s2 sa s' s'' os1 o2 hrun h2
    simp [Model.run, hap, this]

/-- `k` times `get`, then one more. -/
def drainSched (t : Tid) : Nat → List (Tid × Act)
  | 0 => getEmptySched t
  | k + 1 => getSched t ++ drainSched t k

/-- Draining: from a state in which thread `t` is idle and the chain is `l`, `l.length` successive `get()` calls
    of `t` (running alone) return the nodes of `l`, every one of them, in chain order, and the next `get()`
    returns "empty"; `t` then owns all of them. -/
theorem drain (t : Tid) : ∀ (l : List Nat) (s : St), s.pc t = .idle → Chain s.next s.head.1 l →
    ∃ s' os, model.run s (drainSched t l.length) = some (s', os) ∧
      retsOf os = l.map (fun (a : Nat) => ([1, (a : Int)] : GRet)) ++ [[0]] ∧ s'.head.1 = none ∧
      (∀ a ∈ l, s'.owns t a = true) ∧ (∀ t2 n, s.owns t2 n = true → s'.owns t2 n = true) := by
  intro l
  induction l with
  | nil =>
    intro s hidle hch
    simp only [Chain] at hch
    obtain ⟨s', os, hrun, hret, -, hhead, hown⟩ := get_seq_empty s t hidle hch
    refine ⟨s', os, hrun, by simpa using hret, by rw [hhead]; exact hch, by simp, fun t2 n h => by rw [hown]; exact h⟩
  | cons a l ih =>
    intro s hidle hch
    obtain ⟨s1, os1, hrun1, hret1, hidle1, hch1, hown1, hmono1⟩ := get_seq_nonempty s t a l hidle hch
    obtain ⟨s2, os2, hrun2, hret2, hhead2, hown2, hmono2⟩ := ih s1 hidle1 hch1
    refine ⟨s2, os1 ++ os2, run_append _ _ _ _ _ _ _ hrun1 hrun2, ?_, hhead2, ?_, fun t2 n h => hmono2 _ _ (hmono1 _ _ h)⟩
    · simp only [retsOf, List.filterMap_append] at hret1 hret2 ⊢
      rw [hret1, hret2]; simp
    · intro b hb
      rcases List.mem_cons.mp hb with rfl | hb
      · exact hmono2 _ _ hown1
      · exact hown2 b hb

end CdsVerif.Algo.TaggedFreeList

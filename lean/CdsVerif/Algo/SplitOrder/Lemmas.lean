/-
Split-ordered list key arithmetic (property C27), over an ABSTRACT 64-bit bit
reversal `rev` (hypothesis `hrev : ∀ x, rev x = x.reverse`) and an ABSTRACT
"index of most significant set bit" `msbnz` (hypothesis
`hmsb : ∀ b, b ≠ 0 → (msbnz b).toNat = Nat.log2 b.toNat`).

Nothing here mentions the generated code; `CdsVerif.Props.C27` instantiates these
lemmas with the generated `swar64` / `lookup64` / `muldiv_op64` / `msb64nz`.
-/
namespace CdsVerif.Algo.SplitOrder

/-! ## Bit-level facts about `BitVec.reverse` at width 64 -/

theorem rev_bit (x : BitVec 64) (i : Nat) (h : i < 64) :
    x.reverse.getLsbD i = x.getLsbD (63 - i) := by
  rw [BitVec.getLsbD_reverse, BitVec.getMsbD_eq_getLsbD]; simp [h]

theorem rev_injective {x y : BitVec 64} (h : x.reverse = y.reverse) : x = y := by
  have := congrArg BitVec.reverse h
  simpa using this

theorem one_shl_toNat (j : Nat) (hj : j < 64) : (1#64 <<< j).toNat = 2 ^ j := by
  rw [← BitVec.twoPow_eq, BitVec.toNat_twoPow_of_lt hj]

theorem one_shl_bit (j i : Nat) (hj : j < 64) : (1#64 <<< j).getLsbD i = decide (j = i) := by
  rw [← BitVec.twoPow_eq, BitVec.getLsbD_twoPow]; simp [hj]

/-- clearing a set bit `j` subtracts `2^j` -/
theorem toNat_clear_bit (x : BitVec 64) (j : Nat) (hj : j < 64) (hx : x.getLsbD j = true) :
    (x &&& ~~~(1#64 <<< j)).toNat + 2 ^ j = x.toNat := by
  have hdis : (x &&& ~~~(1#64 <<< j)) &&& (1#64 <<< j) = 0#64 := by
    apply BitVec.eq_of_getLsbD_eq; intro i hi
    simp only [BitVec.getLsbD_and, BitVec.getLsbD_not, one_shl_bit j i hj, BitVec.getLsbD_zero]
    by_cases h : j = i <;> simp [h]
  have hsum : (x &&& ~~~(1#64 <<< j)) + (1#64 <<< j) = x := by
    rw [BitVec.add_eq_or_of_and_eq_zero _ _ hdis]
    apply BitVec.eq_of_getLsbD_eq; intro i hi
    simp only [BitVec.getLsbD_or, BitVec.getLsbD_and, BitVec.getLsbD_not, one_shl_bit j i hj]
    by_cases h : j = i
    · subst h; simp [hx]
    · simp [h, hi]
  have := BitVec.toNat_add_of_and_eq_zero hdis
  rw [hsum, one_shl_toNat j hj] at this
  omega

/-- reversal commutes with clearing a bit (bit `j` goes to bit `63 - j`) -/
theorem rev_clear_bit (x : BitVec 64) (j : Nat) (hj : j < 64) :
    (x &&& ~~~(1#64 <<< j)).reverse = x.reverse &&& ~~~(1#64 <<< (63 - j)) := by
  apply BitVec.eq_of_getLsbD_eq; intro i hi
  rw [rev_bit _ _ hi]
  simp only [BitVec.getLsbD_and, BitVec.getLsbD_not, one_shl_bit j _ hj,
    one_shl_bit (63 - j) i (by omega), rev_bit _ _ hi]
  have : (j = 63 - i) ↔ (63 - j = i) := by omega
  have h63 : 63 - i < 64 := by omega
  simp [this, h63, hi]

theorem rev_toNat_clear_bit (x : BitVec 64) (j : Nat) (hj : j < 64) (hx : x.getLsbD j = true) :
    (x &&& ~~~(1#64 <<< j)).reverse.toNat + 2 ^ (63 - j) = x.reverse.toNat := by
  rw [rev_clear_bit x j hj]
  apply toNat_clear_bit _ _ (by omega)
  rw [rev_bit _ _ (by omega)]
  rw [show 63 - (63 - j) = j by omega]; exact hx

/-- low-`k`-bit mask -/
theorem mask_toNat (h : BitVec 64) (k : Nat) (hk : k < 64) :
    (h &&& ((1#64 <<< k) - 1#64)).toNat = h.toNat % 2 ^ k := by
  have h1 : ((1#64 <<< k) - 1#64).toNat = 2 ^ k - 1 := by
    rw [BitVec.toNat_sub_of_le, one_shl_toNat k hk]; rfl
    rw [BitVec.le_def, one_shl_toNat k hk]
    have := Nat.two_pow_pos k
    simp; omega
  rw [BitVec.toNat_and, h1, Nat.and_two_pow_sub_one_eq_mod]

/-- Reversing the low `k` bits of `h` gives the top `k` bits of `reverse h`, the rest zero. -/
theorem rev_mod (h b : BitVec 64) (k : Nat) (hk : k ≤ 64) (hb : b.toNat = h.toNat % 2 ^ k) :
    b.reverse.toNat = h.reverse.toNat / 2 ^ (64 - k) * 2 ^ (64 - k) := by
  have hbit : ∀ i, b.getLsbD i = (decide (i < k) && h.getLsbD i) := by
    intro i
    rw [← BitVec.testBit_toNat, hb, Nat.testBit_mod_two_pow, BitVec.testBit_toNat]
  have heq : b.reverse = (h.reverse >>> (64 - k)) <<< (64 - k) := by
    apply BitVec.eq_of_getLsbD_eq; intro i hi
    rw [rev_bit _ _ hi, hbit]
    simp only [BitVec.getLsbD_shiftLeft, BitVec.getLsbD_ushiftRight]
    by_cases hik : i < 64 - k
    · have : ¬ (63 - i < k) := by omega
      simp [hik, this]
    · have h1 : 63 - i < k := by omega
      have h2 : 64 - k + (i - (64 - k)) = i := by omega
      simp only [hik, h1, hi, h2, decide_true, decide_false, Bool.not_false, Bool.true_and]
      rw [rev_bit _ _ hi]
  rw [heq, BitVec.toNat_shiftLeft, BitVec.toNat_ushiftRight, Nat.shiftRight_eq_div_pow,
    Nat.shiftLeft_eq]
  apply Nat.mod_eq_of_lt
  have := Nat.div_mul_le_self h.reverse.toNat (2 ^ (64 - k))
  have := h.reverse.isLt
  omega

/-- For a bucket number `b < 2^k`, `reverse b` is a multiple of `2^(64-k)`. -/
theorem rev_lt (b : BitVec 64) (k : Nat) (hk : k ≤ 64) (hb : b.toNat < 2 ^ k) :
    b.reverse.toNat = b.reverse.toNat / 2 ^ (64 - k) * 2 ^ (64 - k) :=
  rev_mod b b k hk (Nat.mod_eq_of_lt hb).symm

/-- setting bit 0 -/
theorem or_one_toNat (x : BitVec 64) : (x ||| 1#64).toNat = 2 * (x.toNat / 2) + 1 := by
  have h1 : x ||| 1#64 = ((x >>> 1) <<< 1) + 1#64 := by
    rw [BitVec.add_eq_or_of_and_eq_zero]
    · apply BitVec.eq_of_getLsbD_eq; intro i hi
      simp only [BitVec.getLsbD_or, BitVec.getLsbD_one, BitVec.getLsbD_shiftLeft,
        BitVec.getLsbD_ushiftRight]
      by_cases h : i = 0
      · simp [h]
      · have : 1 + (i - 1) = i := by omega
        have : ¬ i < 1 := by omega
        simp [*]
    · apply BitVec.eq_of_getLsbD_eq; intro i hi
      simp only [BitVec.getLsbD_and, BitVec.getLsbD_one, BitVec.getLsbD_shiftLeft,
        BitVec.getLsbD_zero]
      by_cases h : i = 0 <;> simp [h]
  rw [h1]
  bv_omega

/-- clearing bit 0 -/
theorem and_not_one_toNat (x : BitVec 64) : (x &&& ~~~(1#64)).toNat = 2 * (x.toNat / 2) := by
  have h1 : x &&& ~~~(1#64) = ((x >>> 1) <<< 1) := by
    apply BitVec.eq_of_getLsbD_eq; intro i hi
    simp only [BitVec.getLsbD_and, BitVec.getLsbD_not, BitVec.getLsbD_one,
      BitVec.getLsbD_shiftLeft, BitVec.getLsbD_ushiftRight]
    by_cases h : i = 0
    · simp [h]
    · have : 1 + (i - 1) = i := by omega
      have : ¬ i < 1 := by omega
      simp [*]
  rw [h1]
  bv_omega

/-! ## Pure `Nat` arithmetic on blocks of size `M = 2 * M'` -/

theorem pow_block (k : Nat) (hk : k ≤ 63) : 2 ^ (64 - k) = 2 * 2 ^ (63 - k) := by
  rw [show 64 - k = (63 - k) + 1 by omega, Nat.pow_succ, Nat.mul_comm]

/-- `R` lies in block `q`; a multiple `q' * M` above `q * M` is above `R ||| 1`. -/
theorem nat_contig (R M' q q' : Nat) (h2 : R < (q + 1) * (2 * M'))
    (hlt : q * (2 * M') < q' * (2 * M')) : 2 * (R / 2) + 1 < q' * (2 * M') := by
  have hq : q < q' := Nat.lt_of_mul_lt_mul_right hlt
  have hle : (q + 1) * (2 * M') ≤ q' * (2 * M') := Nat.mul_le_mul_right _ hq
  have e : (q + 1) * (2 * M') = 2 * ((q + 1) * M') := by rw [Nat.mul_left_comm]
  omega

/-- the half-way point of block `q` is strictly inside the block -/
theorem nat_between (M' q q' : Nat) (hM : 0 < M')
    (hlt : q * (2 * M') < q' * (2 * M')) :
    q * (2 * M') < q * (2 * M') + M' ∧ q * (2 * M') + M' < q' * (2 * M') := by
  have hq : q < q' := Nat.lt_of_mul_lt_mul_right hlt
  have hle : (q + 1) * (2 * M') ≤ q' * (2 * M') := Nat.mul_le_mul_right _ hq
  rw [Nat.add_mul] at hle
  omega

/-! ## The split-order key functions over an abstract reversal / msb -/

/-- `split_list::regular_hash` : reversed hash with the least significant bit set -/
def regularKey (rev : BitVec 64 → BitVec 64) (h : BitVec 64) : BitVec 64 := rev h ||| 1#64
/-- `split_list::dummy_hash` : reversed bucket number with the least significant bit cleared -/
def dummyKey (rev : BitVec 64 → BitVec 64) (b : BitVec 64) : BitVec 64 := rev b &&& ~~~(1#64)
/-- `SplitListSet::parent_bucket` : clear the most significant set bit -/
def parentOf (msbnz : BitVec 64 → BitVec 32) (b : BitVec 64) : BitVec 64 :=
  b &&& ~~~(1#64 <<< ((msbnz b).toNat % 64))
/-- `SplitListSet::bucket_no` for a table of `2^k` buckets -/
def bucketOf (k h : BitVec 64) : BitVec 64 := h &&& ((1#64 <<< (k.toNat % 64)) - 1#64)

theorem bucketOf_spec (k h : BitVec 64) (hk : k.toNat ≤ 63) :
    (bucketOf k h).toNat = h.toNat % 2 ^ k.toNat := by
  rw [bucketOf, Nat.mod_eq_of_lt (by omega), mask_toNat h _ (by omega)]

theorem bucketOf_lt (k h : BitVec 64) (hk : k.toNat ≤ 63) :
    (bucketOf k h).toNat < 2 ^ k.toNat := by
  rw [bucketOf_spec k h hk]; exact Nat.mod_lt _ (Nat.two_pow_pos _)

theorem lt_two_pow_63 {k n : Nat} (hk : k ≤ 63) (hn : n < 2 ^ k) : n < 2 ^ 63 :=
  Nat.lt_of_lt_of_le hn (Nat.pow_le_pow_right (by omega) hk)

/-- doubling the table: the bucket of `h` either stays `b` or becomes `b + 2^k` -/
theorem bucketOf_succ (k h : BitVec 64) (hk : k.toNat ≤ 62) :
    (bucketOf (k + 1#64) h = bucketOf k h ∨
      (bucketOf (k + 1#64) h).toNat = (bucketOf k h).toNat + 2 ^ k.toNat) := by
  have hk1 : (k + 1#64).toNat = k.toNat + 1 := by bv_omega
  have h1 := bucketOf_spec (k + 1#64) h (by omega)
  have h0 := bucketOf_spec k h (by omega)
  rw [hk1, Nat.pow_succ, Nat.mod_mul] at h1
  rcases Nat.mod_two_eq_zero_or_one (h.toNat / 2 ^ k.toNat) with e | e
  · left; apply BitVec.eq_of_toNat_eq; rw [h1, h0, e]; simp
  · right; rw [h1, h0, e]; simp

theorem log2_lt_64 (b : BitVec 64) (hb : b ≠ 0) : Nat.log2 b.toNat < 64 := by
  have : b.toNat ≠ 0 := fun h => hb (BitVec.eq_of_toNat_eq h)
  exact (Nat.log2_lt this).2 b.isLt

theorem toNat_ne_zero {b : BitVec 64} (hb : b ≠ 0) : b.toNat ≠ 0 :=
  fun h => hb (BitVec.eq_of_toNat_eq h)

theorem top_bit_set (b : BitVec 64) (hb : b ≠ 0) : b.getLsbD (Nat.log2 b.toNat) = true := by
  rw [← BitVec.testBit_toNat]; exact Nat.testBit_log2 (toNat_ne_zero hb)

section
variable (rev : BitVec 64 → BitVec 64) (hrev : ∀ x, rev x = x.reverse)
include hrev

theorem regularKey_toNat (h : BitVec 64) :
    (regularKey rev h).toNat = 2 * (h.reverse.toNat / 2) + 1 := by
  rw [regularKey, hrev, or_one_toNat]

theorem dummyKey_toNat (b : BitVec 64) :
    (dummyKey rev b).toNat = 2 * (b.reverse.toNat / 2) := by
  rw [dummyKey, hrev, and_not_one_toNat]

/-- for bucket numbers below `2^63` clearing bit 0 of the reversal is a no-op -/
theorem dummyKey_toNat_of_lt (b : BitVec 64) (hb : b.toNat < 2 ^ 63) :
    (dummyKey rev b).toNat = b.reverse.toNat := by
  rw [dummyKey_toNat rev hrev]
  have := rev_lt b 63 (by omega) hb
  omega

omit hrev in
theorem regular_odd (h : BitVec 64) : (regularKey rev h).getLsbD 0 = true := by
  simp [regularKey]

omit hrev in
theorem dummy_even (b : BitVec 64) : (dummyKey rev b).getLsbD 0 = false := by
  simp [dummyKey]

/-- every regular key of bucket `b = h mod 2^k` sorts after `b`'s dummy -/
theorem dummy_before_regular (k h : BitVec 64) (hk : k.toNat ≤ 63) :
    BitVec.ult (dummyKey rev (bucketOf k h)) (regularKey rev h) = true := by
  have hb := bucketOf_spec k h hk
  have hlt := lt_two_pow_63 hk (bucketOf_lt k h hk)
  rw [BitVec.ult_eq_decide, decide_eq_true_eq, dummyKey_toNat_of_lt rev hrev _ hlt,
    regularKey_toNat rev hrev, rev_mod h _ k.toNat (by omega) hb, pow_block _ hk]
  generalize h.reverse.toNat = R
  generalize 2 ^ (63 - k.toNat) = M'
  have := Nat.div_mul_le_self R (2 * M')
  have e : R / (2 * M') * (2 * M') = 2 * (R / (2 * M') * M') := by rw [Nat.mul_left_comm]
  omega

/-- …and before the dummy of every bucket that follows `b` in split order -/
theorem contiguous (k h b' : BitVec 64) (hk : k.toNat ≤ 63) (hb' : b'.toNat < 2 ^ k.toNat)
    (hlt : BitVec.ult (dummyKey rev (bucketOf k h)) (dummyKey rev b') = true) :
    BitVec.ult (regularKey rev h) (dummyKey rev b') = true := by
  have hb := bucketOf_spec k h hk
  have hblt := lt_two_pow_63 hk (bucketOf_lt k h hk)
  have hb'lt := lt_two_pow_63 hk hb'
  rw [BitVec.ult_eq_decide, decide_eq_true_eq, dummyKey_toNat_of_lt rev hrev _ hblt,
    dummyKey_toNat_of_lt rev hrev _ hb'lt, rev_mod h _ k.toNat (by omega) hb,
    rev_lt b' k.toNat (by omega) hb', pow_block _ hk] at hlt
  rw [BitVec.ult_eq_decide, decide_eq_true_eq, dummyKey_toNat_of_lt rev hrev _ hb'lt,
    regularKey_toNat rev hrev, rev_lt b' k.toNat (by omega) hb', pow_block _ hk]
  refine nat_contig _ _ _ _ ?_ hlt
  have hpos : 0 < 2 * 2 ^ (63 - k.toNat) := by have := Nat.two_pow_pos (63 - k.toNat); omega
  exact Nat.lt_mul_of_div_lt (Nat.lt_succ_self _) hpos

/-- `dummyKey` is injective on bucket numbers `< 2^k`, `k ≤ 63` -/
theorem dummy_injective (k b b' : BitVec 64) (hk : k.toNat ≤ 63) (hb : b.toNat < 2 ^ k.toNat)
    (hb' : b'.toNat < 2 ^ k.toNat) (heq : dummyKey rev b = dummyKey rev b') : b = b' := by
  have h := congrArg BitVec.toNat heq
  rw [dummyKey_toNat_of_lt rev hrev _ (lt_two_pow_63 hk hb),
    dummyKey_toNat_of_lt rev hrev _ (lt_two_pow_63 hk hb')] at h
  exact rev_injective (BitVec.eq_of_toNat_eq h)

end

section
variable (msbnz : BitVec 64 → BitVec 32)
  (hmsb : ∀ b : BitVec 64, b ≠ 0 → (msbnz b).toNat = Nat.log2 b.toNat)
include hmsb

theorem parentOf_eq (b : BitVec 64) (hb : b ≠ 0) :
    parentOf msbnz b = b &&& ~~~(1#64 <<< Nat.log2 b.toNat) := by
  have := log2_lt_64 b hb
  rw [parentOf, hmsb b hb, Nat.mod_eq_of_lt this]

theorem msbnz_lt_64 (b : BitVec 64) (hb : b ≠ 0) : (msbnz b).toNat < 64 := by
  rw [hmsb b hb]; exact log2_lt_64 b hb

/-- `parent_bucket b` is `b` with its most significant set bit removed -/
theorem parentOf_add (b : BitVec 64) (hb : b ≠ 0) :
    (parentOf msbnz b).toNat + 2 ^ Nat.log2 b.toNat = b.toNat := by
  rw [parentOf_eq msbnz hmsb b hb]
  exact toNat_clear_bit b _ (log2_lt_64 b hb) (top_bit_set b hb)

theorem parentOf_spec (b : BitVec 64) (hb : b ≠ 0) :
    (parentOf msbnz b).toNat = b.toNat - 2 ^ Nat.log2 b.toNat ∧
    (parentOf msbnz b).toNat < b.toNat := by
  have := parentOf_add msbnz hmsb b hb
  have := Nat.two_pow_pos (Nat.log2 b.toNat)
  omega

/-- reversal of the parent: remove bit `63 - log2 b` from `reverse b` -/
theorem rev_parentOf_add (b : BitVec 64) (hb : b ≠ 0) :
    (parentOf msbnz b).reverse.toNat + 2 ^ (63 - Nat.log2 b.toNat) = b.reverse.toNat := by
  rw [parentOf_eq msbnz hmsb b hb]
  exact rev_toNat_clear_bit b _ (log2_lt_64 b hb) (top_bit_set b hb)

/-- `parent_bucket (b + 2^k) = b` for `b < 2^k` -/
theorem parentOf_add_two_pow (b : BitVec 64) (k : Nat) (hk : k ≤ 63) (hb : b.toNat < 2 ^ k) :
    (b + (1#64 <<< k)).toNat = b.toNat + 2 ^ k ∧ Nat.log2 (b + (1#64 <<< k)).toNat = k ∧
    parentOf msbnz (b + (1#64 <<< k)) = b := by
  have hp : 2 ^ (k + 1) ≤ 2 ^ 64 := Nat.pow_le_pow_right (by omega) (by omega)
  have hp2 : 2 ^ (k + 1) = 2 * 2 ^ k := by rw [Nat.pow_succ, Nat.mul_comm]
  have hc : (b + (1#64 <<< k)).toNat = b.toNat + 2 ^ k := by
    rw [BitVec.toNat_add, one_shl_toNat k (by omega)]
    apply Nat.mod_eq_of_lt; omega
  have hne : b + (1#64 <<< k) ≠ 0 := by
    intro h; rw [h] at hc; have := Nat.two_pow_pos k; simp at hc; omega
  have hlog : Nat.log2 (b + (1#64 <<< k)).toNat = k := by
    rw [Nat.log2_eq_iff (toNat_ne_zero hne), hc]; omega
  refine ⟨hc, hlog, ?_⟩
  apply BitVec.eq_of_toNat_eq
  have := parentOf_add msbnz hmsb _ hne
  rw [hlog, hc] at this
  omega

variable (rev : BitVec 64 → BitVec 64) (hrev : ∀ x, rev x = x.reverse)
include hrev

/-- a bucket's parent dummy sorts strictly before the bucket's own dummy
    (bucket numbers below `2^63`; see `parent_dummy_collision` for the rest) -/
theorem parent_dummy_before (b : BitVec 64) (hb : b ≠ 0) (hlt : b.toNat < 2 ^ 63) :
    BitVec.ult (dummyKey rev (parentOf msbnz b)) (dummyKey rev b) = true := by
  have hp := (parentOf_spec msbnz hmsb b hb).2
  rw [BitVec.ult_eq_decide, decide_eq_true_eq, dummyKey_toNat_of_lt rev hrev _ hlt,
    dummyKey_toNat_of_lt rev hrev _ (by omega)]
  have := rev_parentOf_add msbnz hmsb b hb
  have := Nat.two_pow_pos (63 - Nat.log2 b.toNat)
  omega

/-- for bucket numbers with bit 63 set the parent's dummy key COINCIDES with the bucket's:
    `dummy_hash` clears exactly the bit that distinguishes them -/
theorem parent_dummy_collision (b : BitVec 64) (hge : 2 ^ 63 ≤ b.toNat) :
    dummyKey rev (parentOf msbnz b) = dummyKey rev b := by
  have hb : b ≠ 0 := by intro h; rw [h] at hge; simp at hge
  have hlog : Nat.log2 b.toNat = 63 := by
    rw [Nat.log2_eq_iff (toNat_ne_zero hb)]; exact ⟨hge, b.isLt⟩
  have hp := parentOf_add msbnz hmsb b hb
  have hr := rev_parentOf_add msbnz hmsb b hb
  rw [hlog] at hp hr
  apply BitVec.eq_of_toNat_eq
  have hplt : (parentOf msbnz b).toNat < 2 ^ 63 := by have := b.isLt; omega
  rw [dummyKey_toNat_of_lt rev hrev _ hplt, dummyKey_toNat rev hrev]
  have := rev_lt _ 63 (by omega) hplt
  omega

/-- the new bucket `b + 2^k` created by doubling the table sorts strictly between `b`'s dummy
    and the dummy of every bucket of the `2^k`-table that follows `b` -/
theorem split_between (k : Nat) (b b' : BitVec 64) (hk : k ≤ 62) (hb : b.toNat < 2 ^ k)
    (hb' : b'.toNat < 2 ^ k)
    (hlt : BitVec.ult (dummyKey rev b) (dummyKey rev b') = true) :
    BitVec.ult (dummyKey rev b) (dummyKey rev (b + (1#64 <<< k))) = true ∧
    BitVec.ult (dummyKey rev (b + (1#64 <<< k))) (dummyKey rev b') = true := by
  obtain ⟨hc, hlog, hpar⟩ := parentOf_add_two_pow msbnz hmsb b k (by omega) hb
  have hne : b + (1#64 <<< k) ≠ 0 := by
    intro h; rw [h] at hc; have := Nat.two_pow_pos k; simp at hc; omega
  have hr := rev_parentOf_add msbnz hmsb _ hne
  rw [hpar, hlog] at hr
  have h63 : (2:Nat) ^ (k + 1) ≤ 2 ^ 63 := Nat.pow_le_pow_right (by omega) (by omega)
  have hp2 : 2 ^ (k + 1) = 2 * 2 ^ k := by rw [Nat.pow_succ, Nat.mul_comm]
  have hclt : (b + (1#64 <<< k)).toNat < 2 ^ 63 := by omega
  have hblt : b.toNat < 2 ^ 63 := by omega
  have hb'lt : b'.toNat < 2 ^ 63 := by omega
  rw [BitVec.ult_eq_decide, decide_eq_true_eq, dummyKey_toNat_of_lt rev hrev _ hblt,
    dummyKey_toNat_of_lt rev hrev _ hb'lt, rev_lt b k (by omega) hb,
    rev_lt b' k (by omega) hb', pow_block _ (by omega)] at hlt
  rw [BitVec.ult_eq_decide, decide_eq_true_eq, BitVec.ult_eq_decide, decide_eq_true_eq,
    dummyKey_toNat_of_lt rev hrev _ hblt, dummyKey_toNat_of_lt rev hrev _ hb'lt,
    dummyKey_toNat_of_lt rev hrev _ hclt, ← hr, rev_lt b k (by omega) hb,
    rev_lt b' k (by omega) hb', pow_block _ (by omega)]
  exact nat_between _ _ _ (Nat.two_pow_pos _) hlt

end

end CdsVerif.Algo.SplitOrder

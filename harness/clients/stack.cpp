// C09: stacks.  Variants of TreiberStack (intrusive / container, HP / DHP,
// elimination on / off) and FCStack.  History is judged against Spec.lifo.
#include <cds/init.h>
#include <cds/gc/hp.h>
#include <cds/gc/dhp.h>
#include <cds/intrusive/treiber_stack.h>
#include <cds/container/treiber_stack.h>
#include <cds/container/fcstack.h>
#include <cds/intrusive/fcstack.h>
#include <boost/intrusive/slist.hpp>
#include <memory>
#include "../client.h"

using namespace khizmax_libcds_verif;
namespace ci = cds::intrusive;
namespace cc = cds::container;

struct IStack {
    virtual ~IStack() {}
    virtual bool push( long v ) = 0;
    virtual bool pop( long& v ) = 0;
    virtual void names() {}
};

// schedule-independent "random" engine for elimination: deterministic sequence
struct det_engine {
    typedef unsigned int result_type;
    unsigned int s = 12345;
    result_type operator()() { s = s * 1103515245u + 12345u; return ( s >> 8 ); }
    static constexpr result_type min() { return 0; }
    static constexpr result_type max() { return 0x00ffffffu; }
};

template <class GC, bool Elim>
struct IntrusiveTreiber : IStack {
    struct item : ci::treiber_stack::node<GC> { long v; bool disposed = false; };
    struct traits : ci::treiber_stack::traits {
        typedef ci::treiber_stack::base_hook< cds::opt::gc<GC> > hook;
        static constexpr bool const enable_elimination = Elim;
        typedef det_engine random_engine;
        typedef cds::opt::v::initialized_dynamic_buffer<int> buffer;
    };
    typedef ci::TreiberStack<GC, item, traits> stack_t;
    std::unique_ptr<stack_t> st;
    std::vector<std::unique_ptr<item>> items;
    explicit IntrusiveTreiber( size_t coll ) : st( new stack_t( coll ))
    {
        reg_name( &st->m_Top, sizeof( st->m_Top ), "top" );
    }
    ~IntrusiveTreiber()
    {
        long v;
        while ( true ) { item* p = st->pop(); if ( !p ) break; (void) v; }
        st.reset();
        GC::force_dispose();
    }
    bool push( long v ) override
    {
        set_quiet( true );              // constructing the client's node (its constructor stores null into m_pNext) is not part of push()
        items.emplace_back( new item );
        set_quiet( false );
        item* p = items.back().get();
        p->v = v;
        // nodes are named by the order in which pushes are INVOKED in this case (n1, n2, …): this is the order in
        // which the Lean machine Algo/Treiber allocates node ids, so traces can be replayed against it (tie A)
        char nm[32];
        std::snprintf( nm, sizeof nm, "n%zu", items.size());
        reg_name( &p->m_pNext, sizeof( p->m_pNext ), nm );
        return st->push( *p );
    }
    bool pop( long& v ) override
    {
        item* p = st->pop();
        if ( !p ) return false;
        v = p->v;
        return true;
    }
};

// Hidden variants `treiber_hp_elim_named` / `treiber_dhp_elim_named`: the elimination variant with symbolic names for
// everything the Lean machine Algo/Elim speaks about (tie A, `cdsdriver replay elim` after tools/elim_pre.py):
//   top, n<k> (node k's m_pNext, k = order of push invocation), slot<i>.lock (spin lock of collision slot i),
//   op<t>.status (nStatus of the descriptor of thread t's operation in progress; the descriptor is a local of
//   push()/pop(), it is named when backoff() calls clear_record(): names are resolved when the trace is rendered).
// The inputs of a back-off round are reported by a note `T <t> ELIM <slot> <extra waits>` when slot_index() draws
// from the random engine: slot = what slot_index() computes from the drawn number; the harness build of
// backoff::delay<>::operator()( pred ) evaluates the predicate exactly once (0 extra evaluations).
static size_t g_elim_capacity = 1;
struct noting_engine {
    typedef unsigned int result_type;
    unsigned int s = 12345;
    result_type operator()()
    {
        s = s * 1103515245u + 12345u;
        result_type r = s >> 8;
        char nm[48];
        std::snprintf( nm, sizeof nm, "ELIM %zu 0", size_t( r ) & ( g_elim_capacity - 1 ));
        ev_note( nm );
        return r;
    }
    static constexpr result_type min() { return 0; }
    static constexpr result_type max() { return 0x00ffffffu; }
};
template <class Item>
struct naming_storage {
    static cds::algo::elimination::record& get() noexcept
    {
        cds::algo::elimination::record& r = cds::algo::elimination::storage::get();
        if ( r.pOp && current_tid() >= 0 ) {
            ci::treiber_stack::operation<Item>* op = static_cast<ci::treiber_stack::operation<Item>*>( r.pOp );
            char nm[32];
            std::snprintf( nm, sizeof nm, "op%d.status", current_tid());
            if ( !has_name( &op->nStatus ))
                reg_name( &op->nStatus, sizeof( op->nStatus ), nm );
        }
        return r;
    }
};
template <class GC>
struct NamedElimTreiber : IStack {
    struct item : ci::treiber_stack::node<GC> { long v; };
    struct traits : ci::treiber_stack::traits {
        typedef ci::treiber_stack::base_hook< cds::opt::gc<GC> > hook;
        static constexpr bool const enable_elimination = true;
        typedef noting_engine random_engine;
        typedef cds::opt::v::initialized_dynamic_buffer<int> buffer;
        typedef naming_storage<item> elimination_storage;
    };
    typedef ci::TreiberStack<GC, item, traits> stack_t;
    std::unique_ptr<stack_t> st;
    std::vector<std::unique_ptr<item>> items;
    explicit NamedElimTreiber( size_t coll ) : st( new stack_t( coll ))
    {
        reg_name( &st->m_Top, sizeof( st->m_Top ), "top" );
        auto& arr = st->m_Backoff.m_Elimination.collisions;
        g_elim_capacity = arr.capacity();
        for ( size_t i = 0; i < arr.capacity(); ++i ) {
            char nm[32];
            std::snprintf( nm, sizeof nm, "slot%zu.lock", i );
            reg_name( &arr[i].lock, sizeof( arr[i].lock ), nm );
        }
    }
    ~NamedElimTreiber()
    {
        while ( st->pop()) {}
        st.reset();
        GC::force_dispose();
    }
    bool push( long v ) override
    {
        set_quiet( true );
        items.emplace_back( new item );
        set_quiet( false );
        item* p = items.back().get();
        p->v = v;
        char nm[32];
        std::snprintf( nm, sizeof nm, "n%zu", items.size());
        reg_name( &p->m_pNext, sizeof( p->m_pNext ), nm );
        return st->push( *p );
    }
    bool pop( long& v ) override
    {
        item* p = st->pop();
        if ( !p ) return false;
        v = p->v;
        return true;
    }
};

template <class GC, bool Elim>
struct ContainerTreiber : IStack {
    struct traits : cc::treiber_stack::traits {
        static constexpr bool const enable_elimination = Elim;
        typedef det_engine random_engine;
    };
    typedef cc::TreiberStack<GC, long, traits> stack_t;
    std::unique_ptr<stack_t> st;
    explicit ContainerTreiber( size_t coll ) : st( new stack_t( coll )) {}
    bool push( long v ) override { return st->push( v ); }
    bool pop( long& v ) override { return st->pop( v ); }
};

template <bool Elim>
struct FCStackV : IStack {
    struct traits : cc::fcstack::traits {
        static constexpr bool const enable_elimination = Elim;
        typedef cds::algo::flat_combining::wait_strategy::backoff<> wait_strategy;
        typedef cds::sync::spin lock_type;
    };
    typedef cc::FCStack<long, std::stack<long>, traits> stack_t;
    std::unique_ptr<stack_t> st;
    FCStackV( unsigned compact, unsigned pass ) : st( new stack_t( compact, pass )) {}
    bool push( long v ) override { return st->push( v ); }
    bool pop( long& v ) override { return st->pop( v ); }
};

struct Fixture {
    static char const* family() { return "stack"; }
    static std::vector<std::string> variants()
    {
        return { "treiber_hp", "treiber_dhp", "treiber_hp_elim", "treiber_dhp_elim",
                 "ctreiber_hp", "ctreiber_dhp", "ctreiber_hp_elim", "fcstack", "fcstack_elim" };
    }
    std::unique_ptr<IStack> s;
    bool dhp = false, fc = false;
    bool failed = false;
    std::string failure;
    long nextv = 1;

    explicit Fixture( Case const& c )
    {
        size_t coll = size_t( 1 + ( c.index % 4 ));
        std::string const& v = c.variant;
        if ( v == "treiber_hp" ) s.reset( new IntrusiveTreiber<cds::gc::HP, false>( coll ));
        else if ( v == "treiber_dhp" ) { s.reset( new IntrusiveTreiber<cds::gc::DHP, false>( coll )); dhp = true; }
        else if ( v == "treiber_hp_elim" ) s.reset( new IntrusiveTreiber<cds::gc::HP, true>( coll ));
        else if ( v == "treiber_dhp_elim" ) { s.reset( new IntrusiveTreiber<cds::gc::DHP, true>( coll )); dhp = true; }
        else if ( v == "treiber_hp_elim_named" ) s.reset( new NamedElimTreiber<cds::gc::HP>( c.optl( "coll", long( coll ))));
        else if ( v == "treiber_dhp_elim_named" ) { s.reset( new NamedElimTreiber<cds::gc::DHP>( c.optl( "coll", long( coll )))); dhp = true; }
        else if ( v == "ctreiber_hp" ) s.reset( new ContainerTreiber<cds::gc::HP, false>( coll ));
        else if ( v == "ctreiber_dhp" ) { s.reset( new ContainerTreiber<cds::gc::DHP, false>( coll )); dhp = true; }
        else if ( v == "ctreiber_hp_elim" ) s.reset( new ContainerTreiber<cds::gc::HP, true>( coll ));
        else if ( v == "fcstack" ) { s.reset( new FCStackV<false>( 1 + unsigned( c.index % 2 ), 1 + unsigned( c.index % 4 ))); fc = true; }
        else if ( v == "fcstack_elim" ) { s.reset( new FCStackV<true>( 1 + unsigned( c.index % 2 ), 1 + unsigned( c.index % 4 ))); fc = true; }
        else { std::fprintf( stderr, "unknown variant %s\n", v.c_str()); std::exit( 2 ); }
    }
    std::string spec() const { return "lifo"; }

    std::vector<std::vector<Op>> program( Rng& r, int nthreads, int nops )
    {
        std::vector<std::vector<Op>> p( nthreads );
        long v = 1;
        unsigned push_pct = 40 + unsigned( r.below( 30 ));
        for ( int t = 0; t < nthreads; ++t ) {
            int n = 1 + int( r.below( nops ));
            for ( int i = 0; i < n; ++i ) {
                if ( r.chance( push_pct )) p[t].push_back( Op( "push", v++ ));
                else p[t].push_back( Op( "pop" ));
            }
        }
        return p;
    }
    void thread_begin( int ) { set_quiet( true ); cds::threading::Manager::attachThread(); set_quiet( false ); }
    void thread_end( int ) { set_quiet( true ); cds::threading::Manager::detachThread(); set_quiet( false ); }
    std::vector<long> exec( int, Op const& op )
    {
        if ( op.name == "push" )
            return { s->push( op.args[0] ) ? 1L : 0L };
        long v = 0;
        if ( s->pop( v )) return { 1, v };
        return { 0 };
    }
    // sequential drain by the main thread after every scheduled operation: a lost or duplicated item becomes visible
    void finish( std::ostream& out )
    {
        uint64_t t = 1000000;
        for ( int guard = 0; guard < 64; ++guard ) {
            long v = 0;
            bool ok = s->pop( v );
            out << "O 91 " << t << ' ' << t + 1 << " pop :";
            if ( ok ) out << " 1 " << v << '\n'; else out << " 0\n";
            t += 2;
            if ( !ok ) break;
        }
    }
};

int main( int argc, char** argv )
{
    cds::Initialize();
    {
        cds::gc::HP hp( 8, 16 );
        cds::gc::DHP dhp;
        cds::threading::Manager::attachThread();
        int rc = client_main<Fixture>( argc, argv );
        cds::threading::Manager::detachThread();
        (void) rc;
    }
    cds::Terminate();
    return 0;
}

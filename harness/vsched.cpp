// Deterministic scheduler: real std::threads serialised by a baton.  See vsched.h.
#include "vsched.h"

#include <algorithm>
#include <condition_variable>
#include <cstdlib>
#include <mutex>
#include <sstream>
#include <thread>
#include <unistd.h>

namespace khizmax_libcds_verif {

namespace {

struct NameEnt { uintptr_t base; size_t len; std::string name; };
std::vector<NameEnt> g_names;      // sorted by base
std::vector<std::pair<uint64_t, std::string>> g_aliases;   // integer values with a symbolic name (thread ids)
bool g_names_sorted = true;

struct Rec {
    uint16_t tid; uint8_t kind; uint8_t size; uint8_t isptr;
    void const* addr;
    uint64_t a[2], b[2];
    int note;           // index into g_notes for K_NOTE
};

constexpr int MAXT = 16;

std::mutex g_mu;
std::condition_variable g_cv[MAXT];
std::condition_variable g_cv_main;
std::condition_variable g_cv_exit;
int g_exit_turn = -1;           // threads leave one at a time, after the case is over (TLS destructors must not race)
int g_pro_turn = -1;            // prologues run one at a time, before the first scheduling decision
int g_pro_done = 0;
int g_cur = -1;                 // thread holding the baton (-1: main)
bool g_active = false;
int g_n = 0;
bool g_done[MAXT];
bool g_yielded[MAXT];
int g_prio[MAXT];
int g_ndone = 0;
uint64_t g_step = 0;
uint64_t g_clock = 0;
SchedCfg g_cfg;
Rng g_rng;
std::vector<uint64_t> g_change_points;
std::vector<int> g_sched;
std::vector<Rec> g_trace;
std::vector<std::string> g_notes;
TraceStats g_stats;
std::function<void( RunStatus )> g_on_abort;
int g_low_prio = 0;
int g_idle_rounds = 0;
int g_next_kind = -1;          // kind of the atomic operation the current thread is about to perform (M_CASBIAS)
int g_last_kind[64];           // kind of the last atomic operation of each thread (M_CASBIAS)
int g_last_run = -1;
uint64_t g_consecutive = 0;

thread_local int tls_tid = -1;
thread_local bool tls_quiet = false;

void sort_names()
{
    if ( !g_names_sorted ) {
        std::sort( g_names.begin(), g_names.end(), []( NameEnt const& x, NameEnt const& y ) { return x.base < y.base; } );
        g_names_sorted = true;
    }
}

NameEnt const* find_name( uintptr_t p )
{
    sort_names();
    auto it = std::upper_bound( g_names.begin(), g_names.end(), p, []( uintptr_t v, NameEnt const& e ) { return v < e.base; } );
    if ( it == g_names.begin())
        return nullptr;
    --it;
    if ( p >= it->base && p < it->base + it->len )
        return &*it;
    return nullptr;
}

[[noreturn]] void abort_case( RunStatus st )
{
    if ( g_on_abort )
        g_on_abort( st );
    _exit( 40 + int( st ));
}

bool runnable( int t ) { return !g_done[t] && !g_yielded[t]; }

// pick the thread that executes the next step; `me` is the caller (still live) or -1
int choose( int me )
{
    int cand[MAXT], nc = 0;
    for ( int t = 0; t < g_n; ++t )
        if ( runnable( t ))
            cand[nc++] = t;
    if ( nc == 0 ) {
        // nobody is runnable: every live thread has yielded since the last write.
        // A back-off after a lost race is not a wait, so let everybody try again; only when
        // this repeats many times with no write at all in between is it a deadlock.
        int live = 0;
        for ( int t = 0; t < g_n; ++t ) if ( !g_done[t] ) ++live;
        if ( live == 0 )
            return -1;
        if ( ++g_idle_rounds > 64 )
            abort_case( ST_DEADLOCK );
        for ( int t = 0; t < g_n; ++t ) {
            g_yielded[t] = false;
            if ( !g_done[t] ) cand[nc++] = t;
        }
        if ( nc > 1 && me >= 0 ) {      // prefer somebody else than the thread that has just yielded
            int k = 0;
            for ( int i = 0; i < nc; ++i ) if ( cand[i] != me ) cand[k++] = cand[i];
            nc = k;
        }
    }
    switch ( g_cfg.mode ) {
    case M_REPLAY:
        if ( g_step < g_cfg.replay.size()) {
            int t = g_cfg.replay[g_step];
            if ( t >= 0 && t < g_n && !g_done[t] )
                return t;
        }
        // fall through: beyond the recorded schedule behave non-preemptively
    case M_PREEMPT: {
        for ( auto const& p : g_cfg.preempt )
            if ( p.first == g_step && p.second >= 0 && p.second < g_n && runnable( p.second ))
                return p.second;
        if ( me >= 0 && runnable( me ))
            return me;
        return cand[0];
    }
    case M_PCT: {
        for ( uint64_t cp : g_change_points )
            if ( cp == g_step && me >= 0 )
                g_prio[me] = --g_low_prio;
        int best = cand[0];
        for ( int i = 1; i < nc; ++i )
            if ( g_prio[cand[i]] > g_prio[best] )
                best = cand[i];
        return best;
    }
    case M_CASBIAS: {
        // context switches cluster around CAS / exchange operations: right before one (the window between the
        // read that fixed the expected value and the CAS) and right after one (the window in which the algorithm
        // has published a step but not the follow-up, or has just lost a race); rare elsewhere
        bool hot = g_next_kind == K_CAS_OK || g_next_kind == K_XCHG
                || ( me >= 0 && ( g_last_kind[me] == K_CAS_OK || g_last_kind[me] == K_CAS_FAIL || g_last_kind[me] == K_XCHG ));
        if ( me >= 0 && runnable( me ) && !g_rng.chance( hot ? g_cfg.switch_pct : 3 ))
            return me;
        if ( nc > 1 && me >= 0 ) {      // a switch goes to somebody else
            int k = 0;
            int other[64];
            for ( int i = 0; i < nc; ++i ) if ( cand[i] != me ) other[k++] = cand[i];
            if ( k ) return other[g_rng.below( k )];
        }
        return cand[g_rng.below( nc )];
    }
    default: {
        if ( me >= 0 && runnable( me ) && !g_rng.chance( g_cfg.switch_pct ))
            return me;
        return cand[g_rng.below( nc )];
    }
    }
}

void hand_over( int me, int next )
{
    // caller holds no lock
    std::unique_lock<std::mutex> lk( g_mu );
    g_cur = next;
    ++g_stats.switches;
    g_cv[next].notify_one();
    g_cv[me].wait( lk, [me] { return g_cur == me; } );
}

// every scheduling decision goes through here, so that index k of the recorded
// schedule is decision k of a replay
int decide( int me )
{
    if ( g_step >= g_cfg.budget )
        abort_case( ST_BUDGET );
    // fairness: a thread that has run very long without a break while others are runnable is most likely
    // spinning in a loop that has no back-off call; demote it as if it had yielded (deterministic, replays stay valid)
    if ( me >= 0 && me == g_last_run ) {
        if ( ++g_consecutive > 1500 && g_cfg.mode != M_REPLAY ) {
            g_yielded[me] = true;
            if ( g_cfg.mode == M_PCT ) g_prio[me] = --g_low_prio;
            g_consecutive = 0;
        }
    }
    else { g_last_run = me; g_consecutive = 0; }
    int next = choose( me );
    g_sched.push_back( next );
    ++g_step;
    return next;
}

void sched_point( int me )
{
    int next = decide( me );
    if ( next != me )
        hand_over( me, next );
}

} // namespace

// ---------------------------------------------------------------- hooks

bool pre_op( void const*, int next_kind ) noexcept
{
    int me = tls_tid;
    if ( me < 0 || !g_active || tls_quiet )
        return false;
    g_next_kind = next_kind;
    sched_point( me );
    return g_cfg.trace;
}

static void copy_val( uint64_t dst[2], void const* src, unsigned size )
{
    dst[0] = dst[1] = 0;
    if ( src )
        std::memcpy( dst, src, size > 16 ? 16 : size );
}

void post_op( OpKind k, void const* addr, unsigned size, bool isptr, void const* a, void const* b ) noexcept
{
    Rec r;
    r.tid = uint16_t( tls_tid ); r.kind = k; r.size = uint8_t( size ); r.isptr = isptr; r.addr = addr; r.note = -1;
    copy_val( r.a, a, size );
    copy_val( r.b, b, size );
    bool changed = false;
    if ( tls_tid >= 0 && tls_tid < 64 ) g_last_kind[tls_tid] = int( k );
    switch ( k ) {
    case K_LD: ++g_stats.loads; break;
    case K_ST: ++g_stats.stores; changed = r.a[0] != r.b[0] || r.a[1] != r.b[1]; break;
    case K_XCHG: ++g_stats.rmw; changed = r.a[0] != r.b[0] || r.a[1] != r.b[1]; break;
    case K_CAS_OK: ++g_stats.cas_ok; changed = r.a[0] != r.b[0] || r.a[1] != r.b[1]; break;
    case K_CAS_FAIL: ++g_stats.cas_fail; break;
    case K_FENCE: ++g_stats.fences; break;
    default: ++g_stats.rmw; changed = true; break;
    }
    if ( changed ) {
        g_idle_rounds = 0;
        for ( int t = 0; t < g_n; ++t )
            g_yielded[t] = false;
    }
    g_trace.push_back( r );
}

void spin_hint() noexcept
{
    int me = tls_tid;
    if ( me < 0 || !g_active || tls_quiet )
        return;
    ++g_stats.yields;
    g_yielded[me] = true;
    if ( g_cfg.mode == M_PCT )
        g_prio[me] = --g_low_prio;
    int next = decide( me );      // never `me`: it has yielded; aborts on deadlock
    if ( next != me )
        hand_over( me, next );
}

// ---------------------------------------------------------------- registry

void reg_clear() { g_names.clear(); g_names_sorted = true; g_aliases.clear(); }
void reg_alias( uint64_t value, std::string const& name ) { g_aliases.push_back( std::make_pair( value, name )); }

void reg_name( void const* addr, size_t len, std::string const& name )
{
    g_names.push_back( NameEnt{ uintptr_t( addr ), len ? len : 1, name } );
    g_names_sorted = false;
}

bool has_name( void const* addr ) { return find_name( uintptr_t( addr )) != nullptr; }

std::string name_of( void const* addr )
{
    uintptr_t p = uintptr_t( addr );
    if ( p == 0 )
        return "null";
    NameEnt const* e = find_name( p );
    char buf[64];
    if ( !e ) {
        std::snprintf( buf, sizeof buf, "@%lx", (unsigned long) p );
        return buf;
    }
    if ( p == e->base )
        return e->name;
    std::snprintf( buf, sizeof buf, "+%lu", (unsigned long)( p - e->base ));
    return e->name + buf;
}

// ---------------------------------------------------------------- client events

int current_tid() { return tls_tid; }
void set_quiet( bool q ) { tls_quiet = q; }
uint64_t tick() { return ++g_clock; }

void ev_note( std::string const& s )
{
    Rec r{};
    r.tid = uint16_t( tls_tid < 0 ? 0xffff : tls_tid ); r.kind = K_NOTE; r.note = int( g_notes.size());
    g_notes.push_back( s );
    g_trace.push_back( r );
}

void pseudo_begin()
{
    int me = tls_tid;
    if ( me < 0 || !g_active || tls_quiet )
        return;
    sched_point( me );
}

void pseudo_end( char const* kind, std::string const& loc, std::string const& a, std::string const& b )
{
    if ( tls_quiet || !g_cfg.trace )
        return;
    Rec r{};
    r.tid = uint16_t( tls_tid < 0 ? 0xffff : tls_tid ); r.kind = K_PSEUDO; r.note = int( g_notes.size());
    g_notes.push_back( std::string( kind ) + ' ' + loc + ' ' + a + ( b.empty() ? "" : " " + b ));
    ++g_stats.rmw;
    g_idle_rounds = 0;          // counts as a write: whoever was spinning may try again
    for ( int t = 0; t < g_n; ++t )
        g_yielded[t] = false;
    g_trace.push_back( r );
}

// ---------------------------------------------------------------- run

RunStatus run_case( int nthreads, std::function<void( int )> const& body, SchedCfg const& cfg,
                    std::function<void( RunStatus )> const& on_abort,
                    std::function<void( int )> const& prologue, std::function<void( int )> const& epilogue )
{
    if ( nthreads > MAXT ) nthreads = MAXT;
    g_cfg = cfg;
    g_rng = Rng( cfg.seed * 0x2545F4914F6CDD1Dull + 12345 );
    g_n = nthreads;
    g_ndone = 0; g_step = 0; g_clock = 0; g_low_prio = 0; g_idle_rounds = 0; g_last_run = -1; g_consecutive = 0;
    g_next_kind = -1; for ( int i = 0; i < 64; ++i ) g_last_kind[i] = -1;
    g_sched.clear(); g_trace.clear(); g_notes.clear();
    g_stats = TraceStats();
    g_on_abort = on_abort;
    for ( int t = 0; t < MAXT; ++t ) { g_done[t] = false; g_yielded[t] = false; g_prio[t] = 0; }
    if ( cfg.mode == M_PCT ) {
        // random distinct priorities, change points
        int perm[MAXT];
        for ( int t = 0; t < nthreads; ++t ) perm[t] = t;
        for ( int t = nthreads - 1; t > 0; --t ) std::swap( perm[t], perm[g_rng.below( t + 1 )] );
        for ( int t = 0; t < nthreads; ++t ) g_prio[perm[t]] = t + 1;
        g_change_points.clear();
        for ( unsigned i = 0; i < cfg.pct_depth; ++i )
            g_change_points.push_back( g_rng.below( cfg.est_len ? cfg.est_len : 1 ));
    }
    g_cur = -1;
    g_pro_turn = -1; g_pro_done = 0;
    g_active = true;

    std::vector<std::thread> th;
    for ( int t = 0; t < nthreads; ++t ) {
        th.emplace_back( [t, &body, &prologue, &epilogue] {
            tls_tid = t;
            if ( prologue ) {
                {
                    std::unique_lock<std::mutex> lk( g_mu );
                    g_cv_exit.wait( lk, [t] { return g_pro_turn == t; } );
                }
                tls_quiet = true;
                prologue( t );
                tls_quiet = false;
                std::unique_lock<std::mutex> lk( g_mu );
                ++g_pro_done;
                g_cv_main.notify_one();
            }
            {
                std::unique_lock<std::mutex> lk( g_mu );
                g_cv[t].wait( lk, [t] { return g_cur == t; } );
            }
            body( t );
            // finished: pass the baton on
            g_done[t] = true;
            for ( int u = 0; u < g_n; ++u ) g_yielded[u] = false;
            bool last = true;
            for ( int u = 0; u < g_n; ++u ) if ( !g_done[u] ) last = false;
            int next = last ? -1 : decide( -1 );
            tls_tid = -1;
            std::unique_lock<std::mutex> lk( g_mu );
            ++g_ndone;
            g_cur = next;
            if ( next >= 0 )
                g_cv[next].notify_one();
            else
                g_cv_main.notify_one();
            // park until the main thread lets this thread exit: thread-exit destructors (boost TSS,
            // thread_local) run unscheduled, so they must not overlap with scheduled threads or each other
            g_cv_exit.wait( lk, [t] { return g_exit_turn == t; } );
            if ( epilogue ) {
                lk.unlock();
                epilogue( t );
            }
        } );
    }
    if ( prologue )
        for ( int t = 0; t < nthreads; ++t ) {
            std::unique_lock<std::mutex> lk( g_mu );
            g_pro_turn = t;
            g_cv_exit.notify_all();
            g_cv_main.wait( lk, [t] { return g_pro_done == t + 1; } );
        }
    {
        int first = decide( -1 );
        std::unique_lock<std::mutex> lk( g_mu );
        g_cur = first;
        g_cv[first].notify_one();
        g_cv_main.wait( lk, [] { return g_ndone == g_n; } );
    }
    g_active = false;
    for ( int t = 0; t < nthreads; ++t ) {
        {
            std::unique_lock<std::mutex> lk( g_mu );
            g_exit_turn = t;
            g_cv_exit.notify_all();
        }
        th[t].join();
    }
    g_exit_turn = -1;
    return ST_OK;
}

uint64_t steps() { return g_step; }
std::vector<int> const& schedule() { return g_sched; }
TraceStats trace_stats() { return g_stats; }

static char const* kind_name( uint8_t k )
{
    switch ( k ) {
    case K_LD: return "ld"; case K_ST: return "st"; case K_XCHG: return "xchg";
    case K_CAS_OK: return "cas+"; case K_CAS_FAIL: return "cas-";
    case K_ADD: return "add"; case K_SUB: return "sub"; case K_AND: return "and";
    case K_OR: return "or"; case K_XOR: return "xor"; case K_FENCE: return "fence";
    }
    return "?";
}

static std::string render_val( Rec const& r, uint64_t const v[2] )
{
    char buf[96];
    if ( r.isptr ) {
        uint64_t p = v[0] & ~uint64_t( 3 );
        unsigned bits = unsigned( v[0] & 3 );
        std::string s = name_of( reinterpret_cast<void const*>( p ));
        if ( bits ) { std::snprintf( buf, sizeof buf, "|%u", bits ); s += buf; }
        return s;
    }
    if ( r.size == 16 ) {
        std::string s = name_of( reinterpret_cast<void const*>( v[0] ));
        std::snprintf( buf, sizeof buf, "#%lu", (unsigned long) v[1] );
        return s + buf;
    }
    uint64_t x = v[0];
    if ( r.size < 8 ) x &= (( uint64_t( 1 ) << ( 8 * r.size )) - 1 );
    if ( r.size == 8 && x > 0xffff )
        for ( auto const& a : g_aliases )
            if ( a.first == x ) return a.second;
    std::snprintf( buf, sizeof buf, "%lu", (unsigned long) x );
    return buf;
}

std::string render_trace()
{
    std::ostringstream os;
    for ( Rec const& r : g_trace ) {
        if ( r.kind == K_NOTE || r.kind == K_PSEUDO ) {
            os << "T " << ( r.tid == 0xffff ? -1 : int( r.tid )) << ( r.kind == K_PSEUDO ? " A " : " " ) << g_notes[r.note] << '\n';
            continue;
        }
        os << "T " << r.tid << " A " << kind_name( r.kind );
        if ( r.kind != K_FENCE ) {
            os << ' ' << name_of( r.addr );
            if ( r.kind != K_ST )       // the overwritten value of a plain store is not part of the event
                os << ' ' << render_val( r, r.a );
            if ( r.kind != K_LD )
                os << ' ' << render_val( r, r.b );
        }
        os << '\n';
    }
    return os.str();
}

uint64_t trace_hash()
{
    uint64_t h = 1469598103934665603ull;
    auto mix = [&h]( uint64_t v ) { h ^= v; h *= 1099511628211ull; };
    for ( Rec const& r : g_trace ) {
        if ( r.kind == K_NOTE ) continue;
        mix( r.tid ); mix( r.kind );
        if ( r.kind == K_PSEUDO ) {
            for ( char c : g_notes[r.note] ) mix( uint8_t( c ));
            continue;
        }
        std::string n = name_of( r.addr );
        if ( !n.empty() && n[0] != '@' )
            for ( char c : n ) mix( uint8_t( c ));
    }
    return h;
}

std::string render_schedule()
{
    std::ostringstream os;
    size_t i = 0;
    bool first = true;
    while ( i < g_sched.size()) {
        size_t j = i;
        while ( j < g_sched.size() && g_sched[j] == g_sched[i] ) ++j;
        if ( !first ) os << ' ';
        first = false;
        os << g_sched[i] << 'x' << ( j - i );
        i = j;
    }
    return os.str();
}

std::vector<int> parse_schedule( std::string const& rle )
{
    std::vector<int> out;
    std::istringstream is( rle );
    std::string tok;
    while ( is >> tok ) {
        auto p = tok.find( 'x' );
        if ( p == std::string::npos ) continue;
        int t = std::atoi( tok.substr( 0, p ).c_str());
        long n = std::atol( tok.substr( p + 1 ).c_str());
        for ( long k = 0; k < n; ++k ) out.push_back( t );
    }
    return out;
}

} // namespace khizmax_libcds_verif

/-
  Structural invariant of the MichaelList model and the refinement of the abstract map: definitions and the lemmas
  shared by the step proofs (`StepSearch.lean`, `StepCas.lean`); reachability and its consequences are in `Reach.lean`.

  * `Chain s.next (some 0) L` : following the pointers from cell 0 (`m_pHead`) visits exactly `L = 0 :: nodes` and then
    null.  ALL linked nodes are on `L`, marked (logically deleted) or not.
  * `SInvL s L` : `L` is strictly sorted by key (`Lt`: the head cell is below every node), hence duplicate-free, and
    consists of allocated nodes; the head cell is never marked; a node an inserter still owns (`insNode`) is outside
    `L` and unmarked, and owned by one thread; every cell / node a traversal holds (`pcPrev`, `pcCur`, `pcNx`) is on
    `L` or marked, so is the successor of a marked node (`succ`): a node that left `L` is marked; what a thread has
    read from a marked node is still there (`frozen`: a marked node's link never changes); the key of the
    traversal's `pPrev` is smaller than the key searched for (`keyPrev`), the key of an inserter's `pCur` greater
    (`keyGt`), the key of an eraser's `pCur` equal (`keyEq`); the new node of `link_node` points to `pCur` when the
    CAS is attempted (`icas`); no two erasers have marked the same node (`eown`).
  * The abstract map: `Has mark key val L k v` — some unmarked node on `L` carries `(k, v)`.
  * Linearization points: `lpRet` (current result, possibly TENTATIVE: `tent`) and `postRet` (definitive result);
    `StepEff` states what one step does: at a linearization point the abstract map makes exactly the `Spec.map`
    transition of the operation (`LPok`), otherwise it does not change; a tentative result is either kept, made
    definitive, or withdrawn (only results of read-only operations are ever tentative: `tent_ro`).
-/
import CdsVerif.Algo.Michael.Lemmas
namespace CdsVerif.Algo.Michael
open CdsVerif.Machine CdsVerif.Spec CdsVerif.Lin

/-! ### The structural invariant -/

def opNode : OpK → Option Nat
  | .ins n => some n
  | .era _ => none
  | .fnd _ => none
  | .con _ => none

/-- The node an inserter still owns privately (before its successful CAS on `*pPrev`). -/
def insNode : PC → Option Nat
  | .idle => none
  | .sLd1 o => opNode o
  | .sLd2 o _ => opNode o
  | .sNx1 o _ _ => opNode o
  | .sNx2 o _ _ _ _ => opNode o
  | .sChk o _ _ _ _ => opNode o
  | .sHelp o _ _ _ => opNode o
  | .iSt n _ _ => some n
  | .iCas n _ _ => some n
  | .iClr n => some n
  | .eMark _ _ _ _ => none
  | .eUnl _ _ _ _ => none
  | .done _ => none

/-- The cell `pPrev` points to. -/
def pcPrev : PC → Option Nat
  | .idle => none
  | .sLd1 _ => none
  | .sLd2 _ _ => none
  | .sNx1 _ p _ => some p
  | .sNx2 _ p _ _ _ => some p
  | .sChk _ p _ _ _ => some p
  | .sHelp _ p _ _ => some p
  | .iSt _ p _ => some p
  | .iCas _ p _ => some p
  | .iClr _ => none
  | .eMark _ p _ _ => some p
  | .eUnl _ p _ _ => some p
  | .done _ => none

/-- The node `pCur`. -/
def pcCur : PC → Option Nat
  | .idle => none
  | .sLd1 _ => none
  | .sLd2 _ p => p
  | .sNx1 _ _ c => some c
  | .sNx2 _ _ c _ _ => some c
  | .sChk _ _ c _ _ => some c
  | .sHelp _ _ c _ => some c
  | .iSt _ _ c => c
  | .iCas _ _ c => c
  | .iClr _ => none
  | .eMark _ _ c _ => some c
  | .eUnl _ _ c _ => some c
  | .done _ => none

/-- The node `pNext`. -/
def pcNx : PC → Option Nat
  | .idle => none
  | .sLd1 _ => none
  | .sLd2 _ _ => none
  | .sNx1 _ _ _ => none
  | .sNx2 _ _ _ nx _ => nx
  | .sChk _ _ _ nx _ => nx
  | .sHelp _ _ _ nx => nx
  | .iSt _ _ _ => none
  | .iCas _ _ _ => none
  | .iClr _ => none
  | .eMark _ _ _ nx => nx
  | .eUnl _ _ _ nx => nx
  | .done _ => none

/-- The key the thread's traversal is looking for. -/
def skey (key : Nat → Int) : PC → Int
  | .idle => 0
  | .sLd1 o => okey key o
  | .sLd2 o _ => okey key o
  | .sNx1 o _ _ => okey key o
  | .sNx2 o _ _ _ _ => okey key o
  | .sChk o _ _ _ _ => okey key o
  | .sHelp o _ _ _ => okey key o
  | .iSt n _ _ => key n
  | .iCas n _ _ => key n
  | .iClr n => key n
  | .eMark k _ _ _ => k
  | .eUnl k _ _ _ => k
  | .done _ => 0

/-- The new node and the successor it is going to get. -/
def pcGt : PC → Option (Nat × Option Nat)
  | .idle => none
  | .sLd1 _ => none
  | .sLd2 _ _ => none
  | .sNx1 _ _ _ => none
  | .sNx2 _ _ _ _ _ => none
  | .sChk _ _ _ _ _ => none
  | .sHelp _ _ _ _ => none
  | .iSt n _ c => some (n, c)
  | .iCas n _ c => some (n, c)
  | .iClr _ => none
  | .eMark _ _ _ _ => none
  | .eUnl _ _ _ _ => none
  | .done _ => none

/-- The node an eraser is about to mark, and the key it erases. -/
def pcEq : PC → Option (Nat × Int)
  | .idle => none
  | .sLd1 _ => none
  | .sLd2 _ _ => none
  | .sNx1 _ _ _ => none
  | .sNx2 _ _ _ _ _ => none
  | .sChk _ _ _ _ _ => none
  | .sHelp _ _ _ _ => none
  | .iSt _ _ _ => none
  | .iCas _ _ _ => none
  | .iClr _ => none
  | .eMark k _ c _ => some (c, k)
  | .eUnl _ _ _ _ => none
  | .done _ => none

/-- A link `a.next = ( x, m )` the thread has read (or written); relied upon when `m = 1`. -/
def pcFrozen : PC → Option (Nat × Option Nat × Bool)
  | .idle => none
  | .sLd1 _ => none
  | .sLd2 _ _ => none
  | .sNx1 _ _ _ => none
  | .sNx2 _ _ c nx mk => some (c, nx, mk)
  | .sChk _ _ c nx mk => some (c, nx, mk)
  | .sHelp _ _ c nx => some (c, nx, true)
  | .iSt _ _ _ => none
  | .iCas _ _ _ => none
  | .iClr _ => none
  | .eMark _ _ _ _ => none
  | .eUnl _ _ c nx => some (c, nx, true)
  | .done _ => none

structure SInvL (s : St) (L : List Nat) : Prop where
  chain : Chain s.next (some 0) L
  sorted : L.Pairwise (Lt s.key)
  alloc : ∀ a, a ∈ L → a < s.cnt
  unalloc : ∀ a, s.cnt ≤ a → s.next a = none ∧ s.mark a = false
  mark0 : s.mark 0 = false
  succ : ∀ a b, s.mark a = true → s.next a = some b → b ≠ 0 ∧ (b ∈ L ∨ s.mark b = true)
  priv : ∀ t n, insNode (s.pc t) = some n → n < s.cnt ∧ n ∉ L ∧ s.mark n = false
  own : ∀ t1 t2 n, insNode (s.pc t1) = some n → insNode (s.pc t2) = some n → t1 = t2
  lkPrev : ∀ t a, pcPrev (s.pc t) = some a → a ∈ L ∨ s.mark a = true
  lkCur : ∀ t a, pcCur (s.pc t) = some a → a ≠ 0 ∧ (a ∈ L ∨ s.mark a = true)
  lkNx : ∀ t a, pcNx (s.pc t) = some a → a ≠ 0 ∧ (a ∈ L ∨ s.mark a = true)
  keyPrev : ∀ t a, pcPrev (s.pc t) = some a → a = 0 ∨ s.key a < skey s.key (s.pc t)
  keyGt : ∀ t n c, pcGt (s.pc t) = some (n, some c) → s.key n < s.key c
  keyEq : ∀ t c k, pcEq (s.pc t) = some (c, k) → s.key c = k
  frozen : ∀ t a x, pcFrozen (s.pc t) = some (a, x, true) → s.next a = x ∧ s.mark a = true
  icas : ∀ t n p c, s.pc t = .iCas n p c → s.next n = c
  eown : ∀ t1 t2 k1 p1 c x1 k2 p2 x2, s.pc t1 = .eUnl k1 p1 c x1 → s.pc t2 = .eUnl k2 p2 c x2 → t1 = t2

def SInv (s : St) : Prop := ∃ L, SInvL s L

theorem sinv_init : SInvL init [0] := by
  constructor <;> simp [init, Chain, insNode, pcPrev, pcCur, pcNx, pcGt, pcEq, pcFrozen]

theorem SInvL.unique {s : St} {L1 L2 : List Nat} (h1 : SInvL s L1) (h2 : SInvL s L2) : L1 = L2 :=
  Chain.functional h1.chain h2.chain

theorem SInvL.head_cons {s : St} {L : List Nat} (h : SInvL s L) : ∃ l, L = 0 :: l := by
  have hc := h.chain
  cases L with
  | nil => simp [Chain] at hc
  | cons a r => simp only [Chain, Option.some.injEq] at hc; exact ⟨r, by rw [hc.1]⟩

theorem SInvL.zero_mem {s : St} {L : List Nat} (h : SInvL s L) : 0 ∈ L := by
  obtain ⟨l, rfl⟩ := h.head_cons; simp

theorem SInvL.nodup {s : St} {L : List Nat} (h : SInvL s L) : L.Nodup := sorted_nodup h.sorted

/-- The successor of a linked cell is a node, and it is linked. -/
theorem SInvL.next_mem {s : St} {L : List Nat} (h : SInvL s L) {a b : Nat} (ha : a ∈ L) (hb : s.next a = some b) :
    b ≠ 0 ∧ b ∈ L := by
  have h1 := Chain.succ_mem h.chain ha hb
  obtain ⟨l, rfl⟩ := h.head_cons
  simp only [List.tail_cons] at h1
  have := (List.pairwise_cons.mp h.sorted).1 b h1
  exact ⟨this.1, List.mem_cons_of_mem _ h1⟩

/-- The successor of a cell that is linked or marked is a node that is linked or marked. -/
theorem SInvL.next_lk {s : St} {L : List Nat} (h : SInvL s L) {a b : Nat} (ha : a ∈ L ∨ s.mark a = true)
    (hb : s.next a = some b) : b ≠ 0 ∧ (b ∈ L ∨ s.mark b = true) := by
  rcases ha with ha | ha
  · have := h.next_mem ha hb; exact ⟨this.1, Or.inl this.2⟩
  · exact h.succ a b ha hb

/-! ### The abstract map -/

/-- Some unmarked node on the chain carries `(k, v)`. -/
def Has (mark : Nat → Bool) (key val : Nat → Int) (L : List Nat) (k v : Int) : Prop :=
  ∃ a, a ∈ L ∧ a ≠ 0 ∧ mark a = false ∧ key a = k ∧ val a = v

/-- No node on the chain has key `k`, when `k` lies strictly between the key of a chain cell `p` and the key of
    the successor of `p`. -/
theorem SInvL.gap {s : St} {L : List Nat} (h : SInvL s L) {p : Nat} {k : Int} (hp : p ∈ L)
    (hpk : p = 0 ∨ s.key p < k) (hck : ∀ c, s.next p = some c → k < s.key c) :
    ∀ a, a ∈ L → a ≠ 0 → s.key a ≠ k := by
  intro a ha ha0 hk
  rcases Chain.around h.chain h.sorted hp a ha with e | hlt | ⟨c, hc, e | hlt⟩
  · subst e
    rcases hpk with h0 | h0
    · exact ha0 h0
    · omega
  · unfold Lt at hlt
    rcases hlt.2 with h0 | h0
    · exact ha0 h0
    · rcases hpk with h1 | h1
      · exact hlt.1 h1
      · omega
  · subst e; have := hck a hc; omega
  · unfold Lt at hlt
    have := hck c hc
    rcases hlt.2 with h0 | h0
    · have hc0 := (h.next_mem hp hc).1; exact hc0 h0
    · omega

theorem SInvL.absent {s : St} {L : List Nat} (h : SInvL s L) {p : Nat} {k : Int} (hp : p ∈ L)
    (hpk : p = 0 ∨ s.key p < k) (hck : ∀ c, s.next p = some c → k < s.key c) : ∀ w, ¬ Has s.mark s.key s.val L k w := by
  rintro w ⟨a, ha, ha0, -, hk, -⟩
  exact h.gap hp hpk hck a ha ha0 hk

/-! ### Linearization-point bookkeeping on program counters -/

def gop (key val : Nat → Int) : OpK → GOp
  | .ins n => ⟨"insert", [key n, val n]⟩
  | .era k => ⟨"erase", [k]⟩
  | .fnd k => ⟨"find", [k]⟩
  | .con k => ⟨"contains", [k]⟩

/-- The TENTATIVE result of a traversal that has just validated `pNext = pCur->m_pNext` (unmarked):
    the key is present (`pCur` carries it: failed insert, successful find / contains), or it is absent (`pCur` has a
    smaller key and is the last node: failed erase / find / contains).  The result becomes definitive when the
    following validation `pPrev->load() == pCur` succeeds, and is withdrawn when that fails. -/
def foundRet (val : Nat → Int) (o : OpK) (cur : Nat) : Option GRet :=
  match o with
  | .ins _ => some [0]
  | .era _ => none
  | .fnd _ => some [1, val cur]
  | .con _ => some [1]

def absentRet (o : OpK) : Option GRet :=
  match o with
  | .ins _ => none
  | .era _ => some [0]
  | .fnd _ => some [0]
  | .con _ => some [0]

def tent (key val : Nat → Int) (o : OpK) (cur : Nat) (nx : Option Nat) (mk : Bool) : Option GRet :=
  if mk = true then none
  else if key cur = okey key o then foundRet val o cur
  else if key cur < okey key o ∧ nx = none then absentRet o
  else none

/-- The result fixed definitively, for a thread that has passed its linearization point for good. -/
def postRet (val : Nat → Int) : PC → Option GRet
  | .idle => none
  | .sLd1 _ => none
  | .sLd2 _ _ => none
  | .sNx1 _ _ _ => none
  | .sNx2 _ _ _ _ _ => none
  | .sChk _ _ _ _ _ => none
  | .sHelp _ _ _ _ => none
  | .iSt _ _ _ => none
  | .iCas _ _ _ => none
  | .iClr _ => none
  | .eMark _ _ _ _ => none
  | .eUnl _ _ c _ => some [1, val c]
  | .done r => some r

/-- The result of the thread's current (definitive or tentative) linearization. -/
def lpRet (key val : Nat → Int) : PC → Option GRet
  | .idle => none
  | .sLd1 _ => none
  | .sLd2 _ _ => none
  | .sNx1 _ _ _ => none
  | .sNx2 _ _ _ _ _ => none
  | .sChk o _ c nx mk => tent key val o c nx mk
  | .sHelp _ _ _ _ => none
  | .iSt _ _ _ => none
  | .iCas _ _ _ => none
  | .iClr _ => none
  | .eMark _ _ _ _ => none
  | .eUnl _ _ c _ => some [1, val c]
  | .done r => some r

/-- The operation a thread is executing, while its result is not definitive. -/
def opOf (key val : Nat → Int) : PC → Option GOp
  | .sLd1 o => some (gop key val o)
  | .sLd2 o _ => some (gop key val o)
  | .sNx1 o _ _ => some (gop key val o)
  | .sNx2 o _ _ _ _ => some (gop key val o)
  | .sChk o _ _ _ _ => some (gop key val o)
  | .sHelp o _ _ _ => some (gop key val o)
  | .iSt n _ _ => some (gop key val (.ins n))
  | .iCas n _ _ => some (gop key val (.ins n))
  | .iClr n => some (gop key val (.ins n))
  | .eMark k _ _ _ => some (gop key val (.era k))
  | .idle => none
  | .eUnl _ _ _ _ => none
  | .done _ => none

/-! ### Keys and payloads of allocated nodes are immutable: what a program counter refers to is unaffected by an allocation -/

theorem okey_congr {key key' : Nat → Int} {o : OpK} (h : ∀ n, opNode o = some n → key' n = key n) :
    okey key' o = okey key o := by
  cases o <;> simp_all [okey, opNode]

theorem gop_congr {key key' val val' : Nat → Int} {o : OpK}
    (h : ∀ n, opNode o = some n → key' n = key n ∧ val' n = val n) : gop key' val' o = gop key val o := by
  cases o <;> simp_all [gop, opNode]

theorem skey_congr {key key' : Nat → Int} {pc : PC} (h : ∀ n, insNode pc = some n → key' n = key n) :
    skey key' pc = skey key pc := by
  cases pc <;> simp only [skey, insNode] at * <;> first | rfl | exact okey_congr h | exact h _ rfl

theorem opOf_congr {key key' val val' : Nat → Int} {pc : PC}
    (h : ∀ n, insNode pc = some n → key' n = key n ∧ val' n = val n) :
    opOf key' val' pc = opOf key val pc := by
  cases pc <;> simp only [opOf, insNode] at * <;>
    first | rfl | exact congrArg some (gop_congr h) | exact congrArg some (gop_congr (by simpa [opNode] using h))

theorem lpRet_congr {key key' val val' : Nat → Int} {pc : PC}
    (h : ∀ n, insNode pc = some n → key' n = key n)
    (hc : ∀ c, pcCur pc = some c → key' c = key c ∧ val' c = val c) :
    lpRet key' val' pc = lpRet key val pc := by
  cases pc <;> simp only [lpRet]
  case sChk o p c nx mk =>
    have h1 := hc c (by simp [pcCur])
    have h2 : okey key' o = okey key o := okey_congr (by simpa [insNode] using h)
    cases o <;> simp [tent, foundRet, absentRet, h1, h2]
  case eUnl k p c nx =>
    have := hc c (by simp [pcCur])
    simp_all

theorem postRet_congr {val val' : Nat → Int} {pc : PC}
    (hc : ∀ c, pcCur pc = some c → val' c = val c) : postRet val' pc = postRet val pc := by
  cases pc <;> simp only [postRet]
  case eUnl k p c nx =>
    have := hc c (by simp [pcCur])
    simp_all

theorem pcGt_spec {pc : PC} {n : Nat} {c : Option Nat} (h : pcGt pc = some (n, c)) :
    insNode pc = some n ∧ pcCur pc = c := by
  cases pc <;> simp_all [pcGt, insNode, pcCur]

theorem pcEq_spec {pc : PC} {c : Nat} {k : Int} (h : pcEq pc = some (c, k)) : pcCur pc = some c := by
  cases pc <;> simp_all [pcEq, pcCur]

structure StepEff (s : St) (t : Tid) (s' : St) (L L' : List Nat) : Prop where
  frame : ∀ t2, t2 ≠ t → s'.pc t2 = s.pc t2
  key : s'.key = s.key
  val : s'.val = s.val
  cnt : s'.cnt = s.cnt
  lp : lpRet s.key s.val (s.pc t) = none → ∀ r, lpRet s'.key s'.val (s'.pc t) = some r →
        ∃ op, opOf s.key s.val (s.pc t) = some op ∧ LPok (Has s.mark s.key s.val L) op r (Has s'.mark s'.key s'.val L')
  nolp : (lpRet s.key s.val (s.pc t) ≠ none ∨ lpRet s'.key s'.val (s'.pc t) = none) → ∀ k v, Has s'.mark s'.key s'.val L' k v ↔ Has s.mark s.key s.val L k v
  keep : ∀ r, lpRet s.key s.val (s.pc t) = some r → lpRet s'.key s'.val (s'.pc t) = some r ∨
          ((∃ op, opOf s.key s.val (s.pc t) = some op ∧ isRO op r = true) ∧ lpRet s'.key s'.val (s'.pc t) = none)
  pkeep : ∀ r, postRet s.val (s.pc t) = some r → postRet s'.val (s'.pc t) = some r
  op : postRet s'.val (s'.pc t) = none → opOf s'.key s'.val (s'.pc t) = opOf s.key s.val (s.pc t)
  busy : s.pc t ≠ .idle ∧ s'.pc t ≠ .idle
  mono : ∀ a, (a ∈ L ∨ s.mark a = true) → (a ∈ L' ∨ s'.mark a = true)
  frz : ∀ a, s.mark a = true → s'.mark a = true ∧ s'.next a = s.next a
  link : ∀ n p c, s.pc t = .iCas n p c → s'.pc t = .done [1] → n ∈ L'
  marks : ∀ a, s.mark a = false → s'.mark a = true →
    ∃ k p x, s.pc t = .eMark k p a x ∧ s'.pc t = .eUnl k p a x ∧ s.key a = k ∧ a ∈ L
  unl : ∀ k p a x, s'.pc t = .eUnl k p a x → s.mark a = false ∧ s'.mark a = true

/-- The key is absent: the operation (other than an insert) answers `[0]` and the map does not change. -/
theorem SInvL.lp_absent {s : St} {L : List Nat} (h : SInvL s L) {p : Nat} {o : OpK} {r : GRet} (hp : p ∈ L)
    (hpk : p = 0 ∨ s.key p < okey s.key o) (hck : ∀ c, s.next p = some c → okey s.key o < s.key c)
    (hr : absentRet o = some r) :
    LPok (Has s.mark s.key s.val L) (gop s.key s.val o) r (Has s.mark s.key s.val L) := by
  have habs := h.absent hp hpk hck
  cases o <;> simp [absentRet] at hr <;> subst hr
  · exact LPok.ro_none habs (fun _ _ => Iff.rfl) (Or.inl rfl)
  · exact LPok.ro_none habs (fun _ _ => Iff.rfl) (Or.inr (Or.inl rfl))
  · exact LPok.ro_none habs (fun _ _ => Iff.rfl) (Or.inr (Or.inr rfl))

/-- The key is present in the unmarked chain node `c`: a failing insert, a find, a contains. -/
theorem SInvL.lp_present {s : St} {L : List Nat} (_h : SInvL s L) {c : Nat} {o : OpK} {r : GRet} (hc : c ∈ L)
    (hc0 : c ≠ 0) (hm : s.mark c = false) (hk : s.key c = okey s.key o) (hr : foundRet s.val o c = some r) :
    LPok (Has s.mark s.key s.val L) (gop s.key s.val o) r (Has s.mark s.key s.val L) := by
  have hhas : Has s.mark s.key s.val L (okey s.key o) (s.val c) := ⟨c, hc, hc0, hm, hk, rfl⟩
  cases o <;> simp [foundRet] at hr <;> subst hr
  · exact LPok.ro_some hhas (fun _ _ => Iff.rfl) (Or.inl ⟨_, rfl, rfl⟩)
  · exact LPok.ro_some hhas (fun _ _ => Iff.rfl) (Or.inr (Or.inl ⟨rfl, rfl⟩))
  · exact LPok.ro_some hhas (fun _ _ => Iff.rfl) (Or.inr (Or.inr ⟨rfl, rfl⟩))

theorem LPok.congr_left {H H1 H' : Int → Int → Prop} {op : GOp} {r : GRet} (he : ∀ k v, H k v ↔ H1 k v)
    (h : LPok H1 op r H') : LPok H op r H' := by
  intro m hm
  exact h m (fun k v => (hm k v).trans (he k v))

/-- Unlinking a marked node does not change the abstract map. -/
theorem has_erase {mark : Nat → Bool} {key val : Nat → Int} {L : List Nat} {c : Nat} (hnd : L.Nodup)
    (hm : mark c = true) (k v : Int) : Has mark key val (L.erase c) k v ↔ Has mark key val L k v := by
  unfold Has
  constructor
  · rintro ⟨a, ha, h⟩
    exact ⟨a, (List.Nodup.mem_erase_iff hnd).mp ha |>.2, h⟩
  · rintro ⟨a, ha, h0, h1, h2⟩
    refine ⟨a, (List.Nodup.mem_erase_iff hnd).mpr ⟨?_, ha⟩, h0, h1, h2⟩
    intro e; rw [e, hm] at h1; simp at h1

/-- Linking an unmarked node adds its pair to the abstract map. -/
theorem has_insert {mark : Nat → Bool} {key val : Nat → Int} {L : List Nat} {p n : Nat} (hp : p ∈ L)
    (hn0 : n ≠ 0) (hnm : mark n = false) (j w : Int) :
    Has mark key val (insAfter p n L) j w ↔ (Has mark key val L j w ∨ (j = key n ∧ w = val n)) := by
  unfold Has
  constructor
  · rintro ⟨a, ha, h0, h1, h2, h3⟩
    rcases (mem_insAfter hp).mp ha with hm | e
    · exact Or.inl ⟨a, hm, h0, h1, h2, h3⟩
    · subst e; exact Or.inr ⟨h2.symm, h3.symm⟩
  · rintro (⟨a, ha, h⟩ | ⟨e1, e2⟩)
    · exact ⟨a, (mem_insAfter hp).mpr (Or.inl ha), h⟩
    · exact ⟨n, (mem_insAfter hp).mpr (Or.inr rfl), hn0, hnm, e1.symm, e2.symm⟩

/-- Marking a chain node removes its key from the abstract map. -/
theorem has_mark {mark : Nat → Bool} {key val : Nat → Int} {L : List Nat} {c : Nat} (hso : L.Pairwise (Lt key))
    (hc : c ∈ L) (hc0 : c ≠ 0) (j w : Int) :
    Has (upd mark c true) key val L j w ↔ (Has mark key val L j w ∧ j ≠ key c) := by
  unfold Has
  constructor
  · rintro ⟨a, ha, h0, h1, h2, h3⟩
    have hac : a ≠ c := by intro e; rw [e] at h1; simp [upd] at h1
    rw [upd_other _ _ _ _ hac] at h1
    refine ⟨⟨a, ha, h0, h1, h2, h3⟩, ?_⟩
    intro e
    exact hac (sorted_inj hso a c ha hc h0 hc0 (h2.trans e))
  · rintro ⟨⟨a, ha, h0, h1, h2, h3⟩, hne⟩
    have hac : a ≠ c := by intro e; rw [e] at h2; exact hne h2.symm
    exact ⟨a, ha, h0, by rw [upd_other _ _ _ _ hac]; exact h1, h2, h3⟩

/-- A tentative result never changes the sequential map. -/
theorem tent_ro {key val : Nat → Int} {o : OpK} {c : Nat} {nx : Option Nat} {mk : Bool} {r : GRet}
    (h : tent key val o c nx mk = some r) : isRO (gop key val o) r = true := by
  unfold tent at h
  split at h
  · simp at h
  · split at h
    · cases o <;> simp [foundRet] at h <;> subst h <;> simp [isRO, gop]
    · split at h
      · cases o <;> simp [absentRet] at h <;> subst h <;> simp [isRO, gop]
      · simp at h

macro "sinv_close" : tactic =>
  `(tactic| (constructor <;> intros <;> (try dsimp only at *) <;>
      grind [upd, insNode, opNode, pcPrev, pcCur, pcNx, skey, okey, pcGt, pcEq, pcFrozen,
        advance, notFound, found, afterChk]))

macro "eff_close" : tactic =>
  `(tactic| (constructor <;> intros <;> (try dsimp only at *) <;>
      grind [upd, lpRet, postRet, opOf, tent, foundRet, absentRet, advance, notFound, found, afterChk, okey, gop]))
macro "step_close " L:term : tactic =>
  `(tactic| (refine ⟨$L, ?h1, ?h2⟩; (case h1 => sinv_close); (case h2 => eff_close)))

end CdsVerif.Algo.Michael

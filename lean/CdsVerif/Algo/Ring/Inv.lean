/-
  Inductive invariant of the typed ring-buffer model and the lemmas about cells, batches and ghost lists.
-/
import CdsVerif.Algo.Ring.Model
import CdsVerif.Gen.RingBuffer
namespace CdsVerif.Algo.Ring
open CdsVerif.Machine CdsVerif.Spec

/-! ### Arithmetic on cell indices -/

/-- Two logical positions less than one capacity apart occupy different cells. -/
theorem mod_ne_of_lt {cap a b : Nat} (h1 : a < b) (h2 : b < a + cap) : a % cap ≠ b % cap := by
  intro h
  have h3 : (b - a) % cap = 0 := Nat.sub_mod_eq_zero_of_mod_eq h.symm
  have h4 : (b - a) % cap = b - a := Nat.mod_eq_of_lt (by omega)
  omega

/-! ### Cells -/

theorem writeCells_other (buf : Nat → Int) (cap b : Nat) (vs : List Int) (c : Nat)
    (h : ∀ i, i < vs.length → (b + i) % cap ≠ c) : writeCells buf cap b vs c = buf c := by
  induction vs generalizing buf b with
  | nil => rfl
  | cons v vs ih =>
    simp only [writeCells]
    rw [ih]
    · have := h 0 (by simp)
      simp at this
      simp [upd]; intro hc; exact absurd hc.symm this
    · intro i hi
      have := h (i + 1) (by simp; omega)
      rwa [show b + (i + 1) = b + 1 + i by omega] at this

theorem writeCells_get (buf : Nat → Int) (cap b : Nat) (vs : List Int) (hlen : vs.length ≤ cap)
    (i : Nat) (hi : i < vs.length) : writeCells buf cap b vs ((b + i) % cap) = vs[i] := by
  induction vs generalizing buf b i with
  | nil => simp at hi
  | cons v vs ih =>
    simp only [writeCells]
    cases i with
    | zero =>
      rw [writeCells_other]
      · simp
      · intro j hj
        simp only [List.length_cons] at hlen
        exact (mod_ne_of_lt (by omega) (by omega)).symm
    | succ i =>
      simp only [List.length_cons] at hlen hi
      have := ih (upd buf (b % cap) v) (b + 1) (by omega) i (by omega)
      rw [show b + 1 + i = b + (i + 1) by omega] at this
      simpa using this

@[simp] theorem readCells_length (buf : Nat → Int) (cap f k : Nat) : (readCells buf cap f k).length = k := by
  simp [readCells]

theorem readCells_getElem (buf : Nat → Int) (cap f k i : Nat) (h : i < (readCells buf cap f k).length) :
    (readCells buf cap f k)[i] = buf ((f + i) % cap) := by
  simp [readCells]

/-- Cells `f … f+k-1` hold `l[f …]`: reading them yields that segment of `l`. -/
theorem readCells_eq (buf : Nat → Int) (cap f k : Nat) (l : List Int) (hk : f + k ≤ l.length)
    (hc : ∀ j, f ≤ j → j < f + k → l[j]? = some (buf (j % cap))) :
    readCells buf cap f k = (l.drop f).take k := by
  apply List.ext_getElem
  · simp; omega
  · intro i h1 h2
    rw [readCells_getElem]
    simp only [readCells_length] at h1
    have := hc (f + i) (by omega) (by omega)
    rw [List.getElem?_eq_getElem (by omega)] at this
    simp only [Option.some.injEq] at this
    simp [← this]

/-! ### The invariant -/

structure RingInv (s : St) : Prop where
  cap_pos : 0 < s.cap
  front_eq : s.front = s.popped.length
  back_eq : s.back = s.pushed.length
  /-- the producer's view of `front_` is conservative -/
  pfront_le : s.pfront ≤ s.front
  /-- `cback_ - front` never underflows -/
  front_le : s.front ≤ s.cback
  /-- the consumer's view of `back_` is conservative -/
  cback_le : s.cback ≤ s.back
  /-- `pfront_ + capacity() - back` never underflows; with `pfront_le`: at most `cap` elements in flight -/
  back_le : s.back ≤ s.pfront + s.cap
  /-- the live cells hold the pushed, not yet popped elements -/
  content : ∀ j, s.front ≤ j → j < s.back → s.pushed[j]? = some (s.buf (j % s.cap))
  fifo : s.popped = s.pushed.take s.front
  p_ldFront : ∀ vs b, s.pp = .ldFront vs b → b = s.back
  p_stBack : ∀ vs b, s.pp = .stBack vs b → b = s.back ∧ b + vs.length ≤ s.pfront + s.cap
  c_ldFront : ∀ v, s.cp = .ldFront (.popf2 v) → s.front < s.cback ∧ s.pushed[s.front]? = some v
  c_ldBack : ∀ op f, s.cp = .ldBack op f → f = s.front ∧ (∀ v, op = .popf2 v → s.pushed[f]? = some v)
  c_stFront : ∀ k f, s.cp = .stFront k f → f = s.front ∧ f + k ≤ s.cback
  c_stFrontPF : ∀ v f, s.cp = .stFrontPF v f → f = s.front ∧ f < s.cback ∧ s.pushed[f]? = some v

theorem inv_init (cap : Nat) (h : 0 < cap) : RingInv (init cap) := by
  constructor <;> intros <;> simp_all [init]

theorem consOf_ne_popf2 (op : GOp) (c : COp) (h : consOf op = some c) (v : Int) : c ≠ .popf2 v := by
  unfold consOf at h
  split at h <;> simp at h <;> subst h <;> simp

/-- The `back_` store: the batch lands in cells that hold nothing live, and extends `pushed`. -/
theorem content_push (s : St) (h : RingInv s) (vs : List Int) (hb : s.back + vs.length ≤ s.pfront + s.cap)
    (j : Nat) (h1 : s.front ≤ j) (h2 : j < s.back + vs.length) :
    (s.pushed ++ vs)[j]? = some (writeCells s.buf s.cap s.back vs (j % s.cap)) := by
  have hpf := h.pfront_le
  have hfb : s.front ≤ s.back := Nat.le_trans h.front_le h.cback_le
  by_cases hj : j < s.back
  · rw [writeCells_other]
    · rw [List.getElem?_append_left (by rw [← h.back_eq]; exact hj)]
      exact h.content j h1 hj
    · intro i hi
      exact (mod_ne_of_lt (by omega) (by omega)).symm
  · have hlen : vs.length ≤ s.cap := by omega
    obtain ⟨i, rfl⟩ : ∃ i, j = s.back + i := ⟨j - s.back, by omega⟩
    rw [writeCells_get _ _ _ _ hlen i (by omega)]
    rw [List.getElem?_append_right (by rw [← h.back_eq]; omega)]
    rw [← h.back_eq, show s.back + i - s.back = i by omega]
    exact List.getElem?_eq_getElem (by omega)

/-- The `front_` store: the cells read are the next `k` pushed elements. -/
theorem fifo_pop (s : St) (h : RingInv s) (k : Nat) (hk : s.front + k ≤ s.cback) :
    s.popped ++ readCells s.buf s.cap s.front k = s.pushed.take (s.front + k) := by
  have hcb := h.cback_le
  rw [readCells_eq s.buf s.cap s.front k s.pushed (by rw [← h.back_eq]; omega)
    (fun j h1 h2 => h.content j h1 (by omega))]
  rw [h.fifo, List.take_add]

theorem inv_invoke (s : St) (t : Tid) (op : GOp) (s' : St)
    (h : RingInv s) (hs1 : invoke s t op = some s') : RingInv s' := by
  obtain ⟨h1, h2, h3, h4, h5, h6, h7, h8, h9, h10, h11, h12, h13, h14, h15⟩ := h
  unfold invoke at hs1
  split at hs1
  · split at hs1
    · simp at hs1; subst hs1
      constructor <;> intros <;> grind
    · simp at hs1
  · split at hs1
    · split at hs1
      · rename_i c hcp hc
        have hne := consOf_ne_popf2 op c hc
        simp at hs1; subst hs1
        constructor <;> intros <;> grind
      · simp at hs1
    · simp at hs1

theorem inv_result (s : St) (t : Tid) (r : St × GRet)
    (h : RingInv s) (hr : result s t = some r) : RingInv r.1 := by
  obtain ⟨h1, h2, h3, h4, h5, h6, h7, h8, h9, h10, h11, h12, h13, h14, h15⟩ := h
  unfold result at hr
  split at hr
  · split at hr
    · simp at hr; subst hr
      constructor <;> intros <;> grind
    · simp at hr
  · split at hr
    · split at hr
      · simp at hr; subst hr
        constructor <;> intros <;> grind
      · simp at hr
    · simp at hr

/-- Producer: `back_.load`. -/
theorem inv_p_ldBack (s : St) (vs : List Int) (h : RingInv s) (_hpp : s.pp = .ldBack vs) (pp' : PPC)
    (hpp' : pp' = .ldFront vs s.back ∨ pp' = .stBack vs s.back)
    (hst : pp' = .stBack vs s.back → ¬ s.pfront + s.cap - s.back < vs.length) :
    RingInv { s with pp := pp' } := by
  obtain ⟨h1, h2, h3, h4, h5, h6, h7, h8, h9, h10, h11, h12, h13, h14, h15⟩ := h
  constructor <;> intros <;> grind

/-- Producer: `pfront_ = front_.load`. -/
theorem inv_p_ldFront (s : St) (vs : List Int) (b : Nat) (h : RingInv s) (hpp : s.pp = .ldFront vs b) (pp' : PPC)
    (hpp' : pp' = .done [0] ∨ pp' = .stBack vs b)
    (hst : pp' = .stBack vs b → ¬ s.front + s.cap - b < vs.length) :
    RingInv { s with pfront := s.front, pp := pp' } := by
  obtain ⟨h1, h2, h3, h4, h5, h6, h7, h8, h9, h10, h11, h12, h13, h14, h15⟩ := h
  constructor <;> intros <;> grind

/-- Producer: copy the batch, `back_.store`. -/
theorem inv_p_stBack (s : St) (vs : List Int) (b : Nat) (h : RingInv s) (hpp : s.pp = .stBack vs b) :
    RingInv { s with buf := writeCells s.buf s.cap b vs, back := b + vs.length,
                     pushed := s.pushed ++ vs, pp := .done [1] } := by
  have hb := h.p_stBack vs b hpp
  obtain ⟨rfl, hb⟩ := hb
  have hcont := content_push s h vs hb
  obtain ⟨h1, h2, h3, h4, h5, h6, h7, h8, h9, h10, h11, h12, h13, h14, h15⟩ := h
  constructor <;> intros <;> dsimp only at * <;> grind

/-- Consumer: thread-private continuation once enough elements are known to be present. -/
theorem inv_proceed (s : St) (op : COp) (f : Nat) (h : RingInv { s with cp := .idle }) (hf : f = s.front)
    (hn : f + need op ≤ s.cback) (hv : ∀ v, op = .popf2 v → s.pushed[f]? = some v) :
    RingInv (proceed s op f) := by
  obtain ⟨h1, h2, h3, h4, h5, h6, h7, h8, h9, h10, h11, h12, h13, h14, h15⟩ := h
  cases op <;> simp only [proceed, need] at * <;> constructor <;> intros <;> grind

/-- The consumer's program counter does not matter for the invariant when it is reset. -/
theorem inv_cp_idle (s : St) (h : RingInv s) : RingInv { s with cp := .idle } := by
  obtain ⟨h1, h2, h3, h4, h5, h6, h7, h8, h9, h10, h11, h12, h13, h14, h15⟩ := h
  constructor <;> intros <;> grind

theorem inv_c_ldFront (s : St) (op : COp) (h : RingInv s) (hcp : s.cp = .ldFront op) (r : St × Ev)
    (hr : (if s.cback - s.front < need op then some ({ s with cp := .ldBack op s.front }, evLd "front" s.front)
      else some (proceed s op s.front, evLd "front" s.front)) = some r) : RingInv r.1 := by
  split at hr
  · obtain ⟨h1, h2, h3, h4, h5, h6, h7, h8, h9, h10, h11, h12, h13, h14, h15⟩ := h
    simp at hr; subst hr
    constructor <;> intros <;> grind
  · simp at hr; subst hr
    have hfl := h.front_le
    have hv := h.c_ldFront
    exact inv_proceed s op s.front (inv_cp_idle s h) rfl (by omega) (by grind)

theorem inv_c_ldBack (s : St) (op : COp) (f : Nat) (h : RingInv s) (hcp : s.cp = .ldBack op f) (r : St × Ev)
    (hr : (if s.back - f < need op then some ({ s with cback := s.back, cp := .done [0] }, evLd "back" s.back)
      else some (proceed { s with cback := s.back } op f, evLd "back" s.back)) = some r) : RingInv r.1 := by
  obtain ⟨hf, hv⟩ := h.c_ldBack op f hcp
  split at hr
  · obtain ⟨h1, h2, h3, h4, h5, h6, h7, h8, h9, h10, h11, h12, h13, h14, h15⟩ := h
    simp at hr; subst hr
    constructor <;> intros <;> grind
  · simp at hr; subst hr
    have hfl := h.front_le
    have hcl := h.cback_le
    refine inv_proceed _ op f ?_ hf (by dsimp only; omega) hv
    obtain ⟨h1, h2, h3, h4, h5, h6, h7, h8, h9, h10, h11, h12, h13, h14, h15⟩ := h
    constructor <;> intros <;> grind

/-- Consumer: copy `k` elements out, `front_.store`. -/
theorem inv_c_stFront (s : St) (k f : Nat) (h : RingInv s) (hcp : s.cp = .stFront k f) :
    RingInv { s with front := f + k, popped := s.popped ++ readCells s.buf s.cap f k,
                     cp := .done (1 :: readCells s.buf s.cap f k) } := by
  obtain ⟨rfl, hk⟩ := h.c_stFront k f hcp
  have hfifo := fifo_pop s h k hk
  obtain ⟨h1, h2, h3, h4, h5, h6, h7, h8, h9, h10, h11, h12, h13, h14, h15⟩ := h
  constructor <;> intros <;> dsimp only at * <;> grind

/-- Consumer: `front_.store` of `pop_front()`. -/
theorem inv_c_stFrontPF (s : St) (v : Int) (f : Nat) (h : RingInv s) (hcp : s.cp = .stFrontPF v f) :
    RingInv { s with front := f + 1, popped := s.popped ++ [v], cp := .done [1, v] } := by
  obtain ⟨rfl, hk, hv⟩ := h.c_stFrontPF v f hcp
  have hfifo : s.popped ++ [v] = s.pushed.take (s.front + 1) := by
    rw [List.take_add_one, hv, h.fifo]; rfl
  obtain ⟨h1, h2, h3, h4, h5, h6, h7, h8, h9, h10, h11, h12, h13, h14, h15⟩ := h
  constructor <;> intros <;> dsimp only at * <;> grind

theorem inv_step' (s : St) (t : Tid) (r : St × Ev)
    (h : RingInv s) (hr : step s t = some r) : RingInv r.1 := by
  unfold step at hr
  split at hr
  · split at hr
    · rename_i vs hpp
      split at hr <;> simp at hr <;> subst hr
      · exact inv_p_ldBack s vs h hpp _ (.inl rfl) (by simp)
      · exact inv_p_ldBack s vs h hpp _ (.inr rfl) (by simp; omega)
    · rename_i vs b hpp
      split at hr <;> simp at hr <;> subst hr
      · exact inv_p_ldFront s vs b h hpp _ (.inl rfl) (by simp)
      · exact inv_p_ldFront s vs b h hpp _ (.inr rfl) (by simp; omega)
    · rename_i vs b hpp
      simp at hr; subst hr
      exact inv_p_stBack s vs b h hpp
    · simp at hr
  · split at hr
    · split at hr
      · rename_i op hcp
        exact inv_c_ldFront s op h hcp r hr
      · rename_i op f hcp
        exact inv_c_ldBack s op f h hcp r hr
      · rename_i k f hcp
        simp at hr; subst hr
        exact inv_c_stFront s k f h hcp
      · rename_i v f hcp
        simp at hr; subst hr
        exact inv_c_stFrontPF s v f h hcp
      · simp at hr
    · simp at hr

theorem inv_step (s : St) (t : Tid) (a : Act) (s' : St) (o : Obs)
    (h : RingInv s) (hap : model.apply s t a = some (s', o)) : RingInv s' := by
  cases a with
  | invoke op =>
    simp only [Model.apply, model, Option.map_eq_some_iff] at hap
    obtain ⟨s1, hs1, heq⟩ := hap
    simp only [Prod.mk.injEq] at heq
    obtain ⟨rfl, -⟩ := heq
    exact inv_invoke s t op s1 h hs1
  | step =>
    simp only [Model.apply, model, Option.map_eq_some_iff] at hap
    obtain ⟨r, hr, heq⟩ := hap
    simp only [Prod.mk.injEq] at heq
    obtain ⟨rfl, -⟩ := heq
    exact inv_step' s t r h hr
  | ret =>
    simp only [Model.apply, model, Option.map_eq_some_iff] at hap
    obtain ⟨r, hr, heq⟩ := hap
    simp only [Prod.mk.injEq] at heq
    obtain ⟨rfl, -⟩ := heq
    exact inv_result s t r h hr

theorem inv_reachable (cap : Nat) (hcap : 0 < cap) (s : St) (h : model.Reachable (init cap) s) : RingInv s :=
  model.inv_reachable RingInv (init cap) (inv_init cap hcap) inv_step s h

/-! ### Consequences of the invariant -/

theorem fifo_prefix (s : St) (h : RingInv s) : s.pushed = s.popped ++ s.pushed.drop s.popped.length := by
  rw [← h.front_eq]
  conv => rhs; rw [h.fifo]
  exact (List.take_append_drop _ _).symm

theorem buffer_content (s : St) (h : RingInv s) :
    readCells s.buf s.cap s.front (s.back - s.front) = s.pushed.drop s.popped.length := by
  have hfb : s.front ≤ s.back := Nat.le_trans h.front_le h.cback_le
  rw [readCells_eq s.buf s.cap s.front (s.back - s.front) s.pushed (by rw [← h.back_eq]; omega)
    (fun j h1 h2 => h.content j h1 (by omega))]
  rw [← h.front_eq, List.take_of_length_le]
  simp [← h.back_eq]

theorem in_flight_le_cap (s : St) (h : RingInv s) : s.front ≤ s.back ∧ s.back - s.front ≤ s.cap := by
  have := h.pfront_le; have := h.front_le; have := h.cback_le; have := h.back_le
  omega

/-! ### Transitions: who can fail, and who writes which cells -/

theorem proceed_frame (s : St) (op : COp) (f : Nat) :
    (proceed s op f).buf = s.buf ∧ (proceed s op f).pp = s.pp ∧ (proceed s op f).cap = s.cap ∧
    (proceed s op f).front = s.front ∧ (proceed s op f).back = s.back ∧ (proceed s op f).cp ≠ .done [0] := by
  cases op <;> simp [proceed]

/-- The producer's `done [0]` (push returned false) is entered only by the producer's load of `front_`,
    and only when the value loaded leaves fewer than `count` free cells. -/
theorem apply_push_fail (s : St) (t : Tid) (a : Act) (s' : St) (o : Obs)
    (hap : model.apply s t a = some (s', o)) (hold : s.pp ≠ .done [0]) (hnew : s'.pp = .done [0]) :
    t = 0 ∧ a = .step ∧ ∃ vs b, s.pp = .ldFront vs b ∧ o = .ev (evLd "front" s.front) ∧
      s.front + s.cap - b < vs.length := by
  cases a with
  | invoke op =>
    simp only [Model.apply, model, Option.map_eq_some_iff, Prod.mk.injEq] at hap
    obtain ⟨s1, hs1, rfl, -⟩ := hap
    unfold invoke at hs1
    split at hs1
    · split at hs1 <;> simp at hs1; subst hs1; simp at hnew
    · split at hs1
      · split at hs1 <;> simp at hs1; subst hs1; exact absurd hnew hold
      · simp at hs1
  | ret =>
    simp only [Model.apply, model, Option.map_eq_some_iff, Prod.mk.injEq] at hap
    obtain ⟨r, hr, rfl, -⟩ := hap
    unfold result at hr
    split at hr
    · split at hr <;> simp at hr; subst hr; simp at hnew
    · split at hr
      · split at hr <;> simp at hr; subst hr; exact absurd hnew hold
      · simp at hr
  | step =>
    simp only [Model.apply, model, Option.map_eq_some_iff, Prod.mk.injEq] at hap
    obtain ⟨r, hr, rfl, rfl⟩ := hap
    unfold step at hr
    split at hr
    · split at hr
      · split at hr <;> simp at hr <;> subst hr <;> simp at hnew
      · rename_i vs b hpp
        split at hr <;> simp at hr <;> subst hr
        · exact ⟨by assumption, rfl, vs, b, hpp, rfl, by assumption⟩
        · simp at hnew
      · simp at hr; subst hr; simp at hnew
      · simp at hr
    · split at hr
      · split at hr
        · split at hr <;> simp at hr <;> subst hr
          · exact absurd hnew hold
          · rw [(proceed_frame _ _ _).2.1] at hnew; exact absurd hnew hold
        · split at hr <;> simp at hr <;> subst hr
          · exact absurd hnew hold
          · rw [(proceed_frame _ _ _).2.1] at hnew; exact absurd hnew hold
        · simp at hr; subst hr; exact absurd hnew hold
        · simp at hr; subst hr; exact absurd hnew hold
        · simp at hr
      · simp at hr

/-- The consumer's `done [0]` (pop / front returned false / nullptr) is entered only by the consumer's load
    of `back_`, and only when the value loaded shows fewer than the needed number of elements. -/
theorem apply_pop_fail (s : St) (t : Tid) (a : Act) (s' : St) (o : Obs)
    (hap : model.apply s t a = some (s', o)) (hold : s.cp ≠ .done [0]) (hnew : s'.cp = .done [0]) :
    t = 1 ∧ a = .step ∧ ∃ op f, s.cp = .ldBack op f ∧ o = .ev (evLd "back" s.back) ∧
      s.back - f < need op := by
  cases a with
  | invoke op =>
    simp only [Model.apply, model, Option.map_eq_some_iff, Prod.mk.injEq] at hap
    obtain ⟨s1, hs1, rfl, -⟩ := hap
    unfold invoke at hs1
    split at hs1
    · split at hs1 <;> simp at hs1; subst hs1; exact absurd hnew hold
    · split at hs1
      · split at hs1 <;> simp at hs1; subst hs1; simp at hnew
      · simp at hs1
  | ret =>
    simp only [Model.apply, model, Option.map_eq_some_iff, Prod.mk.injEq] at hap
    obtain ⟨r, hr, rfl, -⟩ := hap
    unfold result at hr
    split at hr
    · split at hr <;> simp at hr; subst hr; exact absurd hnew hold
    · split at hr
      · split at hr <;> simp at hr; subst hr; simp at hnew
      · simp at hr
  | step =>
    simp only [Model.apply, model, Option.map_eq_some_iff, Prod.mk.injEq] at hap
    obtain ⟨r, hr, rfl, rfl⟩ := hap
    unfold step at hr
    split at hr
    · split at hr
      · split at hr <;> simp at hr <;> subst hr <;> exact absurd hnew hold
      · split at hr <;> simp at hr <;> subst hr <;> exact absurd hnew hold
      · simp at hr; subst hr; exact absurd hnew hold
      · simp at hr
    · split at hr
      · split at hr
        · split at hr <;> simp at hr <;> subst hr
          · simp at hnew
          · exact absurd hnew (proceed_frame _ _ _).2.2.2.2.2
        · rename_i op f hcp
          split at hr <;> simp at hr <;> subst hr
          · exact ⟨by assumption, rfl, op, f, hcp, rfl, by assumption⟩
          · exact absurd hnew (proceed_frame _ _ _).2.2.2.2.2
        · simp at hr; subst hr; simp at hnew
        · simp at hr; subst hr; simp at hnew
        · simp at hr
      · simp at hr

/-- Only the producer's copy step changes buffer cells, and it writes exactly its batch. -/
theorem apply_buf (s : St) (t : Tid) (a : Act) (s' : St) (o : Obs)
    (hap : model.apply s t a = some (s', o)) :
    (s'.buf = s.buf ∧ s'.cap = s.cap) ∨
    (t = 0 ∧ a = .step ∧ ∃ vs b, s.pp = .stBack vs b ∧ s'.buf = writeCells s.buf s.cap b vs ∧ s'.cap = s.cap) := by
  cases a with
  | invoke op =>
    simp only [Model.apply, model, Option.map_eq_some_iff, Prod.mk.injEq] at hap
    obtain ⟨s1, hs1, rfl, -⟩ := hap
    unfold invoke at hs1
    split at hs1
    · split at hs1 <;> simp at hs1; subst hs1; simp
    · split at hs1
      · split at hs1 <;> simp at hs1; subst hs1; simp
      · simp at hs1
  | ret =>
    simp only [Model.apply, model, Option.map_eq_some_iff, Prod.mk.injEq] at hap
    obtain ⟨r, hr, rfl, -⟩ := hap
    unfold result at hr
    split at hr
    · split at hr <;> simp at hr; subst hr; simp
    · split at hr
      · split at hr <;> simp at hr; subst hr; simp
      · simp at hr
  | step =>
    simp only [Model.apply, model, Option.map_eq_some_iff, Prod.mk.injEq] at hap
    obtain ⟨r, hr, rfl, rfl⟩ := hap
    unfold step at hr
    split at hr
    · split at hr
      · split at hr <;> simp at hr <;> subst hr <;> simp
      · split at hr <;> simp at hr <;> subst hr <;> simp
      · rename_i vs b hpp
        simp at hr; subst hr
        exact .inr ⟨by assumption, rfl, vs, b, hpp, rfl, rfl⟩
      · simp at hr
    · split at hr
      · split at hr
        · split at hr <;> simp at hr <;> subst hr
          · simp
          · exact .inl ⟨(proceed_frame _ _ _).1, (proceed_frame _ _ _).2.2.1⟩
        · split at hr <;> simp at hr <;> subst hr
          · simp
          · exact .inl ⟨(proceed_frame _ _ _).1, (proceed_frame _ _ _).2.2.1⟩
        · simp at hr; subst hr; simp
        · simp at hr; subst hr; simp
        · simp at hr
      · simp at hr

/-- The cells the producer is about to write are disjoint from the live cells `front_ … back_ - 1`. -/
theorem stBack_disjoint (s : St) (h : RingInv s) (vs : List Int) (b : Nat) (hpp : s.pp = .stBack vs b)
    (i : Nat) (hi : i < vs.length) (j : Nat) (h1 : s.front ≤ j) (h2 : j < s.back) :
    (b + i) % s.cap ≠ j % s.cap := by
  obtain ⟨rfl, hb⟩ := h.p_stBack vs b hpp
  have := h.pfront_le
  exact (mod_ne_of_lt (by omega) (by omega)).symm

/-! ### The translated size / tail-marker helpers of `WeakRingBuffer<void>` (Gen/RingBuffer.lean) -/

section Helpers
open CdsVerif.Gen.RingBuffer

theorem sh63 : (((8#64) * (8#64)) - (1#64)).toNat % 64 = 63 := by decide
theorem tp63 : (1#64) <<< 63 = BitVec.twoPow 64 63 := (BitVec.twoPow_eq 64 63).symm
theorem mask63 : BitVec.twoPow 64 63 - 1#64 = BitVec.ofNat 64 (2^63 - 1) := by decide

theorem lsb_mask63 (i : Nat) : (BitVec.twoPow 64 63 - 1#64).getLsbD i = decide (i < 63) := by
  rw [mask63, BitVec.getLsbD_ofNat, Nat.testBit_two_pow_sub_one]
  by_cases h : i < 63
  · have : i < 64 := by omega
    simp [h, this]
  · simp [h]

theorem lsb_not7 (i : Nat) : (~~~((8#64) - (1#64))).getLsbD i = (decide (i < 64) && decide (3 ≤ i)) := by
  have : (8#64) - (1#64) = BitVec.ofNat 64 (2^3 - 1) := by decide
  rw [this, BitVec.getLsbD_not, BitVec.getLsbD_ofNat, Nat.testBit_two_pow_sub_one]
  by_cases h : i < 3
  · have : i < 64 := by omega
    have h' : ¬ 3 ≤ i := by omega
    simp [h, this, h']
  · have h' : 3 ≤ i := by omega
    simp [h, h']

theorem bit63 (x : BitVec 64) (h : x.toNat < 2^63) : x.getLsbD 63 = false := by
  rw [← BitVec.testBit_toNat]; exact Nat.testBit_lt_two_pow h

theorem is_tail_of_lt (x : BitVec 64) (h : x.toNat < 2^63) : is_tail x = false := by
  simp only [is_tail, sh63, tp63, BitVec.and_twoPow, bit63 x h]
  decide

theorem is_tail_make_tail (x : BitVec 64) : is_tail (make_tail x) = true := by
  simp only [is_tail, make_tail, sh63, tp63, BitVec.and_twoPow, BitVec.getLsbD_or, BitVec.getLsbD_twoPow]
  simp

theorem untail_make_tail (x : BitVec 64) (h : x.toNat < 2^63) : untail (make_tail x) = x := by
  simp only [untail, make_tail, sh63, tp63]
  apply BitVec.eq_of_getLsbD_eq
  intro i hi
  rw [BitVec.getLsbD_and, BitVec.getLsbD_or, lsb_mask63, BitVec.getLsbD_twoPow]
  by_cases h63 : i = 63
  · subst h63; rw [bit63 x h]; simp
  · have : i < 63 := by omega
    simp [this]; omega

/-- `y & ~7` clears the three low bits. -/
theorem and_not7 (y : BitVec 64) : y &&& ~~~((8#64) - (1#64)) = (y >>> 3) <<< 3 := by
  apply BitVec.eq_of_getLsbD_eq
  intro i hi
  rw [BitVec.getLsbD_and, lsb_not7, BitVec.getLsbD_shiftLeft, BitVec.getLsbD_ushiftRight]
  by_cases h3 : i < 3
  · have : ¬ 3 ≤ i := by omega
    simp [h3, this]
  · have : 3 ≤ i := by omega
    simp [h3, this, hi]

/-- `calc_real_size`: payload rounded up to a multiple of 8, plus the 8-byte header. -/
theorem calc_real_size_toNat (x : BitVec 64) (h : x.toNat < 2^63) :
    (calc_real_size x).toNat = (x.toNat + 7) / 8 * 8 + 8 := by
  simp only [calc_real_size, and_not7]
  simp only [BitVec.toNat_add, BitVec.toNat_shiftLeft, BitVec.toNat_ushiftRight, BitVec.toNat_sub,
    BitVec.toNat_ofNat, Nat.shiftLeft_eq, Nat.shiftRight_eq_div_pow]
  omega

end Helpers

end CdsVerif.Algo.Ring

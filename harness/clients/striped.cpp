// Lock-based hash sets / maps: StripedSet / StripedMap over std::list, std::set / std::map and
// boost::container::flat_set / flat_map buckets (striping and refinable mutex policies, resizing inside
// the programs), CuckooSet / CuckooMap (striping / refinable, list and vector probe sets, store_hash on / off).
// All locks are spin locks.  History is judged against Spec.map.
#include <cstring>
#include <list>
#include <set>
#include <map>
#include <cds/init.h>
#include <cds/gc/hp.h>
#include <cds/sync/spinlock.h>
#include <cds/container/striped_set/std_list.h>
#include <cds/container/striped_set/std_set.h>
#include <cds/container/striped_set/boost_flat_set.h>
#include <cds/container/striped_map/std_list.h>
#include <cds/container/striped_map/std_map.h>
#include <cds/container/striped_map/boost_flat_map.h>
#include <cds/container/striped_set.h>
#include <cds/container/striped_map.h>
#include <cds/container/cuckoo_set.h>
#include <cds/container/cuckoo_map.h>
#include <memory>
#include "../client.h"

using namespace khizmax_libcds_verif;
namespace ci = cds::intrusive;
namespace cc = cds::container;
namespace co = cds::opt;

// ---------------------------------------------------------------- common map client part

// Spin detection.  Some libcds operations wait for another thread in a loop that contains no back-off
// call (e.g. LazyList::search() restarts from the head while it runs into a logically deleted node that
// its eraser has not unlinked yet; IterableList::insert retries while a neighbour is marked).  A
// strict-priority schedule (pct) would starve the thread waited for, and the case would end with
// status=budget.  Key comparators and (where offered) retry events of the statistics policy therefore
// report to the scheduler: after c_spin_limit comparisons inside one operation every further
// comparison is a spin hint.  The command line option `--hints 0` switches the hints off (same
// programs and schedules seeds) and shows the behaviour of the library alone.
static bool g_hints = true;
static thread_local unsigned tls_cmp_count = 0;
static constexpr unsigned c_spin_limit = 200;
static inline void cmp_tick()
{
    if ( ++tls_cmp_count > c_spin_limit && g_hints )
        spin_hint();
}
static inline void retry_tick()
{
    if ( g_hints )
        spin_hint();
}

struct IMap {
    // capabilities: which operations the program generator may use
    bool can_erase = true, can_extract = true, can_minmax = false, can_update = true;
    char const* upd = "update";         // "update" (payload replaced) or "upsert_keep" (old item kept)
    bool upd_zero = false;              // update() can only insert a default-constructed payload (0)
    virtual ~IMap() {}
    virtual bool insert( long k, long v ) = 0;
    virtual std::pair<bool, bool> update( long k, long v, bool allow ) = 0;
    virtual bool erase( long, long& ) { return false; }
    virtual bool extract( long, long& ) { return false; }
    virtual bool find( long k, long& v ) = 0;
    virtual bool contains( long k ) = 0;
    virtual bool extract_min( long&, long& ) { return false; }
    virtual bool extract_max( long&, long& ) { return false; }
};

struct GenCfg {
    int maxkeys = 5;            // key space is 2..maxkeys keys
    bool ins_heavy = false;     // mostly inserts (growing tables)
};

static std::vector<std::vector<Op>> map_program( Rng& r, int nthreads, int nops, IMap const& m, GenCfg const& g )
{
    std::vector<std::vector<Op>> p( nthreads );
    long v = 1;
    long nkeys = 2 + long( r.below( g.maxkeys - 1 ));
    unsigned w_ins = 25 + unsigned( r.below( 30 ));
    unsigned w_upd = 10 + unsigned( r.below( 15 ));
    if ( !m.can_update ) w_upd = 0;
    unsigned w_era = m.can_erase ? 10 + unsigned( r.below( 20 )) : 0;
    unsigned w_ext = m.can_extract ? 5 + unsigned( r.below( 15 )) : 0;
    unsigned w_fnd = 10 + unsigned( r.below( 15 ));
    unsigned w_con = 5 + unsigned( r.below( 10 ));
    unsigned w_mm = m.can_minmax ? 10 + unsigned( r.below( 10 )) : 0;
    if ( g.ins_heavy ) {
        nkeys = g.maxkeys;
        w_ins += 60;
    }
    unsigned total = w_ins + w_upd + w_era + w_ext + w_fnd + w_con + w_mm;
    int budget = 14;
    for ( int t = 0; t < nthreads; ++t ) {
        int n = 1 + int( r.below( nops ));
        int left = nthreads - t - 1;
        if ( n > budget - left ) n = budget - left;
        budget -= n;
        for ( int i = 0; i < n; ++i ) {
            long k = long( r.below( nkeys ));
            unsigned x = unsigned( r.below( total ));
            if ( x < w_ins ) { p[t].push_back( Op( "insert", k, v++ )); continue; }
            x -= w_ins;
            if ( x < w_upd ) { p[t].push_back( Op( m.upd, k, m.upd_zero ? 0 : v++, r.chance( 70 ) ? 1 : 0 )); continue; }
            x -= w_upd;
            if ( x < w_era ) { p[t].push_back( Op( "erase", k )); continue; }
            x -= w_era;
            if ( x < w_ext ) { p[t].push_back( Op( "extract", k )); continue; }
            x -= w_ext;
            if ( x < w_fnd ) { p[t].push_back( Op( "find", k )); continue; }
            x -= w_fnd;
            if ( x < w_con ) { p[t].push_back( Op( "contains", k )); continue; }
            p[t].push_back( Op( r.chance( 50 ) ? "extract_min" : "extract_max" ));
        }
    }
    return p;
}

static std::vector<long> map_exec( IMap& m, Op const& op )
{
    std::string const& n = op.name;
    long v = 0, k = 0;
    tls_cmp_count = 0;
    if ( n == "insert" ) return { m.insert( op.args[0], op.args[1] ) ? 1L : 0L };
    if ( n == "update" || n == "upsert_keep" ) {
        std::pair<bool, bool> r = m.update( op.args[0], op.args[1], op.args[2] != 0 );
        return { r.first ? 1L : 0L, r.second ? 1L : 0L };
    }
    if ( n == "erase" ) { if ( m.erase( op.args[0], v )) return { 1, v }; return { 0 }; }
    if ( n == "extract" ) { if ( m.extract( op.args[0], v )) return { 1, v }; return { 0 }; }
    if ( n == "find" ) { if ( m.find( op.args[0], v )) return { 1, v }; return { 0 }; }
    if ( n == "contains" ) return { m.contains( op.args[0] ) ? 1L : 0L };
    if ( n == "extract_min" ) { if ( m.extract_min( k, v )) return { 1, k, v }; return { 0 }; }
    if ( n == "extract_max" ) { if ( m.extract_max( k, v )) return { 1, k, v }; return { 0 }; }
    std::fprintf( stderr, "unknown op %s\n", n.c_str());
    std::exit( 2 );
}

// ---------------------------------------------------------------- value types and predicates

struct kv {
    long key; long val;
    kv() : key( 0 ), val( 0 ) {}
    kv( long k, long v ) : key( k ), val( v ) {}
};

struct key_of {
    template <class T> static long k( T const& t ) { return t.key; }
    static long k( long x ) { return x; }
};
struct key_less {
    template <class A, class B> bool operator()( A const& a, B const& b ) const { cmp_tick(); return key_of::k( a ) < key_of::k( b ); }
};
struct key_cmp {
    template <class A, class B> int operator()( A const& a, B const& b ) const
    {
        cmp_tick();
        long x = key_of::k( a ), y = key_of::k( b );
        return x < y ? -1 : ( y < x ? 1 : 0 );
    }
};

// traits generators: Pred = 0 -> less, 1 -> compare; Cnt -> item counter
template <class Base, int Pred, bool Cnt> struct mk_traits;
template <class Base> struct mk_traits<Base, 0, false> : Base { typedef key_less less; };
template <class Base> struct mk_traits<Base, 1, false> : Base { typedef key_cmp compare; };
template <class Base> struct mk_traits<Base, 0, true> : Base { typedef key_less less; typedef cds::atomicity::item_counter item_counter; };
template <class Base> struct mk_traits<Base, 1, true> : Base { typedef key_cmp compare; typedef cds::atomicity::item_counter item_counter; };

template <class Base, int Pred, bool Cnt> struct mk_kvtraits;
template <class Base> struct mk_kvtraits<Base, 0, false> : Base { typedef key_less less; };
template <class Base> struct mk_kvtraits<Base, 1, false> : Base { typedef key_cmp compare; };
template <class Base> struct mk_kvtraits<Base, 0, true> : Base { typedef key_less less; typedef cds::atomicity::item_counter item_counter; };

// ---------------------------------------------------------------- adapters (no extract in these containers)

struct get_kv_val {
    long* v;
    template <class Q> void operator()( kv& item, Q& ) const { *v = item.val; }
};

template <class S>
struct LockedSet : IMap {
    S s;
    template <class... A> explicit LockedSet( A&&... a ) : s( std::forward<A>( a )... ) { can_extract = false; }
    bool insert( long k, long v ) override { return s.insert( kv( k, v )); }
    std::pair<bool, bool> update( long k, long v, bool allow ) override
    {
        return s.update( kv( k, v ), []( bool, kv& item, kv const& key ) { item.val = key.val; }, allow );
    }
    bool erase( long k, long& v ) override { return s.erase( kv( k, 0 ), [&v]( kv const& item ) { v = item.val; } ); }
    bool find( long k, long& v ) override
    {
        kv key( k, 0 );
        return s.find( key, get_kv_val{ &v } );
    }
    bool contains( long k ) override { return s.contains( kv( k, 0 )); }
};

template <class M>
struct LockedMap : IMap {
    M m;
    typedef typename M::value_type value_type;
    template <class... A> explicit LockedMap( A&&... a ) : m( std::forward<A>( a )... ) { can_extract = false; }
    bool insert( long k, long v ) override { return m.insert( k, v ); }
    std::pair<bool, bool> update( long k, long v, bool allow ) override
    {
        return m.update( k, [v]( bool, value_type& item ) { item.second = v; }, allow );
    }
    bool erase( long k, long& v ) override { return m.erase( k, [&v]( value_type& item ) { v = item.second; } ); }
    bool find( long k, long& v ) override { return m.find( k, [&v]( value_type& item ) { v = item.second; } ); }
    bool contains( long k ) override { return m.contains( k ); }
};

// ---------------------------------------------------------------- locks

// Spin locks whose failed try_lock() is reported to the scheduler: CuckooSet takes the locks of the cells
// of an item with lock() and further ones (relocation) with try_lock() in a loop "release everything and
// start again" that has no back-off; a strict-priority schedule would starve the lock holder (see cmp_tick).
struct hint_spin : cds::sync::spin {
    bool try_lock() noexcept
    {
        if ( cds::sync::spin::try_lock()) return true;
        retry_tick();
        return false;
    }
};
struct hint_rspin : cds::sync::reentrant_spin {
    bool try_lock() noexcept
    {
        if ( cds::sync::reentrant_spin::try_lock()) return true;
        retry_tick();
        return false;
    }
};

// ---------------------------------------------------------------- hash functors

// striped: hash = key * g_hmul.  g_hmul = 16 puts every key into bucket 0 of the initial table (16 buckets is
// the minimum the library accepts) so that a single_bucket_size_threshold policy fires; g_hmul = 1 spreads.
static size_t g_hmul = 1;
struct striped_hash {
    template <class T> size_t operator()( T const& v ) const { return size_t( key_of::k( v )) * g_hmul; }
};

// cuckoo: two hash functions.  g_ckmode 0: ( k, (5k+3)/2 ) spreads when the tables grow;
// g_ckmode 1: ( k mod 3, (k/3) mod 3 ) keeps colliding whatever the table size is (probe sets fill up,
// relocation and resizing are exercised; the 8 keys still have pairwise different hash tuples)
static int g_ckmode = 0;
struct cuckoo_hash1 {
    template <class T> size_t operator()( T const& v ) const { size_t k = size_t( key_of::k( v )); return g_ckmode ? k % 3 : k; }
};
struct cuckoo_hash2 {
    template <class T> size_t operator()( T const& v ) const { size_t k = size_t( key_of::k( v )); return g_ckmode ? ( k / 3 ) % 3 : ( k * 5 + 3 ) / 2; }
};
struct key_equal {
    template <class A, class B> bool operator()( A const& a, B const& b ) const { return key_of::k( a ) == key_of::k( b ); }
};

// std::set / flat_set need a strict comparator type of their own
struct kv_std_less { bool operator()( kv const& a, kv const& b ) const { return a.key < b.key; } };

// ---------------------------------------------------------------- StripedSet / StripedMap

typedef cc::striped_set::striping< hint_spin > st_striping;
typedef cc::striped_set::refinable< hint_rspin, cds::backoff::yield > st_refinable;
typedef cc::striped_set::rational_load_factor_resizing<0> st_lf;          // resize when size * den > buckets * num
typedef cc::striped_set::single_bucket_size_threshold<0> st_bucket;        // resize when a bucket holds more than n items

template <class Bucket, class Mutex, class Resize>
using SSet = cc::StripedSet< Bucket, co::hash< striped_hash >, co::less< key_less >,
    co::mutex_policy< Mutex >, co::resizing_policy< Resize > >;
template <class Bucket, class Mutex, class Resize>
using SMap = cc::StripedMap< Bucket, co::hash< striped_hash >, co::less< key_less >,
    co::mutex_policy< Mutex >, co::resizing_policy< Resize > >;

typedef std::list< kv > b_list;
typedef std::set< kv, kv_std_less > b_set;
typedef boost::container::flat_set< kv, kv_std_less > b_flat;
typedef std::list< std::pair< long const, long > > bm_list;
typedef std::map< long, long > bm_map;
typedef boost::container::flat_map< long, long > bm_flat;

// ---------------------------------------------------------------- trace-conformance tie (hidden variants tie_striping / tie_refinable)
//
// Lean machine Algo/Striped (property C16): every atomic operation on the cell locks, m_Owner, m_access, m_nCapacity,
// m_nBucketMask and the item counter is a step of the machine, plus one pseudo-event per bucket operation (the bucket
// adapter below) and one at the end of a rehash (the resizing policy's reset(), which internal_resize calls last).
//   locks           lk<i> (striping) / lk<gen>.<i> (refinable: one generation per lock array), named by the allocator
//   buckets         std::list< kv > behind an adapter that reports `<op> b<index> <key> <outcome>`
//   resizing policy rational_load_factor_resizing<0>( num, den ): resize when size * den > bucket_count * num

static bool g_tie_refinable = false;
static int g_tie_gen = 0;                       // lock arrays allocated so far
static char* g_tie_tbl = nullptr;               // newest bucket table
static size_t g_tie_tbl_n = 0, g_tie_tbl_elem = 1;
static std::vector<void*> g_tie_garbage;        // nothing is freed before the case ends: no address (= name) is reused
static std::function<std::string()> g_tie_layout;

struct tie_bucket_tag {};

template <class T, bool IsLock = std::is_same<T, hint_spin>::value, bool IsBucket = std::is_base_of<tie_bucket_tag, T>::value>
struct tie_alloc_hook { static void on( T*, size_t ) {} };
template <class T> struct tie_alloc_hook<T, true, false> {
    static void on( T* p, size_t n )
    {
        int g = g_tie_gen++;
        for ( size_t i = 0; i < n; ++i ) {
            char nm[40];
            if ( g_tie_refinable ) std::snprintf( nm, sizeof nm, "lk%d.%zu", g, i );
            else std::snprintf( nm, sizeof nm, "lk%zu", i );
            reg_name( &p[i].m_spin, sizeof( p[i].m_spin ), nm );
        }
    }
};
template <class T> struct tie_alloc_hook<T, false, true> {
    static void on( T* p, size_t n ) { g_tie_tbl = reinterpret_cast<char*>( p ); g_tie_tbl_n = n; g_tie_tbl_elem = sizeof( T ); }
};

template <class T>
struct tie_alloc {
    typedef T value_type;
    tie_alloc() {}
    template <class U> tie_alloc( tie_alloc<U> const& ) {}
    T* allocate( size_t n )
    {
        T* p = static_cast<T*>( ::operator new( n * sizeof( T )));
        tie_alloc_hook<T>::on( p, n );
        return p;
    }
    T* allocate( size_t n, void const* ) { return allocate( n ); }
    void deallocate( T* p, size_t ) { g_tie_garbage.push_back( p ); }
    template <class U> bool operator==( tie_alloc<U> const& ) const { return true; }
    template <class U> bool operator!=( tie_alloc<U> const& ) const { return false; }
};

struct tie_bucket {};       // tag type: "std::list< kv > bucket that reports its operations"

namespace cds { namespace intrusive { namespace striped_set {
    template <typename... Options>
    class adapt< tie_bucket, Options... >
    {
        typedef typename adapt< std::list< kv >, Options... >::type inner;
    public:
        class type : public inner, public tie_bucket_tag
        {
            std::string name() const
            {
                char const* me = reinterpret_cast<char const*>( this );
                if ( g_tie_tbl && me >= g_tie_tbl && me < g_tie_tbl + g_tie_tbl_n * g_tie_tbl_elem )
                    return "b" + std::to_string(( me - g_tie_tbl ) / g_tie_tbl_elem );
                return "stale-bucket";      // a bucket of a table that has been replaced
            }
        public:
            template <typename Q, typename Func>
            bool insert( Q const& val, Func f )
            {
                pseudo_begin();
                bool r = inner::insert( val, f );
                pseudo_end( "insert", name(), std::to_string( key_of::k( val )), r ? "1" : "0" );
                return r;
            }
            template <typename Q, typename Func>
            std::pair<bool, bool> update( Q const& val, Func func, bool bAllowInsert )
            {
                pseudo_begin();
                std::pair<bool, bool> r = inner::update( val, func, bAllowInsert );
                pseudo_end( "update", name(), std::to_string( key_of::k( val )), std::string( r.first ? "1:" : "0:" ) + ( r.second ? "1" : "0" ));
                return r;
            }
            template <typename Q, typename Func>
            bool erase( Q const& key, Func f )
            {
                pseudo_begin();
                long v = 0;
                bool r = inner::erase( key, [&v, &f]( kv& item ) { v = item.val; f( item ); } );
                pseudo_end( "erase", name(), std::to_string( key_of::k( key )), r ? "1:" + std::to_string( v ) : std::string( "0" ));
                return r;
            }
            template <typename Q, typename Func>
            bool find( Q& val, Func f )
            {
                pseudo_begin();
                long v = 0;
                bool r = inner::find( val, [&v, &f]( kv& item, Q& q ) { v = item.val; f( item, q ); } );
                pseudo_end( "find", name(), std::to_string( key_of::k( val )), r ? "1:" + std::to_string( v ) : std::string( "0" ));
                return r;
            }
        };
    };
}}}

struct tie_lf : cc::striped_set::rational_load_factor_resizing<0> {
    typedef cc::striped_set::rational_load_factor_resizing<0> base;
    tie_lf( size_t num, size_t den ) : base( num, den ) {}
    void reset()        // last statement of internal_resize
    {
        pseudo_begin();
        std::string l = g_tie_layout ? g_tie_layout() : std::string( "?" );
        size_t sp = l.find( ' ' );
        pseudo_end( "rehash", "tbl", l.substr( 0, sp ), l.substr( sp + 1 ));
    }
};

typedef cc::striped_set::striping< hint_spin, tie_alloc<int> > tie_striping_policy;
typedef cc::striped_set::refinable< hint_spin, cds::backoff::yield, tie_alloc<int> > tie_refinable_policy;
template <class Mutex>
using TieSet = cc::StripedSet< tie_bucket, co::hash< striped_hash >, co::less< key_less >,
    co::mutex_policy< Mutex >, co::resizing_policy< tie_lf >, co::allocator< tie_alloc<int> > >;

// "<capacity> <layout>": layout = `<bucket>=<key>:<val>,…;…` over the non-empty buckets ("-" when the table is empty)
template <class S>
static std::string tie_layout_of( S& s )
{
    set_quiet( true );
    size_t n = s.bucket_count();
    std::string out;
    for ( size_t i = 0; i < n; ++i ) {
        auto& b = s.m_Buckets[i];
        if ( b.begin() == b.end()) continue;
        if ( !out.empty()) out += ';';
        out += std::to_string( i ) + "=";
        bool first = true;
        for ( auto it = b.begin(); it != b.end(); ++it ) {
            if ( !first ) out += ',';
            first = false;
            out += std::to_string( it->key ) + ":" + std::to_string( it->val );
        }
    }
    set_quiet( false );
    return std::to_string( n ) + " " + ( out.empty() ? std::string( "-" ) : out );
}

// ---------------------------------------------------------------- CuckooSet / CuckooMap

typedef cc::cuckoo::striping< hint_rspin, 2 > ck_striping;
typedef cc::cuckoo::refinable< hint_rspin, 2, cds::backoff::yield > ck_refinable;

template <class Mutex, class Probeset, bool StoreHash, bool Ordered> struct ck_traits;
template <class Mutex, class Probeset, bool StoreHash>
struct ck_traits<Mutex, Probeset, StoreHash, true> : cc::cuckoo::traits {
    typedef co::hash_tuple< cuckoo_hash1, cuckoo_hash2 > hash;
    typedef key_less less;
    typedef Mutex mutex_policy;
    typedef Probeset probeset_type;
    static bool const store_hash = StoreHash;
};
template <class Mutex, class Probeset, bool StoreHash>
struct ck_traits<Mutex, Probeset, StoreHash, false> : cc::cuckoo::traits {
    typedef co::hash_tuple< cuckoo_hash1, cuckoo_hash2 > hash;
    typedef key_equal equal_to;
    typedef Mutex mutex_policy;
    typedef Probeset probeset_type;
    static bool const store_hash = StoreHash;
};

template <class Mutex, class Probeset, bool StoreHash, bool Ordered>
using CSet = cc::CuckooSet< kv, ck_traits<Mutex, Probeset, StoreHash, Ordered> >;
template <class Mutex, class Probeset, bool StoreHash, bool Ordered>
using CMap = cc::CuckooMap< long, long, ck_traits<Mutex, Probeset, StoreHash, Ordered> >;

// ---------------------------------------------------------------- fixture

struct Fixture {
    static char const* family() { return "striped"; }
    static std::vector<std::string> variants()
    {
        return {
            "sset_list_striping_lf", "sset_list_refinable_bkt", "sset_set_striping_bkt", "sset_set_refinable_lf",
            "sset_flat_striping_lf", "sset_flat_refinable_bkt",
            "smap_list_striping_bkt", "smap_list_refinable_lf", "smap_map_striping_lf", "smap_map_refinable_bkt",
            "smap_flat_striping_bkt", "smap_flat_refinable_lf",
            "cset_list_striping", "cset_list_refinable", "cset_list_striping_hash", "cset_ulist_refinable_hash",
            "cset_vector_striping", "cset_vector_refinable_hash",
            "cmap_list_striping", "cmap_list_refinable_hash", "cmap_ulist_striping", "cmap_vector_refinable", "cmap_vector_striping_hash"
        };
    }
    std::unique_ptr<IMap> m;
    bool failed = false;
    std::string failure;
    GenCfg gen;
    std::function<std::string()> info;   // extra "# ..." line after the history (final bucket count)

    template <class A> void put_st( A* a )
    {
        m.reset( a );
        info = [a] { return "buckets=" + std::to_string( a->s.bucket_count()); };
    }
    template <class A> void put_stm( A* a )
    {
        m.reset( a );
        info = [a] { return "buckets=" + std::to_string( a->m.bucket_count()); };
    }

    explicit Fixture( Case const& c )
    {
        std::string const& v = c.variant;
        g_hints = c.optl( "hints", 1 ) != 0;
        gen.maxkeys = 8;
        gen.ins_heavy = ( c.index % 3 ) != 0;

        if ( v[0] == 's' ) {
            // the table has 16 buckets at least ( StripedSet::c_nMinimalCapacity ), so the resizing policies are
            // parameterised to fire with a few items: load factor 1/8 or 1/16 (more than 2 / 1 items in 16 buckets),
            // or more than 1 / 2 items in one bucket with a hash that maps all keys to bucket 0
            size_t cap = size_t( 2 ) << ( c.index % 2 );       // 2 or 4: rounded up to 16 by the library
            st_lf lf( 1, ( c.index / 2 ) % 2 ? 16 : 8 );
            st_bucket bkt( 1 + ( c.index / 2 ) % 2 );
            bool isBkt = v.size() > 4 && v.compare( v.size() - 4, 4, "_bkt" ) == 0;
            g_hmul = isBkt ? 16 : 1;
            if ( v == "sset_list_striping_lf" ) put_st( new LockedSet<SSet<b_list, st_striping, st_lf>>( cap, lf ));
            else if ( v == "sset_list_refinable_bkt" ) put_st( new LockedSet<SSet<b_list, st_refinable, st_bucket>>( cap, bkt ));
            else if ( v == "sset_set_striping_bkt" ) put_st( new LockedSet<SSet<b_set, st_striping, st_bucket>>( cap, bkt ));
            else if ( v == "sset_set_refinable_lf" ) put_st( new LockedSet<SSet<b_set, st_refinable, st_lf>>( cap, lf ));
            else if ( v == "sset_flat_striping_lf" ) put_st( new LockedSet<SSet<b_flat, st_striping, st_lf>>( cap, lf ));
            else if ( v == "sset_flat_refinable_bkt" ) put_st( new LockedSet<SSet<b_flat, st_refinable, st_bucket>>( cap, bkt ));
            else if ( v == "smap_list_striping_bkt" ) put_stm( new LockedMap<SMap<bm_list, st_striping, st_bucket>>( cap, bkt ));
            else if ( v == "smap_list_refinable_lf" ) put_stm( new LockedMap<SMap<bm_list, st_refinable, st_lf>>( cap, lf ));
            else if ( v == "smap_map_striping_lf" ) put_stm( new LockedMap<SMap<bm_map, st_striping, st_lf>>( cap, lf ));
            else if ( v == "smap_map_refinable_bkt" ) put_stm( new LockedMap<SMap<bm_map, st_refinable, st_bucket>>( cap, bkt ));
            else if ( v == "smap_flat_striping_bkt" ) put_stm( new LockedMap<SMap<bm_flat, st_striping, st_bucket>>( cap, bkt ));
            else if ( v == "smap_flat_refinable_lf" ) put_stm( new LockedMap<SMap<bm_flat, st_refinable, st_lf>>( cap, lf ));
        }
        else if ( v[0] == 'c' ) {
            size_t init = size_t( 2 ) << ( c.index % 2 );       // 2 or 4 cells per table
            unsigned probeset = 2, threshold = 1;
            g_ckmode = int(( c.index / 2 ) % 2 );
            typedef cc::cuckoo::list plist;
            typedef cc::cuckoo::vector<2> pvec;
            if ( v == "cset_list_striping" ) put_st( new LockedSet<CSet<ck_striping, plist, false, true>>( init, probeset, threshold ));
            else if ( v == "cset_list_refinable" ) put_st( new LockedSet<CSet<ck_refinable, plist, false, true>>( init, probeset, threshold ));
            else if ( v == "cset_list_striping_hash" ) put_st( new LockedSet<CSet<ck_striping, plist, true, true>>( init, probeset, threshold ));
            else if ( v == "cset_ulist_refinable_hash" ) put_st( new LockedSet<CSet<ck_refinable, plist, true, false>>( init, probeset, threshold ));
            else if ( v == "cset_vector_striping" ) put_st( new LockedSet<CSet<ck_striping, pvec, false, true>>( init, probeset, threshold ));
            else if ( v == "cset_vector_refinable_hash" ) put_st( new LockedSet<CSet<ck_refinable, pvec, true, false>>( init, probeset, threshold ));
            else if ( v == "cmap_list_striping" ) put_stm( new LockedMap<CMap<ck_striping, plist, false, true>>( init, probeset, threshold ));
            else if ( v == "cmap_list_refinable_hash" ) put_stm( new LockedMap<CMap<ck_refinable, plist, true, true>>( init, probeset, threshold ));
            else if ( v == "cmap_ulist_striping" ) put_stm( new LockedMap<CMap<ck_striping, plist, false, false>>( init, probeset, threshold ));
            else if ( v == "cmap_vector_refinable" ) put_stm( new LockedMap<CMap<ck_refinable, pvec, false, true>>( init, probeset, threshold ));
            else if ( v == "cmap_vector_striping_hash" ) put_stm( new LockedMap<CMap<ck_striping, pvec, true, false>>( init, probeset, threshold ));
        }
        else if ( v.compare( 0, 4, "tie_" ) == 0 ) {
            // hidden variants (not in variants()): trace-conformance tie with the Lean machine Algo/Striped
            tie = true;
            g_tie_refinable = ( v == "tie_refinable" );
            g_tie_gen = 0; g_tie_tbl = nullptr; g_tie_tbl_n = 0;
            static size_t const hmuls[] = { 1, 4, 5, 16 };
            g_hmul = hmuls[( c.index / 2 ) % 4];
            tie_num = 1; tie_den = ( c.index % 2 ) ? 16 : 8;
            tie_lf lf( tie_num, tie_den );
            if ( v == "tie_striping" ) tie_put( new LockedSet<TieSet<tie_striping_policy>>( size_t( 16 ), lf ));
            else if ( v == "tie_refinable" ) {
                auto* a = new LockedSet<TieSet<tie_refinable_policy>>( size_t( 16 ), lf );
                tie_put( a );
                reg_name( &a->s.m_MutexPolicy.m_Owner, sizeof( a->s.m_MutexPolicy.m_Owner ), "owner" );
                reg_name( &a->s.m_MutexPolicy.m_access.m_spin, sizeof( a->s.m_MutexPolicy.m_access.m_spin ), "access" );
                reg_name( &a->s.m_MutexPolicy.m_nCapacity, sizeof( a->s.m_MutexPolicy.m_nCapacity ), "lcap" );
            }
        }
        if ( !m ) { std::fprintf( stderr, "unknown variant %s\n", v.c_str()); std::exit( 2 ); }
    }
    ~Fixture()
    {
        if ( tie ) {
            m.reset();
            g_tie_layout = nullptr;
            for ( void* p : g_tie_garbage ) ::operator delete( p );
            g_tie_garbage.clear();
        }
    }
    bool tie = false;
    size_t tie_cap = 0, tie_num = 1, tie_den = 1;
    template <class A> void tie_put( A* a )
    {
        put_st( a );
        tie_cap = a->s.bucket_count();
        reg_name( &a->s.m_nBucketMask, sizeof( a->s.m_nBucketMask ), "mask" );
        reg_name( &a->s.m_ItemCounter, sizeof( a->s.m_ItemCounter ), "count" );
        g_tie_layout = [a] { return tie_layout_of( a->s ); };
    }
    // configuration of the Lean machine: policy, initial capacity (= number of cell locks), resizing policy
    // (resize when size * den > bucket_count * num), hash( key ) = key * hmul
    std::string header_extra() const
    {
        if ( !tie ) return std::string();
        return std::string( "policy=" ) + ( g_tie_refinable ? "refinable" : "striping" ) + " cap=" + std::to_string( tie_cap )
            + " num=" + std::to_string( tie_num ) + " den=" + std::to_string( tie_den ) + " hmul=" + std::to_string( g_hmul );
    }
    std::string spec() const { return "map"; }
    std::vector<std::vector<Op>> program( Rng& r, int nthreads, int nops ) { return map_program( r, nthreads, nops, *m, gen ); }
    void thread_begin( int tid )
    {
        set_quiet( true ); cds::threading::Manager::attachThread(); set_quiet( false );
        if ( tie ) {    // m_Owner holds ( thread id << 1 ) | 1
            char nm[16]; std::snprintf( nm, sizeof nm, "own%d", tid );
            reg_alias(( uint64_t( cds::OS::get_current_thread_id()) << 1 ) | 1, nm );
        }
    }
    void thread_end( int ) { set_quiet( true ); cds::threading::Manager::detachThread(); set_quiet( false ); }
    std::vector<long> exec( int, Op const& op ) { return map_exec( *m, op ); }
    void finish( std::ostream& out ) { if ( info ) out << "# " << info() << '\n'; }
};

int main( int argc, char** argv )
{
    cds::Initialize();
    {
        cds::gc::HP hp( 16, 16 );       // the containers need no GC; the thread manager does
        cds::threading::Manager::attachThread();
        int rc = client_main<Fixture>( argc, argv );
        cds::threading::Manager::detachThread();
        (void) rc;
    }
    cds::Terminate();
    return 0;
}

/-
  Lemmas for the split-list development that do not depend on the invariant: the lexicographic key order, the
  split-order hypotheses (`SOHyp`: the facts proved about the translated C++ functions in `Props/C27.lean`, in the form
  needed here), and the arithmetic of `parent_bucket`.  Pointer chains and the sequential map specification seen
  through lookup predicates are those of the MichaelList development (`Algo/Michael/Lemmas.lean`).
-/
import CdsVerif.Algo.SplitList.Model
import CdsVerif.Algo.Michael.Lemmas
namespace CdsVerif.Algo.SplitList
open CdsVerif.Machine CdsVerif.Spec CdsVerif.Lin

/-! ### The key order on nodes -/

/-- Node `a` sorts strictly before node `b`. -/
def KLt (so : Nat → Nat) (uk : Nat → Int) (a b : Nat) : Prop := klt (so a) (uk a) (so b) (uk b)

theorem KLt.trans {so : Nat → Nat} {uk : Nat → Int} (a b c : Nat) (h1 : KLt so uk a b) (h2 : KLt so uk b c) :
    KLt so uk a c := by
  unfold KLt klt at *; omega

theorem KLt.irrefl {so : Nat → Nat} {uk : Nat → Int} (a : Nat) : ¬ KLt so uk a a := by
  unfold KLt klt; omega

theorem sorted_nodup {so : Nat → Nat} {uk : Nat → Int} {L : List Nat} (h : L.Pairwise (KLt so uk)) : L.Nodup :=
  List.Pairwise.imp (S := fun a b => a ≠ b)
    (fun {a b} hab (e : a = b) => KLt.irrefl a (by rw [← e] at hab; exact hab)) h

/-- Two nodes of a sorted list with the same key are the same node. -/
theorem sorted_inj {so : Nat → Nat} {uk : Nat → Int} : ∀ {L : List Nat}, L.Pairwise (KLt so uk) → ∀ a b, a ∈ L → b ∈ L →
    so a = so b → uk a = uk b → a = b
  | [], _, _, _, ha, _, _, _ => by simp at ha
  | c :: L, h, a, b, ha, hb, hs, hu => by
    have h' := List.pairwise_cons.mp h
    rcases List.mem_cons.mp ha with e1 | m1 <;> rcases List.mem_cons.mp hb with e2 | m2
    · rw [e1, e2]
    · subst e1
      have := h'.1 b m2
      unfold KLt klt at this; omega
    · subst e2
      have := h'.1 a m1
      unfold KLt klt at this; omega
    · exact sorted_inj h'.2 a b m1 m2 hs hu

/-! ### Split-order hypotheses -/

/-- `b` is the bucket of hash `h` for some table size `2^j`, `j ≤ maxLog`. -/
def Pre (c : Cfg) (h b : Nat) : Prop := ∃ j, j ≤ c.maxLog ∧ b = h % 2 ^ j

/-- What the proof uses about the split-order key functions (cf. `Props/C27.lean`):
    `C27_regular_odd_*`, `C27_dummy_even_*` (parity: an item never compares equal to a dummy node);
    `C27_dummy_before_regular_*` (the dummy of a key's bucket sorts before the key, for every table size);
    `C27_parent_dummy_before_*` with `C27_parent_bucket` (the parent's dummy sorts before the bucket's dummy);
    the dummy key of bucket 0 is 0; the capacity fits the word (`capacity ≤ 2^maxLog`), which has room for the
    initial two buckets. -/
structure SOHyp (c : Cfg) : Prop where
  regOdd : ∀ h, c.reg h % 2 = 1
  dumEven : ∀ b, c.dum b % 2 = 0
  dum0 : c.dum 0 = 0
  dumReg : ∀ h b, Pre c h b → c.dum b < c.reg h
  parDum : ∀ h b, Pre c h b → 0 < b → c.dum (parent b) < c.dum b
  capLog : c.cap ≤ 2 ^ c.maxLog
  log1 : 1 ≤ c.maxLog

theorem parent_eq_mod (b : Nat) (hb : 0 < b) : parent b = b % 2 ^ Nat.log2 b := by
  unfold parent
  generalize hl : Nat.log2 b = l
  have h1 : 2 ^ l ≤ b := by rw [← hl]; exact Nat.log2_self_le (by omega)
  have h2 : b < 2 ^ (l + 1) := by rw [← hl]; exact Nat.lt_log2_self
  rw [Nat.pow_succ] at h2
  have h4 : b - 2 ^ l < 2 ^ l := by omega
  have h5 : b % 2 ^ l = (b - 2 ^ l) % 2 ^ l := Nat.mod_eq_sub_mod h1
  rw [h5, Nat.mod_eq_of_lt h4]

/-- The parent of a bucket of `h` is a bucket of `h` (for a smaller table). -/
theorem pre_parent {c : Cfg} {h b : Nat} (hp : Pre c h b) (hb : 0 < b) : Pre c h (parent b) := by
  obtain ⟨j, hj, rfl⟩ := hp
  have hlt : h % 2 ^ j < 2 ^ j := Nat.mod_lt _ (Nat.two_pow_pos j)
  have hl : Nat.log2 (h % 2 ^ j) < j := by
    apply Classical.byContradiction
    intro hn
    have h1 : 2 ^ Nat.log2 (h % 2 ^ j) ≤ h % 2 ^ j := Nat.log2_self_le (by omega)
    have h2 : 2 ^ j ≤ 2 ^ Nat.log2 (h % 2 ^ j) := Nat.pow_le_pow_right (by omega) (by omega)
    omega
  refine ⟨Nat.log2 (h % 2 ^ j), by omega, ?_⟩
  rw [parent_eq_mod _ hb]
  exact Nat.mod_mod_of_dvd h (Nat.pow_dvd_pow 2 (by omega))

theorem pre_mod {c : Cfg} {h k : Nat} (hk : k ≤ c.maxLog) : Pre c h (h % 2 ^ k) := ⟨k, hk, rfl⟩

/-- `2^sz < capacity ≤ 2^maxLog` leaves room for one more doubling. -/
theorem grow_bound {c : Cfg} (hc : SOHyp c) {sz : Nat} (h : 2 ^ sz < c.cap) : sz + 1 ≤ c.maxLog := by
  have h1 := hc.capLog
  apply Classical.byContradiction
  intro hn
  have : 2 ^ c.maxLog ≤ 2 ^ sz := Nat.pow_le_pow_right (by omega) (by omega)
  omega

end CdsVerif.Algo.SplitList

/-
  Preservation of the split-list invariant, and the effect on the abstract map, by the steps that write list nodes:
  the helping CAS of `search`, `link_node` (store, CAS, store) and `unlink_node` (marking CAS, unlink CAS).
-/
import CdsVerif.Algo.SplitList.Mono
namespace CdsVerif.Algo.SplitList
open CdsVerif.Machine CdsVerif.Spec CdsVerif.Lin
open CdsVerif.Algo.Michael (LPok isRO)

theorem has_mark_same {mark : Nat → Bool} {uk val : Nat → Int} {L : List Nat} {n : Nat} (hn : n ∉ L) (k v : Int) :
    Has (upd mark n false) uk val L k v ↔ Has mark uk val L k v := by
  unfold Has
  constructor
  · rintro ⟨a, ha, h0, h1, h2⟩
    exact ⟨a, ha, h0, by rwa [upd_other _ _ _ _ (fun (e : a = n) => hn (e ▸ ha))] at h1, h2⟩
  · rintro ⟨a, ha, h0, h1, h2⟩
    exact ⟨a, ha, h0, by rwa [upd_other _ _ _ _ (fun (e : a = n) => hn (e ▸ ha))], h2⟩

set_option maxHeartbeats 4000000 in
theorem sinvl_step_iSt {c : Cfg} {s s' : St} {t : Tid} {ev : Ev} {L : List Nat} {w : OpK} {d prev : Nat} {cur : Option Nat}
    (h : SInvL c s L) (hpc : s.pc t = .iSt w d prev cur) (hs : step c s t = some (s', ev)) :
    ∃ L', SInvL c s' L' ∧ StepEff c s t s' L L' := by
  have ht := h.thr t; rw [hpc] at ht
  simp only [step, hpc] at hs
  split at hs
  next => simp at hs
  next n hw =>
    have hown := wnode_own hw (s.pc t) (by simp [hpc, pcTop]) (by simp [hpc, pcDum])
    have hn : Alloc (mem! s) n ∧ n ∉ L ∧ s.mark n = false := by
      rcases wnode_refs hw with e | e
      · have := ht.item n (by simp [pcTop, e]); exact ⟨this.2.1, this.2.2.1, this.2.2.2⟩
      · have := ht.dumPriv n (by simp [pcDum, e]); exact ⟨this.2.1, this.2.2, h.g.dmark n this.1⟩
    have hhas := has_mark_same (mark := s.mark) (uk := s.uk) (val := s.val) hn.2.1
    simp only [Option.some.injEq, Prod.mk.injEq] at hs; obtain ⟨rfl, -⟩ := hs
    refine ⟨L, ⟨h.g.upd_priv cur hn.2.1 hn.2.2 hn.1,
      forall_upd (P := TOk c _ L) (fun t2 ht2 => (h.thr t2).upd_priv cur hn.2.1 hn.2.2 (h.other_ne ht2 hown)) ?tok,
      h.own.upd t _ ?oi ?od ?oe⟩, ?eff⟩
    case tok =>
      obtain ⟨h1, h2, h3, h4, h5, h6, h7, h8, h9, h10, h11, h12, h13, h14, h15, h16, h17, h18, h19⟩ := ht
      tok_close
    case oi => own_close
    case od => own_close
    case oe => own_close
    case eff => eff_close

set_option maxHeartbeats 4000000 in
theorem sinvl_step_iClr {c : Cfg} {s s' : St} {t : Tid} {ev : Ev} {L : List Nat} {w : OpK} {d : Nat}
    (h : SInvL c s L) (hpc : s.pc t = .iClr w d) (hs : step c s t = some (s', ev)) :
    ∃ L', SInvL c s' L' ∧ StepEff c s t s' L L' := by
  have ht := h.thr t; rw [hpc] at ht
  simp only [step, hpc] at hs
  split at hs
  next => simp at hs
  next n hw =>
    have hown := wnode_own hw (s.pc t) (by simp [hpc, pcTop]) (by simp [hpc, pcDum])
    have hn : Alloc (mem! s) n ∧ n ∉ L ∧ s.mark n = false := by
      rcases wnode_refs hw with e | e
      · have := ht.item n (by simp [pcTop, e]); exact ⟨this.2.1, this.2.2.1, this.2.2.2⟩
      · have := ht.dumPriv n (by simp [pcDum, e]); exact ⟨this.2.1, this.2.2, h.g.dmark n this.1⟩
    have hhas := has_mark_same (mark := s.mark) (uk := s.uk) (val := s.val) hn.2.1
    simp only [Option.some.injEq, Prod.mk.injEq] at hs; obtain ⟨rfl, -⟩ := hs
    refine ⟨L, ⟨h.g.upd_priv none hn.2.1 hn.2.2 hn.1,
      forall_upd (P := TOk c _ L) (fun t2 ht2 => (h.thr t2).upd_priv none hn.2.1 hn.2.2 (h.other_ne ht2 hown)) ?tok,
      h.own.upd t _ ?oi ?od ?oe⟩, ?eff⟩
    case tok =>
      obtain ⟨h1, h2, h3, h4, h5, h6, h7, h8, h9, h10, h11, h12, h13, h14, h15, h16, h17, h18, h19⟩ := ht
      tok_close
    case oi => own_close
    case od => own_close
    case oe => own_close
    case eff => eff_close

set_option maxHeartbeats 8000000 in
theorem sinvl_step_eMark {c : Cfg} {s s' : St} {t : Tid} {ev : Ev} {L : List Nat} {k : Int} {d prev cur : Nat}
    {nx : Option Nat}
    (hc : SOHyp c) (h : SInvL c s L) (hpc : s.pc t = .eMark k d prev cur nx) (hs : step c s t = some (s', ev)) :
    ∃ L', SInvL c s' L' ∧ StepEff c s t s' L L' := by
  have ht := h.thr t; rw [hpc] at ht
  have hcur := ht.lkCur cur (by simp [pcCur])
  have hkeq := ht.keyEq cur k (by simp [pcEq])
  dsimp only at hcur hkeq
  have hodd : cur % 2 = 1 := h.g.odd_of_so (h.g.lk_alloc hcur) (by dsimp only; rw [hkeq.1]; exact hc.regOdd _)
  have hfrE : ∀ t2 k2 p2 x2, s.pc t2 = .eUnl k2 p2 cur x2 → s.mark cur = true := fun t2 k2 p2 x2 e =>
    ((h.thr t2).frozen cur x2 (by simp [e, pcFrozen])).2
  simp only [step, hpc] at hs
  split at hs
  next heq =>
    simp only [Option.some.injEq, Prod.mk.injEq] at hs; obtain ⟨rfl, -⟩ := hs
    have hcL : cur ∈ L := by rcases hcur with h1 | h1; exact h1; rw [heq.2] at h1; simp at h1
    have hnoe : ∀ t2 k2 p2 x2, s.pc t2 ≠ .eUnl k2 p2 cur x2 := fun t2 k2 p2 x2 e => by
      have := hfrE t2 k2 p2 x2 e; rw [heq.2] at this; simp at this
    have hlpok : LPok (Has s.mark s.uk s.val L) ⟨"erase", [k]⟩ [1, s.val cur] (Has (upd s.mark cur true) s.uk s.val L) := by
      refine Michael.LPok.era_ok (v := s.val cur) ⟨cur, hcL, hodd, heq.2, hkeq.2, rfl⟩ ?_
      intro j w; have := h.g.has_mark hcL hodd j w; dsimp only at this; rw [this, hkeq.2]
    refine ⟨L, ⟨h.g.markit hcL hodd, forall_upd (P := TOk c _ L) (fun t2 _ => (h.thr t2).markit hcL) ?tok,
      h.own.upd t _ ?oi ?od ?oe⟩, ?eff⟩
    case tok =>
      have hnm := fun b => h.g.next_mem (a := cur) (b := b) hcL
      obtain ⟨h1, h2, h3, h4, h5, h6, h7, h8, h9, h10, h11, h12, h13, h14, h15, h16, h17, h18, h19⟩ := ht
      tok_close
    case oi => own_close
    case od => own_close
    case oe => own_close
    case eff => eff_close
  next hne =>
    simp only [Option.some.injEq, Prod.mk.injEq] at hs; obtain ⟨rfl, -⟩ := hs
    refine ⟨L, ⟨h.g, forall_upd (P := TOk c (mem! s) L) (fun t2 _ => h.thr t2) ?tok, h.own.upd t _ ?oi ?od ?oe⟩, ?eff⟩
    case tok => obtain ⟨h1, h2, h3, h4, h5, h6, h7, h8, h9, h10, h11, h12, h13, h14, h15, h16, h17, h18, h19⟩ := ht; tok_close
    case oi => own_close
    case od => own_close
    case oe => own_close
    case eff => eff_close

set_option maxHeartbeats 8000000 in
theorem sinvl_step_iCas {c : Cfg} {s s' : St} {t : Tid} {ev : Ev} {L : List Nat} {w : OpK} {d prev : Nat}
    {cur : Option Nat}
    (h : SInvL c s L) (hpc : s.pc t = .iCas w d prev cur) (hs : step c s t = some (s', ev)) :
    ∃ L', SInvL c s' L' ∧ StepEff c s t s' L L' := by
  have ht := h.thr t; rw [hpc] at ht
  have hprev := ht.lkPrev prev (by simp [pcPrev])
  have hkprev := ht.keyPrev prev (by simp [pcPrev])
  have hkgt := ht.keyGt
  simp only [pcGtCur, skeyS, skeyU] at hkprev hkgt
  dsimp only at hprev hkprev hkgt
  simp only [step, hpc] at hs
  split at hs
  next => simp at hs
  next n hw =>
    have hown := wnode_own hw (s.pc t) (by simp [hpc, pcTop]) (by simp [hpc, pcDum])
    have hnn := ht.icas w d prev cur n rfl hw
    dsimp only at hnn
    have hn : Alloc (mem! s) n ∧ n ∉ L ∧ s.mark n = false := by
      rcases wnode_refs hw with e | e
      · have := ht.item n (by simp [pcTop, e]); exact ⟨this.2.1, this.2.2.1, this.2.2.2⟩
      · have := ht.dumPriv n (by simp [pcDum, e]); exact ⟨this.2.1, this.2.2, h.g.dmark n this.1⟩
    have hkn : okeyS c s.so w = s.so n ∧ okeyU s.uk w = s.uk n := by
      cases w with
      | top o => cases o <;> simp_all [wnode, okeyS, okeyU]
      | dum m o stk => simp_all [wnode, okeyS, okeyU]
    rw [hkn.1, hkn.2] at hkprev hkgt
    split at hs
    next heq =>
      simp only [Option.some.injEq, Prod.mk.injEq] at hs; obtain ⟨rfl, -⟩ := hs
      have hpL : prev ∈ L := by rcases hprev with h1 | h1; exact h1; rw [heq.2] at h1; simp at h1
      have hpn : KLt s.so s.uk prev n := hkprev
      have hnc : ∀ x, s.next prev = some x → KLt s.so s.uk n x := fun x hx => hkgt x (by rw [← heq.1, hx])
      have hmem : ∀ a, a ∈ Michael.insAfter prev n L ↔ (a ∈ L ∨ a = n) := fun a => Michael.mem_insAfter hpL
      have hhas := has_insert (mark := s.mark) (uk := s.uk) (val := s.val) (n := n) hpL hn.2.2
      refine ⟨Michael.insAfter prev n L,
        ⟨h.g.link hpL hn.2.1 hn.1 hn.2.2 (hnn.trans heq.1.symm) hpn hnc,
         forall_upd (P := TOk c _ _) (fun t2 ht2 => (h.thr t2).link hpL heq.2 (h.other_ne ht2 hown)) ?tok,
         h.own.upd t _ ?oi ?od ?oe⟩, ?eff⟩
      case tok =>
        obtain ⟨h1, h2, h3, h4, h5, h6, h7, h8, h9, h10, h11, h12, h13, h14, h15, h16, h17, h18, h19⟩ := ht
        cases w with
        | top o => cases o <;> tok_closeX
        | dum m o stk => cases stk <;> tok_closeX
      case oi => cases w with
        | top o => cases o <;> own_close
        | dum m o stk => own_close
      case od => cases w with
        | top o => cases o <;> own_close
        | dum m o stk => own_close
      case oe => cases w with
        | top o => cases o <;> own_close
        | dum m o stk => own_close
      case eff =>
        cases w with
        | top o =>
          cases o with
          | ins n0 =>
            have e : n0 = n := by simpa [wnode] using hw
            subst e
            have hodd := (ht.item n0 (by simp [pcTop, wtop])).1
            have hrs := h.g.regso n0 hodd hn.1
            dsimp only at hrs
            have hlpok : LPok (Has s.mark s.uk s.val L) ⟨"insert", [s.uk n0, s.val n0]⟩ [1]
                (Has s.mark s.uk s.val (Michael.insAfter prev n0 L)) := by
              refine Michael.LPok.ins_ok (h.g.absent hpL (by rw [← hrs]; exact hkprev) ?_) (fun j w => ?_)
              · intro x hx; rw [← hrs]; exact hnc x hx
              · rw [hhas j w]; simp [hodd]
            eff_closeX
          | era k => simp [wnode] at hw
          | fnd k => simp [wnode] at hw
          | con k => simp [wnode] at hw
        | dum m o stk =>
          have e : m = n := by simpa [wnode] using hw
          subst e
          have heven := (ht.dumPriv m (by simp [pcDum, wdum])).1
          have hsame : ∀ j w, Has s.mark s.uk s.val (Michael.insAfter prev m L) j w ↔ Has s.mark s.uk s.val L j w := by
            intro j w; rw [hhas j w]
            constructor
            · rintro (h1 | h1)
              · exact h1
              · omega
            · exact Or.inl
          eff_closeX
    next hne =>
      simp only [Option.some.injEq, Prod.mk.injEq] at hs; obtain ⟨rfl, -⟩ := hs
      refine ⟨L, ⟨h.g, forall_upd (P := TOk c (mem! s) L) (fun t2 _ => h.thr t2) ?tok, h.own.upd t _ ?oi ?od ?oe⟩, ?eff⟩
      case tok => obtain ⟨h1, h2, h3, h4, h5, h6, h7, h8, h9, h10, h11, h12, h13, h14, h15, h16, h17, h18, h19⟩ := ht; tok_close
      case oi => own_close
      case od => own_close
      case oe => own_close
      case eff => eff_close

set_option maxHeartbeats 16000000 in
theorem sinvl_step_sHelp {c : Cfg} {s s' : St} {t : Tid} {ev : Ev} {L : List Nat} {w : OpK} {d prev cur : Nat}
    {nx : Option Nat}
    (h : SInvL c s L) (hpc : s.pc t = .sHelp w d prev cur nx) (hs : step c s t = some (s', ev)) :
    ∃ L', SInvL c s' L' ∧ StepEff c s t s' L L' := by
  have ht := h.thr t; rw [hpc] at ht
  have hprev := ht.lkPrev prev (by simp [pcPrev])
  have hkprev := ht.keyPrev prev (by simp [pcPrev])
  have hfrz := ht.frozen cur nx (by simp [pcFrozen])
  simp only [skeyS, skeyU] at hkprev
  dsimp only at hprev hkprev hfrz
  have hnd := h.g.nodup
  simp only [step, hpc] at hs
  split at hs
  next heq =>
    simp only [Option.some.injEq, Prod.mk.injEq] at hs; obtain ⟨rfl, -⟩ := hs
    have hpL : prev ∈ L := by rcases hprev with h1 | h1; exact h1; rw [heq.2] at h1; simp at h1
    have hcL : cur ∈ L := h.g.next_mem hpL heq.1
    have hmem : ∀ a, a ∈ L.erase cur ↔ (a ≠ cur ∧ a ∈ L) := fun a => List.Nodup.mem_erase_iff hnd
    have hhas := has_erase (uk := s.uk) (val := s.val) hnd hfrz.2
    have g' := h.g.unlink hpL heq.2 heq.1 hfrz.2
    dsimp only at g'; rw [hfrz.1] at g'
    have thr' : ∀ t2, t2 ≠ t → TOk c ⟨upd s.next prev nx, s.mark, s.so, s.uk, s.val, s.cnt, s.acnt⟩ (L.erase cur) (s.pc t2) := by
      intro t2 _
      have := (h.thr t2).unlink h.g hpL heq.2 hfrz.2
      dsimp only at this; rw [hfrz.1] at this; exact this
    have ht' : TOk c ⟨upd s.next prev nx, s.mark, s.so, s.uk, s.val, s.cnt, s.acnt⟩ (L.erase cur) (.sHelp w d prev cur nx) := by
      have := ht.unlink h.g hpL heq.2 hfrz.2
      dsimp only at this; rw [hfrz.1] at this; exact this
    have hpm : prev ≠ cur := fun e => by rw [e, hfrz.2] at heq; simp at heq
    refine ⟨L.erase cur, ⟨g', forall_upd (P := TOk c _ _) thr' ?tok, h.own.upd t _ ?oi ?od ?oe⟩, ?eff⟩
    case tok =>
      obtain ⟨h1, h2, h3, h4, h5, h6, h7, h8, h9, h10, h11, h12, h13, h14, h15, h16, h17, h18, h19⟩ := ht'
      cases w with
      | top o => cases o <;> cases nx <;> tok_closeX
      | dum m o stk => cases nx <;> tok_closeX
    case oi => cases w with
      | top o => cases o <;> cases nx <;> own_close
      | dum m o stk => cases nx <;> own_close
    case od => cases w with
      | top o => cases o <;> cases nx <;> own_close
      | dum m o stk => cases nx <;> own_close
    case oe => cases w with
      | top o => cases o <;> cases nx <;> own_close
      | dum m o stk => cases nx <;> own_close
    case eff =>
      cases w with
      | top o =>
        cases nx with
        | none =>
          have habs' : ∀ r, absentRet o = some r →
              LPok (Has s.mark s.uk s.val L) (gop s.uk s.val o) r (Has s.mark s.uk s.val (L.erase cur)) := fun r hr =>
            LPok.congr_left (fun k v => (hhas k v).symm)
              (g'.lp_absent (p := prev) (o := o) (r := r) ((hmem prev).mpr ⟨hpm, hpL⟩) hkprev
                (by intro x hx; simp [upd] at hx) hr)
          cases o <;> eff_closeX
        | some x => cases o <;> eff_closeX
      | dum m o stk => cases nx <;> eff_closeX
  next hne =>
    simp only [Option.some.injEq, Prod.mk.injEq] at hs; obtain ⟨rfl, -⟩ := hs
    refine ⟨L, ⟨h.g, forall_upd (P := TOk c (mem! s) L) (fun t2 _ => h.thr t2) ?tok, h.own.upd t _ ?oi ?od ?oe⟩, ?eff⟩
    case tok => obtain ⟨h1, h2, h3, h4, h5, h6, h7, h8, h9, h10, h11, h12, h13, h14, h15, h16, h17, h18, h19⟩ := ht; tok_close
    case oi => own_close
    case od => own_close
    case oe => own_close
    case eff => eff_close

set_option maxHeartbeats 8000000 in
theorem sinvl_step_eUnl {c : Cfg} {s s' : St} {t : Tid} {ev : Ev} {L : List Nat} {k : Int} {prev cur : Nat}
    {nx : Option Nat}
    (h : SInvL c s L) (hpc : s.pc t = .eUnl k prev cur nx) (hs : step c s t = some (s', ev)) :
    ∃ L', SInvL c s' L' ∧ StepEff c s t s' L L' := by
  have ht := h.thr t; rw [hpc] at ht
  have hprev := ht.lkPrev prev (by simp [pcPrev])
  have hfrz := ht.frozen cur nx (by simp [pcFrozen])
  dsimp only at hprev hfrz
  have hnd := h.g.nodup
  simp only [step, hpc] at hs
  split at hs
  next heq =>
    simp only [Option.some.injEq, Prod.mk.injEq] at hs; obtain ⟨rfl, -⟩ := hs
    have hpL : prev ∈ L := by rcases hprev with h1 | h1; exact h1; rw [heq.2] at h1; simp at h1
    have hcL : cur ∈ L := h.g.next_mem hpL heq.1
    have hmem : ∀ a, a ∈ L.erase cur ↔ (a ≠ cur ∧ a ∈ L) := fun a => List.Nodup.mem_erase_iff hnd
    have hhas := has_erase (uk := s.uk) (val := s.val) hnd hfrz.2
    have g' := h.g.unlink hpL heq.2 heq.1 hfrz.2
    dsimp only at g'; rw [hfrz.1] at g'
    have thr' : ∀ t2, t2 ≠ t → TOk c ⟨upd s.next prev nx, s.mark, s.so, s.uk, s.val, s.cnt, s.acnt⟩ (L.erase cur) (s.pc t2) := by
      intro t2 _
      have := (h.thr t2).unlink h.g hpL heq.2 hfrz.2
      dsimp only at this; rw [hfrz.1] at this; exact this
    refine ⟨L.erase cur, ⟨g', forall_upd (P := TOk c _ _) thr' ?tok, h.own.upd t _ ?oi ?od ?oe⟩, ?eff⟩
    case tok => tok_close
    case oi => own_close
    case od => own_close
    case oe => own_close
    case eff => eff_close
  next hne =>
    simp only [Option.some.injEq, Prod.mk.injEq] at hs; obtain ⟨rfl, -⟩ := hs
    refine ⟨L, ⟨h.g, forall_upd (P := TOk c (mem! s) L) (fun t2 _ => h.thr t2) ?tok, h.own.upd t _ ?oi ?od ?oe⟩, ?eff⟩
    case tok => tok_close
    case oi => own_close
    case od => own_close
    case oe => own_close
    case eff => eff_close

end CdsVerif.Algo.SplitList

/-
  MSPriorityQueue machine, layer 4 of the invariant: HEAP ORDER during concurrent operation.

  There is a ghost priority `g i` for every node such that
    g1   g is ordered along every edge of the occupied part of the tree:  g i ≤ g (i/2);
    g2   an Available node that is not being sifted down carries its real priority:  g i = prio (val i);
    g3   a node tagged with an owner id (an inserted item still on its way up) may carry MORE than g:  g i ≤ prio (val i);
    g4   the node holding the item a pop is sifting down may carry LESS than g:  prio (val i) ≤ g i.
  So the heap order can be violated only at an edge whose child is tagged with an owner id, or whose parent is the
  node a pop is sifting (Hunt, Michael, Parthasarathy, Scott, section 3).  `g` is not a field of the machine: the
  invariant is `∃ g, GOk c s g`, every step says how `g` changes.
-/
import CdsVerif.Algo.MSPQ.ShapeStep
namespace CdsVerif.Algo.MSPQ
open CdsVerif.Machine CdsVerif.Spec

def kSift : K → Option Nat
  | .dChild par _ _ => some par
  | .dRight par _ _ => some par
  | _ => none

/-- The node whose item a pop is still sifting down (not yet compared with both children for the last time). -/
def sift : PC → Option Nat
  | .acq k => kSift k
  | .spin k => kSift k
  | .dUnlLeft par _ _ => some par
  | .dUnlRight par _ _ => some par
  | .dUnlSwap _ ch _ => some ch
  | _ => none

theorem sift_holds (p : PC) (j : Nat) (h : sift p = some j) : holds p j := by
  cases p with
  | acq k => cases k <;> simp_all [sift, kSift, holds, kHolds]
  | spin k => cases k <;> simp_all [sift, kSift, holds, kHolds]
  | _ => simp_all [sift, holds]

/-- The clauses about one thread. -/
structure GLoc (s : St) (g : Nat → Int) (t : Tid) : Prop where
  g4 : ∀ i v, sift (s.pc t) = some i → s.val i = some v → prio v ≤ g i
  sb1 : ∀ par ch pv vl vr, s.pc t = .dUnlLeft par ch pv → s.val ch = some vl → s.val (ch + 1) = some vr →
    prio vl < prio vr
  sb2 : ∀ par ch pv vl vr, s.pc t = .dUnlRight par ch pv → s.val ch = some vl → s.val (ch + 1) = some vr →
    prio vr ≤ prio vl

structure GOk (c : Cfg) (s : St) (g : Nat → Int) : Prop where
  g1 : ∀ i, 2 ≤ i → i ≤ c.cap → s.tag i ≠ .empty → g i ≤ g (i / 2)
  g2a : ∀ i v, 1 ≤ i → s.tag i = .avail → s.own i = none → s.val i = some v → g i = prio v
  g2b : ∀ i t v, 1 ≤ i → s.tag i = .avail → s.own i = some t → sift (s.pc t) ≠ some i → s.val i = some v →
    g i = prio v
  g3 : ∀ i t v, s.tag i = .own t → s.val i = some v → g i ≤ prio v
  loc : ∀ t, GLoc s g t

def GInv (c : Cfg) (s : St) : Prop := ∃ g, GOk c s g

theorem ginv_init (c : Cfg) : GInv c init := by
  refine ⟨fun _ => 0, ?_, ?_, ?_, ?_, fun t => ?_⟩
  · intros; simp_all [init]
  · intros; simp_all [init]
  · intros; simp_all [init]
  · intros; simp_all [init]
  · constructor <;> intros <;> simp_all [init, sift]

theorem gloc_frame {s s' : St} {g g' : Nat → Int} {t : Tid} (hpc : s'.pc t = s.pc t)
    (hval : ∀ j, holds (s.pc t) j → s'.val j = s.val j) (hg : ∀ j, holds (s.pc t) j → g' j = g j)
    (h : GLoc s g t) : GLoc s' g' t := by
  constructor
  · intro i v hi hv; rw [hpc] at hi
    have hh := sift_holds _ _ hi
    rw [hval i hh] at hv; rw [hg i hh]; exact h.g4 i v hi hv
  · intro par ch pv vl vr hp h1 h2; rw [hpc] at hp
    rw [hval ch (by simp [hp, holds])] at h1; rw [hval (ch + 1) (by simp [hp, holds])] at h2
    exact h.sb1 par ch pv vl vr hp h1 h2
  · intro par ch pv vl vr hp h1 h2; rw [hpc] at hp
    rw [hval ch (by simp [hp, holds])] at h1; rw [hval (ch + 1) (by simp [hp, holds])] at h2
    exact h.sb2 par ch pv vl vr hp h1 h2

/-- The other threads' clauses survive an action of `t` that changes `g` only at nodes nobody else holds. -/
theorem gloc_other {c : Cfg} {s s' : St} {g g' : Nat → Int} {t t' : Tid} (hl : LInv c s) (he : Effect s s' t)
    (hg : ∀ j, g' j ≠ g j → s.own j = some t ∨ s.own j = none) (ht : t' ≠ t)
    (h : GLoc s g t') : GLoc s' g' t' := by
  refine gloc_frame (he.pcs t' ht) ?_ ?_ h
  · intro j hj
    have ho := hl.ow2 j t' hj
    apply Classical.byContradiction; intro hne
    have := (he.node j (Or.inr hne)).2
    rw [ho] at this
    rcases this with h1 | h1
    · injection h1 with h1; exact ht h1
    · cases h1
  · intro j hj
    have ho := hl.ow2 j t' hj
    apply Classical.byContradiction; intro hne
    have := hg j hne
    rw [ho] at this
    rcases this with h1 | h1
    · injection h1 with h1; exact ht h1
    · cases h1

macro "ggrind" : tactic =>
  `(tactic| grind (splits := 16) (gen := 4)
      [upd, K.lock, St.setPc, rel, pushLoop, popLoop, sift, kSift])

macro "gfacts" h:ident : tactic =>
  `(tactic| (have := GOk.g1 $h; have := GOk.g2a $h; have := GOk.g2b $h; have := GOk.g3 $h))

open Lean in
macro "gg" h:ident x:ident : tactic => do
  let f := mkIdent (`CdsVerif.Algo.MSPQ.GOk ++ x.getId.eraseMacroScopes)
  `(tactic| first
    | (dsimp only [St.setPc, rel]; exact $f $h)
    | (intros; have := $f $h; (try dsimp only [St.setPc, rel] at *); ggrind)
    | (intros; have := GOk.g2a $h; have := GOk.g2b $h; have := GOk.g3 $h; (try dsimp only [St.setPc, rel] at *); ggrind)
    | (intros; gfacts $h; (try dsimp only [St.setPc, rel] at *); ggrind))

/-- `GOk` of the post-state for the ghost priorities `g'` (the goal must be `GOk c s' g'`). -/
macro "gok_all" hl:ident h:ident he:ident t:ident : tactic =>
  `(tactic| (refine ⟨?_, ?_, ?_, ?_, fun t' => ?_⟩
             · gg $h g1
             · gg $h g2a
             · gg $h g2b
             · gg $h g3
             · by_cases ht : t' = $t
               · subst ht
                 constructor <;> intros <;> (try dsimp only [St.setPc, rel] at *) <;>
                   first | ggrind | (gfacts $h; ggrind)
               · refine gloc_other $hl $he ?_ ht (GOk.loc $h t')
                 intros; (try dsimp only [St.setPc, rel] at *); ggrind))

set_option maxHeartbeats 2000000 in
theorem ginv_invoke {c : Cfg} {s s' : St} {t : Tid} {op : GOp}
    (hl : LInv c s) (hg : GInv c s) (hs : invoke c s t op = some s') : GInv c s' := by
  obtain ⟨g, h⟩ := hg
  have he := (invoke_effect hs).1
  have hmy : ∀ l, s.own l = some t → holds (s.pc t) l := fun l => hl.ow1 l t
  unfold invoke at hs
  split at hs
  · split at hs
    · rename_i hpc _ _; simp only [hpc, holds] at hmy; simp at hs; subst hs; refine ⟨g, ?_⟩; gok_all hl h he t
    · rename_i hpc _ _; simp only [hpc, holds] at hmy; simp at hs; subst hs; refine ⟨g, ?_⟩; gok_all hl h he t
    · simp at hs
  · simp at hs

set_option maxHeartbeats 2000000 in
theorem ginv_result {c : Cfg} {s s' : St} {t : Tid} {r : GRet}
    (hl : LInv c s) (hg : GInv c s) (hs : result c s t = some (s', r)) : GInv c s' := by
  obtain ⟨g, h⟩ := hg
  have he := (result_effect hs).1
  have hmy : ∀ l, s.own l = some t → holds (s.pc t) l := fun l => hl.ow1 l t
  unfold result at hs
  split at hs <;> simp at hs <;> obtain ⟨rfl, -⟩ := hs <;> rename_i hpc <;> simp only [hpc, holds] at hmy <;>
    refine ⟨g, ?_⟩ <;> gok_all hl h he t

end CdsVerif.Algo.MSPQ

/-
  Driver side of tie H: parse histories written by the harness and judge them
  with the verified checker `Lin.linCheck`.
-/
import CdsVerif.Base.Spec
namespace CdsVerif.Driver
open CdsVerif.Lin CdsVerif.Spec

def words (line : String) : List String :=
  (line.trimAscii.toString.splitOn " ").filter (· ≠ "")

def parseInts (ws : List String) : Option (List Int) :=
  ws.mapM (fun w => w.toInt?)

/-- `O <tid> <inv> <res> <name> <args…> : <rets…>` -/
def parseOp (ws : List String) : Option (OpRec GOp GRet) :=
  match ws with
  | "O" :: tid :: inv :: res :: name :: rest =>
    let args := rest.takeWhile (· ≠ ":")
    let rets := (rest.dropWhile (· ≠ ":")).drop 1
    do
      let tid ← tid.toNat?
      let inv ← inv.toNat?
      let res ← res.toNat?
      let args ← parseInts args
      let rets ← parseInts rets
      pure { tid := tid, op := ⟨name, args⟩, ret := rets, inv := inv, res := res }
  | _ => none

/-- Run the checker for the named specification. -/
def judge (spec : String) (params : List Nat) (ops : List (OpRec GOp GRet)) : Option Bool :=
  match spec, params with
  | "fifo", _ => some (linCheck fifo ops)
  | "bfifo", [cap] => some (linCheck (bfifo cap) ops)
  | "lifo", _ => some (linCheck lifo ops)
  | "deque", _ => some (linCheck deque ops)
  | "maxpq", [cap] => some (linCheck (maxpq cap) ops)
  | "maxpq", [] => some (linCheck (maxpq 0) ops)
  | "map", _ => some (linCheck map ops)
  | "mapc", _ => some (linCheck mapConc ops)
  | "mapr", _ => some (linCheck mapRelaxed ops)
  | "bag", _ => some (linCheck (bag []) ops)
  | "pool", kind :: cap :: initq => some (linCheck (pool kind cap (initq.map Int.ofNat)) ops)
  | "lock", [n] => some (linCheck (lockSpec false n) ops)
  | "rlock", [n] => some (linCheck (lockSpec true n) ops)
  | _, _ => none

structure LcState where
  caseId : String := ""
  spec : String := ""
  params : List Nat := []
  ops : List (OpRec GOp GRet) := []
  bad : Bool := false
  out : Array String := #[]

def lcLine (st : LcState) (line : String) : LcState :=
  match words line with
  | "CASE" :: id :: spec :: ps =>
    { st with caseId := id, spec := spec, params := ps.filterMap (·.toNat?), ops := [], bad := false }
  | "O" :: rest =>
    match parseOp ("O" :: rest) with
    | some o => { st with ops := o :: st.ops }
    | none => { st with bad := true }
  | "END" :: _ =>
    let ops := st.ops.reverse
    let verdict :=
      if st.bad then s!"BAD {st.caseId} unparsable-line"
      else if ops.any (fun o => o.res < o.inv) then s!"BAD {st.caseId} res-before-inv"
      else match judge st.spec st.params ops with
        | some true => s!"LIN {st.caseId} ops={ops.length}"
        | some false => s!"NOTLIN {st.caseId} ops={ops.length}"
        | none => s!"BAD {st.caseId} unknown-spec {st.spec}"
    { st with out := st.out.push verdict, ops := [] }
  | _ => st     -- other line kinds (trace, comments) are not for this command

end CdsVerif.Driver

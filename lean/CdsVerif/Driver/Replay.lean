/-
  Driver side of tie A (atomic-trace conformance): the Lean machine must accept, step by
  step, the sequence of atomic operations the real code performed, and produce the same
  results.  Lines of a case:
    T <tid> CALL <op> <args…>
    T <tid> A <kind> <loc> <a> [<b>]
    T <tid> RET <vals…>
  Events on locations outside the model's vocabulary are skipped (`relevant`).
-/
import CdsVerif.Base.Machine
import CdsVerif.Driver.LinCheck
namespace CdsVerif.Driver
open CdsVerif.Machine CdsVerif.Spec

structure RState (σ : Type) where
  st : σ
  steps : Nat := 0
  skipped : Nat := 0
  lineNo : Nat := 0
  verdict : Option String := none     -- first divergence

def parseEv (ws : List String) : Option Ev :=
  match ws with
  | ["fence"] => some ⟨"fence", "", "", ""⟩
  | [k, loc, a] => some ⟨k, loc, a, ""⟩
  | [k, loc, a, b] => some ⟨k, loc, a, b⟩
  | _ => none

def replayLine {σ : Type} (m : Model σ) (relevant : String → Bool) (invB : σ → Bool)
    (r : RState σ) (line : String) : RState σ :=
  let r := { r with lineNo := r.lineNo + 1 }
  if r.verdict.isSome then r else
  match words line with
  | "T" :: tid :: "CALL" :: name :: args =>
    match tid.toNat?, parseInts args with
    | some t, some as =>
      match m.invoke r.st t ⟨name, as⟩ with
      | some s' => { r with st := s' }
      | none => { r with verdict := some s!"line={r.lineNo} impl=CALL {name} {args} model=call-not-enabled" }
    | _, _ => { r with verdict := some s!"line={r.lineNo} unparsable" }
  | "T" :: tid :: "RET" :: vals =>
    match tid.toNat?, parseInts vals with
    | some t, some vs =>
      match m.result r.st t with
      | some (s', ret) =>
        if ret = vs then { r with st := s' }
        else { r with verdict := some s!"line={r.lineNo} impl=RET {vs} model=RET {ret}" }
      | none => { r with verdict := some s!"line={r.lineNo} impl=RET {vs} model=operation-not-finished" }
    | _, _ => { r with verdict := some s!"line={r.lineNo} unparsable" }
  | "T" :: tid :: "A" :: rest =>
    match tid.toNat?, parseEv rest with
    | some t, some ev =>
      if !(ev.kind == "fence") && !relevant ev.loc then { r with skipped := r.skipped + 1 }
      else match m.step r.st t with
        | some (s', mev) =>
          if mev = ev then
            if invB s' then { r with st := s', steps := r.steps + 1 }
            else { r with st := s', verdict := some s!"line={r.lineNo} INVARIANT violated after {ev}" }
          else { r with verdict := some s!"line={r.lineNo} impl=[{ev}] model=[{mev}]" }
        | none => { r with verdict := some s!"line={r.lineNo} impl=[{ev}] model=no-step-enabled" }
    | _, _ => { r with verdict := some s!"line={r.lineNo} unparsable" }
  | _ => r

end CdsVerif.Driver

#!/usr/bin/env python3
"""Writes MANIFEST.json from tools/manifest_data.py (kept as data so it is always valid)."""
import json, os, sys
HERE = os.path.dirname(os.path.abspath(__file__))
sys.path.insert(0, HERE)
import manifest_data as md

props = [json.loads(l) for l in open(os.path.join(HERE, "..", "properties.jsonl"))]
checks = []
na = []
for p in props:
    pid = p["id"]
    if pid in md.CHECKS:
        c = md.CHECKS[pid]
        checks.append({
            "property_id": pid,
            "quick_cmd": "./check %s --tier quick" % pid,
            "thorough_cmd": "./check %s --tier thorough" % pid,
            "evidence_file": "/verif/evidence/%s.json" % pid,
            "replay_cmd_template": "./check %s --replay {path}" % pid,
            "engine": "lean4+harness",
            "level_claimed": {"category": c["category"], "text": c["text"], "design_ref": c.get("design_ref", "DESIGN.md section 6, " + pid)},
            "level_note": c["note"],
            "technique": c["technique"],
        })
    else:
        na.append({"property_id": pid, "reason": md.NOT_APPLICABLE.get(pid, "check not built yet in this session; see DESIGN.md section 10 (order of work)")})
m = {
    "version": 1,
    "setup_cmd": "./check --setup",
    "hooks": {
        "guard": "KHIZMAX_LIBCDS_VERIF",
        "enable": "harness clients are compiled from /repo's working tree with -DKHIZMAX_LIBCDS_VERIF -I/verif/harness/include (instrumented atomics, back-off spin hints)",
        "baseline_off_cmd": "cmake --build /repo/_build -j16 && ctest --test-dir /repo/_build -j8 --timeout 900",
        "source_commits": md.HOOK_COMMITS,
        "add_only": True,
    },
    "engines": [{"name": "lean4+harness", "path": "/verif/check", "serves_properties": sorted(md.CHECKS.keys()),
                 "kind_free_text": "Lean 4 models and theorems (lake build + #print axioms audit) tied to the C++ by regenerated translation, differential evaluation, atomic-trace conformance and history conformance judged by a verified linearizability checker"}],
    "checks": checks,
    "not_applicable": na,
    "notes": md.NOTES,
}
json.dump(m, open(os.path.join(HERE, "..", "MANIFEST.json"), "w"), indent=1)
print("wrote MANIFEST.json:", len(checks), "checks,", len(na), "not claimed")

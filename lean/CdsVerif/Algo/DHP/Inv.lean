/-
  The inductive invariant of the dynamic-hazard-pointer machine (`Algo/DHP/Model.lean`), preserved by every enabled
  action of every thread - hence true in every reachable state, for every configuration (`init`, `B >= 1`, `T`, `RB`),
  every schedule and every client program.

  Conjuncts (names of the fields of `PInv`):
    (I0) `B_pos cnt_pos fresh_hi fresh_zero` - an extension block has at least one guard; objects at or above the
         counter, and the null address 0, are `fresh`;
    (I1) places (as in HP/ProtocolInv): `cell_live cell_inj flight_live flight_cell flight_inj ret_st log_st`;
    (I2) `ret_nodup ret_disj log_nodup`;
    (I3) guard storage: every slot that a Guard object is linked to (`hslot_rng`), that is on a free list (`flist_rng`)
         or that an operation in progress works on (`protLd_rng protSt_rng protChk_slot clearSt_rng gfree_rng`) lies in
         the initial array (block 0, index < init) or in an extension block that IS LINKED to the record's
         `extended_list_` (1 <= b <= nblk, index < B);
    (I4) a validated guard's slot still holds the pointer (`guard_slot`), it lies in a linked block (`guard_rng`), and
         - THE SAFETY PROPERTY - a guarded object is `live` or `retired` (`guard_ok`);
    (I5) a thread in the middle of a reclamation pass: if `guard u b i = some p` and `p` is in the pass's retired chain
         then `p` is already in its plist, or slot (u,b,i) is still AHEAD of the pass:
           while it reads the initial array of record su at index si (`scan_cov_ld`, sb = 0):
               su < u,  or  su = u and (b >= 1 - every extension block - or si <= i);
           when it is about to load `extended_list_` of record su (`scan_cov_ext`):  su < u, or su = u and b >= 1
               (`guard_rng`: b <= nblk su, so the load will see block b);
           while it reads extension block sb of record su at index si (`scan_cov_ld`, sb >= 1):
               su < u,  or  su = u and 1 <= b and (b < sb - an older block - or b = sb and si <= i);
           at the decision step (`scan_all`): p is in the plist.
         The step from "last slot of block sb" to "block sb - 1" is where the width of an extension block matters: the
         pass must have read index i for EVERY i < B (lemmas `pinv_scanLd_next_blk`, `pinv_scanLd_last`).
    (I6) a thread between its hazard store and its validating re-load claims nothing about its candidate
         (`protChk_slot`).  When the validation succeeds the candidate is in the cell at that step, hence `live`, hence
         in nobody's retired chain: this keeps (I5) true when a guard becomes validated after a pass has gone by its
         slot - in particular a guard in an extension block that was linked after the pass loaded `extended_list_`.
    bookkeeping: `scan_rng scanExt_rng deref_ok busy_rng`.

  The `Ahead` relations are kept OPAQUE for the steps of the other threads (`pinv_close`) and unfolded only for the steps
  of the pass itself (`pinv_close_scan`): with the disjunctions inlined `grind` does not terminate in useful time.

  `Algo/DHP/Facts.lean`: `obj_step` / `obj_apply` (life cycle only moves forward), `Quiet` (stable), facts about single
  steps, `PPlace` (no object is lost), `PAlias` (no two Guard objects share a slot; a free slot is nobody's), `aheadPC` /
  `ahead_run` (the slots a pass will still read) and `PRoom` (the retired chain always has room for the next push when
  RB >= 4).
-/
import CdsVerif.Algo.DHP.Model
import CdsVerif.Props.C01
import CdsVerif.Props.C03
namespace CdsVerif.Algo.DHP
set_option maxHeartbeats 1000000
open CdsVerif.Machine CdsVerif.Spec CdsVerif.Algo.HP

structure Decision (acc rl kept freed : List Ptr) : Prop where
  kept_sub : ∀ p, p ∈ kept → p ∈ rl
  freed_sub : ∀ p, p ∈ freed → p ∈ rl
  split : ∀ p, p ∈ rl → p ∈ kept ∨ p ∈ freed
  disj : ∀ p, p ∈ kept → p ∉ freed
  kept_nodup : kept.Nodup
  freed_nodup : freed.Nodup
  safe : ∀ p, p ∈ freed → p ≠ 0 → p ∉ acc
  live : ∀ p, p ∈ rl → p ∉ acc → p ∈ freed

theorem decision (acc rl : List Ptr) (hnd : rl.Nodup) :
    Decision acc rl (classicScan acc rl).1 (classicScan acc rl).2 := by
  have hperm := CdsVerif.Props.C03.C03_classic_scan_partition acc rl
  have hnd2 : ((classicScan acc rl).1 ++ (classicScan acc rl).2).Nodup := hperm.nodup_iff.mpr hnd
  rw [List.nodup_append] at hnd2
  constructor
  · intro p hp; exact hperm.mem_iff.mp (List.mem_append_left _ hp)
  · intro p hp; exact hperm.mem_iff.mp (List.mem_append_right _ hp)
  · intro p hp; exact List.mem_append.mp (hperm.mem_iff.mpr hp)
  · intro p hk hf; exact hnd2.2.2 p hk p hf rfl
  · exact hnd2.1
  · exact hnd2.2.1
  · exact CdsVerif.Props.C01.C01_classic_scan_frees_no_hazard acc rl
  · intro p hp hn; exact CdsVerif.Props.C03.C03_classic_unprotected_freed acc rl p hp hn

/-- Slot (u,b,i) is still ahead of a pass that is about to load slot (su,sb,si): a later record; or the same record and
    - the pass is in the initial array (sb = 0): any extension block, or a later index of the initial array;
    - the pass is in extension block sb: an older extension block (b < sb), or a later index of the same block. -/
def AheadLd (su sb si u b i : Nat) : Prop :=
  su < u ∨ (su = u ∧ ((sb = 0 ∧ (1 ≤ b ∨ si ≤ i)) ∨ (1 ≤ sb ∧ 1 ≤ b ∧ (b < sb ∨ (b = sb ∧ si ≤ i)))))

/-- Slot (u,b,i) is still ahead of a pass that is about to load `extended_list_` of record su: a later record, or an
    extension block of the same record. -/
def AheadExt (su u b : Nat) : Prop := su < u ∨ (su = u ∧ 1 ≤ b)

structure PInv (cfg : Cfg) (s : St) : Prop where
  B_pos : 0 < cfg.B
  cnt_pos : 1 ≤ s.cnt
  fresh_hi : ∀ p, s.cnt ≤ p → s.obj p = .fresh
  fresh_zero : s.obj 0 = .fresh
  cell_live : ∀ c p, s.cells c = some p → s.obj p = .live
  cell_inj : ∀ c1 c2 p, s.cells c1 = some p → s.cells c2 = some p → c1 = c2
  flight_live : ∀ t p r, s.pc t = .swapRet p r → s.obj p = .live
  flight_cell : ∀ t p r c, s.pc t = .swapRet p r → s.cells c ≠ some p
  flight_inj : ∀ t1 t2 p r1 r2, s.pc t1 = .swapRet p r1 → s.pc t2 = .swapRet p r2 → t1 = t2
  ret_st : ∀ t p, p ∈ s.retired t → s.obj p = .retired
  ret_nodup : ∀ t, (s.retired t).Nodup
  ret_disj : ∀ t1 t2 p, p ∈ s.retired t1 → p ∈ s.retired t2 → t1 = t2
  log_st : ∀ p, p ∈ s.log ↔ s.obj p = .disposed
  log_nodup : s.log.Nodup
  guard_slot : ∀ u b i p, s.guard u b i = some p → s.slots u b i = some p
  guard_rng : ∀ u b i p, s.guard u b i = some p → u < cfg.T ∧ b ≤ s.nblk u ∧ i < bsize cfg b
  guard_ok : ∀ u b i p, s.guard u b i = some p → s.obj p = .live ∨ s.obj p = .retired
  scan_cov_ld : ∀ sc su sb si acc r u b i p, s.pc sc = .scanLd su sb si acc r →
      s.guard u b i = some p → p ∈ s.retired sc →
      p ∈ acc ∨ AheadLd su sb si u b i
  scan_cov_ext : ∀ sc su acc r u b i p, s.pc sc = .scanExt su acc r →
      s.guard u b i = some p → p ∈ s.retired sc → p ∈ acc ∨ AheadExt su u b
  scan_all : ∀ sc acc r u b i p, s.pc sc = .scanDecide acc r →
      s.guard u b i = some p → p ∈ s.retired sc → p ∈ acc
  scan_rng : ∀ t u b i acc r, s.pc t = .scanLd u b i acc r → u < cfg.T
  scanExt_rng : ∀ t u acc r, s.pc t = .scanExt u acc r → u < cfg.T
  deref_ok : ∀ t b i, s.pc t = .derefRd b i → ∃ p, s.guard t b i = some p
  busy_rng : ∀ t, s.pc t ≠ .idle → t < cfg.T
  hslot_rng : ∀ t h b i, s.hslot t h = some (b, i) → b ≤ s.nblk t ∧ i < bsize cfg b
  flist_rng : ∀ t b i, (b, i) ∈ s.flist t → b ≤ s.nblk t ∧ i < bsize cfg b
  protLd_rng : ∀ t b i c, s.pc t = .protLd b i c → b ≤ s.nblk t ∧ i < bsize cfg b
  protSt_rng : ∀ t b i c p, s.pc t = .protSt b i c p → b ≤ s.nblk t ∧ i < bsize cfg b
  protChk_slot : ∀ t b i c p, s.pc t = .protChk b i c p → b ≤ s.nblk t ∧ i < bsize cfg b ∧ s.slots t b i = p
  clearSt_rng : ∀ t b i, s.pc t = .clearSt b i → b ≤ s.nblk t ∧ i < bsize cfg b
  gfree_rng : ∀ t h b i, s.pc t = .gfreeSt h b i → b ≤ s.nblk t ∧ i < bsize cfg b

theorem mem_initList {n b i : Nat} : (b, i) ∈ initList n ↔ b = 0 ∧ i < n := by
  simp only [initList, List.mem_map, List.mem_range, Prod.mk.injEq]
  constructor
  · rintro ⟨a, ha, rfl, rfl⟩; exact ⟨rfl, ha⟩
  · rintro ⟨rfl, hi⟩; exact ⟨i, hi, rfl, rfl⟩

theorem mem_blockTail {k B b i : Nat} : (b, i) ∈ blockTail k B ↔ b = k ∧ 1 ≤ i ∧ i < B := by
  simp only [blockTail, List.mem_map, List.mem_range, Prod.mk.injEq]
  constructor
  · rintro ⟨a, ha, rfl, rfl⟩; exact ⟨rfl, by omega, by omega⟩
  · rintro ⟨rfl, h1, h2⟩; exact ⟨i - 1, by omega, rfl, by omega⟩

theorem pinv_init (cfg : Cfg) (hB : 0 < cfg.B) : PInv cfg (init cfg) := by
  constructor <;> simp [init, hB, mem_initList, bsize]
  intro b i hb hi; simp [hb, hi]

set_option hygiene false in
macro "pinv_open" h:ident : tactic =>
  `(tactic| obtain ⟨h1, h2, h3, h4, h5, h6, h7, h8, h9, h10, h11, h12, h13, h14, h15, h16, h17, h18, h19, h20,
                    h21, h22, h23, h24, h25, h26, h27, h28, h29, h30, h31⟩ := $h)

macro "pinv_close" : tactic =>
  `(tactic| (constructor <;> intros <;> (try dsimp only at *) <;> grind [upd, upd2, upd3, bsize]))

/-- for the steps of the pass itself: the `Ahead` relations are unfolded -/
macro "pinv_close_scan" : tactic =>
  `(tactic| (constructor <;> intros <;> (try dsimp only at *) <;> grind [upd, upd2, upd3, bsize, AheadLd, AheadExt]))

theorem pinv_galloc {cfg : Cfg} {s s' : St} {t : Tid} {ev : Ev} {h : Nat}
    (hI : PInv cfg s) (hpc : s.pc t = .gallocDo h) (hs : step cfg s t = some (s', ev)) : PInv cfg s' := by
  pinv_open hI
  simp only [step, stepW, hpc] at hs
  split at hs
  · next b i rest hfl =>
    simp at hs; obtain ⟨rfl, -⟩ := hs
    have hm : ∀ x y, (x, y) ∈ rest → (x, y) ∈ s.flist t := fun x y hxy => by rw [hfl]; exact List.mem_cons_of_mem _ hxy
    have hm0 : (b, i) ∈ s.flist t := by rw [hfl]; exact List.mem_cons_self
    pinv_close
  · next hfl =>
    simp at hs; obtain ⟨rfl, -⟩ := hs
    have hbt : ∀ x y, (x, y) ∈ blockTail (s.nblk t + 1) cfg.B → x = s.nblk t + 1 ∧ 1 ≤ y ∧ y < cfg.B :=
      fun x y hxy => mem_blockTail.mp hxy
    pinv_close

theorem pinv_gfree {cfg : Cfg} {s s' : St} {t : Tid} {ev : Ev} {h b i : Nat}
    (hI : PInv cfg s) (hpc : s.pc t = .gfreeSt h b i) (hs : step cfg s t = some (s', ev)) : PInv cfg s' := by
  pinv_open hI
  simp only [step, stepW, hpc] at hs
  simp at hs; obtain ⟨rfl, -⟩ := hs
  pinv_close

theorem pinv_protLd {cfg : Cfg} {s s' : St} {t : Tid} {ev : Ev} {b i c : Nat}
    (hI : PInv cfg s) (hpc : s.pc t = .protLd b i c) (hs : step cfg s t = some (s', ev)) : PInv cfg s' := by
  pinv_open hI
  simp only [step, stepW, hpc] at hs
  simp at hs; obtain ⟨rfl, -⟩ := hs
  pinv_close

theorem pinv_protSt {cfg : Cfg} {s s' : St} {t : Tid} {ev : Ev} {b i c : Nat} {p : Option Ptr}
    (hI : PInv cfg s) (hpc : s.pc t = .protSt b i c p) (hs : step cfg s t = some (s', ev)) : PInv cfg s' := by
  pinv_open hI
  simp only [step, stepW, hpc] at hs
  simp at hs; obtain ⟨rfl, -⟩ := hs
  pinv_close

theorem pinv_protChk {cfg : Cfg} {s s' : St} {t : Tid} {ev : Ev} {b i c : Nat} {p : Option Ptr}
    (hI : PInv cfg s) (hpc : s.pc t = .protChk b i c p) (hs : step cfg s t = some (s', ev)) : PInv cfg s' := by
  pinv_open hI
  simp only [step, stepW, hpc] at hs
  split at hs
  · simp at hs; obtain ⟨rfl, -⟩ := hs
    pinv_close
  · simp at hs; obtain ⟨rfl, -⟩ := hs
    pinv_close

theorem pinv_clearSt {cfg : Cfg} {s s' : St} {t : Tid} {ev : Ev} {b i : Nat}
    (hI : PInv cfg s) (hpc : s.pc t = .clearSt b i) (hs : step cfg s t = some (s', ev)) : PInv cfg s' := by
  pinv_open hI
  simp only [step, stepW, hpc] at hs
  simp at hs; obtain ⟨rfl, -⟩ := hs
  pinv_close

theorem pinv_swapX_alloc {cfg : Cfg} {s s' : St} {t : Tid} {ev : Ev} {c : Nat}
    (hI : PInv cfg s) (hpc : s.pc t = .swapX c true) (hs : step cfg s t = some (s', ev)) : PInv cfg s' := by
  pinv_open hI
  have hf := h3 s.cnt (Nat.le_refl _)
  simp only [step, stepW, hpc] at hs
  split at hs
  · simp at hs; obtain ⟨rfl, -⟩ := hs
    pinv_close
  · simp at hs; obtain ⟨rfl, -⟩ := hs
    pinv_close

theorem pinv_swapX_take {cfg : Cfg} {s s' : St} {t : Tid} {ev : Ev} {c : Nat}
    (hI : PInv cfg s) (hpc : s.pc t = .swapX c false) (hs : step cfg s t = some (s', ev)) : PInv cfg s' := by
  pinv_open hI
  simp only [step, stepW, hpc] at hs
  split at hs
  · simp at hs; obtain ⟨rfl, -⟩ := hs
    pinv_close
  · simp at hs; obtain ⟨rfl, -⟩ := hs
    pinv_close

theorem nodup_snoc {l : List Ptr} {p : Ptr} (h : l.Nodup) (hp : p ∉ l) : (l ++ [p]).Nodup := by
  rw [List.nodup_append]
  refine ⟨h, by simp, ?_⟩
  intro a ha b hb; simp at hb; subst hb; intro e; exact hp (e ▸ ha)

theorem upd_upd {α : Type} (f : Nat → α) (i : Nat) (v w : α) : upd (upd f i v) i w = upd f i w := by
  funext j; by_cases h : j = i <;> simp [upd, h]

/-- A pass (re)positions itself at the start of record `u`, every guarded retired object of the records before `u`
    being in its plist. -/
theorem pinv_to_rec {cfg : Cfg} {s : St} {t : Tid} {u : Nat} {acc : List Ptr} {r : GRet}
    (hI : PInv cfg s) (ht : t < cfg.T) (hnf : ∀ p r', s.pc t ≠ .swapRet p r')
    (cov : ∀ u' b i p, s.guard u' b i = some p → p ∈ s.retired t → p ∈ acc ∨ u ≤ u') :
    PInv cfg { s with pc := upd s.pc t (scanRec cfg u acc r) } := by
  pinv_open hI
  unfold scanRec
  split
  · split
    · pinv_close_scan
    · pinv_close_scan
  · pinv_close_scan

theorem pinv_swapRet_core {cfg : Cfg} {s : St} {t : Tid} {p : Ptr} {r : GRet}
    (hI : PInv cfg s) (hpc : s.pc t = .swapRet p r) :
    PInv cfg { s with retired := upd s.retired t (s.retired t ++ [p]), obj := upd s.obj p .retired,
                      pc := upd s.pc t (.done r) } := by
  pinv_open hI
  have hlive := h7 t p r hpc
  have hnr : ∀ u, p ∉ s.retired u := fun u hm => by have := h10 u p hm; simp_all
  have hnd := nodup_snoc (h11 t) (hnr t)
  pinv_close

theorem pinv_swapRet {cfg : Cfg} {s s' : St} {t : Tid} {ev : Ev} {p : Ptr} {r : GRet}
    (hI : PInv cfg s) (hpc : s.pc t = .swapRet p r) (hs : step cfg s t = some (s', ev)) : PInv cfg s' := by
  have hcore := pinv_swapRet_core hI hpc
  have ht := hI.busy_rng t (by simp [hpc])
  simp only [step, stepW, hpc] at hs
  simp at hs; obtain ⟨rfl, -⟩ := hs
  split
  · exact hcore
  · have := pinv_to_rec (u := 0) (acc := []) (r := r) hcore ht (by simp) (by intros; omega)
    simpa [upd_upd, scanStart] using this

theorem mem_collect {acc : List Ptr} {v : Option Ptr} {p : Ptr} :
    p ∈ collect acc v ↔ p ∈ acc ∨ v = some p := by
  cases v <;> simp [collect, eq_comm]

/-- next slot of the same block (initial array or extension block) -/
theorem pinv_scanLd_same {cfg : Cfg} {s : St} {t : Tid} {u b i : Nat} {acc acc' : List Ptr} {r : GRet}
    (hI : PInv cfg s) (hpc : s.pc t = .scanLd u b i acc r)
    (key : ∀ p, p ∈ acc' ↔ p ∈ acc ∨ s.slots u b i = some p) :
    PInv cfg { s with pc := upd s.pc t (.scanLd u b (i + 1) acc' r) } := by
  pinv_open hI
  pinv_close_scan

/-- the initial array has been read: next, the load of `extended_list_` -/
theorem pinv_scanLd_to_ext {cfg : Cfg} {s : St} {t : Tid} {u i : Nat} {acc acc' : List Ptr} {r : GRet}
    (hI : PInv cfg s) (hpc : s.pc t = .scanLd u 0 i acc r) (hb : ¬ i + 1 < cfg.init)
    (key : ∀ p, p ∈ acc' ↔ p ∈ acc ∨ s.slots u 0 i = some p) :
    PInv cfg { s with pc := upd s.pc t (.scanExt u acc' r) } := by
  pinv_open hI
  pinv_close_scan

/-- ALL `B` slots of extension block `b` have been read: next, block `b - 1`.  (With a pass that reads fewer than `B`
    slots of an extension block - hypothesis `hb` weakened to `¬ i + 1 < w`, `w < B` - this lemma is false: a guard at
    index `>= w` of block `b` is neither in the plist nor ahead.) -/
theorem pinv_scanLd_next_blk {cfg : Cfg} {s : St} {t : Tid} {u b i : Nat} {acc acc' : List Ptr} {r : GRet}
    (hI : PInv cfg s) (hpc : s.pc t = .scanLd u b i acc r) (hb0 : b ≠ 0) (hb : ¬ i + 1 < cfg.B) (hb1 : 1 < b)
    (key : ∀ p, p ∈ acc' ↔ p ∈ acc ∨ s.slots u b i = some p) :
    PInv cfg { s with pc := upd s.pc t (.scanLd u (b - 1) 0 acc' r) } := by
  pinv_open hI
  pinv_close_scan

/-- ALL `B` slots of the oldest extension block have been read: next, the following record. -/
theorem pinv_scanLd_last {cfg : Cfg} {s : St} {t : Tid} {u b i : Nat} {acc acc' : List Ptr} {r : GRet}
    (hI : PInv cfg s) (hpc : s.pc t = .scanLd u b i acc r) (hb0 : b ≠ 0) (hb : ¬ i + 1 < cfg.B) (hb1 : ¬ 1 < b)
    (key : ∀ p, p ∈ acc' ↔ p ∈ acc ∨ s.slots u b i = some p) :
    PInv cfg { s with pc := upd s.pc t (scanRec cfg (u + 1) acc' r) } := by
  have ht := hI.busy_rng t (by simp [hpc])
  refine pinv_to_rec hI ht (by simp [hpc]) ?_
  intro u' b' i' p hg hr
  have h1 := hI.scan_cov_ld t u b i acc r u' b' i' p hpc hg hr
  have h2 := hI.guard_slot u' b' i' p hg
  have h3 := hI.guard_rng u' b' i' p hg
  grind [bsize, AheadLd]

theorem pinv_scanExt {cfg : Cfg} {s s' : St} {t : Tid} {ev : Ev} {u : Nat} {acc : List Ptr} {r : GRet}
    (hI : PInv cfg s) (hpc : s.pc t = .scanExt u acc r) (hs : step cfg s t = some (s', ev)) : PInv cfg s' := by
  simp only [step, stepW, hpc] at hs
  simp at hs; obtain ⟨rfl, -⟩ := hs
  unfold scanAfterExt
  split
  · pinv_open hI
    pinv_close_scan
  · have ht := hI.busy_rng t (by simp [hpc])
    refine pinv_to_rec hI ht (by simp [hpc]) ?_
    intro u' b' i' p hg hr
    have h1 := hI.scan_cov_ext t u acc r u' b' i' p hpc hg hr
    have h3 := hI.guard_rng u' b' i' p hg
    grind [AheadExt]

theorem pinv_scanDecide_core {cfg : Cfg} {s : St} {t : Tid} {acc kept freed : List Ptr} {r : GRet} {nb : Nat}
    (hI : PInv cfg s) (hpc : s.pc t = .scanDecide acc r) (hd : Decision acc (s.retired t) kept freed) :
    PInv cfg { s with retired := upd s.retired t kept,
                      rblk := upd s.rblk t nb,
                      obj := fun p => if p ∈ freed then .disposed else s.obj p,
                      log := s.log ++ freed,
                      pc := upd s.pc t (.done r) } := by
  pinv_open hI
  obtain ⟨d1, d2, d3, d4, d5, d6, d7, d8⟩ := hd
  have hlog : (s.log ++ freed).Nodup := by
    rw [List.nodup_append]
    refine ⟨h14, d6, ?_⟩
    intro a ha b hb e
    have h1 := (h13 a).mp ha
    have h2 := h10 t b (d2 b hb)
    rw [e] at h1; rw [h1] at h2; cases h2
  have hfr : ∀ p, p ∈ freed → s.obj p = .retired := fun p hp => h10 t p (d2 p hp)
  pinv_close

theorem pinv_derefRd {cfg : Cfg} {s s' : St} {t : Tid} {ev : Ev} {b i : Nat}
    (hI : PInv cfg s) (hpc : s.pc t = .derefRd b i) (hs : step cfg s t = some (s', ev)) : PInv cfg s' := by
  pinv_open hI
  simp only [step, stepW, hpc] at hs
  split at hs
  · simp at hs; obtain ⟨rfl, -⟩ := hs
    pinv_close
  · simp at hs

theorem pinv_result {cfg : Cfg} {s s' : St} {t : Tid} {r : GRet}
    (hI : PInv cfg s) (hs : result s t = some (s', r)) : PInv cfg s' := by
  pinv_open hI
  unfold result at hs
  split at hs
  · simp at hs; obtain ⟨rfl, -⟩ := hs
    pinv_close
  · simp at hs

/-- The invocations that only set the program counter of an idle thread. -/
theorem pinv_call {cfg : Cfg} {s : St} {t : Tid} {q : PC}
    (hI : PInv cfg s) (hpc : s.pc t = .idle) (ht : t < cfg.T)
    (hq : (∃ h, q = .gallocDo h) ∨ (∃ h b i, q = .gfreeSt h b i ∧ s.hslot t h = some (b, i)) ∨
          (∃ h b i c, q = .protLd b i c ∧ s.hslot t h = some (b, i)) ∨
          (∃ h b i, q = .clearSt b i ∧ s.hslot t h = some (b, i)) ∨ (∃ c b, q = .swapX c b) ∨
          (∃ b i, q = .derefRd b i ∧ (s.guard t b i).isSome)) :
    PInv cfg { s with pc := upd s.pc t q } := by
  have hpc := hpc
  pinv_open hI
  rcases hq with ⟨h, rfl⟩ | ⟨h, b, i, rfl, hh⟩ | ⟨h, b, i, c, rfl, hh⟩ | ⟨h, b, i, rfl, hh⟩ | ⟨c, b, rfl⟩ | ⟨b, i, rfl, hg⟩
  · pinv_close
  · pinv_close
  · pinv_close
  · pinv_close
  · pinv_close
  · rw [Option.isSome_iff_exists] at hg
    pinv_close

theorem pinv_invoke {cfg : Cfg} {s s' : St} {t : Tid} {op : GOp}
    (hI : PInv cfg s) (hs : invoke cfg s t op = some s') : PInv cfg s' := by
  unfold invoke at hs
  split at hs
  next ht =>
    split at hs
    · split at hs
      · simp at hs; subst hs; exact pinv_call hI (by assumption) ht (by grind)
      · simp at hs
    · split at hs
      · simp at hs; subst hs; exact pinv_call hI (by assumption) ht (by grind)
      · simp at hs
    · split at hs
      · simp at hs; subst hs; exact pinv_call hI (by assumption) ht (by grind)
      · simp at hs
    · split at hs
      · simp at hs; subst hs; exact pinv_call hI (by assumption) ht (by grind)
      · simp at hs
    · simp at hs; subst hs; exact pinv_call hI (by assumption) ht (by grind)
    · simp at hs; subst hs; exact pinv_call hI (by assumption) ht (by grind)
    · simp at hs; subst hs
      next hidle _ _ =>
      exact pinv_to_rec (u := 0) hI ht (by simp [hidle]) (by intros; omega)
    · split at hs
      · split at hs
        · simp at hs; subst hs; exact pinv_call hI (by assumption) ht (by grind)
        · simp at hs
      · simp at hs
    · simp at hs
  · simp at hs

/-! ### Every enabled action preserves the invariant -/

theorem pinv_step {cfg : Cfg} {s s' : St} {t : Tid} {ev : Ev}
    (hI : PInv cfg s) (hs : step cfg s t = some (s', ev)) : PInv cfg s' := by
  cases hpc : s.pc t with
  | idle => simp [step, stepW, hpc] at hs
  | gallocDo h => exact pinv_galloc hI hpc hs
  | gfreeSt h b i => exact pinv_gfree hI hpc hs
  | protLd b i c => exact pinv_protLd hI hpc hs
  | protSt b i c p => exact pinv_protSt hI hpc hs
  | protChk b i c p => exact pinv_protChk hI hpc hs
  | clearSt b i => exact pinv_clearSt hI hpc hs
  | swapX c b =>
    cases b
    · exact pinv_swapX_take hI hpc hs
    · exact pinv_swapX_alloc hI hpc hs
  | swapRet p r => exact pinv_swapRet hI hpc hs
  | scanLd u b i acc r =>
    simp only [step, stepW, hpc] at hs
    simp at hs; obtain ⟨rfl, -⟩ := hs
    unfold scanNext
    split
    · next hb0 =>
      subst hb0
      split
      · exact pinv_scanLd_same hI hpc (fun _ => mem_collect)
      · exact pinv_scanLd_to_ext hI hpc (by assumption) (fun _ => mem_collect)
    · split
      · exact pinv_scanLd_same hI hpc (fun _ => mem_collect)
      · split
        · exact pinv_scanLd_next_blk hI hpc (by assumption) (by assumption) (by assumption) (fun _ => mem_collect)
        · exact pinv_scanLd_last hI hpc (by assumption) (by assumption) (by assumption) (fun _ => mem_collect)
  | scanExt u acc r => exact pinv_scanExt hI hpc hs
  | scanDecide acc r =>
    simp only [step, stepW, hpc] at hs
    simp at hs; obtain ⟨rfl, -⟩ := hs
    exact pinv_scanDecide_core hI hpc (decision acc _ (hI.ret_nodup t))
  | derefRd b i => exact pinv_derefRd hI hpc hs
  | done r => simp [step, stepW, hpc] at hs

theorem pinv_apply (cfg : Cfg) (s : St) (t : Tid) (a : Act) (s' : St) (o : Obs)
    (hI : PInv cfg s) (hap : (model cfg).apply s t a = some (s', o)) : PInv cfg s' := by
  cases a with
  | invoke op =>
    simp only [Model.apply, model, Option.map_eq_some_iff] at hap
    obtain ⟨s1, hs1, heq⟩ := hap
    simp only [Prod.mk.injEq] at heq
    obtain ⟨rfl, -⟩ := heq
    exact pinv_invoke hI hs1
  | step =>
    simp only [Model.apply, model, Option.map_eq_some_iff] at hap
    obtain ⟨⟨s1, ev⟩, hr, heq⟩ := hap
    simp only [Prod.mk.injEq] at heq
    obtain ⟨rfl, -⟩ := heq
    exact pinv_step hI hr
  | ret =>
    simp only [Model.apply, model, Option.map_eq_some_iff] at hap
    obtain ⟨⟨s1, r⟩, hr, heq⟩ := hap
    simp only [Prod.mk.injEq] at heq
    obtain ⟨rfl, -⟩ := heq
    exact pinv_result hI hr

/-- The invariant holds in every reachable state: all configurations with `B >= 1`, all schedules, all client programs. -/
theorem pinv_reachable (cfg : Cfg) (hB : 0 < cfg.B) (s : St) (hr : (model cfg).Reachable (init cfg) s) : PInv cfg s :=
  (model cfg).inv_reachable (PInv cfg) (init cfg) (pinv_init cfg hB) (pinv_apply cfg) s hr

/-- ... and is preserved along every run from a state that satisfies it. -/
theorem pinv_run (cfg : Cfg) (sched : List (Tid × Act)) (s s' : St) (os : List (Tid × Obs))
    (h : PInv cfg s) (hr : (model cfg).run s sched = some (s', os)) : PInv cfg s' :=
  (model cfg).inv_of_inductive (PInv cfg) (pinv_apply cfg) sched s s' os h hr

end CdsVerif.Algo.DHP

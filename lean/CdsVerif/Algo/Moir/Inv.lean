/-
  Structural invariant of the MoirQueue model and the refinement of the abstract queue.

  * `Chain s.next (some s.head) l` : following `next` from `head` visits exactly the nodes `l` (the first one is
    `head`, i.e. the current dummy) and then null.
  * `SInvL s l` : the chain `l` is duplicate-free and consists of published nodes; nodes still private to an
    enqueuer and nodes already dequeued (behind `head`) are outside the chain and stay outside (garbage-collected
    heap); a node behind `head` has a non-null `next` for ever (`gone`).
    DIFFERENCE from the Michael–Scott queue: `tail` need not be on the chain.  `tailin` says: `tail` is on the chain
    OR it is the node immediately BEHIND `head` (`tail.next = head`: head and tail have crossed, see
    `Props/C06Moir.lean`, example `crossSched`).  In both cases `tail.next.next = null` (`lag`), so in the crossed
    state the chain is `[head]`: the queue is empty and nothing can be linked before an enqueuer or the dequeuer
    that swung `head` has repaired `tail`.
  * `absQueue s` : the values of the nodes strictly after `head`.
  * Linearization points.  `enqueue`: the successful CAS on `t->m_pNext`.  Non-empty `dequeue`: the successful CAS
    on `m_pHead` (the read and the help of `m_pTail` come after it).  Empty `dequeue`: the validating load of
    `h->m_pNext` that confirms null — at that instant `h` is still `head` (a node behind `head` never has a null
    link) and the queue is empty; MoirQueue returns right there, so — unlike MSQueue — the result is definitive at
    once and no linearization is ever withdrawn.
-/
import CdsVerif.Algo.Moir.Model
import CdsVerif.Algo.QueueLin.Chain
import CdsVerif.Algo.QueueLin.History
namespace CdsVerif.Algo.Moir
open CdsVerif.Machine CdsVerif.Spec CdsVerif.Lin CdsVerif.Algo.QueueLin

/-- The nodes reachable from `head`, `head` (the current dummy) first (fuel: the number of nodes ever allocated). -/
def absNodes (s : St) : List Nat := walk s.next s.cnt (some s.head)
/-- The abstract queue: the values of the nodes strictly after `head`, oldest first. -/
def absQueue (s : St) : List Int := (absNodes s).tail.map s.val

/-! ### The structural invariant -/

/-- The node an enqueuer still owns privately (before its successful CAS on `t->m_pNext`). -/
def enqNode : PC → Option Nat
  | .enqLd1 n => some n
  | .enqLd2 n _ => some n
  | .enqNext n _ => some n
  | .enqHelp n _ _ => some n
  | .enqCas n _ => some n
  | _ => none

/-- The tail candidate `t` of an enqueuer that may still try to link its node behind `t`. -/
def enqT : PC → Option Nat
  | .enqNext _ a => some a
  | .enqCas _ a => some a
  | _ => none

/-- The head candidate `h` held by a dequeuer that has not swung `head` yet. -/
def deqH : PC → Option Nat
  | .deqNx1 h => some h
  | .deqNx2 h _ => some h
  | .deqCas h _ => some h
  | _ => none

/-- A link `a.next = x` that the thread has observed (or created) and relies on. -/
def linkOf : PC → Option (Nat × Nat)
  | .enqHelp _ a x => some (a, x)
  | .enqSwing n a => some (a, n)
  | .deqCas h x => some (h, x)
  | .deqTail h x _ => some (h, x)
  | .deqHelp h x _ => some (h, x)
  | _ => none

/-- `a` has been allocated and is no longer private to an enqueuer: it is or was in the queue (or is the dummy). -/
def Pub (s : St) (a : Nat) : Prop := a < s.cnt ∧ ∀ t, enqNode (s.pc t) ≠ some a

structure SInvL (s : St) (l : List Nat) : Prop where
  chain : Chain s.next (some s.head) l
  nodup : l.Nodup
  pub : ∀ a, a ∈ l → Pub s a
  gone : ∀ a, Pub s a → a ∉ l → s.next a ≠ none
  tailin : s.tail ∈ l ∨ s.next s.tail = some s.head
  tailpub : Pub s s.tail
  lag : ∀ x, s.next s.tail = some x → s.next x = none
  unalloc : ∀ a, s.cnt ≤ a → s.next a = none
  priv : ∀ t n, enqNode (s.pc t) = some n → n < s.cnt ∧ s.next n = none
  own : ∀ t1 t2 n, enqNode (s.pc t1) = some n → enqNode (s.pc t2) = some n → t1 = t2
  link : ∀ t a x, linkOf (s.pc t) = some (a, x) → s.next a = some x
  enqt : ∀ t a, enqT (s.pc t) = some a → Pub s a ∧ (s.next a = none → s.tail = a)
  deqh : ∀ t h, deqH (s.pc t) = some h → Pub s h ∧ (h ∈ l → s.head = h)

def SInv (s : St) : Prop := ∃ l, SInvL s l

theorem SInvL.absNodes_eq {s : St} {l : List Nat} (h : SInvL s l) : absNodes s = l :=
  walk_of_chain h.chain (length_le_of_nodup_lt h.nodup (fun a ha => (h.pub a ha).1))

theorem SInvL.absQueue_eq {s : St} {l : List Nat} (h : SInvL s l) : absQueue s = l.tail.map s.val := by
  simp [absQueue, h.absNodes_eq]

theorem SInvL.unique {s : St} {l1 l2 : List Nat} (h1 : SInvL s l1) (h2 : SInvL s l2) : l1 = l2 :=
  Chain.functional h1.chain h2.chain

theorem SInvL.head_cons {s : St} {l : List Nat} (h : SInvL s l) : ∃ r, l = s.head :: r := by
  have hc := h.chain
  cases l with
  | nil => simp [Chain] at hc
  | cons a r => simp only [Chain, Option.some.injEq] at hc; exact ⟨r, by rw [hc.1]⟩

theorem sinv_init : SInvL init [dummy] := by
  constructor <;> simp [init, Chain, enqNode, enqT, deqH, linkOf, Pub, dummy]

/-! ### Linearization-point bookkeeping on program counters -/

/-- The result of a thread that has passed its linearization point (in MoirQueue: always for good). -/
def postRet : PC → Option GRet
  | .enqSwing _ _ => some [1]
  | .deqTail _ _ v => some [1, v]
  | .deqHelp _ _ v => some [1, v]
  | .done r => some r
  | _ => none

/-- The operation a thread is executing, while it has not passed its linearization point. -/
def opOf (val : Nat → Int) : PC → Option GOp
  | .enqLd1 n => some ⟨"enq", [val n]⟩
  | .enqLd2 n _ => some ⟨"enq", [val n]⟩
  | .enqNext n _ => some ⟨"enq", [val n]⟩
  | .enqHelp n _ _ => some ⟨"enq", [val n]⟩
  | .enqCas n _ => some ⟨"enq", [val n]⟩
  | .deqLd1 => some ⟨"deq", []⟩
  | .deqLd2 _ => some ⟨"deq", []⟩
  | .deqNx1 _ => some ⟨"deq", []⟩
  | .deqNx2 _ _ => some ⟨"deq", []⟩
  | .deqCas _ _ => some ⟨"deq", []⟩
  | _ => none

structure StepEff (s : St) (t : Tid) (s' : St) (l l' : List Nat) : Prop where
  frame : ∀ t2, t2 ≠ t → s'.pc t2 = s.pc t2
  val : s'.val = s.val
  cnt : s'.cnt = s.cnt
  lp : postRet (s.pc t) = none → ∀ r, postRet (s'.pc t) = some r →
        ∃ op, opOf s.val (s.pc t) = some op ∧ fifo.next (l.tail.map s.val) op r = some (l'.tail.map s.val)
  nolp : (postRet (s.pc t) ≠ none ∨ postRet (s'.pc t) = none) → l' = l
  keep : ∀ r, postRet (s.pc t) = some r → postRet (s'.pc t) = some r
  op : postRet (s'.pc t) = none → opOf s'.val (s'.pc t) = opOf s.val (s.pc t)
  emp : postRet (s.pc t) = none → postRet (s'.pc t) = some [0] →
        ∃ a, s.pc t = .deqNx2 a none ∧ s.head = a ∧ s.next a = none ∧ l = [a]
  busy : s.pc t ≠ .idle ∧ s'.pc t ≠ .idle
  sub : ∀ a, a ∈ l' → a ∈ l ∨ enqNode (s.pc t) = some a
  pubmono : ∀ a, Pub s a → Pub s' a

theorem pub_mk (hd tl : Nat) (nx : Nat → Option Nat) (vl : Nat → Int) (cnt : Nat) (pc : Tid → PC) (t : Tid) (pc' : PC)
    (a : Nat) :
    Pub ⟨hd, tl, nx, vl, cnt, upd pc t pc'⟩ a ↔ (a < cnt ∧ enqNode pc' ≠ some a ∧ ∀ t2, t2 ≠ t → enqNode (pc t2) ≠ some a) := by
  simp only [Pub, upd]
  constructor
  · intro ⟨h1, h2⟩
    refine ⟨h1, ?_, ?_⟩
    · have := h2 t; simpa using this
    · intro t2 ht; have := h2 t2; simpa [ht] using this
  · intro ⟨h1, h2, h3⟩
    refine ⟨h1, fun t2 => ?_⟩
    by_cases ht : t2 = t
    · simp [ht, h2]
    · simp [ht, h3 t2 ht]

macro "sinv_close" : tactic =>
  `(tactic| (constructor <;> intros <;> (try dsimp only at *) <;>
      grind [upd, Pub, pub_mk, enqNode, enqT, deqH, linkOf, Chain, Chain.upd]))
macro "eff_close" : tactic =>
  `(tactic| (constructor <;> intros <;> (try dsimp only at *) <;>
      grind [upd, postRet, opOf, Pub, pub_mk, enqNode, fifo_enq, fifo_deq_some, fifo_deq_none]))

theorem sinvl_step_enqLd1 {s s' : St} {t : Tid} {ev : Ev} {l : List Nat} {n : Nat}
    (h : SInvL s l) (hpc : s.pc t = .enqLd1 n) (hs : step s t = some (s', ev)) :
    ∃ l', SInvL s' l' ∧ StepEff s t s' l l' := by
  obtain ⟨hch, hnd, hpub, hgone, htl, htp, hlag, hun, hpriv, hown, hlk, het, hdh⟩ := h
  simp only [step, hpc] at hs
  simp at hs; obtain ⟨rfl, -⟩ := hs
  refine ⟨l, ?_, ?_⟩
  · sinv_close
  · eff_close

theorem sinvl_step_enqLd2 {s s' : St} {t : Tid} {ev : Ev} {l : List Nat} {n p : Nat}
    (h : SInvL s l) (hpc : s.pc t = .enqLd2 n p) (hs : step s t = some (s', ev)) :
    ∃ l', SInvL s' l' ∧ StepEff s t s' l l' := by
  obtain ⟨hch, hnd, hpub, hgone, htl, htp, hlag, hun, hpriv, hown, hlk, het, hdh⟩ := h
  simp only [step, hpc] at hs
  split at hs
  next heq =>
    simp at hs; obtain ⟨rfl, -⟩ := hs
    refine ⟨l, ?_, ?_⟩
    · sinv_close
    · eff_close
  next hne =>
    simp at hs; obtain ⟨rfl, -⟩ := hs
    refine ⟨l, ?_, ?_⟩
    · sinv_close
    · eff_close

theorem sinvl_step_enqNext {s s' : St} {t : Tid} {ev : Ev} {l : List Nat} {n a : Nat}
    (h : SInvL s l) (hpc : s.pc t = .enqNext n a) (hs : step s t = some (s', ev)) :
    ∃ l', SInvL s' l' ∧ StepEff s t s' l l' := by
  obtain ⟨hch, hnd, hpub, hgone, htl, htp, hlag, hun, hpriv, hown, hlk, het, hdh⟩ := h
  simp only [step, hpc] at hs
  split at hs
  next heq =>
    simp at hs; obtain ⟨rfl, -⟩ := hs
    refine ⟨l, ?_, ?_⟩
    · sinv_close
    · eff_close
  next x heq =>
    simp at hs; obtain ⟨rfl, -⟩ := hs
    refine ⟨l, ?_, ?_⟩
    · sinv_close
    · eff_close

/-- A successful CAS on `tail` from `a` to its successor `x`: `x` is on the chain (it is `head` itself when head and
    tail had crossed) and is its last node. -/
theorem sinvl_tail_adv {s : St} {l : List Nat} {a x : Nat}
    (h : SInvL s l) (hta : s.tail = a) (hax : s.next a = some x) :
    x ∈ l ∧ s.next x = none := by
  refine ⟨?_, h.lag x (hta ▸ hax)⟩
  rcases h.tailin with h1 | h1
  · exact List.mem_of_mem_tail (Chain.succ_mem h.chain (hta ▸ h1) hax)
  · rw [hta, hax] at h1
    obtain ⟨r, hr⟩ := h.head_cons
    simp only [Option.some.injEq] at h1
    rw [hr, h1]; simp

theorem sinvl_step_enqHelp {s s' : St} {t : Tid} {ev : Ev} {l : List Nat} {n a x : Nat}
    (h : SInvL s l) (hpc : s.pc t = .enqHelp n a x) (hs : step s t = some (s', ev)) :
    ∃ l', SInvL s' l' ∧ StepEff s t s' l l' := by
  have hadv := fun hta => sinvl_tail_adv (a := a) (x := x) h hta
  obtain ⟨hch, hnd, hpub, hgone, htl, htp, hlag, hun, hpriv, hown, hlk, het, hdh⟩ := h
  have hax := hlk t a x (by simp [hpc, linkOf])
  simp only [step, hpc] at hs
  split at hs
  next heq =>
    simp at hs; obtain ⟨rfl, -⟩ := hs
    obtain ⟨hx1, hx3⟩ := hadv heq hax
    have hxp := hpub x hx1
    refine ⟨l, ?_, ?_⟩
    · sinv_close
    · eff_close
  next hne =>
    simp at hs; obtain ⟨rfl, -⟩ := hs
    refine ⟨l, ?_, ?_⟩
    · sinv_close
    · eff_close

theorem sinvl_step_enqCas {s s' : St} {t : Tid} {ev : Ev} {l : List Nat} {n a : Nat}
    (h : SInvL s l) (hpc : s.pc t = .enqCas n a) (hs : step s t = some (s', ev)) :
    ∃ l', SInvL s' l' ∧ StepEff s t s' l l' := by
  obtain ⟨r0, hr0⟩ := h.head_cons
  obtain ⟨hch, hnd, hpub, hgone, htl, htp, hlag, hun, hpriv, hown, hlk, het, hdh⟩ := h
  simp only [step, hpc] at hs
  split at hs
  next heq =>
    simp at hs; obtain ⟨rfl, -⟩ := hs
    obtain ⟨hpa, hta⟩ := het t a (by simp [hpc, enqT])
    have hta := hta heq
    have hal : a ∈ l := Classical.byContradiction (fun hn => hgone a hpa hn heq)
    obtain ⟨hnc, hnn⟩ := hpriv t n (by simp [hpc, enqNode])
    have hnl : n ∉ l := fun hm => (hpub n hm).2 t (by simp [hpc, enqNode])
    have hna : n ≠ a := fun e => hnl (e ▸ hal)
    have hch' := Chain.snoc hnn hch hal heq hnl
    have hnd' : (l ++ [n]).Nodup := by
      rw [List.nodup_append]; exact ⟨hnd, by simp, by intro x hx y hy; simp at hy; subst hy; exact fun e => hnl (e ▸ hx)⟩
    refine ⟨l ++ [n], ?_, ?_⟩
    · sinv_close
    · have hlp : fifo.next (l.tail.map s.val) ⟨"enq", [s.val n]⟩ [1] = some ((l ++ [n]).tail.map s.val) := by
        rw [hr0]; simp [fifo_enq]
      eff_close
  next x heq =>
    simp at hs; obtain ⟨rfl, -⟩ := hs
    refine ⟨l, ?_, ?_⟩
    · sinv_close
    · eff_close

theorem sinvl_step_enqSwing {s s' : St} {t : Tid} {ev : Ev} {l : List Nat} {n a : Nat}
    (h : SInvL s l) (hpc : s.pc t = .enqSwing n a) (hs : step s t = some (s', ev)) :
    ∃ l', SInvL s' l' ∧ StepEff s t s' l l' := by
  have hadv := fun hta => sinvl_tail_adv (a := a) (x := n) h hta
  obtain ⟨hch, hnd, hpub, hgone, htl, htp, hlag, hun, hpriv, hown, hlk, het, hdh⟩ := h
  have hax := hlk t a n (by simp [hpc, linkOf])
  simp only [step, hpc] at hs
  split at hs
  next heq =>
    simp at hs; obtain ⟨rfl, -⟩ := hs
    obtain ⟨hx1, hx3⟩ := hadv heq hax
    have hxp := hpub n hx1
    refine ⟨l, ?_, ?_⟩
    · sinv_close
    · eff_close
  next hne =>
    simp at hs; obtain ⟨rfl, -⟩ := hs
    refine ⟨l, ?_, ?_⟩
    · sinv_close
    · eff_close

theorem sinvl_step_deqLd1 {s s' : St} {t : Tid} {ev : Ev} {l : List Nat}
    (h : SInvL s l) (hpc : s.pc t = .deqLd1) (hs : step s t = some (s', ev)) :
    ∃ l', SInvL s' l' ∧ StepEff s t s' l l' := by
  obtain ⟨hch, hnd, hpub, hgone, htl, htp, hlag, hun, hpriv, hown, hlk, het, hdh⟩ := h
  simp only [step, hpc] at hs
  simp at hs; obtain ⟨rfl, -⟩ := hs
  refine ⟨l, ?_, ?_⟩
  · sinv_close
  · eff_close

theorem sinvl_step_deqLd2 {s s' : St} {t : Tid} {ev : Ev} {l : List Nat} {p : Nat}
    (h : SInvL s l) (hpc : s.pc t = .deqLd2 p) (hs : step s t = some (s', ev)) :
    ∃ l', SInvL s' l' ∧ StepEff s t s' l l' := by
  obtain ⟨r0, hr0⟩ := h.head_cons
  obtain ⟨hch, hnd, hpub, hgone, htl, htp, hlag, hun, hpriv, hown, hlk, het, hdh⟩ := h
  simp only [step, hpc] at hs
  split at hs
  next heq =>
    simp at hs; obtain ⟨rfl, -⟩ := hs
    have hhl : s.head ∈ l := by rw [hr0]; simp
    refine ⟨l, ?_, ?_⟩
    · sinv_close
    · eff_close
  next hne =>
    simp at hs; obtain ⟨rfl, -⟩ := hs
    refine ⟨l, ?_, ?_⟩
    · sinv_close
    · eff_close

theorem sinvl_step_deqNx1 {s s' : St} {t : Tid} {ev : Ev} {l : List Nat} {a : Nat}
    (h : SInvL s l) (hpc : s.pc t = .deqNx1 a) (hs : step s t = some (s', ev)) :
    ∃ l', SInvL s' l' ∧ StepEff s t s' l l' := by
  obtain ⟨hch, hnd, hpub, hgone, htl, htp, hlag, hun, hpriv, hown, hlk, het, hdh⟩ := h
  simp only [step, hpc] at hs
  simp at hs; obtain ⟨rfl, -⟩ := hs
  refine ⟨l, ?_, ?_⟩
  · sinv_close
  · eff_close

theorem sinvl_step_deqNx2 {s s' : St} {t : Tid} {ev : Ev} {l : List Nat} {a : Nat} {p : Option Nat}
    (h : SInvL s l) (hpc : s.pc t = .deqNx2 a p) (hs : step s t = some (s', ev)) :
    ∃ l', SInvL s' l' ∧ StepEff s t s' l l' := by
  obtain ⟨r0, hr0⟩ := h.head_cons
  obtain ⟨hch, hnd, hpub, hgone, htl, htp, hlag, hun, hpriv, hown, hlk, het, hdh⟩ := h
  simp only [step, hpc] at hs
  split at hs
  next heq =>
    -- a validated null: `a` is still `head` and the queue is empty
    have hemp : p = none → s.head = a ∧ l = [a] := by
      intro hp
      rw [hp] at heq
      obtain ⟨hpa, hah⟩ := hdh t a (by simp [hpc, deqH])
      have hal : a ∈ l := Classical.byContradiction (fun hn => hgone a hpa hn heq)
      have hha := hah hal
      rw [hr0, hha] at hch
      simp only [Chain, heq, true_and] at hch
      exact ⟨hha, by rw [hr0, Chain.none_nil hch, hha]⟩
    split at hs
    next =>
      simp at hs; obtain ⟨rfl, -⟩ := hs
      obtain ⟨hha, hl1⟩ := hemp rfl
      have hlp : fifo.next (l.tail.map s.val) ⟨"deq", []⟩ [0] = some (l.tail.map s.val) := by
        rw [hl1]; exact fifo_deq_none
      refine ⟨l, ?_, ?_⟩
      · sinv_close
      · eff_close
    next x =>
      simp at hs; obtain ⟨rfl, -⟩ := hs
      refine ⟨l, ?_, ?_⟩
      · sinv_close
      · eff_close
  next hne =>
    simp at hs; obtain ⟨rfl, -⟩ := hs
    refine ⟨l, ?_, ?_⟩
    · sinv_close
    · eff_close

theorem sinvl_step_deqCas {s s' : St} {t : Tid} {ev : Ev} {l : List Nat} {a x : Nat}
    (h : SInvL s l) (hpc : s.pc t = .deqCas a x) (hs : step s t = some (s', ev)) :
    ∃ l', SInvL s' l' ∧ StepEff s t s' l l' := by
  obtain ⟨r0, hr0⟩ := h.head_cons
  obtain ⟨hch, hnd, hpub, hgone, htl, htp, hlag, hun, hpriv, hown, hlk, het, hdh⟩ := h
  have hax := hlk t a x (by simp [hpc, linkOf])
  simp only [step, hpc] at hs
  split at hs
  next heq =>
    simp at hs; obtain ⟨rfl, -⟩ := hs
    subst hr0
    simp only [Chain, true_and] at hch
    rw [heq, hax] at hch
    cases r0 with
    | nil => simp [Chain] at hch
    | cons b r1 =>
      have hb : x = b := by simp only [Chain, Option.some.injEq] at hch; exact hch.1
      subst hb
      have hnd1 := List.nodup_cons.mp hnd
      have hnd2 := List.nodup_cons.mp hnd1.2
      have hmem : ∀ c, c ∈ s.head :: x :: r1 ↔ (c = s.head ∨ c ∈ x :: r1) := fun c => List.mem_cons
      -- head and tail had not crossed: the chain has a second node
      have hcross : s.next s.tail ≠ some s.head := by
        intro hc; have := hlag _ hc; rw [heq, hax] at this; simp at this
      refine ⟨x :: r1, ?_, ?_⟩
      · sinv_close
      · have hlp : fifo.next ((s.head :: x :: r1).tail.map s.val) ⟨"deq", []⟩ [1, s.val x]
            = some ((x :: r1).tail.map s.val) := by
          simp [fifo_deq_some]
        eff_close
  next hne =>
    simp at hs; obtain ⟨rfl, -⟩ := hs
    refine ⟨l, ?_, ?_⟩
    · sinv_close
    · eff_close

theorem sinvl_step_deqTail {s s' : St} {t : Tid} {ev : Ev} {l : List Nat} {a x : Nat} {v : Int}
    (h : SInvL s l) (hpc : s.pc t = .deqTail a x v) (hs : step s t = some (s', ev)) :
    ∃ l', SInvL s' l' ∧ StepEff s t s' l l' := by
  obtain ⟨hch, hnd, hpub, hgone, htl, htp, hlag, hun, hpriv, hown, hlk, het, hdh⟩ := h
  simp only [step, hpc] at hs
  split at hs
  next heq =>
    simp at hs; obtain ⟨rfl, -⟩ := hs
    refine ⟨l, ?_, ?_⟩
    · sinv_close
    · eff_close
  next hne =>
    simp at hs; obtain ⟨rfl, -⟩ := hs
    refine ⟨l, ?_, ?_⟩
    · sinv_close
    · eff_close

theorem sinvl_step_deqHelp {s s' : St} {t : Tid} {ev : Ev} {l : List Nat} {a x : Nat} {v : Int}
    (h : SInvL s l) (hpc : s.pc t = .deqHelp a x v) (hs : step s t = some (s', ev)) :
    ∃ l', SInvL s' l' ∧ StepEff s t s' l l' := by
  have hadv := fun hta => sinvl_tail_adv (a := a) (x := x) h hta
  obtain ⟨hch, hnd, hpub, hgone, htl, htp, hlag, hun, hpriv, hown, hlk, het, hdh⟩ := h
  have hax := hlk t a x (by simp [hpc, linkOf])
  simp only [step, hpc] at hs
  split at hs
  next heq =>
    simp at hs; obtain ⟨rfl, -⟩ := hs
    obtain ⟨hx1, hx3⟩ := hadv heq hax
    have hxp := hpub x hx1
    refine ⟨l, ?_, ?_⟩
    · sinv_close
    · eff_close
  next hne =>
    simp at hs; obtain ⟨rfl, -⟩ := hs
    refine ⟨l, ?_, ?_⟩
    · sinv_close
    · eff_close

theorem sinvl_step {s s' : St} {t : Tid} {ev : Ev} {l : List Nat}
    (h : SInvL s l) (hs : step s t = some (s', ev)) : ∃ l', SInvL s' l' ∧ StepEff s t s' l l' := by
  cases hpc : s.pc t with
  | idle => simp [step, hpc] at hs
  | done r => simp [step, hpc] at hs
  | enqLd1 n => exact sinvl_step_enqLd1 h hpc hs
  | enqLd2 n p => exact sinvl_step_enqLd2 h hpc hs
  | enqNext n a => exact sinvl_step_enqNext h hpc hs
  | enqHelp n a x => exact sinvl_step_enqHelp h hpc hs
  | enqCas n a => exact sinvl_step_enqCas h hpc hs
  | enqSwing n a => exact sinvl_step_enqSwing h hpc hs
  | deqLd1 => exact sinvl_step_deqLd1 h hpc hs
  | deqLd2 p => exact sinvl_step_deqLd2 h hpc hs
  | deqNx1 a => exact sinvl_step_deqNx1 h hpc hs
  | deqNx2 a p => exact sinvl_step_deqNx2 h hpc hs
  | deqCas a x => exact sinvl_step_deqCas h hpc hs
  | deqTail a x v => exact sinvl_step_deqTail h hpc hs
  | deqHelp a x v => exact sinvl_step_deqHelp h hpc hs

/-! ### Preservation: invocation and return -/

structure InvokeEff (s : St) (t : Tid) (op : GOp) (s' : St) (l : List Nat) : Prop where
  frame : ∀ t2, t2 ≠ t → s'.pc t2 = s.pc t2
  ops : ∀ t2, t2 ≠ t → opOf s'.val (s.pc t2) = opOf s.val (s.pc t2)
  was : s.pc t = .idle
  now : opOf s'.val (s'.pc t) = some op ∧ postRet (s'.pc t) = none
  abs : l.tail.map s'.val = l.tail.map s.val
  pubmono : ∀ a, Pub s a → Pub s' a

theorem sinvl_invoke {s s' : St} {t : Tid} {op : GOp} {l : List Nat}
    (h : SInvL s l) (hs : invoke s t op = some s') : SInvL s' l ∧ InvokeEff s t op s' l := by
  obtain ⟨hch, hnd, hpub, hgone, htl, htp, hlag, hun, hpriv, hown, hlk, het, hdh⟩ := h
  obtain ⟨name, args⟩ := op
  unfold invoke at hs
  split at hs
  next v hpc hname hargs =>
    simp at hs; subst hs
    dsimp only at hname hargs; subst hname hargs
    have hfr' : ∀ t2 n, enqNode (s.pc t2) = some n → n ≠ s.cnt := fun t2 n h => Nat.ne_of_lt (hpriv t2 n h).1
    have hunc : s.next s.cnt = none := hun s.cnt (Nat.le_refl _)
    refine ⟨?_, ?_⟩
    · sinv_close
    · constructor <;> intros <;> (try dsimp only at *)
      · grind [upd]
      · rename_i t2 ht2
        cases hq : s.pc t2 <;> simp [opOf, upd]
        all_goals exact fun e => absurd e (hfr' t2 _ (by simp [hq, enqNode]))
      · exact hpc
      · simp [upd, opOf, postRet]
      · apply List.map_congr_left
        intro a ha
        have := (hpub a (List.mem_of_mem_tail ha)).1
        simp [upd]; omega
      · grind [upd, Pub, pub_mk, enqNode]
  next hpc hname hargs =>
    simp at hs; subst hs
    dsimp only at hname hargs; subst hname hargs
    refine ⟨?_, ?_⟩
    · sinv_close
    · constructor <;> intros <;> (try dsimp only at *) <;> grind [upd, opOf, postRet, Pub, pub_mk, enqNode]
  next => simp at hs

theorem sinvl_result {s s' : St} {t : Tid} {r : GRet} {l : List Nat}
    (h : SInvL s l) (hs : result s t = some (s', r)) :
    SInvL s' l ∧ s.pc t = .done r ∧ s'.pc t = .idle ∧ (∀ t2, t2 ≠ t → s'.pc t2 = s.pc t2) ∧ s'.val = s.val ∧
    (∀ a, Pub s a → Pub s' a) := by
  obtain ⟨hch, hnd, hpub, hgone, htl, htp, hlag, hun, hpriv, hown, hlk, het, hdh⟩ := h
  unfold result at hs
  split at hs
  next r' hpc =>
    simp at hs; obtain ⟨rfl, rfl⟩ := hs
    refine ⟨?_, hpc, by simp [upd], fun t2 h2 => by simp [upd, h2], rfl, ?_⟩
    · sinv_close
    · intros; grind [upd, Pub, pub_mk, enqNode]
  next => simp at hs

/-! ### Reachable states -/

theorem sinv_apply {s s' : St} {t : Tid} {a : Act} {o : Obs} (h : SInv s)
    (hap : model.apply s t a = some (s', o)) : SInv s' := by
  obtain ⟨l, hl⟩ := h
  cases a with
  | invoke op =>
    simp only [Model.apply, model, Option.map_eq_some_iff] at hap
    obtain ⟨s1, hs1, heq⟩ := hap
    simp only [Prod.mk.injEq] at heq
    obtain ⟨rfl, -⟩ := heq
    exact ⟨l, (sinvl_invoke hl hs1).1⟩
  | step =>
    simp only [Model.apply, model, Option.map_eq_some_iff] at hap
    obtain ⟨⟨s1, e⟩, hs1, heq⟩ := hap
    simp only [Prod.mk.injEq] at heq
    obtain ⟨rfl, -⟩ := heq
    obtain ⟨l', hl', -⟩ := sinvl_step hl hs1
    exact ⟨l', hl'⟩
  | ret =>
    simp only [Model.apply, model, Option.map_eq_some_iff] at hap
    obtain ⟨⟨s1, r⟩, hs1, heq⟩ := hap
    simp only [Prod.mk.injEq] at heq
    obtain ⟨rfl, -⟩ := heq
    exact ⟨l, (sinvl_result hl hs1).1⟩

theorem sinv_reachable (s : St) (h : model.Reachable init s) : SInv s :=
  model.inv_reachable SInv init ⟨[dummy], sinv_init⟩ (fun _ _ _ _ _ hi hap => sinv_apply hi hap) s h

/-- In every reachable state the chain from `head` is finite, duplicate-free, starts with `head`, ends in a node
    with a null link, and is made of published nodes; `absNodes` computes it. -/
theorem reachable_chain (s : St) (h : model.Reachable init s) :
    Chain s.next (some s.head) (absNodes s) ∧ (absNodes s).Nodup ∧ (∀ a ∈ absNodes s, Pub s a) ∧
    (∃ r, absNodes s = s.head :: r) := by
  obtain ⟨l, hl⟩ := sinv_reachable s h
  rw [hl.absNodes_eq]
  exact ⟨hl.chain, hl.nodup, hl.pub, hl.head_cons⟩

/-- Where `tail` is: the last or the second-to-last node of the chain from `head`, OR (head and tail crossed) the
    node immediately behind `head`, outside the chain, and then the chain is `[head]` (the queue is empty). -/
theorem SInvL.tail_lag {s : St} {l : List Nat} (h : SInvL s l) :
    (∃ l0, l = l0 ++ [s.tail] ∨ ∃ x, l = l0 ++ [s.tail, x]) ∨
    (s.tail ∉ l ∧ s.next s.tail = some s.head ∧ l = [s.head]) := by
  by_cases hin : s.tail ∈ l
  · left
    cases hx : s.next s.tail with
    | none =>
      obtain ⟨l0, h0⟩ := Chain.last h.chain hin hx
      exact ⟨l0, Or.inl h0⟩
    | some x =>
      obtain ⟨l0, h0⟩ := Chain.last2 h.chain hin hx (h.lag x hx)
      exact ⟨l0, Or.inr ⟨x, h0⟩⟩
  · right
    have hc : s.next s.tail = some s.head := by
      rcases h.tailin with h1 | h1
      · exact absurd h1 hin
      · exact h1
    refine ⟨hin, hc, ?_⟩
    obtain ⟨r, hr⟩ := h.head_cons
    have hch := h.chain
    rw [hr] at hch
    simp only [Chain, h.lag _ hc, true_and] at hch
    rw [hr, Chain.none_nil hch]

theorem reachable_tail_lag (s : St) (h : model.Reachable init s) :
    (∃ l0, absNodes s = l0 ++ [s.tail] ∨ ∃ x, absNodes s = l0 ++ [s.tail, x]) ∨
    (s.tail ∉ absNodes s ∧ s.next s.tail = some s.head ∧ absNodes s = [s.head]) := by
  obtain ⟨l, hl⟩ := sinv_reachable s h
  rw [hl.absNodes_eq]
  exact hl.tail_lag

/-- Garbage-collected heap: a node that has left the queue (published, not in the chain from `head`) is never
    linked in again; in particular `head` never returns to it. -/
theorem never_relinked {s s' : St} {t : Tid} {a : Act} {o : Obs} (h : SInv s)
    (hap : model.apply s t a = some (s', o)) (x : Nat) (hx : Pub s x) (hout : x ∉ absNodes s) :
    Pub s' x ∧ x ∉ absNodes s' := by
  obtain ⟨l, hl⟩ := h
  rw [hl.absNodes_eq] at hout
  cases a with
  | invoke op =>
    simp only [Model.apply, model, Option.map_eq_some_iff] at hap
    obtain ⟨s1, hs1, heq⟩ := hap
    simp only [Prod.mk.injEq] at heq
    obtain ⟨rfl, -⟩ := heq
    obtain ⟨hl', he⟩ := sinvl_invoke hl hs1
    rw [hl'.absNodes_eq]
    exact ⟨he.pubmono x hx, hout⟩
  | step =>
    simp only [Model.apply, model, Option.map_eq_some_iff] at hap
    obtain ⟨⟨s1, e⟩, hs1, heq⟩ := hap
    simp only [Prod.mk.injEq] at heq
    obtain ⟨rfl, -⟩ := heq
    obtain ⟨l', hl', he⟩ := sinvl_step hl hs1
    rw [hl'.absNodes_eq]
    refine ⟨he.pubmono x hx, fun hm => ?_⟩
    rcases he.sub x hm with h1 | h1
    · exact hout h1
    · exact hx.2 t h1
  | ret =>
    simp only [Model.apply, model, Option.map_eq_some_iff] at hap
    obtain ⟨⟨s1, r⟩, hs1, heq⟩ := hap
    simp only [Prod.mk.injEq] at heq
    obtain ⟨rfl, -⟩ := heq
    obtain ⟨hl', -, -, -, -, hp⟩ := sinvl_result hl hs1
    rw [hl'.absNodes_eq]
    exact ⟨hp x hx, hout⟩

end CdsVerif.Algo.Moir

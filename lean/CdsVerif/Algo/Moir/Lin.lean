/-
  Linearizability of the MoirQueue model (property C06).

  Linearization points: the successful CAS on `t->m_pNext` of `enqueue`; the successful CAS on `m_pHead` of a
  non-empty `dequeue` (BEFORE the dequeuer looks at `m_pTail`); for an empty `dequeue` the validating load of
  `h->m_pNext` that confirms null.  `Inv.lean` shows that each of these steps is exactly the `fifo` transition of the
  operation on the abstract queue and that every other step leaves the abstract queue unchanged (`StepEff`); the
  generic ghost-log construction of `Algo/QueueLin/Ghost.lean` turns this into linearizability of every run, with
  completion of pending operations, and into the hindsight statement for the empty dequeue.
-/
import CdsVerif.Algo.Moir.Inv
import CdsVerif.Algo.QueueLin.Ghost
namespace CdsVerif.Algo.Moir
open CdsVerif.Machine CdsVerif.Spec CdsVerif.Lin CdsVerif.Algo.QueueLin

/-- In state `s1` thread `t` is about to perform the validating load of `h->m_pNext` that reads null: `h` is `head`,
    the chain from `head` is `[h]`, the abstract queue is empty. -/
def EmptyAt (s1 : St) (t : Tid) : Prop :=
  ∃ a, s1.pc t = .deqNx2 a none ∧ s1.head = a ∧ s1.next a = none ∧ absNodes s1 = [a] ∧ absQueue s1 = []

/-- The MoirQueue machine with its linearization-point bookkeeping.  No linearization is tentative: `lpRet` and
    `postRet` coincide. -/
def qsys : QSys St where
  model := model
  init := init
  Inv := SInv
  absQ := absQueue
  lpRet := fun s t => postRet (s.pc t)
  postRet := fun s t => postRet (s.pc t)
  opOf := fun s t => opOf s.val (s.pc t)
  EmptyAt := EmptyAt

theorem opOf_none_of_post {val : Nat → Int} {pc : PC} {r : GRet} (h : postRet pc = some r) : opOf val pc = none := by
  cases pc <;> simp_all [postRet, opOf]

theorem qsys_ok : qsys.OK where
  inv_init := ⟨[dummy], sinv_init⟩
  abs_init := by simp [qsys, absQueue, absNodes, init, walk]
  lp_init := by intro t; simp [qsys, init, postRet]
  op_init := by intro t; simp [qsys, init, opOf]
  post_lp := by intro s t r h; exact h
  post_op := by intro s t r h; exact opOf_none_of_post h
  lp_post := by intro s t r h _; exact h
  empty_abs := by intro s t ⟨a, _, _, _, _, h⟩; exact h
  invoke := by
    intro s t op s' ⟨l, hl⟩ hs
    obtain ⟨hl', he⟩ := sinvl_invoke hl hs
    refine ⟨⟨l, hl'⟩, ⟨?_, ?_⟩, ?_, he.now.1, he.now.2, ?_⟩
    · intro t2 ht; simp only [qsys]; rw [he.frame t2 ht]
    · intro t2 ht; simp only [qsys]; rw [he.frame t2 ht, he.ops t2 ht]
    · simp [qsys, he.was, postRet]
    · simp only [qsys]; rw [hl.absQueue_eq, hl'.absQueue_eq, he.abs]
  step := by
    intro s t s' ev ⟨l, hl⟩ hs
    obtain ⟨l', hl', he⟩ := sinvl_step hl hs
    refine ⟨⟨l', hl'⟩, ⟨?_, ?_⟩, ?_, ?_, ?_, he.op, ?_⟩
    · intro t2 ht; simp only [qsys]; rw [he.frame t2 ht]
    · intro t2 ht; simp only [qsys]; rw [he.frame t2 ht, he.val]
    · simp only [qsys]; rw [hl.absQueue_eq, hl'.absQueue_eq, he.val]; exact he.lp
    · simp only [qsys]; rw [hl.absQueue_eq, hl'.absQueue_eq, he.val]; intro hc; rw [he.nolp hc]
    · intro r hr; exact Or.inl (he.keep r hr)
    · intro h1 h2
      obtain ⟨a, e1, e2, e3, e4⟩ := he.emp h1 h2
      exact ⟨a, e1, e2, e3, by rw [hl.absNodes_eq, e4], by rw [hl.absQueue_eq, e4]; rfl⟩
  result := by
    intro s t s' r ⟨l, hl⟩ hs
    obtain ⟨hl', hdone, hidl, hframe, hval, -⟩ := sinvl_result hl hs
    refine ⟨⟨l, hl'⟩, ⟨?_, ?_⟩, ?_, ?_, ?_, ?_⟩
    · intro t2 ht; simp only [qsys]; rw [hframe t2 ht]
    · intro t2 ht; simp only [qsys]; rw [hframe t2 ht, hval]
    · simp [qsys, hdone, postRet]
    · simp [qsys, hidl, postRet]
    · simp [qsys, hidl, opOf]
    · simp only [qsys]; rw [hl.absQueue_eq, hl'.absQueue_eq, hval]

/-! ### Main theorems (instances of `Algo/QueueLin/Ghost.lean`) -/

/-- **Linearizability of MoirQueue** (Herlihy–Wing, with completion of pending operations). -/
theorem moir_linearizable (sched : List (Tid × Act)) (s : St) (os : List (Tid × Obs))
    (h : model.run init sched = some (s, os)) :
    ∃ extra : List (OpRec GOp GRet),
      (∀ e ∈ extra, pendingOf os e.tid = some (e.op, e.inv) ∧ e.res = os.length ∧
          postRet (s.pc e.tid) = some e.ret) ∧
      extra.Pairwise (fun a b => a.tid ≠ b.tid) ∧
      Linearizable fifo (historyOf os ++ extra) :=
  linearizable qsys_ok sched s os h

theorem moir_linearizable_no_effect_pending (sched : List (Tid × Act)) (s : St) (os : List (Tid × Obs))
    (h : model.run init sched = some (s, os)) (hq : ∀ t, postRet (s.pc t) = none) :
    Linearizable fifo (historyOf os) :=
  linearizable_no_effect_pending qsys_ok sched s os h hq

theorem moir_linearizable_complete_runs (sched : List (Tid × Act)) (s : St) (os : List (Tid × Obs))
    (h : model.run init sched = some (s, os)) (hq : ∀ t, s.pc t = .idle) :
    Linearizable fifo (historyOf os) :=
  moir_linearizable_no_effect_pending sched s os h (fun t => by simp [hq t, postRet])

theorem moir_no_invention (sched : List (Tid × Act)) (s : St) (os : List (Tid × Obs))
    (h : model.run init sched = some (s, os)) (r : OpRec GOp GRet) (hr : r ∈ historyOf os)
    (hop : r.op = ⟨"deq", []⟩) (v : Int) (hret : r.ret = [1, v]) :
    ∃ i t', i < r.res ∧ os[i]? = some (t', .call ⟨"enq", [v]⟩) :=
  no_invention qsys_ok sched s os h r hr hop v hret

theorem moir_no_duplication (sched : List (Tid × Act)) (s : St) (os : List (Tid × Obs))
    (h : model.run init sched = some (s, os)) :
    ∃ extra : List (OpRec GOp GRet),
      (∀ e ∈ extra, pendingOf os e.tid = some (e.op, e.inv) ∧ e.res = os.length ∧
          postRet (s.pc e.tid) = some e.ret) ∧
      extra.Pairwise (fun a b => a.tid ≠ b.tid) ∧
      ∀ v, (historyOf os).countP (isDeqOf v) ≤ (historyOf os ++ extra).countP (isEnq v) :=
  no_duplication qsys_ok sched s os h

/-- **The empty dequeue, on runs.**  If a completed `deq` of a run returned `[0]`, there is an instant `j` strictly
    between its call and its return such that in the state `s1` reached by the first `j` actions of the run the
    calling thread is about to perform the validating load of `h->m_pNext` that reads null, `h` is `head`, the chain
    from `head` is `[h]` and the abstract queue is empty. -/
theorem moir_empty_hindsight (sched : List (Tid × Act)) (s : St) (os : List (Tid × Obs))
    (h : model.run init sched = some (s, os)) (r : OpRec GOp GRet) (hr : r ∈ historyOf os) (hret : r.ret = [0]) :
    ∃ j s1, r.inv < j ∧ j < r.res ∧ model.run init (sched.take j) = some (s1, os.take j) ∧
      EmptyAt s1 r.tid ∧ absQueue s1 = [] :=
  empty_hindsight qsys_ok sched s os h r hr hret

/-- Refinement, on `absQueue`: the step of `t` that fixes its result `r` (linearization point) is the `fifo`
    transition of `t`'s operation with result `r`; all other steps do not change the abstract queue. -/
theorem step_refines {s s' : St} {t : Tid} {ev : Ev} (h : SInv s) (hs : step s t = some (s', ev)) :
    (postRet (s.pc t) = none → ∀ r, postRet (s'.pc t) = some r →
      ∃ op, opOf s.val (s.pc t) = some op ∧ fifo.next (absQueue s) op r = some (absQueue s')) ∧
    ((postRet (s.pc t) ≠ none ∨ postRet (s'.pc t) = none) → absQueue s' = absQueue s) := by
  have := qsys_ok.step s t s' ev h hs
  exact ⟨this.lp, this.nolp⟩

/-- A dequeue linearizes "empty" only at a validating load of `h->m_pNext` that reads null; at that instant `h` is
    `head`, `h` is the only node of the chain, and the abstract queue is empty; the operation returns `[0]` without
    any further step. -/
theorem deq_empty_step {s s' : St} {t : Tid} {ev : Ev} (h : SInv s) (hs : step s t = some (s', ev))
    (hpre : postRet (s.pc t) = none) (hpost : postRet (s'.pc t) = some [0]) :
    EmptyAt s t ∧ s'.pc t = .done [0] ∧ absQueue s' = [] := by
  have hq := qsys_ok.step s t s' ev h hs
  have he : EmptyAt s t := hq.empty hpre hpost
  obtain ⟨a, hpc, hhd, hnx, hnodes, hq0⟩ := he
  refine ⟨⟨a, hpc, hhd, hnx, hnodes, hq0⟩, ?_, ?_⟩
  · simp only [step, hpc, hnx] at hs
    simp at hs; obtain ⟨rfl, -⟩ := hs
    simp [upd]
  · obtain ⟨op, -, hn⟩ := hq.lp hpre _ hpost
    have : qsys.absQ s = [] := hq0
    rw [this] at hn
    have h2 := fifo_ret0 hn
    exact h2

end CdsVerif.Algo.Moir

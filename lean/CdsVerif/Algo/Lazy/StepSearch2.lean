/-
  Preservation of the LazyList invariant, and the effect on the abstract map: the validating load of `protect( pPrev->m_pNext )` in `search`; it ends `search` when it reads an unmarked pointer to a node whose key is not smaller (for `find` / `contains` with another key there, or at the tail: linearization point "absent").
-/
import CdsVerif.Algo.Lazy.Inv
namespace CdsVerif.Algo.Lazy
open CdsVerif.Machine CdsVerif.Spec CdsVerif.Lin
open CdsVerif.Algo.Michael (Chain insAfter mem_insAfter pairwise_insAfter LPok)

set_option maxHeartbeats 8000000 in
theorem sinvl_step_sLd2 {s s' : St} {t : Tid} {ev : Ev} {L : List Nat} {o : OpK} {p : Nat} {x : Option Nat} {mk : Bool}
    (h : SInvL s L) (hpc : s.pc t = .sLd2 o p x mk) (hs : step s t = some (s', ev)) :
    ∃ L', SInvL s' L' ∧ StepEff s t s' L L' := by
  have hz := h.zero_mem
  have hprev := h.lkPrev t p (by simp [hpc, pcPrev])
  have hkprev := h.keyPrev t p (by simp [hpc, pcPrev])
  simp only [hpc, skey] at hkprev
  have hnm := fun c => h.next_mem (a := p) (b := c)
  have habs := fun c r => h.lp_absent (p := p) (c := c) (o := o) (r := r)
  have habsm := fun c r => h.lp_absent_marked (c := c) (o := o) (r := r)
  pc_facts
  sinv_open h
  simp only [step, hpc] at hs
  split at hs
  next heq' =>
    simp at hs; obtain ⟨rfl, -⟩ := hs
    obtain ⟨hx, hmk⟩ := heq'
    cases x with
    | none => step_close L
    | some c =>
      cases mk with
      | true => step_close L
      | false =>
        have hpL : p ∈ L := hprev.2.resolve_right (by simp [hmk])
        obtain ⟨hc0, hcL, hsc⟩ := hnm c hpL hmk hx
        cases o <;> step_close L
  next hne' =>
    simp at hs; obtain ⟨rfl, -⟩ := hs
    step_close L

end CdsVerif.Algo.Lazy

"""Per-property check definitions.  TABLE maps a property id to (level, function)."""
import json
import os
import re
import subprocess

import vlib
import steps
from steps import lean_step, tie_H, TRUSTED_COMMON


def base_cov(res, modelled_not_verified, partial=()):
    res.cov["trusted_base"] = TRUSTED_COMMON + ["modelled, not verified: " + m for m in modelled_not_verified]
    res.cov["partial_statements"] = list(partial)
    res.cov["rule"] = ("cases = (client program, schedule) pairs generated from VERIF_SEED by splitmix64; "
                       "distinct = distinct (variant, hash of the (thread, kind, location) sequence of atomic operations); "
                       "non-trivial = the execution contains at least one failed CAS or one back-off (a contended step)")
    res.assumptions = ["SC interleavings only", "data-race freedom of non-atomic fields"]


def c09(res, thorough):
    base_cov(res, ["memory orders", "back-off timing", "allocators of container:: wrappers", "FC wait strategies other than backoff"],
             partial=[])
    lean_step(res, "CdsVerif.Props.C09", thorough)
    n = 20000 if thorough else 1500
    tie_H(res, "stack", [
        {"args": ["--mode", "mixed", "--threads", "3", "--ops", "4"], "cases": n},
        {"args": ["--mode", "enum2" if thorough else "enum1", "--threads", "2", "--ops", "3"], "cases": 30 if thorough else 12},
    ])


TABLE = {
    "C09": ("translation_validation", c09),
}


def replay(prop, path):
    obj = json.load(open(path))
    kind = obj.get("kind")
    if kind in ("failing-history", "hang", "oracle"):
        exe = vlib.build_client(obj["client"])
        args = [a for a in obj["args"]]
        # drop the mode, use the recorded schedule
        cid = str(obj["case"]).split(".")[0]
        cmd = [exe, "--seed", str(obj["seed"])] + args + ["--first", cid, "--cases", "1", "--replay", obj["schedule"], "--trace", "1"]
        p = subprocess.run(cmd, capture_output=True, text=True, timeout=120)
        print(p.stdout[-6000:])
        if p.returncode != 0:
            print("replay: run ended with status", p.returncode)
            return 1
        v = vlib.driver(["lincheck"], p.stdout)
        print(v)
        bad = "NOTLIN" in v or re.search(r"^X ", p.stdout, flags=re.M)
        return 1 if bad else 0
    print(json.dumps(obj, indent=1)[:4000])
    print("replay: this replay names a proof/audit/correspondence obligation; re-run ./check %s" % prop)
    return 1

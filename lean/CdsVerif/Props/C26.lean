/-
  C26 — `cds::bitop::bit_reverse_counter<size_t>` (cds/details/bit_reverse_counter.h), the heap-slot
  allocator of MSPriorityQueue, hands out slots level by level in bit-reversed order.

  Property theorems only.  The model is `CdsVerif.Algo.Counter` (its per-bit primitive is the generated
  `Gen.BitopGeneric.complement64`); the definitions used in the statements,

    revBits k j : reverse the k low bits of j          (spec: `testBit_revBits`)
    incN n      : state after n calls of `inc` from `Ctr.init`
    slot n      : value returned by the n-th `inc` (n ≥ 1), as a Nat

  and all helper lemmas live in `CdsVerif.Algo.Counter.Lemmas`.  All theorems are proved for every `n`
  in range by induction (closed form `incN n = closed n`), not by enumeration.  The stated bound is
  `n < 2^63`; the lemmas actually hold up to `n < 2^64` (the C++ counter wraps at `2^64`).
-/
import CdsVerif.Algo.Counter.Lemmas
namespace CdsVerif.Props.C26
open CdsVerif.Algo.Counter

/-- Closed form of every reachable state and of every returned slot. -/
theorem C26_characterisation : ∀ n, 1 ≤ n → n < 2 ^ 63 →
    let k := Nat.log2 n
    (incN n).counter.toNat = n ∧ (incN n).highBit = (k : Int) ∧
    (incN n).reversed.toNat = 2 ^ k + revBits k (n - 2 ^ k) ∧
    slot n = 2 ^ k + revBits k (n - 2 ^ k) := by
  intro n h1 hn k
  have hn64 : n < 2 ^ 64 := by omega
  have hs := slot_eq n h1 hn64
  obtain ⟨m, rfl⟩ : ∃ m, n = m + 1 := ⟨n - 1, by omega⟩
  -- `slot (m+1)` is by definition the `reversed` field after the `(m+1)`-th `inc`
  have hrev : (incN (m + 1)).reversed.toNat = slot (m + 1) := by
    rw [slot, incN, incN_eq_closed m (by omega), inc_closed m hn64]
  rw [hrev, incN_eq_closed _ hn64, closed_pos _ h1]
  exact ⟨ofNat_toNat_of_lt _ hn64, rfl, hs, hs⟩

/-- The `n`-th slot lies on heap level `log2 n`. -/
theorem C26_slot_range {n : Nat} : 1 ≤ n → n < 2 ^ 63 →
    2 ^ (Nat.log2 n) ≤ slot n ∧ slot n < 2 ^ (Nat.log2 n + 1) := by
  intro h1 hn
  have hR := revBits_lt (Nat.log2 n) (n - 2 ^ Nat.log2 n)
  rw [slot_eq n h1 (by omega), Nat.pow_succ]
  omega

/-- No slot is handed out twice while the counter only grows. -/
theorem C26_slots_injective : ∀ m n, 1 ≤ m → m < n → n < 2 ^ 63 → slot m ≠ slot n := by
  intro m n h1 hmn hn heq
  have hlog : Nat.log2 m = Nat.log2 n := by
    rw [← log2_slot m h1 (by omega), ← log2_slot n (by omega) (by omega), heq]
  obtain ⟨a, ha, hma⟩ := level_decomp m h1
  obtain ⟨b, hb, hnb⟩ := level_decomp n (by omega)
  have hk : Nat.log2 n < 64 := (Nat.log2_lt (by omega)).2 (by omega)
  rw [hlog] at ha hma
  generalize Nat.log2 n = k at *
  rw [hma, hnb, slot_two_pow_add k a hk ha, slot_two_pow_add k b hk hb] at heq
  have := revBits_injective k a b ha hb (by omega)
  omega

/-- Every complete level is a permutation: the first `2^L − 1` slots are exactly `1 … 2^L − 1`
    (surjectivity here; injectivity is `C26_slots_injective`). -/
theorem C26_complete_levels : ∀ L, 1 ≤ L → L ≤ 62 → ∀ s, 1 ≤ s → s < 2 ^ L →
    ∃ n, 1 ≤ n ∧ n < 2 ^ L ∧ slot n = s := by
  intro L _ hL s h1 hs
  have hL64 : 2 ^ L ≤ 2 ^ 62 := Nat.pow_le_pow_right (by omega) hL
  obtain ⟨n, hn1, hlog, hslot⟩ := exists_slot_eq s h1 (by omega)
  refine ⟨n, hn1, ?_, hslot⟩
  have : Nat.log2 n < L := by rw [hlog]; exact (Nat.log2_lt (by omega)).2 hs
  exact (Nat.log2_lt (by omega)).1 this

/-- `dec` returns the slot most recently produced and restores the exact previous state,
    for every reachable state. -/
theorem C26_dec_undoes : ∀ n, n < 2 ^ 63 - 1 →
    let c := incN n
    (c.inc.2).dec = (c.inc.1, c) := by
  intro n hn c
  show ((incN n).inc.2).dec = ((incN n).inc.1, incN n)
  rw [incN_eq_closed n (by omega), inc_closed n (by omega), dec_closed n (by omega)]

/-- A Dyck-balanced sequence of `inc`/`dec` (`true` = inc, `false` = dec; every prefix has at least as
    many incs as decs, equal totals) returns the counter to the state it started from — here from any
    reachable state `incN n`. -/
theorem C26_balanced_returns_from (n : Nat) (ops : List Bool)
    (hpre : ∀ p, p <+: ops → p.count false ≤ p.count true)
    (htot : ops.count true = ops.count false)
    (hlen : n + ops.length < 2 ^ 63) :
    (Ctr.run (incN n) ops).2 = incN n := by
  rw [incN_eq_closed n (by omega),
    run_closed ops n (fun p hp => by have := hpre p hp; omega) (by omega), htot]
  congr 1; omega

/-- … in particular from the initial state. -/
theorem C26_balanced_returns (ops : List Bool)
    (hpre : ∀ p, p <+: ops → p.count false ≤ p.count true)
    (htot : ops.count true = ops.count false)
    (hlen : ops.length ≤ 2 ^ 62) :
    (Ctr.run Ctr.init ops).2 = Ctr.init :=
  C26_balanced_returns_from 0 ops hpre htot (by omega)

/-- The literal claim "the first `n` slots are a permutation of `1..n` for EVERY `n`" is false:
    for `n = 5` the slots are 1,2,3,4,6. -/
theorem C26_literal_false : ¬ (∀ s, 1 ≤ s → s ≤ 5 → ∃ n, 1 ≤ n ∧ n ≤ 5 ∧ slot n = s) := by
  intro h
  obtain ⟨n, h1, h5, hn⟩ := h 5 (by omega) (by omega)
  have : n = 1 ∨ n = 2 ∨ n = 3 ∨ n = 4 ∨ n = 5 := by omega
  rcases this with rfl | rfl | rfl | rfl | rfl <;> revert hn <;> decide

example : (List.range 9).map (fun i => slot (i + 1)) = [1, 2, 3, 4, 6, 5, 7, 8, 12] := by decide

/-- The first `n` slots are exactly the set `{1..n}` iff `k`-bit reversal maps `{0..n-2^k}` onto itself
    (`k = log2 n`).  E.g. true for `n = 6` (offsets 0,1,2 ↦ 0,2,1), false for `n = 5` (0,1 ↦ 0,2). -/
theorem C26_prefix_permutation_iff (n : Nat) (h1 : 1 ≤ n) (hn : n < 2 ^ 63) :
    let k := Nat.log2 n
    (∀ s, (1 ≤ s ∧ s ≤ n) ↔ ∃ m, 1 ≤ m ∧ m ≤ n ∧ slot m = s) ↔
    (∀ t, t ≤ n - 2 ^ k ↔ ∃ j, j ≤ n - 2 ^ k ∧ revBits k j = t) := by
  intro k
  obtain ⟨d, hd, hnd⟩ := level_decomp n h1
  have hk : k < 64 := (Nat.log2_lt (by omega)).2 (by omega)
  show (∀ s, (1 ≤ s ∧ s ≤ n) ↔ ∃ m, 1 ≤ m ∧ m ≤ n ∧ slot m = s) ↔
    (∀ t, t ≤ n - 2 ^ k ↔ ∃ j, j ≤ n - 2 ^ k ∧ revBits k j = t)
  have hkdef : Nat.log2 n = k := rfl
  rw [hkdef] at hd hnd
  have hpos := Nat.two_pow_pos k
  have hnd' : n - 2 ^ k = d := by omega
  rw [hnd']
  constructor
  · intro H t
    constructor
    · intro ht
      obtain ⟨m, hm1, hmn, hms⟩ := (H (2 ^ k + t)).1 ⟨by omega, by omega⟩
      have hlog : Nat.log2 m = k := by
        rw [← log2_slot m hm1 (by omega), hms, log2_two_pow_add k t (by omega)]
      obtain ⟨j, hj, hmj⟩ := level_decomp m hm1
      rw [hlog] at hj hmj
      rw [hmj, slot_two_pow_add k j hk hj] at hms
      exact ⟨j, by omega, by omega⟩
    · rintro ⟨j, hj, rfl⟩
      have := (H (slot (2 ^ k + j))).2 ⟨2 ^ k + j, by omega, by omega, rfl⟩
      rw [slot_two_pow_add k j hk (by omega)] at this
      omega
  · intro H s
    constructor
    · rintro ⟨hs1, hsn⟩
      by_cases hlt : s < 2 ^ k
      · obtain ⟨m, hm1, hlog, hms⟩ := exists_slot_eq s hs1 (by omega)
        have h2 : Nat.log2 m < k := by rw [hlog]; exact (Nat.log2_lt (by omega)).2 hlt
        have h3 : m < 2 ^ k := (Nat.log2_lt (by omega)).1 h2
        exact ⟨m, hm1, by omega, hms⟩
      · obtain ⟨j, hj, hjt⟩ := (H (s - 2 ^ k)).1 (by omega)
        refine ⟨2 ^ k + j, by omega, by omega, ?_⟩
        rw [slot_two_pow_add k j hk (by omega), hjt]; omega
    · rintro ⟨m, hm1, hmn, rfl⟩
      have hr := C26_slot_range hm1 (by omega : m < 2 ^ 63)
      have hp1 := Nat.two_pow_pos (Nat.log2 m)
      refine ⟨by omega, ?_⟩
      have hle : Nat.log2 m ≤ k := log2_mono hmn
      rcases Nat.lt_or_eq_of_le hle with hlt | heq
      · have : 2 ^ (Nat.log2 m + 1) ≤ 2 ^ k := Nat.pow_le_pow_right (by omega) hlt
        omega
      · obtain ⟨j, hj, hmj⟩ := level_decomp m hm1
        rw [heq] at hj hmj
        have := (H (revBits k j)).2 ⟨j, by omega, rfl⟩
        rw [hmj, slot_two_pow_add k j hk hj]
        omega

/-! ## Sanity checks / non-vacuity -/

example : (List.range 6).map (fun i => slot (i + 1)) = [1, 2, 3, 4, 6, 5] := by decide

/-- hypotheses of the ranged theorems are satisfiable, and the closed form computes the real values -/
example : slot 5 = 2 ^ 2 + revBits 2 1 ∧ revBits 2 1 = 2 := by
  have h : Nat.log2 5 = 2 := (Nat.log2_eq_iff (by omega)).2 (by omega)
  have := (C26_characterisation 5 (by omega) (by omega)).2.2.2
  rw [h] at this
  exact ⟨this, by decide⟩

example : revBits 8 0b00010110 = 0b01101000 := by decide

example : ∃ n, n < 2 ^ 63 - 1 ∧ (incN n).inc.2.dec = ((incN n).inc.1, incN n) :=
  ⟨7, by omega, C26_dec_undoes 7 (by omega)⟩

/-- the Dyck hypotheses are satisfiable: `inc inc dec inc dec dec` -/
example : (Ctr.run Ctr.init [true, true, false, true, false, false]).2 = Ctr.init := by
  apply C26_balanced_returns
  · intro p hp
    have hl := hp.length_le
    rw [List.prefix_iff_eq_take.1 hp]
    have : p.length = 0 ∨ p.length = 1 ∨ p.length = 2 ∨ p.length = 3 ∨ p.length = 4 ∨
        p.length = 5 ∨ p.length = 6 := by simp at hl; omega
    rcases this with h | h | h | h | h | h | h <;> rw [h] <;> decide
  · decide
  · simp
example : (Ctr.run Ctr.init [true, true, false, true, false, false]).2 = Ctr.init := by decide

/-- an unbalanced run does not return: the Dyck hypothesis is not redundant -/
example : (Ctr.run Ctr.init [true, true, false]).2 ≠ Ctr.init := by decide

end CdsVerif.Props.C26

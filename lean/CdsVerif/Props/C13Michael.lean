/-
  C13 — the Harris–Michael ordered list (cds::intrusive::MichaelList<HP>: insert, erase with functor, find with
  functor, contains) is a linearizable set / map: every concurrent history of the atomic-step model
  `Algo/Michael/Model.lean` is linearizable to `Spec.map`; no key is ever present twice; a marked node is frozen;
  a node is marked by exactly one erase.
  Property theorems only; the model, the invariant and the proofs live in
  `Algo/Michael/{Model,Lemmas,Inv,StepSearch,StepCas,Reach,Lin}.lean`.

  Route completed: FULL linearizability for all schedules, any number of threads and any keys, including the
  hindsight linearization points of the unsuccessful `find` / `erase` / `contains` and of the "key found" answers
  (failed `insert`, successful `find` / `contains`), by a ghost log with tentative entries that are withdrawn when the
  re-validation `pPrev->load() == pCur` fails.  No `…_partial` fallback was needed.

  Assumption of the model (not proved here): a node is not reused while any thread may still hold a pointer to it
  (garbage-collected heap).  This is what the hazard pointers taken by `guards.protect` provide (C01/C02).
  Tie to the real code: traces of the harness client `list`, variant `imichael_hp_named`, are replayed step by step
  by `cdsdriver replay michael` (atomic events and results).
-/
import CdsVerif.Algo.Michael.Lin
namespace CdsVerif.Props.C13Michael
open CdsVerif.Machine CdsVerif.Lin CdsVerif.Spec CdsVerif.Algo

/-- Linearizability, general form (Herlihy–Wing with completion of pending operations).  For EVERY schedule (any
    number of threads, any client program of `insert k v` / `erase k` / `find k` / `contains k`, any keys, any
    interleaving of the atomic steps), the history of the completed operations of the run — extended by response
    records for pending operations that have already passed their linearization point definitively (at most one
    per thread; each is an operation pending in `os`, completed with the result fixed at its linearization point
    and the response time "end of run"), all other pending operations being dropped — is linearizable to the
    sequential map: `insert k v → [1] | [0]`, `erase k → [1, v] | [0]`, `find k → [1, v] | [0]`,
    `contains k → [1] | [0]`.

    The literal statement "`historyOf os` is linearizable" is FALSE for runs that stop between the successful CAS
    of an `insert` and its return while another thread has already found the key (see the `example`s below): such
    an `insert` has to be completed, which is what `extra` does. -/
theorem C13_michael_linearizable (sched : List (Tid × Act)) (s : Michael.St) (os : List (Tid × Obs))
    (h : Michael.model.run Michael.init sched = some (s, os)) :
    ∃ extra : List (OpRec GOp GRet),
      (∀ e ∈ extra, Michael.pendingOf os e.tid = some (e.op, e.inv) ∧ e.res = os.length ∧
          Michael.postRet s.val (s.pc e.tid) = some e.ret) ∧
      extra.Pairwise (fun a b => a.tid ≠ b.tid) ∧
      Linearizable map (Michael.historyOf os ++ extra) :=
  Michael.michael_linearizable sched s os h

/-- Runs in which every invoked operation has returned: the history is linearizable as it is. -/
theorem C13_michael_linearizable_complete_runs (sched : List (Tid × Act)) (s : Michael.St) (os : List (Tid × Obs))
    (h : Michael.model.run Michael.init sched = some (s, os)) (hq : ∀ t, s.pc t = .idle) :
    Linearizable map (Michael.historyOf os) :=
  Michael.michael_linearizable_complete_runs sched s os h hq

/-- More generally: runs at whose end no thread is between its definitive linearization point and its return
    (threads may be in the middle of operations that have not taken effect; these are dropped). -/
theorem C13_michael_linearizable_no_effect_pending (sched : List (Tid × Act)) (s : Michael.St)
    (os : List (Tid × Obs)) (h : Michael.model.run Michael.init sched = some (s, os))
    (hq : ∀ t, Michael.postRet s.val (s.pc t) = none) :
    Linearizable map (Michael.historyOf os) :=
  Michael.michael_linearizable_no_effect_pending sched s os h hq

/-- `historyOf` is faithful: a record's `inv` / `res` are the positions of its call and return observations. -/
theorem C13_michael_history_sound (os : List (Tid × Obs)) (r : OpRec GOp GRet) (h : r ∈ Michael.historyOf os) :
    os[r.inv]? = some (r.tid, .call r.op) ∧ os[r.res]? = some (r.tid, .ret r.ret) ∧ r.inv < r.res :=
  Michael.historyOf_sound os r h

/-- Every completed operation takes effect at an instant strictly inside its interval: there is `j` with
    `call < j < return` such that in the state reached by the first `j` actions of the run the abstract map (the
    `(key, payload)` pairs of the unmarked nodes reachable from the head) answers the operation with the returned
    result according to the sequential specification. -/
theorem C13_michael_effect_instant (sched : List (Tid × Act)) (s : Michael.St) (os : List (Tid × Obs))
    (h : Michael.model.run Michael.init sched = some (s, os)) (r : OpRec GOp GRet) (hr : r ∈ Michael.historyOf os) :
    ∃ j s1, r.inv < j ∧ j < r.res ∧ Michael.model.run Michael.init (sched.take j) = some (s1, os.take j) ∧
      ∃ m', map.next (Michael.absMap s1) r.op r.ret = some m' :=
  Michael.michael_effect_instant sched s os h r hr

/-- Hindsight, "absent": an `erase k` / `find k` / `contains k` that answered `[0]` has an instant strictly between
    its call and its return at which no unmarked node reachable from the head carried the key `k`. -/
theorem C13_michael_absent_hindsight (sched : List (Tid × Act)) (s : Michael.St) (os : List (Tid × Obs))
    (h : Michael.model.run Michael.init sched = some (s, os)) (r : OpRec GOp GRet) (hr : r ∈ Michael.historyOf os)
    (k : Int) (hop : r.op = ⟨"erase", [k]⟩ ∨ r.op = ⟨"find", [k]⟩ ∨ r.op = ⟨"contains", [k]⟩) (hret : r.ret = [0]) :
    ∃ j s1, r.inv < j ∧ j < r.res ∧ Michael.model.run Michael.init (sched.take j) = some (s1, os.take j) ∧
      ∀ v, (k, v) ∉ Michael.absMap s1 :=
  Michael.michael_absent_hindsight sched s os h r hr k hop hret

/-- Hindsight, "present": a failing `insert k _`, a `find k → [1, v]`, a `contains k → [1]`, an `erase k → [1, v]`
    has an instant strictly between its call and its return at which an unmarked node reachable from the head
    carried the key `k`, with the payload that is reported (if one is reported). -/
theorem C13_michael_present_hindsight (sched : List (Tid × Act)) (s : Michael.St) (os : List (Tid × Obs))
    (h : Michael.model.run Michael.init sched = some (s, os)) (r : OpRec GOp GRet) (hr : r ∈ Michael.historyOf os)
    (k : Int)
    (hop : (∃ v, r.op = ⟨"insert", [k, v]⟩ ∧ r.ret = [0]) ∨ (∃ v, r.op = ⟨"find", [k]⟩ ∧ r.ret = [1, v]) ∨
      (r.op = ⟨"contains", [k]⟩ ∧ r.ret = [1]) ∨ (∃ v, r.op = ⟨"erase", [k]⟩ ∧ r.ret = [1, v])) :
    ∃ j s1 v, r.inv < j ∧ j < r.res ∧ Michael.model.run Michael.init (sched.take j) = some (s1, os.take j) ∧
      (k, v) ∈ Michael.absMap s1 ∧ ∀ w, r.ret = [1, w] → w = v :=
  Michael.michael_present_hindsight sched s os h r hr k hop

/-- Refinement: in a reachable state, the step at which thread `t` fixes its result `r` — tentatively for the
    hindsight points — (successful CAS of `link_node`, successful marking CAS of `unlink_node`, validating load of
    `pCur->m_pNext` / of `m_pHead`, successful validation of `pPrev`, successful helping CAS that empties the tail) is
    exactly the `Spec.map` transition of `t`'s operation with result `r` on the abstract map; every other step
    (in particular every physical unlink) leaves the abstract map unchanged. -/
theorem C13_michael_lp_refines (s s' : Michael.St) (t : Tid) (ev : Ev)
    (hreach : Michael.model.Reachable Michael.init s) (hs : Michael.step s t = some (s', ev)) :
    (Michael.lpRet s.key s.val (s.pc t) = none → ∀ r, Michael.lpRet s'.key s'.val (s'.pc t) = some r →
      ∃ op m', Michael.opOf s.key s.val (s.pc t) = some op ∧ map.next (Michael.absMap s) op r = some m' ∧
        ∀ k v, mfind m' k = some v ↔ (k, v) ∈ Michael.absMap s') ∧
    ((Michael.lpRet s.key s.val (s.pc t) ≠ none ∨ Michael.lpRet s'.key s'.val (s'.pc t) = none) →
      ∀ k v, (k, v) ∈ Michael.absMap s' ↔ (k, v) ∈ Michael.absMap s) :=
  Michael.step_refines hreach hs

/-- Structure of the reachable states: following the pointers from `m_pHead` (cell 0) visits the finite list
    `absNodes s` and ends in null; ALL linked nodes, marked or not, are strictly sorted by key, hence pairwise
    different; they are allocated nodes; `m_pHead` is never marked. -/
theorem C13_michael_chain_sorted (s : Michael.St) (hreach : Michael.model.Reachable Michael.init s) :
    Michael.Chain s.next (some 0) (0 :: Michael.absNodes s) ∧
      (Michael.absNodes s).Pairwise (fun a b => s.key a < s.key b) ∧ (Michael.absNodes s).Nodup ∧
      (∀ a, a ∈ Michael.absNodes s → 0 < a ∧ a < s.cnt) ∧ s.mark 0 = false :=
  Michael.reachable_structure s hreach

/-- No key is ever present twice: in every reachable state the keys of the abstract map (= of the unmarked nodes
    reachable from the head) are strictly increasing, in particular duplicate-free. -/
theorem C13_michael_no_duplicate_keys (s : Michael.St) (hreach : Michael.model.Reachable Michael.init s) :
    (Michael.absMap s).Pairwise (fun p q => p.1 < q.1) ∧ ((Michael.absMap s).map (·.1)).Nodup :=
  Michael.reachable_no_duplicate_keys s hreach

/-- A marked (logically deleted) node is frozen: no action of any thread changes its link or removes its mark. -/
theorem C13_michael_marked_frozen (s s' : Michael.St) (t : Tid) (a : Act) (o : Obs)
    (hreach : Michael.model.Reachable Michael.init s) (hap : Michael.model.apply s t a = some (s', o))
    (x : Nat) (hx : s.mark x = true) : s'.mark x = true ∧ s'.next x = s.next x :=
  Michael.marked_frozen hreach hap x hx

/-- Unlinked nodes are marked, and every node ever inserted and not marked is reachable from the head:
    (1) a node that is linked or marked stays linked or marked under every action (only marked nodes leave the
        chain);
    (2) the successful CAS of `link_node` puts the new node on the chain, unmarked. -/
theorem C13_michael_linked_or_marked_forever (s s' : Michael.St) (t : Tid) (a : Act) (o : Obs)
    (hreach : Michael.model.Reachable Michael.init s) (hap : Michael.model.apply s t a = some (s', o))
    (x : Nat) (hx : x ∈ Michael.absNodes s ∨ s.mark x = true) : x ∈ Michael.absNodes s' ∨ s'.mark x = true :=
  Michael.linked_or_marked_forever hreach hap x hx

theorem C13_michael_insert_links (s s' : Michael.St) (t : Tid) (ev : Ev)
    (hreach : Michael.model.Reachable Michael.init s) (hs : Michael.step s t = some (s', ev))
    (n p : Nat) (c : Option Nat) (hpc : s.pc t = .iCas n p c) (hpc' : s'.pc t = .done [1]) :
    n ∈ Michael.absNodes s' ∧ s'.mark n = false :=
  Michael.insert_links hreach hs n p c hpc hpc'

/-- A node is marked by exactly one `erase`, the one that returns success for it.
    (1) The only step that sets the mark of a node `a` is the marking CAS of a thread erasing `key a`, applied to a
        node that is on the chain; after it that thread is definitively going to return `[1, val a]`.
    (2) A thread is in that state (`eUnl … a …`) only by having set the mark of `a` in its last step.
    (3) No two threads are in that state for the same node.
    Together with `C13_michael_marked_frozen` (a mark is never removed, so the precondition "unmarked" of (1) can
    hold at most once per node) every node is marked at most once. -/
theorem C13_michael_erase_once (s s' : Michael.St) (t : Tid) (ev : Ev)
    (hreach : Michael.model.Reachable Michael.init s) (hs : Michael.step s t = some (s', ev)) :
    (∀ a, s.mark a = false → s'.mark a = true →
      ∃ k p x, s.pc t = .eMark k p a x ∧ s'.pc t = .eUnl k p a x ∧ s.key a = k ∧ a ∈ Michael.absNodes s ∧
        Michael.postRet s'.val (s'.pc t) = some [1, s.val a]) ∧
    (∀ k p a x, s'.pc t = .eUnl k p a x → s.mark a = false ∧ s'.mark a = true) ∧
    (∀ t1 t2 k1 p1 a x1 k2 p2 x2, s'.pc t1 = .eUnl k1 p1 a x1 → s'.pc t2 = .eUnl k2 p2 a x2 → t1 = t2) :=
  Michael.erase_once hreach hs

/-! ### Non-vacuity -/

def steps (t : Tid) (n : Nat) : List (Tid × Act) := List.replicate n (t, .step)
def ins (k v : Int) : GOp := ⟨"insert", [k, v]⟩
def era (k : Int) : GOp := ⟨"erase", [k]⟩
def fnd (k : Int) : GOp := ⟨"find", [k]⟩
def con (k : Int) : GOp := ⟨"contains", [k]⟩

/-- Two inserts race on the same position.  Both threads find the list empty and prepare `CAS( head, null, · )`;
    thread 0 wins; thread 1's CAS fails (`cas- head n1 null`), it clears its node's link, searches again and links
    `n2` behind `n1`.  Rendered as harness trace lines in the comments. -/
def raceSched : List (Tid × Act) :=
  [(0, .invoke (ins 5 10))] ++ steps 0 3 ++ [(1, .invoke (ins 7 20))] ++ steps 1 3 ++ steps 0 1 ++ steps 1 9 ++
  [(0, .ret), (1, .ret)]

def raceObs : List (Tid × Obs) :=
  [(0, .call (ins 5 10)),                   -- T 0 C insert [5, 10]
   (0, .ev ⟨"ld", "head", "null", ""⟩),     -- T 0 A ld head null           (protect: load)
   (0, .ev ⟨"ld", "head", "null", ""⟩),     -- T 0 A ld head null           (protect: validating load)
   (0, .ev ⟨"st", "n1", "null", ""⟩),       -- T 0 A st n1 null             (link_node: pNode->m_pNext = pCur)
   (1, .call (ins 7 20)),                   -- T 1 C insert [7, 20]
   (1, .ev ⟨"ld", "head", "null", ""⟩),
   (1, .ev ⟨"ld", "head", "null", ""⟩),
   (1, .ev ⟨"st", "n2", "null", ""⟩),
   (0, .ev ⟨"cas+", "head", "null", "n1"⟩), -- T 0 A cas+ head null n1      (linearization point of insert 5)
   (1, .ev ⟨"cas-", "head", "n1", "null"⟩), -- T 1 A cas- head n1 null      (seen n1, expected null): retry
   (1, .ev ⟨"st", "n2", "null", ""⟩),       -- T 1 A st n2 null             (link_node undoes its store)
   (1, .ev ⟨"ld", "head", "n1", ""⟩),
   (1, .ev ⟨"ld", "head", "n1", ""⟩),
   (1, .ev ⟨"ld", "n1", "null", ""⟩),       -- T 1 A ld n1 null             (protect pCur->m_pNext: load)
   (1, .ev ⟨"ld", "n1", "null", ""⟩),       --                              (validating load)
   (1, .ev ⟨"ld", "head", "n1", ""⟩),       -- T 1 A ld head n1             (pPrev->load() == pCur)
   (1, .ev ⟨"st", "n2", "null", ""⟩),
   (1, .ev ⟨"cas+", "n1", "null", "n2"⟩),   -- T 1 A cas+ n1 null n2        (linearization point of insert 7)
   (0, .ret [1]),
   (1, .ret [1])]

example : (Michael.model.run Michael.init raceSched).map (·.2) = some raceObs := by decide +kernel

example : (Michael.model.run Michael.init raceSched).map
    (fun r => (Michael.absNodes r.1, Michael.absMap r.1, linCheck map (Michael.historyOf r.2))) =
    some ([1, 2], [(5, 10), (7, 20)], true) := by decide +kernel

/-- An erase leaves a marked node behind, a later insert's search unlinks it.  Thread 1 marks `n1` (logical
    deletion) and is delayed before its physical unlink; thread 0's `insert 7` reads `n1.next = null|1`, helps
    (`cas+ head n1 null`) and links `n2`; thread 1's own unlink CAS then fails (`cas- head n2 n1`) and it returns
    success all the same. -/
def helpSched : List (Tid × Act) :=
  [(0, .invoke (ins 5 10))] ++ steps 0 4 ++ [(0, .ret), (1, .invoke (era 5))] ++ steps 1 6 ++
  [(0, .invoke (ins 7 20))] ++ steps 0 8 ++ [(0, .ret)] ++ steps 1 1 ++ [(1, .ret)]

example : (Michael.model.run Michael.init helpSched).map (fun r => r.2.drop 12) =
    some [(1, .ev ⟨"cas+", "n1", "null", "null|1"⟩),  -- T 1 A cas+ n1 null null|1   (linearization point of erase 5)
          (0, .call (ins 7 20)),
          (0, .ev ⟨"ld", "head", "n1", ""⟩),
          (0, .ev ⟨"ld", "head", "n1", ""⟩),
          (0, .ev ⟨"ld", "n1", "null|1", ""⟩),        -- T 0 A ld n1 null|1          (pCur is logically deleted)
          (0, .ev ⟨"ld", "n1", "null|1", ""⟩),
          (0, .ev ⟨"ld", "head", "n1", ""⟩),
          (0, .ev ⟨"cas+", "head", "n1", "null"⟩),    -- T 0 A cas+ head n1 null     (helping: physical unlink)
          (0, .ev ⟨"st", "n2", "null", ""⟩),
          (0, .ev ⟨"cas+", "head", "null", "n2"⟩),
          (0, .ret [1]),
          (1, .ev ⟨"cas-", "head", "n2", "n1"⟩),      -- T 1 A cas- head n2 n1       (the eraser's own unlink fails)
          (1, .ret [1, 10])] := by decide +kernel

example : (Michael.model.run Michael.init helpSched).map
    (fun r => (Michael.absNodes r.1, Michael.absMap r.1, r.1.mark 1, linCheck map (Michael.historyOf r.2))) =
    some ([2], [(7, 20)], true, true) := by decide +kernel

/-- An erase / erase race on one key.  Both threads find `n1`; thread 0's marking CAS wins, thread 1's fails
    (`cas- n1 null|1 null`); thread 1 searches again, unlinks the marked node on behalf of thread 0 and answers 0;
    thread 0's own unlink fails and it answers `[1, 10]`. -/
def eraseRace : List (Tid × Act) :=
  [(0, .invoke (ins 5 10))] ++ steps 0 4 ++ [(0, .ret), (0, .invoke (era 5)), (1, .invoke (era 5))] ++
  steps 0 5 ++ steps 1 5 ++ steps 0 1 ++ steps 1 7 ++ [(1, .ret)] ++ steps 0 1 ++ [(0, .ret)]

example : (Michael.model.run Michael.init eraseRace).map (fun r => r.2.drop 18) =
    some [(0, .ev ⟨"cas+", "n1", "null", "null|1"⟩),  -- thread 0 marks n1
          (1, .ev ⟨"cas-", "n1", "null|1", "null"⟩),  -- T 1 A cas- n1 null|1 null   (seen null|1, expected null)
          (1, .ev ⟨"ld", "head", "n1", ""⟩),
          (1, .ev ⟨"ld", "head", "n1", ""⟩),
          (1, .ev ⟨"ld", "n1", "null|1", ""⟩),
          (1, .ev ⟨"ld", "n1", "null|1", ""⟩),
          (1, .ev ⟨"ld", "head", "n1", ""⟩),
          (1, .ev ⟨"cas+", "head", "n1", "null"⟩),    -- helping; the list is empty now: erase 5 answers 0 here
          (1, .ret [0]),
          (0, .ev ⟨"cas-", "head", "null", "n1"⟩),
          (0, .ret [1, 10])] := by decide +kernel

example : (Michael.model.run Michael.init eraseRace).map (fun r => Michael.historyOf r.2) =
    some [⟨0, ins 5 10, [1], 0, 5⟩, ⟨1, era 5, [0], 7, 26⟩, ⟨0, era 5, [1, 10], 6, 28⟩] := by decide +kernel

example : linCheck map [⟨0, ins 5 10, [1], 0, 5⟩, ⟨1, era 5, [0], 7, 26⟩, ⟨0, era 5, [1, 10], 6, 28⟩] = true := by
  decide +kernel

/-- Hindsight: a find that sees a node being deleted.  Thread 0's `find 5` validates `n1.next = null` (unmarked):
    its tentative linearization point, `n1` IS in the abstract map.  Then thread 1 marks `n1` (erase 5 takes
    effect).  Then thread 0 validates `head == n1` successfully and answers `[1, 10]` — at that step the abstract
    map is empty.  The history is linearizable only because the find is placed at the earlier load. -/
def findHindsight : List (Tid × Act) :=
  [(0, .invoke (ins 5 10))] ++ steps 0 4 ++ [(0, .ret), (0, .invoke (fnd 5))] ++ steps 0 4 ++
  [(1, .invoke (era 5))] ++ steps 1 6

set_option synthInstance.maxSize 2000 in
example : (Michael.model.run Michael.init findHindsight).map
    (fun r => (Michael.absMap r.1, r.1.pc 0, Michael.lpRet r.1.key r.1.val (r.1.pc 0),
      Michael.step r.1 0 |>.map (fun q => (q.1.pc 0, q.2)))) =
    some ([], .sChk (.fnd 5) 0 1 none false, some [1, 10], some (.done [1, 10], ⟨"ld", "head", "n1", ""⟩)) := by
  decide +kernel

example : (Michael.model.run Michael.init (findHindsight ++ [(0, .step), (0, .ret), (1, .step), (1, .ret)])).map
    (fun r => Michael.historyOf r.2) =
    some [⟨0, ins 5 10, [1], 0, 5⟩, ⟨0, fnd 5, [1, 10], 6, 19⟩, ⟨1, era 5, [1, 10], 11, 21⟩] := by decide +kernel

example : linCheck map [⟨0, ins 5 10, [1], 0, 5⟩, ⟨0, fnd 5, [1, 10], 6, 19⟩, ⟨1, era 5, [1, 10], 11, 21⟩] = true := by
  decide +kernel

/-- A tentative linearization that is withdrawn.  As above, but thread 1 also unlinks `n1` and returns before thread
    0 re-validates: `head` is null, the validation fails (`ld head null`), thread 0 restarts and answers `[0]` with a
    new linearization point (the validating load of the empty head). -/
def findWithdrawn : List (Tid × Act) :=
  findHindsight ++ steps 1 1 ++ [(1, .ret)] ++ steps 0 3 ++ [(0, .ret)]

example : (Michael.model.run Michael.init findWithdrawn).map (fun r => (r.2.drop 6).filter (fun x => x.1 == 0)) =
    some [(0, .call (fnd 5)),
          (0, .ev ⟨"ld", "head", "n1", ""⟩),
          (0, .ev ⟨"ld", "head", "n1", ""⟩),
          (0, .ev ⟨"ld", "n1", "null", ""⟩),
          (0, .ev ⟨"ld", "n1", "null", ""⟩),        -- tentative linearization point (5 is present)
          (0, .ev ⟨"ld", "head", "null", ""⟩),      -- validation of pPrev fails: withdrawn, try_again
          (0, .ev ⟨"ld", "head", "null", ""⟩),
          (0, .ev ⟨"ld", "head", "null", ""⟩),      -- linearization point of the failing find (list empty)
          (0, .ret [0])] := by decide +kernel

example : (Michael.model.run Michael.init findWithdrawn).map (fun r => linCheck map (Michael.historyOf r.2)) =
    some true := by decide +kernel

/-- A `contains` that runs into the marked node: it reads `n1.next = null|1`, unlinks `n1` itself and answers 0
    (linearization point: its helping CAS, after which `head` is the last cell). -/
def containsMarked : List (Tid × Act) :=
  [(0, .invoke (ins 5 10))] ++ steps 0 4 ++ [(0, .ret), (1, .invoke (era 5))] ++ steps 1 6 ++
  [(0, .invoke (con 5))] ++ steps 0 6 ++ [(0, .ret)] ++ steps 1 1 ++ [(1, .ret)]

example : (Michael.model.run Michael.init containsMarked).map (fun r => r.2.drop 13) =
    some [(0, .call (con 5)),
          (0, .ev ⟨"ld", "head", "n1", ""⟩),
          (0, .ev ⟨"ld", "head", "n1", ""⟩),
          (0, .ev ⟨"ld", "n1", "null|1", ""⟩),
          (0, .ev ⟨"ld", "n1", "null|1", ""⟩),
          (0, .ev ⟨"ld", "head", "n1", ""⟩),
          (0, .ev ⟨"cas+", "head", "n1", "null"⟩),
          (0, .ret [0]),
          (1, .ev ⟨"cas-", "head", "null", "n1"⟩),
          (1, .ret [1, 10])] := by decide +kernel

/-- Why pending operations must be completed: thread 0 has linked `n1` (its insert has taken effect) but not yet
    returned; thread 1's `find 5` answers `[1, 10]`.  The history of completed operations alone is not
    linearizable ... -/
def pendingSched : List (Tid × Act) :=
  [(0, .invoke (ins 5 10))] ++ steps 0 4 ++ [(1, .invoke (fnd 5))] ++ steps 1 5 ++ [(1, .ret)]

example : (Michael.model.run Michael.init pendingSched).map (fun r => Michael.historyOf r.2) =
    some [⟨1, fnd 5, [1, 10], 5, 11⟩] := by decide +kernel

example : ¬ Linearizable map [⟨1, fnd 5, [1, 10], 5, 11⟩] := by
  intro hlin
  have := (linCheck_iff map _ (by decide)).mpr hlin
  revert this
  decide +kernel

/-- ... and `extra` of `C13_michael_linearizable` repairs it: with the pending insert completed, it is. -/
example : Linearizable map ([⟨1, fnd 5, [1, 10], 5, 11⟩] ++ [⟨0, ins 5 10, [1], 0, 12⟩]) :=
  linCheck_sound map _ (by decide +kernel)

end CdsVerif.Props.C13Michael

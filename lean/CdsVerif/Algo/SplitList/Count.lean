/-
  C18, SplitListSet machine: the item counter.  `m_ItemCounter` (`St.items`) is incremented (`cAdd`) after the linking CAS
  of a successful top-level `insert` and decremented (`cSub`) after the marking CAS of a successful `erase`.  Inductive
  invariant over all reachable states (`CntOk`, for a duplicate-free list `T` of threads outside which every thread is idle):

      items + #{ t ∈ T | pc t ∈ { cLd1, cAdd _ } }  ≡  |absMap| + #{ t ∈ T | pc t ∈ { eUnl …, cSub _ } }   (mod 2^64)

  Consequence at quiescent states: `items = |absMap| % 2^64`.  The change of `|absMap|` at a step is read off the
  refinement facts of `StepEff` (`lp` / `nolp`) and the sequential specification `Spec.map`.
-/
import CdsVerif.Algo.SplitList.Reach
namespace CdsVerif.Algo.SplitList
open CdsVerif.Machine CdsVerif.Spec CdsVerif.Lin
open CdsVerif.Algo.Michael (LPok isRO map_ro)

/-! ### Lengths of representations of the abstract map -/

theorem len_eq_of_mem_iff {α : Type} [DecidableEq α] {l1 l2 : List α} (h1 : l1.Nodup) (h2 : l2.Nodup)
    (h : ∀ x, x ∈ l1 ↔ x ∈ l2) : l1.length = l2.length :=
  ((List.perm_ext_iff_of_nodup h1 h2).2 h).length_eq

theorem nodup_of_keys {m : MapSt} (h : m.Pairwise (fun p q => p.1 ≠ q.1)) : m.Nodup :=
  h.imp (fun hne e => hne (by rw [e]))

theorem len_of_mfind_iff {m1 m2 : MapSt} (h1 : m1.Pairwise (fun p q => p.1 ≠ q.1))
    (h2 : m2.Pairwise (fun p q => p.1 ≠ q.1)) (h : ∀ k v, mfind m1 k = some v ↔ (k, v) ∈ m2) :
    m1.length = m2.length := by
  refine len_eq_of_mem_iff (nodup_of_keys h1) (nodup_of_keys h2) ?_
  rintro ⟨k, v⟩
  rw [← h k v, mfind_iff_mem h1]

theorem mfind_none_not_mem {m : MapSt} {k : Int} (h : mfind m k = none) : ∀ p ∈ m, p.1 ≠ k := by
  induction m with
  | nil => simp
  | cons a m ih =>
    obtain ⟨k1, v1⟩ := a
    rw [Michael.mfind_cons] at h
    by_cases e : k = k1
    · simp [e] at h
    · simp only [e, if_false] at h
      intro p hp
      rcases List.mem_cons.1 hp with rfl | hp
      · exact fun e2 => e e2.symm
      · exact ih h p hp

theorem merase_len {m : MapSt} (hm : m.Pairwise (fun p q => p.1 ≠ q.1)) {k v : Int} (h : mfind m k = some v) :
    (merase m k).length + 1 = m.length := by
  induction m with
  | nil => simp [mfind] at h
  | cons a m ih =>
    obtain ⟨k1, v1⟩ := a
    have hm' := List.pairwise_cons.1 hm
    by_cases e : k1 = k
    · subst e
      have : merase ((k1, v1) :: m) k1 = m := by
        simp only [merase, List.filter_cons, beq_self_eq_true, Bool.not_true]
        refine List.filter_eq_self.2 ?_
        intro p hp
        have := hm'.1 p hp
        simp only [Bool.not_eq_true', beq_eq_false_iff_ne, ne_eq]
        exact fun e2 => this e2.symm
      rw [this]; rfl
    · rw [Michael.mfind_cons] at h
      have e' : ¬ k = k1 := fun e2 => e e2.symm
      simp only [e', if_false] at h
      have : merase ((k1, v1) :: m) k = (k1, v1) :: merase m k := by simp [merase, e]
      rw [this]
      simp only [List.length_cons]
      have := ih hm'.2 h
      omega

theorem merase_keys {m : MapSt} (hm : m.Pairwise (fun p q => p.1 ≠ q.1)) (k : Int) :
    (merase m k).Pairwise (fun p q => p.1 ≠ q.1) := hm.filter _

/-- What a linearization step does to the number of elements. -/
theorem lpok_len {H H' : Int → Int → Prop} {op : GOp} {r : GRet} {m m2 : MapSt}
    (hm : m.Pairwise (fun p q => p.1 ≠ q.1)) (hm2 : m2.Pairwise (fun p q => p.1 ≠ q.1))
    (hH : ∀ k v, mfind m k = some v ↔ H k v) (hH' : ∀ k v, H' k v ↔ (k, v) ∈ m2) (h : LPok H op r H') :
    (isRO op r = true → m2.length = m.length) ∧
    (∀ k v, op = ⟨"insert", [k, v]⟩ → r = [1] → m2.length = m.length + 1) ∧
    (∀ k v, op = ⟨"erase", [k]⟩ → r = [1, v] → m2.length + 1 = m.length) := by
  obtain ⟨m', hn, hm'⟩ := h m hH
  have hiff : ∀ k v, mfind m' k = some v ↔ (k, v) ∈ m2 := fun k v => (hm' k v).trans (hH' k v)
  refine ⟨fun hro => ?_, fun k v e1 e2 => ?_, fun k v e1 e2 => ?_⟩
  · have := map_ro hn hro
    subst this
    exact (len_of_mfind_iff hm hm2 hiff).symm
  · subst e1 e2
    simp only [Spec.map, detSpec, mapStep] at hn
    cases hf : mfind m k with
    | some w => simp [hf] at hn
    | none =>
      simp only [hf, if_true, Option.some.injEq] at hn
      subst hn
      have hk : ((k, v) :: m).Pairwise (fun p q => p.1 ≠ q.1) :=
        List.pairwise_cons.2 ⟨fun p hp => fun e => mfind_none_not_mem hf p hp e.symm, hm⟩
      have := len_of_mfind_iff hk hm2 hiff
      simpa using this.symm
  · subst e1 e2
    simp only [Spec.map, detSpec, mapStep] at hn
    cases hf : mfind m k with
    | none => simp [hf] at hn
    | some w =>
      simp only [hf] at hn
      split at hn
      · simp only [Option.some.injEq] at hn
        subst hn
        have := len_of_mfind_iff (merase_keys hm k) hm2 hiff
        have := merase_len hm hf
        omega
      · simp at hn

theorem len_of_has_iff {c : Cfg} {s s' : St} {L L' : List Nat} (h : SInvL c s L) (h' : SInvL c s' L')
    (e : ∀ k v, Has s'.mark s'.uk s'.val L' k v ↔ Has s.mark s.uk s.val L k v) :
    (absMap s').length = (absMap s).length := by
  refine len_eq_of_mem_iff (nodup_of_keys h'.absMap_nodup) (nodup_of_keys h.absMap_nodup) ?_
  rintro ⟨k, v⟩
  rw [← h'.has_iff, ← h.has_iff]
  exact e k v

/-! ### Program points between a successful linking / marking CAS and the counter update -/

/-- linked, `++m_ItemCounter` still to come -/
def addP : PC → Bool
  | .idle => false | .gCnt _ => false | .gTab _ _ => false | .iPar _ _ => false | .iBkt _ _ _ => false
  | .iAl1 _ _ _ => false | .iAl2 _ _ _ => false | .iPub _ _ _ => false | .iWait _ _ => false | .sHd1 _ _ => false
  | .sHd2 _ _ _ _ => false | .sNx1 _ _ _ _ => false | .sNx2 _ _ _ _ _ _ => false | .sChk _ _ _ _ _ _ => false
  | .sHelp _ _ _ _ _ => false | .iSt _ _ _ _ => false | .iCas _ _ _ _ => false | .iClr _ _ => false
  | .eMark _ _ _ _ _ => false | .eUnl _ _ _ _ => false | .cLd1 => true | .cAdd _ => true | .cCnt _ => false
  | .cMax _ _ => false | .cGrow _ => false | .cSat => false | .cSub _ => false | .done _ => false

/-- marked, `--m_ItemCounter` still to come -/
def subP : PC → Bool
  | .idle => false | .gCnt _ => false | .gTab _ _ => false | .iPar _ _ => false | .iBkt _ _ _ => false
  | .iAl1 _ _ _ => false | .iAl2 _ _ _ => false | .iPub _ _ _ => false | .iWait _ _ => false | .sHd1 _ _ => false
  | .sHd2 _ _ _ _ => false | .sNx1 _ _ _ _ => false | .sNx2 _ _ _ _ _ _ => false | .sChk _ _ _ _ _ _ => false
  | .sHelp _ _ _ _ _ => false | .iSt _ _ _ _ => false | .iCas _ _ _ _ => false | .iClr _ _ => false
  | .eMark _ _ _ _ _ => false | .eUnl _ _ _ _ => true | .cLd1 => false | .cAdd _ => false | .cCnt _ => false
  | .cMax _ _ => false | .cGrow _ => false | .cSat => false | .cSub _ => true | .done _ => false

/-- The five kinds of steps, as far as the counter is concerned. -/
def Kind (c : Cfg) (s s' : St) (t : Tid) : Prop :=
  (s'.items = s.items ∧ addP (s'.pc t) = addP (s.pc t) ∧ subP (s'.pc t) = subP (s.pc t) ∧
    ((lpRet c s.so s.uk s.val (s.pc t) ≠ none ∨ lpRet c s'.so s'.uk s'.val (s'.pc t) = none) ∨
      ∃ op r, opOf s.uk s.val (s.pc t) = some op ∧ lpRet c s'.so s'.uk s'.val (s'.pc t) = some r ∧ isRO op r = true)) ∨
  (s'.items = s.items ∧ addP (s.pc t) = false ∧ addP (s'.pc t) = true ∧ subP (s.pc t) = false ∧ subP (s'.pc t) = false ∧
    lpRet c s.so s.uk s.val (s.pc t) = none ∧ lpRet c s'.so s'.uk s'.val (s'.pc t) = some [1] ∧
    ∃ k v, opOf s.uk s.val (s.pc t) = some ⟨"insert", [k, v]⟩) ∨
  (s'.items = incW s.items ∧ addP (s.pc t) = true ∧ addP (s'.pc t) = false ∧ subP (s.pc t) = false ∧
    subP (s'.pc t) = false ∧ lpRet c s.so s.uk s.val (s.pc t) ≠ none) ∨
  (s'.items = s.items ∧ addP (s.pc t) = false ∧ addP (s'.pc t) = false ∧ subP (s.pc t) = false ∧ subP (s'.pc t) = true ∧
    lpRet c s.so s.uk s.val (s.pc t) = none ∧
    ∃ k v, opOf s.uk s.val (s.pc t) = some ⟨"erase", [k]⟩ ∧ lpRet c s'.so s'.uk s'.val (s'.pc t) = some [1, v]) ∨
  (s'.items = decW s.items ∧ addP (s.pc t) = false ∧ addP (s'.pc t) = false ∧ subP (s.pc t) = true ∧
    subP (s'.pc t) = false ∧ lpRet c s.so s.uk s.val (s.pc t) ≠ none)

/-- A program point that is neither a counter-pending point nor a state-changing linearization of `op`. -/
def Quiet (c : Cfg) (so : Nat → Nat) (uk val : Nat → Int) (op : GOp) (pc : PC) : Prop :=
  addP pc = false ∧ subP pc = false ∧
    (lpRet c so uk val pc = none ∨ ∃ r, lpRet c so uk val pc = some r ∧ isRO op r = true)

theorem quiet_initRet {c : Cfg} {so : Nat → Nat} {uk val : Nat → Int} {op : GOp} (o : Top) (stk : List Nat) (d : Nat) :
    Quiet c so uk val op (initRet o stk d) := by
  unfold initRet; split <;> exact ⟨rfl, rfl, Or.inl rfl⟩

theorem quiet_notFound {c : Cfg} {so : Nat → Nat} {uk val : Nat → Int} (w : OpK) (d prev : Nat) (cur : Option Nat) :
    Quiet c so uk val (gop uk val (wtop w)) (notFound w d prev cur) := by
  cases w with
  | dum m o stk => exact ⟨rfl, rfl, Or.inl rfl⟩
  | top o =>
    cases o with
    | ins n => exact ⟨rfl, rfl, Or.inl rfl⟩
    | era k => exact ⟨rfl, rfl, Or.inr ⟨[0], rfl, by simp [isRO, gop, wtop]⟩⟩
    | fnd k => exact ⟨rfl, rfl, Or.inr ⟨[0], rfl, by simp [isRO, gop, wtop]⟩⟩
    | con k => exact ⟨rfl, rfl, Or.inr ⟨[0], rfl, by simp [isRO, gop, wtop]⟩⟩

theorem quiet_found {c : Cfg} {so : Nat → Nat} {uk val : Nat → Int} (w : OpK) (d prev cur : Nat) (nx : Option Nat) :
    Quiet c so uk val (gop uk val (wtop w)) (found val w d prev cur nx) := by
  cases w with
  | dum m o stk => exact ⟨rfl, rfl, Or.inl rfl⟩
  | top o =>
    cases o with
    | ins n => exact ⟨rfl, rfl, Or.inr ⟨[0], rfl, by simp [isRO, gop, wtop]⟩⟩
    | era k => exact ⟨rfl, rfl, Or.inl rfl⟩
    | fnd k => exact ⟨rfl, rfl, Or.inr ⟨[1, val cur], rfl, by simp [isRO, gop, wtop]⟩⟩
    | con k => exact ⟨rfl, rfl, Or.inr ⟨[1], rfl, by simp [isRO, gop, wtop]⟩⟩

theorem quiet_advance {c : Cfg} {so : Nat → Nat} {uk val : Nat → Int} (w : OpK) (d prev : Nat) (nx : Option Nat) :
    Quiet c so uk val (gop uk val (wtop w)) (advance w d prev nx) := by
  unfold advance; split
  · exact quiet_notFound w d prev none
  · exact ⟨rfl, rfl, Or.inl rfl⟩

theorem quiet_afterHd {c : Cfg} {so : Nat → Nat} {uk val : Nat → Int} (w : OpK) (d : Nat) (nx : Option Nat) (mk : Bool) :
    Quiet c so uk val (gop uk val (wtop w)) (afterHd c so uk w d nx mk) := by
  unfold afterHd; split
  · exact ⟨rfl, rfl, Or.inl rfl⟩
  · split
    · exact quiet_advance w d d nx
    · exact ⟨rfl, rfl, Or.inl rfl⟩

theorem quiet_afterChk {c : Cfg} {so : Nat → Nat} {uk val : Nat → Int} (w : OpK) (d prev cur : Nat) (nx : Option Nat)
    (mk : Bool) : Quiet c so uk val (gop uk val (wtop w)) (afterChk c so uk val w d prev cur nx mk) := by
  unfold afterChk; split
  · exact ⟨rfl, rfl, Or.inl rfl⟩
  · split
    · exact quiet_found w d prev cur nx
    · split
      · exact quiet_notFound w d prev (some cur)
      · exact quiet_advance w d cur nx

theorem quiet_sChk {c : Cfg} {so : Nat → Nat} {uk val : Nat → Int} (w : OpK) (d prev cur : Nat) (nx : Option Nat)
    (mk : Bool) : Quiet c so uk val (gop uk val (wtop w)) (.sChk w d prev cur nx mk) := by
  refine ⟨rfl, rfl, ?_⟩
  show tent c so uk val w cur nx mk = none ∨ _
  cases h : tent c so uk val w cur nx mk with
  | none => exact Or.inl rfl
  | some r => exact Or.inr ⟨r, by simp only [lpRet]; exact h, tent_ro h⟩

theorem kind_of_quiet {c : Cfg} {s s' : St} {t : Tid} {op : GOp} {pc' : PC} (hi : s'.items = s.items)
    (ha : addP (s.pc t) = false) (hb : subP (s.pc t) = false) (hop : opOf s.uk s.val (s.pc t) = some op)
    (hpc' : s'.pc t = pc') (hq : Quiet c s'.so s'.uk s'.val op pc') : Kind c s s' t := by
  subst hpc'
  obtain ⟨h1, h2, h3⟩ := hq
  refine Or.inl ⟨hi, by rw [h1, ha], by rw [h2, hb], ?_⟩
  rcases h3 with h3 | ⟨r, h3, h4⟩
  · exact Or.inl (Or.inr h3)
  · exact Or.inr ⟨op, r, hop, h3, h4⟩

theorem pend_afterAdd (items mx : Nat) : addP (afterAdd items mx) = false ∧ subP (afterAdd items mx) = false := by
  unfold afterAdd; split <;> exact ⟨rfl, rfl⟩

theorem pend_afterCnt (c : Cfg) (sz mx : Nat) : addP (afterCnt c sz mx) = false ∧ subP (afterCnt c sz mx) = false := by
  unfold afterCnt; split
  · split <;> exact ⟨rfl, rfl⟩
  · exact ⟨rfl, rfl⟩

set_option maxHeartbeats 1000000 in
theorem kind_step {c : Cfg} {s s' : St} {t : Tid} {ev : Ev} (hs : step c s t = some (s', ev)) : Kind c s s' t := by
  cases hpc : s.pc t with
  | iCas w d prev cur =>
    simp only [step, hpc] at hs
    split at hs
    · cases hs
    · rename_i n heq
      split at hs
      · simp only [Option.some.injEq, Prod.mk.injEq] at hs; obtain ⟨rfl, -⟩ := hs
        cases w with
        | dum m o stk =>
          exact kind_of_quiet rfl (by rw [hpc]; rfl) (by rw [hpc]; rfl) (by rw [hpc]; rfl) (upd_same _ _ _)
            ⟨rfl, rfl, Or.inl rfl⟩
        | top o =>
          cases o with
          | ins m =>
            unfold Kind; simp only [hpc]
            simp [upd, linked, addP, subP, lpRet, opOf, wtop, gop]
          | era k => simp [wnode] at heq
          | fnd k => simp [wnode] at heq
          | con k => simp [wnode] at heq
      · simp only [Option.some.injEq, Prod.mk.injEq] at hs; obtain ⟨rfl, -⟩ := hs
        unfold Kind; simp only [hpc]; simp [upd, addP, subP, lpRet, opOf]
  | eMark k d prev cur nx =>
    simp only [step, hpc] at hs
    split at hs
    · simp only [Option.some.injEq, Prod.mk.injEq] at hs; obtain ⟨rfl, -⟩ := hs
      unfold Kind; simp only [hpc]; simp [upd, addP, subP, lpRet, opOf, gop]
    · simp only [Option.some.injEq, Prod.mk.injEq] at hs; obtain ⟨rfl, -⟩ := hs
      unfold Kind; simp only [hpc]; simp [upd, addP, subP, lpRet, opOf]
  | cAdd mx =>
    simp only [step, hpc] at hs
    simp only [Option.some.injEq, Prod.mk.injEq] at hs; obtain ⟨rfl, -⟩ := hs
    have h1 := pend_afterAdd s.items mx
    exact Or.inr (Or.inr (Or.inl ⟨rfl, by rw [hpc]; rfl,
      by show addP (upd s.pc t _ t) = false; rw [upd_same]; exact h1.1, by rw [hpc]; rfl,
      by show subP (upd s.pc t _ t) = false; rw [upd_same]; exact h1.2, by rw [hpc]; simp [lpRet]⟩))
  | cCnt mx =>
    simp only [step, hpc] at hs
    simp only [Option.some.injEq, Prod.mk.injEq] at hs; obtain ⟨rfl, -⟩ := hs
    have h1 := pend_afterCnt c s.cnt2 mx
    exact Or.inl ⟨rfl, by show addP (upd s.pc t _ t) = addP (s.pc t); rw [upd_same, hpc]; exact h1.1,
      by show subP (upd s.pc t _ t) = subP (s.pc t); rw [upd_same, hpc]; exact h1.2,
      Or.inl (Or.inl (by rw [hpc]; simp [lpRet]))⟩
  | _ =>
    simp only [step, hpc] at hs
    all_goals (try (split at hs))
    all_goals (try (split at hs))
    all_goals first
      | (cases hs; done)
      | (simp only [Option.some.injEq, Prod.mk.injEq] at hs; obtain ⟨rfl, -⟩ := hs
         unfold Kind; simp only [hpc]; (try dsimp only); simp [upd, addP, subP, lpRet, opOf]; done)
      | (simp only [Option.some.injEq, Prod.mk.injEq] at hs; obtain ⟨rfl, -⟩ := hs
         refine kind_of_quiet rfl (by simp [hpc, addP]) (by simp [hpc, subP]) (by rw [hpc]; rfl) (upd_same _ _ _) ?_
         first
           | exact quiet_initRet _ _ _
           | exact quiet_afterHd _ _ _ _
           | exact quiet_sChk _ _ _ _ _ _
           | exact quiet_afterChk _ _ _ _ _ _
           | exact quiet_advance _ _ _ _)

/-! ### The counting invariant -/

/-- `T` lists (without repetition) all threads that are not idle; the counter, corrected by the threads that have
    linked / marked but not yet counted, is the number of elements of the abstract map, modulo the word size. -/
def CntOk (s : St) (T : List Tid) : Prop :=
  T.Nodup ∧ (∀ t, t ∉ T → s.pc t = .idle) ∧ s.items < 18446744073709551616 ∧
  (s.items + T.countP (fun t => addP (s.pc t))) % 18446744073709551616 =
    ((absMap s).length + T.countP (fun t => subP (s.pc t))) % 18446744073709551616

theorem countP_same {T : List Tid} {f f' : Tid → PC} (p : PC → Bool) (h : ∀ x, x ∈ T → f' x = f x) :
    T.countP (fun x => p (f' x)) = T.countP (fun x => p (f x)) :=
  List.countP_congr (fun x hx => by simp only [h x hx])

theorem countP_frame {f f' : Tid → PC} (p : PC → Bool) {t : Tid} (hfr : ∀ t2, t2 ≠ t → f' t2 = f t2) :
    ∀ {T : List Tid}, T.Nodup → t ∈ T →
    T.countP (fun x => p (f' x)) + (if p (f t) then 1 else 0) = T.countP (fun x => p (f x)) + (if p (f' t) then 1 else 0)
  | [], _, ht => by simp at ht
  | a :: T, hnd, ht => by
    have hnd' := List.nodup_cons.1 hnd
    rw [List.countP_cons, List.countP_cons]
    by_cases e : a = t
    · subst e
      have := countP_same (f := f) (f' := f') p (T := T) (fun x hx => hfr x (fun e2 => hnd'.1 (e2 ▸ hx)))
      rw [this]; omega
    · have ht' : t ∈ T := by
        rcases List.mem_cons.1 ht with e2 | e2
        · exact absurd e2.symm e
        · exact e2
      have ih := countP_frame p hfr hnd'.2 ht'
      rw [hfr a e]; omega

theorem cntOk_mem {s : St} {T : List Tid} (h : CntOk s T) (t : Tid) : ∃ T1, CntOk s T1 ∧ t ∈ T1 := by
  by_cases ht : t ∈ T
  · exact ⟨T, h, ht⟩
  · obtain ⟨h1, h2, h3, h4⟩ := h
    have hi := h2 t ht
    refine ⟨t :: T, ⟨List.nodup_cons.2 ⟨ht, h1⟩, fun x hx => h2 x (fun hx2 => hx (List.mem_cons_of_mem _ hx2)), h3, ?_⟩,
      List.mem_cons_self ..⟩
    rw [List.countP_cons, List.countP_cons, hi]
    simpa [addP, subP] using h4

theorem cntOk_init (c : Cfg) : CntOk (init c) [] := by
  refine ⟨List.nodup_nil, fun _ _ => rfl, by simp [init], ?_⟩
  have : absMap (init c) = [] := by
    simp [absMap, absNodes, init, Michael.walk]
  rw [this]; simp [init]

theorem cntOk_step {c : Cfg} (hc : SOHyp c) {s s' : St} {t : Tid} {ev : Ev} {L : List Nat} {T : List Tid}
    (hl : SInvL c s L) (hT : CntOk s T) (hs : step c s t = some (s', ev)) : ∃ T', CntOk s' T' := by
  obtain ⟨T1, ⟨h1, h2, h3, h4⟩, ht⟩ := cntOk_mem hT t
  obtain ⟨L', hl', he⟩ := sinvl_step hc hl hs
  have hk := kind_step hs
  refine ⟨T1, h1, fun x hx => ?_, ?_⟩
  · have hne : x ≠ t := fun e => hx (e ▸ ht)
    rw [he.frame x hne]; exact h2 x hx
  have hA := countP_frame addP (f := s.pc) (f' := s'.pc) he.frame h1 ht
  have hB := countP_frame subP (f := s.pc) (f' := s'.pc) he.frame h1 ht
  have hsame : (lpRet c s.so s.uk s.val (s.pc t) ≠ none ∨ lpRet c s'.so s'.uk s'.val (s'.pc t) = none) →
      (absMap s').length = (absMap s).length := fun hcond => len_of_has_iff hl hl' (he.nolp hcond)
  have hlp : lpRet c s.so s.uk s.val (s.pc t) = none → ∀ r, lpRet c s'.so s'.uk s'.val (s'.pc t) = some r →
      ∃ op, opOf s.uk s.val (s.pc t) = some op ∧
        (isRO op r = true → (absMap s').length = (absMap s).length) ∧
        (∀ k v, op = ⟨"insert", [k, v]⟩ → r = [1] → (absMap s').length = (absMap s).length + 1) ∧
        (∀ k v, op = ⟨"erase", [k]⟩ → r = [1, v] → (absMap s').length + 1 = (absMap s).length) := by
    intro hA0 r hB0
    obtain ⟨op, hop, hok⟩ := he.lp hA0 r hB0
    exact ⟨op, hop, lpok_len hl.absMap_nodup hl'.absMap_nodup hl.mfind_absMap hl'.has_iff hok⟩
  rcases hk with ⟨e1, e2, e3, e4⟩ | ⟨e1, e2, e3, e4, e5, e6, e7, k, v, e8⟩ | ⟨e1, e2, e3, e4, e5, e6⟩ |
      ⟨e1, e2, e3, e4, e5, e6, k, v, e7, e8⟩ | ⟨e1, e2, e3, e4, e5, e6⟩
  · have hN : (absMap s').length = (absMap s).length := by
      rcases e4 with e4 | ⟨op, r, e5, e6, e7⟩
      · exact hsame e4
      · cases hA0 : lpRet c s.so s.uk s.val (s.pc t) with
        | some r0 => exact hsame (Or.inl (by rw [hA0]; simp))
        | none =>
          obtain ⟨op', hop', hro, -, -⟩ := hlp hA0 r e6
          rw [e5] at hop'; cases hop'
          exact hro e7
    rw [e2] at hA; rw [e3] at hB
    refine ⟨by rw [e1]; exact h3, ?_⟩
    rw [e1, hN]
    have : List.countP (fun x => addP (s'.pc x)) T1 = List.countP (fun x => addP (s.pc x)) T1 := by omega
    have : List.countP (fun x => subP (s'.pc x)) T1 = List.countP (fun x => subP (s.pc x)) T1 := by omega
    omega
  · obtain ⟨op', hop', -, hins, -⟩ := hlp e6 [1] e7
    rw [e8] at hop'; cases hop'
    have hN := hins k v rfl rfl
    simp only [e2, e3, e4, e5] at hA hB
    refine ⟨by rw [e1]; exact h3, ?_⟩
    rw [e1, hN]
    simp at hA hB
    omega
  · have hN := hsame (Or.inl e6)
    simp only [e2, e3, e4, e5] at hA hB
    simp at hA hB
    refine ⟨by rw [e1]; unfold incW; omega, ?_⟩
    rw [e1, hN]; unfold incW
    omega
  · obtain ⟨op', hop', -, -, hera⟩ := hlp e6 [1, v] e8
    rw [e7] at hop'; cases hop'
    have hN := hera k v rfl rfl
    simp only [e2, e3, e4, e5] at hA hB
    simp at hA hB
    refine ⟨by rw [e1]; exact h3, ?_⟩
    rw [e1]
    omega
  · have hN := hsame (Or.inl e6)
    simp only [e2, e3, e4, e5] at hA hB
    simp at hA hB
    refine ⟨by rw [e1]; unfold decW; omega, ?_⟩
    rw [e1, hN]; unfold decW
    omega

theorem invoke_pend {c : Cfg} {s s' : St} {t : Tid} {op : GOp} (hs : invoke c s t op = some s') :
    s'.items = s.items ∧ addP (s'.pc t) = false ∧ subP (s'.pc t) = false := by
  unfold invoke at hs
  split at hs
  all_goals first
    | (simp only [Option.some.injEq] at hs; subst hs; exact ⟨rfl, by simp [upd, addP], by simp [upd, subP]⟩)
    | (cases hs; done)

theorem cntOk_invoke {c : Cfg} {s s' : St} {t : Tid} {op : GOp} {L : List Nat} {T : List Tid}
    (hl : SInvL c s L) (hT : CntOk s T) (hs : invoke c s t op = some s') : ∃ T', CntOk s' T' := by
  obtain ⟨T1, ⟨h1, h2, h3, h4⟩, ht⟩ := cntOk_mem hT t
  obtain ⟨hl', he⟩ := sinvl_invoke hl hs
  obtain ⟨e1, e2, e3⟩ := invoke_pend hs
  have hN := len_of_has_iff hl hl' he.abs
  have hA := countP_frame addP (f := s.pc) (f' := s'.pc) he.frame h1 ht
  have hB := countP_frame subP (f := s.pc) (f' := s'.pc) he.frame h1 ht
  simp only [he.was, e2, show addP PC.idle = false from rfl, Bool.false_eq_true, if_false, Nat.add_zero] at hA
  simp only [he.was, e3, show subP PC.idle = false from rfl, Bool.false_eq_true, if_false, Nat.add_zero] at hB
  refine ⟨T1, h1, fun x hx => ?_, by rw [e1]; exact h3, ?_⟩
  · have hne : x ≠ t := fun e => hx (e ▸ ht)
    rw [he.frame x hne]; exact h2 x hx
  · rw [e1, hN, hA, hB]; exact h4

theorem cntOk_result {c : Cfg} {s s' : St} {t : Tid} {r : GRet} {L : List Nat} {T : List Tid}
    (hl : SInvL c s L) (hT : CntOk s T) (hs : result s t = some (s', r)) : ∃ T', CntOk s' T' := by
  obtain ⟨T1, ⟨h1, h2, h3, h4⟩, ht⟩ := cntOk_mem hT t
  obtain ⟨hl', hd, hi, hfr, eso, euk, eval, emark, enext, -, -⟩ := sinvl_result hl hs
  have e1 : s'.items = s.items := by
    unfold result at hs
    split at hs
    · simp only [Option.some.injEq, Prod.mk.injEq] at hs; obtain ⟨rfl, -⟩ := hs; rfl
    · cases hs
  have hN : (absMap s').length = (absMap s).length :=
    len_of_has_iff hl hl' (fun k v => by rw [emark, euk, eval])
  have hA := countP_frame addP (f := s.pc) (f' := s'.pc) hfr h1 ht
  have hB := countP_frame subP (f := s.pc) (f' := s'.pc) hfr h1 ht
  simp only [hd, hi, show addP PC.idle = false from rfl, show addP (PC.done r) = false from rfl, Bool.false_eq_true,
    if_false, Nat.add_zero] at hA
  simp only [hd, hi, show subP PC.idle = false from rfl, show subP (PC.done r) = false from rfl, Bool.false_eq_true,
    if_false, Nat.add_zero] at hB
  refine ⟨T1, h1, fun x hx => ?_, by rw [e1]; exact h3, ?_⟩
  · have hne : x ≠ t := fun e => hx (e ▸ ht)
    rw [hfr x hne]; exact h2 x hx
  · rw [e1, hN, hA, hB]; exact h4

/-- The structural invariant together with the counting invariant. -/
def SCInv (c : Cfg) (s : St) : Prop := ∃ L, SInvL c s L ∧ ∃ T, CntOk s T

theorem scinv_apply {c : Cfg} (hc : SOHyp c) {s s' : St} {t : Tid} {a : Act} {o : Obs} (h : SCInv c s)
    (hap : (model c).apply s t a = some (s', o)) : SCInv c s' := by
  obtain ⟨L, hl, T, hT⟩ := h
  cases a with
  | invoke op =>
    simp only [Model.apply, model, Option.map_eq_some_iff] at hap
    obtain ⟨s1, hs1, heq⟩ := hap
    simp only [Prod.mk.injEq] at heq
    obtain ⟨rfl, -⟩ := heq
    exact ⟨L, (sinvl_invoke hl hs1).1, cntOk_invoke hl hT hs1⟩
  | step =>
    simp only [Model.apply, model, Option.map_eq_some_iff] at hap
    obtain ⟨⟨s1, e⟩, hs1, heq⟩ := hap
    simp only [Prod.mk.injEq] at heq
    obtain ⟨rfl, -⟩ := heq
    obtain ⟨L', hl', -⟩ := sinvl_step hc hl hs1
    exact ⟨L', hl', cntOk_step hc hl hT hs1⟩
  | ret =>
    simp only [Model.apply, model, Option.map_eq_some_iff] at hap
    obtain ⟨⟨s1, r⟩, hs1, heq⟩ := hap
    simp only [Prod.mk.injEq] at heq
    obtain ⟨rfl, -⟩ := heq
    exact ⟨L, (sinvl_result hl hs1).1, cntOk_result hl hT hs1⟩

theorem scinv_reachable {c : Cfg} (hc : SOHyp c) (s : St) (h : (model c).Reachable (init c) s) : SCInv c s :=
  (model c).inv_reachable (SCInv c) (init c) ⟨[0], sinv_init c hc, [], cntOk_init c⟩
    (fun _ _ _ _ _ hi hap => scinv_apply hc hi hap) s h

/-- Every thread idle: the counter is the number of elements of the abstract map, modulo the word size. -/
theorem CntOk.quiescent {s : St} {T : List Tid} (h : CntOk s T) (hq : ∀ t, s.pc t = .idle) :
    s.items = (absMap s).length % 18446744073709551616 := by
  obtain ⟨-, -, h3, h4⟩ := h
  have hA : T.countP (fun t => addP (s.pc t)) = 0 := by
    rw [List.countP_eq_zero]; intro x _; rw [hq x]; simp [addP]
  have hB : T.countP (fun t => subP (s.pc t)) = 0 := by
    rw [List.countP_eq_zero]; intro x _; rw [hq x]; simp [subP]
  rw [hA, hB] at h4
  omega

end CdsVerif.Algo.SplitList

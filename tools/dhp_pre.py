"""Tie A for the dynamic-hazard-pointer machine (lean/CdsVerif/Algo/DHP/Model.lean, `cdsdriver replay dhp`).

`dhp_pre(text)` rewrites the trace of harness/clients/smr.cpp run with `--static 1 --trace 1` (variants dhp, dhp_many)
into the machine's vocabulary.  Nothing is invented: every line of the output is a line of the input, renamed, or the
disposer notes of one reclamation pass gathered into the machine's name for the decision step.

Translation rules (per case):
  R1 thread / record names.  The note `T <t> RECORDS r0 r1 ...` (written when the last thread has attached) lists the
     owners of the thread records in the order smr::scan walks `thread_list_` (head first: the record attached last).
     The machine's thread u owns record u and a pass reads the records 0 .. T-1, so thread id r_k is renamed to k
     everywhere: line prefix `T <t>`, hazard slots `hp<t>.<b>.<i>`, `ext<t>`, block names `gb<t>.<k>`, `T<t>`.
  R2 pointer values: a low-bit suffix `|n` is dropped (objects are ids).
  R3 the decision step.  Stage 2 of smr::scan is thread-local (sort, binary searches, disposer calls, possibly
     retired_array::extend): the disposer leaves `dispose o<id>` notes, the client leaves `scanned <blocks>` when the
     pass has returned (<blocks> = retired_array::block_count_).  They become ONE event
         `A free T<t> [ids] <blocks>`
     placed where the first disposer note of the pass stands (no scheduling point separates the last hazard load of
     the pass from its disposer calls), or where the `scanned` note stands when the pass freed nothing.  Disposer calls
     without a `scanned` note in the same operation are emitted as `free T<t> [ids] ?` in front of the RET line (no step
     of the machine matches: a disposal outside a pass is a divergence).
  R4 `CALL deref h` / `RET -1` (the guard held nothing: the client did nothing) are dropped.
  R5 hp_allocator::alloc() clears the 16 guards of the block it hands out BEFORE thread_hp_storage::extend() links the
     block (`st hp<t>.<k>.<i> null` for a block k that no `st ext<t> gb<t>.<k>` has linked yet): nobody can reach the
     block, the machine's new block is born empty; dropped.  A store of a non-null value to such a slot is kept (and
     diverges).  The owner's own relaxed load of `extended_list_` inside extend() (`ld ext<t>` by thread t during a
     `galloc`) is dropped too: the list is only written by its owner.
  R6 fences are dropped (the machine is sequentially consistent).
  R7 everything else is kept: events on unnamed locations (`thread_list_`, `thread_id_`, `sync_`, the allocators' free
     lists, the FreeList node inside a guard_block header `gb…`), on `barrier`, are skipped by the driver (`relevant`).

`dhp_stats(text)` counts, on the REWRITTEN text, the cases that contain: a pass that kept an object, a pass that freed
something, a guard in an extension block (galloc returning block >= 1), a pass that read an extension block, a pass that
loaded `extended_list_` of a record whose storage was extended later in the case, a protect through an extension-block guard,
a retire that started a pass, a retired chain of more than one block.
"""
import re
import sys
import os

sys.path.insert(0, os.path.dirname(os.path.abspath(__file__)))
import vlib

_mark = re.compile(r"\|\d+$")
_hp = re.compile(r"hp(\d+)\.(\d+)\.(\d+)$")
_ext = re.compile(r"ext(\d+)$")
_gb = re.compile(r"gb(\d+)\.(\d+)(\+\d+)?$")
_tt = re.compile(r"T(\d+)$")


def _val(v):
    return _mark.sub("", v)


def _rename(tok, pos):
    m = _hp.match(tok)
    if m and m.group(1) in pos:
        return "hp%s.%s.%s" % (pos[m.group(1)], m.group(2), m.group(3))
    m = _ext.match(tok)
    if m and m.group(1) in pos:
        return "ext%s" % pos[m.group(1)]
    m = _gb.match(tok)
    if m and m.group(1) in pos:
        return "gb%s.%s%s" % (pos[m.group(1)], m.group(2), m.group(3) or "")
    m = _tt.match(tok)
    if m and m.group(1) in pos:
        return "T%s" % pos[m.group(1)]
    return tok


def dhp_pre_block(block):
    lines = block.rstrip("\n").split("\n")
    pos = {}
    for l in lines:
        w = l.split()
        if len(w) >= 3 and w[0] == "T" and w[2] == "RECORDS":
            for k, owner in enumerate(w[3:]):
                pos[owner] = str(k)
    out = []
    cur = {}              # real tid -> state of the operation in progress
    linked = set()        # (real tid, block) linked by a store to extended_list_
    for l in lines:
        w = l.split()
        if len(w) < 3 or w[0] != "T":
            out.append(l)
            continue
        t = w[1]
        if w[2] == "RECORDS":
            continue
        if t not in pos:                  # main thread (tear-down notes) or a case without the RECORDS note
            if w[2] in ("dispose", "scanned"):
                continue
            out.append(l)
            continue
        u = pos[t]
        if w[2] == "CALL":
            cur[t] = {"op": w[3], "disposed": [], "slot": None, "call_at": len(out)}
            out.append("T %s CALL %s" % (u, " ".join(w[3:])))
        elif w[2] == "RET":
            st = cur.pop(t, None)
            if st and st["op"] == "deref" and w[3:] == ["-1"]:
                out[st["call_at"]] = None                       # R4
                continue
            if st and st["slot"] is not None:                   # R3, disposals without a pass
                out[st["slot"]] = "T %s A free T%s [%s] ?" % (u, u, ",".join(st["disposed"]))
            out.append("T %s RET%s" % (u, "".join(" " + x for x in w[3:])))
        elif w[2] == "dispose":
            st = cur.get(t)
            if st is not None:
                if st["slot"] is None:
                    st["slot"] = len(out)
                    out.append(None)
                st["disposed"].append(w[3][1:] if w[3].startswith("o") else w[3])
            # outside an operation (tear-down): not part of the traced execution
        elif w[2] == "scanned":
            st = cur.get(t)
            if st is None:
                continue
            ev = "T %s A free T%s [%s] %s" % (u, u, ",".join(st["disposed"]), w[3] if len(w) > 3 else "?")
            if st["slot"] is not None:
                out[st["slot"]] = ev
            else:
                out.append(ev)
            st["slot"] = None
            st["disposed"] = []
        elif w[2] == "A":
            if w[3] == "fence":
                continue                                          # R6
            kind, loc = w[3], w[4] if len(w) > 4 else ""
            vals = [_rename(_val(x), pos) for x in w[5:]]
            st = cur.get(t)
            m = _hp.match(loc)
            if m and kind == "st" and int(m.group(2)) >= 1 and (m.group(1), m.group(2)) not in linked and vals == ["null"]:
                continue                                          # R5: clearing a block that is not linked yet
            m = _ext.match(loc)
            if m:
                if kind == "st" and vals:
                    g = re.match(r"gb(\d+)\.(\d+)$", w[5])
                    if g:
                        linked.add((g.group(1), g.group(2)))
                if kind == "ld" and m.group(1) == t and st is not None and st["op"] == "galloc":
                    continue                                      # R5: extend()'s own load
            out.append(("T %s A %s %s %s" % (u, kind, _rename(loc, pos), " ".join(vals))).rstrip())
        else:
            out.append("T %s %s" % (u, " ".join(w[2:])))
    return "\n".join(x for x in out if x is not None) + "\n"


def dhp_pre(text):
    return "".join(dhp_pre_block(block) for cid, block in vlib.split_cases(text))


def dhp_stats(text):
    """Counts over rewritten cases (see the module comment)."""
    keys = ["cases", "scans", "scan_kept_guarded", "scan_freed", "scan_kept_and_freed", "objects_freed", "ext_guard",
            "scan_read_ext_block", "ext_after_scan_loaded_list", "protect_ext_guard", "protect_ext_guard_hi",
            "retire_started_scan", "retired_blocks_gt1", "gfree", "deref", "deref_retired", "protect_retry", "max_blocks"]
    res = dict((k, 0) for k in keys)
    for cid, block in vlib.split_cases(text):
        res["cases"] += 1
        hdr = {}
        for l in block.split("\n")[:3]:
            if l.startswith("#"):
                for x in l.split():
                    if "=" in x:
                        a, b = x.split("=", 1)
                        hdr[a] = b
        init = int(hdr.get("init", "0") or 0)
        retired = {}
        op = {}
        args = {}
        loads = {}
        hslot = {}
        flags = set()
        listload = {}        # record -> a pass has loaded its extended_list_
        for l in block.split("\n"):
            w = l.split()
            if len(w) < 3 or w[0] != "T":
                continue
            t = w[1]
            if w[2] == "CALL":
                op[t] = w[3]
                args[t] = w[4:]
                loads[t] = 0
            elif w[2] == "RET":
                if op.get(t) == "protect" and loads.get(t, 0) >= 3:
                    flags.add("protect_retry")
                if op.get(t) == "galloc" and len(w) >= 5:
                    hslot[(t, args[t][0])] = (int(w[3]), int(w[4]))
                    if int(w[3]) >= 1:
                        flags.add("ext_guard")
                        res["max_blocks"] = max(res["max_blocks"], int(w[3]))
                if op.get(t) == "gfree":
                    flags.add("gfree")
                if op.get(t) == "protect" and w[3:4] == ["1"]:
                    sl = hslot.get((t, args[t][0]))
                    if sl and sl[0] >= 1:
                        flags.add("protect_ext_guard")
                        if sl[1] >= init:
                            flags.add("protect_ext_guard_hi")
                op.pop(t, None)
            elif w[2] == "A" and len(w) >= 5:
                if w[3] == "ld" and w[4].startswith("cell"):
                    loads[t] = loads.get(t, 0) + 1
                elif w[3] == "ld" and _ext.match(w[4]):
                    listload[w[4][3:]] = True
                elif w[3] == "st" and _ext.match(w[4]):
                    if listload.get(w[4][3:]):
                        flags.add("ext_after_scan_loaded_list")
                elif w[3] == "ld" and _hp.match(w[4]):
                    if int(_hp.match(w[4]).group(2)) >= 1:
                        flags.add("scan_read_ext_block")
                elif w[3] == "retire":
                    retired.setdefault(t, []).append(w[5][1:])
                elif w[3] == "free":
                    freed = [x for x in w[5].strip("[]").split(",") if x]
                    res["scans"] += 1
                    res["objects_freed"] += len(freed)
                    kept = [x for x in retired.get(t, []) if x not in freed]
                    retired[t] = kept
                    if kept:
                        flags.add("scan_kept_guarded")
                    if freed:
                        flags.add("scan_freed")
                    if kept and freed:
                        flags.add("scan_kept_and_freed")
                    if op.get(t) in ("swap", "take"):
                        flags.add("retire_started_scan")
                    if len(w) > 6 and w[6].isdigit() and int(w[6]) > 1:
                        flags.add("retired_blocks_gt1")
                elif w[3] == "use":
                    flags.add("deref")
                    if w[5] == "retired":
                        flags.add("deref_retired")
        for f in flags:
            res[f] += 1
    return res


if __name__ == "__main__":
    sys.stdout.write(dhp_pre(sys.stdin.read()))

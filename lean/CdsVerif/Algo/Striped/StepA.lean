/-
  Preservation of the StripedSet invariant (`Inv.lean`): client actions, the acquisition of the cell lock under both
  policies (the refinable re-check is `sinv_step_aChk`; `sinv_step_aLk` needs `cfg.recheck = true`) and the operation
  under the cell lock.
-/
import CdsVerif.Algo.Striped.Inv
namespace CdsVerif.Algo.Striped
open CdsVerif.Machine CdsVerif.Spec

set_option maxHeartbeats 1000000 in
theorem sinv_invoke {cfg : Cfg} {s s' : St} {t : Tid} {op : GOp} (h : SInv cfg s) (hs : invoke cfg s t op = some s') :
    SInv cfg s' := by
  unfold invoke at hs
  split at hs
  · next hidle k hk =>
    simp at hs; subst hs
    by_cases hr : cfg.refinable = true <;> simp only [hr] <;> sinv_all h
  · simp at hs

set_option maxHeartbeats 1000000 in
theorem sinv_result {cfg : Cfg} {s s' : St} {t : Tid} {r : GRet} (h : SInv cfg s) (hs : result s t = some (s', r)) :
    SInv cfg s' := by
  unfold result at hs
  split at hs
  · simp at hs; obtain ⟨rfl, -⟩ := hs; sinv_all h
  · simp at hs

set_option maxHeartbeats 1000000 in
theorem sinv_step_sWait {cfg : Cfg} {s s' : St} {t : Tid} {ev : Ev} {op : GOp}
    (h : SInv cfg s) (hpc : s.pc t = .sWait op) (hs : step cfg s t = some (s', ev)) : SInv cfg s' := by
  simp only [step, hpc] at hs
  simp at hs; obtain ⟨rfl, -⟩ := hs
  sinv_all h

set_option maxHeartbeats 1000000 in
theorem sinv_step_aOwn {cfg : Cfg} {s s' : St} {t : Tid} {ev : Ev} {op : GOp}
    (h : SInv cfg s) (hpc : s.pc t = .aOwn op) (hs : step cfg s t = some (s', ev)) : SInv cfg s' := by
  simp only [step, hpc] at hs
  simp at hs; obtain ⟨rfl, -⟩ := hs
  sinv_all h

set_option maxHeartbeats 1000000 in
theorem sinv_step_aAccW {cfg : Cfg} {s s' : St} {t : Tid} {ev : Ev} {op : GOp}
    (h : SInv cfg s) (hpc : s.pc t = .aAccW op) (hs : step cfg s t = some (s', ev)) : SInv cfg s' := by
  simp only [step, hpc] at hs
  simp at hs; obtain ⟨rfl, -⟩ := hs
  sinv_all h

set_option maxHeartbeats 1000000 in
theorem sinv_step_aAccU {cfg : Cfg} {s s' : St} {t : Tid} {ev : Ev} {op : GOp}
    (h : SInv cfg s) (hpc : s.pc t = .aAccU op) (hs : step cfg s t = some (s', ev)) : SInv cfg s' := by
  simp only [step, hpc] at hs
  simp at hs; obtain ⟨rfl, -⟩ := hs
  sinv_all h

set_option maxHeartbeats 1000000 in
theorem sinv_step_aWait {cfg : Cfg} {s s' : St} {t : Tid} {ev : Ev} {op : GOp} {g : Nat}
    (h : SInv cfg s) (hpc : s.pc t = .aWait op g) (hs : step cfg s t = some (s', ev)) : SInv cfg s' := by
  simp only [step, hpc] at hs
  simp at hs; obtain ⟨rfl, -⟩ := hs
  sinv_all h

set_option maxHeartbeats 1000000 in
theorem sinv_step_aRel {cfg : Cfg} {s s' : St} {t : Tid} {ev : Ev} {op : GOp} {g c : Nat}
    (h : SInv cfg s) (hpc : s.pc t = .aRel op g c) (hs : step cfg s t = some (s', ev)) : SInv cfg s' := by
  simp only [step, hpc] at hs
  simp at hs; obtain ⟨rfl, -⟩ := hs
  sinv_all h

set_option maxHeartbeats 1000000 in
theorem sinv_step_bMask {cfg : Cfg} {s s' : St} {t : Tid} {ev : Ev} {op : GOp} {g c : Nat}
    (h : SInv cfg s) (hpc : s.pc t = .bMask op g c) (hs : step cfg s t = some (s', ev)) : SInv cfg s' := by
  simp only [step, hpc] at hs
  simp at hs; obtain ⟨rfl, -⟩ := hs
  sinv_all h

set_option maxHeartbeats 1000000 in
theorem sinv_step_bCnt {cfg : Cfg} {s s' : St} {t : Tid} {ev : Ev} {r : GRet} {g c : Nat}
    (h : SInv cfg s) (hpc : s.pc t = .bCnt r g c) (hs : step cfg s t = some (s', ev)) : SInv cfg s' := by
  simp only [step, hpc] at hs
  simp at hs; obtain ⟨rfl, -⟩ := hs
  sinv_all h

set_option maxHeartbeats 1000000 in
theorem sinv_step_bPol {cfg : Cfg} {s s' : St} {t : Tid} {ev : Ev} {r : GRet} {g c n : Nat}
    (h : SInv cfg s) (hpc : s.pc t = .bPol r g c n) (hs : step cfg s t = some (s', ev)) : SInv cfg s' := by
  simp only [step, hpc] at hs
  simp at hs; obtain ⟨rfl, -⟩ := hs
  sinv_all h

set_option maxHeartbeats 1000000 in
theorem sinv_step_eDec {cfg : Cfg} {s s' : St} {t : Tid} {ev : Ev} {r : GRet}
    (h : SInv cfg s) (hpc : s.pc t = .eDec r) (hs : step cfg s t = some (s', ev)) : SInv cfg s' := by
  simp only [step, hpc] at hs
  simp at hs; obtain ⟨rfl, -⟩ := hs
  sinv_all h

set_option maxHeartbeats 4000000 in
theorem sinv_step_sLk {cfg : Cfg} {s s' : St} {t : Tid} {ev : Ev} {op : GOp}
    (h : SInv cfg s) (hpc : s.pc t = .sLk op) (hs : step cfg s t = some (s', ev)) : SInv cfg s' := by
  simp only [step, hpc] at hs
  have hm : cfg.h (keyD op) % s.asz 0 < s.asz 0 := Nat.mod_lt _ (h.aszpos 0 (Nat.zero_le _))
  have hstr := h.pol_s t (by simp [hpc, strOnly])
  have hg0 := (h.str0 hstr).1
  split at hs <;> simp at hs <;> obtain ⟨rfl, -⟩ := hs
  · sinv_all h
  · sinv_all h

set_option maxHeartbeats 4000000 in
theorem sinv_step_aAccL {cfg : Cfg} {s s' : St} {t : Tid} {ev : Ev} {op : GOp}
    (h : SInv cfg s) (hpc : s.pc t = .aAccL op) (hs : step cfg s t = some (s', ev)) : SInv cfg s' := by
  simp only [step, hpc] at hs
  split at hs <;> simp at hs <;> obtain ⟨rfl, -⟩ := hs
  · sinv_all h
  · sinv_all h

set_option maxHeartbeats 4000000 in
theorem sinv_step_aLk {cfg : Cfg} {s s' : St} {t : Tid} {ev : Ev} {op : GOp} {g : Nat}
    (h : SInv cfg s) (hre : cfg.recheck = true) (hpc : s.pc t = .aLk op g) (hg : g ≤ s.gen)
    (hs : step cfg s t = some (s', ev)) : SInv cfg s' := by
  simp only [step, hpc, hre, if_true] at hs
  have hm : cfg.h (keyD op) % s.asz g < s.asz g := Nat.mod_lt _ (h.aszpos g hg)
  split at hs <;> simp at hs <;> obtain ⟨rfl, -⟩ := hs
  · sinv_all h
  · sinv_all h

set_option maxHeartbeats 4000000 in
theorem sinv_step_aChk {cfg : Cfg} {s s' : St} {t : Tid} {ev : Ev} {op : GOp} {g c : Nat}
    (h : SInv cfg s) (hpc : s.pc t = .aChk op g c) (hs : step cfg s t = some (s', ev)) : SInv cfg s' := by
  simp only [step, hpc] at hs
  simp at hs; obtain ⟨rfl, -⟩ := hs
  have hr := h.pol_r t (by simp [hpc, refOnly])
  have hown : s.owner ≠ some t := by
    intro ho; have := (h.own1 t ho).1; simp [hpc, ownPC] at this
  by_cases hc : (s.owner = none ∨ s.owner = some t) ∧ s.gen = g
  · have hnone : s.owner = none := by rcases hc.1 with h1 | h1; exact h1; exact absurd h1 hown
    have hnoex : ∀ u, excl (s.pc u) = false := by
      intro u
      cases hx : excl (s.pc u) with
      | false => rfl
      | true =>
        have h1 : ownPC (s.pc u) = true := by
          revert hx; cases s.pc u <;> simp [excl, ownPC]
        have := h.own2 u hr h1
        rw [hnone] at this; simp at this
    have hnotry : ∀ u r old g i, s.pc u ≠ .zTry r old g i := by
      intro u r old g i hx
      have := h.own2 u hr (by simp [hx, ownPC]); rw [hnone] at this; simp at this
    have hnotryU : ∀ u r old g i, s.pc u ≠ .zTryU r old g i := by
      intro u r old g i hx
      have := h.own2 u hr (by simp [hx, ownPC]); rw [hnone] at this; simp at this
    have hsz := h.rs_none hr hnone
    simp only [hc, and_self, if_true]
    sinv_all h
  · simp only [hc, if_false]
    sinv_all h

set_option maxHeartbeats 4000000 in
theorem sinv_step_bOp {cfg : Cfg} {s s' : St} {t : Tid} {ev : Ev} {op : GOp} {g c b : Nat}
    (h : SInv cfg s) (hpc : s.pc t = .bOp op g c b) (hs : step cfg s t = some (s', ev)) : SInv cfg s' := by
  simp only [step, hpc] at hs
  obtain ⟨k, hk⟩ := h.okop t op (by simp [hpc, opOf])
  have hb := h.bidx t op g c b hpc
  split at hs
  · next m' r hm =>
    simp at hs; obtain ⟨rfl, -⟩ := hs
    have hplace : Placed cfg.h (s.mask + 1) (upd s.bkt b m') := by
      intro b' e he
      simp only [upd] at he
      split at he
      · next hbb =>
        subst hbb
        rcases mapStep_mem hk hm e he with h1 | h1
        · exact h.place b' e h1
        · rw [h1, hb, keyD_of_okey hk]
      · exact h.place b' e he
    have huniq : ∀ b', KeyUniq (upd s.bkt b m' b') := by
      intro b'
      simp only [upd]
      split
      · exact mapStep_uniq hk hm (h.uniq b)
      · exact h.uniq b'
    by_cases hg : grew op r = true
    · simp only [hg, if_true]
      sinv_all h
    · simp only [hg, if_false]
      sinv_all h
  · simp at hs

set_option maxHeartbeats 4000000 in
theorem sinv_step_bUnl {cfg : Cfg} {s s' : St} {t : Tid} {ev : Ev} {r : GRet} {g c : Nat} {rz dec : Bool}
    (h : SInv cfg s) (hpc : s.pc t = .bUnl r g c rz dec) (hs : step cfg s t = some (s', ev)) : SInv cfg s' := by
  simp only [step, hpc] at hs
  simp at hs; obtain ⟨rfl, -⟩ := hs
  have hh := h.hold t g c (by simp [hpc, cellOf])
  cases rz <;> cases dec <;> simp only [afterUnl] <;> simp only [if_true, if_false, Bool.false_eq_true]
  · sinv_all h
  · sinv_all h
  · sinv_all h
  · sinv_all h

end CdsVerif.Algo.Striped

"""Pre-pass of the pool_monitor trace tie (C22): harness client `locks`, hidden variant `pool_monitor_named`,
Lean machine lean/CdsVerif/Algo/PoolMonitor/Replay (cdsdriver replay poolmon).

The lock pool is an environment of the machine: WHICH free lock it hands out, and the instants of its two calls, are
inputs.  The client reports each call into the pool as one pseudo-event

    T <tid> A alloc pool P<k>        m_Pool.allocate( 1 ) returned lock k      (inside the spin-bit section of lock())
    T <tid> A free pool P<k>         m_Pool.deallocate( pLock, 1 ) of lock k   (after the last store of unlock())

and this pass turns them into the invocations the replay machine takes its input from:

    T <tid> CALL pool_alloc <tid> <k>
    T <tid> CALL pool_free <tid> <k>

Nothing else is changed or removed: node words `N<n>.refspin` and pool lock words `P<k>.spin` are machine locations;
the pool's own atomic operations, the placement-new constructor of a lock and the client's is_locked() probe run
quietly in the client and are not in the trace."""
import re
import sys

_POOL = re.compile(r"^T (\d+) A (alloc|free) pool P(\d+)\s*$")


def poolmon_pre(text):
    out = []
    for l in text.split("\n"):
        m = _POOL.match(l)
        if m:
            out.append("T %s CALL pool_%s %s %s" % (m.group(1), m.group(2), m.group(1), m.group(3)))
        else:
            out.append(l)
    return "\n".join(out)


if __name__ == "__main__":
    sys.stdout.write(poolmon_pre(sys.stdin.read()))

/-
  Linearizability of the FeldmanHashSet model (property C14) with respect to the sequential map `Spec.map`.

  Every operation has a DEFINITIVE linearization point, the step at which its program counter becomes `done r`
  (`Refine.lean`): the successful CAS of insert / erase / update, and for every other answer the last load of `protect`,
  which confirms the slot value the answer is computed from.  At that step the abstract map `look` (what a traversal
  from the head array finds) makes the `Spec.map` transition of the operation (`step_refines`); every other step —
  in particular every step of `expand_slot` — leaves `look` unchanged.

  The proof instruments a run with a ghost log: an entry is appended at every linearization point, between the
  invocation and the response of its operation, so the log is a legal sequential execution that respects real time,
  and the entries whose operation has returned are, up to permutation, the complete history of the run.
-/
import CdsVerif.Algo.Feldman.Log
namespace CdsVerif.Algo.Feldman
open CdsVerif.Machine CdsVerif.Spec CdsVerif.Lin

/-! ### What a step does to the program counter of its thread -/

theorem decideOp_cases (c : Cfg) (op : Op) (a lvl : Nat) (cl : Cell) :
    (∃ r, decideOp c op a lvl cl = .done r) ∨ posOf (decideOp c op a lvl cl) = some (op, a, lvl) := by
  unfold decideOp
  repeat' split
  all_goals (first | (left; exact ⟨_, rfl⟩) | (right; rfl))

theorem step_frame {c : Cfg} {s s' : St} {t : Tid} {ev : Ev} (hs : step c s t = some (s', ev)) :
    ∀ t2, t2 ≠ t → s'.pc t2 = s.pc t2 := by
  intro t2 ht
  cases hpc : s.pc t
  all_goals (simp only [step, hpc] at hs)
  all_goals (try (simp at hs; done))
  all_goals (repeat' split at hs)
  all_goals (simp only [Option.some.injEq, Prod.mk.injEq] at hs; obtain ⟨rfl, -⟩ := hs)
  all_goals (first | rfl | simp [upd, ht])

theorem step_pc {c : Cfg} {s s' : St} {t : Tid} {ev : Ev} (hs : step c s t = some (s', ev)) :
    s.pc t ≠ .idle ∧ s'.pc t ≠ .idle ∧ retOf (s.pc t) = none ∧
    (retOf (s'.pc t) = none → opOf (s'.pc t) = opOf (s.pc t)) := by
  cases hpc : s.pc t
  all_goals (simp only [step, hpc] at hs)
  all_goals (try (simp at hs; done))
  case prot2 op a lvl cl x =>
    split at hs
    · simp only [Option.some.injEq, Prod.mk.injEq] at hs; obtain ⟨rfl, -⟩ := hs
      simp only [upd_same]; split <;> simp [retOf, opOf, posOf]
    · split at hs
      · simp only [Option.some.injEq, Prod.mk.injEq] at hs; obtain ⟨rfl, -⟩ := hs
        simp [retOf, opOf, posOf]
      · simp only [Option.some.injEq, Prod.mk.injEq] at hs; obtain ⟨rfl, -⟩ := hs
        simp only [upd_same]
        rcases decideOp_cases c op a lvl cl with ⟨r, hr⟩ | hpo
        · simp [hr, retOf]
        · refine ⟨by simp, ?_, by simp [retOf], ?_⟩
          · intro e; rw [e] at hpo; simp [posOf] at hpo
          · intro _; unfold opOf; rw [hpo]; simp [posOf]
  all_goals (repeat' split at hs)
  all_goals (simp only [Option.some.injEq, Prod.mk.injEq] at hs; obtain ⟨rfl, -⟩ := hs)
  all_goals (try simp only [upd_same])
  all_goals (simp [retOf, opOf, posOf, hpc])

theorem go_init (k : Int) : ∀ (p : List Nat) (a : Nat), go (fun _ _ => Cell.null) k a p = none := by
  intro p; cases p <;> intro a <;> simp [go, leaf]

/-! ### Instrumented runs -/

structure GSt where
  s : St
  clock : Nat                          -- number of actions so far = index of the next observation
  pend : Pend
  hist : List (OpRec GOp GRet)         -- records of the operations that have returned, in order of return
  log : List LE                        -- operations that have passed their linearization point, in that order

def ginit : GSt := ⟨init, 0, fun _ => none, [], []⟩

/-- Ghost update for the action of thread `t` that leads to model state `s'` with observation `o`. -/
def gnext (g : GSt) (t : Tid) (s' : St) : Obs → GSt
  | .call op =>
    { g with s := s', clock := g.clock + 1, pend := upd g.pend t (some (op, g.clock)) }
  | .ev _ =>
    { g with
      s := s', clock := g.clock + 1,
      log := match retOf (g.s.pc t), retOf (s'.pc t), g.pend t with
        | none, some r, some (op, k) => g.log ++ [⟨t, op, r, k, none⟩]     -- linearization point
        | _, _, _ => g.log }
  | .ret r =>
    match g.pend t with
    | some (op, k) =>
      { s := s', clock := g.clock + 1, pend := upd g.pend t none,
        hist := g.hist ++ [⟨t, op, r, k, g.clock⟩], log := g.log.map (LE.close t g.clock) }
    | none => { g with s := s', clock := g.clock + 1 }

structure GI (c : Cfg) (g : GSt) : Prop where
  spec : ∃ m, runSpec [] g.log = some m ∧ ∀ k, mfind m k = look c g.s k
  invlt : ∀ e, e ∈ g.log → e.inv < g.clock
  rt : g.log.Pairwise (fun a b => ∀ r, b.res = some r → a.inv ≤ r)
  comp : (completed g.log).Perm g.hist
  pendlt : ∀ t op k, g.pend t = some (op, k) → k < g.clock
  pre : ∀ t op, opOf (g.s.pc t) = some op → ∃ k, g.pend t = some (op, k)
  preopen : ∀ t, retOf (g.s.pc t) = none → openOf t g.log = []
  post : ∀ t r, retOf (g.s.pc t) = some r →
    ∃ op k, g.pend t = some (op, k) ∧ openOf t g.log = [⟨t, op, r, k, none⟩]
  idle : ∀ t, g.s.pc t = .idle → g.pend t = none

def GInv (c : Cfg) (g : GSt) : Prop := SInv c g.s ∧ GI c g

theorem ginv_init (c : Cfg) : GInv c ginit := by
  refine ⟨sinv_init c, ?_⟩
  constructor <;> simp [ginit, init, runSpec, completed, opOf, posOf, retOf, openOf, look, mfind, go_init]

theorem ginv_invoke {c : Cfg} (hp : PathHyp c) {g : GSt} {t : Tid} {op : GOp} {s' : St} (h : GInv c g)
    (hs : invoke g.s t op = some s') : GInv c (gnext g t s' (.call op)) := by
  obtain ⟨hl, hg⟩ := h
  refine ⟨sinv_invoke hp hl hs, ?_⟩
  obtain ⟨hspec, hinvlt, hrt, hcomp, hpendlt, hpre, hpreopen, hpost, hidle⟩ := hg
  -- what `invoke` does
  have hinv : g.s.pc t = .idle ∧ ∃ pc', s'.pc = upd g.s.pc t pc' ∧ s'.cell = g.s.cell ∧ opOf pc' = some op ∧
      retOf pc' = none := by
    unfold invoke at hs
    obtain ⟨name, args⟩ := op
    split at hs
    · next hidle =>
      split at hs
      all_goals (try (simp at hs; done))
      all_goals (simp only [Option.some.injEq] at hs; subst hs)
      all_goals (rename_i h1 h2; simp only at h1 h2; subst h1 h2)
      all_goals (exact ⟨hidle, _, rfl, rfl, by simp [opOf, posOf, gopOf], by simp [retOf]⟩)
    · simp at hs
  obtain ⟨hwas, pc', hpc', hcell', hop', hret'⟩ := hinv
  have hlook : ∀ k, look c s' k = look c g.s k := by intro k; simp only [look, hcell']
  have hpw : retOf (g.s.pc t) = none := by simp [hwas, retOf]
  constructor
  · obtain ⟨m, hm1, hm2⟩ := hspec
    exact ⟨m, hm1, fun k => (hm2 k).trans (by simp only [gnext]; exact (hlook k).symm)⟩
  · intro e he; have := hinvlt e he; simp only [gnext]; omega
  · exact hrt
  · exact hcomp
  · intro t2 op2 k; simp only [gnext, upd]; intro h
    split at h
    · simp at h; omega
    · have := hpendlt t2 op2 k h; omega
  · intro t2 op2; simp only [gnext, hpc']
    by_cases ht : t2 = t
    · subst ht; simp only [upd_same, hop']; intro h; simp at h; subst h; exact ⟨g.clock, rfl⟩
    · simp only [upd, if_neg ht]; exact hpre t2 op2
  · intro t2; simp only [gnext, hpc']
    by_cases ht : t2 = t
    · subst ht; intro _; exact hpreopen t2 hpw
    · simp only [upd, if_neg ht]; exact hpreopen t2
  · intro t2 r; simp only [gnext, hpc']
    by_cases ht : t2 = t
    · subst ht; simp only [upd_same, hret']; intro h; simp at h
    · simp only [upd, if_neg ht]; exact hpost t2 r
  · intro t2; simp only [gnext, hpc']
    by_cases ht : t2 = t
    · subst ht; simp only [upd_same]; intro h; rw [h] at hop'; simp [opOf, posOf] at hop'
    · simp only [upd, if_neg ht]; exact hidle t2

theorem ginv_result {c : Cfg} {g : GSt} {t : Tid} {r : GRet} {s' : St} (h : GInv c g)
    (hs : result g.s t = some (s', r)) : GInv c (gnext g t s' (.ret r)) := by
  obtain ⟨hl, hg⟩ := h
  refine ⟨by rw [show (gnext g t s' (.ret r)).s = s' by simp only [gnext]; split <;> rfl]; exact sinv_result hl hs, ?_⟩
  obtain ⟨hspec, hinvlt, hrt, hcomp, hpendlt, hpre, hpreopen, hpost, hidle⟩ := hg
  have hres : g.s.pc t = .done r ∧ s' = { g.s with pc := upd g.s.pc t .idle } := by
    unfold result at hs
    split at hs
    · next r' hd => simp at hs; obtain ⟨rfl, rfl⟩ := hs; exact ⟨hd, rfl⟩
    · simp at hs
  obtain ⟨hdone, rfl⟩ := hres
  obtain ⟨op, k, hp, hopen⟩ := hpost t r (by simp [hdone, retOf])
  have hcl : ∀ e, (LE.close t g.clock e).inv = e.inv := by intro e; unfold LE.close; split <;> rfl
  simp only [gnext, hp]
  constructor <;> dsimp only
  · obtain ⟨m, hm1, hm2⟩ := hspec
    exact ⟨m, by rw [runSpec_close]; exact hm1, hm2⟩
  · intro e he
    obtain ⟨e0, he0, rfl⟩ := List.mem_map.mp he
    have := hinvlt e0 he0; rw [hcl]; omega
  · rw [List.pairwise_map]
    refine List.Pairwise.imp_of_mem ?_ hrt
    intro a b ha hb hab r' hr'
    rw [hcl]
    unfold LE.close at hr'
    split at hr'
    · simp at hr'; have := hinvlt a ha; omega
    · exact hab r' hr'
  · refine (completed_close t g.clock g.log).trans ?_
    rw [hopen]
    exact List.Perm.append_right _ hcomp
  · intro t2 op2 k2 h
    simp only [upd] at h
    split at h
    · simp at h
    · have := hpendlt t2 op2 k2 h; omega
  · intro t2 op2
    by_cases ht : t2 = t
    · subst ht; simp [opOf, posOf]
    · simp only [upd, if_neg ht]; intro h
      obtain ⟨k2, hk⟩ := hpre t2 op2 h
      exact ⟨k2, hk⟩
  · intro t2
    by_cases ht : t2 = t
    · subst ht; intro _; exact openOf_close_same _ _ _
    · simp only [upd, if_neg ht]; rw [openOf_close_other _ _ _ ht]; exact hpreopen t2
  · intro t2 r2
    by_cases ht : t2 = t
    · subst ht; simp [retOf]
    · simp only [upd, if_neg ht]; rw [openOf_close_other _ _ _ ht]; exact hpost t2 r2
  · intro t2
    by_cases ht : t2 = t
    · subst ht; intro _; simp [upd]
    · simp only [upd, if_neg ht]; exact hidle t2

theorem ginv_step {c : Cfg} (hp : PathHyp c) (hcf : c.copyFirst = true) {g : GSt} {t : Tid} {ev : Ev} {s' : St}
    (h : GInv c g) (hs : step c g.s t = some (s', ev)) : GInv c (gnext g t s' (.ev ev)) := by
  obtain ⟨hl, hg⟩ := h
  refine ⟨sinv_step hp hcf hl hs, ?_⟩
  obtain ⟨hspec, hinvlt, hrt, hcomp, hpendlt, hpre, hpreopen, hpost, hidle⟩ := hg
  have hframe := step_frame hs
  obtain ⟨hbusy1, hbusy2, h1, hopk⟩ := step_pc hs
  obtain ⟨hlp, hnlp⟩ := step_refines hp hcf hl hs
  obtain ⟨m, hm1, hm2⟩ := hspec
  have hpre' : ∀ op2, opOf (s'.pc t) = some op2 → ∃ k, g.pend t = some (op2, k) := by
    intro op2 ho
    cases hr : retOf (s'.pc t) with
    | none => rw [hopk hr] at ho; exact hpre t op2 ho
    | some r => revert ho hr; cases s'.pc t <;> simp [opOf, posOf, retOf]
  cases h2 : retOf (s'.pc t) with
  | some r =>
    -- linearization point
    obtain ⟨op, hop, hnext⟩ := hlp r h2
    obtain ⟨k, hk⟩ := hpre t op hop
    obtain ⟨m', hm1', hm2'⟩ := hnext m hm2
    have hlog : (gnext g t s' (.ev ev)).log = g.log ++ [⟨t, op, r, k, none⟩] := by
      simp only [gnext, h1, h2, hk]
    constructor
    · refine ⟨m', ?_, by simpa only [gnext] using hm2'⟩
      rw [hlog, runSpec_append, hm1]
      simp only [Option.bind_some, runSpec, hm1']
    · rw [hlog]; intro e he
      simp only [gnext]
      rcases List.mem_append.mp he with h | h
      · have := hinvlt e h; omega
      · simp at h; subst h; have := hpendlt t op k hk; simp only; omega
    · rw [hlog, List.pairwise_append]
      refine ⟨hrt, by simp, ?_⟩
      intro a _ b hb r'' hr''
      simp at hb; subst hb; simp at hr''
    · rw [hlog]
      simp only [completed, List.filterMap_append, gnext] at hcomp ⊢
      have : List.filterMap LE.done? [(⟨t, op, r, k, none⟩ : LE)] = [] := by simp [LE.done?]
      rw [this, List.append_nil]; exact hcomp
    · intro t2 op2 k2 h
      simp only [gnext] at h ⊢
      have := hpendlt t2 op2 k2 h; omega
    · intro t2 op2
      simp only [gnext]
      by_cases ht : t2 = t
      · subst ht; exact hpre' op2
      · rw [hframe t2 ht]; exact hpre t2 op2
    · intro t2
      rw [hlog]; simp only [gnext]
      by_cases ht : t2 = t
      · subst ht; rw [h2]; simp
      · rw [hframe t2 ht, openOf_append]; intro h
        rw [hpreopen t2 h]
        have : t ≠ t2 := fun e => ht e.symm
        simp [openOf, this]
    · intro t2 r2
      rw [hlog]; simp only [gnext]
      by_cases ht : t2 = t
      · subst ht; rw [h2]; intro h; simp at h; subst h
        refine ⟨op, k, hk, ?_⟩
        rw [openOf_append, hpreopen t2 h1]
        simp [openOf]
      · rw [hframe t2 ht, openOf_append]; intro h
        obtain ⟨op2, k2, h3, h4⟩ := hpost t2 r2 h
        refine ⟨op2, k2, h3, ?_⟩
        rw [h4]
        have : t ≠ t2 := fun e => ht e.symm
        simp [openOf, this]
    · intro t2
      simp only [gnext]
      by_cases ht : t2 = t
      · subst ht; intro h; exact absurd h hbusy2
      · rw [hframe t2 ht]; exact hidle t2
  | none =>
    -- any other step: the thread's linearization status and the abstract map are unchanged
    have hEq : retOf (s'.pc t) = retOf (g.s.pc t) := by rw [h1, h2]
    have hlook := hnlp h2
    have hlog : (gnext g t s' (.ev ev)).log = g.log := by
      simp only [gnext, h1, h2]
    constructor
    · exact ⟨m, by rw [hlog]; exact hm1, fun k => (hm2 k).trans (by simpa only [gnext] using (hlook k).symm)⟩
    · rw [hlog]; intro e he; have := hinvlt e he; simp only [gnext]; omega
    · rw [hlog]; exact hrt
    · rw [hlog]; exact hcomp
    · intro t2 op2 k2 h
      simp only [gnext] at h ⊢
      have := hpendlt t2 op2 k2 h; omega
    · intro t2 op2
      simp only [gnext]
      by_cases ht : t2 = t
      · subst ht; exact hpre' op2
      · rw [hframe t2 ht]; exact hpre t2 op2
    · intro t2
      rw [hlog]; simp only [gnext]
      by_cases ht : t2 = t
      · subst ht; rw [hEq]; exact hpreopen t2
      · rw [hframe t2 ht]; exact hpreopen t2
    · intro t2 r2
      rw [hlog]; simp only [gnext]
      by_cases ht : t2 = t
      · subst ht; rw [hEq]; exact hpost t2 r2
      · rw [hframe t2 ht]; exact hpost t2 r2
    · intro t2
      simp only [gnext]
      by_cases ht : t2 = t
      · subst ht; intro h; exact absurd h hbusy2
      · rw [hframe t2 ht]; exact hidle t2

theorem gnext_s (g : GSt) (t : Tid) (s' : St) (o : Obs) : (gnext g t s' o).s = s' := by
  cases o <;> simp only [gnext]
  split <;> rfl

theorem gnext_clock (g : GSt) (t : Tid) (s' : St) (o : Obs) : (gnext g t s' o).clock = g.clock + 1 := by
  cases o <;> simp only [gnext]
  split <;> rfl

theorem gnext_hist (g : GSt) (t : Tid) (s' : St) (o : Obs) (os : List (Tid × Obs)) :
    (gnext g t s' o).hist ++ histAux (g.clock + 1) (gnext g t s' o).pend os
      = g.hist ++ histAux g.clock g.pend ((t, o) :: os) := by
  cases o with
  | call op => simp only [gnext, histAux]
  | ev e => simp only [gnext, histAux]
  | ret r =>
    simp only [gnext, histAux]
    cases hp : g.pend t with
    | none => simp only
    | some p => obtain ⟨op, k⟩ := p; simp only [List.append_assoc, List.singleton_append]

theorem gnext_pend (g : GSt) (t : Tid) (s' : St) (o : Obs) (os : List (Tid × Obs)) :
    pendAux (g.clock + 1) (gnext g t s' o).pend os = pendAux g.clock g.pend ((t, o) :: os) := by
  cases o with
  | call op => simp only [gnext, pendAux]
  | ev e => simp only [gnext, pendAux]
  | ret r =>
    simp only [gnext, pendAux]
    cases hp : g.pend t with
    | none => simp only
    | some p => obtain ⟨op, k⟩ := p; simp only

theorem ginv_apply {c : Cfg} (hp : PathHyp c) (hcf : c.copyFirst = true) {g : GSt} {t : Tid} {a : Act} {s' : St} {o : Obs}
    (h : GInv c g) (hap : (model c).apply g.s t a = some (s', o)) : GInv c (gnext g t s' o) := by
  cases a with
  | invoke op =>
    simp only [Model.apply, model, Option.map_eq_some_iff] at hap
    obtain ⟨s1, hs1, heq⟩ := hap
    simp only [Prod.mk.injEq] at heq
    obtain ⟨rfl, rfl⟩ := heq
    exact ginv_invoke hp h hs1
  | step =>
    simp only [Model.apply, model, Option.map_eq_some_iff] at hap
    obtain ⟨⟨s1, e⟩, hs1, heq⟩ := hap
    simp only [Prod.mk.injEq] at heq
    obtain ⟨rfl, rfl⟩ := heq
    exact ginv_step hp hcf h hs1
  | ret =>
    simp only [Model.apply, model, Option.map_eq_some_iff] at hap
    obtain ⟨⟨s1, r⟩, hs1, heq⟩ := hap
    simp only [Prod.mk.injEq] at heq
    obtain ⟨rfl, rfl⟩ := heq
    exact ginv_result h hs1

/-- Every run of the model lifts to an instrumented run. -/
theorem run_ghost {c : Cfg} (hp : PathHyp c) (hcf : c.copyFirst = true) :
    ∀ (sched : List (Tid × Act)) (g : GSt) (s' : St) (os : List (Tid × Obs)),
    GInv c g → (model c).run g.s sched = some (s', os) →
    ∃ g', GInv c g' ∧ g'.s = s' ∧ g'.hist = g.hist ++ histAux g.clock g.pend os ∧
      g'.pend = pendAux g.clock g.pend os ∧ g'.clock = g.clock + os.length := by
  intro sched
  induction sched with
  | nil =>
    intro g s' os hg hr
    simp [Model.run] at hr
    obtain ⟨rfl, rfl⟩ := hr
    exact ⟨g, hg, rfl, by simp [histAux], by simp [pendAux], by simp⟩
  | cons x rest ih =>
    intro g s' os hg hr
    obtain ⟨t, a⟩ := x
    simp only [Model.run] at hr
    cases hap : (model c).apply g.s t a with
    | none => simp [hap] at hr
    | some p =>
      obtain ⟨s1, o⟩ := p
      simp only [hap] at hr
      cases hrr : (model c).run s1 rest with
      | none => simp [hrr] at hr
      | some q =>
        obtain ⟨s2, os2⟩ := q
        simp only [hrr, Option.some.injEq, Prod.mk.injEq] at hr
        obtain ⟨rfl, rfl⟩ := hr
        have hg1 := ginv_apply hp hcf hg hap
        have hrr' : (model c).run (gnext g t s1 o).s rest = some (s2, os2) := by rw [gnext_s]; exact hrr
        obtain ⟨g', hg', hs', hh, hp, hc⟩ := ih (gnext g t s1 o) s2 os2 hg1 hrr'
        refine ⟨g', hg', hs', ?_, ?_, ?_⟩
        · rw [hh, gnext_clock, gnext_hist]
        · rw [hp, gnext_clock, gnext_pend]
        · rw [hc, gnext_clock]; simp; omega

/-! ### From the ghost invariant to linearizability -/

/-- The linearization extracted from the ghost log: the completed operations plus the pending operations that have
    passed their linearization point. -/
theorem ginv_linearizable {c : Cfg} {g : GSt} (h : GInv c g) :
    Linearizable Spec.map (g.hist ++ (openAll g.log).map (LE.fin g.clock)) ∧
    (∀ e ∈ (openAll g.log).map (LE.fin g.clock),
        g.pend e.tid = some (e.op, e.inv) ∧ e.res = g.clock ∧ retOf (g.s.pc e.tid) = some e.ret) ∧
    ((openAll g.log).map (LE.fin g.clock)).Pairwise (fun a b => a.tid ≠ b.tid) := by
  obtain ⟨-, hg⟩ := h
  obtain ⟨hspec, hinvlt, hrt, hcomp, hpendlt, hpre, hpreopen, hpost, hidle⟩ := hg
  obtain ⟨m, hm1, -⟩ := hspec
  refine ⟨⟨g.log.map (LE.fin g.clock), ?_, ?_, ?_⟩, ?_, ?_⟩
  · exact (completed_openAll_perm g.clock g.log).symm.trans (List.Perm.append_right _ hcomp)
  · unfold RespectsRT
    rw [List.pairwise_map]
    refine List.Pairwise.imp_of_mem ?_ hrt
    intro a b ha _ hab
    simp only [LE.fin]
    cases hr : b.res with
    | none => have := hinvlt a ha; simp; omega
    | some r => have := hab r hr; simp; omega
  · exact legal_of_runSpec g.clock g.log [] _ hm1
  · intro e' he'
    obtain ⟨e, he, rfl⟩ := List.mem_map.mp he'
    have he2 := List.mem_filter.mp he
    have hr : e.res = none := by cases h : e.res <;> simp_all
    have hmem : e ∈ openOf e.tid g.log := by
      simp only [openOf, List.mem_filter]; exact ⟨he2.1, by simp [hr]⟩
    cases hp : retOf (g.s.pc e.tid) with
    | none => rw [hpreopen e.tid hp] at hmem; simp at hmem
    | some r =>
      obtain ⟨op, k, h1, h2⟩ := hpost e.tid r hp
      rw [h2] at hmem
      simp at hmem
      have e1 : e.op = op := by rw [hmem]
      have e2 : e.inv = k := by rw [hmem]
      have e3 : e.ret = r := by rw [hmem]
      simp [LE.fin, hr, h1, e1, e2, e3, hp]
  · rw [List.pairwise_map]
    refine openAll_pairwise g.log ?_
    intro t
    cases hp : retOf (g.s.pc t) with
    | none => rw [hpreopen t hp]; simp
    | some r => obtain ⟨op, k, -, h2⟩ := hpost t r hp; rw [h2]; simp

/-! ### Main theorems -/

theorem run_ghost_init {c : Cfg} (hp : PathHyp c) (hcf : c.copyFirst = true) {sched : List (Tid × Act)} {s : St}
    {os : List (Tid × Obs)} (h : (model c).run (init) sched = some (s, os)) :
    ∃ g, GInv c g ∧ g.s = s ∧ g.hist = historyOf os ∧ g.pend = pendingOf os ∧ g.clock = os.length := by
  obtain ⟨g, hg, h1, h2, h3, h4⟩ := run_ghost hp hcf sched ginit s os (ginv_init c) h
  exact ⟨g, hg, h1, by simpa [ginit, historyOf] using h2, by simpa [ginit, pendingOf] using h3,
    by simpa [ginit] using h4⟩

/-- **Linearizability of FeldmanHashSet** (Herlihy–Wing, with completion of pending operations).
    For every run of the model, the history of the completed operations, extended by response records `extra` for
    the operations still pending at the end that have passed their linearization point (they get the result fixed there
    and the response time "end of the run"; at most one per thread), is linearizable to the sequential map.  Pending
    operations that have not reached their linearization point are dropped. -/
theorem feldman_linearizable {c : Cfg} (hp : PathHyp c) (hcf : c.copyFirst = true) (sched : List (Tid × Act)) (s : St)
    (os : List (Tid × Obs)) (h : (model c).run init sched = some (s, os)) :
    ∃ extra : List (OpRec GOp GRet),
      (∀ e ∈ extra, pendingOf os e.tid = some (e.op, e.inv) ∧ e.res = os.length ∧
          retOf (s.pc e.tid) = some e.ret) ∧
      extra.Pairwise (fun a b => a.tid ≠ b.tid) ∧
      Linearizable Spec.map (historyOf os ++ extra) := by
  obtain ⟨g, hg, rfl, h2, h3, h4⟩ := run_ghost_init hp hcf h
  obtain ⟨hlin, hex, hpw⟩ := ginv_linearizable hg
  rw [h2, h3, h4] at *
  exact ⟨_, hex, hpw, hlin⟩

/-- Runs at whose end no thread is between its linearization point and its return. -/
theorem feldman_linearizable_no_effect_pending {c : Cfg} (hp : PathHyp c) (hcf : c.copyFirst = true)
    (sched : List (Tid × Act)) (s : St) (os : List (Tid × Obs)) (h : (model c).run init sched = some (s, os))
    (hq : ∀ t, retOf (s.pc t) = none) : Linearizable Spec.map (historyOf os) := by
  obtain ⟨extra, hex, -, hlin⟩ := feldman_linearizable hp hcf sched s os h
  have : extra = [] := by
    apply List.eq_nil_iff_forall_not_mem.mpr
    intro e he
    have := (hex e he).2.2
    rw [hq] at this; simp at this
  simpa [this] using hlin

/-- Runs in which every invoked operation has returned. -/
theorem feldman_linearizable_complete_runs {c : Cfg} (hp : PathHyp c) (hcf : c.copyFirst = true)
    (sched : List (Tid × Act)) (s : St) (os : List (Tid × Obs)) (h : (model c).run init sched = some (s, os))
    (hq : ∀ t, s.pc t = .idle) : Linearizable Spec.map (historyOf os) :=
  feldman_linearizable_no_effect_pending hp hcf sched s os h (fun t => by simp [hq t, retOf])

end CdsVerif.Algo.Feldman

/-
Property C27 — split-ordered list key functions
(`/repo/cds/intrusive/details/split_list_base.h` `regular_hash`, `dummy_hash`;
 `/repo/cds/intrusive/split_list.h` `bucket_no`, `parent_bucket`).

All theorems are about the GENERATED definitions of `CdsVerif.Gen.SplitOrder`, for all three
64-bit bit-reversal implementations (`swar`, `lookup`, `muldiv`).  The reasoning lives in
`CdsVerif.Algo.SplitOrder.Lemmas` over an abstract reversal; here it is instantiated with
the bit-reversal / msb theorems of property C25 (`CdsVerif.Props.C25`), so every theorem
below is unconditional.

DEVIATION FROM THE REQUESTED STATEMENT (not a weakening chosen for convenience — the
requested statement is false):  `C27_parent_dummy_before_X` carries the extra hypothesis
`b.toNat < 2^63`.  For bucket numbers with bit 63 set the parent's dummy key is EQUAL to the
bucket's dummy key (`dummy_hash` clears bit 0 of the reversed value, which is bit 63 of the
bucket number, i.e. exactly the bit `parent_bucket` removed); this is proved as
`C27_parent_dummy_collision_X` and witnessed by an `example` for `b = 2^63`.  A table of
`2^k` buckets with `k ≤ 63` never has such a bucket number.
-/
import CdsVerif.Gen.SplitOrder
import CdsVerif.Algo.SplitOrder.Lemmas
import CdsVerif.Props.C25

namespace CdsVerif.Props.C27

open CdsVerif.Gen.SplitOrder CdsVerif.Gen.BitReversal CdsVerif.Gen.BitopGeneric
open CdsVerif.Algo.SplitOrder

/-! ## Facts imported from property C25 (bit reversal, msb)

This block is the ONLY place that depends on `CdsVerif.Props.C25`. -/

open CdsVerif.Props.C25 in
private theorem swar_rev : ∀ x : BitVec 64, swar64 x = x.reverse := C25_swar64_reverse
open CdsVerif.Props.C25 in
private theorem lookup_rev : ∀ x : BitVec 64, lookup64 x = x.reverse := C25_lookup64_reverse
open CdsVerif.Props.C25 in
private theorem muldiv_rev : ∀ x : BitVec 64, muldiv_op64 x = x.reverse :=
  C25_muldiv_op64_reverse

private theorem msb_spec : ∀ b : BitVec 64, b ≠ 0 → (msb64nz b).toNat = Nat.log2 b.toNat :=
  fun b hb => (CdsVerif.Props.C25.C25_msb64nz_spec b hb).2.2

private theorem msb_ub : ∀ b : BitVec 64, msb64nz_ub b = false :=
  CdsVerif.Props.C25.C25_msb_lsb_no_ub.2.2.2.1

/-! ## The generated functions are the abstract ones (definitional unfolding) -/

example (h) : regular_hash_swar h = regularKey swar64 h := rfl
example (h) : regular_hash_lookup h = regularKey lookup64 h := rfl
example (h) : regular_hash_muldiv h = regularKey muldiv_op64 h := rfl
example (h) : dummy_hash_swar h = dummyKey swar64 h := rfl
example (h) : dummy_hash_lookup h = dummyKey lookup64 h := rfl
example (h) : dummy_hash_muldiv h = dummyKey muldiv_op64 h := rfl
example (b) : parent_bucket b = parentOf msb64nz b := rfl
example (k h) : bucket_no k h = bucketOf k h := rfl

/-! ## Parity: regular keys are odd, dummy keys are even -/

theorem C27_regular_odd_swar : ∀ h, (regular_hash_swar h).getLsbD 0 = true :=
  fun h => regular_odd swar64 h
theorem C27_regular_odd_lookup : ∀ h, (regular_hash_lookup h).getLsbD 0 = true :=
  fun h => regular_odd lookup64 h
theorem C27_regular_odd_muldiv : ∀ h, (regular_hash_muldiv h).getLsbD 0 = true :=
  fun h => regular_odd muldiv_op64 h

theorem C27_dummy_even_swar : ∀ h, (dummy_hash_swar h).getLsbD 0 = false :=
  fun h => dummy_even swar64 h
theorem C27_dummy_even_lookup : ∀ h, (dummy_hash_lookup h).getLsbD 0 = false :=
  fun h => dummy_even lookup64 h
theorem C27_dummy_even_muldiv : ∀ h, (dummy_hash_muldiv h).getLsbD 0 = false :=
  fun h => dummy_even muldiv_op64 h

/-! ## bucket_no / parent_bucket -/

theorem C27_bucket_no : ∀ (k : BitVec 64) h, k.toNat ≤ 63 →
    bucket_no_ub k h = false ∧ (bucket_no k h).toNat = h.toNat % 2 ^ k.toNat := by
  intro k h hk
  refine ⟨?_, bucketOf_spec k h hk⟩
  simp [bucket_no_ub]; omega

theorem C27_parent_bucket : ∀ b, b ≠ 0 →
    parent_bucket_ub b = false ∧
    (parent_bucket b).toNat = b.toNat - 2 ^ (Nat.log2 b.toNat) ∧
    (parent_bucket b).toNat < b.toNat := by
  intro b hb
  refine ⟨?_, parentOf_spec msb64nz msb_spec b hb⟩
  have := msbnz_lt_64 msb64nz msb_spec b hb
  simp [parent_bucket_ub, msb_ub]; omega

/-! ## A bucket's parent dummy sorts strictly before the bucket's dummy -/

theorem C27_parent_dummy_before_swar : ∀ b, b ≠ 0 → b.toNat < 2 ^ 63 →
    BitVec.ult (dummy_hash_swar (parent_bucket b)) (dummy_hash_swar b) = true :=
  fun b hb hlt => parent_dummy_before msb64nz msb_spec swar64 swar_rev b hb hlt
theorem C27_parent_dummy_before_lookup : ∀ b, b ≠ 0 → b.toNat < 2 ^ 63 →
    BitVec.ult (dummy_hash_lookup (parent_bucket b)) (dummy_hash_lookup b) = true :=
  fun b hb hlt => parent_dummy_before msb64nz msb_spec lookup64 lookup_rev b hb hlt
theorem C27_parent_dummy_before_muldiv : ∀ b, b ≠ 0 → b.toNat < 2 ^ 63 →
    BitVec.ult (dummy_hash_muldiv (parent_bucket b)) (dummy_hash_muldiv b) = true :=
  fun b hb hlt => parent_dummy_before msb64nz msb_spec muldiv_op64 muldiv_rev b hb hlt

/-- The hypothesis `b.toNat < 2^63` above cannot be dropped: for every bucket number with
    bit 63 set the parent's dummy key equals the bucket's dummy key. -/
theorem C27_parent_dummy_collision_swar : ∀ b : BitVec 64, 2 ^ 63 ≤ b.toNat →
    dummy_hash_swar (parent_bucket b) = dummy_hash_swar b :=
  fun b h => parent_dummy_collision msb64nz msb_spec swar64 swar_rev b h
theorem C27_parent_dummy_collision_lookup : ∀ b : BitVec 64, 2 ^ 63 ≤ b.toNat →
    dummy_hash_lookup (parent_bucket b) = dummy_hash_lookup b :=
  fun b h => parent_dummy_collision msb64nz msb_spec lookup64 lookup_rev b h
theorem C27_parent_dummy_collision_muldiv : ∀ b : BitVec 64, 2 ^ 63 ≤ b.toNat →
    dummy_hash_muldiv (parent_bucket b) = dummy_hash_muldiv b :=
  fun b h => parent_dummy_collision msb64nz msb_spec muldiv_op64 muldiv_rev b h

/-! ## Every regular key of bucket `b` sorts after `b`'s dummy … -/

theorem C27_dummy_before_regular_swar : ∀ (k : BitVec 64) h, k.toNat ≤ 63 →
    BitVec.ult (dummy_hash_swar (bucket_no k h)) (regular_hash_swar h) = true :=
  fun k h hk => dummy_before_regular swar64 swar_rev k h hk
theorem C27_dummy_before_regular_lookup : ∀ (k : BitVec 64) h, k.toNat ≤ 63 →
    BitVec.ult (dummy_hash_lookup (bucket_no k h)) (regular_hash_lookup h) = true :=
  fun k h hk => dummy_before_regular lookup64 lookup_rev k h hk
theorem C27_dummy_before_regular_muldiv : ∀ (k : BitVec 64) h, k.toNat ≤ 63 →
    BitVec.ult (dummy_hash_muldiv (bucket_no k h)) (regular_hash_muldiv h) = true :=
  fun k h hk => dummy_before_regular muldiv_op64 muldiv_rev k h hk

/-! ## … and before the dummy of any bucket that appears later in split order -/

theorem C27_contiguous_swar : ∀ (k : BitVec 64) h b', k.toNat ≤ 63 → b'.toNat < 2 ^ k.toNat →
    b' ≠ bucket_no k h →
    BitVec.ult (dummy_hash_swar (bucket_no k h)) (dummy_hash_swar b') = true →
    BitVec.ult (regular_hash_swar h) (dummy_hash_swar b') = true :=
  fun k h b' hk hb' _ hlt => contiguous swar64 swar_rev k h b' hk hb' hlt
theorem C27_contiguous_lookup : ∀ (k : BitVec 64) h b', k.toNat ≤ 63 → b'.toNat < 2 ^ k.toNat →
    b' ≠ bucket_no k h →
    BitVec.ult (dummy_hash_lookup (bucket_no k h)) (dummy_hash_lookup b') = true →
    BitVec.ult (regular_hash_lookup h) (dummy_hash_lookup b') = true :=
  fun k h b' hk hb' _ hlt => contiguous lookup64 lookup_rev k h b' hk hb' hlt
theorem C27_contiguous_muldiv : ∀ (k : BitVec 64) h b', k.toNat ≤ 63 → b'.toNat < 2 ^ k.toNat →
    b' ≠ bucket_no k h →
    BitVec.ult (dummy_hash_muldiv (bucket_no k h)) (dummy_hash_muldiv b') = true →
    BitVec.ult (regular_hash_muldiv h) (dummy_hash_muldiv b') = true :=
  fun k h b' hk hb' _ hlt => contiguous muldiv_op64 muldiv_rev k h b' hk hb' hlt

/-! ## Distinct buckets have distinct dummy keys -/

theorem C27_dummy_injective_swar : ∀ (k : BitVec 64) b b', k.toNat ≤ 63 →
    b.toNat < 2 ^ k.toNat → b'.toNat < 2 ^ k.toNat →
    dummy_hash_swar b = dummy_hash_swar b' → b = b' :=
  fun k b b' hk hb hb' h => dummy_injective swar64 swar_rev k b b' hk hb hb' h
theorem C27_dummy_injective_lookup : ∀ (k : BitVec 64) b b', k.toNat ≤ 63 →
    b.toNat < 2 ^ k.toNat → b'.toNat < 2 ^ k.toNat →
    dummy_hash_lookup b = dummy_hash_lookup b' → b = b' :=
  fun k b b' hk hb hb' h => dummy_injective lookup64 lookup_rev k b b' hk hb hb' h
theorem C27_dummy_injective_muldiv : ∀ (k : BitVec 64) b b', k.toNat ≤ 63 →
    b.toNat < 2 ^ k.toNat → b'.toNat < 2 ^ k.toNat →
    dummy_hash_muldiv b = dummy_hash_muldiv b' → b = b' :=
  fun k b b' hk hb hb' h => dummy_injective muldiv_op64 muldiv_rev k b b' hk hb hb' h

/-! ## Growing the table only splits a bucket's key range; no key moves

`C27_split_refines` (independent of the reversal implementation): going from `2^k` to
`2^(k+1)` buckets, the bucket of `h` is either unchanged (`b`) or the new bucket `b + 2^k`,
whose parent is `b`.  `C27_split_between_X`: the dummy of the new bucket `b + 2^k` sorts
strictly between `b`'s dummy and the dummy of every old bucket that follows `b`. -/

theorem C27_split_refines : ∀ (k : BitVec 64) h, k.toNat ≤ 62 →
    (bucket_no (k + 1#64) h = bucket_no k h ∨
      (bucket_no (k + 1#64) h).toNat = (bucket_no k h).toNat + 2 ^ k.toNat) ∧
    parent_bucket (bucket_no k h + (1#64 <<< k.toNat)) = bucket_no k h := by
  intro k h hk
  refine ⟨bucketOf_succ k h hk, ?_⟩
  exact (parentOf_add_two_pow msb64nz msb_spec (bucket_no k h) k.toNat (by omega)
    (bucketOf_lt k h (by omega))).2.2

/-- the same with the side condition stated on an arbitrary bucket number `b < 2^k` -/
theorem C27_split_parent : ∀ (k : BitVec 64) (b : BitVec 64), k.toNat ≤ 63 → b.toNat < 2 ^ k.toNat →
    (b + (1#64 <<< k.toNat)).toNat = b.toNat + 2 ^ k.toNat ∧
    parent_bucket (b + (1#64 <<< k.toNat)) = b := by
  intro k b hk hb
  have := parentOf_add_two_pow msb64nz msb_spec b k.toNat hk hb
  exact ⟨this.1, this.2.2⟩

theorem C27_split_refines_swar : ∀ (k : BitVec 64) h, k.toNat ≤ 62 →
    (bucket_no (k + 1#64) h = bucket_no k h ∨
      (bucket_no (k + 1#64) h).toNat = (bucket_no k h).toNat + 2 ^ k.toNat) ∧
    parent_bucket (bucket_no k h + (1#64 <<< k.toNat)) = bucket_no k h ∧
    (∀ b' : BitVec 64, b'.toNat < 2 ^ k.toNat →
      BitVec.ult (dummy_hash_swar (bucket_no k h)) (dummy_hash_swar b') = true →
      BitVec.ult (dummy_hash_swar (bucket_no k h))
        (dummy_hash_swar (bucket_no k h + (1#64 <<< k.toNat))) = true ∧
      BitVec.ult (dummy_hash_swar (bucket_no k h + (1#64 <<< k.toNat)))
        (dummy_hash_swar b') = true) := by
  intro k h hk
  obtain ⟨h1, h2⟩ := C27_split_refines k h hk
  exact ⟨h1, h2, fun b' hb' hlt => split_between msb64nz msb_spec swar64 swar_rev k.toNat _ b' hk
    (bucketOf_lt k h (by omega)) hb' hlt⟩

theorem C27_split_refines_lookup : ∀ (k : BitVec 64) h, k.toNat ≤ 62 →
    (bucket_no (k + 1#64) h = bucket_no k h ∨
      (bucket_no (k + 1#64) h).toNat = (bucket_no k h).toNat + 2 ^ k.toNat) ∧
    parent_bucket (bucket_no k h + (1#64 <<< k.toNat)) = bucket_no k h ∧
    (∀ b' : BitVec 64, b'.toNat < 2 ^ k.toNat →
      BitVec.ult (dummy_hash_lookup (bucket_no k h)) (dummy_hash_lookup b') = true →
      BitVec.ult (dummy_hash_lookup (bucket_no k h))
        (dummy_hash_lookup (bucket_no k h + (1#64 <<< k.toNat))) = true ∧
      BitVec.ult (dummy_hash_lookup (bucket_no k h + (1#64 <<< k.toNat)))
        (dummy_hash_lookup b') = true) := by
  intro k h hk
  obtain ⟨h1, h2⟩ := C27_split_refines k h hk
  exact ⟨h1, h2, fun b' hb' hlt => split_between msb64nz msb_spec lookup64 lookup_rev k.toNat _ b' hk
    (bucketOf_lt k h (by omega)) hb' hlt⟩

theorem C27_split_refines_muldiv : ∀ (k : BitVec 64) h, k.toNat ≤ 62 →
    (bucket_no (k + 1#64) h = bucket_no k h ∨
      (bucket_no (k + 1#64) h).toNat = (bucket_no k h).toNat + 2 ^ k.toNat) ∧
    parent_bucket (bucket_no k h + (1#64 <<< k.toNat)) = bucket_no k h ∧
    (∀ b' : BitVec 64, b'.toNat < 2 ^ k.toNat →
      BitVec.ult (dummy_hash_muldiv (bucket_no k h)) (dummy_hash_muldiv b') = true →
      BitVec.ult (dummy_hash_muldiv (bucket_no k h))
        (dummy_hash_muldiv (bucket_no k h + (1#64 <<< k.toNat))) = true ∧
      BitVec.ult (dummy_hash_muldiv (bucket_no k h + (1#64 <<< k.toNat)))
        (dummy_hash_muldiv b') = true) := by
  intro k h hk
  obtain ⟨h1, h2⟩ := C27_split_refines k h hk
  exact ⟨h1, h2, fun b' hb' hlt => split_between msb64nz msb_spec muldiv_op64 muldiv_rev k.toNat _ b' hk
    (bucketOf_lt k h (by omega)) hb' hlt⟩

/-! ## Satisfiability of the hypotheses / concrete values (evaluated by the kernel) -/

-- table of 2^2 = 4 buckets, hash 6: bucket 2, parent 0; at 8 buckets: bucket 6 = 2 + 4, parent 2
example : bucket_no 2#64 6#64 = 2#64 := by decide
example : bucket_no_ub 2#64 6#64 = false := by decide
example : parent_bucket 2#64 = 0#64 := by decide
example : parent_bucket_ub 2#64 = false := by decide
example : bucket_no 3#64 6#64 = 6#64 := by decide
example : parent_bucket 6#64 = 2#64 := by decide
example : parent_bucket 7#64 = 3#64 ∧ parent_bucket 3#64 = 1#64 ∧ parent_bucket 1#64 = 0#64 := by decide
-- key values: dummy(0) < dummy(2) < regular(6) < dummy(1) < dummy(3)     (split order 0,2,1,3)
example : dummy_hash_swar 0#64 = 0x0000000000000000#64 := by decide
example : dummy_hash_swar 2#64 = 0x4000000000000000#64 := by decide
example : dummy_hash_swar 6#64 = 0x6000000000000000#64 := by decide
example : regular_hash_swar 6#64 = 0x6000000000000001#64 := by decide
example : dummy_hash_swar 1#64 = 0x8000000000000000#64 := by decide
example : dummy_hash_swar 3#64 = 0xC000000000000000#64 := by decide
example : dummy_hash_lookup 2#64 = 0x4000000000000000#64 := by decide
example : regular_hash_lookup 6#64 = 0x6000000000000001#64 := by decide
example : dummy_hash_muldiv 2#64 = 0x4000000000000000#64 := by decide
example : regular_hash_muldiv 6#64 = 0x6000000000000001#64 := by decide
-- hypotheses of C27_contiguous are satisfiable: k = 2, h = 6 (bucket 2), b' = 1
example : (2#64).toNat ≤ 63 ∧ (1#64).toNat < 2 ^ (2#64).toNat ∧ 1#64 ≠ bucket_no 2#64 6#64 ∧
    BitVec.ult (dummy_hash_swar (bucket_no 2#64 6#64)) (dummy_hash_swar 1#64) = true ∧
    BitVec.ult (regular_hash_swar 6#64) (dummy_hash_swar 1#64) = true := by decide
-- hypotheses of C27_parent_dummy_before are satisfiable
example : (6#64 ≠ 0) ∧ (6#64).toNat < 2 ^ 63 ∧
    BitVec.ult (dummy_hash_swar (parent_bucket 6#64)) (dummy_hash_swar 6#64) = true := by decide
-- … and the counterexample without `b < 2^63`: bucket 2^63, parent 0, both dummy keys are 0
example : parent_bucket 0x8000000000000000#64 = 0#64 ∧
    dummy_hash_swar 0x8000000000000000#64 = 0#64 ∧ dummy_hash_swar 0#64 = 0#64 ∧
    BitVec.ult (dummy_hash_swar (parent_bucket 0x8000000000000000#64))
      (dummy_hash_swar 0x8000000000000000#64) = false := by decide
-- without `k ≤ 63` dummy keys are not injective: buckets 0 and 2^63 collide
example : dummy_hash_swar 0#64 = dummy_hash_swar 0x8000000000000000#64 := by decide
-- split: the new bucket 6 = 2 + 2^2 sits strictly between bucket 2 and its successor 1
example : BitVec.ult (dummy_hash_swar 2#64) (dummy_hash_swar (2#64 + (1#64 <<< 2))) = true ∧
    BitVec.ult (dummy_hash_swar (2#64 + (1#64 <<< 2))) (dummy_hash_swar 1#64) = true := by decide

end CdsVerif.Props.C27

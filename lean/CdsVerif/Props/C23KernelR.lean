/-
  C23 — the theorems of Props/C23Kernel.lean, proved again for the REFINED kernel machine `Algo/FC/KernelR.lean`: the
  machine that carries the publication list in its real order and that `cdsdriver replay fckernel` runs against the
  atomic traces of the real `cds::algo::flat_combining::kernel` (harness/clients/fckernel.cpp).

  Why "proved again" and not "carried over by a simulation": `Algo/FC/Kernel.lean` walks the records in INDEX order, the
  real code (and `KernelR`) in LIST order, and the order in which requests are applied is visible (it decides the
  responses).  A run of `KernelR` is therefore in general not a run of `Kernel`; there is no step-by-step simulation
  between the two, and none is claimed.  Instead the invariant was re-established on `KernelR` itself
  (`KInvR`, Algo/FC/KernelRInv.lean … KernelRReach.lean: the 18 protocol clauses of `KInv` plus 9 clauses about the list) and
  every property theorem below is the statement of its `C23Kernel` namesake with `inList r` read as `r ∈ s.list`.
  The tied machine is thus itself the subject of the theorems; `Kernel.lean` remains as the smaller abstract model.

  All theorems: every configuration (N threads, compact-factor mask, pass count), every schedule, every client program,
  from the initial state of the tie (every thread has acquired and published its record: `KernelR.init`).

  NOT covered (unchanged): liveness; thread exit / `removed` / freeing of records (last clause of C23); batch_combine.
-/
import CdsVerif.Algo.FC.KernelRReach
namespace CdsVerif.Props.C23KernelR
open CdsVerif.Machine CdsVerif.Spec CdsVerif.Algo.FC.KernelR
open CdsVerif.Algo.FC.Kernel (Cfg RV RS Cont CS)

/-! ### One combiner at a time -/

theorem C23R_mutex (cfg : Cfg) (s : St) (h : (model cfg).Reachable (init cfg) s) :
    ∀ t1 t2, holds (s.pc t1) = true → holds (s.pc t2) = true → t1 = t2 := by
  have hinv := kinvr_reachable cfg s h
  intro t1 t2 h1 h2
  rw [hinv.hold t1 h1, hinv.hold t2 h2]

theorem C23R_lock_word (cfg : Cfg) (s : St) (h : (model cfg).Reachable (init cfg) s) :
    ∀ t, holds (s.pc t) = true → s.lock = true := by
  have hinv := kinvr_reachable cfg s h
  intro t ht
  cases hl : s.lock with
  | true => rfl
  | false => have := hinv.lockFree hl t; simp [ht] at this

/-- `fc_apply` runs (the ghost counter moves, the container `ctr` and the result slot change) and req_Response is stored
    only in steps of the thread that holds the lock; the only other change of `execs` is the owner's reset when it
    stores a new request.  (Property of the transition function.) -/
theorem C23R_apply_by_combiner_only (cfg : Cfg) (s s' : St) (t : Tid) (ev : Ev) (k : Nat)
    (hs : step cfg s t = some (s', ev)) :
    (s'.execs k ≠ s.execs k →
        (s.pc t = .reqSt ∧ k = t ∧ s'.execs k = 0) ∨
        (holds (s.pc t) = true ∧ ∃ c, s.pc t = .cpExec c k ∧ s'.execs k = s.execs k + 1)) ∧
    (s.req k ≠ .resp → s'.req k = .resp → holds (s.pc t) = true ∧ ∃ c, s.pc t = .cpDone c k) ∧
    (s'.ctr ≠ s.ctr → holds (s.pc t) = true ∧ ∃ c j, s.pc t = .cpExec c j ∧ s'.ctr = s.ctr + 1 ∧ s'.res j = s.ctr) := by
  cases hpc : s.pc t
  case cpState c p => cases p <;> simp only [step, hpc, Option.some.injEq, Prod.mk.injEq] at hs <;> obtain ⟨rfl, -⟩ := hs <;>
    refine ⟨?_, ?_, ?_⟩ <;> intros <;> grind [upd, holds]
  case c2State rest => cases rest <;> simp only [step, hpc, Option.some.injEq, Prod.mk.injEq] at hs <;> obtain ⟨rfl, -⟩ := hs <;>
    refine ⟨?_, ?_, ?_⟩ <;> intros <;> grind [upd, holds]
  case c2Nx rest => cases rest <;> simp only [step, hpc, Option.some.injEq, Prod.mk.injEq] at hs <;> obtain ⟨rfl, -⟩ := hs <;>
    refine ⟨?_, ?_, ?_⟩ <;> intros <;> grind [upd, holds]
  all_goals (simp only [step, hpc] at hs)
  all_goals (try split at hs)
  all_goals (simp only [Option.some.injEq, Prod.mk.injEq, reduceCtorEq] at hs)
  all_goals (try (obtain ⟨rfl, -⟩ := hs))
  all_goals (try exact hs.elim)
  all_goals (refine ⟨?_, ?_, ?_⟩ <;> intros <;> grind [upd, holds])

/-! ### Exactly once -/

theorem C23R_exactly_once (cfg : Cfg) (s : St) (h : (model cfg).Reachable (init cfg) s) :
    (∀ r, s.execs r ≤ 1) ∧
    (∀ t, s.pc t = .relSt → s.execs t = 1) ∧
    (∀ t, s.pc t = .done → s.execs t = 1) := by
  have hinv := kinvr_reachable cfg s h
  exact ⟨hinv.le1, fun t ht => hinv.respExec t (hinv.rel t ht), hinv.fin⟩

theorem C23R_pending_not_executed (cfg : Cfg) (s : St) (h : (model cfg).Reachable (init cfg) s) :
    ∀ r, s.req r = .op → (∀ t c, s.pc t ≠ .cpDone c r) → s.execs r = 0 := by
  have hinv := kinvr_reachable cfg s h
  intro r hr hno
  apply hinv.opExec r hr
  intro hd
  cases hp : s.pc s.holder <;> simp [hp, doneIdx] at hd
  rename_i c k
  subst hd
  exact hno _ _ hp

/-! ### The response is observed only after the execution -/

theorem C23R_response_after_exec (cfg : Cfg) (s : St) (h : (model cfg).Reachable (init cfg) s) :
    (∀ r, s.req r = .resp → s.execs r = 1) ∧
    (∀ s' t ev r, step cfg s t = some (s', ev) → s.req r ≠ .resp → s'.req r = .resp →
        holds (s.pc t) = true ∧ (∃ c, s.pc t = .cpDone c r) ∧ s.execs r = 1 ∧ s'.execs r = 1) ∧
    (∀ t, s.pc t = .relSt → s.req t = .resp ∧ s.execs t = 1) ∧
    (∀ s' t ev, step cfg s t = some (s', ev) → (s.pc t = .wtReq ∨ s.pc t = .wtReq2) →
        (s'.pc t = .relSt ∨ s'.pc t = .wtUnlock) → s.req t = .resp) := by
  have hinv := kinvr_reachable cfg s h
  refine ⟨hinv.respExec, ?_, fun t ht => ⟨hinv.rel t ht, hinv.respExec t (hinv.rel t ht)⟩, ?_⟩
  · intro s' t ev r hs h1 h2
    obtain ⟨hh, c, hc⟩ := (C23R_apply_by_combiner_only cfg s s' t ev r hs).2.1 h1 h2
    have he := (hinv.atDone t r (by simp [hc, doneIdx])).2
    refine ⟨hh, ⟨c, hc⟩, he, ?_⟩
    simp only [step, hc, Option.some.injEq, Prod.mk.injEq] at hs
    obtain ⟨rfl, -⟩ := hs
    exact he
  · intro s' t ev hs hpc hpc'
    rcases hpc with hpc | hpc <;> simp only [step, hpc, Option.some.injEq, Prod.mk.injEq] at hs <;>
      obtain ⟨rfl, -⟩ := hs <;> by_cases hr : s.req t = .resp <;> simp_all

/-! ### No request is lost -/

/-- The `assert( pRec->op() == req_Response )` after `combining( owner )` in `try_combining`. -/
theorem C23R_combiner_assert (cfg : Cfg) (s : St) (h : (model cfg).Reachable (init cfg) s) :
    ∀ t, postPass (s.pc t) = true → s.req t = .resp ∧ s.execs t = 1 := by
  have hinv := kinvr_reachable cfg s h
  exact fun t ht => ⟨hinv.post t ht, hinv.respExec t (hinv.post t ht)⟩

theorem C23R_no_request_lost (cfg : Cfg) (s : St) (h : (model cfg).Reachable (init cfg) s) :
    (∀ t, s.req t = .op → s.pc t ≠ .relSt ∧ s.pc t ≠ .done ∧ s.pc t ≠ .idle ∧ s.pc t ≠ .wtUnlock ∧
        postPass (s.pc t) = false) ∧
    (∀ t, s.pc t = .done → s.execs t = 1 ∧ s.req t = .empty) := by
  have hinv := kinvr_reachable cfg s h
  refine ⟨fun t ht => ⟨?_, ?_, ?_, ?_, ?_⟩, fun t ht => ⟨hinv.fin t ht, hinv.noReq t (by simp [ht, hasReq])⟩⟩
  · intro hp; have := hinv.rel t hp; simp [ht] at this
  · intro hp; have := hinv.noReq t (by simp [hp, hasReq]); simp [ht] at this
  · intro hp; have := hinv.noReq t (by simp [hp, hasReq]); simp [ht] at this
  · intro hp; have := hinv.wtUnl t hp; simp [ht] at this
  · cases hp : postPass (s.pc t) with
    | false => rfl
    | true => have := hinv.post t hp; simp [ht] at this

theorem C23R_owner_republishes (cfg : Cfg) (s s' : St) (t : Tid) (ev : Ev)
    (hs : step cfg s t = some (s', ev)) (hin : s.state t = .inactive) :
    (s.pc t = .wtState → s'.pc t = .pubCnt .wait) ∧
    (s.pc t = .lkRepub → s'.pc t = .pubCnt .lock) ∧
    (s.pc t = .acqLd → s'.pc t = .pubCnt .acq) := by
  refine ⟨?_, ?_, ?_⟩ <;> intro hpc <;> simp only [step, hpc, Option.some.injEq, Prod.mk.injEq] at hs <;>
    obtain ⟨rfl, -⟩ := hs <;> simp [hin]

/-- The combiner's own record during the walk IN LIST ORDER: while its request is pending it is in the first pass, its
    record is active, and the record is not behind the walk's position (`aheadIncl`: it is the record being treated or
    comes later in the list; `aheadStrict` when the walk is about to move on) — hence it will be visited. -/
theorem C23R_combiner_own_record (cfg : Cfg) (s : St) (h : (model cfg).Reachable (init cfg) s) :
    (∀ t, s.pc t = .cmbCnt → s.req t = .resp ∨ (t ∈ s.list ∧ s.state t = .active)) ∧
    (∀ t c p, cpIdx (s.pc t) = some (c, p) →
        s.req t = .resp ∨ (c.pass = 0 ∧ aheadIncl s.list p t ∧ s.state t = .active)) ∧
    (∀ t c p, cpNextIdx (s.pc t) = some (c, p) →
        s.req t = .resp ∨ (c.pass = 0 ∧ aheadStrict s.list p t ∧ s.state t = .active)) := by
  have hinv := kinvr_reachable cfg s h
  exact ⟨hinv.cmb, hinv.pass, hinv.passN⟩

/-- The publication list is well formed: no duplicates (no cycle), only active records, never the record of a thread
    that is inside `publish()`; an active record outside the list is in one of the two short windows (its owner is
    linking it / the combiner has unlinked it and is about to store `inactive`); the walk's position is in the list. -/
theorem C23R_list_wf (cfg : Cfg) (s : St) (h : (model cfg).Reachable (init cfg) s) :
    s.list.Nodup ∧
    (∀ r, r ∈ s.list → s.state r = .active ∧ inPub (s.pc r) = false) ∧
    (∀ r, s.state r = .active → r ∉ s.list →
        isLink (s.pc r) = true ∨ (∃ t, holds (s.pc t) = true ∧ inactIdx (s.pc t) = some r)) ∧
    (∀ t c k, cpIdx (s.pc t) = some (c, some k) ∨ cpNextIdx (s.pc t) = some (c, some k) → k ∈ s.list) := by
  have hinv := kinvr_reachable cfg s h
  refine ⟨hinv.nodup, fun r hr => ⟨?_, ?_⟩, fun r h1 h2 => ?_, fun t c k hk => ?_⟩
  · cases hs : s.state r with
    | active => rfl
    | inactive => exact absurd hr (hinv.inact r (by simp [hs]))
  · cases hp : inPub (s.pc r) with
    | false => rfl
    | true => exact absurd hr (hinv.notIn r hp)
  · rcases hinv.unlinked r h1 h2 with h3 | h3
    · exact Or.inl h3
    · refine Or.inr ⟨s.holder, ?_, h3⟩
      cases hh : holds (s.pc s.holder) with
      | true => rfl
      | false => have := inactIdx_of_not_holds _ hh; simp [this] at h3
  · rcases hk with hk | hk
    · exact hinv.curIn t c k hk
    · exact hinv.curInN t c k hk

/-! ### Runs evaluated by the kernel (`decide`) -/

def anyOp : GOp := ⟨"inc", []⟩

def view (s : St) :=
  (s.lock, s.count, s.ctr, s.list, (s.req 0, s.req 1), (s.state 0, s.state 1), (s.res 0, s.res 1), (s.execs 0, s.execs 1),
   (s.pc 0, s.pc 1))

def runView (cfg : Cfg) (sched : List (Tid × Act)) := ((model cfg).run (init cfg) sched).map (fun r => view r.1)

/-- The last observable of a run. -/
def lastObs (cfg : Cfg) (sched : List (Tid × Act)) : Option (Tid × Obs) :=
  ((model cfg).run (init cfg) sched).bind (fun r => r.2.getLast?)

/-- The schedule of a REAL run (harness case 0 of `fckernel --seed 1 --threads 2 --ops 2`: compact factor mask 0, one pass;
    thread 1 becomes the combiner, walks head -> r1 -> r0, serves both requests, compacts - nothing is old -, walks the
    allocated list, unlocks; thread 0, whose try_lock failed three times, takes the lock, finds req_Response, unlocks).
    The machine accepts it and ends with both requests executed once, results 0 and 1. -/
def realSchedule : List (Tid × Act) :=
  [(1, .invoke anyOp), (1, .step), (1, .step), (0, .invoke anyOp), (1, .step), (1, .step), (1, .step), (1, .step), (0, .step),
   (0, .step), (0, .step), (0, .step), (0, .step), (1, .step), (1, .step), (1, .step), (1, .step), (1, .step), (1, .step),
   (0, .step), (1, .step), (1, .step), (1, .step), (1, .step), (0, .step), (1, .step), (1, .step), (0, .step), (1, .step),
   (1, .step), (1, .step), (1, .step), (1, .step), (1, .step), (1, .step), (1, .step), (1, .step), (1, .step), (1, .step),
   (1, .step), (1, .step), (1, .step), (1, .step), (1, .ret), (0, .step), (0, .step), (0, .step), (0, .step), (0, .ret)]

set_option synthInstance.maxSize 4000 in
example : runView ⟨2, 0, 1⟩ realSchedule =
    some (false, 1, 2, [1, 0], (.empty, .empty), (.active, .active), (1, 0), (1, 1), (.idle, .idle)) := by
  decide +kernel

/-- The 21st line of that real trace is `T 1 A ld r1.next r0` (after the pre-pass): the machine computes the same event
    from its list. -/
example : lastObs ⟨2, 0, 1⟩ (realSchedule.take 21) = some (1, .ev ⟨"ld", "r1.next", "r0", ""⟩) := by decide +kernel

end CdsVerif.Props.C23KernelR

/-
  The writes of the skip-list machine, one lemma per kind: the global invariant is preserved and the change is one
  that the other threads tolerate (`MemLe`); `SInvL.assemble` puts a step together.
-/
import CdsVerif.Algo.SkipList.Eff
namespace CdsVerif.Algo.SkipList
open CdsVerif.Machine CdsVerif.Spec CdsVerif.Lin
open CdsVerif.Algo.Michael (Chain Lt LPok isRO insAfter Has)

theorem SInvL.assemble {c : Cfg} {s s' : St} {L L' : List Nat} {t : Tid} (h : SInvL c s L) (own : Option Nat)
    (hg' : GOk (mem! s') L') (hle : MemLe own (mem! s) L (mem! s') L')
    (hown : ∀ n, own = some n → pnode (s.pc t) = some n)
    (hpc : ∀ t2, t2 ≠ t → s'.pc t2 = s.pc t2)
    (htok : TOk c (mem! s') L' (s'.pc t))
    (hpn : ∀ n, pnode (s'.pc t) = some n → pnode (s.pc t) = some n) : SInvL c s' L' := by
  refine ⟨hg', ?_, ?_⟩
  · intro t2
    by_cases e : t2 = t
    · subst e; exact htok
    · rw [hpc t2 e]
      refine tok_mono h.g hle ?_ (h.thr t2)
      intro n hn hc
      exact e (h.own t2 t n hn (hown n hc.symm))
  · intro t1 t2 n h1 h2
    by_cases e1 : t1 = t <;> by_cases e2 : t2 = t
    · rw [e1, e2]
    · subst e1; rw [hpc t2 e2] at h2; exact h.own t1 t2 n (hpn n h1) h2
    · subst e2; rw [hpc t1 e1] at h1; exact h.own t1 t2 n h1 (hpn n h2)
    · rw [hpc t1 e1] at h1; rw [hpc t2 e2] at h2; exact h.own t1 t2 n h1 h2

section upd
variable {m : Mem} {L : List Nat}

theorem Lk.of_mem {a : Nat} (h : a ∈ L) : Lk m L a := Or.inl h

/-- The level-0 CAS of `insert_at_position`. -/
theorem GOk.link0 (h : GOk m L) {p n : Nat} (hp : p ∈ L) (hpm : m.mark p 0 = false) (hn : Priv m L n)
    (hnx : m.next n 0 = m.next p 0) (hpn : p = 0 ∨ m.key p < m.key n)
    (hnc : ∀ c, m.next p 0 = some c → m.key n < m.key c) :
    GOk ⟨upd2' m.next p 0 (some n), m.mark, m.key, m.val, m.ht, m.cnt⟩ (insAfter p n L) ∧
    MemLe (some n) m L ⟨upd2' m.next p 0 (some n), m.mark, m.key, m.val, m.ht, m.cnt⟩ (insAfter p n L) := by
  have hmem : ∀ a, a ∈ insAfter p n L ↔ (a ∈ L ∨ a = n) := fun a => Michael.mem_insAfter hp
  have hlk : ∀ a, Lk m L a → Lk ⟨upd2' m.next p 0 (some n), m.mark, m.key, m.val, m.ht, m.cnt⟩ (insAfter p n L) a := by
    intro a ha
    rcases ha with ha | ha
    · exact Or.inl ((hmem a).mpr (Or.inl ha))
    · exact Or.inr ha
  refine ⟨⟨?_, ?_, ?_, h.cpos, h.mcnt, ?_, h.mmono, h.hpos⟩, ⟨fun _ _ => ⟨rfl, rfl, rfl⟩, Nat.le_refl _, hlk, ?_, ?_⟩⟩
  · show Chain (nx0 (upd2' m.next p 0 (some n))) (some 0) (insAfter p n L)
    rw [nx0_upd_zero]
    exact Michael.Chain.insAfter (nx := nx0 m.next) hnx h.chain h.nodup hp hn.2.2.1
  · refine Michael.pairwise_insAfter (nx := nx0 m.next) Michael.Lt.trans ⟨hn.1, hpn⟩ ?_ h.chain h.sorted hp
    intro c hc
    exact ⟨(h.next_mem hp hc).1, Or.inr (hnc c hc)⟩
  · intro a ha
    rcases (hmem a).mp ha with h1 | h1
    · exact h.alloc a h1
    · rw [h1]; exact hn.2.1
  · intro a l b hb
    simp only [upd2'] at hb
    split at hb
    · simp only [Option.some.injEq] at hb; subst hb
      rename_i hc; rw [hc.2]
      exact ⟨hn.1, Or.inl ((hmem n).mpr (Or.inr rfl)), h.hpos n⟩
    · have := h.ptr a l b hb
      exact ⟨this.1, hlk b this.2.1, this.2.2⟩
  · intro a l hm _
    refine ⟨hm, ?_⟩
    simp only [upd2']
    split
    · rename_i hc; rw [hc.1, hc.2, hpm] at hm; simp at hm
    · rfl
  · intro n2 h1 h2 h3
    refine ⟨?_, h2, ?_⟩
    · intro hc
      rcases (hmem n2).mp hc with h4 | h4
      · exact h1 h4
      · exact h3 (by rw [h4])
    · simp only [upd2']
      split
      · rename_i hc; rw [hc.1] at h1; exact absurd hp h1
      · rfl

/-- A successful unlinking CAS on level 0 (`help_remove`, `try_remove_at`). -/
theorem GOk.unlink0 (h : GOk m L) {p cu : Nat} (hp : p ∈ L) (hpm : m.mark p 0 = false) (hpc : m.next p 0 = some cu)
    (hcm : m.mark cu 0 = true) :
    GOk ⟨upd2' m.next p 0 (m.next cu 0), m.mark, m.key, m.val, m.ht, m.cnt⟩ (L.erase cu) ∧
    MemLe none m L ⟨upd2' m.next p 0 (m.next cu 0), m.mark, m.key, m.val, m.ht, m.cnt⟩ (L.erase cu) := by
  have hlk : ∀ a, Lk m L a → Lk ⟨upd2' m.next p 0 (m.next cu 0), m.mark, m.key, m.val, m.ht, m.cnt⟩ (L.erase cu) a := by
    intro a ha
    rcases ha with ha | ha
    · by_cases e : a = cu
      · rw [e]; exact Or.inr hcm
      · exact Or.inl ((List.mem_erase_of_ne e).mpr ha)
    · exact Or.inr ha
  refine ⟨⟨?_, ?_, ?_, h.cpos, h.mcnt, ?_, h.mmono, h.hpos⟩, ⟨fun _ _ => ⟨rfl, rfl, rfl⟩, Nat.le_refl _, hlk, ?_, ?_⟩⟩
  · show Chain (nx0 (upd2' m.next p 0 (m.next cu 0))) (some 0) (L.erase cu)
    rw [nx0_upd_zero]
    exact Michael.Chain.unlink (nx := nx0 m.next) hpc h.chain h.nodup hp
  · exact h.sorted.sublist List.erase_sublist
  · intro a ha; exact h.alloc a (List.mem_of_mem_erase ha)
  · intro a l b hb
    simp only [upd2'] at hb
    split at hb
    · rename_i hc; rw [hc.2]
      have := h.ptr cu 0 b hb
      exact ⟨this.1, hlk b this.2.1, this.2.2⟩
    · have := h.ptr a l b hb
      exact ⟨this.1, hlk b this.2.1, this.2.2⟩
  · intro a l hm _
    refine ⟨hm, ?_⟩
    simp only [upd2']
    split
    · rename_i hc; rw [hc.1, hc.2, hpm] at hm; simp at hm
    · rfl
  · intro n2 h1 h2 _
    refine ⟨fun hc => h1 (List.mem_of_mem_erase hc), h2, ?_⟩
    simp only [upd2']
    split
    · rename_i hc; rw [hc.1] at h1; exact absurd hp h1
    · rfl

/-- A successful CAS on an upper-level word: any published item tall enough may be written. -/
theorem GOk.upper_next (h : GOk m L) {a l : Nat} {v : Option Nat} (hl : l ≠ 0) (hm : m.mark a l = false)
    (hv : ∀ b, v = some b → CurOk m L l b) :
    GOk ⟨upd2' m.next a l v, m.mark, m.key, m.val, m.ht, m.cnt⟩ L ∧
    MemLe none m L ⟨upd2' m.next a l v, m.mark, m.key, m.val, m.ht, m.cnt⟩ L := by
  refine ⟨⟨?_, h.sorted, h.alloc, h.cpos, h.mcnt, ?_, h.mmono, h.hpos⟩,
    ⟨fun _ _ => ⟨rfl, rfl, rfl⟩, Nat.le_refl _, fun _ x => x, ?_, ?_⟩⟩
  · show Chain (nx0 (upd2' m.next a l v)) (some 0) L
    rw [nx0_upd_pos _ _ _ _ hl]; exact h.chain
  · intro a2 l2 b hb
    simp only [upd2'] at hb
    split at hb
    · rename_i hc; rw [hc.2]; exact hv b hb
    · exact h.ptr a2 l2 b hb
  · intro a2 l2 hm2 _
    refine ⟨hm2, ?_⟩
    simp only [upd2']
    split
    · rename_i hc; rw [hc.1, hc.2, hm] at hm2; simp at hm2
    · rfl
  · intro n2 h1 h2 _
    refine ⟨h1, h2, ?_⟩
    simp only [upd2']
    split
    · rename_i hc; exact absurd hc.2.symm hl
    · rfl

/-- A marking CAS on an upper level. -/
theorem GOk.upper_mark (h : GOk m L) {d l : Nat} (hl : l ≠ 0) :
    GOk ⟨m.next, upd2' m.mark d l true, m.key, m.val, m.ht, m.cnt⟩ L ∧
    MemLe none m L ⟨m.next, upd2' m.mark d l true, m.key, m.val, m.ht, m.cnt⟩ L := by
  have h0 : ∀ a, upd2' m.mark d l true a 0 = m.mark a 0 := by
    intro a; simp only [upd2']; split
    · rename_i hc; exact absurd hc.2.symm hl
    · rfl
  have hge : ∀ a l2, m.mark a l2 = true → upd2' m.mark d l true a l2 = true := by
    intro a l2 hm; simp only [upd2']; split
    · rfl
    · exact hm
  have hlk : ∀ a, Lk m L a → Lk ⟨m.next, upd2' m.mark d l true, m.key, m.val, m.ht, m.cnt⟩ L a := by
    intro a ha
    rcases ha with ha | ha
    · exact Or.inl ha
    · exact Or.inr ((h0 a).trans ha)
  refine ⟨⟨h.chain, h.sorted, h.alloc, h.cpos, ?_, ?_, ?_, h.hpos⟩,
    ⟨fun _ _ => ⟨rfl, rfl, rfl⟩, Nat.le_refl _, hlk, fun a l2 hm _ => ⟨hge a l2 hm, rfl⟩, ?_⟩⟩
  · intro a ha; exact h.mcnt a ((h0 a).symm.trans ha)
  · intro a l2 b hb
    have := h.ptr a l2 b hb
    exact ⟨this.1, hlk b this.2.1, this.2.2⟩
  · intro a l2 ha hl2
    exact hge a l2 (h.mmono a l2 ((h0 a).symm.trans ha) hl2)
  · intro n2 h1 h2 _
    exact ⟨h1, (h0 n2).trans h2, rfl⟩

/-- The marking CAS on level 0: the linearization point of a successful erase. -/
theorem GOk.mark0 (h : GOk m L) {d : Nat} (hd : d ∈ L) (hd0 : d ≠ 0)
    (hup : ∀ l, 0 < l → l < m.ht d → m.mark d l = true) :
    GOk ⟨m.next, upd2' m.mark d 0 true, m.key, m.val, m.ht, m.cnt⟩ L ∧
    MemLe none m L ⟨m.next, upd2' m.mark d 0 true, m.key, m.val, m.ht, m.cnt⟩ L := by
  have hge : ∀ a l2, m.mark a l2 = true → upd2' m.mark d 0 true a l2 = true := by
    intro a l2 hm; simp only [upd2']; split
    · rfl
    · exact hm
  have hlk : ∀ a, Lk m L a → Lk ⟨m.next, upd2' m.mark d 0 true, m.key, m.val, m.ht, m.cnt⟩ L a := by
    intro a ha
    rcases ha with ha | ha
    · exact Or.inl ha
    · exact Or.inr (hge a 0 ha)
  have hcase : ∀ a, upd2' m.mark d 0 true a 0 = true → a = d ∨ m.mark a 0 = true := by
    intro a ha; simp only [upd2'] at ha; split at ha
    · rename_i hc; exact Or.inl hc.1
    · exact Or.inr ha
  refine ⟨⟨h.chain, h.sorted, h.alloc, h.cpos, ?_, ?_, ?_, h.hpos⟩,
    ⟨fun _ _ => ⟨rfl, rfl, rfl⟩, Nat.le_refl _, hlk, fun a l2 hm _ => ⟨hge a l2 hm, rfl⟩, ?_⟩⟩
  · intro a ha
    rcases hcase a ha with e | e
    · rw [e]; exact ⟨hd0, h.alloc d hd⟩
    · exact h.mcnt a e
  · intro a l2 b hb
    have := h.ptr a l2 b hb
    exact ⟨this.1, hlk b this.2.1, this.2.2⟩
  · intro a l2 ha hl2
    rcases hcase a ha with e | e
    · subst e
      by_cases e0 : l2 = 0
      · subst e0; exact ha
      · exact hge a l2 (hup l2 (Nat.pos_of_ne_zero e0) hl2)
    · exact hge a l2 (h.mmono a l2 e hl2)
  · intro n2 h1 h2 _
    refine ⟨h1, ?_, rfl⟩
    simp only [upd2']; split
    · rename_i hc; rw [hc.1] at h1; exact absurd hd h1
    · exact h2

/-- A plain store into the private item of an insert. -/
theorem GOk.priv_write (h : GOk m L) {n l : Nat} {v : Option Nat} (hn : Priv m L n) (hv : ∀ b, v = some b → CurOk m L l b) :
    GOk ⟨upd2' m.next n l v, upd2' m.mark n l false, m.key, m.val, m.ht, m.cnt⟩ L ∧
    MemLe (some n) m L ⟨upd2' m.next n l v, upd2' m.mark n l false, m.key, m.val, m.ht, m.cnt⟩ L := by
  have hm0 : ∀ a, upd2' m.mark n l false a 0 = m.mark a 0 := by
    intro a; simp only [upd2']; split
    · rename_i hc; rw [hc.1, hn.2.2.2]
    · rfl
  have hne : ∀ a, Lk m L a → a ≠ n := by
    intro a ha e; subst e
    rcases ha with ha | ha
    · exact hn.2.2.1 ha
    · rw [hn.2.2.2] at ha; simp at ha
  have hlk : ∀ a, Lk m L a → Lk ⟨upd2' m.next n l v, upd2' m.mark n l false, m.key, m.val, m.ht, m.cnt⟩ L a := by
    intro a ha
    rcases ha with ha | ha
    · exact Or.inl ha
    · exact Or.inr ((hm0 a).trans ha)
  refine ⟨⟨?_, h.sorted, h.alloc, h.cpos, ?_, ?_, ?_, h.hpos⟩,
    ⟨fun _ _ => ⟨rfl, rfl, rfl⟩, Nat.le_refl _, hlk, ?_, ?_⟩⟩
  · show Chain (nx0 (upd2' m.next n l v)) (some 0) L
    by_cases e : l = 0
    · subst e; rw [nx0_upd_zero]; exact Michael.Chain.upd hn.2.2.1 h.chain
    · rw [nx0_upd_pos _ _ _ _ e]; exact h.chain
  · intro a ha; exact h.mcnt a ((hm0 a).symm.trans ha)
  · intro a l2 b hb
    simp only [upd2'] at hb
    split at hb
    · rename_i hc; rw [hc.2]
      have := hv b hb
      exact ⟨this.1, hlk b this.2.1, this.2.2⟩
    · have := h.ptr a l2 b hb
      exact ⟨this.1, hlk b this.2.1, this.2.2⟩
  · intro a l2 ha hl2
    have ha' := (hm0 a).symm.trans ha
    have hne' : a ≠ n := hne a (Or.inr ha')
    simp only [upd2']
    split
    · rename_i hc; exact absurd hc.1 hne'
    · exact h.mmono a l2 ha' hl2
  · intro a l2 hm2 ha
    have hne' := hne a ha
    simp only [upd2']
    have : ¬ (a = n ∧ l2 = l) := fun hc => hne' hc.1
    simp only [this, if_false]
    exact ⟨hm2, trivial⟩
  · intro n2 h1 h2 h3
    have hne' : n2 ≠ n := fun e => h3 (by rw [e])
    have : ¬ (n2 = n ∧ 0 = l) := fun hc => hne' hc.1
    simp only [upd2', this, if_false]
    exact ⟨h1, h2, trivial⟩

end upd

/-! ### The abstract map under these writes -/

theorem has_upper_mark {mark : Nat → Nat → Bool} {key val : Nat → Int} {L : List Nat} {d l : Nat} (hl : l ≠ 0) (k v : Int) :
    Has (mk0 (upd2' mark d l true)) key val L k v ↔ Has (mk0 mark) key val L k v := by
  rw [mk0_upd_pos _ _ _ _ hl]

theorem mk0_priv_write {mark : Nat → Nat → Bool} {n l : Nat} (hn : mark n 0 = false) :
    mk0 (upd2' mark n l false) = mk0 mark := by
  funext a; simp only [mk0, upd2']; split
  · rename_i hc; rw [hc.1, hn]
  · rfl

theorem Priv.write {m : Mem} {L : List Nat} {n l : Nat} {v : Option Nat} (hn : Priv m L n) :
    Priv ⟨upd2' m.next n l v, upd2' m.mark n l false, m.key, m.val, m.ht, m.cnt⟩ L n := by
  refine ⟨hn.1, hn.2.1, hn.2.2.1, ?_⟩
  have := congrFun (mk0_priv_write (mark := m.mark) (n := n) (l := l) hn.2.2.2) n
  simp only [mk0] at this
  exact this.trans hn.2.2.2

theorem has_priv_write {mark : Nat → Nat → Bool} {key val : Nat → Int} {L : List Nat} {n l : Nat}
    (hn : mark n 0 = false) (k v : Int) :
    Has (mk0 (upd2' mark n l false)) key val L k v ↔ Has (mk0 mark) key val L k v := by
  have : mk0 (upd2' mark n l false) = mk0 mark := by
    funext a; simp only [mk0, upd2']; split
    · rename_i hc; rw [hc.1, hn]
    · rfl
  rw [this]

end CdsVerif.Algo.SkipList

/-
  C15 — the lock-free skip list (cds::intrusive::SkipListSet<HP>: insert, erase with functor, find with functor,
  contains), atomic-step model `Algo/SkipList/Model.lean` (towers of marked next pointers, `find_position` with
  helping, `insert_at_position` with `renew_insert_position`, `try_remove_at`, `find_fastpath` + slow path; tower
  heights from ANY generator, `c_nMaxHeight` a parameter, `Cfg.markTest`: the fast path with / without the test of the
  level-0 mark of the node it is about to report).

  WHAT IS PROVED HERE
    * The code BEFORE the repair b95a3c3 (`markTest := false`) is NOT linearizable:
      `C15_skiplist_not_linearizable_without_mark_test` exhibits a run of the machine — 3 threads, one key, all towers
      of height 1, every operation completed — whose history is proved not linearizable; the unrepaired code produced
      exactly this history (harness client `tree`, variant `iskipset_hp_named`, seed 5, case 1526, `--keys 2`: replayed
      by the machine with 0 divergences).  The two ingredients, each harmless alone:
        - `try_remove_at`: when the CAS that marks level 0 fails on an already MARKED word, the erase answers "not
          found" at once ("erase contention") — although the node is still linked and the winner has not returned;
        - `find_fastpath` compared the key of `pCur` and answered "found" without looking at `pCur`'s own mark — so it
          found a logically deleted node as long as it was physically linked.
      A thread that lost the erase race and then looked the key up saw `erase k → 0` followed by `find k → found`.
    * The REPAIRED code (`markTest := true`, the default; what `cdsdriver replay skiplist` checks traces against): the
      same schedule continues into the slow path, which helps to unlink the node and answers "not found"; the history
      is linearizable (`C15_repaired_run`).  Step level, for every state (`Algo/SkipList/Frozen.lean`):
      `fastpath_found_step` (the fast path answers "found" only by the load of an UNMARKED `pCur->next(0)`),
      `marked_frozen_step` (a marked tower word is never changed again, but for the inserter's own plain stores),
      `mark0_set_step` (level 0 is marked only by the marking CAS of the one erase that then answers `[1, val]`).
    * Runs: two racing inserts of different heights with `renew_insert_position`.

  WHAT IS NOT PROVED: `C15_skiplist_linearizable` for all schedules of the repaired machine.  With the mark test every
  answer has a linearization point of its own inside the operation (insert: the level-0 CAS; erase → found: the
  level-0 marking CAS; erase → 0 by contention: the failed marking CAS, the node is marked; find → found: the `qChk`
  load; every "not found" / "exists": the validated level-0 load, as in `C13_michael_linearizable`), so the proof is the
  one of `Algo/Michael/Lin.lean` on level 0 plus the inductive invariant that the upper levels only ever hold pointers
  to linked-or-marked nodes with larger keys.  That invariant (`SkipList.invB`: every level sorted, a sub-list of the
  level below at ALL times, level-0 mark ⇒ all upper marks, quiescent ⇒ no marked node) is CHECKED on every state of
  every replayed trace, not proved inductive.

  Tie to the real code: `cdsdriver replay skiplist` on traces of the variant `iskipset_hp_named` (`fastmark=0` in the
  header selects the machine without the mark test, for traces of a tree before b95a3c3).
-/
import CdsVerif.Algo.SkipList.Abs
namespace CdsVerif.Props.C15SkipList
open CdsVerif.Machine CdsVerif.Lin CdsVerif.Spec CdsVerif.Algo

def steps (t : Tid) (n : Nat) : List (Tid × Act) := List.replicate n (t, .step)
def ins (k v : Int) : GOp := ⟨"insert", [k, v]⟩
def era (k : Int) : GOp := ⟨"erase", [k]⟩
def fnd (k : Int) : GOp := ⟨"find", [k]⟩
def con (k : Int) : GOp := ⟨"contains", [k]⟩

/-- The configuration of the harness (`c_nMaxHeight = 3`, `c_nMinHeight = 5`), all towers of height 1, the fast path
    WITHOUT the mark test (the code before the repair b95a3c3). -/
def cfg1 : SkipList.Cfg := { maxH := 3, ht := fun _ => 1, markTest := false }

/-! ### The counterexample -/

/-- Thread 0 inserts key 1.  Threads 1 and 2 both erase key 1: thread 1 locates the node (`find_position`), then
    thread 2 locates it and marks its level 0 (`cas+ n1.0 null null|1`) and is delayed before unlinking it.  Thread 1's
    marking CAS fails on the marked word (`cas- n1.0 null|1 null`): erase contention, it answers 0.  Thread 1 then looks
    the key up: the fast path reads `h.0 = n1.0`, the keys are equal, it answers `[1, 10]`.  Thread 2 finally unlinks
    the node and answers `[1, 10]`. -/
def badSched : List (Tid × Act) :=
  [(0, .invoke (ins 1 10))] ++ steps 0 9 ++ [(0, .ret), (1, .invoke (era 1))] ++ steps 1 8 ++
  [(2, .invoke (era 1))] ++ steps 2 10 ++ steps 1 2 ++ [(1, .ret), (1, .invoke (fnd 1))] ++ steps 1 11 ++ [(1, .ret)] ++
  steps 2 3 ++ [(2, .ret)]

def badHist : List (OpRec GOp GRet) :=
  [⟨0, ins 1 10, [1], 0, 10⟩, ⟨1, era 1, [0], 11, 33⟩, ⟨1, fnd 1, [1, 10], 34, 46⟩, ⟨2, era 1, [1, 10], 20, 50⟩]

/-- The run exists, every thread is idle at its end, and its history is `badHist`. -/
theorem C15_skiplist_bad_run :
    ((SkipList.model cfg1).run (SkipList.init cfg1) badSched).map
      (fun r => (SkipList.historyOf r.2, r.1.pc 0, r.1.pc 1, r.1.pc 2)) = some (badHist, .idle, .idle, .idle) := by
  decide +kernel

/-- The interesting part of that run, as harness trace lines. -/
example : ((SkipList.model cfg1).run (SkipList.init cfg1) badSched).map (fun r => (r.2.drop 28).take 18) =
    some [(2, .ev ⟨"ld", "h.0", "n1.0", ""⟩),             -- thread 2: validation of pPrev[0]
          (2, .ev ⟨"ld", "n1.0", "null", ""⟩),            -- try_remove_at: p = pDel->next(0)
          (2, .ev ⟨"cas+", "n1.0", "null", "null|1"⟩),    -- T 2 A cas+ n1.0 null null|1     (logical deletion)
          (1, .ev ⟨"ld", "n1.0", "null|1", ""⟩),
          (1, .ev ⟨"cas-", "n1.0", "null|1", "null"⟩),    -- T 1 A cas- n1.0 null|1 null     (erase contention)
          (1, .ret [0]),                                   -- T 1 R [0]                       erase 1 -> not found
          (1, .call (fnd 1)),
          (1, .ev ⟨"ld", "hgt", "5", ""⟩),
          (1, .ev ⟨"ld", "h.4", "null", ""⟩),
          (1, .ev ⟨"ld", "h.4", "null", ""⟩),
          (1, .ev ⟨"ld", "h.3", "null", ""⟩),
          (1, .ev ⟨"ld", "h.3", "null", ""⟩),
          (1, .ev ⟨"ld", "h.2", "null", ""⟩),
          (1, .ev ⟨"ld", "h.2", "null", ""⟩),
          (1, .ev ⟨"ld", "h.1", "null", ""⟩),
          (1, .ev ⟨"ld", "h.1", "null", ""⟩),
          (1, .ev ⟨"ld", "h.0", "n1.0", ""⟩),             -- fast path: pCur = n1, key equal — its mark is not looked at
          (1, .ev ⟨"ld", "h.0", "n1.0", ""⟩)] := by decide +kernel

/-- `badHist` is not linearizable to the sequential set: thread 1's `erase 1 → 0` precedes its own `find 1 → [1, 10]`
    in real time, and the only insert of key 1 precedes both. -/
theorem C15_badHist_not_linearizable : ¬ Linearizable map badHist := by
  intro hlin
  have := (linCheck_iff map badHist (by decide)).mpr hlin
  revert this
  decide +kernel

/-- **Without the mark test in `find_fastpath` the skip list is not linearizable.**  There is a run of the machine, for the harness configuration, at whose end
    every thread that took part is idle (every invoked operation has returned) and whose history is not linearizable
    to `Spec.map`: the analogue of `C13_michael_linearizable_complete_runs` fails. -/
theorem C15_skiplist_not_linearizable_without_mark_test :
    ¬ ∀ (sched : List (Tid × Act)) (s : SkipList.St) (os : List (Tid × Obs)),
        (SkipList.model cfg1).run (SkipList.init cfg1) sched = some (s, os) →
        (∀ t, t ∈ sched.map (·.1) → s.pc t = .idle) →
        Linearizable map (SkipList.historyOf os) := by
  intro h
  cases hr : (SkipList.model cfg1).run (SkipList.init cfg1) badSched with
  | none =>
    have := C15_skiplist_bad_run
    rw [hr] at this; simp at this
  | some p =>
    obtain ⟨s, os⟩ := p
    have hb := C15_skiplist_bad_run
    rw [hr] at hb
    simp only [Option.map_some, Option.some.injEq, Prod.mk.injEq] at hb
    have hthr : ∀ t, t ∈ badSched.map (·.1) → t = 0 ∨ t = 1 ∨ t = 2 := by decide +kernel
    have hidle : ∀ t, t ∈ badSched.map (·.1) → s.pc t = .idle := by
      intro t ht
      rcases hthr t ht with e | e | e <;> subst e
      · exact hb.2.1
      · exact hb.2.2.1
      · exact hb.2.2.2
    have := h badSched s os hr hidle
    rw [hb.1] at this
    exact C15_badHist_not_linearizable this

/-! ### The same schedule on the repaired code -/

/-- The harness configuration with the repaired fast path (`markTest := true` is the default). -/
def cfgR : SkipList.Cfg := { maxH := 3, ht := fun _ => 1 }

/-- `badSched` up to thread 1's `find 1`, then the repaired code: the fast path reaches `n1`, loads `n1.0`, sees the
    mark and falls back to the slow path (20 more steps), which helps to unlink `n1` and answers "not found". -/
def goodSched : List (Tid × Act) :=
  [(0, .invoke (ins 1 10))] ++ steps 0 9 ++ [(0, .ret), (1, .invoke (era 1))] ++ steps 1 8 ++
  [(2, .invoke (era 1))] ++ steps 2 10 ++ steps 1 2 ++ [(1, .ret), (1, .invoke (fnd 1))] ++ steps 1 31 ++ [(1, .ret)] ++
  steps 2 8 ++ [(2, .ret)]

set_option synthInstance.maxSize 2000 in
/-- On the repaired machine thread 1 answers `find 1 → 0`, the history is linearizable, the list is empty and well
    formed at the end. -/
theorem C15_repaired_run :
    ((SkipList.model cfgR).run (SkipList.init cfgR) goodSched).map
      (fun r => (SkipList.historyOf r.2, linCheck map (SkipList.historyOf r.2), SkipList.wellFormed r.1 3,
        SkipList.levelNodes r.1 0)) =
    some ([⟨0, ins 1 10, [1], 0, 10⟩, ⟨1, era 1, [0], 11, 33⟩, ⟨1, fnd 1, [0], 34, 66⟩, ⟨2, era 1, [1, 10], 20, 75⟩],
      true, true, []) := by
  decide +kernel

/-- The fast path of that run: the new load of `n1.0`, then the slow path with helping. -/
example : ((SkipList.model cfgR).run (SkipList.init cfgR) goodSched).map (fun r => (r.2.drop 44).take 9) =
    some [(1, .ev ⟨"ld", "h.0", "n1.0", ""⟩),
          (1, .ev ⟨"ld", "h.0", "n1.0", ""⟩),             -- fast path: pCur = n1, key equal
          (1, .ev ⟨"ld", "n1.0", "null|1", ""⟩),          -- qChk: pCur->next(0) is marked -> find_fastpath_abort
          (1, .ev ⟨"ld", "h.2", "null", ""⟩),             -- slow path: find_position from the top
          (1, .ev ⟨"ld", "h.2", "null", ""⟩),
          (1, .ev ⟨"ld", "h.1", "null", ""⟩),
          (1, .ev ⟨"ld", "h.1", "null", ""⟩),
          (1, .ev ⟨"ld", "h.0", "n1.0", ""⟩),
          (1, .ev ⟨"ld", "h.0", "n1.0", ""⟩)] := by decide +kernel

/-! ### Further runs of the machine -/

/-- Heights: item 1 has a tower of height 2, item 2 of height 3. -/
def cfg2 : SkipList.Cfg := { maxH := 3, ht := fun j => if j = 1 then 2 else 3 }

/-- Two racing inserts of different heights.  Thread 0 inserts key 5 (height 2), thread 1 key 3 (height 3); both find
    the list empty.  Thread 0 links level 0 first; thread 1's level-0 CAS fails (`cas- h.0 n1.0 null`), it searches
    again and links `n2` in front of `n1` on all three levels.  Thread 0's CAS on `h.1` then fails
    (`cas- h.1 n2.0 null`): `renew_insert_position` rescans, finds `n2` as the new predecessor on level 1, and the level
    is linked behind it (`cas+ n2.1 null n1.0`).  At the end every level is sorted and a sub-list of the level below. -/
def raceSched : List (Tid × Act) :=
  [(0, .invoke (ins 5 10)), (1, .invoke (ins 3 20))] ++ steps 0 6 ++ steps 1 6 ++ steps 0 4 ++ steps 1 21 ++ [(1, .ret)] ++
  steps 0 16 ++ [(0, .ret)]

example : ((SkipList.model cfg2).run (SkipList.init cfg2) raceSched).map (fun r => (r.2.drop 14)) =
    some [(0, .ev ⟨"st", "n1.1", "null", ""⟩),
          (0, .ev ⟨"st", "n1.0", "null", ""⟩),
          (0, .ev ⟨"cas+", "h.0", "null", "n1.0"⟩),        -- linearization point of insert 5
          (0, .ev ⟨"cas+", "n1.1", "null", "null"⟩),       -- level 1 of n1 prepared ...
          (1, .ev ⟨"st", "n2.1", "null", ""⟩),
          (1, .ev ⟨"st", "n2.2", "null", ""⟩),
          (1, .ev ⟨"st", "n2.0", "null", ""⟩),
          (1, .ev ⟨"cas-", "h.0", "n1.0", "null"⟩),        -- T 1 A cas- h.0 n1.0 null   (lost the race on level 0): retry
          (1, .ev ⟨"ld", "h.2", "null", ""⟩),
          (1, .ev ⟨"ld", "h.2", "null", ""⟩),
          (1, .ev ⟨"ld", "h.1", "null", ""⟩),
          (1, .ev ⟨"ld", "h.1", "null", ""⟩),
          (1, .ev ⟨"ld", "h.0", "n1.0", ""⟩),
          (1, .ev ⟨"ld", "h.0", "n1.0", ""⟩),
          (1, .ev ⟨"ld", "n1.0", "null", ""⟩),
          (1, .ev ⟨"ld", "h.0", "n1.0", ""⟩),
          (1, .ev ⟨"st", "n2.1", "null", ""⟩),
          (1, .ev ⟨"st", "n2.2", "null", ""⟩),
          (1, .ev ⟨"st", "n2.0", "n1.0", ""⟩),
          (1, .ev ⟨"cas+", "h.0", "n1.0", "n2.0"⟩),        -- linearization point of insert 3
          (1, .ev ⟨"cas+", "n2.1", "null", "null"⟩),
          (1, .ev ⟨"cas+", "h.1", "null", "n2.0"⟩),        -- n2 linked on level 1 before n1
          (1, .ev ⟨"cas+", "n2.2", "null", "null"⟩),
          (1, .ev ⟨"cas+", "h.2", "null", "n2.0"⟩),
          (1, .ev ⟨"ld", "hgt", "5", ""⟩),
          (1, .ret [1]),
          (0, .ev ⟨"cas-", "h.1", "n2.0", "null"⟩),        -- T 0 A cas- h.1 n2.0 null   : renew_insert_position
          (0, .ev ⟨"ld", "h.2", "n2.0", ""⟩),
          (0, .ev ⟨"ld", "h.2", "n2.0", ""⟩),
          (0, .ev ⟨"ld", "n2.2", "null", ""⟩),
          (0, .ev ⟨"ld", "h.2", "n2.0", ""⟩),
          (0, .ev ⟨"ld", "n2.2", "null", ""⟩),
          (0, .ev ⟨"ld", "n2.2", "null", ""⟩),
          (0, .ev ⟨"ld", "n2.1", "null", ""⟩),
          (0, .ev ⟨"ld", "n2.1", "null", ""⟩),
          (0, .ev ⟨"ld", "n2.0", "n1.0", ""⟩),
          (0, .ev ⟨"ld", "n2.0", "n1.0", ""⟩),
          (0, .ev ⟨"ld", "n1.0", "null", ""⟩),
          (0, .ev ⟨"ld", "n2.0", "n1.0", ""⟩),
          (0, .ev ⟨"cas+", "n1.1", "null", "null"⟩),
          (0, .ev ⟨"cas+", "n2.1", "null", "n1.0"⟩),       -- level 1 linked behind the NEW predecessor
          (0, .ev ⟨"ld", "hgt", "5", ""⟩),
          (0, .ret [1])] := by decide +kernel

set_option synthInstance.maxSize 2000 in
example : ((SkipList.model cfg2).run (SkipList.init cfg2) raceSched).map
    (fun r => (SkipList.levelNodes r.1 0, SkipList.levelNodes r.1 1, SkipList.levelNodes r.1 2, SkipList.absMap r.1,
      SkipList.wellFormed r.1 3, linCheck map (SkipList.historyOf r.2))) =
    some ([2, 1], [2, 1], [2], [(3, 20), (5, 10)], true, true) := by decide +kernel

end CdsVerif.Props.C15SkipList

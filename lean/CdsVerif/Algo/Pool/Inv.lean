/-
  Inductive invariant of the pool machine and its consequences (C24).
-/
import CdsVerif.Algo.Pool.Model
namespace CdsVerif.Algo.Pool
open CdsVerif.Machine CdsVerif.Spec

/-- Every object is in at most one place: in the free queue, with one holder, or inside one `deallocate`. -/
structure PInv (s : St) : Prop where
  nodup : s.q.Nodup
  inq : ∀ o, o ∈ s.q → 1 ≤ o ∧ o < s.fresh ∧ s.freed o = false ∧ (∀ t, s.holds t o = false) ∧ (∀ t, s.pc t ≠ .freeEnq o)
  one : ∀ t1 t2 o, s.holds t1 o = true → s.holds t2 o = true → t1 = t2
  held : ∀ t o, s.holds t o = true → 1 ≤ o ∧ o < s.fresh ∧ s.freed o = false ∧ (∀ t', s.pc t' ≠ .freeEnq o)
  enq1 : ∀ t1 t2 o, s.pc t1 = .freeEnq o → s.pc t2 = .freeEnq o → t1 = t2
  enq : ∀ t o, s.pc t = .freeEnq o → 1 ≤ o ∧ o < s.fresh ∧ s.freed o = false
  capfresh : s.cap < s.fresh
  poolKept : s.kind ≠ .lazy → ∀ o, s.freed o = true → s.cap < o
  freedOld : ∀ o, s.freed o = true → o < s.fresh

theorem pinv_init (kind : Kind) (cap : Nat) : PInv (init kind cap) := by
  constructor
  · simp only [init]; split
    · exact List.nodup_nil
    · exact List.nodup_range'
  · intro o ho
    simp only [init] at ho ⊢
    split at ho
    · simp at ho
    · rw [List.mem_range'_1] at ho
      refine ⟨by omega, by omega, ?_, ?_, ?_⟩ <;> simp
  · intro t1 t2 o h; simp [init] at h
  · intro t o h; simp [init] at h
  · intro t1 t2 o h; simp [init] at h
  · intro t o h; simp [init] at h
  · simp [init]
  · intro _ o h; simp [init] at h
  · intro o h; simp [init] at h

theorem pinv_invoke (s s' : St) (t : Tid) (op : GOp) (h : PInv s) (hi : invoke s t op = some s') : PInv s' := by
  unfold invoke at hi
  split at hi
  · simp only [Option.some.injEq] at hi; subst hi
    obtain ⟨h1, h2, h3, h4, h5, h6, h7, h8, h9⟩ := h
    constructor <;> intros <;> grind [upd, upd2]
  · split at hi
    · simp only [Option.some.injEq] at hi; subst hi
      obtain ⟨h1, h2, h3, h4, h5, h6, h7, h8, h9⟩ := h
      constructor
      · exact h1
      · intro o ho
        have := h2 o ho
        have hh := h4 t o
        refine ⟨this.1, this.2.1, this.2.2.1, ?_, ?_⟩ <;> intros <;> grind [upd, upd2]
      · intros; grind [upd, upd2]
      · intro t' o ho
        have := h4 t' o
        have h3' := h3 t' t o
        refine ⟨?_, ?_, ?_, ?_⟩ <;> grind [upd, upd2]
      · intros; grind [upd, upd2]
      · intros; grind [upd, upd2]
      · exact h7
      · exact h8
      · exact h9
    · simp at hi
  · simp at hi

theorem pinv_result (s s' : St) (t : Tid) (r : GRet) (h : PInv s) (hr : result s t = some (s', r)) : PInv s' := by
  unfold result at hr
  split at hr
  · simp only [Option.some.injEq, Prod.mk.injEq] at hr; obtain ⟨rfl, rfl⟩ := hr
    obtain ⟨h1, h2, h3, h4, h5, h6, h7, h8, h9⟩ := h
    constructor <;> intros <;> grind [upd, upd2]
  · simp at hr

theorem mem_append_single {α : Type} (l : List α) (a x : α) : x ∈ l ++ [a] ↔ x ∈ l ∨ x = a := by simp

theorem pinv_step (s s' : St) (t : Tid) (e : Ev) (h : PInv s) (hs : step s t = some (s', e)) : PInv s' := by
  obtain ⟨h1, h2, h3, h4, h5, h6, h7, h8, h9⟩ := h
  unfold step at hs
  split at hs
  · -- allocDeq
    split at hs
    · rename_i o rest hq
      simp only [Option.some.injEq, Prod.mk.injEq] at hs; obtain ⟨rfl, _⟩ := hs
      have hno : o ∉ rest := by rw [hq] at h1; exact (List.nodup_cons.mp h1).1
      have hnd : rest.Nodup := by rw [hq] at h1; exact (List.nodup_cons.mp h1).2
      have ho := h2 o (by rw [hq]; exact List.mem_cons_self)
      have hrest : ∀ x, x ∈ rest → x ∈ s.q := by intro x hx; rw [hq]; exact List.mem_cons_of_mem _ hx
      constructor
      · exact hnd
      · intro x hx
        have := h2 x (hrest x hx)
        have hxo : x ≠ o := by intro hh; exact hno (hh ▸ hx)
        refine ⟨this.1, this.2.1, this.2.2.1, ?_, ?_⟩ <;> intros <;> grind [upd, upd2]
      · intros; grind [upd, upd2]
      · intro t' x hx
        have := h4 t' x
        refine ⟨?_, ?_, ?_, ?_⟩ <;> grind [upd, upd2]
      · intros; grind [upd, upd2]
      · intros; grind [upd, upd2]
      · exact h7
      · exact h8
      · exact h9
    · rename_i hq
      split at hs
      · simp only [Option.some.injEq, Prod.mk.injEq] at hs; obtain ⟨rfl, _⟩ := hs
        constructor <;> intros <;> grind [upd, upd2]
      · simp only [Option.some.injEq, Prod.mk.injEq] at hs; obtain ⟨rfl, _⟩ := hs
        constructor
        · exact h1
        · intro x hx
          have := h2 x hx
          refine ⟨this.1, by simp only; omega, this.2.2.1, ?_, ?_⟩ <;> intros <;> grind [upd, upd2]
        · intro t1 t2 x hx1 hx2
          have := h4 t1 x; have := h4 t2 x; have := h3 t1 t2 x
          grind [upd, upd2]
        · intro t' x hx
          have := h4 t' x
          have hf := h8
          refine ⟨?_, ?_, ?_, ?_⟩
          · grind [upd, upd2]
          · simp only; grind [upd, upd2]
          · by_cases hxf : x = s.fresh
            · subst hxf
              cases hfr : s.freed s.fresh with
              | false => rfl
              | true => exact absurd (h9 _ hfr) (Nat.lt_irrefl _)
            · grind [upd, upd2]
          · intro t''
            have := h6 t'' x
            grind [upd, upd2]
        · intros; grind [upd, upd2]
        · intro t' x hx
          have := h6 t' x
          refine ⟨?_, ?_, ?_⟩ <;> (first | grind [upd, upd2] | (simp only; grind [upd, upd2]))
        · simp only; omega
        · exact h8
        · intro o ho; have := h9 o ho; simp only; omega
  · -- freeEnq p
    rename_i p hpc
    have hp := h6 t p hpc
    split at hs
    · rename_i hk
      simp only [Option.some.injEq, Prod.mk.injEq] at hs; obtain ⟨rfl, _⟩ := hs
      constructor
      · exact h1
      · intro x hx
        have := h2 x hx
        have hxp : x ≠ p := by intro hh; subst hh; exact this.2.2.2.2 t hpc
        refine ⟨this.1, this.2.1, ?_, this.2.2.2.1, ?_⟩ <;> intros <;> grind [upd, upd2]
      · exact h3
      · intro t' x hx
        have := h4 t' x hx
        have hxp : x ≠ p := by intro hh; subst hh; exact this.2.2.2 t hpc
        refine ⟨this.1, this.2.1, ?_, ?_⟩ <;> intros <;> grind [upd, upd2]
      · intros; grind [upd, upd2]
      · intro t' x hx
        have hne : t' ≠ t := by intro hh; rw [hh] at hx; simp [upd] at hx
        have hx' : s.pc t' = .freeEnq x := by simpa [upd, hne] using hx
        have := h6 t' x hx'
        have hxp : x ≠ p := by intro hh; subst hh; exact hne (h5 t' t x hx' hpc)
        refine ⟨this.1, this.2.1, ?_⟩; grind [upd, upd2]
      · exact h7
      · intro hl x hx
        by_cases hxp : x = p
        · subst hxp
          simp only [fromPool, decide_eq_false_iff_not] at hk
          have h1' := hp.1
          have h2' := hk.2
          show s.cap < x
          omega
        · have : s.freed x = true := by simpa [upd, hxp] using hx
          exact h8 hl x this
      · intro x hx
        by_cases hxp : x = p
        · subst hxp; exact hp.2.1
        · have : s.freed x = true := by simpa [upd, hxp] using hx
          exact h9 x this
    · split at hs
      · simp only [Option.some.injEq, Prod.mk.injEq] at hs; obtain ⟨rfl, _⟩ := hs
        have hpq : p ∉ s.q := by intro hh; exact (h2 p hh).2.2.2.2 t hpc
        constructor
        · rw [List.nodup_append]
          refine ⟨h1, by simp, ?_⟩
          intro a ha b hb; simp at hb; subst hb; intro hab; subst hab; exact hpq ha
        · intro x hx
          rw [mem_append_single] at hx
          rcases hx with hx | rfl
          · have := h2 x hx
            have hxp : x ≠ p := by intro hh; subst hh; exact hpq hx
            refine ⟨this.1, this.2.1, this.2.2.1, this.2.2.2.1, ?_⟩; intros; grind [upd, upd2]
          · refine ⟨hp.1, hp.2.1, hp.2.2, ?_, ?_⟩
            · intro t'
              cases hh : s.holds t' x with
              | false => rfl
              | true => exact absurd hpc ((h4 t' x hh).2.2.2 t)
            · intro t' hx
              by_cases hne : t' = t
              · rw [hne] at hx; simp [upd] at hx
              · have hx' : s.pc t' = .freeEnq x := by simpa [upd, hne] using hx
                exact hne (h5 t' t x hx' hpc)
        · exact h3
        · intro t' x hx
          have := h4 t' x hx
          refine ⟨this.1, this.2.1, this.2.2.1, ?_⟩; intros; grind [upd, upd2]
        · intros; grind [upd, upd2]
        · intros; grind [upd, upd2]
        · exact h7
        · exact h8
        · exact h9
      · split at hs
        · rename_i hlazy
          simp only [Option.some.injEq, Prod.mk.injEq] at hs; obtain ⟨rfl, _⟩ := hs
          constructor
          · exact h1
          · intro x hx
            have := h2 x hx
            have hxp : x ≠ p := by intro hh; subst hh; exact this.2.2.2.2 t hpc
            refine ⟨this.1, this.2.1, ?_, this.2.2.2.1, ?_⟩ <;> intros <;> grind [upd, upd2]
          · exact h3
          · intro t' x hx
            have := h4 t' x hx
            have hxp : x ≠ p := by intro hh; subst hh; exact this.2.2.2 t hpc
            refine ⟨this.1, this.2.1, ?_, ?_⟩ <;> intros <;> grind [upd, upd2]
          · intros; grind [upd, upd2]
          · intro t' x hx
            have hne : t' ≠ t := by intro hh; rw [hh] at hx; simp [upd] at hx
            have hx' : s.pc t' = .freeEnq x := by simpa [upd, hne] using hx
            have := h6 t' x hx'
            have hxp : x ≠ p := by intro hh; subst hh; exact hne (h5 t' t x hx' hpc)
            refine ⟨this.1, this.2.1, ?_⟩; grind [upd, upd2]
          · exact h7
          · intro hl; exact absurd hlazy hl
          · intro x hx
            by_cases hxp : x = p
            · subst hxp; exact hp.2.1
            · have : s.freed x = true := by simpa [upd, hxp] using hx
              exact h9 x this
        · simp only [Option.some.injEq, Prod.mk.injEq] at hs; obtain ⟨rfl, _⟩ := hs
          exact ⟨h1, h2, h3, h4, h5, h6, h7, h8, h9⟩
  · simp at hs

end CdsVerif.Algo.Pool

/-
  The split-order hypotheses `SOHyp` hold for the key functions of the real code on 64-bit `size_t`
  (`cfg64`: `regular_hash( h ) = reverse64( h ) | 1`, `dummy_hash( b ) = reverse64( b ) & ~1`, `bucket = hash mod 2^k`,
  `parent_bucket( b ) = b` without its most significant bit), for every hash functor.  The facts are those of
  `Algo/SplitOrder/Lemmas.lean` (the lemmas behind `Props/C27.lean`), transported from `BitVec 64` to the natural
  numbers the split-list machine computes with.
-/
import CdsVerif.Algo.SplitList.Lemmas
import CdsVerif.Algo.SplitOrder.Lemmas
namespace CdsVerif.Algo.SplitList
open CdsVerif.Algo.SplitOrder

/-- "Index of the most significant set bit" for the abstract lemmas. -/
def msbOf (b : BitVec 64) : BitVec 32 := BitVec.ofNat 32 (Nat.log2 b.toNat)

theorem msbOf_spec : ∀ b : BitVec 64, b ≠ 0 → (msbOf b).toNat = Nat.log2 b.toNat := by
  intro b hb
  have := log2_lt_64 b hb
  simp only [msbOf, BitVec.toNat_ofNat]
  apply Nat.mod_eq_of_lt
  omega

theorem rev64_eq (n : Nat) : rev64 n = (BitVec.ofNat 64 n).reverse.toNat := rfl

theorem reg_eq (n : Nat) : rev64 n ||| 1 = (regularKey BitVec.reverse (BitVec.ofNat 64 n)).toNat := by
  simp [regularKey, rev64, BitVec.toNat_or]

theorem dum_eq (n : Nat) : rev64 n &&& (2 ^ 64 - 2) = (dummyKey BitVec.reverse (BitVec.ofNat 64 n)).toNat := by
  simp [dummyKey, rev64, BitVec.toNat_and]

theorem ofNat_toNat_lt {n : Nat} (h : n < 2 ^ 64) : (BitVec.ofNat 64 n).toNat = n := by
  simp [BitVec.toNat_ofNat, Nat.mod_eq_of_lt h]

theorem cfg64_hyp (mode : Nat) (cap lf : Nat) (hcap : cap ≤ 2 ^ 63) : SOHyp (cfg64 mode cap lf) := by
  have hrev : ∀ x : BitVec 64, BitVec.reverse x = x.reverse := fun _ => rfl
  constructor
  · -- regular keys are odd
    intro h
    show (rev64 h ||| 1) % 2 = 1
    rw [reg_eq, regularKey_toNat BitVec.reverse hrev]; omega
  · -- dummy keys are even
    intro b
    show (rev64 b &&& (2 ^ 64 - 2)) % 2 = 0
    rw [dum_eq, dummyKey_toNat BitVec.reverse hrev]; omega
  · -- dummy_hash( 0 ) = 0
    show rev64 0 &&& (2 ^ 64 - 2) = 0
    rw [dum_eq, dummyKey_toNat BitVec.reverse hrev]
    have : (BitVec.ofNat 64 0).reverse = 0#64 := by decide +kernel
    rw [this]; rfl
  · -- the dummy of `h mod 2^j` sorts before the regular key of `h`
    intro h b ⟨j, hj, hb⟩
    show rev64 b &&& (2 ^ 64 - 2) < rev64 h ||| 1
    have hj63 : j ≤ 63 := hj
    rw [dum_eq, reg_eq]
    have hk : (BitVec.ofNat 64 j).toNat = j := ofNat_toNat_lt (by omega)
    have hlt := dummy_before_regular BitVec.reverse hrev (BitVec.ofNat 64 j) (BitVec.ofNat 64 h) (by omega)
    rw [BitVec.ult_eq_decide, decide_eq_true_eq] at hlt
    have hbk : bucketOf (BitVec.ofNat 64 j) (BitVec.ofNat 64 h) = BitVec.ofNat 64 b := by
      apply BitVec.eq_of_toNat_eq
      rw [bucketOf_spec _ _ (by omega), hk, BitVec.toNat_ofNat, BitVec.toNat_ofNat, hb,
        Nat.mod_mod_of_dvd h (Nat.pow_dvd_pow 2 (by omega))]
      have : h % 2 ^ j < 2 ^ j := Nat.mod_lt _ (Nat.two_pow_pos j)
      have : 2 ^ j ≤ 2 ^ 63 := Nat.pow_le_pow_right (by omega) hj63
      exact (Nat.mod_eq_of_lt (by omega)).symm
    rw [hbk] at hlt
    exact hlt
  · -- the parent's dummy sorts before the bucket's dummy
    intro h b ⟨j, hj, hb⟩ hb0
    show rev64 (parent b) &&& (2 ^ 64 - 2) < rev64 b &&& (2 ^ 64 - 2)
    have hj63 : j ≤ 63 := hj
    have hblt : b < 2 ^ 63 := by
      have : h % 2 ^ j < 2 ^ j := Nat.mod_lt _ (Nat.two_pow_pos j)
      have : 2 ^ j ≤ 2 ^ 63 := Nat.pow_le_pow_right (by omega) hj63
      omega
    rw [dum_eq, dum_eq]
    have hbn : (BitVec.ofNat 64 b).toNat = b := ofNat_toNat_lt (by omega)
    have hne : BitVec.ofNat 64 b ≠ 0 := by
      intro e
      have := congrArg BitVec.toNat e
      rw [hbn] at this; simp at this; omega
    have hlt := parent_dummy_before msbOf msbOf_spec BitVec.reverse hrev (BitVec.ofNat 64 b) hne (by rw [hbn]; exact hblt)
    rw [BitVec.ult_eq_decide, decide_eq_true_eq] at hlt
    have hpar : parentOf msbOf (BitVec.ofNat 64 b) = BitVec.ofNat 64 (parent b) := by
      apply BitVec.eq_of_toNat_eq
      rw [(parentOf_spec msbOf msbOf_spec _ hne).1, hbn]
      unfold parent
      have : b - 2 ^ Nat.log2 b ≤ b := Nat.sub_le _ _
      exact (ofNat_toNat_lt (by omega)).symm
    rw [hpar] at hlt
    exact hlt
  · exact hcap
  · show 1 ≤ 63; omega

end CdsVerif.Algo.SplitList

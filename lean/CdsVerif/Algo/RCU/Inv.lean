/-
  Invariants of the general-purpose URCU model (Algo/RCU/Model.lean).

  * `Trans`            the transition relation, one constructor per kind of atomic step (inversion of `model.apply`)
  * `InvA`             reader bookkeeping: section start <-> nest count, loaded control words are current, clocks
  * `InvM`             mutual exclusion of the writer mutex
  * `InvP`             where every retired object is (conservation, at most one disposal)
  * `InvE`             the epoch only grows: an epoch returned by fetch_add is below the current epoch
  * `InvG`             the two-phase argument of flip_and_wait
  * `InvQ`             the epoch-tag lemma and quiescence of everything that is about to be disposed
-/
import CdsVerif.Algo.RCU.Model
namespace CdsVerif.Algo.RCU
open CdsVerif.Machine CdsVerif.Spec

/-- One atomic action of thread `t` (client call, atomic step, or return). -/
inductive Trans (s : St) (t : Tid) : St → Prop
  | iRlock (hd : s.dead = false) (ht : t < s.nthreads) (hpc : s.pc t = .idle) :
      Trans s t { s with pc := upd s.pc t .rlLoad, clock := s.clock + 1 }
  | iRunlock (hd : s.dead = false) (ht : t < s.nthreads) (hn : (s.ctl t).nest ≠ 0) (hpc : s.pc t = .idle) :
      Trans s t { s with pc := upd s.pc t .ruLoad, clock := s.clock + 1 }
  | iSync (hd : s.dead = false) (ht : t < s.nthreads) (hpc : s.pc t = .idle) :
      Trans s t { s with pc := upd s.pc t (.acq []), clock := s.clock + 1 }
  | iRetire (p : Obj) (hd : s.dead = false) (ht : t < s.nthreads) (hr : s.retiredAt p = none) (hpc : s.pc t = .idle) :
      Trans s t { s with pc := upd s.pc t (if s.buffered then .retEpoch p else .acq [p]),
                         retiredAt := upd s.retiredAt p (some s.clock),
                         place := upd s.place p (.thr t),
                         clock := s.clock + 1 }
  | iDestruct (hd : s.dead = false) (ht : t < s.nthreads) (hq : allQuiet s = true) (hpc : s.pc t = .idle) :
      Trans s t { s with pc := upd s.pc t .dPop, dead := true, clock := s.clock + 1 }
  | rlLoad (hpc : s.pc t = .rlLoad) :
      Trans s t { s with pc := upd s.pc t (if (s.ctl t).nest = 0 then .rlGctl else .rlNest (s.ctl t)), clock := s.clock + 1 }
  | rlGctl (hpc : s.pc t = .rlGctl) :
      Trans s t { s with pc := upd s.pc t (.rlStore s.gctl), clock := s.clock + 1 }
  | rlStore (g : Bool) (hpc : s.pc t = .rlStore g) :
      Trans s t { s with ctl := upd s.ctl t ⟨1, g⟩, secStart := upd s.secStart t (some s.clock),
                         pc := upd s.pc t .done, clock := s.clock + 1 }
  | rlNest (c : Ctl) (hpc : s.pc t = .rlNest c) :
      Trans s t { s with ctl := upd s.ctl t ⟨c.nest + 1, c.phase⟩, pc := upd s.pc t .done, clock := s.clock + 1 }
  | ruLoad (hpc : s.pc t = .ruLoad) :
      Trans s t { s with pc := upd s.pc t (.ruStore (s.ctl t)), clock := s.clock + 1 }
  | ruStore (c : Ctl) (hpc : s.pc t = .ruStore c) :
      Trans s t { s with ctl := upd s.ctl t ⟨c.nest - 1, c.phase⟩,
                         secStart := upd s.secStart t (if c.nest - 1 = 0 then none else s.secStart t),
                         pc := upd s.pc t .done, clock := s.clock + 1 }
  | retEpoch (p : Obj) (hpc : s.pc t = .retEpoch p) :
      Trans s t { s with pc := upd s.pc t (.push p s.epoch []), clock := s.clock + 1 }
  | pushOk (p : Obj) (tag : Nat) (own : List Obj) (hlen : s.buf.length < s.bufCap) (hpc : s.pc t = .push p tag own) :
      Trans s t { s with buf := s.buf ++ [(p, tag)], place := upd s.place p .buf,
                         pc := upd s.pc t (.sizeLd own), clock := s.clock + 1 }
  | pushFail (p : Obj) (tag : Nat) (own : List Obj) (hlen : ¬ s.buf.length < s.bufCap) (hpc : s.pc t = .push p tag own) :
      Trans s t { s with pc := upd s.pc t (.acq (p :: own)), clock := s.clock + 1 }
  | sizeLd (own : List Obj) (hpc : s.pc t = .sizeLd own) :
      Trans s t { s with pc := upd s.pc t (if s.buf.length ≥ s.cap then .acq own else finPC own), clock := s.clock + 1 }
  | acqOk (own : List Obj) (hl : s.locked = none) (hpc : s.pc t = .acq own) :
      Trans s t { s with locked := some t, acqClock := s.clock, mustWait := s.secStart,
                         pc := upd s.pc t (if s.buffered then .fadd own else .flip ⟨own, 0⟩ false),
                         clock := s.clock + 1 }
  | acqFail (own : List Obj) (x : Tid) (hl : s.locked = some x) (hpc : s.pc t = .acq own) :
      Trans s t { s with clock := s.clock + 1 }
  | fadd (own : List Obj) (hpc : s.pc t = .fadd own) :
      Trans s t { s with epoch := s.epoch + 1, pc := upd s.pc t (.flip ⟨own, s.epoch⟩ false), clock := s.clock + 1 }
  | flip (w : W) (r : Bool) (hpc : s.pc t = .flip w r) :
      Trans s t { s with gctl := !s.gctl, refClock := if r then s.refClock else s.clock,
                         pc := upd s.pc t (afterScan s.nthreads w r 0), clock := s.clock + 1 }
  | waitLd (w : W) (r : Bool) (i : Nat) (hpc : s.pc t = .waitLd w r i) :
      Trans s t { s with pc := upd s.pc t (.waitG w r i (s.ctl i)), clock := s.clock + 1 }
  | waitG (w : W) (r : Bool) (i : Nat) (c : Ctl) (hpc : s.pc t = .waitG w r i c) :
      Trans s t { s with pc := upd s.pc t (if c.nest ≠ 0 ∧ c.phase ≠ s.gctl then .waitLd w r i
                                           else afterScan s.nthreads w r (i + 1)),
                         clock := s.clock + 1 }
  | release (w : W) (hpc : s.pc t = .release w) :
      Trans s t { s with locked := none, pc := upd s.pc t (if s.buffered then .clrPop w else finPC w.own),
                         clock := s.clock + 1 }
  | clrPopEmpty (w : W) (hb : s.buf = []) (hpc : s.pc t = .clrPop w) :
      Trans s t { s with pc := upd s.pc t (finPC w.own), clock := s.clock + 1 }
  | clrPop (w : W) (q : Obj) (tag : Nat) (rest : List (Obj × Nat)) (hb : s.buf = (q, tag) :: rest) (hpc : s.pc t = .clrPop w) :
      Trans s t { s with buf := rest, place := upd s.place q (.thr t),
                         pc := upd s.pc t (if tag ≤ w.e then .clrDisp w q else .push q tag w.own),
                         clock := s.clock + 1 }
  | clrDisp (w : W) (q : Obj) (hpc : s.pc t = .clrDisp w q) :
      Trans s t { s with disposed := upd s.disposed q (s.disposed q + 1), place := upd s.place q .gone,
                         pc := upd s.pc t (.clrPop w), clock := s.clock + 1 }
  | disp (p : Obj) (rest : List Obj) (hpc : s.pc t = .disp p rest) :
      Trans s t { s with disposed := upd s.disposed p (s.disposed p + 1), place := upd s.place p .gone,
                         pc := upd s.pc t (finPC rest), clock := s.clock + 1 }
  | dPopEmpty (hb : s.buf = []) (hpc : s.pc t = .dPop) :
      Trans s t { s with destroyed := true, pc := upd s.pc t .done, clock := s.clock + 1 }
  | dPop (q : Obj) (tag : Nat) (rest : List (Obj × Nat)) (hb : s.buf = (q, tag) :: rest) (hpc : s.pc t = .dPop) :
      Trans s t { s with buf := rest, place := upd s.place q (.thr t), pc := upd s.pc t (.dDisp q),
                         clock := s.clock + 1 }
  | dDisp (q : Obj) (hpc : s.pc t = .dDisp q) :
      Trans s t { s with disposed := upd s.disposed q (s.disposed q + 1), place := upd s.place q .gone,
                         pc := upd s.pc t .dPop, clock := s.clock + 1 }
  | ret (hpc : s.pc t = .done) :
      Trans s t { s with pc := upd s.pc t .idle, clock := s.clock + 1 }

theorem trans_of_invoke {s : St} {t : Tid} {op : GOp} {s' : St} (h : invoke s t op = some s') : Trans s t s' := by
  unfold invoke at h
  split at h
  · rename_i hc
    obtain ⟨hd, ht, hpc⟩ := hc
    split at h
    · simp at h; subst h; exact .iRlock hd ht hpc
    · split at h
      · simp at h; subst h; exact .iRunlock hd ht (by assumption) hpc
      · simp at h
    · simp at h; subst h; exact .iSync hd ht hpc
    · split at h
      · simp at h; subst h; exact .iRetire _ hd ht (by assumption) hpc
      · simp at h
    · split at h
      · simp at h; subst h; exact .iDestruct hd ht (by assumption) hpc
      · simp at h
    · simp at h
  · simp at h

theorem trans_of_step {s : St} {t : Tid} {s' : St} {e : Ev} (h : step s t = some (s', e)) : Trans s t s' := by
  unfold step at h
  split at h
  case h_1 hpc => simp at h; obtain ⟨rfl, -⟩ := h; exact .rlLoad hpc
  case h_2 hpc => simp at h; obtain ⟨rfl, -⟩ := h; exact .rlGctl hpc
  case h_3 g hpc => simp at h; obtain ⟨rfl, -⟩ := h; exact .rlStore g hpc
  case h_4 c hpc => simp at h; obtain ⟨rfl, -⟩ := h; exact .rlNest c hpc
  case h_5 hpc => simp at h; obtain ⟨rfl, -⟩ := h; exact .ruLoad hpc
  case h_6 c hpc => simp at h; obtain ⟨rfl, -⟩ := h; exact .ruStore c hpc
  case h_7 p hpc => simp at h; obtain ⟨rfl, -⟩ := h; exact .retEpoch p hpc
  case h_8 p tag own hpc =>
    split at h
    · simp at h; obtain ⟨rfl, -⟩ := h; exact .pushOk p tag own (by assumption) hpc
    · simp at h; obtain ⟨rfl, -⟩ := h; exact .pushFail p tag own (by assumption) hpc
  case h_9 own hpc => simp at h; obtain ⟨rfl, -⟩ := h; exact .sizeLd own hpc
  case h_10 own hpc =>
    split at h
    · simp at h; obtain ⟨rfl, -⟩ := h; exact .acqOk own (by assumption) hpc
    · simp at h; obtain ⟨rfl, -⟩ := h; exact .acqFail own _ (by assumption) hpc
  case h_11 own hpc => simp at h; obtain ⟨rfl, -⟩ := h; exact .fadd own hpc
  case h_12 w r hpc => simp at h; obtain ⟨rfl, -⟩ := h; exact .flip w r hpc
  case h_13 w r i hpc => simp at h; obtain ⟨rfl, -⟩ := h; exact .waitLd w r i hpc
  case h_14 w r i c hpc => simp at h; obtain ⟨rfl, -⟩ := h; exact .waitG w r i c hpc
  case h_15 w hpc => simp at h; obtain ⟨rfl, -⟩ := h; exact .release w hpc
  case h_16 w hpc =>
    split at h
    · simp at h; obtain ⟨rfl, -⟩ := h; exact .clrPopEmpty w (by assumption) hpc
    · simp at h; obtain ⟨rfl, -⟩ := h; exact .clrPop w _ _ _ (by assumption) hpc
  case h_17 w q hpc => simp at h; obtain ⟨rfl, -⟩ := h; exact .clrDisp w q hpc
  case h_18 p rest hpc => simp at h; obtain ⟨rfl, -⟩ := h; exact .disp p rest hpc
  case h_19 hpc =>
    split at h
    · simp at h; obtain ⟨rfl, -⟩ := h; exact .dPopEmpty (by assumption) hpc
    · simp at h; obtain ⟨rfl, -⟩ := h; exact .dPop _ _ _ (by assumption) hpc
  case h_20 q hpc => simp at h; obtain ⟨rfl, -⟩ := h; exact .dDisp q hpc
  case h_21 => simp at h
  case h_22 => simp at h

theorem trans_of_result {s : St} {t : Tid} {s' : St} {r : GRet} (h : result s t = some (s', r)) : Trans s t s' := by
  unfold result at h
  split at h
  · simp at h; obtain ⟨rfl, -⟩ := h; exact .ret (by assumption)
  · simp at h

theorem trans_of_apply {s : St} {t : Tid} {a : Act} {s' : St} {o : Obs}
    (h : model.apply s t a = some (s', o)) : Trans s t s' := by
  cases a with
  | invoke op =>
    simp only [Model.apply, model, Option.map_eq_some_iff] at h
    obtain ⟨s1, hs1, heq⟩ := h
    simp only [Prod.mk.injEq] at heq
    obtain ⟨rfl, -⟩ := heq
    exact trans_of_invoke hs1
  | step =>
    simp only [Model.apply, model, Option.map_eq_some_iff] at h
    obtain ⟨r, hr, heq⟩ := h
    simp only [Prod.mk.injEq] at heq
    obtain ⟨rfl, -⟩ := heq
    exact trans_of_step hr
  | ret =>
    simp only [Model.apply, model, Option.map_eq_some_iff] at h
    obtain ⟨r, hr, heq⟩ := h
    simp only [Prod.mk.injEq] at heq
    obtain ⟨rfl, -⟩ := heq
    exact trans_of_result hr

/-! ### Small facts used by the automation -/

theorem finPC_cases (own : List Obj) :
    (own = [] ∧ finPC own = .done) ∨ ∃ p r, own = p :: r ∧ finPC own = .disp p r := by
  cases own <;> simp [finPC]

grind_pattern finPC_cases => finPC own

theorem allQuiet_spec {s : St} (h : allQuiet s = true) :
    ∀ u, u < s.nthreads → s.pc u = .idle ∧ (s.ctl u).nest = 0 := by
  intro u hu
  simp only [allQuiet, List.all_eq_true, List.mem_range, Bool.and_eq_true, decide_eq_true_eq] at h
  exact h u hu

/-! ### Reader bookkeeping -/

structure InvA (s : St) : Prop where
  a1 : ∀ t, s.secStart t = none ↔ (s.ctl t).nest = 0
  a2 : ∀ t c, s.secStart t = some c → c < s.clock
  a3 : ∀ t c, s.pc t = .rlNest c → s.ctl t = c ∧ c.nest ≠ 0
  a4 : ∀ t c, s.pc t = .ruStore c → s.ctl t = c ∧ c.nest ≠ 0
  a5 : ∀ t, s.pc t = .ruLoad → (s.ctl t).nest ≠ 0
  a6 : ∀ t, s.pc t = .rlGctl → (s.ctl t).nest = 0
  a7 : ∀ t g, s.pc t = .rlStore g → (s.ctl t).nest = 0
  a8 : ∀ t, s.nthreads ≤ t → s.pc t = .idle ∧ s.secStart t = none
  a9 : ∀ p r, s.retiredAt p = some r → r < s.clock
  a10 : s.dead = true → ∀ t, s.secStart t = none ∧ (s.pc t = .idle ∨ s.pc t = .done ∨ s.pc t = .dPop ∨ ∃ q, s.pc t = .dDisp q)
  a11 : ∀ t, (s.pc t = .dPop ∨ ∃ q, s.pc t = .dDisp q) → s.dead = true
  a12 : s.destroyed = true → s.buf = [] ∧ s.dead = true

theorem invA_init (b n c bc) : InvA (init b n c bc) := by
  constructor <;> simp [init]

set_option maxHeartbeats 400000 in
theorem invA_step {s : St} {t : Tid} {s' : St} (h : InvA s) (tr : Trans s t s') : InvA s' := by
  obtain ⟨a1, a2, a3, a4, a5, a6, a7, a8, a9, a10, a11, a12⟩ := h
  cases tr
  case iDestruct hd ht hq hpc =>
    have hq' := allQuiet_spec hq
    constructor <;> dsimp only <;> first | assumption | (intros; grind [upd, afterScan])
  all_goals (constructor <;> dsimp only <;> first | assumption | (intros; grind [upd, afterScan]))


/-! ### Mutual exclusion of the writer mutex; the epoch only grows -/


structure InvM (s : St) : Prop where
  m1 : ∀ t, holding (s.pc t) = true ↔ s.locked = some t

theorem invM_init (b n c bc) : InvM (init b n c bc) := by
  constructor <;> simp [init, holding]

theorem invM_step {s : St} {t : Tid} {s' : St} (h : InvM s) (tr : Trans s t s') : InvM s' := by
  obtain ⟨m1⟩ := h
  cases tr
  all_goals (constructor <;> dsimp only <;> first | assumption | (intros; grind [upd, afterScan, holding]))

structure InvE (s : St) : Prop where
  e1 : ∀ t w r, s.pc t = .flip w r → s.buffered = true → w.e < s.epoch
  e2 : ∀ t w r i, s.pc t = .waitLd w r i → s.buffered = true → w.e < s.epoch
  e3 : ∀ t w r i c, s.pc t = .waitG w r i c → s.buffered = true → w.e < s.epoch
  e4 : ∀ t w, s.pc t = .release w → s.buffered = true → w.e < s.epoch
  e5 : ∀ t w, s.pc t = .clrPop w → s.buffered = true → w.e < s.epoch
  e6 : ∀ t w q, s.pc t = .clrDisp w q → s.buffered = true → w.e < s.epoch

theorem invE_init (b n c bc) : InvE (init b n c bc) := by
  constructor <;> simp [init]

theorem invE_step {s : St} {t : Tid} {s' : St} (h : InvE s) (tr : Trans s t s') : InvE s' := by
  obtain ⟨e1, e2, e3, e4, e5, e6⟩ := h
  cases tr
  all_goals (constructor <;> dsimp only <;> first | assumption | (intros; grind [upd, afterScan]))


/-! ### Conservation: where every retired object is -/


structure InvP (s : St) : Prop where
  p1 : ∀ p, s.place p = .fresh ↔ s.retiredAt p = none
  p2 : ∀ p t, s.place p = .thr t ↔ p ∈ locals (s.pc t)
  p3 : ∀ p, s.place p = .buf ↔ p ∈ s.buf.map Prod.fst
  p4 : ∀ p, s.disposed p = if s.place p = .gone then 1 else 0
  p5 : ∀ t, (locals (s.pc t)).Nodup
  p6 : (s.buf.map Prod.fst).Nodup

theorem invP_init (b n c bc) : InvP (init b n c bc) := by
  constructor <;> simp [init, locals]

set_option maxHeartbeats 400000 in
theorem invP_step {s : St} {t : Tid} {s' : St} (h : InvP s) (tr : Trans s t s') : InvP s' := by
  obtain ⟨p1, p2, p3, p4, p5, p6⟩ := h
  have hme := fun p => p2 p t
  have hnd := p5 t
  cases tr
  all_goals (
    rename_i hpc
    rw [hpc] at hme hnd
    simp only [locals] at hme hnd
    constructor <;> dsimp only <;> first | assumption | (intros; grind [upd, afterScan, locals]))


/-! ### The two rounds of flip_and_wait -/


/-- Thread `u` is inside a critical section that began before the first flip of the current synchronize. -/
def OldSec (s : St) (u : Tid) : Prop := ∃ c, s.secStart u = some c ∧ c < s.refClock

/-- What the synchronizing thread knows at each program point of the two flip_and_wait rounds. -/
def GBody (s : St) : PC → Prop
  | .waitLd _ false i => s.acqClock < s.refClock ∧ ∀ u, u < i → OldSec s u → (s.ctl u).phase = s.gctl
  | .waitG _ false i c => s.acqClock < s.refClock ∧ (∀ u, u < i → OldSec s u → (s.ctl u).phase = s.gctl) ∧
      ((c.nest = 0 ∨ c.phase = s.gctl) → OldSec s i → (s.ctl i).phase = s.gctl)
  | .flip _ true => s.acqClock < s.refClock ∧ ∀ u, OldSec s u → (s.ctl u).phase = s.gctl
  | .waitLd _ true i => s.acqClock < s.refClock ∧ (∀ u, OldSec s u → (s.ctl u).phase ≠ s.gctl) ∧
      ∀ u, u < i → ¬ OldSec s u
  | .waitG _ true i c => s.acqClock < s.refClock ∧ (∀ u, OldSec s u → (s.ctl u).phase ≠ s.gctl) ∧
      (∀ u, u < i → ¬ OldSec s u) ∧ ((c.nest = 0 ∨ c.phase = s.gctl) → ¬ OldSec s i)
  | .release _ => s.acqClock < s.refClock ∧ ∀ u, ¬ OldSec s u
  | _ => True

theorem GBody_of_not_holding (s : St) (pc : PC) (h : holding pc = false) : GBody s pc := by
  cases pc <;> simp_all [holding, GBody]

theorem GBody_frame {s s' : St} (hg : s'.gctl = s.gctl) (hr : s'.refClock = s.refClock) (ha : s'.acqClock = s.acqClock)
    (ho : ∀ u, OldSec s' u → OldSec s u ∧ (s'.ctl u).phase = (s.ctl u).phase) (pc : PC) (h : GBody s pc) :
    GBody s' pc := by
  cases pc
  case waitLd w r i => cases r <;> simp only [GBody, hg, hr, ha] at h ⊢ <;> grind
  case waitG w r i c => cases r <;> simp only [GBody, hg, hr, ha] at h ⊢ <;> grind
  case flip w r => cases r <;> simp only [GBody, hg, hr, ha] at h ⊢ <;> grind
  case release w => simp only [GBody, hr, ha] at h ⊢; grind
  all_goals simp [GBody]

structure InvG (s : St) : Prop where
  clk : s.refClock ≤ s.clock ∧ s.acqClock ≤ s.clock ∧ (s.locked ≠ none → s.acqClock < s.clock)
  mw : ∀ u c, s.mustWait u = some c → c < s.acqClock
  body : ∀ t, GBody s (s.pc t)

theorem invG_init (b n c bc) : InvG (init b n c bc) := by
  constructor <;> simp [init, GBody]

theorem invG_body_nonholder {s s' : St} {t : Tid} (hb : ∀ t', GBody s (s.pc t'))
    (hg : s'.gctl = s.gctl) (hr : s'.refClock = s.refClock) (ha : s'.acqClock = s.acqClock)
    (ho : ∀ u, OldSec s' u → OldSec s u ∧ (s'.ctl u).phase = (s.ctl u).phase)
    (hpc : ∀ t', t' ≠ t → s'.pc t' = s.pc t') (hnew : holding (s'.pc t) = false) :
    ∀ t', GBody s' (s'.pc t') := by
  intro t'
  by_cases h : t' = t
  · subst h; exact GBody_of_not_holding _ _ hnew
  · rw [hpc t' h]; exact GBody_frame hg hr ha ho _ (hb t')

theorem invG_body_holder {s s' : St} {t : Tid} (hoth : ∀ t', t' ≠ t → holding (s.pc t') = false)
    (hpc : ∀ t', t' ≠ t → s'.pc t' = s.pc t') (hnew : GBody s' (s'.pc t)) :
    ∀ t', GBody s' (s'.pc t') := by
  intro t'
  by_cases h : t' = t
  · subst h; exact hnew
  · rw [hpc t' h]; exact GBody_of_not_holding _ _ (hoth t' h)

theorem oldSec_same {s s' : St} (h1 : s'.secStart = s.secStart) (h2 : s'.refClock = s.refClock) (h3 : s'.ctl = s.ctl) :
    ∀ u, OldSec s' u → OldSec s u ∧ (s'.ctl u).phase = (s.ctl u).phase := by
  intro u h; simp only [OldSec, h1, h2, h3] at h ⊢; exact ⟨h, trivial⟩

/-- nobody else holds the mutex when `t` does or when it is free -/
theorem others_not_holding {s : St} (hM : InvM s) {t : Tid} (h : s.locked = some t ∨ s.locked = none) :
    ∀ t', t' ≠ t → holding (s.pc t') = false := by
  intro t' hne
  have := hM.m1 t'
  cases hh : holding (s.pc t') with
  | false => rfl
  | true => grind


theorem invG_step {s : St} {t : Tid} {s' : St} (hA : InvA s) (hM : InvM s) (h : InvG s) (tr : Trans s t s') : InvG s' := by
  obtain ⟨⟨hrc, hac, hlk⟩, hmw, hb⟩ := h
  have hme := hM.m1 t
  have hbt := hb t
  have a1 := hA.a1
  have a8 := hA.a8
  refine ⟨?_, ?_, ?_⟩
  · cases tr <;> dsimp only <;> grind
  · have := hA.a2
    cases tr <;> dsimp only <;> first | assumption | grind
  · cases tr
    -- the holder's own transitions
    case acqOk own hl hpc =>
      refine invG_body_holder (t := t) (others_not_holding hM (Or.inr hl)) (fun t' h => by simp [upd, h]) ?_
      simp only [upd_same]; split <;> simp [GBody]
    case fadd own hpc =>
      rw [hpc] at hme; simp only [holding, true_iff] at hme
      refine invG_body_holder (t := t) (others_not_holding hM (Or.inl hme)) (fun t' h => by simp [upd, h]) ?_
      simp [GBody]
    case release w hpc =>
      rw [hpc] at hme; simp only [holding, true_iff] at hme
      refine invG_body_holder (t := t) (others_not_holding hM (Or.inl hme)) (fun t' h => by simp [upd, h]) ?_
      apply GBody_of_not_holding; simp only [upd_same]; grind [holding]
    case flip w r hpc =>
      rw [hpc] at hme hbt; simp only [holding, true_iff] at hme
      refine invG_body_holder (t := t) (others_not_holding hM (Or.inl hme)) (fun t' h => by simp [upd, h]) ?_
      simp only [upd_same, afterScan]
      cases r <;> simp only [GBody] at hbt <;> (repeat' split) <;> simp only [GBody, OldSec] at hbt ⊢ <;> grind
    case waitLd w r i hpc =>
      rw [hpc] at hme hbt; simp only [holding, true_iff] at hme
      refine invG_body_holder (t := t) (others_not_holding hM (Or.inl hme)) (fun t' h => by simp [upd, h]) ?_
      simp only [upd_same]
      cases r <;> simp only [GBody, OldSec] at hbt ⊢ <;> grind
    case waitG w r i c hpc =>
      rw [hpc] at hme hbt; simp only [holding, true_iff] at hme
      refine invG_body_holder (t := t) (others_not_holding hM (Or.inl hme)) (fun t' h => by simp [upd, h]) ?_
      simp only [upd_same, afterScan]
      cases r <;> simp only [GBody] at hbt <;> (repeat' split) <;> simp only [GBody, OldSec] at hbt ⊢ <;> grind
    -- the reader's stores
    case rlStore g hpc =>
      refine invG_body_nonholder (t := t) hb rfl rfl rfl ?_ (fun t' h => by simp [upd, h]) (by simp [holding])
      intro u; simp only [OldSec]; grind [upd]
    case rlNest c hpc =>
      have := hA.a3 t c hpc
      refine invG_body_nonholder (t := t) hb rfl rfl rfl ?_ (fun t' h => by simp [upd, h]) (by simp [holding])
      intro u; simp only [OldSec]; grind [upd]
    case ruStore c hpc =>
      have := hA.a4 t c hpc
      refine invG_body_nonholder (t := t) hb rfl rfl rfl ?_ (fun t' h => by simp [upd, h]) (by simp [holding])
      intro u; simp only [OldSec]; grind [upd]
    case acqFail own x hl hpc =>
      refine invG_body_nonholder (t := t) hb rfl rfl rfl (oldSec_same rfl rfl rfl) (fun t' h => rfl) ?_
      simp [hpc, holding]
    all_goals (
      refine invG_body_nonholder (t := t) hb rfl rfl rfl (oldSec_same rfl rfl rfl) (fun t' h => by simp [upd, h]) ?_
      simp only [upd_same]; grind [holding])


end CdsVerif.Algo.RCU

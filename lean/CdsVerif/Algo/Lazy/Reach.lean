/-
  The LazyList invariant holds in every reachable state; consequences (structure of the list, no duplicate keys,
  marked nodes are frozen, lock discipline, one marking per node, refinement of the abstract map).
-/
import CdsVerif.Algo.Lazy.StepSearch1
import CdsVerif.Algo.Lazy.StepSearch2
import CdsVerif.Algo.Lazy.StepLockP
import CdsVerif.Algo.Lazy.StepLockC
import CdsVerif.Algo.Lazy.StepVal12
import CdsVerif.Algo.Lazy.StepVal3
import CdsVerif.Algo.Lazy.StepIns
import CdsVerif.Algo.Lazy.StepEra1
import CdsVerif.Algo.Lazy.StepEra2
import CdsVerif.Algo.Lazy.StepUnl
import CdsVerif.Algo.Lazy.StepFind1
import CdsVerif.Algo.Lazy.StepFind2
namespace CdsVerif.Algo.Lazy
open CdsVerif.Machine CdsVerif.Spec CdsVerif.Lin
open CdsVerif.Algo.Michael (Chain insAfter mem_insAfter LPok walk walk_of_chain length_le_of_nodup_lt mfind_cons)

structure InvokeEff (s : St) (t : Tid) (op : GOp) (s' : St) (L : List Nat) : Prop where
  frame : ∀ t2, t2 ≠ t → s'.pc t2 = s.pc t2
  lps : ∀ t2, t2 ≠ t → lpRet s'.mark s'.key (s.pc t2) = lpRet s.mark s.key (s.pc t2)
  was : s.pc t = .idle
  now : opOf (s'.pc t) = some op ∧ lpRet s'.mark s'.key (s'.pc t) = none
  abs : ∀ k v, Has s'.mark s'.key s'.val L k v ↔ Has s.mark s.key s.val L k v
  mark : s'.mark = s.mark
  next : s'.next = s.next
  succ : s'.succ = s.succ
  lock : s'.lock = s.lock
  oldval : ∀ a, a < s.cnt → s'.val a = s.val a

theorem pcGt_cur {pc : PC} {c : Nat} (h : pcGt pc = some c) : pcCur pc = some c := by
  cases pc <;> simp_all [pcGt, pcCur]
theorem pcEq_cur {pc : PC} {c : Nat} (h : pcEq pc = some c) : pcCur pc = some c := by
  cases pc <;> simp_all [pcEq, pcCur]

set_option maxHeartbeats 16000000 in
theorem sinvl_invoke {s s' : St} {t : Tid} {op : GOp} {L : List Nat}
    (h : SInvL s L) (hs : invoke s t op = some s') : SInvL s' L ∧ InvokeEff s t op s' L := by
  have hz := h.zero_mem
  have hso' : ∀ k, L.Pairwise (LLt (upd s.key s.cnt k)) := by
    intro k
    refine List.Pairwise.imp_of_mem ?_ h.sorted
    intro a b ha hb hab
    have h1 : a ≠ s.cnt := Nat.ne_of_lt (h.alloc a ha)
    have h2 : b ≠ s.cnt := Nat.ne_of_lt (h.alloc b hb)
    unfold LLt at *
    rw [upd_other _ _ _ _ h1, upd_other _ _ _ _ h2]; exact hab
  have hhas : ∀ k v k' v', Has s.mark (upd s.key s.cnt k) (upd s.val s.cnt v) L k' v' ↔ Has s.mark s.key s.val L k' v' := by
    intro k v k' v'
    unfold Has
    constructor
    · rintro ⟨a, ha, h0, h1, h2, h3, h4⟩
      have h5 : a ≠ s.cnt := Nat.ne_of_lt (h.alloc a ha)
      rw [upd_other _ _ _ _ h5] at h3 h4
      exact ⟨a, ha, h0, h1, h2, h3, h4⟩
    · rintro ⟨a, ha, h0, h1, h2, h3, h4⟩
      have h5 : a ≠ s.cnt := Nat.ne_of_lt (h.alloc a ha)
      exact ⟨a, ha, h0, h1, h2, by rw [upd_other _ _ _ _ h5]; exact h3, by rw [upd_other _ _ _ _ h5]; exact h4⟩
  have hcurlt : ∀ t2 a, pcCur (s.pc t2) = some a → a < s.cnt := fun t2 a e => h.lt_cnt (h.lkCur t2 a e).2
  have hprevlt : ∀ t2 a, pcPrev (s.pc t2) = some a → a < s.cnt := fun t2 a e => h.lt_cnt (h.lkPrev t2 a e).2
  have hnlt : ∀ t2 n, insNode (s.pc t2) = some n → n < s.cnt := fun t2 n e => (h.priv t2 n e).1
  have hgc : ∀ (pc : PC) (c : Nat), pcGt pc = some c → pcCur pc = some c := fun _ _ e => pcGt_cur e
  have hec : ∀ (pc : PC) (c : Nat), pcEq pc = some c → pcCur pc = some c := fun _ _ e => pcEq_cur e
  have hlps : ∀ k t2, lpRet s.mark (upd s.key s.cnt k) (s.pc t2) = lpRet s.mark s.key (s.pc t2) := fun k t2 =>
    lpRet_congr (fun c e => ⟨rfl, upd_other _ _ _ _ (Nat.ne_of_lt (hcurlt t2 c e))⟩)
  have hunc := h.unalloc s.cnt (Nat.le_refl _)
  pc_facts
  sinv_open h
  obtain ⟨name, args⟩ := op
  unfold invoke at hs
  split at hs
  next k v hpc hname hargs =>
    simp at hs; subst hs
    dsimp only at hname hargs; subst hname hargs
    refine ⟨?_, ?_⟩
    · sinv_close
    · constructor <;> intros <;> (try dsimp only at *) <;> (try (first | exact hlps _ _ | exact hhas _ _ _ _)) <;>
        grind [upd, opOf, lpRet, gop]
  next k v allow hpc hname hargs =>
    simp at hs; subst hs
    dsimp only at hname hargs; subst hname hargs
    refine ⟨?_, ?_⟩
    · sinv_close
    · constructor <;> intros <;> (try dsimp only at *) <;> (try (first | exact hlps _ _ | exact hhas _ _ _ _)) <;>
        grind [upd, opOf, lpRet, gop]
  next k v allow hpc hname hargs =>
    simp at hs; subst hs
    dsimp only at hname hargs; subst hname hargs
    refine ⟨?_, ?_⟩
    · sinv_close
    · constructor <;> intros <;> (try dsimp only at *) <;> (try (first | exact hlps _ _ | exact hhas _ _ _ _)) <;>
        grind [upd, opOf, lpRet, gop]
  next k hpc hname hargs =>
    simp at hs; subst hs
    dsimp only at hname hargs; subst hname hargs
    refine ⟨?_, ?_⟩
    · sinv_close
    · constructor <;> intros <;> (try dsimp only at *) <;> grind [upd, opOf, lpRet, gop]
  next k hpc hname hargs =>
    simp at hs; subst hs
    dsimp only at hname hargs; subst hname hargs
    refine ⟨?_, ?_⟩
    · sinv_close
    · constructor <;> intros <;> (try dsimp only at *) <;> grind [upd, opOf, lpRet, gop]
  next k hpc hname hargs =>
    simp at hs; subst hs
    dsimp only at hname hargs; subst hname hargs
    refine ⟨?_, ?_⟩
    · sinv_close
    · constructor <;> intros <;> (try dsimp only at *) <;> grind [upd, opOf, lpRet, gop]
  next k hpc hname hargs =>
    simp at hs; subst hs
    dsimp only at hname hargs; subst hname hargs
    refine ⟨?_, ?_⟩
    · sinv_close
    · constructor <;> intros <;> (try dsimp only at *) <;> grind [upd, opOf, lpRet, gop]
  next => simp at hs

set_option maxHeartbeats 4000000 in
theorem sinvl_result {s s' : St} {t : Tid} {r : GRet} {L : List Nat}
    (h : SInvL s L) (hs : result s t = some (s', r)) :
    SInvL s' L ∧ s.pc t = .done r ∧ s'.pc t = .idle ∧ (∀ t2, t2 ≠ t → s'.pc t2 = s.pc t2) ∧
      s'.key = s.key ∧ s'.val = s.val ∧ s'.mark = s.mark ∧ s'.next = s.next ∧ s'.succ = s.succ ∧ s'.lock = s.lock := by
  pc_facts
  sinv_open h
  unfold result at hs
  split at hs
  next r' hpc =>
    simp at hs; obtain ⟨rfl, rfl⟩ := hs
    refine ⟨?_, hpc, by simp [upd], fun t2 h2 => by simp [upd, h2], rfl, rfl, rfl, rfl, rfl, rfl⟩
    sinv_close
  next => simp at hs

theorem sinvl_step {s s' : St} {t : Tid} {ev : Ev} {L : List Nat}
    (h : SInvL s L) (hs : step s t = some (s', ev)) : ∃ L', SInvL s' L' ∧ StepEff s t s' L L' := by
  cases hpc : s.pc t with
  | idle => simp [step, hpc] at hs
  | done r => simp [step, hpc] at hs
  | sLd1 o p => exact sinvl_step_sLd1 h hpc hs
  | sLd2 o p x mk => exact sinvl_step_sLd2 h hpc hs
  | lkP o p c => exact sinvl_step_lkP h hpc hs
  | spP o p c => exact sinvl_step_spP h hpc hs
  | lkC o p c => exact sinvl_step_lkC h hpc hs
  | spC o p c => exact sinvl_step_spC h hpc hs
  | v1 o p c => exact sinvl_step_v1 h hpc hs
  | v2 o p c => exact sinvl_step_v2 h hpc hs
  | v3 o p c => exact sinvl_step_v3 h hpc hs
  | iSt o n p c => exact sinvl_step_iSt h hpc hs
  | iLk o n p c => exact sinvl_step_iLk h hpc hs
  | eLd o p c => exact sinvl_step_eLd h hpc hs
  | eMk o p c nx => exact sinvl_step_eMk h hpc hs
  | eUn o p c nx r => exact sinvl_step_eUn h hpc hs
  | unlC o p c r => exact sinvl_step_unlC h hpc hs
  | unlP o p r => exact sinvl_step_unlP h hpc hs
  | fLk k c => exact sinvl_step_fLk h hpc hs
  | fSp k c => exact sinvl_step_fSp h hpc hs
  | fChk k c => exact sinvl_step_fChk h hpc hs
  | fUnl k c r => exact sinvl_step_fUnl h hpc hs
  | cChk k c => exact sinvl_step_cChk h hpc hs

/-! ### Every action: what happens to marked nodes, linked nodes, locks and payloads -/

structure ApplyEff (s : St) (t : Tid) (s' : St) (L L' : List Nat) : Prop where
  frz : ∀ a, s.mark a = true → s'.mark a = true ∧ s'.next a = s.next a
  mono : ∀ a, (a ∈ L ∨ s.mark a = true) → (a ∈ L' ∨ s'.mark a = true)
  disc : ∀ a, (s'.next a ≠ s.next a ∨ s'.mark a ≠ s.mark a ∨ s'.succ a ≠ s.succ a) →
    heldP (s.pc t) = some a ∨ heldC (s.pc t) = some a ∨ insNode (s.pc t) = some a
  vdisc : ∀ a, a < s.cnt → s'.val a ≠ s.val a → heldC (s.pc t) = some a ∧ s.mark a = false ∧ a ∈ L
  ldisc : ∀ a, s'.lock a ≠ s.lock a →
    (s.lock a = false ∧ (heldP (s'.pc t) = some a ∨ heldC (s'.pc t) = some a)) ∨
    (s.lock a = true ∧ (heldP (s.pc t) = some a ∨ heldC (s.pc t) = some a))
  unl : ∀ a, a ∈ L → a ∉ L' → s.mark a = true

theorem sinvl_apply {s s' : St} {t : Tid} {a : Act} {o : Obs} {L : List Nat} (hl : SInvL s L)
    (hap : model.apply s t a = some (s', o)) : ∃ L', SInvL s' L' ∧ ApplyEff s t s' L L' := by
  cases a with
  | invoke op =>
    simp only [Model.apply, model, Option.map_eq_some_iff] at hap
    obtain ⟨s1, hs1, heq⟩ := hap
    simp only [Prod.mk.injEq] at heq
    obtain ⟨rfl, -⟩ := heq
    obtain ⟨h1, h2⟩ := sinvl_invoke hl hs1
    refine ⟨L, h1, ⟨?_, ?_, ?_, ?_, ?_, ?_⟩⟩
    · intro a ha; rw [h2.mark, h2.next]; exact ⟨ha, rfl⟩
    · intro a ha; rw [h2.mark]; exact ha
    · intro a ha; rw [h2.mark, h2.next, h2.succ] at ha; simp at ha
    · intro a ha hv; exact absurd (h2.oldval a ha) hv
    · intro a ha; rw [h2.lock] at ha; simp at ha
    · intro a ha hn; exact absurd ha hn
  | step =>
    simp only [Model.apply, model, Option.map_eq_some_iff] at hap
    obtain ⟨⟨s1, e⟩, hs1, heq⟩ := hap
    simp only [Prod.mk.injEq] at heq
    obtain ⟨rfl, -⟩ := heq
    obtain ⟨L', hl', he⟩ := sinvl_step hl hs1
    exact ⟨L', hl', ⟨he.frz, he.mono, he.disc, fun a _ hv => he.vdisc a hv, he.ldisc, fun a h1 h2 => (he.unl a h1 h2).1⟩⟩
  | ret =>
    simp only [Model.apply, model, Option.map_eq_some_iff] at hap
    obtain ⟨⟨s1, r⟩, hs1, heq⟩ := hap
    simp only [Prod.mk.injEq] at heq
    obtain ⟨rfl, -⟩ := heq
    obtain ⟨h1, -, -, -, -, h5, h6, h7, h8, h9⟩ := sinvl_result hl hs1
    refine ⟨L, h1, ⟨?_, ?_, ?_, ?_, ?_, ?_⟩⟩
    · intro a ha; rw [h6, h7]; exact ⟨ha, rfl⟩
    · intro a ha; rw [h6]; exact ha
    · intro a ha; rw [h6, h7, h8] at ha; simp at ha
    · intro a _ hv; rw [h5] at hv; simp at hv
    · intro a ha; rw [h9] at ha; simp at ha
    · intro a ha hn; exact absurd ha hn

theorem sinv_apply {s s' : St} {t : Tid} {a : Act} {o : Obs} (h : SInv s)
    (hap : model.apply s t a = some (s', o)) : SInv s' := by
  obtain ⟨L, hl⟩ := h
  obtain ⟨L', hl', -⟩ := sinvl_apply hl hap
  exact ⟨L', hl'⟩

theorem sinv_reachable (s : St) (h : model.Reachable init s) : SInv s :=
  model.inv_reachable SInv init ⟨[0, 1], sinv_init⟩ (fun _ _ _ _ _ hi hap => sinv_apply hi hap) s h

/-! ### The abstract state, computed -/

/-- The logical chain from the head, sentinels included (fuel: the number of nodes ever allocated). -/
def chainOf (s : St) : List Nat := walk s.succ s.cnt (some 0)

/-- All linked items (marked or not), in list order. -/
def absNodes (s : St) : List Nat := (chainOf s).filter (fun a => decide (a ≠ 0 ∧ a ≠ 1))

/-- The abstract map: the `(key, payload)` pairs of the unmarked linked items, in list (= key) order. -/
def absMap (s : St) : List (Int × Int) :=
  ((absNodes s).filter (fun a => !s.mark a)).map (fun a => (s.key a, s.val a))

theorem SInvL.chainOf_eq {s : St} {L : List Nat} (h : SInvL s L) : chainOf s = L :=
  walk_of_chain h.chain (length_le_of_nodup_lt h.nodup (fun a ha => h.alloc a ha))

theorem SInvL.mem_absNodes {s : St} {L : List Nat} (h : SInvL s L) (a : Nat) :
    a ∈ absNodes s ↔ (a ∈ L ∧ a ≠ 0 ∧ a ≠ 1) := by
  simp [absNodes, h.chainOf_eq]

theorem SInvL.absNodes_sorted {s : St} {L : List Nat} (h : SInvL s L) :
    (absNodes s).Pairwise (fun a b => s.key a < s.key b) := by
  have hs : (absNodes s).Pairwise (LLt s.key) := by
    unfold absNodes; rw [h.chainOf_eq]; exact h.sorted.filter _
  refine List.Pairwise.imp_of_mem ?_ hs
  intro a b ha hb hab
  have h1 := (h.mem_absNodes a).mp ha
  have h2 := (h.mem_absNodes b).mp hb
  rcases hab.2.2 with e | e | e
  · exact absurd e h1.2.1
  · exact absurd e h2.2.2
  · exact e

theorem SInvL.has_iff {s : St} {L : List Nat} (h : SInvL s L) (k v : Int) :
    Has s.mark s.key s.val L k v ↔ (k, v) ∈ absMap s := by
  simp only [Has, absMap, List.mem_map, List.mem_filter, Prod.mk.injEq, Bool.not_eq_true', h.mem_absNodes]
  constructor
  · rintro ⟨a, ha, h0, h1, h2, h3, h4⟩
    exact ⟨a, ⟨⟨ha, h0, h1⟩, h2⟩, h3, h4⟩
  · rintro ⟨a, ⟨⟨ha, h0, h1⟩, h2⟩, h3, h4⟩
    exact ⟨a, ha, h0, h1, h2, h3, h4⟩

/-- The keys of the abstract map are strictly increasing: no key is present twice. -/
theorem SInvL.absMap_sorted {s : St} {L : List Nat} (h : SInvL s L) :
    (absMap s).Pairwise (fun p q => p.1 < q.1) := by
  unfold absMap
  rw [List.pairwise_map]
  exact h.absNodes_sorted.filter _

theorem mfind_iff_mem : ∀ {m : MapSt}, m.Pairwise (fun p q => p.1 ≠ q.1) → ∀ k v, mfind m k = some v ↔ (k, v) ∈ m
  | [], _, k, v => by simp [mfind]
  | (k1, v1) :: m, hpw, k, v => by
    have hpw' := List.pairwise_cons.mp hpw
    rw [mfind_cons, List.mem_cons]
    by_cases e : k = k1
    · subst e
      simp only [if_true, Option.some.injEq, Prod.mk.injEq, true_and]
      constructor
      · intro h; exact Or.inl h.symm
      · rintro (h | h)
        · exact h.symm
        · exact absurd rfl (hpw'.1 (k, v) h)
    · simp only [e, if_false, Prod.mk.injEq, false_and, false_or]
      exact mfind_iff_mem hpw'.2 k v

theorem SInvL.mfind_absMap {s : St} {L : List Nat} (h : SInvL s L) (k v : Int) :
    mfind (absMap s) k = some v ↔ Has s.mark s.key s.val L k v := by
  rw [h.has_iff]
  exact mfind_iff_mem (h.absMap_sorted.imp (fun hlt => Int.ne_of_lt hlt)) k v

/-! ### Reachable states -/

/-- In every reachable state: the logical chain `chainOf s` starts at the head, ends at the tail and is finite;
    ALL linked nodes (marked ones included) are strictly sorted by key, hence pairwise different; they are allocated
    nodes; the sentinels are never marked.  The words in memory: an unmarked node's `m_pNext` is its logical successor,
    a marked node's `m_pNext` is the marked back-link to the head. -/
theorem reachable_structure (s : St) (h : model.Reachable init s) :
    Chain s.succ (some 0) (chainOf s) ∧ (∃ l, chainOf s = 0 :: (l ++ [1])) ∧
      (chainOf s).Pairwise (LLt s.key) ∧ (absNodes s).Pairwise (fun a b => s.key a < s.key b) ∧ (chainOf s).Nodup ∧
      (∀ a, a ∈ chainOf s → a < s.cnt) ∧ s.mark 0 = false ∧ s.mark 1 = false ∧
      (∀ a, s.mark a = false → s.next a = s.succ a) ∧ (∀ a, s.mark a = true → s.next a = some 0) := by
  obtain ⟨L, hl⟩ := sinv_reachable s h
  rw [hl.chainOf_eq]
  refine ⟨hl.chain, ?_, hl.sorted, hl.absNodes_sorted, hl.nodup, hl.alloc, hl.mark0, hl.mark1, hl.agree, hl.back⟩
  obtain ⟨l, rfl⟩ := hl.head_cons
  have htl := hl.tailIn
  have hso := List.pairwise_cons.mp hl.sorted
  have h1 : 1 ∈ l := by simpa using htl
  -- the tail is the last element: nothing is above it
  obtain ⟨l1, l2, rfl⟩ := List.append_of_mem h1
  have : l2 = [] := by
    cases l2 with
    | nil => rfl
    | cons b l2 =>
      have := (List.pairwise_append.mp hso.2).2.1
      have := (List.pairwise_cons.mp this).1 b (by simp)
      exact absurd rfl this.1
  subst this
  exact ⟨l1, rfl⟩

/-- No key is present twice: the keys of the abstract map are strictly increasing. -/
theorem reachable_no_duplicate_keys (s : St) (h : model.Reachable init s) :
    (absMap s).Pairwise (fun p q => p.1 < q.1) ∧ ((absMap s).map (·.1)).Nodup := by
  obtain ⟨L, hl⟩ := sinv_reachable s h
  refine ⟨hl.absMap_sorted, ?_⟩
  rw [List.Nodup, List.pairwise_map]
  exact hl.absMap_sorted.imp (fun hlt => Int.ne_of_lt hlt)

/-- A marked (logically deleted) node is frozen: no action changes its word or removes its mark. -/
theorem marked_frozen {s s' : St} {t : Tid} {a : Act} {o : Obs} (h : model.Reachable init s)
    (hap : model.apply s t a = some (s', o)) (x : Nat) (hx : s.mark x = true) :
    s'.mark x = true ∧ s'.next x = s.next x := by
  obtain ⟨L, hl⟩ := sinv_reachable s h
  obtain ⟨L', -, he⟩ := sinvl_apply hl hap
  exact he.frz x hx

/-- Only marked nodes leave the chain, and nothing else ever does: a node that is linked or marked stays linked or
    marked; a node that leaves the chain is marked. -/
theorem linked_or_marked_forever {s s' : St} {t : Tid} {a : Act} {o : Obs} (h : model.Reachable init s)
    (hap : model.apply s t a = some (s', o)) (x : Nat) :
    ((x ∈ chainOf s ∨ s.mark x = true) → (x ∈ chainOf s' ∨ s'.mark x = true)) ∧
    (x ∈ chainOf s → x ∉ chainOf s' → s.mark x = true) := by
  obtain ⟨L, hl⟩ := sinv_reachable s h
  obtain ⟨L', hl', he⟩ := sinvl_apply hl hap
  rw [hl.chainOf_eq, hl'.chainOf_eq]
  exact ⟨he.mono x, he.unl x⟩

/-- The linking store puts the new node on the chain, unmarked. -/
theorem insert_links {s s' : St} {t : Tid} {ev : Ev} (h : model.Reachable init s) (hs : step s t = some (s', ev))
    (o : OpK) (n p c : Nat) (hpc : s.pc t = .iLk o n p c) : n ∈ absNodes s' ∧ s'.mark n = false := by
  obtain ⟨L, hl⟩ := sinv_reachable s h
  obtain ⟨L', hl', he⟩ := sinvl_step hl hs
  have h1 := he.linked o n p c hpc
  have hn := hl.priv t n (by simp [hpc, insNode])
  have hn0 : n ≠ 0 := fun e => hn.2.1 (e ▸ hl.zero_mem)
  have hn1 : n ≠ 1 := fun e => hn.2.1 (e ▸ hl.tailIn)
  exact ⟨(hl'.mem_absNodes n).mpr ⟨h1.1, hn0, hn1⟩, h1.2⟩

/-- A node is marked by exactly one `erase` / `extract`, the one that returns success for it.
    (1) The only step that sets the mark of a node `a` is the marking store of a thread erasing `key a`, applied to
        a linked node under its lock; that thread is then going to return `[1, val a]`.
    (2) No two threads are between their marking store and their unlink store for the same node; and a mark is never
        removed (`marked_frozen`), so no second marking of `a` can ever happen. -/
theorem erase_once {s s' : St} {t : Tid} {ev : Ev} (h : model.Reachable init s) (hs : step s t = some (s', ev)) :
    (∀ a, s.mark a = false → s'.mark a = true →
      ∃ o p nx, s.pc t = .eMk o p a nx ∧ s'.pc t = .eUn o p a nx [1, s.val a] ∧ s.key a = okey o ∧
        a ∈ absNodes s ∧ heldC (s.pc t) = some a ∧ lpRet s'.mark s'.key (s'.pc t) = some [1, s.val a]) ∧
    (∀ t1 t2 o1 p1 a x1 r1 o2 p2 x2 r2, s'.pc t1 = .eUn o1 p1 a x1 r1 → s'.pc t2 = .eUn o2 p2 a x2 r2 → t1 = t2) := by
  obtain ⟨L, hl⟩ := sinv_reachable s h
  obtain ⟨L', hl', he⟩ := sinvl_step hl hs
  constructor
  · intro a h1 h2
    obtain ⟨o, p, nx, e1, e2, e3, e4⟩ := he.marks a h1 h2
    have ha0 : a ≠ 0 := by intro e; rw [e, hl'.mark0] at h2; simp at h2
    have ha1 : a ≠ 1 := by intro e; rw [e, hl'.mark1] at h2; simp at h2
    exact ⟨o, p, nx, e1, e2, e3, (hl.mem_absNodes a).mpr ⟨e4, ha0, ha1⟩, by simp [e1, heldC], by simp [e2, lpRet]⟩
  · intro t1 t2 o1 p1 a x1 r1 o2 p2 x2 r2 e1 e2
    exact hl'.mCC t1 t2 a (by simp [e1, heldC]) (by simp [e2, heldC])

/-- Lock discipline.  In every reachable state (1) a lock is held by at most one thread, and its word is set;
    and for every action of a thread `t`: (2) a `m_pNext` word (pointer or mark; also the ghost successor) changes only
    if `t` holds the lock of that node or the node is `t`'s own, not yet linked node; (3) the payload of an existing
    node changes only if `t` holds its lock as `pCur`, and the node is linked and unmarked; (4) a lock word changes
    only by `t` acquiring the free lock or releasing a lock it holds. -/
theorem lock_discipline (s : St) (h : model.Reachable init s) :
    (∀ t1 t2 a, (heldP (s.pc t1) = some a ∨ heldC (s.pc t1) = some a) →
      (heldP (s.pc t2) = some a ∨ heldC (s.pc t2) = some a) → t1 = t2) ∧
    (∀ t a, (heldP (s.pc t) = some a ∨ heldC (s.pc t) = some a) → s.lock a = true) ∧
    (∀ t p c, heldP (s.pc t) = some p → heldC (s.pc t) = some c → p ≠ c) ∧
    (∀ t a s' o, model.apply s t a = some (s', o) →
      (∀ x, (s'.next x ≠ s.next x ∨ s'.mark x ≠ s.mark x ∨ s'.succ x ≠ s.succ x) →
        heldP (s.pc t) = some x ∨ heldC (s.pc t) = some x ∨ insNode (s.pc t) = some x) ∧
      (∀ x, x < s.cnt → s'.val x ≠ s.val x → heldC (s.pc t) = some x ∧ s.mark x = false ∧ x ∈ chainOf s) ∧
      (∀ x, s'.lock x ≠ s.lock x →
        (s.lock x = false ∧ (heldP (s'.pc t) = some x ∨ heldC (s'.pc t) = some x)) ∨
        (s.lock x = true ∧ (heldP (s.pc t) = some x ∨ heldC (s.pc t) = some x)))) := by
  obtain ⟨L, hl⟩ := sinv_reachable s h
  refine ⟨?_, ?_, ?_, ?_⟩
  · intro t1 t2 a h1 h2
    rcases h1 with h1 | h1 <;> rcases h2 with h2 | h2
    · exact hl.mPP t1 t2 a h1 h2
    · exact hl.mPC t1 t2 a h1 h2
    · exact (hl.mPC t2 t1 a h2 h1).symm
    · exact hl.mCC t1 t2 a h1 h2
  · intro t a h1
    rcases h1 with h1 | h1
    · exact hl.lockedP t a h1
    · exact hl.lockedC t a h1
  · intro t p c h1 h2
    exact hl.pneq t p c (heldP_prev h1) (heldC_cur h2)
  · intro t a s' o hap
    obtain ⟨L', -, he⟩ := sinvl_apply hl hap
    refine ⟨he.disc, ?_, he.ldisc⟩
    intro x hx hv
    obtain ⟨e1, e2, e3⟩ := he.vdisc x hx hv
    exact ⟨e1, e2, by rw [hl.chainOf_eq]; exact e3⟩

/-! ### The window between the marking store and the unlink store -/

/-- Every marked node on the chain has been marked by a thread that has not yet executed its unlink store. -/
def Win (s : St) (L : List Nat) : Prop := ∀ a, a ∈ L → s.mark a = true → ∃ t, pcWin (s.pc t) = some a

theorem pcWin_spec {pc : PC} {a : Nat} (h : pcWin pc = some a) : ∃ o p nx r, pc = .eUn o p a nx r := by
  cases pc <;> simp_all [pcWin]

theorem win_apply {s s' : St} {t : Tid} {a : Act} {o : Obs} {L : List Nat} (hl : SInvL s L) (hw : Win s L)
    (hap : model.apply s t a = some (s', o)) : ∃ L', SInvL s' L' ∧ Win s' L' := by
  cases a with
  | invoke op =>
    simp only [Model.apply, model, Option.map_eq_some_iff] at hap
    obtain ⟨s1, hs1, heq⟩ := hap
    simp only [Prod.mk.injEq] at heq
    obtain ⟨rfl, -⟩ := heq
    obtain ⟨h1, h2⟩ := sinvl_invoke hl hs1
    refine ⟨L, h1, ?_⟩
    intro x hx hm
    rw [h2.mark] at hm
    obtain ⟨t2, ht2⟩ := hw x hx hm
    have hne : t2 ≠ t := by intro e; rw [e, h2.was] at ht2; simp [pcWin] at ht2
    exact ⟨t2, by rw [h2.frame t2 hne]; exact ht2⟩
  | step =>
    simp only [Model.apply, model, Option.map_eq_some_iff] at hap
    obtain ⟨⟨s1, e⟩, hs1, heq⟩ := hap
    simp only [Prod.mk.injEq] at heq
    obtain ⟨rfl, -⟩ := heq
    obtain ⟨L', hl', he⟩ := sinvl_step hl hs1
    refine ⟨L', hl', ?_⟩
    intro x hx hm
    have hxL : x ∈ L := by
      rcases he.grow x hx with h | h
      · exact h
      · rw [hm] at h; simp at h
    cases hm0 : s.mark x with
    | true =>
      obtain ⟨t2, ht2⟩ := hw x hxL hm0
      have hne : t2 ≠ t := by intro e; rw [e] at ht2; exact he.wout x ht2 hx
      exact ⟨t2, by rw [he.frame t2 hne]; exact ht2⟩
    | false =>
      obtain ⟨o', p', nx', -, e2, -, -⟩ := he.marks x hm0 hm
      exact ⟨t, by simp [e2, pcWin]⟩
  | ret =>
    simp only [Model.apply, model, Option.map_eq_some_iff] at hap
    obtain ⟨⟨s1, r⟩, hs1, heq⟩ := hap
    simp only [Prod.mk.injEq] at heq
    obtain ⟨rfl, -⟩ := heq
    obtain ⟨h1, hd, -, hfr, -, -, h6, -, -, -⟩ := sinvl_result hl hs1
    refine ⟨L, h1, ?_⟩
    intro x hx hm
    rw [h6] at hm
    obtain ⟨t2, ht2⟩ := hw x hx hm
    have hne : t2 ≠ t := by intro e; rw [e, hd] at ht2; simp [pcWin] at ht2
    exact ⟨t2, by rw [hfr t2 hne]; exact ht2⟩

theorem swin_reachable (s : St) (h : model.Reachable init s) : ∃ L, SInvL s L ∧ Win s L :=
  model.inv_reachable (fun s => ∃ L, SInvL s L ∧ Win s L) init
    ⟨[0, 1], sinv_init, fun a _ hm => by simp [init] at hm⟩
    (fun _ _ _ _ _ hi hap => by obtain ⟨L, h1, h2⟩ := hi; exact win_apply h1 h2 hap) s h

/-- The words in memory differ from the logical chain only inside an eraser's window: a marked node that is still on
    the chain has been marked by a thread that is between its marking store and its unlink store — it holds the locks
    of the node and of its unmarked predecessor `p`, whose word still points to the node. -/
theorem window (s : St) (h : model.Reachable init s) (a : Nat) (ha : a ∈ chainOf s) (hm : s.mark a = true) :
    ∃ t o p nx r, s.pc t = .eUn o p a nx r ∧ s.next p = some a ∧ s.mark p = false ∧ s.succ a = nx := by
  obtain ⟨L, hl, hw⟩ := swin_reachable s h
  rw [hl.chainOf_eq] at ha
  obtain ⟨t, ht⟩ := hw a ha hm
  obtain ⟨o, p, nx, r, hpc⟩ := pcWin_spec ht
  have h1 := hl.unmP t p (by simp [hpc, knowUnmP])
  have h2 := hl.link t p a (by simp [hpc, knowLink])
  exact ⟨t, o, p, nx, r, hpc, by rw [hl.agree p h1]; exact h2, h1, (hl.eun t o p a nx r hpc).1⟩

/-- Under the two locks, the two `is_marked()` tests of `validate` are implied by its pointer comparison: if
    `pPred->m_pNext` is the unmarked pointer to `pCur`, then `pCur` is unmarked as well.  (So a `validate` without
    these tests behaves the same; such a change is visible in the trace only.) -/
theorem validate_marks_redundant (s : St) (h : model.Reachable init s) (t : Tid) (o : OpK) (p c : Nat)
    (hpc : s.pc t = .v1 o p c) (h1 : s.next p = some c) (h2 : s.mark p = false) : s.mark c = false := by
  obtain ⟨L, hl, hw⟩ := swin_reachable s h
  have hprev := hl.lkPrev t p (by simp [hpc, pcPrev])
  have hpL : p ∈ L := hprev.2.resolve_right (by simp [h2])
  obtain ⟨-, hcL, -⟩ := hl.next_mem hpL h2 h1
  cases hm : s.mark c with
  | false => rfl
  | true =>
    obtain ⟨t2, ht2⟩ := hw c hcL hm
    obtain ⟨o2, p2, nx2, r2, hpc2⟩ := pcWin_spec ht2
    have := hl.mCC t t2 c (by simp [hpc, heldC]) (by simp [hpc2, heldC])
    subst this
    rw [hpc] at hpc2; simp at hpc2

/-- Refinement on `absMap`: in a reachable state, the step at which thread `t` fixes its result `r` is the `Spec.map`
    transition of `t`'s operation with result `r` from the abstract map before the step to (a representation of) the
    abstract map after the step; every other step leaves the abstract map unchanged.  A step that fixes the result of
    ANOTHER thread (the marking store, for the readers waiting at the node) does so with a read-only transition on the
    abstract map after the step. -/
theorem step_refines {s s' : St} {t : Tid} {ev : Ev} (h : model.Reachable init s) (hs : step s t = some (s', ev)) :
    (lpRet s.mark s.key (s.pc t) = none → ∀ r, lpRet s'.mark s'.key (s'.pc t) = some r →
      ∃ op m', opOf (s.pc t) = some op ∧ Spec.map.next (absMap s) op r = some m' ∧
        ∀ k v, mfind m' k = some v ↔ (k, v) ∈ absMap s') ∧
    ((lpRet s.mark s.key (s.pc t) ≠ none ∨ lpRet s'.mark s'.key (s'.pc t) = none) →
      ∀ k v, (k, v) ∈ absMap s' ↔ (k, v) ∈ absMap s) ∧
    (∀ t2, t2 ≠ t → lpRet s.mark s.key (s.pc t2) = none → ∀ r, lpRet s'.mark s'.key (s'.pc t2) = some r →
      ∃ op m', opOf (s.pc t2) = some op ∧ Spec.map.next (absMap s') op r = some m' ∧
        ∀ k v, mfind m' k = some v ↔ (k, v) ∈ absMap s') := by
  obtain ⟨L, hl⟩ := sinv_reachable s h
  obtain ⟨L', hl', he⟩ := sinvl_step hl hs
  refine ⟨?_, ?_, ?_⟩
  · intro h1 r h2
    obtain ⟨op, ho, hok⟩ := he.lp h1 r h2
    obtain ⟨m', hm1, hm2⟩ := hok (absMap s) hl.mfind_absMap
    exact ⟨op, m', ho, hm1, fun k v => (hm2 k v).trans (hl'.has_iff k v)⟩
  · intro hc k v
    rw [← hl'.has_iff, ← hl.has_iff]
    exact he.nolp hc k v
  · intro t2 ht h1 r h2
    rw [he.frame t2 ht] at h2
    obtain ⟨op, ho, hok⟩ := he.help t2 ht h1 r h2
    obtain ⟨m', hm1, hm2⟩ := hok (absMap s') hl'.mfind_absMap
    exact ⟨op, m', ho, hm1, fun k v => (hm2 k v).trans (hl'.has_iff k v)⟩

end CdsVerif.Algo.Lazy

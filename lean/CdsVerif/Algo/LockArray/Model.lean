/-
  Atomic-step model of `cds::sync::lock_array< cds::sync::spin, SelectPolicy >` (cds/sync/lock_array.h): an array of
  `size` spin locks (test-and-test-and-set, as in Algo/Spin).

    lock( hint )     : nCell = m_SelectCellPolicy( hint, size()); m_arrLocks[nCell].lock(); return nCell;
    try_lock( hint ) : nCell = …; if ( m_arrLocks[nCell].try_lock()) return nCell; return c_nUnspecifiedCell;
    unlock( nCell )  : m_arrLocks[nCell].unlock();
    lock_all()       : for ( pLock = m_arrLocks; pLock != m_arrLocks + size(); ++pLock ) pLock->lock();
    unlock_all()     : for ( pLock = m_arrLocks; pLock != m_arrLocks + size(); ++pLock ) pLock->unlock();
  with  spin_lock::try_lock : return !m_spin.exchange( true );
        spin_lock::lock     : while ( !try_lock()) { while ( m_spin.load()) backoff(); }
        spin_lock::unlock   : m_spin.store( false );

  The cell selection policy is a parameter `sel hint size` of the machine (trivial: `hint`; mod: `hint % size`; pow2:
  `hint &&& (size - 1)`); every theorem holds for every policy.  One `step` = one atomic operation on a cell's word.
  `lock_all` is NOT atomic: it acquires the cells one by one in index order, and other threads run in between.

  Event rendering (the `A` lines of the harness trace), cell `c`:
      xchg L<c>.spin <0|1> 1       try_lock
      ld   L<c>.spin <0|1>         wait loop
      st   L<c>.spin 0             unlock

  Ghost fields: `held t c` — thread `t` is between a successful exchange on cell `c` and its releasing store;
                `all t`    — `lock_all` of thread `t` has performed its last exchange and its `unlock_all` has not been invoked.
-/
import CdsVerif.Base.Machine
namespace CdsVerif.Algo.LockArray
open CdsVerif.Machine CdsVerif.Spec

inductive PC
  | idle
  | lockTry (c : Nat)               -- lock( hint ): next exchange( true ) on cell c
  | lockSpin (c : Nat)              -- lock( hint ): next load in the wait loop
  | tryOnce (c : Nat)               -- try_lock( hint ): next exchange( true )
  | unlockSt (c : Nat) (r : GRet)   -- unlock( c ): next store( false ); then return r
  | allTry (c : Nat)                -- lock_all(): cells < c acquired; next exchange( true ) on cell c
  | allSpin (c : Nat)               -- lock_all(): next load in the wait loop of cell c
  | allUn (c : Nat)                 -- unlock_all(): cells < c released; next store( false ) to cell c
  | done (r : GRet)
deriving DecidableEq, Repr

structure St where
  size : Nat                        -- number of cells (never changes)
  spin : Nat → Bool                 -- m_spin of every cell
  pc : Tid → PC
  held : Tid → Nat → Bool           -- ghost
  all : Tid → Bool                  -- ghost

def init (size : Nat) : St := ⟨size, fun _ => false, fun _ => .idle, fun _ _ => false, fun _ => false⟩

def b2s (b : Bool) : String := if b then "1" else "0"
def locName (c : Nat) : String := s!"L{c}.spin"

/-- Client discipline.  `lock` / `try_lock`: the policy must select an existing cell (`assert( nCell < size())`).
    `unlock c`: only by a thread that holds cell `c` and is not between `lock_all` and `unlock_all`;
    `unlock_if c`: releases `c` if the thread holds it, does nothing otherwise; `unlock_all`: only after the thread's own
    `lock_all`.  The first argument of every operation is the calling thread (as in the harness histories) and is not used. -/
def invoke (sel : Nat → Nat → Nat) (s : St) (t : Tid) (op : GOp) : Option St :=
  match s.pc t, op.name, op.args with
  | .idle, "lock", [_, h] =>
    if sel h.toNat s.size < s.size then some { s with pc := upd s.pc t (.lockTry (sel h.toNat s.size)) } else none
  | .idle, "try_lock", [_, h] =>
    if sel h.toNat s.size < s.size then some { s with pc := upd s.pc t (.tryOnce (sel h.toNat s.size)) } else none
  | .idle, "unlock", [_, c] =>
    if s.held t c.toNat ∧ s.all t = false then some { s with pc := upd s.pc t (.unlockSt c.toNat []) } else none
  | .idle, "unlock_if", [_, c] =>
    if s.all t then none
    else if s.held t c.toNat then some { s with pc := upd s.pc t (.unlockSt c.toNat [1]) }
    else some { s with pc := upd s.pc t (.done [0]) }
  | .idle, "lock_all", [_] =>
    if s.size = 0 then some { s with pc := upd s.pc t (.done []), all := upd s.all t true }
    else some { s with pc := upd s.pc t (.allTry 0) }
  | .idle, "unlock_all", [_] =>
    if s.all t then
      if s.size = 0 then some { s with pc := upd s.pc t (.done []), all := upd s.all t false }
      else some { s with pc := upd s.pc t (.allUn 0), all := upd s.all t false }
    else none
  | _, _, _ => none

def step (s : St) (t : Tid) : Option (St × Ev) :=
  match s.pc t with
  | .lockTry c =>
    let old := s.spin c
    let ev : Ev := ⟨"xchg", locName c, b2s old, "1"⟩
    if old then some ({ s with spin := upd s.spin c true, pc := upd s.pc t (.lockSpin c) }, ev)
    else some ({ s with spin := upd s.spin c true, pc := upd s.pc t (.done []), held := upd2 s.held t c true }, ev)
  | .lockSpin c =>
    let v := s.spin c
    some ({ s with pc := upd s.pc t (if v then .lockSpin c else .lockTry c) }, ⟨"ld", locName c, b2s v, ""⟩)
  | .tryOnce c =>
    let old := s.spin c
    let ev : Ev := ⟨"xchg", locName c, b2s old, "1"⟩
    if old then some ({ s with spin := upd s.spin c true, pc := upd s.pc t (.done [0]) }, ev)
    else some ({ s with spin := upd s.spin c true, pc := upd s.pc t (.done [1]), held := upd2 s.held t c true }, ev)
  | .unlockSt c r =>
    some ({ s with spin := upd s.spin c false, pc := upd s.pc t (.done r), held := upd2 s.held t c false },
          ⟨"st", locName c, "0", ""⟩)
  | .allTry c =>
    let old := s.spin c
    let ev : Ev := ⟨"xchg", locName c, b2s old, "1"⟩
    if old then some ({ s with spin := upd s.spin c true, pc := upd s.pc t (.allSpin c) }, ev)
    else if c + 1 < s.size then
      some ({ s with spin := upd s.spin c true, pc := upd s.pc t (.allTry (c + 1)), held := upd2 s.held t c true }, ev)
    else
      some ({ s with spin := upd s.spin c true, pc := upd s.pc t (.done []), held := upd2 s.held t c true,
                     all := upd s.all t true }, ev)
  | .allSpin c =>
    let v := s.spin c
    some ({ s with pc := upd s.pc t (if v then .allSpin c else .allTry c) }, ⟨"ld", locName c, b2s v, ""⟩)
  | .allUn c =>
    some ({ s with spin := upd s.spin c false, held := upd2 s.held t c false,
                   pc := upd s.pc t (if c + 1 < s.size then .allUn (c + 1) else .done []) },
          ⟨"st", locName c, "0", ""⟩)
  | _ => none

def result (s : St) (t : Tid) : Option (St × GRet) :=
  match s.pc t with
  | .done r => some ({ s with pc := upd s.pc t .idle }, r)
  | _ => none

def model (sel : Nat → Nat → Nat) : Model St := ⟨invoke sel, step, result⟩

/-- `trivial_select_policy`. -/
def selTrivial (h _ : Nat) : Nat := h
/-- `mod_select_policy`. -/
def selMod (h n : Nat) : Nat := h % n

/-- The atomic events of a run, with the acting thread. -/
def events (os : List (Tid × Obs)) : List (Tid × Ev) :=
  os.filterMap fun (t, o) => match o with
    | .ev e => some (t, e)
    | _ => none

/-- Initial state from the header word `size=<number of cells>`. -/
def initCfg (cfg : List String) : St :=
  match cfg.find? (·.startsWith "size=") with
  | some w => init (w.drop 5).toString.toNat!
  | none => init 0

/-! ### Invariant -/

/-- The cell up to which (exclusive) a thread inside `lock_all` holds every cell. -/
def allUpTo : PC → Option Nat
  | .idle => none
  | .lockTry _ => none
  | .lockSpin _ => none
  | .tryOnce _ => none
  | .unlockSt _ _ => none
  | .allTry c => some c
  | .allSpin c => some c
  | .allUn _ => none
  | .done _ => none

/-- The cell from which (inclusive) a thread inside `unlock_all` still holds every cell. -/
def unFrom : PC → Option Nat
  | .idle => none
  | .lockTry _ => none
  | .lockSpin _ => none
  | .tryOnce _ => none
  | .unlockSt _ _ => none
  | .allTry _ => none
  | .allSpin _ => none
  | .allUn c => some c
  | .done _ => none

structure LInv (s : St) : Prop where
  free : ∀ c t, s.spin c = false → s.held t c = false
  excl : ∀ c t1 t2, s.held t1 c = true → s.held t2 c = true → t1 = t2
  pUn : ∀ t c r, s.pc t = .unlockSt c r → s.held t c = true
  pAll : ∀ t c, allUpTo (s.pc t) = some c → c < s.size ∧ ∀ c', c' < c → s.held t c' = true
  pUnAll : ∀ t c, unFrom (s.pc t) = some c → c < s.size ∧ ∀ c', c ≤ c' → c' < s.size → s.held t c' = true
  full : ∀ t, s.all t = true → ∀ c, c < s.size → s.held t c = true
  nAllUn : ∀ t c r, s.pc t = .unlockSt c r → s.all t = false
  nAllUA : ∀ t c, unFrom (s.pc t) = some c → s.all t = false

theorem linv_init (n : Nat) : LInv (init n) := by
  constructor <;> intros <;> simp_all [init] <;> (try simp_all [allUpTo, unFrom])

macro "linv_close" : tactic =>
  `(tactic| (constructor <;> (try dsimp only) <;>
      first | assumption | (intros; (try dsimp only at *); grind [upd, upd2, allUpTo, unFrom])))

theorem linv_invoke {sel : Nat → Nat → Nat} {s s' : St} {t : Tid} {op : GOp} (h : LInv s)
    (hs : invoke sel s t op = some s') : LInv s' ∧ s'.size = s.size := by
  obtain ⟨h1, h2, h3, h4, h5, h6, h7, h8⟩ := h
  unfold invoke at hs
  split at hs
  · split at hs
    · simp at hs; subst hs; exact ⟨by linv_close, rfl⟩
    · simp at hs
  · split at hs
    · simp at hs; subst hs; exact ⟨by linv_close, rfl⟩
    · simp at hs
  · split at hs
    · simp at hs; subst hs; exact ⟨by linv_close, rfl⟩
    · simp at hs
  · split at hs
    · simp at hs
    · split at hs <;> simp at hs <;> subst hs <;> exact ⟨by linv_close, rfl⟩
  · split at hs <;> simp at hs <;> subst hs <;> exact ⟨by linv_close, rfl⟩
  · split at hs
    · split at hs <;> simp at hs <;> subst hs <;> exact ⟨by linv_close, rfl⟩
    · simp at hs
  · simp at hs

theorem linv_result {s s' : St} {t : Tid} {r : GRet} (h : LInv s) (hs : result s t = some (s', r)) :
    LInv s' ∧ s'.size = s.size := by
  obtain ⟨h1, h2, h3, h4, h5, h6, h7, h8⟩ := h
  unfold result at hs
  split at hs
  · simp at hs; obtain ⟨rfl, -⟩ := hs; exact ⟨by linv_close, rfl⟩
  · simp at hs

set_option maxHeartbeats 1000000 in
theorem linv_step {s s' : St} {t : Tid} {ev : Ev} (h : LInv s) (hs : step s t = some (s', ev)) :
    LInv s' ∧ s'.size = s.size := by
  obtain ⟨h1, h2, h3, h4, h5, h6, h7, h8⟩ := h
  cases hpc : s.pc t <;> simp only [step, hpc] at hs
  case idle => simp at hs
  case done => simp at hs
  case lockTry c =>
    split at hs <;> simp at hs <;> obtain ⟨rfl, -⟩ := hs <;> exact ⟨by linv_close, rfl⟩
  case lockSpin c =>
    simp at hs; obtain ⟨rfl, -⟩ := hs
    exact ⟨by by_cases hv : s.spin c = true <;> simp only [hv] <;> linv_close, rfl⟩
  case tryOnce c =>
    split at hs <;> simp at hs <;> obtain ⟨rfl, -⟩ := hs <;> exact ⟨by linv_close, rfl⟩
  case unlockSt c r =>
    simp at hs; obtain ⟨rfl, -⟩ := hs; exact ⟨by linv_close, rfl⟩
  case allTry c =>
    have hc := h4 t c (by simp [hpc, allUpTo])
    split at hs
    · simp at hs; obtain ⟨rfl, -⟩ := hs; exact ⟨by linv_close, rfl⟩
    · split at hs <;> simp at hs <;> obtain ⟨rfl, -⟩ := hs <;> exact ⟨by linv_close, rfl⟩
  case allSpin c =>
    simp at hs; obtain ⟨rfl, -⟩ := hs
    exact ⟨by by_cases hv : s.spin c = true <;> simp only [hv] <;> linv_close, rfl⟩
  case allUn c =>
    have hc := h5 t c (by simp [hpc, unFrom])
    simp at hs; obtain ⟨rfl, -⟩ := hs
    exact ⟨by by_cases hv : c + 1 < s.size <;> simp only [hv] <;> linv_close, rfl⟩

theorem linv_apply (sel : Nat → Nat → Nat) (s : St) (t : Tid) (a : Act) (s' : St) (o : Obs) (h : LInv s)
    (hap : (model sel).apply s t a = some (s', o)) : LInv s' := by
  cases a with
  | invoke op =>
    simp only [Model.apply, model, Option.map_eq_some_iff] at hap
    obtain ⟨s1, hs1, heq⟩ := hap
    simp only [Prod.mk.injEq] at heq
    obtain ⟨rfl, -⟩ := heq
    exact (linv_invoke h hs1).1
  | step =>
    simp only [Model.apply, model, Option.map_eq_some_iff] at hap
    obtain ⟨⟨s1, e⟩, hs1, heq⟩ := hap
    simp only [Prod.mk.injEq] at heq
    obtain ⟨rfl, -⟩ := heq
    exact (linv_step h hs1).1
  | ret =>
    simp only [Model.apply, model, Option.map_eq_some_iff] at hap
    obtain ⟨⟨s1, r⟩, hs1, heq⟩ := hap
    simp only [Prod.mk.injEq] at heq
    obtain ⟨rfl, -⟩ := heq
    exact (linv_result h hs1).1

theorem linv_reachable (sel : Nat → Nat → Nat) (n : Nat) (s : St) (h : (model sel).Reachable (init n) s) : LInv s :=
  (model sel).inv_reachable LInv (init n) (linv_init n) (linv_apply sel) s h

/-- The number of cells never changes. -/
theorem size_reachable (sel : Nat → Nat → Nat) (n : Nat) (s : St) (h : (model sel).Reachable (init n) s) : s.size = n := by
  have key := (model sel).inv_reachable (fun s => LInv s ∧ s.size = n) (init n) ⟨linv_init n, rfl⟩
    (fun s t a s' o hi hap => by
      obtain ⟨hl, hn⟩ := hi
      refine ⟨linv_apply sel s t a s' o hl hap, ?_⟩
      cases a with
      | invoke op =>
        simp only [Model.apply, model, Option.map_eq_some_iff] at hap
        obtain ⟨s1, hs1, heq⟩ := hap
        simp only [Prod.mk.injEq] at heq
        obtain ⟨rfl, -⟩ := heq
        rw [(linv_invoke hl hs1).2, hn]
      | step =>
        simp only [Model.apply, model, Option.map_eq_some_iff] at hap
        obtain ⟨⟨s1, e⟩, hs1, heq⟩ := hap
        simp only [Prod.mk.injEq] at heq
        obtain ⟨rfl, -⟩ := heq
        rw [(linv_step hl hs1).2, hn]
      | ret =>
        simp only [Model.apply, model, Option.map_eq_some_iff] at hap
        obtain ⟨⟨s1, r⟩, hs1, heq⟩ := hap
        simp only [Prod.mk.injEq] at heq
        obtain ⟨rfl, -⟩ := heq
        rw [(linv_result hl hs1).2, hn]) s h
  exact key.2

/-- `lock_all` returns exactly when the ghost `all` is set: the step that takes a thread from inside `lock_all` to `done` is
    the successful exchange on the last cell; it sets `all`, and in the state after it the thread holds every cell. -/
theorem lock_all_return_step {s s' : St} {t : Tid} {ev : Ev} {c : Nat} (h : LInv s) (hpc : s.pc t = .allTry c)
    (hs : step s t = some (s', ev)) (hd : ∃ r, s'.pc t = .done r) :
    s'.all t = true ∧ c + 1 = s.size ∧ s.spin c = false ∧ ∀ c', c' < s'.size → s'.held t c' = true := by
  have hl' := (linv_step h hs).1
  have hc := (h.pAll t c (by simp [hpc, allUpTo])).1
  have hall : s'.all t = true ∧ c + 1 = s.size ∧ s.spin c = false := by
    simp only [step, hpc] at hs
    obtain ⟨r, hr⟩ := hd
    split at hs
    · simp at hs; obtain ⟨rfl, -⟩ := hs; simp [upd] at hr
    · rename_i h1
      split at hs
      · simp at hs; obtain ⟨rfl, -⟩ := hs; simp [upd] at hr
      · rename_i h2
        simp at hs; obtain ⟨rfl, -⟩ := hs
        refine ⟨by simp [upd], by omega, by simpa using h1⟩
  exact ⟨hall.1, hall.2.1, hall.2.2, hl'.full t hall.1⟩

end CdsVerif.Algo.LockArray

/-
  The invariant holds in every reachable state of the skip-list machine (`markTest = true`, `0 < maxH`).
-/
import CdsVerif.Algo.SkipList.StepCas
namespace CdsVerif.Algo.SkipList
open CdsVerif.Machine CdsVerif.Spec CdsVerif.Lin
open CdsVerif.Algo.Michael (Chain Lt LPok isRO insAfter Has)

theorem sinvl_step {c : Cfg} (hc : 0 < c.maxH) (hmt : c.markTest = true) {s s' : St} {t : Tid} {ev : Ev} {L : List Nat}
    (h : SInvL c s L) (hs : step c s t = some (s', ev)) : ∃ L', SInvL c s' L' ∧ StepEff s t s' L L' := by
  cases hpc : s.pc t with
  | idle => simp [step, hpc] at hs
  | done r => simp [step, hpc] at hs
  | fLd1 w lvl pred nc pp ps => exact sinvl_step_fLd1 h hpc hs
  | fLd2 w lvl pred nc pp ps x m => exact sinvl_step_fLd2 hc h hpc hs
  | fSucc w lvl pred cur nc pp ps => exact sinvl_step_fSucc h hpc hs
  | fChk w lvl pred cur sx sm nc pp ps => exact sinvl_step_fChk hc h hpc hs
  | hUnl w lvl pred cur pp ps => exact sinvl_step_hUnl h hpc hs
  | hLd1 w lvl pred cur pp ps => exact sinvl_step_hLd1 h hpc hs
  | hLd2 w lvl pred cur pp ps x m => exact sinvl_step_hLd2 h hpc hs
  | hCas w lvl pred cur pp ps x => exact sinvl_step_hCas h hpc hs
  | hSub w cur pp ps => exact sinvl_step_hSub h hpc hs
  | iClr n lvl pp ps => exact sinvl_step_iClr h hpc hs
  | iSt0 n pp ps => exact sinvl_step_iSt0 h hpc hs
  | iCas0 n pp ps => exact sinvl_step_iCas0 h hpc hs
  | iUpA n lvl p pp ps => exact sinvl_step_iUpA h hpc hs
  | iUpB n lvl pp ps => exact sinvl_step_iUpB h hpc hs
  | iSubFix n lvl pp ps => exact sinvl_step_iSubFix h hpc hs
  | gHgt n => exact sinvl_step_gHgt h hpc hs
  | gCas n cur => exact sinvl_step_gCas h hpc hs
  | eLd k d lvl pp ps => exact sinvl_step_eLd h hpc hs
  | eMk k d lvl sx pp ps => exact sinvl_step_eMk h hpc hs
  | e0Ld k d pp ps => exact sinvl_step_e0Ld h hpc hs
  | e0Mk k d p pp ps => exact sinvl_step_e0Mk h hpc hs
  | eH1 k d lvl pp ps => exact sinvl_step_eH1 h hpc hs
  | eH2 k d lvl x pp ps => exact sinvl_step_eH2 h hpc hs
  | eHSub k d lvl pp ps => exact sinvl_step_eHSub h hpc hs
  | qHgt o att => exact sinvl_step_qHgt h hpc hs
  | qLd1 o lvl pred att => exact sinvl_step_qLd1 h hpc hs
  | qLd2 o lvl pred att x m => exact sinvl_step_qLd2 hmt h hpc hs
  | qChk o cur => exact sinvl_step_qChk h hpc hs

/-! ### Invocation and return -/

theorem wnode_priv {m : Mem} {L : List Nat} {w : Why} {n : Nat} (h : WOk m L w) (hn : wnode w = some n) : Priv m L n := by
  cases w <;> simp only [wnode, reduceCtorEq, Option.some.injEq] at hn
  subst hn; exact h

theorem pnode_priv {c : Cfg} {m : Mem} {L : List Nat} {pc : PC} {n : Nat} (h : TOk c m L pc) (hn : pnode pc = some n) :
    Priv m L n := by
  cases pc <;> simp only [pnode, reduceCtorEq] at hn <;> simp only [TOk] at h
  case fLd1 => exact wnode_priv h.1 hn
  case fLd2 => exact wnode_priv h.1 hn
  case fSucc => exact wnode_priv h.1 hn
  case fChk => exact wnode_priv h.1 hn
  case hUnl => exact wnode_priv h.1 hn
  case hLd1 => exact wnode_priv h.1 hn
  case hLd2 => exact wnode_priv h.1 hn
  case hCas => exact wnode_priv h.1 hn
  case hSub => exact wnode_priv h.1 hn
  case iClr => simp only [Option.some.injEq] at hn; subst hn; exact h.1
  case iSt0 => simp only [Option.some.injEq] at hn; subst hn; exact h.1
  case iCas0 => simp only [Option.some.injEq] at hn; subst hn; exact h.1

theorem wop_congr {key key' val val' : Nat → Int} {w : Why} (h : ∀ n, wnode w = some n → key' n = key n ∧ val' n = val n) :
    wop key' val' w = wop key val w := by
  cases w <;> simp only [wop]
  have := h _ rfl
  rw [this.1, this.2]

theorem opOf_congr {key key' val val' : Nat → Int} {pc : PC}
    (h : ∀ n, pnode pc = some n → key' n = key n ∧ val' n = val n) : opOf key' val' pc = opOf key val pc := by
  cases pc <;> simp only [opOf] <;> first | rfl | exact wop_congr h | (have := h _ rfl; rw [this.1, this.2])

theorem lpRet_congr {c : Cfg} {m : Mem} {L : List Nat} (hg : GOk m L) {mk : Nat → Bool} {key' val' : Nat → Int} {pc : PC}
    (ht : TOk c m L pc) (h : ∀ a, a < m.cnt → key' a = m.key a ∧ val' a = m.val a) :
    lpRet mk key' val' pc = lpRet mk m.key m.val pc ∧ postRet val' pc = postRet m.val pc := by
  cases pc <;> simp only [lpRet, postRet, and_self] <;> simp only [TOk] at ht
  case fChk w lvl pred cur sx sm nc pp ps =>
    have hcu : cur < m.cnt := hg.lt_cnt ht.2.2.2.2.1
    have hwk : wkey key' w = wkey m.key w := by
      cases w <;> simp only [wkey] <;> simp only [WOk] at ht
      · exact (h _ ht.1.2.1).1
      · exact (h _ (hg.lt_cnt ht.1.2)).1
      · exact (h _ (hg.lt_cnt ht.1.1.2)).1
    have hwf : wfound val' w cur = wfound m.val w cur := by
      cases w <;> simp only [wfound]
      rw [(h cur hcu).2]
    rw [(h cur hcu).1, hwk, hwf]; exact ⟨rfl, trivial⟩
  case eH1 k d lvl pp ps => rw [(h d (hg.mcnt d ht.2.2.1).2).2]
  case eH2 k d lvl x pp ps => rw [(h d (hg.mcnt d ht.2.2.1).2).2]
  case eHSub k d lvl pp ps => rw [(h d (hg.mcnt d ht.2.2.1).2).2]

structure InvokeEff (s : St) (t : Tid) (op : GOp) (s' : St) (L : List Nat) : Prop where
  frame : ∀ t2, t2 ≠ t → s'.pc t2 = s.pc t2
  ops : ∀ t2, t2 ≠ t → opOf s'.key s'.val (s.pc t2) = opOf s.key s.val (s.pc t2)
  lps : ∀ t2, t2 ≠ t → lpRet (mk0 s'.mark) s'.key s'.val (s.pc t2) = lpRet (mk0 s.mark) s.key s.val (s.pc t2)
  was : s.pc t = .idle
  now : opOf s'.key s'.val (s'.pc t) = some op ∧ lpRet (mk0 s'.mark) s'.key s'.val (s'.pc t) = none
  abs : ∀ k v, Has (mk0 s'.mark) s'.key s'.val L k v ↔ Has (mk0 s.mark) s.key s.val L k v

theorem invoke_simple {c : Cfg} {s : St} {L : List Nat} {t : Tid} {pc' : PC} {op : GOp} (h : SInvL c s L)
    (hidle : s.pc t = .idle) (htok : TOk c (mem! s) L pc') (hpn : pnode pc' = none)
    (hop : opOf s.key s.val pc' = some op) (hlp : lpRet (mk0 s.mark) s.key s.val pc' = none) :
    SInvL c { s with pc := upd s.pc t pc' } L ∧ InvokeEff s t op { s with pc := upd s.pc t pc' } L := by
  constructor
  · refine h.assemble (t := t) none h.g (MemLe.refl _ _ _) (by simp) ?_ ?_ ?_
    · intro t2 ht; simp [upd, ht]
    · simp only [upd_same]; exact htok
    · simp only [upd_same, hpn]; intro n hn; simp at hn
  · exact ⟨fun t2 ht => by simp [upd, ht], fun _ _ => rfl, fun _ _ => rfl, hidle, by simp only [upd_same]; exact ⟨hop, hlp⟩,
      fun _ _ => Iff.rfl⟩

set_option maxHeartbeats 1000000 in
theorem sinvl_invoke {c : Cfg} {s s' : St} {t : Tid} {op : GOp} {L : List Nat}
    (h : SInvL c s L) (hs : invoke c s t op = some s') : SInvL c s' L ∧ InvokeEff s t op s' L := by
  obtain ⟨name, args⟩ := op
  unfold invoke at hs
  split at hs
  next k v hidle hname hargs =>
    -- insert
    simp only at hname hargs; subst hname; subst hargs
    simp only [Option.some.injEq] at hs; subst hs
    have hg := h.g
    have hstab : ∀ a, a < s.cnt → upd s.key s.cnt k a = s.key a ∧ upd s.val s.cnt v a = s.val a ∧
        upd s.ht s.cnt (c.height s.cnt) a = s.ht a := by
      intro a ha
      have : a ≠ s.cnt := Nat.ne_of_lt ha
      simp [upd, this]
    have hle : MemLe none (mem! s) L
        ⟨s.next, s.mark, upd s.key s.cnt k, upd s.val s.cnt v, upd s.ht s.cnt (c.height s.cnt), s.cnt + 1⟩ L :=
      ⟨hstab, Nat.le_succ _, fun _ x => x, fun _ _ hm _ => ⟨hm, rfl⟩, fun _ h1 h2 _ => ⟨h1, h2, rfl⟩⟩
    have hg' : GOk ⟨s.next, s.mark, upd s.key s.cnt k, upd s.val s.cnt v, upd s.ht s.cnt (c.height s.cnt), s.cnt + 1⟩ L := by
      refine ⟨hg.chain, ?_, fun a ha => Nat.lt_succ_of_lt (hg.alloc a ha), Nat.le_succ_of_le hg.cpos,
        fun a ha => ⟨(hg.mcnt a ha).1, Nat.lt_succ_of_lt (hg.mcnt a ha).2⟩, ?_, ?_, ?_⟩
      · refine List.Pairwise.imp_of_mem ?_ hg.sorted
        intro a b ha hb hab
        unfold Lt at *
        dsimp only at hab ⊢
        rw [(hstab a (hg.alloc a ha)).1, (hstab b (hg.alloc b hb)).1]; exact hab
      · intro a l b hb
        have := hg.ptr a l b hb
        refine ⟨this.1, this.2.1, ?_⟩
        show l < upd s.ht s.cnt (c.height s.cnt) b
        rw [(hstab b (hg.lt_cnt this.2.1)).2.2]; exact this.2.2
      · intro a l ha hl
        have hl' : l < upd s.ht s.cnt (c.height s.cnt) a := hl
        rw [(hstab a (hg.mcnt a ha).2).2.2] at hl'
        exact hg.mmono a l ha hl'
      · intro a
        show 1 ≤ upd s.ht s.cnt (c.height s.cnt) a
        unfold upd; split
        · unfold Cfg.height; omega
        · exact hg.hpos a
    have hnew : Priv ⟨s.next, s.mark, upd s.key s.cnt k, upd s.val s.cnt v, upd s.ht s.cnt (c.height s.cnt), s.cnt + 1⟩ L
        s.cnt := by
      refine ⟨by have hcp : 1 ≤ s.cnt := hg.cpos; show s.cnt ≠ 0; omega, Nat.lt_succ_self _, ?_, ?_⟩
      · intro hm; exact Nat.lt_irrefl _ (hg.alloc _ hm)
      · cases e : s.mark s.cnt 0 with
        | false => exact e
        | true => exact absurd (hg.mcnt _ e).2 (Nat.lt_irrefl _)
    have hnlt : ∀ t2 n, pnode (s.pc t2) = some n → n < s.cnt := fun t2 n hn => (pnode_priv (h.thr t2) hn).2.1
    constructor
    · refine ⟨hg', ?_, ?_⟩
      · refine forall_upd (P := TOk c _ L) (fun t2 _ => tok_mono hg hle (by simp) (h.thr t2)) ?_
        exact tok_retry (w := .insS s.cnt) hnew (listsOk_replicate _ _ _)
      · intro t1 t2 n h1 h2
        dsimp only at h1 h2
        unfold upd at h1 h2
        by_cases e1 : t1 = t <;> by_cases e2 : t2 = t <;> simp only [e1, e2, if_true, if_false] at h1 h2
        · rw [e1, e2]
        · simp only [retry, pnode, wnode, Option.some.injEq] at h1
          have := hnlt t2 n h2; omega
        · simp only [retry, pnode, wnode, Option.some.injEq] at h2
          have := hnlt t1 n h1; omega
        · exact h.own t1 t2 n h1 h2
    · refine ⟨fun t2 ht => by simp [upd, ht], ?_, ?_, hidle, ?_, ?_⟩
      · intro t2 _
        exact opOf_congr (fun n hn => ⟨(hstab n (hnlt t2 n hn)).1, (hstab n (hnlt t2 n hn)).2.1⟩)
      · intro t2 _
        exact (lpRet_congr (m := mem! s) hg (h.thr t2) (fun a ha => ⟨(hstab a ha).1, (hstab a ha).2.1⟩)).1
      · simp only [upd_same]
        refine ⟨?_, rfl⟩
        simp [retry, opOf, wop, upd]
      · intro k' v'
        unfold Has
        constructor
        · rintro ⟨a, ha, h0, h1, h2, h3⟩
          have e := hstab a (hg.alloc a ha)
          exact ⟨a, ha, h0, h1, by rw [← e.1]; exact h2, by rw [← e.2.1]; exact h3⟩
        · rintro ⟨a, ha, h0, h1, h2, h3⟩
          have e := hstab a (hg.alloc a ha)
          exact ⟨a, ha, h0, h1, by show upd s.key s.cnt k a = k'; rw [e.1]; exact h2,
            by show upd s.val s.cnt v a = v'; rw [e.2.1]; exact h3⟩
  next k hidle hname hargs =>
    simp only at hname hargs; subst hname; subst hargs
    simp only [Option.some.injEq] at hs; subst hs
    exact invoke_simple h hidle (tok_retry (w := .eraS k) (by simp [WOk]) (listsOk_replicate _ _ _)) rfl rfl rfl
  next k hidle hname hargs =>
    simp only at hname hargs; subst hname; subst hargs
    simp only [Option.some.injEq] at hs; subst hs
    exact invoke_simple h hidle (by simp [TOk]) rfl rfl rfl
  next k hidle hname hargs =>
    simp only at hname hargs; subst hname; subst hargs
    simp only [Option.some.injEq] at hs; subst hs
    exact invoke_simple h hidle (by simp [TOk]) rfl rfl rfl
  next => simp at hs

theorem sinvl_result {c : Cfg} {s s' : St} {t : Tid} {r : GRet} {L : List Nat}
    (h : SInvL c s L) (hs : result s t = some (s', r)) :
    SInvL c s' L ∧ s.pc t = .done r ∧ s'.pc t = .idle ∧ (∀ t2, t2 ≠ t → s'.pc t2 = s.pc t2) ∧
      s'.key = s.key ∧ s'.val = s.val ∧ s'.mark = s.mark := by
  unfold result at hs
  split at hs
  next r' hpc =>
    simp only [Option.some.injEq, Prod.mk.injEq] at hs; obtain ⟨rfl, rfl⟩ := hs
    refine ⟨?_, hpc, by simp [upd], fun t2 h2 => by simp [upd, h2], rfl, rfl, rfl⟩
    refine h.assemble (t := t) none h.g (MemLe.refl _ _ _) (by simp) ?_ ?_ ?_
    · intro t2 ht; simp [upd, ht]
    · simp [upd_same, TOk]
    · simp [upd_same, pnode]
  next => simp at hs

/-- The effect of a level-0 mark on the OTHER threads: the erases of the same item have lost. -/
theorem lp_other {c : Cfg} {m : Mem} {L : List Nat} {pc : PC} (ht : TOk c m L pc) {mk : Nat → Bool} {d : Nat}
    (hd : mk d = false) :
    lpRet (upd mk d true) m.key m.val pc = lpRet mk m.key m.val pc ∨
      (lpRet mk m.key m.val pc = none ∧ lpRet (upd mk d true) m.key m.val pc = some [0] ∧
        opOf m.key m.val pc = some ⟨"erase", [m.key d]⟩) := by
  have key : ∀ (k : Int) (d2 : Nat), m.key d2 = k →
      (if upd mk d true d2 = true then some [0] else none) = (if mk d2 = true then some ([0] : GRet) else none) ∨
      ((if mk d2 = true then some ([0] : GRet) else none) = none ∧
        (if upd mk d true d2 = true then some ([0] : GRet) else none) = some [0] ∧
        some (⟨"erase", [k]⟩ : GOp) = some ⟨"erase", [m.key d]⟩) := by
    intro k d2 hk
    by_cases e : d2 = d
    · subst e; right; simp [upd, hd, hk]
    · left; simp [upd, e]
  cases pc
  case eLd k d2 lvl pp ps => simp only [TOk] at ht; exact key k d2 ht.2.2.1
  case eMk k d2 lvl sx pp ps => simp only [TOk] at ht; exact key k d2 ht.2.2.1
  case e0Ld k d2 pp ps => simp only [TOk] at ht; exact key k d2 ht.2.2.1
  case e0Mk k d2 p pp ps => simp only [TOk] at ht; exact key k d2 ht.2.2.1
  all_goals (left; rfl)

end CdsVerif.Algo.SkipList

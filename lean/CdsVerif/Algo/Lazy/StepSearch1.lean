/-
  Preservation of the LazyList invariant, and the effect on the abstract map: the first load of `protect( pPrev->m_pNext )` in `search`.
-/
import CdsVerif.Algo.Lazy.Inv
namespace CdsVerif.Algo.Lazy
open CdsVerif.Machine CdsVerif.Spec CdsVerif.Lin
open CdsVerif.Algo.Michael (Chain insAfter mem_insAfter pairwise_insAfter LPok)

set_option maxHeartbeats 4000000 in
theorem sinvl_step_sLd1 {s s' : St} {t : Tid} {ev : Ev} {L : List Nat} {o : OpK} {p : Nat}
    (h : SInvL s L) (hpc : s.pc t = .sLd1 o p) (hs : step s t = some (s', ev)) :
    ∃ L', SInvL s' L' ∧ StepEff s t s' L L' := by
  pc_facts
  sinv_open h
  simp only [step, hpc] at hs
  simp at hs; obtain ⟨rfl, -⟩ := hs
  step_close L

end CdsVerif.Algo.Lazy

/-
  Atomic-step model of the typed `cds::container::WeakRingBuffer<T>` (cds/container/weak_ringbuffer.h),
  single producer (thread 0) / single consumer (thread 1).

    push( arr, count ):  back = back_.load( relaxed );
                         if ( pfront_ + capacity() - back < count ) {
                             pfront_ = front_.load( acquire );
                             if ( pfront_ + capacity() - back < count ) return false;
                         }
                         for i < count: buffer_[ mod( back + i ) ] = arr[i];
                         back_.store( back + count, release ); return true;
    pop( arr, count ):   front = front_.load( relaxed );
                         if ( cback_ - front < count ) {
                             cback_ = back_.load( acquire );
                             if ( cback_ - front < count ) return false;
                         }
                         for i < count: arr[i] = buffer_[ mod( front + i ) ];
                         front_.store( front + count, release ); return true;
    front():             as pop with count 1 but without the store; returns &buffer_[ mod( front ) ]
    pop_front():         as pop with count 1 without the copy
    push( v ) = emplace( v ) and pop( v ) = pop( &v, 1 ) perform the same atomic operations as the batch
    forms with count 1.

  One `step` is one atomic operation on `front_` / `back_` together with the thread-private work that
  precedes it: the caches `pfront_` (producer) and `cback_` (consumer) and the buffer cells are plain
  data touched only inside the steps of the owning thread (the cells of a batch are written in the step
  that ends with `back_.store`, and read in the step that ends with `front_.store`).
  Counters are `Nat` (the 64-bit counters of the real code do not wrap in any feasible run); all
  subtractions below are shown exact by the invariant (`Inv.lean`: `front ≤ cback_`, `back ≤ pfront_ + cap`).
  The value cleaner run by the consumer on consumed cells is not modelled (it is a no-op for trivial
  element types and touches only cells the consumer owns).

  Client operations (wire form of the harness client `ringbuf.cpp`):
    thread 0:  push v1 … vk   (k ≥ 1; `push v` is the single-element form)      → [1] | [0]
               pushn v k      (the batch v, v+1, …, v+k-1)                       → [1] | [0]
    thread 1:  pop            (= pop 1)                                          → [1, v] | [0]
               pop k / popn k                                                    → [1, v1 … vk] | [0]
               front                                                             → [1, v] | [0]
               popf           (front() followed by pop_front())                  → [1, v] | [0]
  Ghost state: `pushed` = all elements ever pushed (appended at the `back_` store),
               `popped` = all elements ever delivered to the consumer (appended at the `front_` store).

  Events: `⟨"ld", "back", toString n, ""⟩`, `⟨"ld", "front", toString n, ""⟩`,
          `⟨"st", "back", toString n, ""⟩`, `⟨"st", "front", toString n, ""⟩`  (n in decimal),
  i.e. the trace lines `T <tid> A ld back 3`, `T <tid> A st back 5`.
-/
import CdsVerif.Base.Machine
namespace CdsVerif.Algo.Ring
open CdsVerif.Machine CdsVerif.Spec

/-- Producer program counter. -/
inductive PPC
  | idle
  | ldBack (vs : List Int)                 -- next: back_.load( relaxed )
  | ldFront (vs : List Int) (back : Nat)   -- next: pfront_ = front_.load( acquire )
  | stBack (vs : List Int) (back : Nat)    -- next: copy the batch, back_.store( back + count, release )
  | done (r : GRet)
deriving DecidableEq, Repr

/-- Consumer operation in progress. `popf2 v` is the `pop_front()` half of `popf` after `front()`
    has shown the client the value `v`. -/
inductive COp
  | pop (k : Nat)
  | front
  | popf1
  | popf2 (v : Int)
deriving DecidableEq, Repr

/-- Consumer program counter. -/
inductive CPC
  | idle
  | ldFront (op : COp)                     -- next: front_.load( relaxed )
  | ldBack (op : COp) (front : Nat)        -- next: cback_ = back_.load( acquire )
  | stFront (k : Nat) (front : Nat)        -- next: copy k elements out, front_.store( front + k, release )
  | stFrontPF (v : Int) (front : Nat)      -- next: front_.store( front + 1, release ) of pop_front()
  | done (r : GRet)
deriving DecidableEq, Repr

structure St where
  cap : Nat              -- capacity() (constant)
  front : Nat            -- atomic front_
  back : Nat             -- atomic back_
  pfront : Nat           -- producer's cached pfront_
  cback : Nat            -- consumer's cached cback_
  buf : Nat → Int        -- buffer cells, indices < cap
  pp : PPC
  cp : CPC
  pushed : List Int      -- ghost
  popped : List Int      -- ghost

def init (cap : Nat) : St := ⟨cap, 0, 0, 0, 0, fun _ => 0, .idle, .idle, [], []⟩

/-- `for ( i = 0; i < count; ++i, ++back ) buffer_[ mod( back ) ] = arr[i]` -/
def writeCells (buf : Nat → Int) (cap : Nat) : Nat → List Int → (Nat → Int)
  | _, [] => buf
  | b, v :: vs => writeCells (upd buf (b % cap) v) cap (b + 1) vs

/-- `for ( i = 0; i < count; ++i, ++front ) arr[i] = buffer_[ mod( front ) ]` -/
def readCells (buf : Nat → Int) (cap : Nat) (f k : Nat) : List Int :=
  (List.range k).map (fun i => buf ((f + i) % cap))

/-- The batch a producer operation pushes. -/
def batchOf (op : GOp) : Option (List Int) :=
  match op.name, op.args with
  | "push", v :: vs => some (v :: vs)
  | "pushn", [v, k] => some ((List.range k.toNat).map (fun (i : Nat) => v + (i : Int)))
  | _, _ => none

def consOf (op : GOp) : Option COp :=
  match op.name, op.args with
  | "pop", [] => some (.pop 1)
  | "pop", [k] => some (.pop k.toNat)
  | "popn", [k] => some (.pop k.toNat)
  | "front", [] => some .front
  | "popf", [] => some .popf1
  | _, _ => none

/-- Thread 0 is the producer, thread 1 the consumer; no other thread may touch the buffer. -/
def invoke (s : St) (t : Tid) (op : GOp) : Option St :=
  if t = 0 then
    match s.pp, batchOf op with
    | .idle, some vs => some { s with pp := .ldBack vs }
    | _, _ => none
  else if t = 1 then
    match s.cp, consOf op with
    | .idle, some c => some { s with cp := .ldFront c }
    | _, _ => none
  else none

/-- Number of elements a consumer operation needs to be present. -/
def need : COp → Nat
  | .pop k => k
  | _ => 1

/-- What the consumer does once `cback_ - front ≥ need` is established (thread-private work only). -/
def proceed (s : St) (op : COp) (f : Nat) : St :=
  match op with
  | .pop k => { s with cp := .stFront k f }
  | .front => { s with cp := .done [1, s.buf (f % s.cap)] }
  | .popf1 => { s with cp := .ldFront (.popf2 (s.buf (f % s.cap))) }
  | .popf2 v => { s with cp := .stFrontPF v f }

def evLd (loc : String) (n : Nat) : Ev := ⟨"ld", loc, toString n, ""⟩
def evSt (loc : String) (n : Nat) : Ev := ⟨"st", loc, toString n, ""⟩

def step (s : St) (t : Tid) : Option (St × Ev) :=
  if t = 0 then
    match s.pp with
    | .ldBack vs =>
      if s.pfront + s.cap - s.back < vs.length then
        some ({ s with pp := .ldFront vs s.back }, evLd "back" s.back)
      else some ({ s with pp := .stBack vs s.back }, evLd "back" s.back)
    | .ldFront vs b =>
      if s.front + s.cap - b < vs.length then
        some ({ s with pfront := s.front, pp := .done [0] }, evLd "front" s.front)
      else some ({ s with pfront := s.front, pp := .stBack vs b }, evLd "front" s.front)
    | .stBack vs b =>
      some ({ s with buf := writeCells s.buf s.cap b vs, back := b + vs.length,
                     pushed := s.pushed ++ vs, pp := .done [1] }, evSt "back" (b + vs.length))
    | _ => none
  else if t = 1 then
    match s.cp with
    | .ldFront op =>
      if s.cback - s.front < need op then some ({ s with cp := .ldBack op s.front }, evLd "front" s.front)
      else some (proceed s op s.front, evLd "front" s.front)
    | .ldBack op f =>
      if s.back - f < need op then some ({ s with cback := s.back, cp := .done [0] }, evLd "back" s.back)
      else some (proceed { s with cback := s.back } op f, evLd "back" s.back)
    | .stFront k f =>
      some ({ s with front := f + k, popped := s.popped ++ readCells s.buf s.cap f k,
                     cp := .done (1 :: readCells s.buf s.cap f k) }, evSt "front" (f + k))
    | .stFrontPF v f =>
      some ({ s with front := f + 1, popped := s.popped ++ [v], cp := .done [1, v] }, evSt "front" (f + 1))
    | _ => none
  else none

def result (s : St) (t : Tid) : Option (St × GRet) :=
  if t = 0 then
    match s.pp with
    | .done r => some ({ s with pp := .idle }, r)
    | _ => none
  else if t = 1 then
    match s.cp with
    | .done r => some ({ s with cp := .idle }, r)
    | _ => none
  else none

def model : Model St := ⟨invoke, step, result⟩

/-! ### Initial state for trace replay

The header comment of a case carries `cap=<n>` (the value of `capacity()`) and optionally `rot=<r>`:
the harness client rotates the ring by `r` untraced `push(-i-1)` / `pop()` pairs before the scheduled
program starts; the same warm-up is executed here on the model, so that the caches `pfront_` / `cback_`
start with the values they have in the real object. -/

def cfgNat (key : String) (cfg : List String) : Option Nat :=
  cfg.findSome? (fun w => if w.startsWith (key ++ "=") then (w.drop (key.length + 1)).toNat? else none)

def runOp (s : St) (t : Tid) (op : GOp) : St :=
  match invoke s t op with
  | none => s
  | some s1 =>
    let rec go (fuel : Nat) (s : St) : St :=
      match fuel with
      | 0 => s
      | fuel + 1 => match step s t with
        | some (s', _) => go fuel s'
        | none => s
    match result (go 8 s1) t with
    | some (s2, _) => s2
    | none => s1

def warmup (cap rot : Nat) : St :=
  (List.range rot).foldl (fun s (i : Nat) => runOp (runOp s 0 ⟨"push", [-(i : Int) - 1]⟩) 1 ⟨"pop", []⟩) (init cap)

def initCfg (cfg : List String) : St :=
  warmup ((cfgNat "cap" cfg).getD 1) ((cfgNat "rot" cfg).getD 0)

end CdsVerif.Algo.Ring

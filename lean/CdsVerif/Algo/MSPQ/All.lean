/-
  MSPriorityQueue machine: the four layers of the invariant together (locks, shape, conservation, heap order), for every
  reachable state.
-/
import CdsVerif.Algo.MSPQ.Cons
import CdsVerif.Algo.MSPQ.GStep
namespace CdsVerif.Algo.MSPQ
open CdsVerif.Machine CdsVerif.Spec

structure MInv (c : Cfg) (rank : Nat → Nat) (s : St) : Prop where
  l : LInv c s
  sh : SInv c rank s
  co : CInv c s
  go : GInv c s

theorem minv_init (c : Cfg) (rank : Nat → Nat) (hc : SlotOK c rank) : MInv c rank init :=
  ⟨linv_init c, sinv_init c rank hc, cinv_init c, ginv_init c⟩

theorem minv_apply {c : Cfg} {rank : Nat → Nat} (hc : SlotOK c rank) (s : St) (t : Tid) (a : Act) (s' : St) (o : Obs)
    (h : MInv c rank s) (hap : (model c).apply s t a = some (s', o)) : MInv c rank s' := by
  rcases apply_cases hap with ⟨op, -, hs, -⟩ | ⟨ev, -, hs, -⟩ | ⟨r, -, hs, -⟩
  · exact ⟨linv_invoke h.l hs, sinv_invoke h.l h.sh hs, cinv_invoke h.co hs, ginv_invoke h.l h.go hs⟩
  · exact ⟨linv_step hc h.l hs, sinv_step hc h.l h.sh hs, cinv_step hc h.l h.sh h.co hs, ginv_step hc h.l h.sh h.go hs⟩
  · exact ⟨linv_result h.l hs, sinv_result h.l h.sh hs, cinv_result h.l h.co hs, ginv_result h.l h.go hs⟩

theorem minv_reachable {c : Cfg} {rank : Nat → Nat} (hc : SlotOK c rank) (s : St) (h : (model c).Reachable init s) :
    MInv c rank s :=
  (model c).inv_reachable (MInv c rank) init (minv_init c rank hc) (minv_apply hc) s h

end CdsVerif.Algo.MSPQ

"""Shared machinery of the /verif checks: Lean build + audit, harness build (cached by
content hash of /repo's working tree), parallel case runs, driver calls, evidence."""
import concurrent.futures as cf
import glob
import hashlib
import json
import os
import re
import shutil
import subprocess
import sys
import time

VERIF = os.path.dirname(os.path.dirname(os.path.abspath(__file__)))
REPO = os.environ.get("VERIF_REPO", "/repo")
LEAN = os.path.join(VERIF, "lean")
WORK = os.path.join(VERIF, ".work")
BIN = os.path.join(WORK, "bin")
HARNESS = os.path.join(VERIF, "harness")
DRIVER = os.path.join(LEAN, ".lake", "build", "bin", "cdsdriver")
NCPU = os.cpu_count() or 4

CXXFLAGS = ["-std=gnu++11", "-O1", "-g", "-DNDEBUG", "-mcx16", "-DKHIZMAX_LIBCDS_VERIF",
            "-fno-access-control", "-w", "-I" + REPO, "-I" + os.path.join(HARNESS, "include"),
            "-I" + HARNESS]
LDFLAGS = ["-lboost_thread", "-lboost_system", "-pthread"]

ALLOWED_AXIOMS = {"propext", "Classical.choice", "Quot.sound"}


def sh(cmd, timeout=None, cwd=None, input=None, env=None):
    p = subprocess.run(cmd, cwd=cwd, input=input, capture_output=True, text=True, timeout=timeout, env=env)
    return p.returncode, p.stdout, p.stderr


# ---------------------------------------------------------------- hashing

_tree_hash = None


def repo_tree_hash():
    """Hash of every file the harness compiles from /repo's working tree."""
    global _tree_hash
    if _tree_hash is None:
        h = hashlib.sha256()
        files = []
        for root in ("cds", "src"):
            for d, _, fs in os.walk(os.path.join(REPO, root)):
                for f in fs:
                    files.append(os.path.join(d, f))
        for f in sorted(files):
            h.update(f.encode())
            with open(f, "rb") as fh:
                h.update(fh.read())
        _tree_hash = h.hexdigest()[:16]
    return _tree_hash


def files_hash(paths):
    h = hashlib.sha256()
    for f in sorted(paths):
        h.update(f.encode())
        with open(f, "rb") as fh:
            h.update(fh.read())
    return h.hexdigest()[:16]


# ---------------------------------------------------------------- Lean

class LeanError(Exception):
    def __init__(self, what, log):
        super().__init__(what)
        self.what = what
        self.log = log


import contextlib
import fcntl

_lean_lock_depth = 0


@contextlib.contextmanager
def lean_lock():
    """Serialise everything that writes or reads the Lean build directory (regeneration of Gen/, lake build, the
    axiom audit, leanchecker) across concurrently running checks: two `lake build` processes working on the same
    module at the same time remove each other's .olean files.  Re-entrant within one process."""
    global _lean_lock_depth
    if _lean_lock_depth > 0:
        _lean_lock_depth += 1
        try:
            yield
        finally:
            _lean_lock_depth -= 1
        return
    os.makedirs(WORK, exist_ok=True)
    fh = open(os.path.join(WORK, "lean.lock"), "w")
    fcntl.flock(fh, fcntl.LOCK_EX)
    _lean_lock_depth = 1
    try:
        yield
    finally:
        _lean_lock_depth = 0
        fcntl.flock(fh, fcntl.LOCK_UN)
        fh.close()


def lake_build(targets, timeout=1800):
    rc, out, err = sh(["lake", "build"] + targets, cwd=LEAN, timeout=timeout)
    if rc != 0:
        raise LeanError("lake build " + " ".join(targets) + " failed", out + err)
    return out


def write_root_module():
    """lean/CdsVerif.lean imports every module so that `lake build CdsVerif` checks all proofs."""
    mods = []
    for d, _, fs in os.walk(os.path.join(LEAN, "CdsVerif")):
        for f in fs:
            if f.endswith(".lean"):
                rel = os.path.relpath(os.path.join(d, f), LEAN)[:-5]
                mods.append(rel.replace(os.sep, "."))
    text = "-- root of the library: every module, so that `lake build CdsVerif` checks all proofs\n" + "".join("import %s\n" % m for m in sorted(mods))
    path = os.path.join(LEAN, "CdsVerif.lean")
    if not os.path.exists(path) or open(path).read() != text:
        open(path, "w").write(text)


def prop_theorems(prop_module_file):
    """Fully qualified names of all theorems declared in a Props file."""
    src = open(prop_module_file).read()
    src = re.sub(r"/-.*?-/", "", src, flags=re.S)
    src = re.sub(r"--.*", "", src)
    ns = []
    names = []
    for line in src.split("\n"):
        m = re.match(r"\s*namespace\s+(\S+)", line)
        if m:
            ns.append(m.group(1))
            continue
        m = re.match(r"\s*end\s+(\S+)", line)
        if m and ns and ns[-1].split(".")[-1] == m.group(1).split(".")[-1]:
            ns.pop()
            continue
        if re.match(r"\s*(?:@\[[^\]]*\]\s*)?private\s+theorem\b", line):
            continue        # private aliases cannot be named from outside; their axioms show up in the public theorems using them
        m = re.match(r"\s*(?:@\[[^\]]*\]\s*)?(?:protected\s+)?theorem\s+(\S+)", line)
        if m:
            names.append(".".join(ns + [m.group(1)]))
    return names


FORBIDDEN = re.compile(r"\b(sorry|admit|native_decide|bv_decide|implemented_by|unsafe)\b|^\s*axiom\s|maxHeartbeats\s+0\b")


def module_file(mod):
    return os.path.join(LEAN, *mod.split(".")) + ".lean"


def import_closure(mod, seen=None):
    seen = seen if seen is not None else {}
    f = module_file(mod)
    if mod in seen or not os.path.exists(f):
        return seen
    seen[mod] = f
    for line in open(f):
        m = re.match(r"\s*import\s+(CdsVerif\.\S+)", line)
        if m:
            import_closure(m.group(1), seen)
    return seen


def strip_comments(src):
    src = re.sub(r"/-.*?-/", lambda m: "\n" * m.group(0).count("\n"), src, flags=re.S)
    src = re.sub(r"--.*", "", src)
    return src


def audit(prop_module, extra_allowed=()):
    """Forbidden-token grep over the import closure, and `#print axioms` of every theorem
    of the property module.  Returns (obligations, discharged, axioms_used, problems)."""
    problems = []
    closure = import_closure(prop_module)
    for mod, f in closure.items():
        src = strip_comments(open(f).read())
        for i, line in enumerate(src.split("\n"), 1):
            if FORBIDDEN.search(line):
                problems.append("forbidden token in %s:%d: %s" % (mod, i, line.strip()[:80]))
    thms = prop_theorems(module_file(prop_module))
    tmp = os.path.join(WORK, "audit_%s.lean" % prop_module.replace(".", "_"))
    os.makedirs(WORK, exist_ok=True)
    with open(tmp, "w") as fh:
        fh.write("import %s\n" % prop_module)
        for t in thms:
            fh.write("#print axioms %s\n" % t)
    rc, out, err = sh(["lake", "env", "lean", tmp], cwd=LEAN, timeout=900)
    axioms_used = set()
    discharged = 0
    text = out + err
    # output: "'name' depends on axioms: [a, b]" or "'name' does not depend on any axioms"
    res = {}
    for m in re.finditer(r"'([^']+)' (?:depends on axioms: \[([^\]]*)\]|does not depend on any axioms)", text, flags=re.S):
        ax = [a.strip() for a in (m.group(2) or "").replace("\n", " ").split(",") if a.strip()]
        res[m.group(1)] = ax
    allowed = ALLOWED_AXIOMS | set(extra_allowed)
    for t in thms:
        if t not in res:
            problems.append("theorem %s: #print axioms gave no answer (%s)" % (t, text.strip()[:200]))
            continue
        bad = [a for a in res[t] if a not in allowed]
        axioms_used |= set(res[t])
        if bad:
            problems.append("theorem %s depends on non-allowed axioms %s" % (t, bad))
        else:
            discharged += 1
    return thms, discharged, sorted(axioms_used), problems


def leanchecker(mod):
    rc, out, err = sh(["lake", "env", "leanchecker", mod], cwd=LEAN, timeout=1800)
    return rc == 0, (out + err)[-400:]


# ---------------------------------------------------------------- harness build

def build_obj(src, name, extra=()):
    os.makedirs(BIN, exist_ok=True)
    key = hashlib.sha256((files_hash([src, os.path.join(HARNESS, "vsched.h"),
                                      os.path.join(HARNESS, "include", "khizmax_libcds_verif", "atomic.h")])
                          + " ".join(CXXFLAGS + list(extra))).encode()).hexdigest()[:16]
    out = os.path.join(BIN, "%s-%s.o" % (name, key))
    if not os.path.exists(out):
        rc, o, e = sh(["g++"] + CXXFLAGS + list(extra) + ["-c", src, "-o", out], timeout=900)
        if rc != 0:
            raise RuntimeError("compile %s failed:\n%s" % (src, e[-3000:]))
    return out


def build_libcds_objs(extra=()):
    """libcds' own src/*.cpp compiled with the guard on (cached by tree hash)."""
    th = repo_tree_hash()
    # the objects are compiled against the instrumented atomics: their interface is part of the key
    hh = files_hash([os.path.join(HARNESS, "vsched.h"), os.path.join(HARNESS, "include", "khizmax_libcds_verif", "atomic.h")])
    tag = hashlib.sha256((" ".join(extra) + hh + " ".join(CXXFLAGS)).encode()).hexdigest()[:6]
    objs = []
    jobs = []
    os.makedirs(BIN, exist_ok=True)
    for src in sorted(glob.glob(os.path.join(REPO, "src", "*.cpp"))):
        out = os.path.join(BIN, "libcds-%s-%s-%s.o" % (os.path.basename(src)[:-4], th, tag))
        objs.append(out)
        if not os.path.exists(out):
            jobs.append((src, out))

    def comp(j):
        rc, o, e = sh(["g++"] + CXXFLAGS + list(extra) + ["-c", j[0], "-o", j[1]], timeout=900)
        if rc != 0:
            raise RuntimeError("compile %s failed:\n%s" % (j[0], e[-3000:]))
    with cf.ThreadPoolExecutor(NCPU) as ex:
        list(ex.map(comp, jobs))
    return objs


def build_client(name, extra=(), src=None, with_libcds=True):
    """Build harness/clients/<name>.cpp against /repo's working tree. Cached by content hash of
    /repo/cds, /repo/src and the harness sources, so an edited tree is always recompiled."""
    src = src or os.path.join(HARNESS, "clients", name + ".cpp")
    hs = [src] + glob.glob(os.path.join(HARNESS, "*.h")) + glob.glob(os.path.join(HARNESS, "*.cpp")) \
        + glob.glob(os.path.join(HARNESS, "include", "khizmax_libcds_verif", "*.h"))
    key = hashlib.sha256((repo_tree_hash() + files_hash(hs) + " ".join(CXXFLAGS + list(extra))).encode()).hexdigest()[:16]
    exe = os.path.join(BIN, "%s-%s" % (name, key))
    if os.path.exists(exe):
        return exe
    # drop stale binaries of the same client
    for old in glob.glob(os.path.join(BIN, name + "-????????????????")):
        try:
            os.remove(old)
        except OSError:
            pass
    vs = build_obj(os.path.join(HARNESS, "vsched.cpp"), "vsched", extra)
    objs = build_libcds_objs(extra) if with_libcds else []
    rc, o, e = sh(["g++"] + CXXFLAGS + list(extra) + [src, vs] + objs + ["-o", exe + ".tmp"] + LDFLAGS, timeout=1800)
    if rc != 0:
        raise RuntimeError("compile %s failed:\n%s" % (src, e[-4000:]))
    os.replace(exe + ".tmp", exe)
    return exe


def build_clients(names, extra=()):
    with cf.ThreadPoolExecutor(min(len(names), NCPU) or 1) as ex:
        return dict(zip(names, ex.map(lambda n: build_client(n, extra), names)))


# ---------------------------------------------------------------- running cases

def run_chunk(exe, args, first, count, timeout):
    """Run cases [first, first+count). A case that hangs (budget/deadlock) ends the process with
    exit 41/42 after writing its block; the run is resumed after it."""
    out_all = []
    aborted = []
    cur = first
    end = first + count
    while cur < end:
        cmd = [exe] + args + ["--first", str(cur), "--cases", str(end - cur)]
        try:
            p = subprocess.run(cmd, capture_output=True, text=True, timeout=timeout)
            rc, out = p.returncode, p.stdout
        except subprocess.TimeoutExpired as ex:
            out = (ex.stdout or b"")
            out = out.decode() if isinstance(out, bytes) else out
            rc = -9
        out_all.append(out)
        if rc == 0:
            break
        # find the last CASE id to resume after it
        ids = re.findall(r"^CASE (\d+)", out, flags=re.M)
        if rc in (41, 42):
            last = int(ids[-1]) if ids else cur       # the aborted case wrote its block before exiting
        else:
            # crash or timeout inside a case: its block was never written; it is the case after the last complete one
            last = (int(ids[-1]) + 1) if ids else cur
            err = ""
        aborted.append({"case": last, "rc": rc, "cmd": " ".join(cmd[:-4] + ["--first", str(last), "--cases", "1"])})
        cur = last + 1
    return "".join(out_all), aborted


def run_cases(exe, args, cases, chunk=None, timeout=300):
    """Run `cases` cases of a client in parallel chunks; returns (text, aborted)."""
    chunk = chunk or max(1, (cases + NCPU - 1) // NCPU)
    jobs = [(f, min(chunk, cases - f)) for f in range(0, cases, chunk)]
    with cf.ThreadPoolExecutor(NCPU) as ex:
        res = list(ex.map(lambda j: run_chunk(exe, args, j[0], j[1], timeout), jobs))
    return "".join(r[0] for r in res), [a for r in res for a in r[1]]


_driver_copy = None


def driver_exe():
    """A private copy of the Lean driver for this process: `lake build` of a concurrently running check relinks
    (removes and rewrites) lean/.lake/build/bin/cdsdriver, and a run that starts in that window would fail."""
    global _driver_copy
    if _driver_copy and os.path.exists(_driver_copy):
        return _driver_copy
    import shutil
    with lean_lock():
        if not os.path.exists(DRIVER):
            lake_build(["cdsdriver"])
        os.makedirs(BIN, exist_ok=True)
        h = hashlib.sha256(open(DRIVER, "rb").read()).hexdigest()[:16]
        dst = os.path.join(BIN, "cdsdriver-" + h)
        if not os.path.exists(dst):
            tmp = dst + ".%d" % os.getpid()
            shutil.copy2(DRIVER, tmp)
            os.replace(tmp, dst)
    _driver_copy = dst
    return dst


def driver(cmd_args, text, timeout=900):
    rc, out, err = sh([driver_exe()] + cmd_args, input=text, timeout=timeout)
    if rc != 0:
        raise RuntimeError("cdsdriver %s failed rc=%d: %s" % (cmd_args, rc, err[-500:]))
    return out


def split_cases(text):
    """Yield (case_id, block_text) for every CASE … END block."""
    cur = None
    buf = []
    for line in text.split("\n"):
        if line.startswith("CASE "):
            cur = line.split()[1]
            buf = [line]
        elif cur is not None:
            buf.append(line)
            if line.startswith("END"):
                yield cur, "\n".join(buf) + "\n"
                cur = None


# ---------------------------------------------------------------- results

class Result:
    def __init__(self, prop, tier, seed, level):
        self.prop, self.tier, self.seed, self.level = prop, tier, seed, level
        self.t0 = time.time()
        self.violations = []      # dicts: {signature, replay_obj, no_input}
        self.known = []
        self.cov = {"samples": []}
        self.assumptions = []

    def add(self, key, n=1):
        self.cov[key] = self.cov.get(key, 0) + n

    def sample(self, s, limit=6):
        if len(self.cov["samples"]) < limit:
            self.cov["samples"].append(s)

    def violation(self, signature, replay_obj, no_input=False):
        self.violations.append({"signature": signature, "replay": replay_obj, "no_input": no_input})


def load_known():
    p = os.path.join(VERIF, "known_findings.json")
    if not os.path.exists(p):
        return []
    return json.load(open(p)).get("findings", [])


def finish(res):
    """Classify violations against known findings, write replays and evidence, print lines, exit."""
    known = [k for k in load_known() if k.get("property") == res.prop and k.get("status") == "open"]
    fresh = []
    printed_known = set()
    for v in res.violations:
        hit = None
        for k in known:
            if re.search(k["match"], v["signature"]):
                hit = k
                break
        if hit:
            if hit["id"] not in printed_known:
                print("KNOWN-FINDING: property=%s %s" % (res.prop, hit["what"]))
                printed_known.add(hit["id"])
        else:
            fresh.append(v)
    os.makedirs(os.path.join(VERIF, "replays"), exist_ok=True)
    import glob
    for old in glob.glob(os.path.join(VERIF, "replays", "%s_%s_*.json" % (res.prop, res.tier))):
        os.remove(old)          # replays describe this run only
    seen_sig = set()
    for i, v in enumerate(fresh):
        sig = v["signature"]
        if sig in seen_sig:
            continue
        seen_sig.add(sig)
        path = os.path.join(VERIF, "replays", "%s_%s_%d.json" % (res.prop, res.tier, len(seen_sig)))
        obj = dict(v["replay"])
        obj.update({"property": res.prop, "tier": res.tier, "seed": res.seed, "signature": sig})
        with open(path, "w") as fh:
            json.dump(obj, fh, indent=1)
        print("VIOLATION property=%s replay=%s%s" % (res.prop, path, " no-failing-input-found" if v["no_input"] else ""))
    cov = res.cov
    # fields the evidence schema asks for, whatever mix of ties a check used
    cov.setdefault("programs", cov.get("evaluations", 0))
    cov.setdefault("disagreements_checked", cov.get("evaluations", 0))
    if not cov.get("samples"):
        cov["samples"] = [{"note": "no per-case sample recorded by this run"}]
    cov["known_findings_matched"] = sorted(printed_known)
    ev = {"property_id": res.prop, "tier": res.tier, "seed": res.seed, "level": res.level,
          "coverage": cov, "assumptions": res.assumptions, "wall_s": round(time.time() - res.t0, 2),
          "violations": len(seen_sig)}
    os.makedirs(os.path.join(VERIF, "evidence"), exist_ok=True)
    with open(os.path.join(VERIF, "evidence", res.prop + ".json"), "w") as fh:
        json.dump(ev, fh, indent=1)
    print("%s %s tier=%s violations=%d known=%d wall=%.1fs" % (
        "FAIL" if seen_sig else "PASS", res.prop, res.tier, len(seen_sig), len(printed_known), time.time() - res.t0))
    return 1 if seen_sig else 0

// Deterministic scheduler, trace buffer and name registry for the libcds harness.
#ifndef KHIZMAX_LIBCDS_VERIF_VSCHED_H
#define KHIZMAX_LIBCDS_VERIF_VSCHED_H

#include <cstdint>
#include <cstdio>
#include <functional>
#include <string>
#include <utility>
#include <vector>
#include <khizmax_libcds_verif/atomic.h>

namespace khizmax_libcds_verif {

struct Rng {
    uint64_t s;
    explicit Rng( uint64_t seed = 0 ) : s( seed ) {}
    uint64_t next()
    {
        uint64_t z = ( s += 0x9E3779B97F4A7C15ull );
        z = ( z ^ ( z >> 30 )) * 0xBF58476D1CE4E5B9ull;
        z = ( z ^ ( z >> 27 )) * 0x94D049BB133111EBull;
        return z ^ ( z >> 31 );
    }
    uint64_t below( uint64_t n ) { return n ? next() % n : 0; }
    bool chance( unsigned pct ) { return below( 100 ) < pct; }
};

enum SchedMode { M_RANDOM = 0, M_PCT = 1, M_PREEMPT = 2, M_REPLAY = 3, M_CASBIAS = 4 };

struct SchedCfg {
    int mode = M_RANDOM;
    uint64_t seed = 1;
    unsigned switch_pct = 25;      // M_RANDOM: probability of a context switch at each point
    unsigned pct_depth = 2;        // M_PCT: number of priority change points
    unsigned est_len = 200;        // M_PCT: change points are drawn from [0, est_len)
    std::vector<std::pair<uint64_t, int>> preempt;   // M_PREEMPT: at step s switch to thread t
    std::vector<int> replay;       // M_REPLAY: thread id per step
    uint64_t budget = 20000;       // maximum number of scheduling points in one case
    bool trace = true;             // record atomic operations
};

enum RunStatus { ST_OK = 0, ST_BUDGET = 1, ST_DEADLOCK = 2 };

// name registry (symbolic locations and pointer values)
void reg_clear();
void reg_name( void const* addr, size_t len, std::string const& name );
std::string name_of( void const* addr );     // "name", "name+off" or "@hex"
bool has_name( void const* addr );
void reg_alias( uint64_t value, std::string const& name );   // render this 64-bit integer value symbolically (thread ids)

// client events (only meaningful from a scheduled thread)
int current_tid();
void set_quiet( bool q );           // while quiet, the calling thread's atomic operations are neither scheduling points nor traced (it keeps the baton)
uint64_t tick();                       // logical clock: real-time order of CALL/RET events
void ev_note( std::string const& s );  // free-form line attached to the current thread: "T <tid> <s>"

// Pseudo-events: a call into a component that the trace treats as ONE atomic step (e.g. a container that is
// verified separately and runs under set_quiet).  Usage, exactly like an instrumented atomic operation:
//     pseudo_begin();  set_quiet( true ); r = component.call(); set_quiet( false );  pseudo_end( "push", "buf", "o3", "1" );
// pseudo_begin() is the scheduling point (no-op on an unscheduled or quiet thread); pseudo_end() appends the line
// "T <tid> A <kind> <loc> <a> [<b>]" to the trace (tid -1 from an unscheduled thread, e.g. the main thread in finish()).
void pseudo_begin();
void pseudo_end( char const* kind, std::string const& loc, std::string const& a, std::string const& b = std::string());

// Run `body(tid)` on `nthreads` real threads serialised by the scheduler.
// If the step budget is exhausted or all live threads spin without any write in between,
// `on_abort(status)` is called (it must not return: it writes what it needs and _exit()s).
// Optional `prologue(tid)` / `epilogue(tid)`: run on thread tid's own OS thread, unscheduled and untraced, one thread
// at a time in increasing tid order; every prologue ends before the first scheduling decision, every epilogue starts
// after the last thread's body has returned (per-thread set-up that must exist for the whole scheduled run).
RunStatus run_case( int nthreads, std::function<void( int )> const& body, SchedCfg const& cfg,
                    std::function<void( RunStatus )> const& on_abort,
                    std::function<void( int )> const& prologue = std::function<void( int )>(),
                    std::function<void( int )> const& epilogue = std::function<void( int )>());

// results of the last run
uint64_t steps();
std::string render_trace();                  // "T <tid> A <kind> <loc> <vals…>" lines and notes, in order
std::string render_schedule();               // run-length encoded: "0x12 1x3 0x5"
std::vector<int> const& schedule();
struct TraceStats { uint64_t loads = 0, stores = 0, cas_ok = 0, cas_fail = 0, rmw = 0, fences = 0, switches = 0, yields = 0; };
TraceStats trace_stats();
uint64_t trace_hash();                       // hash of the (tid, kind, symbolic location) sequence

std::vector<int> parse_schedule( std::string const& rle );

} // namespace khizmax_libcds_verif
#endif

/-
  Atomic-step model of `cds::intrusive::FreeList` (cds/intrusive/free_list.h; Cameron Desrochers' reference-counted
  lock-free free list), functions `put`, `get` and the private `add_knowing_refcount_is_zero`.

    c_RefsMask = 0x7FFFFFFF, c_ShouldBeOnFreeList = 0x80000000      (m_freeListRefs is a uint32_t)

    put( pNode ):
        if ( pNode->m_freeListRefs.fetch_add( c_ShouldBeOnFreeList ) == 0 )                  -- putAdd
            add_knowing_refcount_is_zero( pNode );

    add_knowing_refcount_is_zero( pNode ):
        head = m_Head.load()                                                                 -- addLd
        while ( true ) {
            pNode->m_freeListNext.store( head )                                              -- addStNext
            pNode->m_freeListRefs.store( 1 )                                                 -- addStRefs
            if ( !m_Head.compare_exchange_strong( head, pNode )) {                           -- addCas  (failure: head := seen)
                if ( pNode->m_freeListRefs.fetch_add( c_ShouldBeOnFreeList - 1 ) == 1 )      -- addFix
                    continue;
            }
            return;
        }

    get():
        head = m_Head.load()                                                                 -- getLd
        while ( head != nullptr ) {
            prevHead = head
            refs = head->m_freeListRefs.load()                                               -- getRefs
            if ( (refs & c_RefsMask) == 0
              || !head->m_freeListRefs.compare_exchange_strong( refs, refs + 1 ))            -- getInc
            {
                head = m_Head.load(); continue;                                              -- (= getLd)
            }
            next = head->m_freeListNext.load()                                               -- getNext
            if ( m_Head.compare_exchange_strong( head, next )) {                             -- getCas  (failure: head := seen,
                head->m_freeListRefs.fetch_sub( 2 )                                          -- getSub2           NO reload)
                return head;
            }
            refs = prevHead->m_freeListRefs.fetch_sub( 1 )                                   -- getDec
            if ( refs == c_ShouldBeOnFreeList + 1 )
                add_knowing_refcount_is_zero( prevHead );      -- then the loop goes on with `head` = the value seen
        }
        return nullptr;

  Memory model of the model: NO garbage collector; the nodes are the natural numbers, exist for ever and are reused.
  A getter may hold a pointer to (and a reference count on) a node that is no longer on the list, that is owned by a
  client, or that is being put back.  Atomics are sequentially consistent.

  The 32-bit word `m_freeListRefs` of node `n` is the pair (`refs n` = low 31 bits, `shouldBeOn n` = top bit), and
  the four read-modify-write operations are modelled with their exact arithmetic modulo 2^32 (`wAddBit`,
  `wAddBitM1`, `wSub1`, `wSub2`: adding 0x80000000 toggles the top bit, a borrow out of the low 31 bits toggles it
  as well).  The single deviation: `refs + 1` in `getInc` does not overflow into the top bit (fewer than 2^31 - 1
  simultaneous getters: ASSUMPTION).  That no borrow ever happens is a theorem (`Inv.lean`, `no_borrow`).

  Ghost state: `owns t n`, a relation as in the tagged model; set by `getSub2` (the getter's last step before it
  returns the node), cleared by the invocation of `put`.  Client discipline: only an owner puts.

  One `step` = one atomic operation on shared memory.  Event rendering (the harness names `m_Head` "head", shows
  `m_freeListRefs` - the field at offset 0 - under the node's name `n<a>` and `m_freeListNext` as `n<a>.next`;
  32-bit values are printed in decimal, so a word with the top bit set prints as 2147483648 + count):
      ld   head      <ptr>                   load of m_Head
      ld   n<a>      <word>                  load of m_freeListRefs
      ld   n<a>.next <ptr>                   load of m_freeListNext
      st   n<a>.next <ptr>                   store to m_freeListNext
      st   n<a>      1                       store to m_freeListRefs
      add  n<a>      <old word> 2147483648   fetch_add( c_ShouldBeOnFreeList )
      add  n<a>      <old word> 2147483647   fetch_add( c_ShouldBeOnFreeList - 1 )
      sub  n<a>      <old word> 2            fetch_sub( 2 )
      sub  n<a>      <old word> 1            fetch_sub( 1 )
      cas+ head      <old ptr> <new ptr>     / cas- head <seen ptr> <expected ptr>
      cas+ n<a>      <old word> <new word>   / cas- n<a> <seen word> <expected word>
-/
import CdsVerif.Base.Machine
namespace CdsVerif.Algo.FreeList
open CdsVerif.Machine CdsVerif.Spec

/-- Who called `add_knowing_refcount_is_zero`, i.e. what happens when it returns: `put` returns;
    `get` goes on with its loop, `head` being the value its failed CAS has seen. -/
inductive Cont
  | put
  | get (hd : Option Nat)
deriving DecidableEq, Repr

inductive PC
  | idle
  | putAdd (n : Nat)                                     -- next: refs.fetch_add( c_ShouldBeOnFreeList )
  | addLd (n : Nat) (k : Cont)                           -- next: head = m_Head.load()
  | addStNext (n : Nat) (hd : Option Nat) (k : Cont)     -- next: pNode->m_freeListNext.store( head )
  | addStRefs (n : Nat) (hd : Option Nat) (k : Cont)     -- next: pNode->m_freeListRefs.store( 1 )
  | addCas (n : Nat) (hd : Option Nat) (k : Cont)        -- next: CAS( m_Head, head, pNode )
  | addFix (n : Nat) (hd : Option Nat) (k : Cont)        -- next: refs.fetch_add( c_ShouldBeOnFreeList - 1 ); hd = value seen
  | getLd                                                -- next: head = m_Head.load()
  | getRefs (h : Nat)                                    -- next: refs = head->m_freeListRefs.load()
  | getInc (h : Nat) (c : Nat) (f : Bool)                -- next: CAS( head->m_freeListRefs, refs, refs + 1 )
  | getNext (h : Nat)                                    -- next: next = head->m_freeListNext.load()
  | getCas (h : Nat) (nx : Option Nat)                   -- next: CAS( m_Head, head, next )
  | getSub2 (h : Nat)                                    -- next: head->m_freeListRefs.fetch_sub( 2 ); return head
  | getDec (h : Nat) (hd : Option Nat)                   -- next: prevHead->m_freeListRefs.fetch_sub( 1 ); hd = value seen
  | done (r : GRet)
deriving DecidableEq, Repr

structure St where
  head : Option Nat              -- m_Head
  refs : Nat → Nat               -- m_freeListRefs & c_RefsMask
  shouldBeOn : Nat → Bool        -- m_freeListRefs & c_ShouldBeOnFreeList
  next : Nat → Option Nat        -- m_freeListNext
  pc : Tid → PC
  owns : Tid → Nat → Bool        -- ghost

/-- Initially the list is empty, every node has `m_freeListRefs = 0` and `m_freeListNext = nullptr` (node
    constructor), and node `n` is owned by thread `own0 n`. -/
def init (own0 : Nat → Tid) : St :=
  ⟨none, fun _ => 0, fun _ => false, fun _ => none, fun _ => .idle, fun t n => decide (own0 n = t)⟩

/-! ### 32-bit arithmetic on the word (low 31 bits, top bit) -/

/-- `w + 0x80000000` -/
def wAddBit (c : Nat) (f : Bool) : Nat × Bool := (c, !f)
/-- `w + 0x7FFFFFFF` -/
def wAddBitM1 (c : Nat) (f : Bool) : Nat × Bool := if c = 0 then (2147483647, f) else (c - 1, !f)
/-- `w - 1` -/
def wSub1 (c : Nat) (f : Bool) : Nat × Bool := if c = 0 then (2147483647, !f) else (c - 1, f)
/-- `w - 2` -/
def wSub2 (c : Nat) (f : Bool) : Nat × Bool := if c < 2 then (c + 2147483646, !f) else (c - 2, f)

/-! ### Event rendering (the only place where events are built) -/

def ptr : Option Nat → String
  | none => "null"
  | some a => s!"n{a}"
def rloc (a : Nat) : String := s!"n{a}"
def nloc (a : Nat) : String := s!"n{a}.next"
def headLoc : String := "head"
/-- The 32-bit word in decimal. -/
def word (c : Nat) (f : Bool) : String := toString (c + (if f then 2147483648 else 0))

def evLdPtr (loc : String) (v : Option Nat) : Ev := ⟨"ld", loc, ptr v, ""⟩
def evStPtr (loc : String) (v : Option Nat) : Ev := ⟨"st", loc, ptr v, ""⟩
def evCasPtrOk (loc : String) (old new : Option Nat) : Ev := ⟨"cas+", loc, ptr old, ptr new⟩
def evCasPtrFail (loc : String) (seen expected : Option Nat) : Ev := ⟨"cas-", loc, ptr seen, ptr expected⟩
def evLdWord (a : Nat) (c : Nat) (f : Bool) : Ev := ⟨"ld", rloc a, word c f, ""⟩
def evStWord (a : Nat) (c : Nat) (f : Bool) : Ev := ⟨"st", rloc a, word c f, ""⟩
def evRmw (kind : String) (a : Nat) (c : Nat) (f : Bool) (arg : Nat) : Ev := ⟨kind, rloc a, word c f, toString arg⟩
def evCasWordOk (a : Nat) (c : Nat) (f : Bool) (c' : Nat) (f' : Bool) : Ev := ⟨"cas+", rloc a, word c f, word c' f'⟩
def evCasWordFail (a : Nat) (c : Nat) (f : Bool) (ce : Nat) (fe : Bool) : Ev := ⟨"cas-", rloc a, word c f, word ce fe⟩

/-! ### Transitions -/

/-- `put [t, n]` (enabled only if the calling thread owns node `n ≥ 1`; the ownership ends here) and `get [t]`.
    The first argument is the calling thread as written in the harness histories; it is not used. -/
def invoke (s : St) (t : Tid) (op : GOp) : Option St :=
  match s.pc t, op.name, op.args with
  | .idle, "put", [_, n] =>
    if 0 < n ∧ s.owns t n.toNat = true then
      some { s with owns := upd2 s.owns t n.toNat false, pc := upd s.pc t (.putAdd n.toNat) }
    else none
  | .idle, "get", [_] => some { s with pc := upd s.pc t .getLd }
  | _, _, _ => none

/-- The loop test of `get`, `while ( head != nullptr )`, with `head = hd`. -/
def getLoop (hd : Option Nat) : PC :=
  match hd with
  | none => .done [0]
  | some h => .getRefs h

/-- Where control goes when `add_knowing_refcount_is_zero` returns. -/
def contPC (k : Cont) : PC :=
  match k with
  | .put => .done [1]
  | .get hd => getLoop hd

def step (s : St) (t : Tid) : Option (St × Ev) :=
  match s.pc t with
  | .putAdd n =>
    let c := s.refs n
    let f := s.shouldBeOn n
    let w := wAddBit c f
    -- `fetch_add` returns the OLD word; `== 0` means: count 0 and bit clear
    some ({ s with refs := upd s.refs n w.1, shouldBeOn := upd s.shouldBeOn n w.2,
                   pc := upd s.pc t (if c = 0 ∧ f = false then .addLd n .put else .done [1]) },
          evRmw "add" n c f 2147483648)
  | .addLd n k => some ({ s with pc := upd s.pc t (.addStNext n s.head k) }, evLdPtr headLoc s.head)
  | .addStNext n hd k =>
    some ({ s with next := upd s.next n hd, pc := upd s.pc t (.addStRefs n hd k) }, evStPtr (nloc n) hd)
  | .addStRefs n hd k =>
    some ({ s with refs := upd s.refs n 1, shouldBeOn := upd s.shouldBeOn n false, pc := upd s.pc t (.addCas n hd k) },
          evStWord n 1 false)
  | .addCas n hd k =>
    if s.head = hd then
      some ({ s with head := some n, pc := upd s.pc t (contPC k) }, evCasPtrOk headLoc hd (some n))
    else
      some ({ s with pc := upd s.pc t (.addFix n s.head k) }, evCasPtrFail headLoc s.head hd)
  | .addFix n hd k =>
    let c := s.refs n
    let f := s.shouldBeOn n
    let w := wAddBitM1 c f
    -- `fetch_add` returns the OLD word; `== 1` means: count 1 and bit clear
    some ({ s with refs := upd s.refs n w.1, shouldBeOn := upd s.shouldBeOn n w.2,
                   pc := upd s.pc t (if c = 1 ∧ f = false then .addStNext n hd k else contPC k) },
          evRmw "add" n c f 2147483647)
  | .getLd => some ({ s with pc := upd s.pc t (getLoop s.head) }, evLdPtr headLoc s.head)
  | .getRefs h =>
    let c := s.refs h
    let f := s.shouldBeOn h
    some ({ s with pc := upd s.pc t (if c = 0 then .getLd else .getInc h c f) }, evLdWord h c f)
  | .getInc h c f =>
    if s.refs h = c ∧ s.shouldBeOn h = f then
      some ({ s with refs := upd s.refs h (c + 1), pc := upd s.pc t (.getNext h) }, evCasWordOk h c f (c + 1) f)
    else
      some ({ s with pc := upd s.pc t .getLd }, evCasWordFail h (s.refs h) (s.shouldBeOn h) c f)
  | .getNext h => some ({ s with pc := upd s.pc t (.getCas h (s.next h)) }, evLdPtr (nloc h) (s.next h))
  | .getCas h nx =>
    if s.head = some h then
      some ({ s with head := nx, pc := upd s.pc t (.getSub2 h) }, evCasPtrOk headLoc (some h) nx)
    else
      some ({ s with pc := upd s.pc t (.getDec h s.head) }, evCasPtrFail headLoc s.head (some h))
  | .getSub2 h =>
    let c := s.refs h
    let f := s.shouldBeOn h
    let w := wSub2 c f
    some ({ s with refs := upd s.refs h w.1, shouldBeOn := upd s.shouldBeOn h w.2,
                   owns := upd2 s.owns t h true, pc := upd s.pc t (.done [1, h]) },
          evRmw "sub" h c f 2)
  | .getDec h hd =>
    let c := s.refs h
    let f := s.shouldBeOn h
    let w := wSub1 c f
    -- `fetch_sub` returns the OLD word; `== c_ShouldBeOnFreeList + 1` means: count 1 and bit set
    some ({ s with refs := upd s.refs h w.1, shouldBeOn := upd s.shouldBeOn h w.2,
                   pc := upd s.pc t (if c = 1 ∧ f = true then .addLd h (.get hd) else getLoop hd) },
          evRmw "sub" h c f 1)
  | _ => none

def result (s : St) (t : Tid) : Option (St × GRet) :=
  match s.pc t with
  | .done r => some ({ s with pc := upd s.pc t .idle }, r)
  | _ => none

def model : Model St := ⟨invoke, step, result⟩

/-- The trace lines of a run, as the harness prints them (`T <tid> A <event>` for atomic events). -/
def render (os : List (Tid × Obs)) : List String :=
  os.map fun (t, o) => match o with
    | .call op => s!"T {t} C {op.name} {op.args}"
    | .ev e => s!"T {t} A {e}"
    | .ret r => s!"T {t} R {r}"

/-! ### Initial state for trace replay

The header comment of a case carries `own=<n>:<t>,…` (nodes a scheduled thread holds when the program starts; every
other node belongs to the main thread, tid 90) and `init=<n>,<n>,…` (the untraced `put`s the main thread performs
before the program starts, in order).  The initial puts are executed here by the machine itself, so the start state
of the replay is a state of a run of the machine from `init own0`. -/

def cfgWord (key : String) (cfg : List String) : Option String :=
  cfg.findSome? (fun w => if w.startsWith (key ++ "=") then some (w.drop (key.length + 1)).toString else none)

def parseOwn (s : String) : List (Nat × Nat) :=
  (s.splitOn ",").filterMap fun w => match w.splitOn ":" with
    | [a, b] => match a.toNat?, b.toNat? with
      | some n, some t => some (n, t)
      | _, _ => none
    | _ => none

def runOp (s : St) (t : Tid) (op : GOp) : St :=
  match invoke s t op with
  | none => s
  | some s1 =>
    let rec go (fuel : Nat) (s : St) : St :=
      match fuel with
      | 0 => s
      | fuel + 1 => match step s t with
        | some (s', _) => go fuel s'
        | none => s
    match result (go 16 s1) t with
    | some (s2, _) => s2
    | none => s1

def initCfg (cfg : List String) : St :=
  let own := parseOwn ((cfgWord "own" cfg).getD "")
  let own0 : Nat → Tid := fun n => match own.find? (·.1 == n) with
    | some (_, t) => t
    | none => 90
  let puts := (((cfgWord "init" cfg).getD "").splitOn ",").filterMap (·.toNat?)
  puts.foldl (fun s n => runOp s 90 ⟨"put", [90, (n : Int)]⟩) (init own0)

end CdsVerif.Algo.FreeList

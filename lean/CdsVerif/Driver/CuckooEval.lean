/-
  Driver side of the differential tie between the sequential CuckooSet model (Algo/Cuckoo/Model.lean) and the real
  container (harness/pure/resize.cpp, mode `layout`; tools/cuckoo_tie.py).  One input line = one configuration and
  its operations, exactly what the harness prints to the left of ` ->`:

      cuckoo_list|cuckoo_vector h=<f1>,<f2> init=<n> pset=<n> thr=<n> keyspace=<n> ops i<k> e<k> …

  One output line = what the harness prints to the right of ` ->`: for every operation its result (0/1) and the
  layout token `L<bucket count>/<size()>/<table 0>/<table 1>` (a table: `-` or its non-empty probe sets
  `<index>:<key>,<key>…` joined by `;`), and the harness's own verdict tokens against a reference set
  (`X result-differs-at-op-<i>`, `X key-<q>-lost-fullsets|-lost-withroom|-phantom-after-op-<i>`,
  `X size-<n>-expected-<m>`), after which the line ends; `X table-limit` when insert() asks for a bucket table of more
  than `tableLimit` probe sets (the harness's allocator refuses it: that is how "insert() keeps doubling its tables", the
  known finding C17-cuckoo-endless-resize, ends on both sides; the model's fuel is the number of doublings that fit).  A configuration whose
  threshold is not below the effective probe-set size (`cuckoo_vector`: 4, whatever `pset` says) is outside the
  constructor's precondition: `skip threshold-not-below-probeset-size`, as the harness prints it.

  The functions evaluated are `insertLoop`, `erase`, `contains`, `size` of Algo/Cuckoo/Model.lean themselves.
-/
import CdsVerif.Algo.Cuckoo.Model
import CdsVerif.Driver.LinCheck
namespace CdsVerif.Driver
open CdsVerif.Algo.Cuckoo

/-- `g_table_limit` of the harness: a bucket table of more probe sets is refused -/
def tableLimit : Nat := 65536

/-- number of doublings of `cap` that stay within `tableLimit` -/
def doublingsLeft : Nat → Nat → Nat
  | 0, _ => 0
  | f + 1, cap => if 2 * cap ≤ tableLimit then doublingsLeft f (2 * cap) + 1 else 0

/-- the loop of insert() may run `doublingsLeft` resizes; one more iteration, or a final state above the limit (the
    resize after a failed relocate), is the refused allocation -/
def insertLimited (c : Cfg) (s : St) (k : Int) : Option (St × Bool) :=
  match insertLoop c (doublingsLeft 64 s.cap + 1) s k with
  | some (s', r, _) => if s'.cap ≤ tableLimit then some (s', r) else none
  | none => none

def renderTable (t : Table) : String :=
  let parts := (t.zipIdx).filterMap (fun (bk, i) =>
    if bk.isEmpty then none else some (s!"{i}:" ++ ",".intercalate (bk.map toString)))
  if parts.isEmpty then "-" else ";".intercalate parts

def renderLayout (s : St) : String :=
  s!"L{s.cap}/{size s}/{renderTable s.t0}/{renderTable s.t1}"

def kvOf (w pre : String) : Option String :=
  if w.startsWith pre then some (w.drop pre.length).toString else none

def parseCuckooOp (w : String) : Option (Bool × Int) :=
  match w.toList with
  | 'i' :: rest => (String.ofList rest).toInt?.map (fun k => (true, k))
  | 'e' :: rest => (String.ofList rest).toInt?.map (fun k => (false, k))
  | _ => none

/-- how the harness classifies a lost key: `-withroom` when one of its probe sets is below the probe-set size -/
def classifyLoss (c : Cfg) (s : St) (q : Int) : String :=
  if (s.bucketOf c false q).length < c.pset ∨ (s.bucketOf c true q).length < c.pset then "-withroom" else "-fullsets"

/-- the first key of `0 .. keyspace-1` on which the set and the reference disagree -/
def firstDiff (c : Cfg) (s : St) (ref : List Int) (keyspace : Nat) : Option (Int × Bool) :=
  ((List.range keyspace).map Int.ofNat).findSome? (fun q =>
    let inRef := ref.contains q
    if contains c s q != inRef then some (q, inRef) else none)

partial def runCuckoo (c : Cfg) (keyspace : Nat) (s : St) (ref : List Int) (i : Nat) (ops : List (Bool × Int))
    (acc : Array String) : Array String :=
  match ops with
  | [] => acc
  | (ins, k) :: rest =>
    let step : Option (St × Bool) :=
      if ins then insertLimited c s k else some (erase c s k)
    match step with
    | none => acc.push "X table-limit"
    | some (s', r) =>
      let e := if ins then !ref.contains k else ref.contains k
      let ref' := if ins then (if ref.contains k then ref else k :: ref) else ref.erase k
      let acc := (acc.push (if r then "1" else "0")).push (renderLayout s')
      if r != e then acc.push s!"X result-differs-at-op-{i}"
      else
        match firstDiff c s' ref' keyspace with
        | some (q, inRef) =>
          acc.push (s!"X key-{q}" ++ (if inRef then "-lost" ++ classifyLoss c s' q else "-phantom") ++ s!"-after-op-{i}")
        | none =>
          if size s' != ref'.length then acc.push s!"X size-{size s'}-expected-{ref'.length}"
          else runCuckoo c keyspace s' ref' (i + 1) rest acc

def cuckooEvalLine (line : String) : String :=
  match words line with
  | name :: h :: init :: pset :: thr :: ks :: "ops" :: ops =>
    let r : Option String := do
      let hs ← kvOf h "h="
      let (f1, f2) ← match hs.splitOn "," with
        | [a, b] => do pure ((← a.toNat?), (← b.toNat?))
        | _ => none
      let init ← (← kvOf init "init=").toNat?
      let pset ← (← kvOf pset "pset=").toNat?
      let thr ← (← kvOf thr "thr=").toNat?
      let ks ← (← kvOf ks "keyspace=").toNat?
      let ops ← ops.mapM parseCuckooOp
      let psetEff := if name == "cuckoo_vector" then 4 else pset
      let c := mkCfg f1 f2 psetEff thr
      if c.thr ≥ c.pset then pure "skip threshold-not-below-probeset-size"
      else pure (" ".intercalate (runCuckoo c ks (initSt init) [] 0 ops #[]).toList)
    r.getD "bad-line"
  | _ => "bad-line"

partial def cuckooEvalLoop (h : IO.FS.Stream) : IO Unit := do
  let line ← h.getLine
  if line.isEmpty then return ()
  if (words line).isEmpty then cuckooEvalLoop h
  else
    IO.println (cuckooEvalLine line)
    cuckooEvalLoop h

end CdsVerif.Driver

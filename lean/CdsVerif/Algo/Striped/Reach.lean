/-
  The StripedSet invariant holds in every reachable state (for the library's `acquire`, i.e. `cfg.recheck = true`),
  and what it says in plain terms: lock discipline (A) and "no element is lost or duplicated" (B).
-/
import CdsVerif.Algo.Striped.StepA
import CdsVerif.Algo.Striped.StepZ
namespace CdsVerif.Algo.Striped
open CdsVerif.Machine CdsVerif.Spec

theorem sinv_step {cfg : Cfg} (hre : cfg.recheck = true) {s s' : St} {t : Tid} {ev : Ev} (h : SInv cfg s)
    (hs : step cfg s t = some (s', ev)) : SInv cfg s' := by
  cases hpc : s.pc t with
  | idle => simp [step, hpc] at hs
  | done r => simp [step, hpc] at hs
  | sLk op => exact sinv_step_sLk h hpc hs
  | sWait op => exact sinv_step_sWait h hpc hs
  | aOwn op => exact sinv_step_aOwn h hpc hs
  | aAccL op => exact sinv_step_aAccL h hpc hs
  | aAccW op => exact sinv_step_aAccW h hpc hs
  | aAccU op => exact sinv_step_aAccU h hpc hs
  | aLk op g => exact sinv_step_aLk h hre hpc (h.gl1 t op g hpc) hs
  | aWait op g => exact sinv_step_aWait h hpc hs
  | aChk op g c => exact sinv_step_aChk h hpc hs
  | aRel op g c => exact sinv_step_aRel h hpc hs
  | bMask op g c => exact sinv_step_bMask h hpc hs
  | bOp op g c b => exact sinv_step_bOp h hpc hs
  | bCnt r g c => exact sinv_step_bCnt h hpc hs
  | bPol r g c n => exact sinv_step_bPol h hpc hs
  | bUnl r g c rz dec => exact sinv_step_bUnl h hpc hs
  | eDec r => exact sinv_step_eDec h hpc hs
  | zOld r => exact sinv_step_zOld h hpc hs
  | zLk r old i => exact sinv_step_zLk h hpc hs
  | zWait r old i => exact sinv_step_zWait h hpc hs
  | zCas r old att => exact sinv_step_zCas h hpc hs
  | zTry r old g i => exact sinv_step_zTry h hpc hs
  | zTryU r old g i => exact sinv_step_zTryU h hpc hs
  | zChk r old => exact sinv_step_zChk h hpc hs
  | zCapSt r old => exact sinv_step_zCapSt h hpc hs
  | zInit r old i => exact sinv_step_zInit h hpc hs
  | zAccL r old => exact sinv_step_zAccL h hpc hs
  | zAccW r old => exact sinv_step_zAccW h hpc hs
  | zAccU r old => exact sinv_step_zAccU h hpc hs
  | zCnt r old => exact sinv_step_zCnt h hpc hs
  | zMask r old oc => exact sinv_step_zMask h hpc hs
  | zMove r n => exact sinv_step_zMove h hpc hs
  | zRelO r => exact sinv_step_zRelO h hpc hs
  | zUnl r i => exact sinv_step_zUnl h hpc hs

theorem sinv_apply {cfg : Cfg} (hre : cfg.recheck = true) {s s' : St} {t : Tid} {a : Act} {o : Obs} (h : SInv cfg s)
    (hap : (model cfg).apply s t a = some (s', o)) : SInv cfg s' := by
  cases a with
  | invoke op =>
    simp only [Model.apply, model, Option.map_eq_some_iff] at hap
    obtain ⟨s1, hs1, heq⟩ := hap
    simp only [Prod.mk.injEq] at heq
    obtain ⟨rfl, -⟩ := heq
    exact sinv_invoke h hs1
  | step =>
    simp only [Model.apply, model, Option.map_eq_some_iff] at hap
    obtain ⟨⟨s1, e⟩, hs1, heq⟩ := hap
    simp only [Prod.mk.injEq] at heq
    obtain ⟨rfl, -⟩ := heq
    exact sinv_step hre h hs1
  | ret =>
    simp only [Model.apply, model, Option.map_eq_some_iff] at hap
    obtain ⟨⟨s1, r⟩, hs1, heq⟩ := hap
    simp only [Prod.mk.injEq] at heq
    obtain ⟨rfl, -⟩ := heq
    exact sinv_result h hs1

theorem sinv_reachable {cfg : Cfg} (hre : cfg.recheck = true) {s : St} (hr : (model cfg).Reachable (init cfg) s) :
    SInv cfg s :=
  (model cfg).inv_reachable (SInv cfg) (init cfg) (sinv_init cfg)
    (fun _ _ _ _ _ h hap => sinv_apply hre h hap) s hr

/-! ### A. Lock discipline -/

/-- Thread `t` holds the lock of cell `c` of lock array `g`: it is between the acquisition and the release of that
    cell in an operation, in the sweep of `acquire_resize`, or (striping) in `lock_all` … `unlock_all`. -/
def Holds (cfg : Cfg) (s : St) (t : Tid) (g c : Nat) : Prop :=
  cellOf (s.pc t) = some (g, c) ∨
  (g = 0 ∧ ((∃ r old i, (s.pc t = .zLk r old i ∨ s.pc t = .zWait r old i) ∧ c < i) ∨
            (cfg.refinable = false ∧ excl (s.pc t) = true ∧ c < s.asz 0) ∨
            (∃ r i, s.pc t = .zUnl r i ∧ i ≤ c ∧ c < s.asz 0)))

theorem holds_holder {cfg : Cfg} {s : St} (h : SInv cfg s) {t : Tid} {g c : Nat} (hh : Holds cfg s t g c) :
    s.holder g c = some t ∧ s.lk g c = true := by
  have h1 : s.holder g c = some t := by
    rcases hh with hc | ⟨rfl, ⟨r, old, i, hpc | hpc, hci⟩ | ⟨hr, hex, hc⟩ | ⟨r, i, hpc, h1, h2⟩⟩
    · exact (h.hold t g c hc).1
    · exact (h.hlk t r old i hpc).2 c hci
    · exact (h.hwt t r old i hpc).2 c hci
    · exact h.hfull t hr hex c hc
    · exact (h.hunl t r i hpc).2 c h1 h2
  exact ⟨h1, h.l1 g c t h1⟩

/-- Per-cell mutual exclusion. -/
theorem lock_mutex {cfg : Cfg} {s : St} (h : SInv cfg s) {t1 t2 : Tid} {g c : Nat}
    (h1 : Holds cfg s t1 g c) (h2 : Holds cfg s t2 g c) : t1 = t2 := by
  have a := (holds_holder h h1).1
  have b := (holds_holder h h2).1
  rw [a] at b; injection b

/-- A thread performs its bucket operation on the bucket the CURRENT mask selects, while it holds the lock that
    CURRENTLY guards that bucket. -/
theorem bucket_access {cfg : Cfg} {s : St} (h : SInv cfg s) {t : Tid} {op : GOp} {g c b : Nat}
    (hpc : s.pc t = .bOp op g c b) :
    b = cfg.h (keyD op) % (s.mask + 1) ∧ Holds cfg s t g c ∧ s.lk g c = true ∧
    (cfg.refinable = false → g = 0 ∧ s.asz 0 = cfg.cap0 ∧ c = b % cfg.cap0) ∧
    (cfg.refinable = true → g = s.gen ∧ s.asz s.gen = s.mask + 1 ∧ c = b) := by
  have hb := h.bidx t op g c b hpc
  have hcell : cellOf (s.pc t) = some (g, c) := by simp [hpc, cellOf]
  have hin : inCell (s.pc t) = true := by simp [hpc, inCell]
  have hck := h.ckey t op g c (by simp [hpc, opCell])
  have hh : Holds cfg s t g c := Or.inl hcell
  refine ⟨hb, hh, (holds_holder h hh).2, ?_, ?_⟩
  · intro hr
    have hg : g = 0 := by
      have := (h.hold t g c hcell).2.1
      have := (h.str0 hr).1
      omega
    subst hg
    refine ⟨rfl, h.asz0, ?_⟩
    rw [hck, hb, h.asz0, mod_mod_dvd _ _ _ h.dvd]
  · intro hr
    have hg := h.cgen t g c hin hcell
    have hsz := h.rs_cell t hr hin
    refine ⟨hg, hsz, ?_⟩
    rw [hck, hb, hg, hsz]

/-- A resize runs alone: while a thread has the resize lock (all cell locks under `striping`; owner after the sweep
    under `refinable`) — in particular at the rehash step — no other thread is inside a cell section, it is the only such
    thread; under `striping` it holds every cell lock and so nobody else holds any; under `refinable` it is the owner. -/
theorem resize_exclusive {cfg : Cfg} {s : St} (h : SInv cfg s) {t' : Tid} (hex : excl (s.pc t') = true) :
    (∀ t, inCell (s.pc t) = false) ∧ (∀ t2, excl (s.pc t2) = true → t2 = t') ∧
    (cfg.refinable = false → (∀ c, c < cfg.cap0 → Holds cfg s t' 0 c) ∧ ∀ t g c, Holds cfg s t g c → t = t') ∧
    (cfg.refinable = true → s.owner = some t') := by
  refine ⟨?_, fun t2 h2 => h.exclu t2 t' h2 hex, ?_, fun hr => h.own2 t' hr (excl_own hex)⟩
  · intro t
    cases hi : inCell (s.pc t) with
    | false => rfl
    | true => exact absurd hi (fun hi => h.excl1 t t' hex hi)
  · intro hr
    have hall : ∀ c, c < cfg.cap0 → Holds cfg s t' 0 c := by
      intro c hc
      exact Or.inr ⟨rfl, Or.inr (Or.inl ⟨hr, hex, by rw [h.asz0]; exact hc⟩)⟩
    refine ⟨hall, ?_⟩
    intro t g c hh
    have hg0 := (h.str0 hr).1
    have h1 := (holds_holder h hh).1
    have hg : g = 0 := by have := h.fut g c t h1; omega
    subst hg
    have hc : c < cfg.cap0 := by
      rcases hh with hc | ⟨-, ⟨r, old, i, hpc | hpc, hci⟩ | ⟨-, -, hc⟩ | ⟨r, i, hpc, -, h2⟩⟩
      · have := (h.hold t 0 c hc).2.2; rw [h.asz0] at this; exact this
      · have := (h.hlk t r old i hpc).1; rw [h.asz0] at this; omega
      · have := (h.hwt t r old i hpc).1; rw [h.asz0] at this; omega
      · rw [h.asz0] at hc; exact hc
      · rw [h.asz0] at h2; exact h2
    exact lock_mutex h hh (hall c hc)

/-- The `m_access` section is entered by one thread at a time (it protects the plain shared_ptr `m_arrLocks`). -/
theorem access_mutex {cfg : Cfg} {s : St} (h : SInv cfg s) {t1 t2 : Tid}
    (h1 : accPC (s.pc t1) = true) (h2 : accPC (s.pc t2) = true) : t1 = t2 := by
  have a := h.acc2 t1 h1
  have b := h.acc2 t2 h2
  rw [a] at b; injection b

/-- refinable: a thread that has locked a cell and passed the re-check works with the CURRENT lock array, and that array
    has exactly one cell per bucket; the array cannot be replaced before the thread unlocks its cell. -/
theorem cell_array_current {cfg : Cfg} {s : St} (h : SInv cfg s) {t : Tid} {g c : Nat}
    (hin : inCell (s.pc t) = true) (hc : cellOf (s.pc t) = some (g, c)) :
    g = s.gen ∧ (cfg.refinable = true → s.asz s.gen = s.mask + 1) ∧ ∀ t', excl (s.pc t') = false := by
  refine ⟨h.cgen t g c hin hc, fun hr => h.rs_cell t hr hin, ?_⟩
  intro t'
  cases he : excl (s.pc t') with
  | false => rfl
  | true => exact absurd hin (fun hi => h.excl1 t t' he hi)

/-! ### B. No element is lost or duplicated -/

/-- the abstract map of a state: what a lookup of key `k` finds -/
def look (cfg : Cfg) (s : St) (k : Int) : Option Int := mfind (s.bkt (cfg.h k % (s.mask + 1))) k

/-- Only the bucket step and the rehash step change the table. -/
theorem table_frame {cfg : Cfg} {s s' : St} {t : Tid} {ev : Ev} (hs : step cfg s t = some (s', ev))
    (h1 : ∀ op g c b, s.pc t ≠ .bOp op g c b) (h2 : ∀ r old oc, s.pc t ≠ .zMask r old oc) :
    s'.bkt = s.bkt ∧ s'.mask = s.mask := by
  cases hpc : s.pc t
  all_goals (try (exact absurd hpc (h1 _ _ _ _)))
  all_goals (try (exact absurd hpc (h2 _ _ _)))
  all_goals (simp only [step, hpc] at hs)
  all_goals (try (simp at hs; done))
  all_goals (try split at hs)
  all_goals (simp at hs; obtain ⟨rfl, -⟩ := hs; exact ⟨rfl, rfl⟩)

/-- The rehash step: the mask doubles, every lookup finds what it found before, and every item occurs in its new
    bucket exactly as often as it occurred in its old bucket. -/
theorem rehash_step {cfg : Cfg} {s s' : St} {t : Tid} {ev : Ev} (h : SInv cfg s) {r : GRet} {old oc : Nat}
    (hpc : s.pc t = .zMask r old oc) (hs : step cfg s t = some (s', ev)) :
    s'.mask + 1 = 2 * (s.mask + 1) ∧ (∀ k, look cfg s' k = look cfg s k) ∧
    ∀ e : Int × Int, (s'.bkt (cfg.h e.1 % (s'.mask + 1))).count e = (s.bkt (cfg.h e.1 % (s.mask + 1))).count e := by
  simp only [step, hpc] at hs
  simp at hs; obtain ⟨rfl, -⟩ := hs
  have hold := h.oldm t old (by simp [hpc, oldOf])
  have hoc := h.oldc t r old oc hpc
  have hm1 : 2 * old - 1 + 1 = 2 * old := by omega
  have hpl := h.place
  rw [← hoc] at hpl
  have hocpos : 0 < oc := by omega
  have hnpos : 0 < 2 * old := by omega
  refine ⟨by dsimp only; omega, ?_, ?_⟩
  · intro k
    simp only [look, hm1]
    rw [rehash_find cfg.h oc (2 * old) s.bkt hpl hocpos hnpos k, hoc]
  · intro e
    simp only [hm1]
    rw [rehash_count cfg.h oc (2 * old) s.bkt hpl hocpos hnpos e, hoc]

end CdsVerif.Algo.Striped

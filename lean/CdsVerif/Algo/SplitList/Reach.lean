/-
  The split-list invariant holds in every reachable state; consequences (structure of the list and of the bucket
  table, growth, the abstract map computed).
-/
import CdsVerif.Algo.SplitList.StepInit
import CdsVerif.Algo.SplitList.StepCount
import CdsVerif.Algo.SplitList.StepSearch
import CdsVerif.Algo.SplitList.StepCas
namespace CdsVerif.Algo.SplitList
open CdsVerif.Machine CdsVerif.Spec CdsVerif.Lin
open CdsVerif.Algo.Michael (LPok isRO)

structure InvokeEff (c : Cfg) (s : St) (t : Tid) (op : GOp) (s' : St) (L : List Nat) : Prop where
  frame : ∀ t2, t2 ≠ t → s'.pc t2 = s.pc t2
  ops : ∀ t2, t2 ≠ t → opOf s'.uk s'.val (s.pc t2) = opOf s.uk s.val (s.pc t2)
  lps : ∀ t2, t2 ≠ t → lpRet c s'.so s'.uk s'.val (s.pc t2) = lpRet c s.so s.uk s.val (s.pc t2)
  was : s.pc t = .idle
  now : opOf s'.uk s'.val (s'.pc t) = some op ∧ lpRet c s'.so s'.uk s'.val (s'.pc t) = none
  abs : ∀ k v, Has s'.mark s'.uk s'.val L k v ↔ Has s.mark s.uk s.val L k v
  mark : s'.mark = s.mark
  next : s'.next = s.next
  table : s'.table = s.table
  cnt2 : s'.cnt2 = s.cnt2
  keys : ∀ a, Alloc (mem! s) a → s'.so a = s.so a ∧ s'.uk a = s.uk a ∧ s'.val a = s.val a

set_option maxHeartbeats 4000000 in
theorem sinvl_invoke {c : Cfg} {s s' : St} {t : Tid} {op : GOp} {L : List Nat}
    (h : SInvL c s L) (hs : invoke c s t op = some s') : SInvL c s' L ∧ InvokeEff c s t op s' L := by
  obtain ⟨name, args⟩ := op
  unfold invoke at hs
  split at hs
  next k v hpc hname hargs =>
    simp only [Option.some.injEq] at hs; subst hs
    dsimp only at hname hargs; subst hname hargs
    have hf : ¬ Alloc (mem! s) (2 * s.cnt + 1) := by unfold Alloc; dsimp only; omega
    have hfa : ∀ a, Alloc (mem! s) a → a ≠ 2 * s.cnt + 1 := fun a ha e => hf (e ▸ ha)
    have hfL : 2 * s.cnt + 1 ∉ L := fun hm => hf (h.g.alloc _ hm)
    have hun := h.g.unalloc _ hf
    have hso : ∀ a, a ≠ 2 * s.cnt + 1 → upd s.so (2 * s.cnt + 1) (c.reg (c.hash k)) a = s.so a := fun a e => upd_other _ _ _ _ e
    have huk : ∀ a, a ≠ 2 * s.cnt + 1 → upd s.uk (2 * s.cnt + 1) k a = s.uk a := fun a e => upd_other _ _ _ _ e
    have hvl : ∀ a, a ≠ 2 * s.cnt + 1 → upd s.val (2 * s.cnt + 1) v a = s.val a := fun a e => upd_other _ _ _ _ e
    have hal : ∀ a, Alloc ⟨s.next, s.mark, upd s.so (2 * s.cnt + 1) (c.reg (c.hash k)), upd s.uk (2 * s.cnt + 1) k,
        upd s.val (2 * s.cnt + 1) v, s.cnt + 1, s.acnt⟩ a ↔ (Alloc (mem! s) a ∨ a = 2 * s.cnt + 1) := by
      intro a; unfold Alloc; dsimp only; omega
    have hfresh : ∀ t2, pcTop (s.pc t2) ≠ some (.ins (2 * s.cnt + 1)) := fun t2 e => hf ((h.thr t2).item _ e).2.1
    have g' : GOk c ⟨s.next, s.mark, upd s.so (2 * s.cnt + 1) (c.reg (c.hash k)), upd s.uk (2 * s.cnt + 1) k,
        upd s.val (2 * s.cnt + 1) v, s.cnt + 1, s.acnt⟩ s.table s.cnt2 L :=
      h.g.allocNode hf rfl rfl hso huk hal (by intro _; dsimp only; rw [upd_same, upd_same]) (by intro e; omega)
    have thr' : ∀ t2, TOk c ⟨s.next, s.mark, upd s.so (2 * s.cnt + 1) (c.reg (c.hash k)), upd s.uk (2 * s.cnt + 1) k,
        upd s.val (2 * s.cnt + 1) v, s.cnt + 1, s.acnt⟩ L (s.pc t2) :=
      fun t2 => (h.thr t2).allocNode h.g hf rfl rfl hso huk (fun a ha => (hal a).mpr (Or.inl ha))
    refine ⟨⟨g', forall_upd (P := TOk c _ L) (fun t2 _ => thr' t2) ?tok, h.own.upd t _ ?oi ?od ?oe⟩, ?eff⟩
    case tok =>
      have hself := (hal (2 * s.cnt + 1)).mpr (Or.inr rfl)
      tok_close
    case oi => own_close
    case od => own_close
    case oe => own_close
    case eff =>
      have hhas := has_congr_L (mark := s.mark) (uk := s.uk) (uk' := upd s.uk (2 * s.cnt + 1) k) (val := s.val)
        (val' := upd s.val (2 * s.cnt + 1) v) (L := L)
        (fun a ha => ⟨huk a (hfa a (h.g.alloc a ha)), hvl a (hfa a (h.g.alloc a ha))⟩)
      constructor <;> intros <;> (try dsimp only at *)
      · grind [upd]
      · rename_i t2 ht2
        exact opOf_congr (fun a ha => by
          have := hfa a ((h.thr t2).refs_alloc h.g ha); exact ⟨huk a this, hvl a this⟩)
      · rename_i t2 ht2
        exact lpRet_congr (fun a ha => by
          have := hfa a ((h.thr t2).refs_alloc h.g ha); exact ⟨hso a this, huk a this, hvl a this⟩)
      · exact hpc
      · simp [upd, opOf, lpRet, gop]
      · exact hhas _ _
      · rename_i a ha
        have := hfa a ha
        exact ⟨hso a this, huk a this, hvl a this⟩
  next k hpc hname hargs =>
    simp only [Option.some.injEq] at hs; subst hs
    dsimp only at hname hargs; subst hname hargs
    refine ⟨⟨h.g, forall_upd (P := TOk c (mem! s) L) (fun t2 _ => h.thr t2) ?tok, h.own.upd t _ ?oi ?od ?oe⟩, ?eff⟩
    case tok => tok_close
    case oi => own_close
    case od => own_close
    case oe => own_close
    case eff => constructor <;> intros <;> (try dsimp only at *) <;> grind [upd, opOf, lpRet, gop]
  next k hpc hname hargs =>
    simp only [Option.some.injEq] at hs; subst hs
    dsimp only at hname hargs; subst hname hargs
    refine ⟨⟨h.g, forall_upd (P := TOk c (mem! s) L) (fun t2 _ => h.thr t2) ?tok, h.own.upd t _ ?oi ?od ?oe⟩, ?eff⟩
    case tok => tok_close
    case oi => own_close
    case od => own_close
    case oe => own_close
    case eff => constructor <;> intros <;> (try dsimp only at *) <;> grind [upd, opOf, lpRet, gop]
  next k hpc hname hargs =>
    simp only [Option.some.injEq] at hs; subst hs
    dsimp only at hname hargs; subst hname hargs
    refine ⟨⟨h.g, forall_upd (P := TOk c (mem! s) L) (fun t2 _ => h.thr t2) ?tok, h.own.upd t _ ?oi ?od ?oe⟩, ?eff⟩
    case tok => tok_close
    case oi => own_close
    case od => own_close
    case oe => own_close
    case eff => constructor <;> intros <;> (try dsimp only at *) <;> grind [upd, opOf, lpRet, gop]
  next => simp at hs

theorem sinvl_result {c : Cfg} {s s' : St} {t : Tid} {r : GRet} {L : List Nat}
    (h : SInvL c s L) (hs : result s t = some (s', r)) :
    SInvL c s' L ∧ s.pc t = .done r ∧ s'.pc t = .idle ∧ (∀ t2, t2 ≠ t → s'.pc t2 = s.pc t2) ∧
      s'.so = s.so ∧ s'.uk = s.uk ∧ s'.val = s.val ∧ s'.mark = s.mark ∧ s'.next = s.next ∧ s'.table = s.table ∧
      s'.cnt2 = s.cnt2 := by
  unfold result at hs
  split at hs
  next r' hpc =>
    simp only [Option.some.injEq, Prod.mk.injEq] at hs; obtain ⟨rfl, rfl⟩ := hs
    refine ⟨⟨h.g, forall_upd (P := TOk c (mem! s) L) (fun t2 _ => h.thr t2) (tok_idle _ _ _), h.own.upd t _ ?oi ?od ?oe⟩,
      hpc, by simp [upd], fun t2 h2 => by simp [upd, h2], rfl, rfl, rfl, rfl, rfl, rfl, rfl⟩
    case oi => own_close
    case od => own_close
    case oe => own_close
  next => simp at hs

theorem sinvl_step {c : Cfg} (hc : SOHyp c) {s s' : St} {t : Tid} {ev : Ev} {L : List Nat}
    (h : SInvL c s L) (hs : step c s t = some (s', ev)) : ∃ L', SInvL c s' L' ∧ StepEff c s t s' L L' := by
  cases hpc : s.pc t with
  | idle => simp [step, hpc] at hs
  | done r => simp [step, hpc] at hs
  | gCnt o => exact sinvl_step_gCnt h hpc hs
  | gTab o b => exact sinvl_step_gTab hc h hpc hs
  | iPar o stk =>
    cases stk with
    | nil => simp [step, hpc] at hs
    | cons b rest => exact sinvl_step_iPar h hpc hs
  | iBkt o stk pp =>
    cases stk with
    | nil => simp [step, hpc] at hs
    | cons b rest => exact sinvl_step_iBkt hc h hpc hs
  | iAl1 o stk pp => exact sinvl_step_iAl1 h hpc hs
  | iAl2 o stk pp =>
    cases stk with
    | nil => simp [step, hpc] at hs
    | cons b rest => exact sinvl_step_iAl2 hc h hpc hs
  | iPub o stk m =>
    cases stk with
    | nil => simp [step, hpc] at hs
    | cons b rest => exact sinvl_step_iPub hc h hpc hs
  | iWait o stk =>
    cases stk with
    | nil => simp [step, hpc] at hs
    | cons b rest => exact sinvl_step_iWait hc h hpc hs
  | sHd1 w d => exact sinvl_step_sHd1 h hpc hs
  | sHd2 w d nx mk => exact sinvl_step_sHd2 h hpc hs
  | sNx1 w d p x => exact sinvl_step_sNx1 h hpc hs
  | sNx2 w d p x nx mk => exact sinvl_step_sNx2 hc h hpc hs
  | sChk w d p x nx mk => exact sinvl_step_sChk h hpc hs
  | sHelp w d p x nx => exact sinvl_step_sHelp h hpc hs
  | iSt w d p x => exact sinvl_step_iSt h hpc hs
  | iCas w d p x => exact sinvl_step_iCas h hpc hs
  | iClr w d => exact sinvl_step_iClr h hpc hs
  | eMark k d p x nx => exact sinvl_step_eMark hc h hpc hs
  | eUnl k p x nx => exact sinvl_step_eUnl h hpc hs
  | cLd1 => exact sinvl_step_cLd1 h hpc hs
  | cAdd mx => exact sinvl_step_cAdd h hpc hs
  | cCnt mx => exact sinvl_step_cCnt hc h hpc hs
  | cMax mx sz => exact sinvl_step_cMax h hpc hs
  | cGrow sz => exact sinvl_step_cGrow h hpc hs
  | cSat => exact sinvl_step_cSat h hpc hs
  | cSub v => exact sinvl_step_cSub h hpc hs

theorem sinv_apply {c : Cfg} (hc : SOHyp c) {s s' : St} {t : Tid} {a : Act} {o : Obs} (h : SInv c s)
    (hap : (model c).apply s t a = some (s', o)) : SInv c s' := by
  obtain ⟨L, hl⟩ := h
  cases a with
  | invoke op =>
    simp only [Model.apply, model, Option.map_eq_some_iff] at hap
    obtain ⟨s1, hs1, heq⟩ := hap
    simp only [Prod.mk.injEq] at heq
    obtain ⟨rfl, -⟩ := heq
    exact ⟨L, (sinvl_invoke hl hs1).1⟩
  | step =>
    simp only [Model.apply, model, Option.map_eq_some_iff] at hap
    obtain ⟨⟨s1, e⟩, hs1, heq⟩ := hap
    simp only [Prod.mk.injEq] at heq
    obtain ⟨rfl, -⟩ := heq
    obtain ⟨L', hl', -⟩ := sinvl_step hc hl hs1
    exact ⟨L', hl'⟩
  | ret =>
    simp only [Model.apply, model, Option.map_eq_some_iff] at hap
    obtain ⟨⟨s1, r⟩, hs1, heq⟩ := hap
    simp only [Prod.mk.injEq] at heq
    obtain ⟨rfl, -⟩ := heq
    exact ⟨L, (sinvl_result hl hs1).1⟩

theorem sinv_reachable {c : Cfg} (hc : SOHyp c) (s : St) (h : (model c).Reachable (init c) s) : SInv c s :=
  (model c).inv_reachable (SInv c) (init c) ⟨[0], sinv_init c hc⟩ (fun _ _ _ _ _ hi hap => sinv_apply hc hi hap) s h

/-! ### Every action: what happens to marked nodes, to linked nodes, to keys and to the bucket table -/

structure ApplyEff (s s' : St) (L L' : List Nat) : Prop where
  frz : ∀ a, s.mark a = true → s'.mark a = true ∧ s'.next a = s.next a
  mono : ∀ a, (a ∈ L ∨ s.mark a = true) → (a ∈ L' ∨ s'.mark a = true)
  keys : ∀ a, Alloc (mem! s) a → s'.so a = s.so a ∧ s'.uk a = s.uk a ∧ s'.val a = s.val a
  tabmono : ∀ b d, s.table b = some d → s'.table b = some d

theorem sinvl_apply {c : Cfg} (hc : SOHyp c) {s s' : St} {t : Tid} {a : Act} {o : Obs} {L : List Nat} (hl : SInvL c s L)
    (hap : (model c).apply s t a = some (s', o)) : ∃ L', SInvL c s' L' ∧ ApplyEff s s' L L' := by
  cases a with
  | invoke op =>
    simp only [Model.apply, model, Option.map_eq_some_iff] at hap
    obtain ⟨s1, hs1, heq⟩ := hap
    simp only [Prod.mk.injEq] at heq
    obtain ⟨rfl, -⟩ := heq
    obtain ⟨h1, h2⟩ := sinvl_invoke hl hs1
    exact ⟨L, h1, ⟨fun a ha => by rw [h2.mark, h2.next]; exact ⟨ha, rfl⟩, fun a ha => by rw [h2.mark]; exact ha,
      h2.keys, fun b d hd => by rw [h2.table]; exact hd⟩⟩
  | step =>
    simp only [Model.apply, model, Option.map_eq_some_iff] at hap
    obtain ⟨⟨s1, e⟩, hs1, heq⟩ := hap
    simp only [Prod.mk.injEq] at heq
    obtain ⟨rfl, -⟩ := heq
    obtain ⟨L', hl', he⟩ := sinvl_step hc hl hs1
    exact ⟨L', hl', ⟨he.frz, he.mono, he.keys, he.tabmono⟩⟩
  | ret =>
    simp only [Model.apply, model, Option.map_eq_some_iff] at hap
    obtain ⟨⟨s1, r⟩, hs1, heq⟩ := hap
    simp only [Prod.mk.injEq] at heq
    obtain ⟨rfl, -⟩ := heq
    obtain ⟨h1, -, -, -, h4, h5, h6, h7, h8, h9, -⟩ := sinvl_result hl hs1
    exact ⟨L, h1, ⟨fun a ha => by rw [h7, h8]; exact ⟨ha, rfl⟩, fun a ha => by rw [h7]; exact ha,
      fun a _ => by rw [h4, h5, h6]; exact ⟨rfl, rfl, rfl⟩, fun b d hd => by rw [h9]; exact hd⟩⟩

/-! ### The abstract state, computed -/

/-- All linked nodes (dummy nodes and items, marked or not), in list order; the first one is the dummy of bucket 0
    (fuel: the number of nodes ever allocated). -/
def absNodes (s : St) : List Nat := Michael.walk s.next (2 * (s.cnt + s.acnt) + 1) (some 0)

/-- The abstract map: the `(key, payload)` pairs of the unmarked linked ITEMS, in list (= split) order. -/
def absMap (s : St) : List (Int × Int) :=
  ((absNodes s).filter (fun a => a % 2 == 1 && !s.mark a)).map (fun a => (s.uk a, s.val a))

theorem SInvL.absNodes_eq {c : Cfg} {s : St} {L : List Nat} (h : SInvL c s L) : absNodes s = L := by
  refine Michael.walk_of_chain h.g.chain (Michael.length_le_of_nodup_lt h.g.nodup (fun a ha => ?_))
  have := h.g.alloc a ha
  unfold Alloc at this; dsimp only at this; omega

theorem SInvL.has_iff {c : Cfg} {s : St} {L : List Nat} (h : SInvL c s L) (k v : Int) :
    Has s.mark s.uk s.val L k v ↔ (k, v) ∈ absMap s := by
  simp only [Has, absMap, h.absNodes_eq, List.mem_map, List.mem_filter, Prod.mk.injEq, Bool.and_eq_true, beq_iff_eq,
    Bool.not_eq_true']
  constructor
  · rintro ⟨a, ha, h0, h1, h2, h3⟩
    exact ⟨a, ⟨ha, h0, h1⟩, h2, h3⟩
  · rintro ⟨a, ⟨ha, h0, h1⟩, h2, h3⟩
    exact ⟨a, ha, h0, h1, h2, h3⟩

/-- No key is present twice. -/
theorem SInvL.absMap_nodup {c : Cfg} {s : St} {L : List Nat} (h : SInvL c s L) :
    (absMap s).Pairwise (fun p q => p.1 ≠ q.1) := by
  unfold absMap
  rw [List.pairwise_map, h.absNodes_eq]
  have hs : L.Pairwise (fun a b => (a % 2 == 1 && !s.mark a) = true → (b % 2 == 1 && !s.mark b) = true → s.uk a ≠ s.uk b) := by
    refine List.Pairwise.imp_of_mem ?_ h.g.sorted
    intro a b ha hb hab h1 h2 e
    simp only [Bool.and_eq_true, beq_iff_eq] at h1 h2
    have e1 := h.g.regso a h1.1 (h.g.alloc a ha)
    have e2 := h.g.regso b h2.1 (h.g.alloc b hb)
    dsimp only at e1 e2
    unfold KLt klt at hab
    dsimp only at hab
    rw [e1, e2, e] at hab
    omega
  exact (List.pairwise_filter.mpr (hs.imp (fun hab h1 h2 => hab h1 h2)))

theorem mfind_iff_mem : ∀ {m : MapSt}, m.Pairwise (fun p q => p.1 ≠ q.1) → ∀ k v, mfind m k = some v ↔ (k, v) ∈ m
  | [], _, k, v => by simp [mfind]
  | (k1, v1) :: m, hpw, k, v => by
    have hpw' := List.pairwise_cons.mp hpw
    rw [Michael.mfind_cons, List.mem_cons]
    by_cases e : k = k1
    · subst e
      simp only [if_true, Option.some.injEq, Prod.mk.injEq, true_and]
      constructor
      · intro h; exact Or.inl h.symm
      · rintro (h | h)
        · exact h.symm
        · exact absurd rfl (hpw'.1 (k, v) h)
    · simp only [e, if_false, Prod.mk.injEq, false_and, false_or]
      exact mfind_iff_mem hpw'.2 k v

theorem SInvL.mfind_absMap {c : Cfg} {s : St} {L : List Nat} (h : SInvL c s L) (k v : Int) :
    mfind (absMap s) k = some v ↔ Has s.mark s.uk s.val L k v := by
  rw [h.has_iff]
  exact mfind_iff_mem h.absMap_nodup k v

/-- In a sorted duplicate-free list, a node that sorts before another one precedes it. -/
theorem sorted_before {so : Nat → Nat} {uk : Nat → Int} : ∀ {L : List Nat}, L.Pairwise (KLt so uk) → ∀ d a, d ∈ L → a ∈ L →
    KLt so uk d a → ∃ l1 l2, L = l1 ++ d :: l2 ∧ a ∈ l2
  | [], _, _, _, hd, _, _ => by simp at hd
  | x :: L, hs, d, a, hd, ha, hlt => by
    have hs' := List.pairwise_cons.mp hs
    rcases List.mem_cons.mp hd with e | hdL
    · subst e
      rcases List.mem_cons.mp ha with e2 | haL
      · subst e2; exact absurd hlt (KLt.irrefl _)
      · exact ⟨[], L, rfl, haL⟩
    · rcases List.mem_cons.mp ha with e2 | haL
      · subst e2
        exact absurd (KLt.trans _ _ _ (hs'.1 d hdL) hlt) (KLt.irrefl _)
      · obtain ⟨l1, l2, e, h2⟩ := sorted_before hs'.2 d a hdL haL hlt
        exact ⟨x :: l1, l2, by rw [e]; rfl, h2⟩

/-! ### Reachable states -/

/-- (1a) In every reachable state: following the pointers from the dummy of bucket 0 visits the finite list `absNodes`
    and ends in null; all visited nodes — dummy nodes and items, marked or not — are strictly sorted by
    ( split-order hash, user key ), hence pairwise different; dummy nodes are never marked (never erased) and carry an
    even split-order key, items carry `regular_hash( hash( key ))`. -/
theorem reachable_structure {c : Cfg} (hc : SOHyp c) (s : St) (h : (model c).Reachable (init c) s) :
    Michael.Chain s.next (some 0) (absNodes s) ∧ (absNodes s).Pairwise (KLt s.so s.uk) ∧ (absNodes s).Nodup ∧
      (∀ a, a % 2 = 0 → s.mark a = false) ∧
      (∀ a, a ∈ absNodes s → (a % 2 = 0 → s.so a % 2 = 0) ∧ (a % 2 = 1 → s.so a = c.reg (c.hash (s.uk a)))) := by
  obtain ⟨L, hl⟩ := sinv_reachable hc s h
  rw [hl.absNodes_eq]
  refine ⟨hl.g.chain, hl.g.sorted, hl.g.nodup, hl.g.dmark, fun a ha => ⟨fun e => ?_, fun e => ?_⟩⟩
  · exact hl.g.dumso a e (hl.g.alloc a ha)
  · exact hl.g.regso a e (hl.g.alloc a ha)

/-- (1b) Every published bucket pointer points to a linked, unmarked dummy node that carries the dummy key of that
    bucket; bucket 0 is always published. -/
theorem reachable_table {c : Cfg} (hc : SOHyp c) (s : St) (h : (model c).Reachable (init c) s) :
    s.table 0 = some 0 ∧ s.cnt2 ≤ c.maxLog ∧
    ∀ b d, s.table b = some d → d ∈ absNodes s ∧ d % 2 = 0 ∧ s.mark d = false ∧ s.so d = c.dum b ∧ s.uk d = 0 := by
  obtain ⟨L, hl⟩ := sinv_reachable hc s h
  rw [hl.absNodes_eq]
  refine ⟨hl.g.tab0, hl.g.cntb, fun b d hd => ?_⟩
  have := hl.g.tab b d hd
  exact ⟨this.1, this.2.1, hl.g.dmark d this.2.1, this.2.2⟩

/-- (1c) / (3b) A bucket's dummy precedes every key of the bucket — for EVERY table size: if the pointer of bucket `b` is
    published and the item `a` is linked with `hash( key a ) mod 2^j = b` for some `j ≤ maxLog`, then the dummy sorts
    before `a` and `a` is on the part of the list behind the dummy.  In particular a child bucket initialised lazily
    after a growth sees every key of its range that was inserted through the parent bucket. -/
theorem reachable_bucket_sees {c : Cfg} (hc : SOHyp c) (s : St) (h : (model c).Reachable (init c) s)
    (b d a j : Nat) (hb : s.table b = some d) (ha : a ∈ absNodes s) (hodd : a % 2 = 1) (hj : j ≤ c.maxLog)
    (hab : c.hash (s.uk a) % 2 ^ j = b) :
    KLt s.so s.uk d a ∧ ∃ l1 l2, absNodes s = l1 ++ d :: l2 ∧ a ∈ l2 := by
  obtain ⟨L, hl⟩ := sinv_reachable hc s h
  rw [hl.absNodes_eq] at ha ⊢
  have htab := hl.g.tab b d hb
  have hreg := hl.g.regso a hodd (hl.g.alloc a ha)
  dsimp only at htab hreg
  have hlt : KLt s.so s.uk d a := by
    unfold KLt klt
    left
    rw [htab.2.2.1, hreg]
    exact hc.dumReg _ _ ⟨j, hj, hab.symm⟩
  exact ⟨hlt, sorted_before hl.g.sorted d a htab.1 ha hlt⟩

/-- (1d) The dummy a MichaelList operation starts from is linked, unmarked, and sorts before the key searched for:
    the search from the dummy finds what a search from the head would. -/
theorem reachable_start {c : Cfg} (hc : SOHyp c) (s : St) (h : (model c).Reachable (init c) s) (t : Tid) (d : Nat)
    (hd : pcStart (s.pc t) = some d) :
    d ∈ absNodes s ∧ d % 2 = 0 ∧ s.mark d = false ∧
      klt (s.so d) (s.uk d) (skeyS c s.so (s.pc t)) (skeyU s.uk (s.pc t)) := by
  obtain ⟨L, hl⟩ := sinv_reachable hc s h
  rw [hl.absNodes_eq]
  have := (hl.thr t).start d hd
  exact ⟨this.1, this.2.1, hl.g.dmark d this.2.1, this.2.2⟩

/-- No key is present twice. -/
theorem reachable_no_duplicate_keys {c : Cfg} (hc : SOHyp c) (s : St) (h : (model c).Reachable (init c) s) :
    ((absMap s).map (·.1)).Nodup := by
  obtain ⟨L, hl⟩ := sinv_reachable hc s h
  rw [List.Nodup, List.pairwise_map]
  exact hl.absMap_nodup

/-- A marked (logically deleted) node is frozen; keys and payloads of allocated nodes never change; a published
    bucket pointer never changes. -/
theorem frozen_and_immutable {c : Cfg} (hc : SOHyp c) {s s' : St} {t : Tid} {a : Act} {o : Obs}
    (h : (model c).Reachable (init c) s) (hap : (model c).apply s t a = some (s', o)) :
    (∀ x, s.mark x = true → s'.mark x = true ∧ s'.next x = s.next x) ∧
    (∀ x, x ∈ absNodes s → s'.so x = s.so x ∧ s'.uk x = s.uk x ∧ s'.val x = s.val x) ∧
    (∀ b d, s.table b = some d → s'.table b = some d) ∧
    (∀ x, (x ∈ absNodes s ∨ s.mark x = true) → (x ∈ absNodes s' ∨ s'.mark x = true)) := by
  obtain ⟨L, hl⟩ := sinv_reachable hc s h
  obtain ⟨L', hl', he⟩ := sinvl_apply hc hl hap
  rw [hl.absNodes_eq, hl'.absNodes_eq]
  exact ⟨he.frz, fun x hx => he.keys x (hl.g.alloc x hx), he.tabmono, he.mono⟩

/-- (3a) Growth: the step that doubles the bucket count (the successful CAS on `m_nBucketCountLog2`) changes nothing
    else: the list, the marks, the bucket table and therefore the abstract map are untouched; it is performed by a
    thread that has already fixed its result `[1]` definitively (a successful insert) and keeps it, and no other
    thread's (tentative or definitive) result changes.  No other step changes the bucket count. -/
theorem growth_step {c : Cfg} (hc : SOHyp c) {s s' : St} {t : Tid} {ev : Ev} (h : (model c).Reachable (init c) s)
    (hs : step c s t = some (s', ev)) (hg : s'.cnt2 ≠ s.cnt2) :
    s'.cnt2 = s.cnt2 + 1 ∧ s'.next = s.next ∧ s'.mark = s.mark ∧ s'.table = s.table ∧ absNodes s' = absNodes s ∧
      absMap s' = absMap s ∧ postRet s.val (s.pc t) = some [1] ∧ postRet s'.val (s'.pc t) = some [1] ∧
      (∀ t2, t2 ≠ t → lpRet c s'.so s'.uk s'.val (s'.pc t2) = lpRet c s.so s.uk s.val (s.pc t2)) := by
  obtain ⟨L, hl⟩ := sinv_reachable hc s h
  obtain ⟨L', hl', he⟩ := sinvl_step hc hl hs
  obtain ⟨e1, e2, e3, e4, e5, e6, e7⟩ := he.grow hg
  have hn : absNodes s' = absNodes s := by rw [hl.absNodes_eq, hl'.absNodes_eq, e1]
  refine ⟨e5, e2, e3, e4, hn, ?_, e6, e7, ?_⟩
  · unfold absMap
    rw [hn, e3, hl.absNodes_eq]
    apply List.map_congr_left
    intro a ha
    have := he.keys a (hl.g.alloc a (List.mem_filter.mp ha).1)
    rw [this.2.1, this.2.2]
  · intro t2 ht
    rw [he.frame t2 ht, he.lps t2 ht]

/-- (3a') Publishing a bucket pointer (and, by `step_refines`, linking a dummy node) is not a linearization point of
    anything and leaves the list and the abstract map alone. -/
theorem publish_step {c : Cfg} (hc : SOHyp c) {s s' : St} {t : Tid} {ev : Ev} (h : (model c).Reachable (init c) s)
    (hs : step c s t = some (s', ev)) (b : Nat) (hb : s'.table b ≠ s.table b) :
    s'.next = s.next ∧ s'.mark = s.mark ∧ s'.cnt2 = s.cnt2 ∧ absNodes s' = absNodes s ∧
      lpRet c s.so s.uk s.val (s.pc t) = none ∧ lpRet c s'.so s'.uk s'.val (s'.pc t) = none ∧
      (∀ k v, (k, v) ∈ absMap s' ↔ (k, v) ∈ absMap s) := by
  obtain ⟨L, hl⟩ := sinv_reachable hc s h
  obtain ⟨L', hl', he⟩ := sinvl_step hc hl hs
  obtain ⟨e1, e2, e3, e4, e5, e6⟩ := he.publish b hb
  refine ⟨e2, e3, e4, by rw [hl.absNodes_eq, hl'.absNodes_eq, e1], e5, e6, fun k v => ?_⟩
  rw [← hl'.has_iff, ← hl.has_iff]
  exact he.nolp (Or.inr e6) k v

/-- Refinement on `absMap`: in a reachable state, the step at which thread `t` fixes its result `r` — tentatively
    for the hindsight points — is the `Spec.map` transition of `t`'s operation with result `r` from the abstract map
    before the step to (a representation of) the abstract map after the step; every other step — in particular
    every step of `get_bucket`, `init_bucket` and `inc_item_count` — leaves the abstract map unchanged. -/
theorem step_refines {c : Cfg} (hc : SOHyp c) {s s' : St} {t : Tid} {ev : Ev} (h : (model c).Reachable (init c) s)
    (hs : step c s t = some (s', ev)) :
    (lpRet c s.so s.uk s.val (s.pc t) = none → ∀ r, lpRet c s'.so s'.uk s'.val (s'.pc t) = some r →
      ∃ op m', opOf s.uk s.val (s.pc t) = some op ∧ Spec.map.next (absMap s) op r = some m' ∧
        ∀ k v, mfind m' k = some v ↔ (k, v) ∈ absMap s') ∧
    ((lpRet c s.so s.uk s.val (s.pc t) ≠ none ∨ lpRet c s'.so s'.uk s'.val (s'.pc t) = none) →
      ∀ k v, (k, v) ∈ absMap s' ↔ (k, v) ∈ absMap s) := by
  obtain ⟨L, hl⟩ := sinv_reachable hc s h
  obtain ⟨L', hl', he⟩ := sinvl_step hc hl hs
  constructor
  · intro h1 r h2
    obtain ⟨op, ho, hok⟩ := he.lp h1 r h2
    obtain ⟨m', hm1, hm2⟩ := hok (absMap s) hl.mfind_absMap
    exact ⟨op, m', ho, hm1, fun k v => (hm2 k v).trans (hl'.has_iff k v)⟩
  · intro hcnd k v
    rw [← hl'.has_iff, ← hl.has_iff]
    exact he.nolp hcnd k v

/-- A node is marked by exactly one `erase`, the one that returns success for it; only items are ever marked. -/
theorem erase_once {c : Cfg} (hc : SOHyp c) {s s' : St} {t : Tid} {ev : Ev} (h : (model c).Reachable (init c) s)
    (hs : step c s t = some (s', ev)) :
    (∀ a, s.mark a = false → s'.mark a = true →
      ∃ k d p x, s.pc t = .eMark k d p a x ∧ s'.pc t = .eUnl k p a x ∧ s.uk a = k ∧ a ∈ absNodes s ∧ a % 2 = 1 ∧
        postRet s'.val (s'.pc t) = some [1, s.val a]) ∧
    (∀ t1 t2 k1 p1 a x1 k2 p2 x2, s'.pc t1 = .eUnl k1 p1 a x1 → s'.pc t2 = .eUnl k2 p2 a x2 → t1 = t2) := by
  obtain ⟨L, hl⟩ := sinv_reachable hc s h
  obtain ⟨L', hl', he⟩ := sinvl_step hc hl hs
  refine ⟨?_, hl'.own.eunl⟩
  intro a h1 h2
  obtain ⟨k, d, p, x, e1, e2, e3, e4, e5⟩ := he.marks a h1 h2
  refine ⟨k, d, p, x, e1, e2, e3, by rw [hl.absNodes_eq]; exact e4, e5, ?_⟩
  rw [e2]; simp only [postRet]
  rw [(he.keys a (hl.g.alloc a e4)).2.2]

end CdsVerif.Algo.SplitList

/-
  An inductive weakening of "every level is ordered" that needs no reasoning about the unlink counter: in every reachable
  state EVERY tower word, on every level, of every item (linked or not) points forward in the key order, non-strictly:
  `next a l = some b → a = head ∨ key a ≤ key b`.  Consequently the walk of every level from the head is non-decreasing
  in the key.  (Strictness on the upper levels — no two items with the same key on one upper level — and the sub-list
  relation between levels need the top-down unlinking discipline of `m_nUnlink`; not proved.)
-/
import CdsVerif.Algo.SkipList.Lin
import CdsVerif.Algo.SkipList.Abs
namespace CdsVerif.Algo.SkipList
open CdsVerif.Machine CdsVerif.Spec CdsVerif.Lin

def KPP (key : Nat → Int) (K : Int) (pp : List Nat) : Prop := ∀ i, pp.getD i 0 = 0 ∨ key (pp.getD i 0) < K
def KPS (key : Nat → Int) (K : Int) (ps : List (Option Nat)) : Prop := ∀ i c, ps.getD i none = some c → K ≤ key c
def KL (key : Nat → Int) (K : Int) (pp : List Nat) (ps : List (Option Nat)) : Prop := KPP key K pp ∧ KPS key K ps

/-- The positions a thread has recorded bracket its key, on every level. -/
def KOk (key : Nat → Int) : PC → Prop
  | .idle => True
  | .fLd1 w _ _ _ pp ps => KL key (wkey key w) pp ps
  | .fLd2 w _ _ _ pp ps _ _ => KL key (wkey key w) pp ps
  | .fSucc w _ _ _ _ pp ps => KL key (wkey key w) pp ps
  | .fChk w _ _ _ _ _ _ pp ps => KL key (wkey key w) pp ps
  | .hUnl w _ _ _ pp ps => KL key (wkey key w) pp ps
  | .hLd1 w _ _ _ pp ps => KL key (wkey key w) pp ps
  | .hLd2 w _ _ _ pp ps _ _ => KL key (wkey key w) pp ps
  | .hCas w _ _ _ pp ps _ => KL key (wkey key w) pp ps
  | .hSub w _ pp ps => KL key (wkey key w) pp ps
  | .iClr n _ pp ps => KL key (key n) pp ps
  | .iSt0 n pp ps => KL key (key n) pp ps
  | .iCas0 n pp ps => KL key (key n) pp ps
  | .iUpA n _ _ pp ps => KL key (key n) pp ps
  | .iUpB n _ pp ps => KL key (key n) pp ps
  | .iSubFix n _ pp ps => KL key (key n) pp ps
  | .gHgt _ => True
  | .gCas _ _ => True
  | .eLd k _ _ pp ps => KL key k pp ps
  | .eMk k _ _ _ pp ps => KL key k pp ps
  | .e0Ld k _ pp ps => KL key k pp ps
  | .e0Mk k _ _ pp ps => KL key k pp ps
  | .eH1 k d _ pp ps => KL key k pp ps ∧ key d = k
  | .eH2 k d _ _ pp ps => KL key k pp ps ∧ key d = k
  | .eHSub k d _ pp ps => KL key k pp ps ∧ key d = k
  | .qHgt _ _ => True
  | .qLd1 _ _ _ _ => True
  | .qLd2 _ _ _ _ _ _ => True
  | .qChk _ _ => True
  | .done _ => True

theorem KL.set {key : Nat → Int} {K : Int} {pp : List Nat} {ps : List (Option Nat)} {lvl pred : Nat} {cur : Option Nat}
    (h : KL key K pp ps) (hp : pred = 0 ∨ key pred < K) (hc : ∀ x, cur = some x → K ≤ key x) :
    KL key K (pp.set lvl pred) (ps.set lvl cur) := by
  refine ⟨?_, ?_⟩
  · intro i
    rcases getD_set_cases pp lvl i pred 0 with e | e <;> rw [e]
    · exact hp
    · exact h.1 i
  · intro i x hx
    rcases getD_set_cases ps lvl i cur none with e | e <;> rw [e] at hx
    · exact hc x hx
    · exact h.2 i x hx

theorem KL.replicate (key : Nat → Int) (K : Int) (n : Nat) : KL key K (List.replicate n 0) (List.replicate n none) := by
  refine ⟨?_, ?_⟩
  · intro i; left
    simp only [List.getD_eq_getElem?_getD, List.getElem?_replicate]
    split <;> rfl
  · intro i x hx
    simp only [List.getD_eq_getElem?_getD, List.getElem?_replicate] at hx
    split at hx <;> simp at hx

theorem kok_levelDone {key val : Nat → Int} {ht : Nat → Nat} {w : Why} {lvl pred : Nat} {cur : Option Nat} {nc : Bool}
    {pp : List Nat} {ps : List (Option Nat)} (h : KL key (wkey key w) pp ps) (hp : pred = 0 ∨ key pred < wkey key w)
    (hc : ∀ x, cur = some x → wkey key w ≤ key x) (hnc : ∀ x, cur = some x → nc = true → key x = wkey key w) :
    KOk key (levelDone val ht w lvl pred cur nc pp ps) := by
  have h' := h.set (lvl := lvl) hp hc
  have h0 := h.set (lvl := 0) hp hc
  unfold levelDone
  split
  · cases w <;> simp only [finish, startLink, startRemove, wkey] at h0 hnc ⊢ <;> (repeat' split) <;>
      simp only [KOk] <;> first | trivial | exact h0 | skip
    all_goals first
      | exact ⟨h0, hnc _ rfl (by assumption)⟩
      | exact h0
  · simp only [KOk]; exact h'

theorem kok_retry {key : Nat → Int} {c : Cfg} {w : Why} {pp : List Nat} {ps : List (Option Nat)}
    (h : KL key (wkey key w) pp ps) : KOk key (retry c w pp ps) := by
  simp only [retry, KOk]; exact h

theorem kok_fslow (key : Nat → Int) (c : Cfg) (o : Fop) : KOk key (fslow c o) := by
  cases o <;> exact kok_retry (KL.replicate _ _ _)

macro "kstep_open" hs:ident hpc:ident : tactic =>
  `(tactic| (simp only [step, $hpc:ident] at $hs:ident; (repeat' split at $hs:ident) <;>
      simp only [Option.some.injEq, Prod.mk.injEq] at $hs:ident <;> obtain ⟨hh, -⟩ := $hs:ident <;> subst hh <;>
      dsimp only <;> simp only [upd_same]))

macro "kclose" hk:ident : tactic =>
  `(tactic| first
    | (simp only [KOk]; exact $hk:ident)
    | exact kok_retry $hk:ident
    | (simp only [KOk]; done)
    | (unfold nextUp; split <;> first | (simp only [KOk]; done) | (simp only [KOk]; exact $hk:ident))
    | (unfold nextMark; split <;> simp only [KOk] <;> exact $hk:ident)
    | exact kok_fslow _ _ _)

set_option maxHeartbeats 1000000 in
/-- The stepping thread keeps its bracket. -/
theorem kok_step {c : Cfg} {s s' : St} {t : Tid} {ev : Ev} {L : List Nat} (hl : SInvL c s L) (hk : KOk s.key (s.pc t))
    (hs : step c s t = some (s', ev)) : KOk s'.key (s'.pc t) := by
  have ht := hl.thr t
  cases hpc : s.pc t <;> rw [hpc] at hk ht <;> simp only [KOk] at hk <;> simp only [TOk] at ht
  case idle => simp [step, hpc] at hs
  case done => simp [step, hpc] at hs
  case fLd2 w lvl pred nc pp ps x m =>
    kstep_open hs hpc
    · unfold afterLd2
      split
      · exact kok_retry hk
      · split
        · refine kok_levelDone hk ?_ (by simp) (by simp)
          rcases ht.2.2 with e | e
          · exact Or.inl e
          · exact Or.inr e.2
        · simp only [KOk]; exact hk
    · simp only [KOk]; exact hk
  case fChk w lvl pred cur sx sm nc pp ps =>
    kstep_open hs hpc
    · unfold afterChk
      split
      · cases w <;> dsimp only <;> (try split) <;> simp only [KOk] <;> exact hk
      · split
        · simp only [KOk]; exact hk
        · split
          next heq => cases w <;> simp_all [finish, wstop, KOk]
          next hne =>
            refine kok_levelDone hk ?_ ?_ ?_
            · rcases ht.2.2.1 with e | e
              · exact Or.inl e
              · exact Or.inr e.2
            · intro x hx; simp only [Option.some.injEq] at hx; subst hx
              have : ¬ s.key cur < wkey s.key w := by assumption
              omega
            · intro x hx hnc; simp only [Option.some.injEq] at hx; subst hx; simpa using hnc
    · exact kok_retry hk
  case iCas0 => kstep_open hs hpc <;> first | kclose hk | exact kok_retry (w := .insS _) hk
  case iUpB => kstep_open hs hpc <;> first | kclose hk | exact kok_retry (w := .renew _ _ _) hk
  case iSubFix => kstep_open hs hpc; exact kok_retry (w := .insFix _) hk
  case e0Mk =>
    kstep_open hs hpc
    · simp only [KOk]; exact ⟨hk, ht.2.2.1⟩
    · simp [KOk]
    · simp only [KOk]; exact hk
  case eH2 =>
    kstep_open hs hpc
    · simp only [KOk]; exact hk
    · exact kok_retry (w := .eraFix _ _) hk.1
  case qLd2 =>
    kstep_open hs hpc
    · unfold afterQ qDown
      repeat' split
      all_goals first | (simp [KOk]; done) | exact kok_fslow _ _ _ | (cases ‹Fop› <;> simp [ffound, KOk])
    · simp [KOk]
  case qChk o cur =>
    kstep_open hs hpc
    · exact kok_fslow _ _ _
    · cases o <;> simp [ffound, KOk]
  all_goals (kstep_open hs hpc <;> kclose hk)

/-- Every tower word points forward in the key order (non-strictly). -/
def KGf (next : Nat → Nat → Option Nat) (key : Nat → Int) : Prop := ∀ a l b, next a l = some b → a = 0 ∨ key a ≤ key b

theorem KGf.write {next : Nat → Nat → Option Nat} {key : Nat → Int} (h : KGf next key) {a l : Nat} {v : Option Nat}
    (hv : ∀ b, v = some b → a = 0 ∨ key a ≤ key b) : KGf (upd2' next a l v) key := by
  intro a2 l2 b hb
  simp only [upd2'] at hb
  split at hb
  next hc => rw [hc.1]; exact hv b hb
  · exact h a2 l2 b hb

macro "kstep_open2" hs:ident hpc:ident : tactic =>
  `(tactic| (simp only [step, $hpc:ident] at $hs:ident; (repeat' split at $hs:ident) <;>
      simp only [Option.some.injEq, Prod.mk.injEq] at $hs:ident <;> obtain ⟨hh, -⟩ := $hs:ident <;> subst hh <;>
      dsimp only))

set_option maxHeartbeats 1000000 in
theorem kg_step {c : Cfg} {s s' : St} {t : Tid} {ev : Ev} {L : List Nat} (hl : SInvL c s L) (hg : KGf s.next s.key)
    (hk : KOk s.key (s.pc t)) (hs : step c s t = some (s', ev)) : KGf s'.next s'.key := by
  have ht := hl.thr t
  cases hpc : s.pc t <;> rw [hpc] at hk ht <;> simp only [KOk] at hk <;> simp only [TOk] at ht
  case idle => simp [step, hpc] at hs
  case done => simp [step, hpc] at hs
  case hCas w lvl pred cur pp ps x =>
    kstep_open2 hs hpc
    · rename_i hv
      refine hg.write ?_
      intro b hb
      rw [← ht.2.2.2.2.2] at hb
      have h1 := hg pred lvl cur hv.1
      have h2 := hg cur lvl b hb
      have hc0 : cur ≠ 0 := ht.2.2.2.1.1
      rcases h1 with e | e
      · exact Or.inl e
      · rcases h2 with e2 | e2
        · exact absurd e2 hc0
        · exact Or.inr (Int.le_trans e e2)
    · exact hg
  case iClr n lvl pp ps => kstep_open2 hs hpc <;> exact hg.write (by simp)
  case iSt0 n pp ps =>
    kstep_open2 hs hpc
    exact hg.write (fun b hb => Or.inr (hk.2 0 b hb))
  case iCas0 n pp ps =>
    kstep_open2 hs hpc
    · refine hg.write ?_
      intro b hb; simp only [Option.some.injEq] at hb; subst hb
      rcases hk.1 0 with e | e
      · exact Or.inl e
      · exact Or.inr (Int.le_of_lt e)
    · exact hg
  case iUpA n lvl p pp ps =>
    kstep_open2 hs hpc
    · exact hg.write (fun b hb => Or.inr (hk.2 lvl b hb))
    · exact hg
  case iUpB n lvl pp ps =>
    kstep_open2 hs hpc
    · refine hg.write ?_
      intro b hb; simp only [Option.some.injEq] at hb; subst hb
      rcases hk.1 lvl with e | e
      · exact Or.inl e
      · exact Or.inr (Int.le_of_lt e)
    · exact hg
  case eH2 k d lvl x pp ps =>
    kstep_open2 hs hpc
    · refine hg.write ?_
      intro b hb
      rw [← ht.2.2.2.2] at hb
      have h2 := hg d lvl b hb
      rcases hk.1.1 lvl with e | e
      · exact Or.inl e
      · rcases h2 with e2 | e2
        · exact absurd e2 ht.2.1
        · right; rw [hk.2] at e2; exact Int.le_trans (Int.le_of_lt e) e2
    · exact hg
  all_goals (kstep_open2 hs hpc <;> exact hg)

/-- The towers of items that are not allocated yet are null. -/
def KUf (next : Nat → Nat → Option Nat) (cnt : Nat) : Prop := ∀ a, cnt ≤ a → ∀ l, next a l = none

theorem KUf.write {next : Nat → Nat → Option Nat} {cnt : Nat} (h : KUf next cnt) {a l : Nat} {v : Option Nat}
    (ha : a < cnt) : KUf (upd2' next a l v) cnt := by
  intro a2 h2 l2
  simp only [upd2']
  split
  next hc => omega
  · exact h a2 h2 l2

theorem lt_cnt_of_pp {c : Cfg} {m : Mem} {L : List Nat} (hg : GOk m L) {pp : List Nat} {ps : List (Option Nat)}
    (h : ListsOk c m L pp ps) (i : Nat) : pp.getD i 0 < m.cnt := by
  rcases h.2.2.1 i with e | e
  · rw [e]; exact hg.cpos
  · exact hg.lt_cnt e

set_option maxHeartbeats 1000000 in
theorem ku_step {c : Cfg} {s s' : St} {t : Tid} {ev : Ev} {L : List Nat} (hl : SInvL c s L) (hu : KUf s.next s.cnt)
    (hs : step c s t = some (s', ev)) : KUf s'.next s'.cnt := by
  have ht := hl.thr t
  have hg := hl.g
  cases hpc : s.pc t <;> rw [hpc] at ht <;> simp only [TOk] at ht
  case idle => simp [step, hpc] at hs
  case done => simp [step, hpc] at hs
  case hCas w lvl pred cur pp ps x =>
    kstep_open2 hs hpc
    · refine hu.write ?_
      rcases ht.2.2.1 with e | e
      · rw [e]; exact hg.cpos
      · exact hg.lt_cnt e.1
    · exact hu
  case iClr n lvl pp ps => kstep_open2 hs hpc <;> exact hu.write ht.1.2.1
  case iSt0 n pp ps => kstep_open2 hs hpc; exact hu.write ht.1.2.1
  case iCas0 n pp ps =>
    kstep_open2 hs hpc
    · exact hu.write (lt_cnt_of_pp hg ht.2.1 0)
    · exact hu
  case iUpA n lvl p pp ps =>
    kstep_open2 hs hpc
    · exact hu.write (hg.lt_cnt ht.1.2)
    · exact hu
  case iUpB n lvl pp ps =>
    kstep_open2 hs hpc
    · exact hu.write (lt_cnt_of_pp hg ht.2.1 lvl)
    · exact hu
  case eH2 k d lvl x pp ps =>
    kstep_open2 hs hpc
    · exact hu.write (lt_cnt_of_pp hg ht.1 lvl)
    · exact hu
  all_goals (kstep_open2 hs hpc <;> exact hu)

/-- The additional invariant. -/
structure KInv (s : St) : Prop where
  fwd : KGf s.next s.key
  thr : ∀ t, KOk s.key (s.pc t)
  unalloc : KUf s.next s.cnt

theorem kinv_init (c : Cfg) : KInv (init c) := by
  refine ⟨?_, ?_, ?_⟩
  · intro a l b h; simp [init] at h
  · intro t; simp [init, KOk]
  · intro a _ l; simp [init]

theorem kinv_step {c : Cfg} (hc : 0 < c.maxH) (hmt : c.markTest = true) {s s' : St} {t : Tid} {ev : Ev} {L : List Nat}
    (hl : SInvL c s L) (hk : KInv s) (hs : step c s t = some (s', ev)) : KInv s' := by
  obtain ⟨L', -, he⟩ := sinvl_step hc hmt hl hs
  refine ⟨kg_step hl hk.fwd (hk.thr t) hs, ?_, ku_step hl hk.unalloc hs⟩
  intro t2
  by_cases e : t2 = t
  · subst e; exact kok_step hl (hk.thr t2) hs
  · rw [he.frame t2 e, he.key]; exact hk.thr t2

theorem kinv_result {s s' : St} {t : Tid} {r : GRet} (hk : KInv s) (hs : result s t = some (s', r)) : KInv s' := by
  unfold result at hs
  split at hs
  next r' hpc =>
    simp only [Option.some.injEq, Prod.mk.injEq] at hs; obtain ⟨rfl, rfl⟩ := hs
    refine ⟨hk.fwd, ?_, hk.unalloc⟩
    intro t2
    dsimp only
    unfold upd; split
    · simp [KOk]
    · exact hk.thr t2
  next => simp at hs

theorem kok_congr {c : Cfg} {m : Mem} {L : List Nat} (hg : GOk m L) {key' : Nat → Int} {pc : PC} (ht : TOk c m L pc)
    (h : ∀ a, a < m.cnt → key' a = m.key a) (hk : KOk m.key pc) : KOk key' pc := by
  have hpp : ∀ {pp ps K}, ListsOk c m L pp ps → KL m.key K pp ps → KL key' K pp ps := by
    intro pp ps K hl hkl
    refine ⟨?_, ?_⟩
    · intro i
      rcases hkl.1 i with e | e
      · exact Or.inl e
      · right; rw [h _ (lt_cnt_of_pp hg hl i)]; exact e
    · intro i x hx
      rw [h x (hg.lt_cnt (hl.2.2.2 i x hx).2.1)]; exact hkl.2 i x hx
  have hwk : ∀ {w}, WOk m L w → wkey key' w = wkey m.key w := by
    intro w hw
    cases w <;> simp only [wkey] <;> simp only [WOk] at hw
    · exact h _ hw.2.1
    · exact h _ (hg.lt_cnt hw.2)
    · exact h _ (hg.lt_cnt hw.1.2)
  cases pc <;> simp only [KOk] at hk ⊢ <;> simp only [TOk] at ht <;> (try trivial)
  case fLd1 => rw [hwk ht.1]; exact hpp ht.2.1 hk
  case fLd2 => rw [hwk ht.1]; exact hpp ht.2.1 hk
  case fSucc => rw [hwk ht.1]; exact hpp ht.2.1 hk
  case fChk => rw [hwk ht.1]; exact hpp ht.2.1 hk
  case hUnl => rw [hwk ht.1]; exact hpp ht.2.1 hk
  case hLd1 => rw [hwk ht.1]; exact hpp ht.2.1 hk
  case hLd2 => rw [hwk ht.1]; exact hpp ht.2.1 hk
  case hCas => rw [hwk ht.1]; exact hpp ht.2.1 hk
  case hSub => rw [hwk ht.1]; exact hpp ht.2 hk
  case iClr => rw [h _ ht.1.2.1]; exact hpp ht.2.1 hk
  case iSt0 => rw [h _ ht.1.2.1]; exact hpp ht.2.1 hk
  case iCas0 => rw [h _ ht.1.2.1]; exact hpp ht.2.1 hk
  case iUpA => rw [h _ (hg.lt_cnt ht.1.2)]; exact hpp ht.2.1 hk
  case iUpB => rw [h _ (hg.lt_cnt ht.1.2)]; exact hpp ht.2.1 hk
  case iSubFix => rw [h _ (hg.lt_cnt ht.1.2)]; exact hpp ht.2 hk
  case eLd => exact hpp ht.1 hk
  case eMk => exact hpp ht.1 hk
  case e0Ld => exact hpp ht.1 hk
  case e0Mk => exact hpp ht.1 hk
  case eH1 => exact ⟨hpp ht.1 hk.1, by rw [h _ (hg.mcnt _ ht.2.2.1).2]; exact hk.2⟩
  case eH2 => exact ⟨hpp ht.1 hk.1, by rw [h _ (hg.mcnt _ ht.2.2.1).2]; exact hk.2⟩
  case eHSub => exact ⟨hpp ht.1 hk.1, by rw [h _ (hg.mcnt _ ht.2.2.1).2]; exact hk.2⟩

set_option maxHeartbeats 1000000 in
theorem kinv_invoke {c : Cfg} {s s' : St} {t : Tid} {op : GOp} {L : List Nat} (hl : SInvL c s L) (hk : KInv s)
    (hs : invoke c s t op = some s') : KInv s' := by
  obtain ⟨name, args⟩ := op
  unfold invoke at hs
  split at hs
  next k v hidle hname hargs =>
    simp only [Option.some.injEq] at hs; subst hs
    have hstab : ∀ a, a < s.cnt → upd s.key s.cnt k a = s.key a := by
      intro a ha; have : a ≠ s.cnt := Nat.ne_of_lt ha; simp [upd, this]
    refine ⟨?_, ?_, ?_⟩
    · intro a l b hb
      have hb' : s.next a l = some b := hb
      have ha : a < s.cnt := by
        apply Classical.byContradiction; intro hn
        rw [hk.unalloc a (by omega) l] at hb'; simp at hb'
      have hbl : b < s.cnt := hl.g.lt_cnt (hl.g.ptr a l b hb').2.1
      show a = 0 ∨ upd s.key s.cnt k a ≤ upd s.key s.cnt k b
      rw [hstab a ha, hstab b hbl]; exact hk.fwd a l b hb'
    · intro t2
      dsimp only
      unfold upd
      split
      · exact kok_retry (KL.replicate _ _ _)
      · exact kok_congr (m := mem! s) hl.g (hl.thr t2) hstab (hk.thr t2)
    · intro a ha l; exact hk.unalloc a (by dsimp only at ha; omega) l
  next k hidle hname hargs =>
    simp only [Option.some.injEq] at hs; subst hs
    refine ⟨hk.fwd, ?_, hk.unalloc⟩
    intro t2; dsimp only; unfold upd; split
    · exact kok_retry (KL.replicate _ _ _)
    · exact hk.thr t2
  next k hidle hname hargs =>
    simp only [Option.some.injEq] at hs; subst hs
    refine ⟨hk.fwd, ?_, hk.unalloc⟩
    intro t2; dsimp only; unfold upd; split
    · simp [KOk]
    · exact hk.thr t2
  next k hidle hname hargs =>
    simp only [Option.some.injEq] at hs; subst hs
    refine ⟨hk.fwd, ?_, hk.unalloc⟩
    intro t2; dsimp only; unfold upd; split
    · simp [KOk]
    · exact hk.thr t2
  next => simp at hs

/-- Both invariants along every run. -/
theorem kinv_run {c : Cfg} (hc : 0 < c.maxH) (hmt : c.markTest = true) :
    ∀ (sched : List (Tid × Act)) (s0 s : St) (os : List (Tid × Obs)),
      (∃ L, SInvL c s0 L) → KInv s0 → (model c).run s0 sched = some (s, os) → (∃ L, SInvL c s L) ∧ KInv s := by
  intro sched
  induction sched with
  | nil =>
    intro s0 s os hl hk hr
    simp [Model.run] at hr
    obtain ⟨rfl, -⟩ := hr
    exact ⟨hl, hk⟩
  | cons x rest ih =>
    intro s0 s os hl hk hr
    obtain ⟨t, a⟩ := x
    obtain ⟨L, hl⟩ := hl
    simp only [Model.run] at hr
    cases hap : (model c).apply s0 t a with
    | none => simp [hap] at hr
    | some p =>
      obtain ⟨s1, o⟩ := p
      simp only [hap] at hr
      cases hrr : (model c).run s1 rest with
      | none => simp [hrr] at hr
      | some q =>
        obtain ⟨s2, os2⟩ := q
        simp only [hrr, Option.some.injEq, Prod.mk.injEq] at hr
        obtain ⟨rfl, -⟩ := hr
        have h1 : (∃ L, SInvL c s1 L) ∧ KInv s1 := by
          cases a with
          | invoke op =>
            simp only [Model.apply, model, Option.map_eq_some_iff] at hap
            obtain ⟨s1', hs1, heq⟩ := hap
            simp only [Prod.mk.injEq] at heq
            obtain ⟨rfl, -⟩ := heq
            exact ⟨⟨L, (sinvl_invoke hl hs1).1⟩, kinv_invoke hl hk hs1⟩
          | step =>
            simp only [Model.apply, model, Option.map_eq_some_iff] at hap
            obtain ⟨⟨s1', e⟩, hs1, heq⟩ := hap
            simp only [Prod.mk.injEq] at heq
            obtain ⟨rfl, -⟩ := heq
            obtain ⟨L', hl', -⟩ := sinvl_step hc hmt hl hs1
            exact ⟨⟨L', hl'⟩, kinv_step hc hmt hl hk hs1⟩
          | ret =>
            simp only [Model.apply, model, Option.map_eq_some_iff] at hap
            obtain ⟨⟨s1', r⟩, hs1, heq⟩ := hap
            simp only [Prod.mk.injEq] at heq
            obtain ⟨rfl, -⟩ := heq
            exact ⟨⟨L, (sinvl_result hl hs1).1⟩, kinv_result hk hs1⟩
        exact ih s1 s2 os2 h1.1 h1.2 hrr

theorem kinv_reachable {c : Cfg} (hc : 0 < c.maxH) (hmt : c.markTest = true) (sched : List (Tid × Act)) (s : St)
    (os : List (Tid × Obs)) (h : (model c).run (init c) sched = some (s, os)) : KInv s :=
  (kinv_run hc hmt sched (init c) s os ⟨[0], sinv_init c⟩ (kinv_init c) h).2

/-! ### The walk of a level -/

theorem walk_lower {nx : Nat → Option Nat} {key : Nat → Int}
    (hnx : ∀ a b, nx a = some b → b ≠ 0 ∧ (a = 0 ∨ key a ≤ key b)) :
    ∀ (fuel : Nat) (p : Option Nat) (lo : Int), (∀ x, p = some x → x ≠ 0 ∧ lo ≤ key x) →
      ∀ b, b ∈ Michael.walk nx fuel p → b ≠ 0 ∧ lo ≤ key b
  | 0, _, _, _, b, hb => by simp [Michael.walk] at hb
  | _ + 1, none, _, _, b, hb => by simp [Michael.walk] at hb
  | f + 1, some a, lo, hp, b, hb => by
    simp only [Michael.walk, List.mem_cons] at hb
    have ha := hp a rfl
    rcases hb with e | hb
    · rw [e]; exact ha
    · refine walk_lower hnx f (nx a) lo ?_ b hb
      intro x hx
      have := hnx a x hx
      refine ⟨this.1, ?_⟩
      rcases this.2 with e | e
      · exact absurd e ha.1
      · exact Int.le_trans ha.2 e

theorem walk_nondecreasing {nx : Nat → Option Nat} {key : Nat → Int}
    (hnx : ∀ a b, nx a = some b → b ≠ 0 ∧ (a = 0 ∨ key a ≤ key b)) :
    ∀ (fuel : Nat) (p : Option Nat), (∀ x, p = some x → x ≠ 0) →
      (Michael.walk nx fuel p).Pairwise (fun a b => key a ≤ key b)
  | 0, _, _ => by simp [Michael.walk]
  | _ + 1, none, _ => by simp [Michael.walk]
  | f + 1, some a, hp => by
    simp only [Michael.walk]
    have ha := hp a rfl
    refine List.Pairwise.cons ?_ (walk_nondecreasing hnx f (nx a) (fun x hx => (hnx a x hx).1))
    intro b hb
    refine (walk_lower hnx f (nx a) (key a) ?_ b hb).2
    intro x hx
    have := hnx a x hx
    refine ⟨this.1, ?_⟩
    rcases this.2 with e | e
    · exact absurd e ha
    · exact e

/-- Every level, walked from the head, is non-decreasing in the key, and consists of published items. -/
theorem levelNodes_nondecreasing {c : Cfg} {s : St} {L : List Nat} (hl : SInvL c s L) (hk : KInv s) (l : Nat) :
    (levelNodes s l).Pairwise (fun a b => s.key a ≤ s.key b) := by
  unfold levelNodes
  have hnx : ∀ a b, (fun a => s.next a l) a = some b → b ≠ 0 ∧ (a = 0 ∨ s.key a ≤ s.key b) :=
    fun a b hb => ⟨(hl.g.ptr a l b hb).1, hk.fwd a l b hb⟩
  exact walk_nondecreasing hnx s.cnt (s.next 0 l) (fun x hx => (hl.g.ptr 0 l x hx).1)

end CdsVerif.Algo.SkipList

/-
  Atomic-step model of `cds::intrusive::SegmentedQueue` (cds/intrusive/segmented_queue.h): the quasi-linearizable
  queue of Afek, Korland and Yanovsky.  Functions `enqueue`, `do_dequeue`, `segment_list::create_tail`,
  `segment_list::remove_head`, the spin lock `m_Lock` of the segment list (cds::sync::spin: TATAS).

    enqueue( val ):
        pTail = guard.protect( m_pTail )        -- gc::Guard::protect: pCur = load;                              enqLd1
                                                --   do { pRet = pCur; hp := pCur; pCur = load } while ( pRet != pCur )   enqLd2
        if ( !pTail ) pTail = create_tail( pTail )
        gen = a permutation of [0, K)           -- an INPUT of the operation (see below)
        ++m_ItemCounter                         -- (not modelled)
        while ( true ) {
            do {
                i = gen
                if ( pTail->cells[i].load().all())        -- enqRd: cell not empty, go next
                    ;
                else if ( pTail->cells[i].CAS( null, &val ))      -- enqCas
                    return true;
            } while ( gen.next());
            pTail = create_tail( pTail )        -- the whole segment was seen populated
            gen.reset()                         -- a new permutation
        }

    create_tail( pTail ):
        lock( m_Lock )                          -- ctTry: exchange(true); ctSpin: load while locked
        if ( !m_List.empty() && pTail != &m_List.back())          -- ctIn (the first store of the critical section)
            { m_pTail.store( &m_List.back()); unlock; return &m_List.back() }
        pNew = allocate_segment()               -- fresh segment, all cells null (constructor stores are not steps)
        if ( m_List.empty()) m_pHead.store( pNew )                -- ctIn, then ctTail
        m_List.push_back( *pNew )
        m_pTail.store( pNew )
        unlock                                                    -- ctUnlock
        return pNew

    do_dequeue():
        pHead = guard.protect( m_pHead )                          -- deqLd1, deqLd2
        gen = a permutation
        while ( true ) {
            if ( !pHead ) return false          -- EMPTY
            bHadNullValue = false
            do {
                i = gen
                item = pHead->cells[i].load()                     -- deqRd
                if ( !item.ptr()) bHadNullValue = true
                else if ( !item.bits()) {
                    if ( pHead->cells[i].CAS( item, item | 1 ))   -- deqCas
                        return true             -- the item
                }
            } while ( gen.next());
            if ( bHadNullValue ) return false   -- EMPTY
            pHead = remove_head( pHead )        -- every cell was seen deleted
            gen.reset()
        }

    remove_head( pHead ):
        lock( m_Lock )                                            -- rhTry, rhSpin
        if ( m_List.empty())                                      -- rhIn
            { m_pTail.store( null ); m_pHead.store( null ); unlock; return null }      -- rhIn, rhHead, rhUnlock
        if ( pHead != &m_List.front())
            { m_pHead.store( &m_List.front()); unlock; return &m_List.front() }
        m_List.pop_front()
        if ( m_List.empty()) { pRet = null; m_pTail.store( null ) } else pRet = &m_List.front()
        m_pHead.store( pRet )
        unlock
        retire( pHead )                         -- (hazard pointers: not modelled)
        return pRet

  Memory model of the model: sequentially consistent interleavings, garbage-collected heap.  A segment is a natural
  number, segments are numbered in ALLOCATION order (`nseg` = number allocated so far) and never reused; this is what
  the hazard pointers provide in the real code (properties C01/C02) and it is an ASSUMPTION here (the `version` field
  of a segment, "ABA prevention tag", is never changed by the code and is not modelled).  `m_List` (a boost intrusive
  list accessed only under `m_Lock`) is the interval `[lo, nseg)`: every allocated segment is appended in the critical
  section that allocates it and segments leave at the front, so `lo` = number of segments removed so far.
  The hazard-pointer stores, the item counter, the statistics, the fence of the segment constructor and the back-off are
  not steps.  Strong CAS only.

  THE PERMUTATION IS AN INPUT.  `enq v p…` / `deq p…` carry the cell indices the permutation generator will deliver,
  K per scan, in the order of the scans (`nextPerm`).  A block that is not a permutation of [0, K) (or a missing
  block) is replaced by the identity: the theorems hold for every argument list, i.e. for every generator that
  delivers permutations (the contract of `opt::permutation_generator`).

  One `step` = one atomic operation on shared memory.  Event rendering (the `A` lines of the harness trace, variant
  `i_hp_named` of harness/clients/segmented.cpp after tools/segq_pre.py):
      ld   segHead|segTail  <seg>        <seg> = null | s<j>
      st   segHead|segTail  <seg>
      xchg segLock  <old> 1              ld segLock <v>          st segLock 0
      ld   s<j>.c<i>  <cell>             <cell> = null | i<x> | i<x>|1
      cas+ s<j>.c<i>  null i<x>          cas- s<j>.c<i> <seen> null                 (enqueue)
      cas+ s<j>.c<i>  i<x> i<x>|1        cas- s<j>.c<i> <seen> i<x>                 (dequeue)

  GHOST state (never read by a transition that decides control flow or shared memory; `used` only restricts the
  client: an item is enqueued at most once, the contract of an intrusive container): a logical clock `now` ticking at
  every action, invocation times (`tInv` per item, `tCall` per thread), the enqueuing thread of an item (`owner`), the
  number of segments allocated when the enqueue was invoked (`floorN`), the time and place of every successful enqueue
  CAS (`tCas`, `posS`, `posI`), the time of every successful marking CAS (`tMark`), blind counters of both (`enqCnt`,
  `deqCnt`), the lock holder (`holder`).

  FILTERED OUT of the trace before replay (tools/segq_pre.py, `relevant` in Main.lean): hazard-pointer stores and the
  thread's HP bookkeeping (unnamed locations), the item counter `count`, the constructor stores of a new segment and
  fences.  The lock `segLock` is NOT filtered: it is modelled step by step.
-/
import CdsVerif.Base.Machine
namespace CdsVerif.Algo.Segmented
open CdsVerif.Machine CdsVerif.Spec

/-- A cell: null, a pointer to item `x`, or the same pointer with the deleted bit. -/
inductive Cell
  | null
  | item (x : Nat)
  | del (x : Nat)
deriving DecidableEq, Repr

def Cell.isDel : Cell → Bool
  | .del _ => true
  | _ => false

inductive PC
  | idle
  -- enqueue of item x; ps = permutation input not yet consumed
  | enqLd1 (x : Nat) (ps : List Nat)                              -- next: first load of protect( m_pTail )
  | enqLd2 (x : Nat) (ps : List Nat) (p : Option Nat)             -- next: validating load (p = value read before)
  | enqRd (x : Nat) (ps : List Nat) (g i : Nat) (rest : List Nat) -- next: load cells[i] of segment g; `rest` = cells still to visit
  | enqCas (x : Nat) (ps : List Nat) (g i : Nat) (rest : List Nat) -- next: CAS( cells[i], null, x )
  | ctTry (x : Nat) (ps : List Nat) (pt : Option Nat)             -- create_tail( pt ): next: m_Lock.exchange( true )
  | ctSpin (x : Nat) (ps : List Nat) (pt : Option Nat)            -- next: m_Lock.load()
  | ctIn (x : Nat) (ps : List Nat) (pt : Option Nat)              -- lock held; next: first store of the critical section
  | ctTail (x : Nat) (ps : List Nat) (n : Nat)                    -- next: m_pTail.store( n ) (after m_pHead.store( n ))
  | ctUnlock (x : Nat) (ps : List Nat) (n : Nat)                  -- next: unlock; create_tail returns n
  | enqDone (x : Nat)
  -- dequeue
  | deqLd1 (ps : List Nat)
  | deqLd2 (ps : List Nat) (p : Option Nat)
  | deqRd (ps : List Nat) (g i : Nat) (rest : List Nat) (hn : Bool)           -- next: load cells[i]; hn = bHadNullValue
  | deqCas (ps : List Nat) (g i x : Nat) (rest : List Nat) (hn : Bool)        -- next: CAS( cells[i], x, x|1 )
  | rhTry (ps : List Nat) (g : Nat)                               -- remove_head( g ): next: m_Lock.exchange( true )
  | rhSpin (ps : List Nat) (g : Nat)
  | rhIn (ps : List Nat) (g : Nat)                                -- lock held; next: first store of the critical section
  | rhHead (ps : List Nat)                                        -- next: m_pHead.store( null ) (after m_pTail.store( null ))
  | rhUnlock (ps : List Nat) (r : Option Nat)                     -- next: unlock; remove_head returns r
  | deqDone (r : Option Nat)                                      -- none: EMPTY
deriving DecidableEq, Repr

structure St where
  K : Nat                        -- quasi factor (cells per segment)
  head : Option Nat              -- m_pHead
  tail : Option Nat              -- m_pTail
  lock : Bool                    -- m_Lock
  lo : Nat                       -- m_List = [lo, nseg)
  nseg : Nat                     -- segments allocated so far
  cell : Nat → Nat → Cell        -- cells[i] of segment g
  pc : Tid → PC
  -- ghost
  holder : Option Tid            -- who is inside a critical section of m_Lock
  now : Nat                      -- logical clock
  used : Nat → Bool              -- item handed to enqueue
  owner : Nat → Tid              --   … by this thread
  tInv : Nat → Nat               -- invocation time of the item's enqueue
  floorN : Nat → Nat             -- `nseg` at that time
  enqCnt : Nat → Nat             -- successful enqueue CASes of the item (blind counter)
  posS : Nat → Nat               -- where the (last) enqueue CAS put it: segment
  posI : Nat → Nat               --   … cell
  tCas : Nat → Option Nat        -- when
  deqCnt : Nat → Nat             -- successful marking CASes of the item = dequeues that return it (blind counter)
  tMark : Nat → Option Nat       -- when
  tCall : Tid → Nat              -- invocation time of the thread's current operation

def init (K : Nat) : St :=
  { K := K, head := none, tail := none, lock := false, lo := 0, nseg := 0, cell := fun _ _ => .null,
    pc := fun _ => .idle, holder := none, now := 0, used := fun _ => false, owner := fun _ => 0, tInv := fun _ => 0,
    floorN := fun _ => 0, enqCnt := fun _ => 0, posS := fun _ => 0, posI := fun _ => 0, tCas := fun _ => none,
    deqCnt := fun _ => 0, tMark := fun _ => none, tCall := fun _ => 0 }

/-! ### The permutation input -/

/-- `l` is a permutation of `[0, K)` (as far as the algorithm cares: length K, entries below K, every index present). -/
def isPerm (K : Nat) (l : List Nat) : Bool :=
  l.length == K && l.all (fun j => decide (j < K)) && (List.range K).all (fun j => l.contains j)

/-- The next scan order and the remaining input. -/
def nextPerm (K : Nat) (ps : List Nat) : List Nat × List Nat :=
  if isPerm K (ps.take K) then (ps.take K, ps.drop K) else (List.range K, [])

/-- Continue the enqueue scan of segment `g`: visit the next cell, or (whole segment seen populated) create a tail. -/
def scanE (x : Nat) (ps : List Nat) (g : Nat) : List Nat → PC
  | [] => .ctTry x ps (some g)
  | i :: rest => .enqRd x ps g i rest

/-- Continue the dequeue scan: next cell, or the decision at the end of the scan. -/
def scanD (ps : List Nat) (g : Nat) (hn : Bool) : List Nat → PC
  | [] => if hn then .deqDone none else .rhTry ps g
  | i :: rest => .deqRd ps g i rest hn

/-! ### Event rendering (the only place where events are built) -/

def sptr : Option Nat → String
  | none => "null"
  | some g => s!"s{g}"
def cval : Cell → String
  | .null => "null"
  | .item x => s!"i{x}"
  | .del x => s!"i{x}|1"
def cellLoc (g i : Nat) : String := s!"s{g}.c{i}"
def headLoc : String := "segHead"
def tailLoc : String := "segTail"
def lockLoc : String := "segLock"

def evLd (loc v : String) : Ev := ⟨"ld", loc, v, ""⟩
def evSt (loc v : String) : Ev := ⟨"st", loc, v, ""⟩
def evXchg (old : Bool) : Ev := ⟨"xchg", lockLoc, if old then "1" else "0", "1"⟩
def evCasOk (loc old new : String) : Ev := ⟨"cas+", loc, old, new⟩
def evCasFail (loc seen expected : String) : Ev := ⟨"cas-", loc, seen, expected⟩

/-! ### Transitions -/

/-- `enq v p…`: the client hands over item `v`, never handed over before.  `deq p…`. -/
def invoke (s : St) (t : Tid) (op : GOp) : Option St :=
  match s.pc t, op.name, op.args with
  | .idle, "enq", v :: ps =>
    if 0 ≤ v ∧ s.used v.toNat = false then
      some { s with pc := upd s.pc t (.enqLd1 v.toNat (ps.map Int.toNat)), now := s.now + 1,
                    used := upd s.used v.toNat true, owner := upd s.owner v.toNat t, tInv := upd s.tInv v.toNat s.now,
                    floorN := upd s.floorN v.toNat s.nseg, tCall := upd s.tCall t s.now }
    else none
  | .idle, "deq", ps =>
    some { s with pc := upd s.pc t (.deqLd1 (ps.map Int.toNat)), now := s.now + 1, tCall := upd s.tCall t s.now }
  | _, _, _ => none

def step (s : St) (t : Tid) : Option (St × Ev) :=
  match s.pc t with
  | .enqLd1 x ps =>
    some ({ s with pc := upd s.pc t (.enqLd2 x ps s.tail), now := s.now + 1 }, evLd tailLoc (sptr s.tail))
  | .enqLd2 x ps p =>
    if s.tail = p then
      match p with
      | none => some ({ s with pc := upd s.pc t (.ctTry x ps none), now := s.now + 1 }, evLd tailLoc (sptr none))
      | some g =>
        some ({ s with pc := upd s.pc t (scanE x (nextPerm s.K ps).2 g (nextPerm s.K ps).1), now := s.now + 1 },
              evLd tailLoc (sptr (some g)))
    else
      some ({ s with pc := upd s.pc t (.enqLd2 x ps s.tail), now := s.now + 1 }, evLd tailLoc (sptr s.tail))
  | .enqRd x ps g i rest =>
    if s.cell g i = .null then
      some ({ s with pc := upd s.pc t (.enqCas x ps g i rest), now := s.now + 1 }, evLd (cellLoc g i) (cval .null))
    else
      some ({ s with pc := upd s.pc t (scanE x ps g rest), now := s.now + 1 }, evLd (cellLoc g i) (cval (s.cell g i)))
  | .enqCas x ps g i rest =>
    if s.cell g i = .null then
      some ({ s with cell := upd2 s.cell g i (.item x), pc := upd s.pc t (.enqDone x), now := s.now + 1,
                     enqCnt := upd s.enqCnt x (s.enqCnt x + 1), posS := upd s.posS x g, posI := upd s.posI x i,
                     tCas := upd s.tCas x (some s.now) },
            evCasOk (cellLoc g i) (cval .null) (cval (.item x)))
    else
      some ({ s with pc := upd s.pc t (scanE x ps g rest), now := s.now + 1 },
            evCasFail (cellLoc g i) (cval (s.cell g i)) (cval .null))
  | .ctTry x ps pt =>
    if s.lock then
      some ({ s with pc := upd s.pc t (.ctSpin x ps pt), now := s.now + 1 }, evXchg true)
    else
      some ({ s with lock := true, holder := some t, pc := upd s.pc t (.ctIn x ps pt), now := s.now + 1 }, evXchg false)
  | .ctSpin x ps pt =>
    if s.lock then
      some ({ s with pc := upd s.pc t (.ctSpin x ps pt), now := s.now + 1 }, evLd lockLoc "1")
    else
      some ({ s with pc := upd s.pc t (.ctTry x ps pt), now := s.now + 1 }, evLd lockLoc "0")
  | .ctIn x ps pt =>
    if s.lo < s.nseg then
      if pt = some (s.nseg - 1) then
        -- pTail is the last segment of the list: append a new one
        some ({ s with tail := some s.nseg, nseg := s.nseg + 1, pc := upd s.pc t (.ctUnlock x ps s.nseg), now := s.now + 1 },
              evSt tailLoc (sptr (some s.nseg)))
      else
        -- somebody else has already appended: publish and return the current last segment
        some ({ s with tail := some (s.nseg - 1), pc := upd s.pc t (.ctUnlock x ps (s.nseg - 1)), now := s.now + 1 },
              evSt tailLoc (sptr (some (s.nseg - 1))))
    else
      -- m_List is empty
      some ({ s with head := some s.nseg, nseg := s.nseg + 1, pc := upd s.pc t (.ctTail x ps s.nseg), now := s.now + 1 },
            evSt headLoc (sptr (some s.nseg)))
  | .ctTail x ps n =>
    some ({ s with tail := some n, pc := upd s.pc t (.ctUnlock x ps n), now := s.now + 1 }, evSt tailLoc (sptr (some n)))
  | .ctUnlock x ps n =>
    some ({ s with lock := false, holder := none,
                   pc := upd s.pc t (scanE x (nextPerm s.K ps).2 n (nextPerm s.K ps).1), now := s.now + 1 },
          evSt lockLoc "0")
  | .deqLd1 ps =>
    some ({ s with pc := upd s.pc t (.deqLd2 ps s.head), now := s.now + 1 }, evLd headLoc (sptr s.head))
  | .deqLd2 ps p =>
    if s.head = p then
      match p with
      | none => some ({ s with pc := upd s.pc t (.deqDone none), now := s.now + 1 }, evLd headLoc (sptr none))
      | some g =>
        some ({ s with pc := upd s.pc t (scanD (nextPerm s.K ps).2 g false (nextPerm s.K ps).1), now := s.now + 1 },
              evLd headLoc (sptr (some g)))
    else
      some ({ s with pc := upd s.pc t (.deqLd2 ps s.head), now := s.now + 1 }, evLd headLoc (sptr s.head))
  | .deqRd ps g i rest hn =>
    match s.cell g i with
    | .null => some ({ s with pc := upd s.pc t (scanD ps g true rest), now := s.now + 1 }, evLd (cellLoc g i) (cval .null))
    | .del y => some ({ s with pc := upd s.pc t (scanD ps g hn rest), now := s.now + 1 }, evLd (cellLoc g i) (cval (.del y)))
    | .item y =>
      some ({ s with pc := upd s.pc t (.deqCas ps g i y rest hn), now := s.now + 1 }, evLd (cellLoc g i) (cval (.item y)))
  | .deqCas ps g i x rest hn =>
    if s.cell g i = .item x then
      some ({ s with cell := upd2 s.cell g i (.del x), pc := upd s.pc t (.deqDone (some x)), now := s.now + 1,
                     deqCnt := upd s.deqCnt x (s.deqCnt x + 1), tMark := upd s.tMark x (some s.now) },
            evCasOk (cellLoc g i) (cval (.item x)) (cval (.del x)))
    else
      some ({ s with pc := upd s.pc t (scanD ps g hn rest), now := s.now + 1 },
            evCasFail (cellLoc g i) (cval (s.cell g i)) (cval (.item x)))
  | .rhTry ps g =>
    if s.lock then
      some ({ s with pc := upd s.pc t (.rhSpin ps g), now := s.now + 1 }, evXchg true)
    else
      some ({ s with lock := true, holder := some t, pc := upd s.pc t (.rhIn ps g), now := s.now + 1 }, evXchg false)
  | .rhSpin ps g =>
    if s.lock then
      some ({ s with pc := upd s.pc t (.rhSpin ps g), now := s.now + 1 }, evLd lockLoc "1")
    else
      some ({ s with pc := upd s.pc t (.rhTry ps g), now := s.now + 1 }, evLd lockLoc "0")
  | .rhIn ps g =>
    if s.lo < s.nseg then
      if g = s.lo then
        -- pHead is the first segment of the list: remove it
        if s.lo + 1 < s.nseg then
          some ({ s with lo := s.lo + 1, head := some (s.lo + 1), pc := upd s.pc t (.rhUnlock ps (some (s.lo + 1))),
                         now := s.now + 1 },
                evSt headLoc (sptr (some (s.lo + 1))))
        else
          some ({ s with lo := s.lo + 1, tail := none, pc := upd s.pc t (.rhHead ps), now := s.now + 1 },
                evSt tailLoc (sptr none))
      else
        -- somebody else has already removed it: publish and return the current first segment
        some ({ s with head := some s.lo, pc := upd s.pc t (.rhUnlock ps (some s.lo)), now := s.now + 1 },
              evSt headLoc (sptr (some s.lo)))
    else
      -- m_List is empty
      some ({ s with tail := none, pc := upd s.pc t (.rhHead ps), now := s.now + 1 }, evSt tailLoc (sptr none))
  | .rhHead ps =>
    some ({ s with head := none, pc := upd s.pc t (.rhUnlock ps none), now := s.now + 1 }, evSt headLoc (sptr none))
  | .rhUnlock ps r =>
    match r with
    | none =>
      some ({ s with lock := false, holder := none, pc := upd s.pc t (.deqDone none), now := s.now + 1 }, evSt lockLoc "0")
    | some g =>
      some ({ s with lock := false, holder := none,
                     pc := upd s.pc t (scanD (nextPerm s.K ps).2 g false (nextPerm s.K ps).1), now := s.now + 1 },
            evSt lockLoc "0")
  | _ => none

def result (s : St) (t : Tid) : Option (St × GRet) :=
  match s.pc t with
  | .enqDone _ => some ({ s with pc := upd s.pc t .idle, now := s.now + 1 }, [1])
  | .deqDone none => some ({ s with pc := upd s.pc t .idle, now := s.now + 1 }, [0])
  | .deqDone (some x) => some ({ s with pc := upd s.pc t .idle, now := s.now + 1 }, [1, (x : Int)])
  | _ => none

def model : Model St := ⟨invoke, step, result⟩

/-- The trace lines of a run, as the harness prints them (`T <tid> A <event>` for atomic events). -/
def render (os : List (Tid × Obs)) : List String :=
  os.map fun (t, o) => match o with
    | .call op => s!"T {t} C {op.name} {op.args}"
    | .ev e => s!"T {t} A {e}"
    | .ret r => s!"T {t} R {r}"

/-! ### Driver side (tie A): configuration from the case header, the warm-up, a decidable structure check -/

/-- Run one operation to completion on an otherwise quiet machine (the main thread's warm-up). -/
def runSeq (s : St) (t : Tid) (op : GOp) (fuel : Nat) : Option St :=
  match invoke s t op with
  | none => none
  | some s1 =>
    let rec go (s : St) : Nat → St
      | 0 => s
      | n + 1 => match step s t with
        | some (s', _) => go s' n
        | none => s
    match result (go s1 fuel) t with
    | some (s2, _) => some s2
    | none => none

/-- `E<v>/a.b/c.d` or `D/a.b`: an operation of the warm-up with the permutations it drew. -/
def parseWarmOp (w : String) : Option GOp :=
  match w.splitOn "/" with
  | [] => none
  | hd :: blocks =>
    let ps : List Int := (blocks.map (fun b => (b.splitOn ".").filterMap (fun x => x.toInt?))).flatten
    if hd.startsWith "E" then (hd.drop 1).toString.toInt?.map (fun v => ⟨"enq", v :: ps⟩)
    else if hd == "D" then some ⟨"deq", ps⟩
    else none

/-- The main thread of the harness. -/
def warmTid : Tid := 1000

/-- Initial state of a replay: header words `qf=<K>` and `warm=;E1001/1.0;D/0.1…` (the warm-up is RUN on the machine). -/
def initCfg (cfg : List String) : St :=
  let K := (cfg.findSome? (fun w => if w.startsWith "qf=" then (w.drop 3).toString.toNat? else none)).getD 2
  let warm := (cfg.findSome? (fun w => if w.startsWith "warm=" then some (w.drop 5).toString else none)).getD ""
  (warm.splitOn ";").foldl (fun s w =>
    match parseWarmOp w with
    | some op => (runSeq s warmTid op 100000).getD s
    | none => s) (init K)

/-- Decidable part of the structural invariant, checked after every replayed step. -/
def checkB (s : St) : Bool :=
  decide (s.lo ≤ s.nseg) &&
  (match s.head with | some h => decide (h ≤ s.lo ∧ h < s.nseg) | none => decide (s.lo = s.nseg)) &&
  (match s.tail with | some p => decide (p + 1 = s.nseg) | none => true) &&
  (List.range s.nseg).all (fun g => (List.range s.K).all (fun i =>
    (decide (s.lo ≤ g) || (s.cell g i).isDel) && (decide (s.nseg ≤ g + 1) || !(s.cell g i == .null))))

end CdsVerif.Algo.Segmented

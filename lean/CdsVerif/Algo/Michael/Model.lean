/-
  Atomic-step model of `cds::intrusive::MichaelList<HP>` (cds/intrusive/impl/michael_list.h): the Harris–Michael
  ordered lock-free list, functions `search`, `insert_at` / `link_node`, `erase_at` / `unlink_node`, `find_at`
  (`find` with functor and `contains`).

    MichaelList(): m_pHead = nullptr

    search( refHead, val, pos, cmp ):
      try_again:
        pPrev = &refHead;  pNext = nullptr
        pCur = pos.guards.protect( guard_current_item, *pPrev )    -- gc::GuardArray::protect:
                                                                   --   do { hp := ( pRet = load ) }              sLd1
                                                                   --   while ( pRet != load )                    sLd2
        while ( true ) {
            if ( pCur.ptr() == nullptr ) { pos = ( pPrev, null, null ); return false; }
            pNext = pos.guards.protect( guard_next_item, pCur->m_pNext )               -- sNx1, sNx2 (same loop)
            if ( pPrev->load().all() != pCur.ptr() ) goto try_again;                   -- sChk
            if ( pNext.bits() == 1 ) {                                                  --   (pCur is logically deleted)
                if ( pPrev->compare_exchange_strong( pCur.ptr(), pNext.ptr() ))         -- sHelp  (helping: unlink pCur)
                    retire_node( pCur.ptr() )
                else goto try_again;
            }
            else {
                nCmp = cmp( *pCur, val )                                                --   (local; decided in the sChk step)
                if ( nCmp >= 0 ) { pos = ( pPrev, pCur.ptr(), pNext.ptr() ); return nCmp == 0; }
                pPrev = &( pCur->m_pNext )
            }
            pCur = pNext
        }

    insert_at( val ):     while ( true ) {
                              if ( search( val, pos )) return false;
                              -- link_node( pNode, pos ):
                              pNode->m_pNext.store( pos.pCur )                                        -- iSt
                              if ( pos.pPrev->compare_exchange_strong( pos.pCur, pNode )) return true  -- iCas
                              pNode->m_pNext.store( nullptr )                                          -- iClr
                          }
    erase_at( key, f ):   while ( search( key, pos )) {
                              -- unlink_node( pos ):
                              if ( pos.pCur->m_pNext.compare_exchange_strong( ( pos.pNext, 0 ), ( pos.pNext, 1 ))) {   -- eMark
                                  if ( pos.pPrev->compare_exchange_strong( pos.pCur, pos.pNext ))                      -- eUnl
                                      retire_node( pos.pCur )         -- (a failed physical unlink is left to a later search)
                                  f( *pos.pCur ); return true
                              }
                          }
                          return false
    find_at( key, f ):    if ( search( key, pos )) { f( *pos.pCur, key ); return true; }  return false
    find_at( key ):       return search( key, pos )            -- contains

  Memory model of the model: garbage-collected heap.  A *cell* is a natural number: cell 0 is `m_pHead`, cell `a > 0`
  is the `m_pNext` word of node `a` (both are `atomic_node_ptr` in the code, and `pos.pPrev` points to either).
  A cell holds a pointer (`next`) and the mark bit (`mark`; never set on cell 0).  Client nodes are fresh (`cnt`,
  starting at 1) and never reused: this is what the hazard pointers published by `protect` guarantee in the real
  code (properties C01/C02), and it is an ASSUMPTION here.  Hazard-pointer stores, `retire_node`, the item counter,
  the statistics and the back-off are not modelled; `compare_exchange` never fails spuriously; interleavings are
  sequentially consistent.  Keys and payloads of nodes are immutable (the harness variant has no `update`).

  One `step` = one atomic operation on shared memory.  Event rendering (the `A` lines of the harness trace), with
  <loc> = `head` | `n<a>` and <val> = `null` | `n<a>` | `null|1` | `n<a>|1`:
      ld   <loc> <val>
      st   n<a>  <val>                  stores of link_node into the (still private) new node
      cas+ <loc> <old> <new>
      cas- <loc> <seen> <expected>
-/
import CdsVerif.Base.Machine
namespace CdsVerif.Algo.Michael
open CdsVerif.Machine CdsVerif.Spec

/-- The operation a thread is executing. -/
inductive OpK
  | ins (n : Nat)        -- insert( node n )      (key and payload are `key n`, `val n`)
  | era (k : Int)        -- erase( k, f )
  | fnd (k : Int)        -- find( k, f )
  | con (k : Int)        -- contains( k )
deriving DecidableEq, Repr

inductive PC
  | idle
  | sLd1 (o : OpK)                                          -- try_again; next: first load of protect( m_pHead )
  | sLd2 (o : OpK) (p : Option Nat)                         -- next: validating load of protect( m_pHead )
  | sNx1 (o : OpK) (prev cur : Nat)                         -- next: first load of protect( pCur->m_pNext )
  | sNx2 (o : OpK) (prev cur : Nat) (nx : Option Nat) (mk : Bool)   -- next: validating load of protect( pCur->m_pNext )
  | sChk (o : OpK) (prev cur : Nat) (nx : Option Nat) (mk : Bool)   -- next: pPrev->load() != pCur ? try_again : …
  | sHelp (o : OpK) (prev cur : Nat) (nx : Option Nat)      -- next: CAS( *pPrev, pCur, pNext.ptr() )   (helping)
  | iSt (n prev : Nat) (cur : Option Nat)                   -- next: pNode->m_pNext.store( pCur )
  | iCas (n prev : Nat) (cur : Option Nat)                  -- next: CAS( *pPrev, pCur, pNode )
  | iClr (n : Nat)                                          -- next: pNode->m_pNext.store( null ); then search again
  | eMark (k : Int) (prev cur : Nat) (nx : Option Nat)      -- next: CAS( pCur->m_pNext, ( pNext, 0 ), ( pNext, 1 ))
  | eUnl (k : Int) (prev cur : Nat) (nx : Option Nat)       -- next: CAS( *pPrev, pCur, pNext ); then return [1, v]
  | done (r : GRet)
deriving DecidableEq, Repr

structure St where
  next : Nat → Option Nat        -- pointer part of every cell (cell 0 = m_pHead)
  mark : Nat → Bool              -- mark bit of every cell
  key : Nat → Int                -- key of every node
  val : Nat → Int                -- payload of every node
  cnt : Nat                      -- next fresh node
  pc : Tid → PC

def init : St := ⟨fun _ => none, fun _ => false, fun _ => 0, fun _ => 0, 1, fun _ => .idle⟩

/-! ### Event rendering (the only place where events are built) -/

def loc (a : Nat) : String := if a = 0 then "head" else s!"n{a}"
def ptr : Option Nat → String
  | none => "null"
  | some a => s!"n{a}"
/-- A marked pointer as the harness prints it. -/
def mptr (p : Option Nat) (m : Bool) : String := if m then ptr p ++ "|1" else ptr p

def evLd (a : Nat) (p : Option Nat) (m : Bool) : Ev := ⟨"ld", loc a, mptr p m, ""⟩
def evSt (a : Nat) (p : Option Nat) (m : Bool) : Ev := ⟨"st", loc a, mptr p m, ""⟩
def evCasOk (a : Nat) (p : Option Nat) (m : Bool) (p' : Option Nat) (m' : Bool) : Ev :=
  ⟨"cas+", loc a, mptr p m, mptr p' m'⟩
def evCasFail (a : Nat) (seen : Option Nat) (sm : Bool) (exp : Option Nat) (em : Bool) : Ev :=
  ⟨"cas-", loc a, mptr seen sm, mptr exp em⟩

/-! ### Transitions -/

/-- The key `search` looks for. -/
def okey (key : Nat → Int) : OpK → Int
  | .ins n => key n
  | .era k => k
  | .fnd k => k
  | .con k => k

/-- `search` returned true with `pos = ( prev, cur, nx )`. -/
def found (val : Nat → Int) (o : OpK) (prev cur : Nat) (nx : Option Nat) : PC :=
  match o with
  | .ins _ => .done [0]
  | .era k => .eMark k prev cur nx
  | .fnd _ => .done [1, val cur]
  | .con _ => .done [1]

/-- `search` returned false with `pos = ( prev, cur, _ )`. -/
def notFound (o : OpK) (prev : Nat) (cur : Option Nat) : PC :=
  match o with
  | .ins n => .iSt n prev cur
  | .era _ => .done [0]
  | .fnd _ => .done [0]
  | .con _ => .done [0]

/-- The traversal goes on with `pCur := nx` (top of the `while` loop in `search`). -/
def advance (o : OpK) (prev : Nat) (nx : Option Nat) : PC :=
  match nx with
  | none => notFound o prev none
  | some x => .sNx1 o prev x

/-- What `search` does after the validation `pPrev->load() == pCur` has succeeded. -/
def afterChk (key val : Nat → Int) (o : OpK) (prev cur : Nat) (nx : Option Nat) (mk : Bool) : PC :=
  if mk then .sHelp o prev cur nx
  else if key cur = okey key o then found val o prev cur nx
  else if okey key o < key cur then notFound o prev (some cur)
  else advance o cur nx

/-- `insert [k, v]`: the client supplies a fresh node carrying `(k, v)` (its `m_pNext` is null: `link_checker`);
    `erase [k]`, `find [k]`, `contains [k]`. -/
def invoke (s : St) (t : Tid) (op : GOp) : Option St :=
  match s.pc t, op.name, op.args with
  | .idle, "insert", [k, v] =>
    some { s with key := upd s.key s.cnt k, val := upd s.val s.cnt v, cnt := s.cnt + 1,
                  pc := upd s.pc t (.sLd1 (.ins s.cnt)) }
  | .idle, "erase", [k] => some { s with pc := upd s.pc t (.sLd1 (.era k)) }
  | .idle, "find", [k] => some { s with pc := upd s.pc t (.sLd1 (.fnd k)) }
  | .idle, "contains", [k] => some { s with pc := upd s.pc t (.sLd1 (.con k)) }
  | _, _, _ => none

def step (s : St) (t : Tid) : Option (St × Ev) :=
  match s.pc t with
  | .sLd1 o => some ({ s with pc := upd s.pc t (.sLd2 o (s.next 0)) }, evLd 0 (s.next 0) (s.mark 0))
  | .sLd2 o p =>
    if s.next 0 = p then
      some ({ s with pc := upd s.pc t (advance o 0 p) }, evLd 0 (s.next 0) (s.mark 0))
    else
      some ({ s with pc := upd s.pc t (.sLd1 o) }, evLd 0 (s.next 0) (s.mark 0))
  | .sNx1 o prev cur =>
    some ({ s with pc := upd s.pc t (.sNx2 o prev cur (s.next cur) (s.mark cur)) }, evLd cur (s.next cur) (s.mark cur))
  | .sNx2 o prev cur nx mk =>
    if s.next cur = nx ∧ s.mark cur = mk then
      some ({ s with pc := upd s.pc t (.sChk o prev cur nx mk) }, evLd cur (s.next cur) (s.mark cur))
    else
      some ({ s with pc := upd s.pc t (.sNx1 o prev cur) }, evLd cur (s.next cur) (s.mark cur))
  | .sChk o prev cur nx mk =>
    if s.next prev = some cur ∧ s.mark prev = false then
      some ({ s with pc := upd s.pc t (afterChk s.key s.val o prev cur nx mk) }, evLd prev (s.next prev) (s.mark prev))
    else
      some ({ s with pc := upd s.pc t (.sLd1 o) }, evLd prev (s.next prev) (s.mark prev))
  | .sHelp o prev cur nx =>
    if s.next prev = some cur ∧ s.mark prev = false then
      some ({ s with next := upd s.next prev nx, pc := upd s.pc t (advance o prev nx) },
            evCasOk prev (some cur) false nx false)
    else
      some ({ s with pc := upd s.pc t (.sLd1 o) }, evCasFail prev (s.next prev) (s.mark prev) (some cur) false)
  | .iSt n prev cur =>
    some ({ s with next := upd s.next n cur, mark := upd s.mark n false, pc := upd s.pc t (.iCas n prev cur) },
          evSt n cur false)
  | .iCas n prev cur =>
    if s.next prev = cur ∧ s.mark prev = false then
      some ({ s with next := upd s.next prev (some n), pc := upd s.pc t (.done [1]) },
            evCasOk prev cur false (some n) false)
    else
      some ({ s with pc := upd s.pc t (.iClr n) }, evCasFail prev (s.next prev) (s.mark prev) cur false)
  | .iClr n =>
    some ({ s with next := upd s.next n none, mark := upd s.mark n false, pc := upd s.pc t (.sLd1 (.ins n)) },
          evSt n none false)
  | .eMark k prev cur nx =>
    if s.next cur = nx ∧ s.mark cur = false then
      some ({ s with mark := upd s.mark cur true, pc := upd s.pc t (.eUnl k prev cur nx) },
            evCasOk cur nx false nx true)
    else
      some ({ s with pc := upd s.pc t (.sLd1 (.era k)) }, evCasFail cur (s.next cur) (s.mark cur) nx false)
  | .eUnl _ prev cur nx =>
    if s.next prev = some cur ∧ s.mark prev = false then
      some ({ s with next := upd s.next prev nx, pc := upd s.pc t (.done [1, s.val cur]) },
            evCasOk prev (some cur) false nx false)
    else
      some ({ s with pc := upd s.pc t (.done [1, s.val cur]) },
            evCasFail prev (s.next prev) (s.mark prev) (some cur) false)
  | _ => none

def result (s : St) (t : Tid) : Option (St × GRet) :=
  match s.pc t with
  | .done r => some ({ s with pc := upd s.pc t .idle }, r)
  | _ => none

def model : Model St := ⟨invoke, step, result⟩

/-- The trace lines of a run, as the harness prints them (`T <tid> A <event>` for atomic events). -/
def render (os : List (Tid × Obs)) : List String :=
  os.map fun (t, o) => match o with
    | .call op => s!"T {t} C {op.name} {op.args}"
    | .ev e => s!"T {t} A {e}"
    | .ret r => s!"T {t} R {r}"

end CdsVerif.Algo.Michael

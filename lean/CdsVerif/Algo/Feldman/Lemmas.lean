/-
  Lemmas for the FeldmanHashSet model that do not mention the machine's steps:
    * prefixes of hash paths (`Pfx p i l`: `p ++ [i]` is a prefix of `l`);
    * the traversal functions `go` / `walk` / `stop` under the three kinds of slot update the algorithm performs
      (a slot that is not an array-node pointer changes to another such value; a slot of an unpublished array node
      changes; a converting slot becomes the pointer to a prepared array node);
    * the sequential map specification seen through a lookup function.
-/
import CdsVerif.Algo.Feldman.Model
namespace CdsVerif.Algo.Feldman
open CdsVerif.Machine CdsVerif.Spec CdsVerif.Lin

/-! ### Prefixes -/

/-- `p ++ [i]` is a prefix of `l` -/
def Pfx (p : List Nat) (i : Nat) (l : List Nat) : Prop :=
  p.length < l.length ∧ l.take p.length = p ∧ l.getD p.length 0 = i

theorem take_succ_getD (l : List Nat) (n : Nat) (h : n < l.length) : l.take (n + 1) = l.take n ++ [l.getD n 0] := by
  rw [List.take_add_one]
  simp [List.getD, List.getElem?_eq_getElem h]

theorem pfx_of_take (l : List Nat) (n : Nat) (h : n < l.length) : Pfx (l.take n) (l.getD n 0) l := by
  have hl : (l.take n).length = n := by simp; omega
  refine ⟨by omega, by rw [hl], by rw [hl]⟩

theorem Pfx.take_eq {p : List Nat} {i : Nat} {l : List Nat} (h : Pfx p i l) : l.take (p.length + 1) = p ++ [i] := by
  obtain ⟨h1, h2, h3⟩ := h
  rw [take_succ_getD l _ h1, h2, h3]

theorem Pfx.split {p : List Nat} {i : Nat} {l : List Nat} (h : Pfx p i l) : l = p ++ i :: l.drop (p.length + 1) := by
  have := h.take_eq
  calc l = l.take (p.length + 1) ++ l.drop (p.length + 1) := (List.take_append_drop _ _).symm
    _ = (p ++ [i]) ++ l.drop (p.length + 1) := by rw [this]
    _ = p ++ i :: l.drop (p.length + 1) := by simp

theorem Pfx.snoc {p : List Nat} {i : Nat} {l : List Nat} (h : Pfx p i l) (h2 : p.length + 1 < l.length) :
    Pfx (p ++ [i]) (l.getD (p.length + 1) 0) l := by
  have hl : (p ++ [i]).length = p.length + 1 := by simp
  refine ⟨by omega, by rw [hl]; exact h.take_eq, by rw [hl]⟩

theorem Pfx.of_split {p : List Nat} {i : Nat} {r l : List Nat} (h : l = p ++ i :: r) : Pfx p i l := by
  subst h
  refine ⟨by simp, by simp, by simp [List.getD]⟩

theorem Pfx.full_eq {p : List Nat} {i : Nat} {l l' : List Nat} (h : Pfx p i l) (h' : Pfx p i l')
    (hl : l.length = p.length + 1) (hl' : l'.length = p.length + 1) : l = l' := by
  have e1 := h.take_eq
  have e2 := h'.take_eq
  rw [List.take_of_length_le (by omega)] at e1 e2
  rw [e1, e2]

theorem Pfx.idx_eq {p : List Nat} {i i' : Nat} {l : List Nat} (h : Pfx p i l) (h' : Pfx p i' l) : i = i' := by
  rw [← h.2.2, ← h'.2.2]

/-! ### Traversals -/

theorem go_cons (cell : Nat → Nat → Cell) (k : Int) (a i : Nat) (rest : List Nat) :
    go cell k a (i :: rest) = match cell a i with
      | .arr b => go cell k b rest
      | v => leaf k v := by
  cases h : cell a i <;> simp [go, h]

theorem walk_snoc (cell : Nat → Nat → Cell) : ∀ (p : List Nat) (a0 a i b : Nat),
    walk cell a0 p = some a → cell a i = .arr b → walk cell a0 (p ++ [i]) = some b := by
  intro p
  induction p with
  | nil => intro a0 a i b h hc; simp [walk] at h; subst h; simp [walk, hc]
  | cons j p ih =>
    intro a0 a i b h hc
    simp only [walk, List.cons_append] at h ⊢
    cases hj : cell a0 j with
    | arr b' => simp only [hj] at h ⊢; exact ih _ _ _ _ h hc
    | null => simp [hj] at h
    | data n => simp [hj] at h
    | conv n => simp [hj] at h

/-- array-node pointers are never removed: a position once reached stays reached -/
theorem walk_mono {cell cell' : Nat → Nat → Cell} (hm : ∀ a i b, cell a i = .arr b → cell' a i = .arr b) :
    ∀ (p : List Nat) (a0 a : Nat), walk cell a0 p = some a → walk cell' a0 p = some a := by
  intro p
  induction p with
  | nil => intro a0 a h; simpa [walk] using h
  | cons j p ih =>
    intro a0 a h
    simp only [walk] at h ⊢
    cases hj : cell a0 j with
    | arr b' => simp only [hj] at h; rw [hm _ _ _ hj]; exact ih _ _ h
    | null => simp [hj] at h
    | data n => simp [hj] at h
    | conv n => simp [hj] at h

theorem go_split (cell : Nat → Nat → Cell) (k : Int) : ∀ (p q : List Nat) (a0 a : Nat),
    walk cell a0 p = some a → go cell k a0 (p ++ q) = go cell k a q := by
  intro p
  induction p with
  | nil => intro q a0 a h; simp [walk] at h; subst h; rfl
  | cons j p ih =>
    intro q a0 a h
    simp only [walk] at h
    simp only [List.cons_append, go_cons]
    cases hj : cell a0 j with
    | arr b' => simp only [hj] at h ⊢; exact ih _ _ _ h
    | null => simp [hj] at h
    | data n => simp [hj] at h
    | conv n => simp [hj] at h

theorem stop_split (cell : Nat → Nat → Cell) : ∀ (p q : List Nat) (a0 a : Nat),
    walk cell a0 p = some a → stop cell a0 (p ++ q) = stop cell a q := by
  intro p
  induction p with
  | nil => intro q a0 a h; simp [walk] at h; subst h; rfl
  | cons j p ih =>
    intro q a0 a h
    simp only [walk] at h
    simp only [List.cons_append, stop]
    cases hj : cell a0 j with
    | arr b' => simp only [hj] at h ⊢; exact ih _ _ _ h
    | null => simp [hj] at h
    | data n => simp [hj] at h
    | conv n => simp [hj] at h

/-- the walk records the ghost prefix -/
theorem walk_pre {cell : Nat → Nat → Cell} {pre : Nat → List Nat}
    (hp : ∀ a i b, cell a i = .arr b → pre b = pre a ++ [i]) :
    ∀ (p : List Nat) (a0 a : Nat), walk cell a0 p = some a → pre a = pre a0 ++ p := by
  intro p
  induction p with
  | nil => intro a0 a h; simp [walk] at h; subst h; simp
  | cons j p ih =>
    intro a0 a h
    simp only [walk] at h
    cases hj : cell a0 j with
    | arr b' => simp only [hj] at h; rw [ih _ _ h, hp _ _ _ hj]; simp
    | null => simp [hj] at h
    | data n => simp [hj] at h
    | conv n => simp [hj] at h

/-- an array node reached by a non-empty walk is pointed to by a slot -/
theorem walk_published (cell : Nat → Nat → Cell) : ∀ (p : List Nat) (a0 a : Nat),
    walk cell a0 p = some a → a = a0 ∨ ∃ a' i, cell a' i = .arr a := by
  intro p
  induction p with
  | nil => intro a0 a h; simp [walk] at h; exact Or.inl h.symm
  | cons j p ih =>
    intro a0 a h
    simp only [walk] at h
    cases hj : cell a0 j with
    | arr b' =>
      simp only [hj] at h
      rcases ih _ _ h with e | e
      · subst e; exact Or.inr ⟨a0, j, hj⟩
      · exact Or.inr e
    | null => simp [hj] at h
    | data n => simp [hj] at h
    | conv n => simp [hj] at h

/-- A slot that is not an array-node pointer is replaced by a value that is not one either and gives key `k` the
    same answer: nothing changes for `k`. -/
theorem go_upd_leaf (cell : Nat → Nat → Cell) (k : Int) (a i : Nat) (v : Cell)
    (h1 : ∀ b, cell a i ≠ .arr b) (h2 : ∀ b, v ≠ .arr b) (h3 : leaf k v = leaf k (cell a i)) :
    ∀ (p : List Nat) (a0 : Nat), go (upd2 cell a i v) k a0 p = go cell k a0 p := by
  intro p
  induction p with
  | nil => intro a0; rfl
  | cons j p ih =>
    intro a0
    simp only [go_cons]
    by_cases hh : a0 = a ∧ j = i
    · obtain ⟨rfl, rfl⟩ := hh
      have e : upd2 cell a0 j v a0 j = v := by simp [upd2]
      rw [e]
      cases hv : v with
      | arr b => exact absurd hv (h2 b)
      | null =>
        cases hc : cell a0 j with
        | arr b => exact absurd hc (h1 b)
        | null => rfl
        | data n => rw [hv, hc] at h3; simpa using h3
        | conv n => rw [hv, hc] at h3; simpa using h3
      | data m =>
        cases hc : cell a0 j with
        | arr b => exact absurd hc (h1 b)
        | null => rw [hv, hc] at h3; simpa using h3
        | data n => rw [hv, hc] at h3; simpa using h3
        | conv n => rw [hv, hc] at h3; simpa using h3
      | conv m =>
        cases hc : cell a0 j with
        | arr b => exact absurd hc (h1 b)
        | null => rw [hv, hc] at h3; simpa using h3
        | data n => rw [hv, hc] at h3; simpa using h3
        | conv n => rw [hv, hc] at h3; simpa using h3
    · have e : upd2 cell a i v a0 j = cell a0 j := by simp only [upd2, if_neg hh]
      rw [e]
      cases hc : cell a0 j with
      | arr b => exact ih b
      | null => rfl
      | data n => rfl
      | conv n => rfl

/-- A slot of an array node that no slot points to changes: no traversal started elsewhere notices. -/
theorem go_upd_unreach (cell : Nat → Nat → Cell) (k : Int) (b j : Nat) (v : Cell)
    (h1 : ∀ a i, cell a i ≠ .arr b) :
    ∀ (p : List Nat) (a0 : Nat), a0 ≠ b → go (upd2 cell b j v) k a0 p = go cell k a0 p := by
  intro p
  induction p with
  | nil => intro a0 _; rfl
  | cons i p ih =>
    intro a0 hne
    simp only [go_cons]
    have e : upd2 cell b j v a0 i = cell a0 i := by
      simp only [upd2]; rw [if_neg]; intro hh; exact hne hh.1
    rw [e]
    cases hc : cell a0 i with
    | arr b' => exact ih b' (by intro hb; subst hb; exact h1 _ _ hc)
    | null => rfl
    | data n => rfl
    | conv n => rfl

/-- The publication step of `expand_slot`: the converting slot `(a, i)` (holding item `n`, at depth `|pre a|`) becomes
    the pointer to array node `b`, whose only non-null slot is the slot of `n` at the next level, holding `n`.
    Every traversal from the head array finds what it found before. -/
theorem go_publish {cell : Nat → Nat → Cell} {pre : Nat → List Nat} {path : Int → List Nat} {depth : Nat}
    {a i b : Nat} {n : Node}
    (hlen : ∀ k, (path k).length = depth)
    (hp : ∀ a i b, cell a i = .arr b → pre b = pre a ++ [i])
    (hc : cell a i = .conv n) (hab : a ≠ b)
    (hn : Pfx (pre a) i (path n.key)) (hd : (pre a).length + 1 < depth)
    (hb1 : cell b ((path n.key).getD ((pre a).length + 1) 0) = .data n)
    (hb2 : ∀ j, j ≠ (path n.key).getD ((pre a).length + 1) 0 → cell b j = .null) (k : Int) :
    ∀ (p : List Nat) (a0 : Nat), pre a0 ++ p = path k →
      go (upd2 cell a i (.arr b)) k a0 p = go cell k a0 p := by
  intro p
  induction p with
  | nil => intro a0 _; rfl
  | cons i0 p ih =>
    intro a0 hpath
    simp only [go_cons]
    by_cases hh : a0 = a ∧ i0 = i
    · obtain ⟨rfl, rfl⟩ := hh
      have e : upd2 cell a0 i0 (.arr b) a0 i0 = .arr b := by simp [upd2]
      rw [e, hc]
      simp only [leaf]
      -- what the traversal reads in `b`
      cases p with
      | nil =>
        have : (path k).length = (pre a0).length + 1 := by rw [← hpath]; simp
        have hk : n.key ≠ k := by
          intro hk; subst hk
          have := hlen n.key; omega
        simp [go, hk]
      | cons j' r2 =>
        simp only [go_cons]
        have e2 : upd2 cell a0 i0 (.arr b) b j' = cell b j' := by
          simp only [upd2]; rw [if_neg]; intro hh; exact hab hh.1.symm
        rw [e2]
        have hj' : (path k).getD ((pre a0).length + 1) 0 = j' := by
          rw [← hpath]; simp [List.getD]
        by_cases hk : n.key = k
        · subst hk
          rw [hj'] at hb1
          rw [hb1]; simp [leaf]
        · by_cases hjj : j' = (path n.key).getD ((pre a0).length + 1) 0
          · rw [hjj, hb1]; simp [leaf, hk]
          · rw [hb2 j' hjj]; simp [leaf, hk]
    · have e : upd2 cell a i (.arr b) a0 i0 = cell a0 i0 := by simp only [upd2, if_neg hh]
      rw [e]
      cases hc0 : cell a0 i0 with
      | arr b' =>
        apply ih b'
        rw [hp _ _ _ hc0, ← hpath]; simp
      | null => rfl
      | data m => rfl
      | conv m => rfl

/-- The terminal slot of a traversal: a position reached through array-node pointers whose slot is not one. -/
theorem stop_at (cell : Nat → Nat → Cell) (p q : List Nat) (a i : Nat)
    (hw : walk cell 0 p = some a) (hc : ∀ b, cell a i ≠ .arr b) : stop cell 0 (p ++ i :: q) = some (a, i) := by
  rw [stop_split cell p (i :: q) 0 a hw]
  cases h : cell a i with
  | arr b => exact absurd h (hc b)
  | null => simp [stop, h]
  | data n => simp [stop, h]
  | conv n => simp [stop, h]

theorem go_at (cell : Nat → Nat → Cell) (k : Int) (p q : List Nat) (a i : Nat)
    (hw : walk cell 0 p = some a) (hc : ∀ b, cell a i ≠ .arr b) : go cell k 0 (p ++ i :: q) = leaf k (cell a i) := by
  rw [go_split cell k p (i :: q) 0 a hw, go_cons]
  cases h : cell a i with
  | arr b => exact absurd h (hc b)
  | null => rfl
  | data n => rfl
  | conv n => rfl

/-! ### The sequential specification seen through a lookup function -/

theorem mfind_cons (m : MapSt) (k v j : Int) : mfind ((k, v) :: m) j = if j = k then some v else mfind m j := by
  unfold mfind
  simp only [List.find?_cons]
  by_cases h : j = k
  · subst h; simp
  · have : ((k, v).1 == j) = false := by simpa using fun e => h e.symm
    simp [this, h]

theorem mfind_merase (m : MapSt) (k j : Int) : mfind (merase m k) j = if j = k then none else mfind m j := by
  induction m with
  | nil => simp [mfind, merase]
  | cons e m ih =>
    obtain ⟨k1, v1⟩ := e
    by_cases h1 : k1 = k
    · subst h1
      have : merase ((k1, v1) :: m) k1 = merase m k1 := by simp [merase]
      rw [this, ih, mfind_cons]
      by_cases h2 : j = k1 <;> simp [h2]
    · have : merase ((k1, v1) :: m) k = (k1, v1) :: merase m k := by simp [merase, h1]
      rw [this, mfind_cons, mfind_cons, ih]
      by_cases h2 : j = k1
      · subst h2; simp [h1]
      · simp [h2]

/-- The operation `op` with result `r` takes the abstract map `L` to `L'` (for every representation of `L` as a state
    of the sequential map specification). -/
def LPok (L : Int → Option Int) (op : GOp) (r : GRet) (L' : Int → Option Int) : Prop :=
  ∀ m : MapSt, (∀ k, mfind m k = L k) → ∃ m', Spec.map.next m op r = some m' ∧ ∀ k, mfind m' k = L' k

theorem LPok.ins_ok {L L' : Int → Option Int} {k v : Int} (h0 : L k = none)
    (h1 : ∀ j, L' j = if j = k then some v else L j) : LPok L ⟨"insert", [k, v]⟩ [1] L' := by
  intro m hm
  have hn : mfind m k = none := by rw [hm, h0]
  refine ⟨(k, v) :: m, by simp [Spec.map, detSpec, mapStep, hn], ?_⟩
  intro j; rw [mfind_cons, h1, hm]

theorem LPok.upd_new {L L' : Int → Option Int} {k v al : Int} (h0 : L k = none) (hal : al ≠ 0)
    (h1 : ∀ j, L' j = if j = k then some v else L j) : LPok L ⟨"update", [k, v, al]⟩ [1, 1] L' := by
  intro m hm
  have hn : mfind m k = none := by rw [hm, h0]
  refine ⟨(k, v) :: m, by simp [Spec.map, detSpec, mapStep, hn, hal], ?_⟩
  intro j; rw [mfind_cons, h1, hm]

theorem LPok.upd_repl {L L' : Int → Option Int} {k v w al : Int} (h0 : L k = some w)
    (h1 : ∀ j, L' j = if j = k then some v else L j) : LPok L ⟨"update", [k, v, al]⟩ [1, 0] L' := by
  intro m hm
  have hn : mfind m k = some w := by rw [hm, h0]
  refine ⟨(k, v) :: merase m k, by simp [Spec.map, detSpec, mapStep, hn], ?_⟩
  intro j; rw [mfind_cons, mfind_merase, h1, hm]
  by_cases e : j = k <;> simp [e]

theorem LPok.upd_refused {L L' : Int → Option Int} {k v : Int} (h0 : L k = none)
    (h1 : ∀ j, L' j = L j) : LPok L ⟨"update", [k, v, 0]⟩ [0, 0] L' := by
  intro m hm
  have hn : mfind m k = none := by rw [hm, h0]
  refine ⟨m, by simp [Spec.map, detSpec, mapStep, hn], ?_⟩
  intro j; rw [h1, hm]

theorem LPok.era_ok {L L' : Int → Option Int} {k v : Int} (h0 : L k = some v)
    (h1 : ∀ j, L' j = if j = k then none else L j) : LPok L ⟨"erase", [k]⟩ [1, v] L' := by
  intro m hm
  have hs : mfind m k = some v := by rw [hm, h0]
  refine ⟨merase m k, by simp [Spec.map, detSpec, mapStep, hs], ?_⟩
  intro j; rw [mfind_merase, h1, hm]

theorem LPok.ro_some {L L' : Int → Option Int} {k v : Int} {op : GOp} {r : GRet} (h0 : L k = some v)
    (h1 : ∀ j, L' j = L j)
    (hop : (∃ v', op = ⟨"insert", [k, v']⟩ ∧ r = [0]) ∨ (op = ⟨"find", [k]⟩ ∧ r = [1, v]) ∨
           (op = ⟨"contains", [k]⟩ ∧ r = [1])) : LPok L op r L' := by
  intro m hm
  have hs : mfind m k = some v := by rw [hm, h0]
  refine ⟨m, ?_, fun j => by rw [h1, hm]⟩
  rcases hop with ⟨v', rfl, rfl⟩ | ⟨rfl, rfl⟩ | ⟨rfl, rfl⟩ <;> simp [Spec.map, detSpec, mapStep, hs]

theorem LPok.ro_none {L L' : Int → Option Int} {k : Int} {op : GOp} (h0 : L k = none)
    (h1 : ∀ j, L' j = L j)
    (hop : op = ⟨"erase", [k]⟩ ∨ op = ⟨"find", [k]⟩ ∨ op = ⟨"contains", [k]⟩) : LPok L op [0] L' := by
  intro m hm
  have hn : mfind m k = none := by rw [hm, h0]
  refine ⟨m, ?_, fun j => by rw [h1, hm]⟩
  rcases hop with rfl | rfl | rfl <;> simp [Spec.map, detSpec, mapStep, hn]

end CdsVerif.Algo.Feldman

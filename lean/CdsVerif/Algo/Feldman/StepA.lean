/-
  Preservation of `SInv` by the steps that do not write a slot: `trav`, `prot1`, `prot2`, and the failing CASes.
-/
import CdsVerif.Algo.Feldman.Inv
namespace CdsVerif.Algo.Feldman
open CdsVerif.Machine CdsVerif.Spec CdsVerif.Lin

/-- A step that changes only the program counter of its thread, to a counter with the same position that owns no
    array node and holds no converting slot, and satisfies the local clauses. -/
theorem sinv_pc_only {c : Cfg} {s : St} {t : Tid} {pc' : PC} (h : SInv c s)
    (hpos : ∀ op a lvl, posOf pc' = some (op, a, lvl) →
      Pub s a ∧ a < s.acnt ∧ lvl < c.depth ∧ s.pre a = (c.path (okey op)).take lvl)
    (hown : ownOf pc' = none) (hcv : cvOf c pc' = none)
    (hI : ∀ op a lvl, pc' = .casIns op a lvl → isGA op = true ∧ ∀ n0, op ≠ .upd n0 0)
    (hE : ∀ op a lvl n, pc' = .casEra op a lvl n → n.key = okey op ∧ ∃ k, op = .era k)
    (hU : ∀ op a lvl n, pc' = .casUpd op a lvl n → n.key = okey op ∧ ∃ n0 al, op = .upd n0 al)
    (hA : ∀ op a lvl n, pc' = .xAlloc op a lvl n → lvl + 1 < c.depth) :
    SInv c { s with pc := upd s.pc t pc' } := by
  obtain ⟨pre0, acpos, fresh, arrp, onp, pos, casI, casE, casU, xA, own, ownd, xNull, xConvd, xUniq, xFull⟩ := h
  constructor
  · exact pre0
  · exact acpos
  · exact fresh
  · exact arrp
  · exact onp
  · intro t2 op2 a lvl hpo
    by_cases ht : t2 = t
    · subst ht; simp only [upd_same] at hpo; exact hpos op2 a lvl hpo
    · simp only [upd, if_neg ht] at hpo; exact pos t2 op2 a lvl hpo
  · intro t2 op2 a lvl hpc
    by_cases ht : t2 = t
    · subst ht; simp only [upd_same] at hpc; exact hI op2 a lvl hpc
    · simp only [upd, if_neg ht] at hpc; exact casI t2 op2 a lvl hpc
  · intro t2 op2 a lvl n hpc
    by_cases ht : t2 = t
    · subst ht; simp only [upd_same] at hpc; exact hE op2 a lvl n hpc
    · simp only [upd, if_neg ht] at hpc; exact casE t2 op2 a lvl n hpc
  · intro t2 op2 a lvl n hpc
    by_cases ht : t2 = t
    · subst ht; simp only [upd_same] at hpc; exact hU op2 a lvl n hpc
    · simp only [upd, if_neg ht] at hpc; exact casU t2 op2 a lvl n hpc
  · intro t2 op2 a lvl n hpc
    by_cases ht : t2 = t
    · subst ht; simp only [upd_same] at hpc; exact hA op2 a lvl n hpc
    · simp only [upd, if_neg ht] at hpc; exact xA t2 op2 a lvl n hpc
  · intro t2 op2 a lvl n b hpc
    by_cases ht : t2 = t
    · subst ht; simp only [upd_same, hown] at hpc; simp at hpc
    · simp only [upd, if_neg ht] at hpc; exact own t2 op2 a lvl n b hpc
  · intro t2 t3 op2 a lvl n b op3 a3 lvl3 n3 hne h2 h3
    by_cases ht : t2 = t
    · subst ht; simp only [upd_same, hown] at h2; simp at h2
    · by_cases ht3 : t3 = t
      · subst ht3; simp only [upd_same, hown] at h3; simp at h3
      · simp only [upd, if_neg ht] at h2; simp only [upd, if_neg ht3] at h3
        exact ownd t2 t3 op2 a lvl n b op3 a3 lvl3 n3 hne h2 h3
  · intro t2 op2 a lvl n b hpc
    by_cases ht : t2 = t
    · subst ht; simp only [upd_same] at hpc
      rcases hpc with hpc | hpc <;> (rw [hpc] at hown; simp [ownOf] at hown)
    · simp only [upd, if_neg ht] at hpc; exact xNull t2 op2 a lvl n b hpc
  · intro t2 a i n hpc
    by_cases ht : t2 = t
    · subst ht; simp only [upd_same, hcv] at hpc; simp at hpc
    · simp only [upd, if_neg ht] at hpc; exact xConvd t2 a i n hpc
  · intro t2 t3 a i n n3 hne h2 h3
    by_cases ht : t2 = t
    · subst ht; simp only [upd_same, hcv] at h2; simp at h2
    · by_cases ht3 : t3 = t
      · subst ht3; simp only [upd_same, hcv] at h3; simp at h3
      · simp only [upd, if_neg ht] at h2; simp only [upd, if_neg ht3] at h3
        exact xUniq t2 t3 a i n n3 hne h2 h3
  · intro t2 op2 a lvl n b hpc
    by_cases ht : t2 = t
    · subst ht; simp only [upd_same] at hpc; rw [hpc] at hown; simp [ownOf] at hown
    · simp only [upd, if_neg ht] at hpc; exact xFull t2 op2 a lvl n b hpc

/-! ### `decideOp` -/

theorem decideOp_pos (c : Cfg) (op : Op) (a lvl : Nat) (cl : Cell) (x : Op × Nat × Nat)
    (h : posOf (decideOp c op a lvl cl) = some x) : x = (op, a, lvl) := by
  unfold decideOp at h
  repeat' split at h
  all_goals (simp [posOf] at h)
  all_goals (first | exact h.symm | (obtain ⟨rfl, rfl, rfl⟩ := h; rfl))

theorem decideOp_own (c : Cfg) (op : Op) (a lvl : Nat) (cl : Cell) :
    ownOf (decideOp c op a lvl cl) = none ∧ cvOf c (decideOp c op a lvl cl) = none := by
  unfold decideOp
  repeat' split
  all_goals (simp [ownOf, cvOf])

theorem decideOp_I (c : Cfg) (op : Op) (a lvl : Nat) (cl : Cell) (op' : Op) (a' l' : Nat)
    (h : decideOp c op a lvl cl = .casIns op' a' l') : isGA op' = true ∧ ∀ n0, op' ≠ .upd n0 0 := by
  unfold decideOp at h
  repeat' split at h
  all_goals (simp at h)
  all_goals (obtain ⟨rfl, -, -⟩ := h; simp_all [isGA])

theorem decideOp_E (c : Cfg) (op : Op) (a lvl : Nat) (cl : Cell) (op' : Op) (a' l' : Nat) (n : Node)
    (h : decideOp c op a lvl cl = .casEra op' a' l' n) : n.key = okey op' ∧ ∃ k, op' = .era k := by
  unfold decideOp at h
  repeat' split at h
  all_goals (simp at h)
  all_goals (obtain ⟨rfl, -, -, rfl⟩ := h; simp_all)

theorem decideOp_U (c : Cfg) (op : Op) (a lvl : Nat) (cl : Cell) (op' : Op) (a' l' : Nat) (n : Node)
    (h : decideOp c op a lvl cl = .casUpd op' a' l' n) : n.key = okey op' ∧ ∃ n0 al, op' = .upd n0 al := by
  unfold decideOp at h
  repeat' split at h
  all_goals (simp at h)
  all_goals (obtain ⟨rfl, -, -, rfl⟩ := h; simp_all)

theorem decideOp_A (c : Cfg) (op : Op) (a lvl : Nat) (cl : Cell) (op' : Op) (a' l' : Nat) (n : Node)
    (h : decideOp c op a lvl cl = .xAlloc op' a' l' n) : l' + 1 < c.depth := by
  unfold decideOp at h
  repeat' split at h
  all_goals (simp at h)
  all_goals (obtain ⟨-, -, rfl, -⟩ := h; assumption)

/-! ### The steps -/

/-- the thread goes (back) to `trav` at its position -/
theorem sinv_to_trav {c : Cfg} {s : St} {t : Tid} {op : Op} {a lvl : Nat} (h : SInv c s)
    (hpo : posOf (s.pc t) = some (op, a, lvl)) : SInv c { s with pc := upd s.pc t (.trav op a lvl) } := by
  apply sinv_pc_only h
  · intro op2 a2 l2 h2; simp [posOf] at h2; obtain ⟨rfl, rfl, rfl⟩ := h2; exact h.pos t _ _ _ hpo
  · rfl
  · rfl
  all_goals (intros; simp_all)

theorem sinv_trav {c : Cfg} {s s' : St} {t : Tid} {ev : Ev} {op : Op} {a lvl : Nat} (hp : PathHyp c) (h : SInv c s)
    (hpc : s.pc t = .trav op a lvl) (hs : step c s t = some (s', ev)) : SInv c s' := by
  have hpo := h.pos t op a lvl (by simp [hpc, posOf])
  simp only [step, hpc] at hs
  split at hs
  · next b hb =>
    simp only [Option.some.injEq, Prod.mk.injEq] at hs; obtain ⟨rfl, -⟩ := hs
    have ha := h.arrp _ _ _ hb
    have hl := pos_len hp hpo.2.2.1 hpo.2.2.2
    apply sinv_pc_only h
    · intro op2 a2 l2 h2; simp [posOf] at h2; obtain ⟨rfl, rfl, rfl⟩ := h2
      refine ⟨Or.inr ?_, ha.2.2.2.2.1, by omega, ?_⟩
      · rw [ha.1, ha.2.1]; exact hb
      · rw [ha.2.2.1]; exact pos_next hp hpo.2.2.1 hpo.2.2.2
    · rfl
    · rfl
    all_goals (intros; simp_all)
  · simp only [Option.some.injEq, Prod.mk.injEq] at hs; obtain ⟨rfl, -⟩ := hs; exact h
  · simp only [Option.some.injEq, Prod.mk.injEq] at hs; obtain ⟨rfl, -⟩ := hs
    apply sinv_pc_only h
    · intro op2 a2 l2 h2; simp [posOf] at h2; obtain ⟨rfl, rfl, rfl⟩ := h2; exact hpo
    · rfl
    · rfl
    all_goals (intros; simp_all)

theorem sinv_prot1 {c : Cfg} {s s' : St} {t : Tid} {ev : Ev} {op : Op} {a lvl : Nat} {cl : Cell} (h : SInv c s)
    (hpc : s.pc t = .prot1 op a lvl cl) (hs : step c s t = some (s', ev)) : SInv c s' := by
  have hpo := h.pos t op a lvl (by simp [hpc, posOf])
  simp only [step, hpc, Option.some.injEq, Prod.mk.injEq] at hs; obtain ⟨rfl, -⟩ := hs
  apply sinv_pc_only h
  · intro op2 a2 l2 h2; simp [posOf] at h2; obtain ⟨rfl, rfl, rfl⟩ := h2; exact hpo
  · rfl
  · rfl
  all_goals (intros; simp_all)

theorem sinv_prot2 {c : Cfg} {s s' : St} {t : Tid} {ev : Ev} {op : Op} {a lvl : Nat} {cl x : Cell} (h : SInv c s)
    (hpc : s.pc t = .prot2 op a lvl cl x) (hs : step c s t = some (s', ev)) : SInv c s' := by
  have hpo := h.pos t op a lvl (by simp [hpc, posOf])
  simp only [step, hpc] at hs
  split at hs
  · simp only [Option.some.injEq, Prod.mk.injEq] at hs; obtain ⟨rfl, -⟩ := hs
    apply sinv_pc_only h
    · intro op2 a2 l2 h2; split at h2 <;> (simp [posOf] at h2; obtain ⟨rfl, rfl, rfl⟩ := h2; exact hpo)
    · split <;> rfl
    · split <;> rfl
    all_goals (intros; split at * <;> simp_all)
  · split at hs
    · simp only [Option.some.injEq, Prod.mk.injEq] at hs; obtain ⟨rfl, -⟩ := hs
      exact sinv_to_trav h (by simp [hpc, posOf])
    · simp only [Option.some.injEq, Prod.mk.injEq] at hs; obtain ⟨rfl, -⟩ := hs
      apply sinv_pc_only h
      · intro op2 a2 l2 h2
        have := decideOp_pos c op a lvl cl _ h2
        simp only [Prod.mk.injEq] at this; obtain ⟨rfl, rfl, rfl⟩ := this; exact hpo
      · exact (decideOp_own c op a lvl cl).1
      · exact (decideOp_own c op a lvl cl).2
      · exact decideOp_I c op a lvl cl
      · exact decideOp_E c op a lvl cl
      · exact decideOp_U c op a lvl cl
      · exact decideOp_A c op a lvl cl

/-- a CAS that fails: back to `traverse` -/
theorem sinv_cas_fail {c : Cfg} {s s' : St} {t : Tid} {op : Op} {a lvl : Nat} (h : SInv c s)
    (hpo : posOf (s.pc t) = some (op, a, lvl)) (hs' : s' = { s with pc := upd s.pc t (.trav op a lvl) }) :
    SInv c s' := by
  subst hs'; exact sinv_to_trav h hpo

end CdsVerif.Algo.Feldman

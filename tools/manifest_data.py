HOOK_COMMITS = ["1ff129b", "a99d5e7"]
FIX_COMMITS = ["4e1b160", "0b73798", "872da6d"]
NOTES = "See DESIGN.md. Every check rebuilds the Lean property module, audits axioms, rebuilds the harness from /repo's working tree (content-hash cache) and runs the ties."
NOT_APPLICABLE = {}
CHECKS = {
 "C09": {
  "category": "translation_validation",
  "technique": "Lean 4: verified linearizability checker (sound+complete theorem) judging histories of the real stacks under a deterministic scheduler",
  "text": "Histories of every stack variant, produced by the real code under seeded random/PCT schedules and exhaustive <=1 (thorough <=2) preemption enumeration, are judged against the Lean LIFO specification by a checker proved sound and complete in Lean. The theorem is about the checker and the specification; the algorithm model (Treiber atomic-step machine) is added on top when finished.",
  "note": "SC interleavings only; memory orders not modelled; explored schedules only for the history tie; Lean kernel + propext/Classical.choice/Quot.sound.",
 },
 "C22": {
  "category": "proof",
  "technique": "Lean 4: inductive invariant over an atomic-step machine of spin_lock (all schedules, threads, locks) + atomic-trace conformance of the real lock against that machine + history tie for all five lock kinds",
  "text": "Mutual exclusion of cds::sync::spin_lock is a Lean theorem over an interleaving machine with one transition per atomic operation, for every schedule, thread count, number of locks and client program obeying the unlock discipline; the machine is tied to the real code by replaying instrumented traces step by step. reentrant_spin_lock, pool_monitor, injecting_monitor and lock_array are decided by histories judged against the Lean lock specification with the verified checker plus occupancy and pool oracles on explored schedules (those clauses are translation validation, named in the evidence).",
  "note": "SC interleavings; memory orders not modelled; discipline (only a holder unlocks) assumed by the theorem and obeyed by the harness; Lean kernel + propext/Classical.choice/Quot.sound.",
 },
 "C25": {
  "category": "proof",
  "technique": "Lean 4 theorems over BitVec about definitions regenerated from the C++ headers on every run (clang AST translator), cross-checked by differential evaluation against the compiled code and a reference semantics",
  "text": "Every bit-reversal implementation, the portable MSB/LSB/popcount/complement helpers and the integer helpers are translated from the headers to Lean on every run; theorems state they equal the mathematical definition for all inputs (BitVec.reverse, log2 bounds, popcount...). The splitters are hand models (number_splitter composed from translated members) with cut/safe_cut specification theorems; all are tied to the compiled code by differential runs that also compare against an independent reference to produce a failing input when something breaks.",
  "note": "Translator and clang AST trusted, cross-checked by differential runs; inline-asm bsr/bsf variants tied to the translated portable model by differential runs only; undefined-behaviour flags (shift >= width) are part of the translation and carried as proof obligations.",
 },
 "C26": {
  "category": "proof",
  "technique": "Lean 4: closed-form characterisation of the bit-reversed counter by induction (all n < 2^63), undo and Dyck theorems, over a hand model whose primitive is translated; differential tie on exhaustive small and random long sequences",
  "text": "The exact sequence of slots is characterised (counter = n, highBit = log2 n, slot = 2^k + rev_k(n-2^k)); slots are pairwise distinct, complete levels are permutations, dec undoes inc exactly, balanced sequences return to the start. The literal 'permutation of 1..n for every n' is false by design (n=5) and is a recorded known finding proved as C26_literal_false.",
  "note": "Hand model of a 30-line class tied by differential runs (exhaustive Dyck prefixes of length 14/18, random walks); no wrap-around at 2^64.",
 },
 "C27": {
  "category": "proof",
  "technique": "Lean 4 theorems over BitVec 64 about split-order functions regenerated from the headers each run, for each of the three reversal implementations; differential tie on the real SplitListSet",
  "text": "regular keys odd, dummies even, parent dummy before child dummy, bucket contiguity and split refinement are theorems about the translated regular_hash/dummy_hash/bucket_no/parent_bucket for all 64-bit hashes and all table sizes 2^0..2^63, with the UB obligations discharged (after the fix: commit). The differential tie calls the real functions (bucket_no through a real SplitListSet object).",
  "note": "Translator trusted and cross-checked; bucket-count logarithm is a parameter (it is an atomic member); rcu/nogc textual copies covered by the fix commit and by reading, not by the translator.",
 },
 "C28": {
  "category": "proof",
  "technique": "Lean 4 theorems about the translated metrics::make and the splitter models (layout exactness, path injectivity, expand-offset agreement); exhaustive differential run over all configurations of the quantifier",
  "text": "Layout exactness is proved for all head/array widths and hash sizes 1,2,4,8 about the Lean definition regenerated from feldman_hashset_base.h; equal hashes follow equal paths, distinct hashes diverge before the bits run out (injectivity of the cut sequence, from the cut specification theorem), the slot expand_slot derives from bit_offset() equals the traverse slot. All 4420 configurations are also run on the real code, and families of prefix-sharing hashes are inserted into a real FeldmanHashSet.",
  "note": "split_bitstring/byte_splitter are hand models tied by differential runs; head width 64 is undefined (known finding with proved witness); widths above 32 with byte-array hashes are outside split_bitstring's unsigned result (proved witness).",
 },
}

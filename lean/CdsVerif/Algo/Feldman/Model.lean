/-
  Atomic-step model of `cds::intrusive::FeldmanHashSet< cds::gc::HP, T, Traits >` (Feldman, LaBorde, Dechev: a
  multi-level array hash set; cds/intrusive/impl/feldman_hashset.h over `multilevel_array` of
  cds/intrusive/details/feldman_hashset_base.h).

    A slot (`atomic< marked_ptr< T, 3 > >`) holds   null | data pointer | data pointer | flag_array_converting (1)
                                                   | array-node pointer | flag_array_node (2).
    The head array has 2^head_bits slots, every other array node 2^array_bits slots; array nodes carry the constant
    fields `pParent`, `idxParent`.  The hash of an item is cut into slot indices from the least significant end.

      traverse( pos ):                                              pos = ( pArr, nSlot, splitter )
        while ( true ) {
          slot = pos.pArr->nodes[pos.nSlot].load();                                                    -- trav
          if ( slot.bits() == flag_array_node ) { pos.nSlot = splitter.cut( array_bits ); pos.pArr = to_array( slot.ptr()); }
          else if ( slot.bits() == flag_array_converting ) bkoff();       (wait and re-read)
          else return slot;                                                (null or data)
        }
      insert( val ):      pos( hash( val )); guards.assign( 1, &val );
        while ( true ) {
          slot = traverse( pos );
          if ( guards.protect( 0, pos.pArr->nodes[pos.nSlot] ) != slot ) ;                             -- prot1, prot2 …
          else if ( slot.ptr()) {
            if ( cmp( hash, hash_accessor()( *slot.ptr())) == 0 ) return false;
            if ( !pos.splitter.eos()) expand_slot( pos, slot ); else return false;
          }
          else if ( pos.pArr->nodes[pos.nSlot].compare_exchange_strong( null, &val )) return true;     -- casIns
        }
      expand_slot( pParent, idxParent, current, nOffset ):
          pArr = alloc_array_node( pParent, idxParent );                                               -- xAlloc (no atomic)
          if ( !slot.compare_exchange_strong( cur, cur | flag_array_converting )) {                    -- xConv
              free_array_node( pArr ); return false; }
          idx = hash_splitter( hash( *current.ptr()), nOffset ).cut( array_bits );
          pArr->nodes[idx].store( current );                                                           -- xCopy
          CDS_VERIFY( slot.compare_exchange_strong( cur | flag_array_converting, pArr | flag_array_node )); -- xPub
          return true;
      do_erase( hash ):  traverse / protect as above; then
          slot is a data node with the hash: if ( CAS( slot, null )) return slot.ptr(); else continue;  -- casEra
          otherwise return nullptr;
      search( hash ) (find / contains): traverse / protect; slot is a data node with the hash ? found : not found
      do_update( val, bInsert ): traverse / protect; data node with the hash: CAS( slot, &val ) → ( true, false ) -- casUpd
          data node with another hash: bInsert ? expand_slot : ( false, false );
          null: bInsert ? CAS( null, &val ) → ( true, true ) : ( false, false )
      `Guard::protect( a, f )` (do_erase, search):
          pCur = a.load(); do { pRet = pCur; assign( f( pCur )); pCur = a.load(); } while ( pRet != pCur );
      `GuardArray::protect( i, a, f )` (insert, do_update):
          do { assign( i, f( pRet = a.load())); } while ( pRet != a.load());

  After every failed validation / failed CAS / expansion the operation goes back to `traverse( pos )` WITHOUT resetting
  `pos`: array-node pointers are never removed, so the position reached stays valid.

  One `step` = one atomic operation on a slot, in source order, plus the (thread-local) allocation of an array node,
  which is a step of its own (`xAlloc`, event `alloc a<k> <slots>`) because the trace names array nodes in allocation
  order.  Hazard-pointer stores, the item counter, statistics and back-off are not modelled (the replay skips their
  events).  Hazard pointers are what makes the following assumption true for the real code (C01/C02): an item or array
  node is not reused while a thread may still hold a pointer to it.  Accordingly a data pointer is modelled by the
  immutable item it points to — `Node = ( id, key, payload )`, `id` = number of the invocation that brought the item —
  and array nodes are numbered in allocation order and never reused (a node freed after a failed `xConv` is simply
  abandoned).  `compare_exchange_strong` does not fail spuriously; interleavings are sequentially consistent.

  Parameters (`Cfg`): `path : Int → List Nat`, the slot indices of the hash of a key (one per level), all of length
  `depth` (`eos()` ⇔ the level is the last one); `width`: slots of an array node (rendering of `alloc` only);
  `copyFirst`: `true` is the library; `false` is `expand_slot` with the copy of the displaced node AFTER the publication
  of the new array node (the seeded change /verif/seeded/C14-feldman-expand-order), kept in the model to show that the
  theorems need the order (`Props/C14Feldman.lean`, counterexample).

  Ghost / constant fields: `par`, `pidx` are `pParent`, `idxParent` of the real array node; `pre` (ghost) is the list of
  slot indices leading from the head array to the array node.

  Event rendering (the `A` lines of the harness trace; client `hashset`, hidden variant `ifset_hp_named`):
      ld <slot> <v> | cas+ <slot> <old> <new> | cas- <slot> <seen> <expected> | st <slot> <v> | alloc a<k> <slots>
      <slot> = h<i> (head array, slot i) | a<k>.<i> (k-th allocated array node, slot i)
      <v>    = null | n<id> | n<id>|1 (converting) | a<k>|2 (array node)
-/
import CdsVerif.Base.Machine
namespace CdsVerif.Algo.Feldman
open CdsVerif.Machine CdsVerif.Spec

/-- An item: `id` = number of the invocation that brought it (trace name `n<id>`); key and payload are immutable. -/
structure Node where
  id : Nat
  key : Int
  val : Int
deriving DecidableEq, Repr

inductive Cell
  | null
  | data (n : Node)
  | conv (n : Node)          -- data pointer | flag_array_converting
  | arr (b : Nat)            -- array-node pointer | flag_array_node
deriving DecidableEq, Repr

structure Cfg where
  path : Int → List Nat
  depth : Nat
  width : Nat := 4
  copyFirst : Bool := true

/-- The hypotheses on the hash: every path has `depth` components, different keys have different paths
    (`Props/C28.lean`: `C28_path_injective_ns`, and the length clause of `pathOfNS_fieldSum`). -/
structure PathHyp (c : Cfg) : Prop where
  len : ∀ k, (c.path k).length = c.depth
  inj : ∀ k k', c.path k = c.path k' → k = k'

/-- slot index of key `k` at level `lvl` -/
def sl (c : Cfg) (k : Int) (lvl : Nat) : Nat := (c.path k).getD lvl 0

inductive Op
  | ins (n : Node)
  | upd (n : Node) (allow : Int)
  | era (k : Int)
  | fnd (k : Int)
  | con (k : Int)
deriving DecidableEq, Repr

def okey : Op → Int
  | .ins n => n.key
  | .upd n _ => n.key
  | .era k => k
  | .fnd k => k
  | .con k => k

def gopOf : Op → GOp
  | .ins n => ⟨"insert", [n.key, n.val]⟩
  | .upd n al => ⟨"update", [n.key, n.val, al]⟩
  | .era k => ⟨"erase", [k]⟩
  | .fnd k => ⟨"find", [k]⟩
  | .con k => ⟨"contains", [k]⟩

inductive PC
  | idle
  | trav (op : Op) (a lvl : Nat)                  -- traverse: load of the slot
  | prot1 (op : Op) (a lvl : Nat) (c : Cell)      -- protect: first load
  | prot2 (op : Op) (a lvl : Nat) (c x : Cell)    -- protect: validating load
  | casIns (op : Op) (a lvl : Nat)                -- CAS( slot, null, &val )
  | casEra (op : Op) (a lvl : Nat) (n : Node)     -- CAS( slot, n, null )
  | casUpd (op : Op) (a lvl : Nat) (n : Node)     -- CAS( slot, n, &val )
  | xAlloc (op : Op) (a lvl : Nat) (n : Node)     -- expand_slot: alloc_array_node
  | xConv (op : Op) (a lvl : Nat) (n : Node) (b : Nat)    -- CAS( slot, n, n | converting )
  | xCopy (op : Op) (a lvl : Nat) (n : Node) (b : Nat)    -- pArr->nodes[idx].store( n )
  | xPub (op : Op) (a lvl : Nat) (n : Node) (b : Nat)     -- CAS( slot, n | converting, pArr | array_node )
  | done (r : GRet)
deriving DecidableEq, Repr

structure St where
  cell : Nat → Nat → Cell       -- array node, slot
  par : Nat → Nat               -- pParent
  pidx : Nat → Nat              -- idxParent
  pre : Nat → List Nat          -- ghost: slot indices from the head array down to the array node
  acnt : Nat                    -- array nodes allocated so far (0 is the head array)
  ncnt : Nat                    -- id of the next item
  pc : Tid → PC

def init : St :=
  { cell := fun _ _ => .null, par := fun _ => 0, pidx := fun _ => 0, pre := fun _ => [], acnt := 1, ncnt := 1,
    pc := fun _ => .idle }

/-! ### Rendering -/

def locOf (a i : Nat) : String := if a = 0 then s!"h{i}" else s!"a{a}.{i}"

def Cell.render : Cell → String
  | .null => "null"
  | .data n => s!"n{n.id}"
  | .conv n => s!"n{n.id}|1"
  | .arr b => s!"a{b}|2"

def evLd (a i : Nat) (v : Cell) : Ev := ⟨"ld", locOf a i, v.render, ""⟩
/-- `cas+ loc old new` / `cas- loc seen expected` -/
def evCas (ok : Bool) (a i : Nat) (x y : Cell) : Ev := ⟨if ok then "cas+" else "cas-", locOf a i, x.render, y.render⟩

/-! ### Transitions -/

def invoke (s : St) (t : Tid) (op : GOp) : Option St :=
  match s.pc t with
  | .idle =>
    match op.name, op.args with
    | "insert", [k, v] => some { s with ncnt := s.ncnt + 1, pc := upd s.pc t (.trav (.ins ⟨s.ncnt, k, v⟩) 0 0) }
    | "update", [k, v, al] => some { s with ncnt := s.ncnt + 1, pc := upd s.pc t (.trav (.upd ⟨s.ncnt, k, v⟩ al) 0 0) }
    | "erase", [k] => some { s with pc := upd s.pc t (.trav (.era k) 0 0) }
    | "find", [k] => some { s with pc := upd s.pc t (.trav (.fnd k) 0 0) }
    | "contains", [k] => some { s with pc := upd s.pc t (.trav (.con k) 0 0) }
    | _, _ => none
  | _ => none

/-- What the operation does once `protect` has confirmed the slot value `cl` returned by `traverse`. -/
def decideOp (c : Cfg) (op : Op) (a lvl : Nat) (cl : Cell) : PC :=
  match cl with
  | .data n =>
    if n.key = okey op then
      match op with
      | .ins _ => .done [0]
      | .upd n0 _ => if n = n0 then .done [1, 0] else .casUpd op a lvl n
      | .era _ => .casEra op a lvl n
      | .fnd _ => .done [1, n.val]
      | .con _ => .done [1]
    else
      match op with
      | .ins _ => if lvl + 1 < c.depth then .xAlloc op a lvl n else .done [0]
      | .upd _ al =>
        if al ≠ 0 then (if lvl + 1 < c.depth then .xAlloc op a lvl n else .done [0, 0]) else .done [0, 0]
      | .era _ => .done [0]
      | .fnd _ => .done [0]
      | .con _ => .done [0]
  | .null =>
    match op with
    | .ins _ => .casIns op a lvl
    | .upd _ al => if al ≠ 0 then .casIns op a lvl else .done [0, 0]
    | .era _ => .done [0]
    | .fnd _ => .done [0]
    | .con _ => .done [0]
  | _ => .trav op a lvl          -- not reached: `traverse` returns null or a data pointer

/-- the item an `insert` / `update` brings -/
def onode : Op → Node
  | .ins n => n
  | .upd n _ => n
  | _ => ⟨0, 0, 0⟩

/-- `insert` / `update` protect the slot with `GuardArray::protect` (which re-reads both values after a mismatch),
    `erase` / `find` / `contains` with `Guard::protect` (which keeps the value just read). -/
def isGA : Op → Bool
  | .ins _ => true
  | .upd _ _ => true
  | _ => false

def insRet : Op → GRet
  | .upd _ _ => [1, 1]
  | _ => [1]

def step (c : Cfg) (s : St) (t : Tid) : Option (St × Ev) :=
  match s.pc t with
  | .trav op a lvl =>
    let i := sl c (okey op) lvl
    match s.cell a i with
    | .arr b => some ({ s with pc := upd s.pc t (.trav op b (lvl + 1)) }, evLd a i (.arr b))
    | .conv n => some (s, evLd a i (.conv n))
    | v => some ({ s with pc := upd s.pc t (.prot1 op a lvl v) }, evLd a i v)
  | .prot1 op a lvl cl =>
    let i := sl c (okey op) lvl
    some ({ s with pc := upd s.pc t (.prot2 op a lvl cl (s.cell a i)) }, evLd a i (s.cell a i))
  | .prot2 op a lvl cl x =>
    let i := sl c (okey op) lvl
    let y := s.cell a i
    if y ≠ x then some ({ s with pc := upd s.pc t (if isGA op then .prot1 op a lvl cl else .prot2 op a lvl cl y) }, evLd a i y)
    else if y ≠ cl then some ({ s with pc := upd s.pc t (.trav op a lvl) }, evLd a i y)
    else some ({ s with pc := upd s.pc t (decideOp c op a lvl cl) }, evLd a i y)
  | .casIns op a lvl =>
    let i := sl c (okey op) lvl
    if s.cell a i = .null then
      some ({ s with cell := upd2 s.cell a i (.data (onode op)), pc := upd s.pc t (.done (insRet op)) },
        evCas true a i .null (.data (onode op)))
    else some ({ s with pc := upd s.pc t (.trav op a lvl) }, evCas false a i (s.cell a i) .null)
  | .casEra op a lvl n =>
    let i := sl c (okey op) lvl
    if s.cell a i = .data n then
      some ({ s with cell := upd2 s.cell a i .null, pc := upd s.pc t (.done [1, n.val]) }, evCas true a i (.data n) .null)
    else some ({ s with pc := upd s.pc t (.trav op a lvl) }, evCas false a i (s.cell a i) (.data n))
  | .casUpd op a lvl n =>
    let i := sl c (okey op) lvl
    if s.cell a i = .data n then
      some ({ s with cell := upd2 s.cell a i (.data (onode op)), pc := upd s.pc t (.done [1, 0]) },
        evCas true a i (.data n) (.data (onode op)))
    else some ({ s with pc := upd s.pc t (.trav op a lvl) }, evCas false a i (s.cell a i) (.data n))
  | .xAlloc op a lvl n =>
    let i := sl c (okey op) lvl
    let b := s.acnt
    some ({ s with acnt := b + 1, par := upd s.par b a, pidx := upd s.pidx b i, pre := upd s.pre b (s.pre a ++ [i]),
                   pc := upd s.pc t (.xConv op a lvl n b) },
      ⟨"alloc", s!"a{b}", toString c.width, ""⟩)
  | .xConv op a lvl n b =>
    let i := sl c (okey op) lvl
    if s.cell a i = .data n then
      some ({ s with cell := upd2 s.cell a i (.conv n),
                     pc := upd s.pc t (if c.copyFirst then .xCopy op a lvl n b else .xPub op a lvl n b) },
        evCas true a i (.data n) (.conv n))
    else some ({ s with pc := upd s.pc t (.trav op a lvl) }, evCas false a i (s.cell a i) (.data n))
  | .xCopy op a lvl n b =>
    let j := sl c n.key (lvl + 1)
    some ({ s with cell := upd2 s.cell b j (.data n),
                   pc := upd s.pc t (if c.copyFirst then .xPub op a lvl n b else .trav op a lvl) },
      ⟨"st", locOf b j, (Cell.data n).render, ""⟩)
  | .xPub op a lvl n b =>
    let i := sl c (okey op) lvl
    let nxt : PC := if c.copyFirst then .trav op a lvl else .xCopy op a lvl n b
    if s.cell a i = .conv n then
      some ({ s with cell := upd2 s.cell a i (.arr b), pc := upd s.pc t nxt }, evCas true a i (.conv n) (.arr b))
    else some ({ s with pc := upd s.pc t nxt }, evCas false a i (s.cell a i) (.conv n))
  | _ => none

def result (s : St) (t : Tid) : Option (St × GRet) :=
  match s.pc t with
  | .done r => some ({ s with pc := upd s.pc t .idle }, r)
  | _ => none

def model (c : Cfg) : Model St where
  invoke := invoke
  step := step c
  result := result

/-! ### Abstraction: what a traversal from the head array finds -/

/-- the answer of a slot that ends the traversal for key `k` -/
def leaf (k : Int) : Cell → Option Int
  | .data n => if n.key = k then some n.val else none
  | .conv n => if n.key = k then some n.val else none
  | _ => none

/-- Follow the slot indices `p` from array node `a`: the payload found for key `k`. -/
def go (cell : Nat → Nat → Cell) (k : Int) : Nat → List Nat → Option Int
  | _, [] => none
  | a, i :: rest =>
    match cell a i with
    | .arr b => go cell k b rest
    | v => leaf k v

/-- The abstract map: key ↦ payload of the item a traversal from the head array finds (an item in a converting slot
    counts: operations wait until the conversion is over, and then find it one level down). -/
def look (c : Cfg) (s : St) (k : Int) : Option Int := go s.cell k 0 (c.path k)

/-- Follow array-node pointers along `p`: the array node reached. -/
def walk (cell : Nat → Nat → Cell) : Nat → List Nat → Option Nat
  | a, [] => some a
  | a, i :: rest =>
    match cell a i with
    | .arr b => walk cell b rest
    | _ => none

/-- The slot at which the traversal along `p` stops (the first slot that is not an array-node pointer). -/
def stop (cell : Nat → Nat → Cell) : Nat → List Nat → Option (Nat × Nat)
  | _, [] => none
  | a, i :: rest =>
    match cell a i with
    | .arr b => stop cell b rest
    | _ => some (a, i)

/-! ### Configuration of the harness: 64-bit hash `key << shift`, cut from the least significant end -/

def hashOf (shift : Nat) (k : Int) : Nat := (k.toNat * 2 ^ shift) % 2 ^ 64

/-- Injective code of a key (used only for the keys outside the domain of the harness hash, see `pathOf`). -/
def encKey (k : Int) : Nat := if k < 0 then 2 * (-k).toNat + 1 else 2 * k.toNat

/-- The slot indices of key `k`.

    On the domain `D k := 0 ≤ k ∧ k.toNat * 2 ^ shift < 2 ^ 64` the model coincides with the code: the hash functor of
    the harness is `key << shift` (`hashOf`; no wrap-around on `D`), cut into a head slice of `hb` bits and
    `(64 - hb) / ab` slices of `ab` bits from the least significant end.  On `D` that hash is perfect (different keys
    have different hash values), which is the documented precondition of FeldmanHashSet.

    Off `D` (negative keys; keys whose shifted value does not fit into 64 bits) the hash functor `key << shift` is NOT
    perfect — the precondition of the real container is violated by that functor there, and nothing is claimed about the
    real code for such keys.  The model's path off `D` is an arbitrary injective extension of the right length
    (`2 ^ 64 + encKey k` as head component, which no key of `D` has since a head slice is `< 2 ^ hb ≤ 2 ^ 64`, then
    zeros); no replayed trace uses it: the harness only ever uses keys of `D` (keys 0 … 5, `shift ≤ 56`).  It is there
    so that `PathHyp` — which quantifies over all of `Int` — holds for the configurations that are replayed
    (`Algo/Feldman/HarnessCfg.lean`: `cfgH_hyp`). -/
def pathOf (hb ab shift : Nat) (k : Int) : List Nat :=
  if 0 ≤ k ∧ k.toNat * 2 ^ shift < 2 ^ 64 then
    let h := hashOf shift k
    (h % 2 ^ hb) :: (List.range ((64 - hb) / ab)).map (fun j => (h / 2 ^ (hb + j * ab)) % 2 ^ ab)
  else (2 ^ 64 + encKey k) :: List.replicate ((64 - hb) / ab) 0

def cfgH (hb ab shift : Nat) (copyFirst : Bool := true) : Cfg :=
  { path := pathOf hb ab shift, depth := (64 - hb) / ab + 1, width := 2 ^ ab, copyFirst := copyFirst }

def cfgNat (ws : List String) (key : String) (dflt : Nat) : Nat :=
  match ws.find? (·.startsWith (key ++ "=")) with
  | some w => ((w.drop (key.length + 1)).toString.toNat?).getD dflt
  | none => dflt

structure RSt where
  c : Cfg
  s : St

def replayModel : Model RSt where
  invoke r t op := (invoke r.s t op).map (fun s' => ⟨r.c, s'⟩)
  step r t := (step r.c r.s t).map (fun p => (⟨r.c, p.1⟩, p.2))
  result r t := (result r.s t).map (fun p => (⟨r.c, p.1⟩, p.2))

/-- header words `hb=` `ab=` `shift=` -/
def replayInit (ws : List String) : RSt := ⟨cfgH (cfgNat ws "hb" 4) (cfgNat ws "ab" 2) (cfgNat ws "shift" 0), init⟩

def relevant (loc : String) : Bool :=
  (loc.startsWith "h" || loc.startsWith "a") && loc.length > 1 && (loc.drop 1).all (fun ch => ch.isDigit || ch == '.')

end CdsVerif.Algo.Feldman

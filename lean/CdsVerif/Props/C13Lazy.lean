/-
  C13 — the lazy list (cds::intrusive::LazyList<HP>, and through it the container forms cds::container::LazyList /
  LazyKVList: insert, update, erase with functor, extract, find with functor, contains) is a linearizable set / map:
  every concurrent history of the atomic-step model `Algo/Lazy/Model.lean` is linearizable to `Spec.map`; no key is
  ever present twice; a marked node is frozen; a node is marked by exactly one erase; the lock discipline holds.
  Property theorems only; the model, the invariant and the proofs live in
  `Algo/Lazy/{Model,Inv,Step*,Reach,Hist,Lin}.lean`.

  Route completed: FULL linearizability for all schedules, any number of threads and any keys, including the
  hindsight linearization points of the unlocked `contains` / `find`: a reader whose `search` has stopped at the node
  with its key and which later sees that node marked is linearized by the ERASER's marking store (helping: the ghost
  log receives the reader's entry directly behind the erase), or at the end of its `search` if the node was marked
  already.  No `…_partial` fallback was needed.

  What the code does differently from the textbook algorithm (modelled as it is, see `Algo/Lazy/Model.lean`):
  the marking store of `unlink_node` overwrites the link of the deleted node with a MARKED BACK-LINK TO THE HEAD, and
  `search` starts again from the head whenever it reads a marked pointer.  Hence (1) between the marking store and the
  unlink store the words in memory form a cycle through a marked pointer and the rest of the list is known to the
  eraser only — "the chain from the head is finite and ends in the tail" holds for the LOGICAL successor (`succ`, a
  ghost field that no transition reads), which agrees with memory on every unmarked node; (2) `contains` and `find`
  are NOT wait-free: they start over as long as they run into a marked node whose eraser (which holds two locks) has
  not executed its unlink store yet (see `spinSched` below).  Linearizability is not affected.

  Assumption of the model (not proved here): a node is not reused while any thread may still hold a pointer to it
  (garbage-collected heap).  This is what the hazard pointers taken by `guards.protect` provide (C01/C02).
  Tie to the real code: traces of the harness client `list`, variant `ilazy_hp_named`, are replayed step by step
  by `cdsdriver replay lazy` (atomic events — loads, stores, every lock acquisition attempt and release — and results).
-/
import CdsVerif.Algo.Lazy.Lin
namespace CdsVerif.Props.C13Lazy
open CdsVerif.Machine CdsVerif.Lin CdsVerif.Spec CdsVerif.Algo

/-- Linearizability, general form (Herlihy–Wing with completion of pending operations).  For EVERY schedule (any
    number of threads, any client program of `insert k v` / `update k v allow` (key-value forms: the payload of an
    existing item is replaced) / `upsert_keep k v allow` (intrusive form: the existing item stays) / `erase k` /
    `extract k` / `find k` / `contains k`, any keys, any interleaving of the atomic steps), the history of the
    completed operations of the run — extended by response records for the pending operations whose result is already
    fixed (`lpRet`: they have passed their linearization point; at most one per thread; each is an operation pending
    in `os`, completed with that result and the response time "end of run"), all other pending operations being
    dropped — is linearizable to the sequential map: `insert → [1] | [0]`, `update / upsert_keep → [1, 1] | [1, 0] |
    [0, 0]`, `erase / extract → [1, v] | [0]`, `find → [1, v] | [0]`, `contains → [1] | [0]`.

    The literal statement "`historyOf os` is linearizable" is FALSE for runs that stop between the linking store of an
    `insert` and its return while another thread has already found the key (see the `example`s below): such an
    `insert` has to be completed, which is what `extra` does. -/
theorem C13_lazy_linearizable (sched : List (Tid × Act)) (s : Lazy.St) (os : List (Tid × Obs))
    (h : Lazy.model.run Lazy.init sched = some (s, os)) :
    ∃ extra : List (OpRec GOp GRet),
      (∀ e ∈ extra, Lazy.pendingOf os e.tid = some (e.op, e.inv) ∧ e.res = os.length ∧
          Lazy.lpRet s.mark s.key (s.pc e.tid) = some e.ret) ∧
      extra.Pairwise (fun a b => a.tid ≠ b.tid) ∧
      Linearizable map (Lazy.historyOf os ++ extra) :=
  Lazy.lazy_linearizable sched s os h

/-- Runs in which every invoked operation has returned: the history is linearizable as it is. -/
theorem C13_lazy_linearizable_complete_runs (sched : List (Tid × Act)) (s : Lazy.St) (os : List (Tid × Obs))
    (h : Lazy.model.run Lazy.init sched = some (s, os)) (hq : ∀ t, s.pc t = .idle) :
    Linearizable map (Lazy.historyOf os) :=
  Lazy.lazy_linearizable_complete_runs sched s os h hq

/-- More generally: runs at whose end no pending operation has its result fixed (threads may be in the middle of
    operations that have not taken effect; these are dropped). -/
theorem C13_lazy_linearizable_no_effect_pending (sched : List (Tid × Act)) (s : Lazy.St)
    (os : List (Tid × Obs)) (h : Lazy.model.run Lazy.init sched = some (s, os))
    (hq : ∀ t, Lazy.lpRet s.mark s.key (s.pc t) = none) :
    Linearizable map (Lazy.historyOf os) :=
  Lazy.lazy_linearizable_no_effect_pending sched s os h hq

/-- `historyOf` is faithful: a record's `inv` / `res` are the positions of its call and return observations. -/
theorem C13_lazy_history_sound (os : List (Tid × Obs)) (r : OpRec GOp GRet) (h : r ∈ Lazy.historyOf os) :
    os[r.inv]? = some (r.tid, .call r.op) ∧ os[r.res]? = some (r.tid, .ret r.ret) ∧ r.inv < r.res :=
  Lazy.historyOf_sound os r h

/-- Every completed operation takes effect at an instant inside its interval: there is `j` with
    `call < j ≤ return` such that in the state reached by the first `j` actions of the run the abstract map (the
    `(key, payload)` pairs of the unmarked linked items) answers the operation with the returned result according to
    the sequential specification. -/
theorem C13_lazy_effect_instant (sched : List (Tid × Act)) (s : Lazy.St) (os : List (Tid × Obs))
    (h : Lazy.model.run Lazy.init sched = some (s, os)) (r : OpRec GOp GRet) (hr : r ∈ Lazy.historyOf os) :
    ∃ j s1, r.inv < j ∧ j ≤ r.res ∧ Lazy.model.run Lazy.init (sched.take j) = some (s1, os.take j) ∧
      ∃ m', map.next (Lazy.absMap s1) r.op r.ret = some m' :=
  Lazy.lazy_effect_instant sched s os h r hr

/-- Hindsight, "absent" (the classic argument for the unlocked `contains`): an `erase k` / `extract k` / `find k` /
    `contains k` that answered `[0]` has an instant between its call and its return at which no unmarked linked item
    carried the key `k`. -/
theorem C13_lazy_absent_hindsight (sched : List (Tid × Act)) (s : Lazy.St) (os : List (Tid × Obs))
    (h : Lazy.model.run Lazy.init sched = some (s, os)) (r : OpRec GOp GRet) (hr : r ∈ Lazy.historyOf os)
    (k : Int)
    (hop : r.op = ⟨"erase", [k]⟩ ∨ r.op = ⟨"extract", [k]⟩ ∨ r.op = ⟨"find", [k]⟩ ∨ r.op = ⟨"contains", [k]⟩)
    (hret : r.ret = [0]) :
    ∃ j s1, r.inv < j ∧ j ≤ r.res ∧ Lazy.model.run Lazy.init (sched.take j) = some (s1, os.take j) ∧
      ∀ v, (k, v) ∉ Lazy.absMap s1 :=
  Lazy.lazy_absent_hindsight sched s os h r hr k hop hret

/-- Hindsight, "present": a failing `insert k _`, a `find k → [1, v]`, a `contains k → [1]`, an `erase k` /
    `extract k → [1, v]` has an instant between its call and its return at which an unmarked linked item carried the
    key `k`, with the payload that is reported (if one is reported). -/
theorem C13_lazy_present_hindsight (sched : List (Tid × Act)) (s : Lazy.St) (os : List (Tid × Obs))
    (h : Lazy.model.run Lazy.init sched = some (s, os)) (r : OpRec GOp GRet) (hr : r ∈ Lazy.historyOf os)
    (k : Int)
    (hop : (∃ v, r.op = ⟨"insert", [k, v]⟩ ∧ r.ret = [0]) ∨ (∃ v, r.op = ⟨"find", [k]⟩ ∧ r.ret = [1, v]) ∨
      (r.op = ⟨"contains", [k]⟩ ∧ r.ret = [1]) ∨ (∃ v, r.op = ⟨"erase", [k]⟩ ∧ r.ret = [1, v]) ∨
      (∃ v, r.op = ⟨"extract", [k]⟩ ∧ r.ret = [1, v])) :
    ∃ j s1 v, r.inv < j ∧ j ≤ r.res ∧ Lazy.model.run Lazy.init (sched.take j) = some (s1, os.take j) ∧
      (k, v) ∈ Lazy.absMap s1 ∧ ∀ w, r.ret = [1, w] → w = v :=
  Lazy.lazy_present_hindsight sched s os h r hr k hop

/-- Refinement: in a reachable state, the step at which thread `t` fixes its result `r` (the linking store, the
    marking store, the last load of a successful `validate` that finds / misses the key, the load that ends `search`
    of a `find` / `contains` in a gap or at a node that is marked already, the load `is_marked()` that reads an
    unmarked word) is exactly the `Spec.map` transition of `t`'s operation with result `r` on the abstract map; every
    other step (in particular every physical unlink and every lock operation) leaves the abstract map unchanged; and a
    step that fixes the result of ANOTHER thread's operation (the marking store, for the `find` / `contains` waiting
    at the node: hindsight) does so with a `Spec.map` transition on the abstract map after the step. -/
theorem C13_lazy_lp_refines (s s' : Lazy.St) (t : Tid) (ev : Ev)
    (hreach : Lazy.model.Reachable Lazy.init s) (hs : Lazy.step s t = some (s', ev)) :
    (Lazy.lpRet s.mark s.key (s.pc t) = none → ∀ r, Lazy.lpRet s'.mark s'.key (s'.pc t) = some r →
      ∃ op m', Lazy.opOf (s.pc t) = some op ∧ map.next (Lazy.absMap s) op r = some m' ∧
        ∀ k v, mfind m' k = some v ↔ (k, v) ∈ Lazy.absMap s') ∧
    ((Lazy.lpRet s.mark s.key (s.pc t) ≠ none ∨ Lazy.lpRet s'.mark s'.key (s'.pc t) = none) →
      ∀ k v, (k, v) ∈ Lazy.absMap s' ↔ (k, v) ∈ Lazy.absMap s) ∧
    (∀ t2, t2 ≠ t → Lazy.lpRet s.mark s.key (s.pc t2) = none →
      ∀ r, Lazy.lpRet s'.mark s'.key (s'.pc t2) = some r →
      ∃ op m', Lazy.opOf (s.pc t2) = some op ∧ map.next (Lazy.absMap s') op r = some m' ∧
        ∀ k v, mfind m' k = some v ↔ (k, v) ∈ Lazy.absMap s') :=
  Lazy.step_refines hreach hs

/-- Structure of the reachable states: the logical chain `chainOf s` (follow `succ` from the head) is finite, starts
    with the head (node 0) and ends with the tail (node 1); ALL linked nodes, marked or not, are strictly sorted by key
    (`LLt`: the head below, the tail above every item), hence pairwise different; they are allocated nodes; the
    sentinels are never marked; and memory agrees with the logical chain: an unmarked node's `m_pNext` is its logical
    successor, a marked node's `m_pNext` is the marked back-link to the head. -/
theorem C13_lazy_chain_sorted (s : Lazy.St) (hreach : Lazy.model.Reachable Lazy.init s) :
    Michael.Chain s.succ (some 0) (Lazy.chainOf s) ∧ (∃ l, Lazy.chainOf s = 0 :: (l ++ [1])) ∧
      (Lazy.chainOf s).Pairwise (Lazy.LLt s.key) ∧ (Lazy.absNodes s).Pairwise (fun a b => s.key a < s.key b) ∧
      (Lazy.chainOf s).Nodup ∧ (∀ a, a ∈ Lazy.chainOf s → a < s.cnt) ∧ s.mark 0 = false ∧ s.mark 1 = false ∧
      (∀ a, s.mark a = false → s.next a = s.succ a) ∧ (∀ a, s.mark a = true → s.next a = some 0) :=
  Lazy.reachable_structure s hreach

/-- Memory versus logical chain: the only nodes whose `m_pNext` word is not their logical successor are the marked
    ones, and a marked node that is still on the chain has been marked by a thread that is between the two stores of
    `unlink_node`: it holds the locks of the node and of the node's unmarked predecessor `p` (whose word still points
    to the node) and keeps the node's successor in its registers.  During exactly these windows the words in memory
    form the cycle head → … → p → node → head, and `search` of any other thread spins. -/
theorem C13_lazy_window (s : Lazy.St) (hreach : Lazy.model.Reachable Lazy.init s) (a : Nat)
    (ha : a ∈ Lazy.chainOf s) (hm : s.mark a = true) :
    ∃ t o p nx r, s.pc t = .eUn o p a nx r ∧ s.next p = some a ∧ s.mark p = false ∧ s.succ a = nx :=
  Lazy.window s hreach a ha hm

/-- Under the two locks the two `is_marked()` tests of `validate` are implied by its pointer comparison
    `pPred->m_pNext == pCur` (mark bit and pointer share one word): a thread that holds both locks and sees the
    unmarked pointer to `pCur` in `pPred` has an unmarked `pCur`.  Dropping these tests from `validate_link` therefore
    does not change any history; trace conformance still notices it (the loads disappear). -/
theorem C13_lazy_validate_marks_redundant (s : Lazy.St) (hreach : Lazy.model.Reachable Lazy.init s) (t : Tid)
    (o : Lazy.OpK) (p c : Nat) (hpc : s.pc t = .v1 o p c) (h1 : s.next p = some c) (h2 : s.mark p = false) :
    s.mark c = false :=
  Lazy.validate_marks_redundant s hreach t o p c hpc h1 h2

/-- No key is ever present twice: in every reachable state the keys of the abstract map (= of the unmarked linked
    items) are strictly increasing, in particular duplicate-free. -/
theorem C13_lazy_no_duplicate_keys (s : Lazy.St) (hreach : Lazy.model.Reachable Lazy.init s) :
    (Lazy.absMap s).Pairwise (fun p q => p.1 < q.1) ∧ ((Lazy.absMap s).map (·.1)).Nodup :=
  Lazy.reachable_no_duplicate_keys s hreach

/-- A marked (logically deleted) node is frozen: no action of any thread changes its word or removes its mark. -/
theorem C13_lazy_marked_frozen (s s' : Lazy.St) (t : Tid) (a : Act) (o : Obs)
    (hreach : Lazy.model.Reachable Lazy.init s) (hap : Lazy.model.apply s t a = some (s', o))
    (x : Nat) (hx : s.mark x = true) : s'.mark x = true ∧ s'.next x = s.next x :=
  Lazy.marked_frozen hreach hap x hx

/-- A node is unlinked only after it was marked, and every node ever linked and not marked is on the chain:
    (1) a node that is linked or marked stays linked or marked under every action;
    (2) a node that leaves the chain is marked;
    (3) the linking store puts the new node on the chain, unmarked (`C13_lazy_insert_links`). -/
theorem C13_lazy_linked_or_marked_forever (s s' : Lazy.St) (t : Tid) (a : Act) (o : Obs)
    (hreach : Lazy.model.Reachable Lazy.init s) (hap : Lazy.model.apply s t a = some (s', o)) (x : Nat) :
    ((x ∈ Lazy.chainOf s ∨ s.mark x = true) → (x ∈ Lazy.chainOf s' ∨ s'.mark x = true)) ∧
    (x ∈ Lazy.chainOf s → x ∉ Lazy.chainOf s' → s.mark x = true) :=
  Lazy.linked_or_marked_forever hreach hap x

theorem C13_lazy_insert_links (s s' : Lazy.St) (t : Tid) (ev : Ev)
    (hreach : Lazy.model.Reachable Lazy.init s) (hs : Lazy.step s t = some (s', ev))
    (o : Lazy.OpK) (n p c : Nat) (hpc : s.pc t = .iLk o n p c) : n ∈ Lazy.absNodes s' ∧ s'.mark n = false :=
  Lazy.insert_links hreach hs o n p c hpc

/-- A node is marked by exactly one `erase` / `extract`, the one that returns success for it.
    (1) The only step that sets the mark of a node `a` is the marking store of a thread erasing `key a`, applied under
        the node's lock to a linked item; after it that thread is going to return `[1, val a]`.
    (2) No two threads are between marking store and unlink store for the same node.
    Together with `C13_lazy_marked_frozen` (a mark is never removed, so the precondition "unmarked" of (1) can hold at
    most once per node) every node is marked at most once. -/
theorem C13_lazy_erase_once (s s' : Lazy.St) (t : Tid) (ev : Ev)
    (hreach : Lazy.model.Reachable Lazy.init s) (hs : Lazy.step s t = some (s', ev)) :
    (∀ a, s.mark a = false → s'.mark a = true →
      ∃ o p nx, s.pc t = .eMk o p a nx ∧ s'.pc t = .eUn o p a nx [1, s.val a] ∧ s.key a = Lazy.okey o ∧
        a ∈ Lazy.absNodes s ∧ Lazy.heldC (s.pc t) = some a ∧
        Lazy.lpRet s'.mark s'.key (s'.pc t) = some [1, s.val a]) ∧
    (∀ t1 t2 o1 p1 a x1 r1 o2 p2 x2 r2, s'.pc t1 = .eUn o1 p1 a x1 r1 → s'.pc t2 = .eUn o2 p2 a x2 r2 → t1 = t2) :=
  Lazy.erase_once hreach hs

/-- Lock discipline.  `heldP pc` / `heldC pc` are the nodes whose locks a thread at `pc` holds (as `pPred->m_Lock`,
    `pCur->m_Lock`: from its successful `exchange` to its releasing store).  In every reachable state
    (1) per-node mutual exclusion: a lock is held by at most one thread; (2) the word of a held lock is set;
    (3) the two locks a thread holds are different; and for every action of a thread `t`:
    (4) a `m_pNext` word (pointer or mark; also the ghost successor) changes only if `t` holds the lock of that node
        or the node is `t`'s own node, not yet linked;
    (5) the payload of an existing node changes only if `t` holds its lock, and the node is linked and unmarked;
    (6) a lock word changes only by `t` acquiring the free lock or releasing a lock it holds. -/
theorem C13_lazy_lock_discipline (s : Lazy.St) (hreach : Lazy.model.Reachable Lazy.init s) :
    (∀ t1 t2 a, (Lazy.heldP (s.pc t1) = some a ∨ Lazy.heldC (s.pc t1) = some a) →
      (Lazy.heldP (s.pc t2) = some a ∨ Lazy.heldC (s.pc t2) = some a) → t1 = t2) ∧
    (∀ t a, (Lazy.heldP (s.pc t) = some a ∨ Lazy.heldC (s.pc t) = some a) → s.lock a = true) ∧
    (∀ t p c, Lazy.heldP (s.pc t) = some p → Lazy.heldC (s.pc t) = some c → p ≠ c) ∧
    (∀ t a s' o, Lazy.model.apply s t a = some (s', o) →
      (∀ x, (s'.next x ≠ s.next x ∨ s'.mark x ≠ s.mark x ∨ s'.succ x ≠ s.succ x) →
        Lazy.heldP (s.pc t) = some x ∨ Lazy.heldC (s.pc t) = some x ∨ Lazy.insNode (s.pc t) = some x) ∧
      (∀ x, x < s.cnt → s'.val x ≠ s.val x →
        Lazy.heldC (s.pc t) = some x ∧ s.mark x = false ∧ x ∈ Lazy.chainOf s) ∧
      (∀ x, s'.lock x ≠ s.lock x →
        (s.lock x = false ∧ (Lazy.heldP (s'.pc t) = some x ∨ Lazy.heldC (s'.pc t) = some x)) ∨
        (s.lock x = true ∧ (Lazy.heldP (s.pc t) = some x ∨ Lazy.heldC (s.pc t) = some x)))) :=
  Lazy.lock_discipline s hreach

/-! ### Non-vacuity -/

def steps (t : Tid) (n : Nat) : List (Tid × Act) := List.replicate n (t, .step)
def ins (k v : Int) : GOp := ⟨"insert", [k, v]⟩
def era (k : Int) : GOp := ⟨"erase", [k]⟩
def fnd (k : Int) : GOp := ⟨"find", [k]⟩
def con (k : Int) : GOp := ⟨"contains", [k]⟩

/-- `insert 5 10` alone, on the empty list: observations 0 … 12. -/
def ins5 : List (Tid × Act) := [(0, .invoke (ins 5 10))] ++ steps 0 11 ++ [(0, .ret)]

example : (Lazy.model.run Lazy.init ins5).map (·.2) =
    some [(0, .call (ins 5 10)),                    -- T 0 C insert [5, 10]
          (0, .ev ⟨"ld", "h", "t", ""⟩),            -- T 0 A ld h t                 (protect: load)
          (0, .ev ⟨"ld", "h", "t", ""⟩),            --                              (validating load; search returns ( h, t ))
          (0, .ev ⟨"xchg", "h.lock", "0", "1"⟩),    -- T 0 A xchg h.lock 0 1        (pPred->m_Lock.lock())
          (0, .ev ⟨"xchg", "t.lock", "0", "1"⟩),    -- T 0 A xchg t.lock 0 1        (pCur->m_Lock.lock())
          (0, .ev ⟨"ld", "h", "t", ""⟩),            -- validate: !pPred->is_marked()
          (0, .ev ⟨"ld", "t", "null", ""⟩),         --           !pCur->is_marked()
          (0, .ev ⟨"ld", "h", "t", ""⟩),            --           pPred->m_pNext == pCur
          (0, .ev ⟨"st", "n1", "t", ""⟩),           -- link_node: pNode->m_pNext = pCur
          (0, .ev ⟨"st", "h", "n1", ""⟩),           --            pPred->m_pNext = pNode      (linearization point)
          (0, .ev ⟨"st", "t.lock", "0", ""⟩),       -- pCur->m_Lock.unlock()
          (0, .ev ⟨"st", "h.lock", "0", ""⟩),       -- pPred->m_Lock.unlock()
          (0, .ret [1])] := by decide +kernel

/-- All operations of the model, one after the other: `update` of the key-value forms replaces the payload of an
    existing item (under the item's lock), the intrusive `update` (`upsert_keep`) keeps the old item, `find` reads the
    payload under the item's lock, `extract` removes it, a refused `update` answers `[0, 0]`. -/
def seqSched : List (Tid × Act) :=
  ins5 ++ [(0, .invoke ⟨"update", [5, 11, 1]⟩)] ++ steps 0 9 ++ [(0, .ret), (0, .invoke (fnd 5))] ++ steps 0 5 ++
  [(0, .ret), (0, .invoke ⟨"upsert_keep", [5, 12, 1]⟩)] ++ steps 0 9 ++ [(0, .ret), (0, .invoke (fnd 5))] ++ steps 0 5 ++
  [(0, .ret), (0, .invoke ⟨"extract", [5]⟩)] ++ steps 0 12 ++ [(0, .ret), (0, .invoke ⟨"update", [5, 13, 0]⟩)] ++
  steps 0 9 ++ [(0, .ret), (0, .invoke ⟨"upsert_keep", [7, 14, 1]⟩)] ++ steps 0 11 ++ [(0, .ret)]

set_option synthInstance.maxSize 4000 in
example : (Lazy.model.run Lazy.init seqSched).map
    (fun r => ((Lazy.historyOf r.2).map (fun x => (x.op.name, x.op.args, x.ret)), Lazy.absMap r.1,
      linCheck map (Lazy.historyOf r.2))) =
    some ([("insert", [5, 10], [1]), ("update", [5, 11, 1], [1, 0]), ("find", [5], [1, 11]),
           ("upsert_keep", [5, 12, 1], [1, 0]), ("find", [5], [1, 11]), ("extract", [5], [1, 11]),
           ("update", [5, 13, 0], [0, 0]), ("upsert_keep", [7, 14, 1], [1, 1])], [(7, 14)], true) := by
  decide +kernel

/-- An insert races with the erase of its predecessor: the validation fails because `pPred` was marked meanwhile, and
    the insert retries.  Thread 1 (`insert 7`) finishes `search` with `pos = ( n1, t )`; thread 0 erases key 5 (node
    n1) completely; thread 1 locks n1 and t, reads `n1.m_pNext = h|1` in `validate` — marked —, unlocks, searches again
    (now `pos = ( h, t )`) and links n2 behind the head. -/
def retrySched : List (Tid × Act) :=
  ins5 ++ [(1, .invoke (ins 7 20))] ++ steps 1 4 ++ [(0, .invoke (era 5))] ++ steps 0 12 ++ [(0, .ret)] ++
  steps 1 16 ++ [(1, .ret)]

example : (Lazy.model.run Lazy.init retrySched).map (fun r => r.2.drop 13) =
    some [(1, .call (ins 7 20)),
          (1, .ev ⟨"ld", "h", "n1", ""⟩),
          (1, .ev ⟨"ld", "h", "n1", ""⟩),
          (1, .ev ⟨"ld", "n1", "t", ""⟩),
          (1, .ev ⟨"ld", "n1", "t", ""⟩),           -- search returns ( n1, t )
          (0, .call (era 5)),
          (0, .ev ⟨"ld", "h", "n1", ""⟩),
          (0, .ev ⟨"ld", "h", "n1", ""⟩),
          (0, .ev ⟨"xchg", "h.lock", "0", "1"⟩),
          (0, .ev ⟨"xchg", "n1.lock", "0", "1"⟩),
          (0, .ev ⟨"ld", "h", "n1", ""⟩),
          (0, .ev ⟨"ld", "n1", "t", ""⟩),
          (0, .ev ⟨"ld", "h", "n1", ""⟩),
          (0, .ev ⟨"ld", "n1", "t", ""⟩),           -- unlink_node: pNext = pCur->m_pNext
          (0, .ev ⟨"st", "n1", "h|1", ""⟩),         -- T 0 A st n1 h|1              (marking store: linearization point)
          (0, .ev ⟨"st", "h", "t", ""⟩),            -- T 0 A st h t                 (physical unlink)
          (0, .ev ⟨"st", "n1.lock", "0", ""⟩),
          (0, .ev ⟨"st", "h.lock", "0", ""⟩),
          (0, .ret [1, 10]),
          (1, .ev ⟨"xchg", "n1.lock", "0", "1"⟩),   -- thread 1 locks the deleted node and the tail
          (1, .ev ⟨"xchg", "t.lock", "0", "1"⟩),
          (1, .ev ⟨"ld", "n1", "h|1", ""⟩),         -- validate: pPred is marked: FAILS
          (1, .ev ⟨"st", "t.lock", "0", ""⟩),
          (1, .ev ⟨"st", "n1.lock", "0", ""⟩),
          (1, .ev ⟨"ld", "h", "t", ""⟩),            -- retry: search again
          (1, .ev ⟨"ld", "h", "t", ""⟩),
          (1, .ev ⟨"xchg", "h.lock", "0", "1"⟩),
          (1, .ev ⟨"xchg", "t.lock", "0", "1"⟩),
          (1, .ev ⟨"ld", "h", "t", ""⟩),
          (1, .ev ⟨"ld", "t", "null", ""⟩),
          (1, .ev ⟨"ld", "h", "t", ""⟩),
          (1, .ev ⟨"st", "n2", "t", ""⟩),
          (1, .ev ⟨"st", "h", "n2", ""⟩),           -- linearization point of insert 7
          (1, .ev ⟨"st", "t.lock", "0", ""⟩),
          (1, .ev ⟨"st", "h.lock", "0", ""⟩),
          (1, .ret [1])] := by decide +kernel

example : (Lazy.model.run Lazy.init retrySched).map
    (fun r => (Lazy.chainOf r.1, Lazy.absMap r.1, r.1.mark 2, linCheck map (Lazy.historyOf r.2))) =
    some ([0, 3, 1], [(7, 20)], true, true) := by decide +kernel

/-- `contains` running through a node that is being deleted, and hindsight by helping.
    Thread 0's `contains 5` ends its `search` at n1 (unmarked, with the key): nothing is fixed yet.  Thread 1 marks
    n1 (`st n1 h|1`): at this very step the answer of thread 0 becomes `[0]` (the eraser's step linearizes the reader).
    Thread 2's `contains 7` now walks into the deleted node: it reads `n1.m_pNext = h|1` and STARTS AGAIN FROM THE HEAD,
    again and again (not wait-free), until thread 1 has executed its unlink store.  Then thread 0 loads `n1.m_pNext`,
    sees the mark and answers `[0]`. -/
def spinSched : List (Tid × Act) :=
  ins5 ++ [(0, .invoke (con 5))] ++ steps 0 2 ++ [(1, .invoke (era 5))] ++ steps 1 9 ++ [(2, .invoke (con 7))] ++
  steps 2 8 ++ steps 1 1 ++ steps 2 2 ++ [(2, .ret)] ++ steps 0 1 ++ [(0, .ret)] ++ steps 1 2 ++ [(1, .ret)]

example : (Lazy.model.run Lazy.init spinSched).map (fun r => r.2.drop 13) =
    some [(0, .call (con 5)),
          (0, .ev ⟨"ld", "h", "n1", ""⟩),
          (0, .ev ⟨"ld", "h", "n1", ""⟩),           -- search of contains 5 returns ( h, n1 )
          (1, .call (era 5)),
          (1, .ev ⟨"ld", "h", "n1", ""⟩),
          (1, .ev ⟨"ld", "h", "n1", ""⟩),
          (1, .ev ⟨"xchg", "h.lock", "0", "1"⟩),
          (1, .ev ⟨"xchg", "n1.lock", "0", "1"⟩),
          (1, .ev ⟨"ld", "h", "n1", ""⟩),
          (1, .ev ⟨"ld", "n1", "t", ""⟩),
          (1, .ev ⟨"ld", "h", "n1", ""⟩),
          (1, .ev ⟨"ld", "n1", "t", ""⟩),
          (1, .ev ⟨"st", "n1", "h|1", ""⟩),         -- marking store: erase 5 AND contains 5 (→ 0) take effect
          (2, .call (con 7)),
          (2, .ev ⟨"ld", "h", "n1", ""⟩),
          (2, .ev ⟨"ld", "h", "n1", ""⟩),
          (2, .ev ⟨"ld", "n1", "h|1", ""⟩),         -- T 2 A ld n1 h|1              (marked back-link)
          (2, .ev ⟨"ld", "n1", "h|1", ""⟩),         --                              → pPrev = pCur = pHead
          (2, .ev ⟨"ld", "h", "n1", ""⟩),           -- second round
          (2, .ev ⟨"ld", "h", "n1", ""⟩),
          (2, .ev ⟨"ld", "n1", "h|1", ""⟩),
          (2, .ev ⟨"ld", "n1", "h|1", ""⟩),
          (1, .ev ⟨"st", "h", "t", ""⟩),            -- the eraser unlinks n1
          (2, .ev ⟨"ld", "h", "t", ""⟩),
          (2, .ev ⟨"ld", "h", "t", ""⟩),            -- linearization point of contains 7 (→ 0)
          (2, .ret [0]),
          (0, .ev ⟨"ld", "n1", "h|1", ""⟩),         -- contains 5: pCur->is_marked()
          (0, .ret [0]),
          (1, .ev ⟨"st", "n1.lock", "0", ""⟩),
          (1, .ev ⟨"st", "h.lock", "0", ""⟩),
          (1, .ret [1, 10])] := by decide +kernel

set_option synthInstance.maxSize 2000 in
/-- The state before and after the marking store (observation 25): the result of thread 0's `contains 5` is not
    fixed / fixed to `[0]` although thread 0 does not move; in memory n1 points back to the head with the mark set
    while the logical chain still contains it; the abstract map is `[(5, 10)]` / empty. -/
example : (Lazy.model.run Lazy.init (spinSched.take 25)).map
    (fun r => (Lazy.lpRet r.1.mark r.1.key (r.1.pc 0), Lazy.absMap r.1, Lazy.chainOf r.1, r.1.next 2, r.1.mark 2)) =
    some (none, [(5, 10)], [0, 2, 1], some 1, false) := by decide +kernel

set_option synthInstance.maxSize 2000 in
example : (Lazy.model.run Lazy.init (spinSched.take 26)).map
    (fun r => (Lazy.lpRet r.1.mark r.1.key (r.1.pc 0), Lazy.absMap r.1, Lazy.chainOf r.1, r.1.next 2, r.1.mark 2)) =
    some (some [0], [], [0, 2, 1], some 0, true) := by decide +kernel

example : (Lazy.model.run Lazy.init spinSched).map (fun r => Lazy.historyOf r.2) =
    some [⟨0, ins 5 10, [1], 0, 12⟩, ⟨2, con 7, [0], 26, 38⟩, ⟨0, con 5, [0], 13, 40⟩, ⟨1, era 5, [1, 10], 16, 43⟩] := by
  decide +kernel

example : linCheck map [⟨0, ins 5 10, [1], 0, 12⟩, ⟨2, con 7, [0], 26, 38⟩, ⟨0, con 5, [0], 13, 40⟩,
    ⟨1, era 5, [1, 10], 16, 43⟩] = true := by decide +kernel

/-- Two erases of one key.  Both threads finish `search` with `pos = ( h, n1 )`; thread 0 takes the head's lock,
    thread 1 spins on it (`xchg h.lock 1 1`, `ld h.lock 1`); thread 0 erases; thread 1 gets the locks, sees `pCur`
    marked in `validate`, retries and answers 0. -/
def eraseRace : List (Tid × Act) :=
  ins5 ++ [(0, .invoke (era 5)), (1, .invoke (era 5))] ++ steps 0 2 ++ steps 1 2 ++ steps 0 1 ++ steps 1 3 ++
  steps 0 9 ++ [(0, .ret)] ++ steps 1 16 ++ [(1, .ret)]

example : (Lazy.model.run Lazy.init eraseRace).map (fun r => r.2.drop 19) =
    some [(0, .ev ⟨"xchg", "h.lock", "0", "1"⟩),
          (1, .ev ⟨"xchg", "h.lock", "1", "1"⟩),    -- T 1 A xchg h.lock 1 1        (lock taken: a step that stays)
          (1, .ev ⟨"ld", "h.lock", "1", ""⟩),       -- T 1 A ld h.lock 1            (wait loop)
          (1, .ev ⟨"ld", "h.lock", "1", ""⟩),
          (0, .ev ⟨"xchg", "n1.lock", "0", "1"⟩),
          (0, .ev ⟨"ld", "h", "n1", ""⟩),
          (0, .ev ⟨"ld", "n1", "t", ""⟩),
          (0, .ev ⟨"ld", "h", "n1", ""⟩),
          (0, .ev ⟨"ld", "n1", "t", ""⟩),
          (0, .ev ⟨"st", "n1", "h|1", ""⟩),
          (0, .ev ⟨"st", "h", "t", ""⟩),
          (0, .ev ⟨"st", "n1.lock", "0", ""⟩),
          (0, .ev ⟨"st", "h.lock", "0", ""⟩),
          (0, .ret [1, 10]),
          (1, .ev ⟨"ld", "h.lock", "0", ""⟩),
          (1, .ev ⟨"xchg", "h.lock", "0", "1"⟩),
          (1, .ev ⟨"xchg", "n1.lock", "0", "1"⟩),
          (1, .ev ⟨"ld", "h", "t", ""⟩),            -- validate: pPred unmarked
          (1, .ev ⟨"ld", "n1", "h|1", ""⟩),         --           pCur marked: FAILS
          (1, .ev ⟨"st", "n1.lock", "0", ""⟩),
          (1, .ev ⟨"st", "h.lock", "0", ""⟩),
          (1, .ev ⟨"ld", "h", "t", ""⟩),
          (1, .ev ⟨"ld", "h", "t", ""⟩),
          (1, .ev ⟨"xchg", "h.lock", "0", "1"⟩),
          (1, .ev ⟨"xchg", "t.lock", "0", "1"⟩),
          (1, .ev ⟨"ld", "h", "t", ""⟩),
          (1, .ev ⟨"ld", "t", "null", ""⟩),
          (1, .ev ⟨"ld", "h", "t", ""⟩),            -- linearization point of the failing erase
          (1, .ev ⟨"st", "t.lock", "0", ""⟩),
          (1, .ev ⟨"st", "h.lock", "0", ""⟩),
          (1, .ret [0])] := by decide +kernel

example : (Lazy.model.run Lazy.init eraseRace).map (fun r => Lazy.historyOf r.2) =
    some [⟨0, ins 5 10, [1], 0, 12⟩, ⟨0, era 5, [1, 10], 13, 32⟩, ⟨1, era 5, [0], 14, 49⟩] := by decide +kernel

example : linCheck map [⟨0, ins 5 10, [1], 0, 12⟩, ⟨0, era 5, [1, 10], 13, 32⟩, ⟨1, era 5, [0], 14, 49⟩] = true := by
  decide +kernel

/-- Why pending operations must be completed: thread 0 has linked n1 (its insert has taken effect) but not yet
    returned; thread 1's `contains 5` answers `[1]`.  The history of completed operations alone is not
    linearizable ... -/
def pendingSched : List (Tid × Act) :=
  [(0, .invoke (ins 5 10))] ++ steps 0 9 ++ [(1, .invoke (con 5))] ++ steps 1 3 ++ [(1, .ret)]

example : (Lazy.model.run Lazy.init pendingSched).map (fun r => Lazy.historyOf r.2) =
    some [⟨1, con 5, [1], 10, 14⟩] := by decide +kernel

example : ¬ Linearizable map [⟨1, con 5, [1], 10, 14⟩] := by
  intro hlin
  have := (linCheck_iff map _ (by decide)).mpr hlin
  revert this
  decide +kernel

/-- ... and `extra` of `C13_lazy_linearizable` repairs it: with the pending insert completed, it is. -/
example : Linearizable map ([⟨1, con 5, [1], 10, 14⟩] ++ [⟨0, ins 5 10, [1], 0, 15⟩]) :=
  linCheck_sound map _ (by decide +kernel)

end CdsVerif.Props.C13Lazy

/-
  C21 — the lock-free free lists behave as a concurrent bag, stated as INVARIANTS (no `Linearizable (bag …)` theorem is
  proved; histories are judged against the bag specification by tie H): a node obtained by get() is not returned by another
  get() until it has been put() back, and once all threads are quiescent every node that was put and not taken out
  can be obtained again.
  Property theorems only; the models, the invariants and the proofs live in
  `Algo/TaggedFreeList/{Model,Inv}.lean` (cds::intrusive::TaggedFreeList) and
  `Algo/FreeList/{Model,Inv}.lean` (cds::intrusive::FreeList).

  All theorems quantify over EVERY schedule: any number of threads, any client program of `put` / `get` obeying the
  discipline "a thread only puts a node it owns", any interleaving of the atomic steps, any initial distribution
  `own0` of the nodes over the threads.  Nodes are never allocated or freed: they are REUSED, so a thread may hold
  a stale pointer to a node that has meanwhile been taken and put back by others (ABA); the tag (TaggedFreeList)
  and the reference count (FreeList) are what makes this harmless, and the proofs show it.

  Model assumptions (stated in the model files): sequentially consistent atomics; the tag does not wrap around;
  the 31-bit reference count does not overflow; `compare_exchange_weak` does not fail spuriously.
  NOT covered here: `CachedFreeList` (an array of single-node cache cells in front of one of the two lists) has no
  model; for it C21 rests on the harness oracles only.
-/
import CdsVerif.Algo.TaggedFreeList.Inv
import CdsVerif.Algo.FreeList.Inv
namespace CdsVerif.Props.C21FreeLists
open CdsVerif.Machine CdsVerif.Lin CdsVerif.Spec CdsVerif.Algo

/-! ## TaggedFreeList -/

/-- No double hand-out.  In every reachable state a node has at most one owner.  `get` fixes its result `[1, v]`
    only at a successful CAS on the head, `v` is the node `p` the CAS expected, and at that instant `p` is the
    FIRST node of the chain, is owned by nobody and is not in the hands of a `put` in progress; the CAS writes
    `p`'s CURRENT successor, so that the new chain is the old one without `p`; the getter then owns `p`. -/
theorem C21_tagged_no_double_handout (own0 : Nat → Tid) (s : TaggedFreeList.St)
    (hreach : TaggedFreeList.model.Reachable (TaggedFreeList.init own0) s) :
    (∀ n t1 t2, s.owns t1 n = true → s.owns t2 n = true → t1 = t2) ∧
    (∀ t s' ev v, TaggedFreeList.step s t = some (s', ev) → s'.pc t = .done [1, v] →
      ∃ (p g : Nat) (nx : Option Nat) (l : List Nat), v = (p : Int) ∧ s.pc t = .getCas p g nx ∧
        ev = ⟨"cas+", "head", TaggedFreeList.hval (some p) g, TaggedFreeList.hval nx (g + 1)⟩ ∧
        TaggedFreeList.Chain s.next s.head.1 (p :: l) ∧ s.next p = nx ∧
        (∀ t2, s.owns t2 p = false) ∧ (∀ t2, TaggedFreeList.putNode (s.pc t2) ≠ some p) ∧
        TaggedFreeList.Chain s'.next s'.head.1 l ∧ s'.owns t p = true) := by
  have hinv := TaggedFreeList.tinv_reachable own0 s hreach
  refine ⟨?_, ?_⟩
  · obtain ⟨l, w, hl⟩ := hinv
    exact fun n t1 t2 => hl.own1 t1 t2 n
  · intro t s' ev v hs hpost
    have hpre : s.pc t ≠ .done [1, v] := fun e => by simp [TaggedFreeList.step, e] at hs
    obtain ⟨p, g, nx, hpc, hv, hev⟩ := TaggedFreeList.get_result_only_by_cas hs hpre hpost
    obtain ⟨l, hch, hfree, hnx, hch', hown, -, -⟩ :=
      TaggedFreeList.get_cas_success hinv hpc hs (by rw [hev]; rfl)
    exact ⟨p, g, nx, l, hv, hpc, hev, hch, hnx, hfree.1, hfree.2, hch', hown⟩

/-- Conservation.  In every reachable state the chain from the head is finite and duplicate-free, and every node
    is in exactly one place: on the chain (then nobody owns it and no `put` holds it), owned by exactly one thread
    (then it is not on the chain and no `put` holds it), or held by exactly one `put` in progress (then it is not on
    the chain and nobody owns it). -/
theorem C21_tagged_conservation (own0 : Nat → Tid) (s : TaggedFreeList.St)
    (hreach : TaggedFreeList.model.Reachable (TaggedFreeList.init own0) s) :
    ∃ l, TaggedFreeList.Chain s.next s.head.1 l ∧ l.Nodup ∧ ∀ n,
      (n ∈ l ∧ (∀ t, s.owns t n = false) ∧ (∀ t, TaggedFreeList.putNode (s.pc t) ≠ some n)) ∨
      (n ∉ l ∧ (∃ t, s.owns t n = true ∧ ∀ t2, s.owns t2 n = true → t2 = t) ∧
        (∀ t, TaggedFreeList.putNode (s.pc t) ≠ some n)) ∨
      (n ∉ l ∧ (∀ t, s.owns t n = false) ∧
        (∃ t, TaggedFreeList.putNode (s.pc t) = some n ∧ ∀ t2, TaggedFreeList.putNode (s.pc t2) = some n → t2 = t)) := by
  obtain ⟨l, w, hl⟩ := TaggedFreeList.tinv_reachable own0 s hreach
  refine ⟨l, hl.chain, hl.nodup, fun n => ?_⟩
  by_cases hn : n ∈ l
  · exact Or.inl ⟨hn, fun t => hl.memOwn n t hn, fun t => hl.memPut n t hn⟩
  · rcases hl.held n hn with h1 | h1
    · refine Or.inr (Or.inl ⟨hn, ⟨w n, h1, fun t2 h2 => hl.own1 _ _ _ h2 h1⟩, fun t hp => ?_⟩)
      have := hl.putown t n (w n) hp
      rw [h1] at this; cases this
    · exact Or.inr (Or.inr ⟨hn, fun t => hl.putown _ n t h1, w n, h1, fun t2 h2 => hl.putuniq _ _ _ h2 h1⟩)

/-- Quiescent completeness.  In a reachable state in which no operation is in progress, the chain from the head
    consists EXACTLY of the nodes owned by nobody (as sets; the chain is duplicate-free), and draining it works: if
    an idle thread `t` then calls `get()` repeatedly, running alone, the first `l.length` calls return the nodes of
    the chain, every one of them, and the next call returns "empty".  (`drain` does not need quiescence of the other
    threads, only that they do not move.) -/
theorem C21_tagged_quiescent_complete (own0 : Nat → Tid) (s : TaggedFreeList.St)
    (hreach : TaggedFreeList.model.Reachable (TaggedFreeList.init own0) s) (hq : ∀ t, s.pc t = .idle) :
    ∃ l, TaggedFreeList.Chain s.next s.head.1 l ∧ l.Nodup ∧ (∀ n, n ∈ l ↔ ∀ t, s.owns t n = false) ∧
      ∀ t, ∃ s' os, TaggedFreeList.model.run s (TaggedFreeList.drainSched t l.length) = some (s', os) ∧
        TaggedFreeList.retsOf os = l.map (fun (a : Nat) => ([1, (a : Int)] : GRet)) ++ [[0]] ∧
        (∀ a ∈ l, s'.owns t a = true) := by
  obtain ⟨l, hch, hnd, hmem⟩ := TaggedFreeList.quiescent_chain (TaggedFreeList.tinv_reachable own0 s hreach) hq
  refine ⟨l, hch, hnd, hmem, fun t => ?_⟩
  obtain ⟨s', os, hrun, hret, -, hown, -⟩ := TaggedFreeList.drain t l s (hq t) hch
  exact ⟨s', os, hrun, hret, hown⟩

/-- A single `get()` running alone from a state whose chain is `a :: l` returns `[1, a]`: the complete trace. -/
theorem C21_tagged_get_returns_first (s : TaggedFreeList.St) (t : Tid) (a : Nat) (l : List Nat)
    (hidle : s.pc t = .idle) (hch : TaggedFreeList.Chain s.next s.head.1 (a :: l)) :
    ∃ s', TaggedFreeList.model.run s (TaggedFreeList.getSched t) = some (s',
        [(t, .call ⟨"get", [(t : Int)]⟩),
         (t, .ev ⟨"ld", "head", TaggedFreeList.hval (some a) s.head.2, ""⟩),
         (t, .ev ⟨"ld", TaggedFreeList.nloc a, TaggedFreeList.ptr (s.next a), ""⟩),
         (t, .ev ⟨"cas+", "head", TaggedFreeList.hval (some a) s.head.2, TaggedFreeList.hval (s.next a) (s.head.2 + 1)⟩),
         (t, .ret [1, (a : Int)])]) ∧
      TaggedFreeList.Chain s'.next s'.head.1 l ∧ s'.owns t a = true := by
  simp only [TaggedFreeList.Chain] at hch
  refine ⟨_, TaggedFreeList.get_seq_run s t a hidle hch.1, hch.2, by simp [upd2]⟩

/-- THE TAG LEMMA.  Take any segment of any run, from a state `s` (think: the instant a thread loads
    `m_Head = (p, g)`) to a state `s'` (think: the instant of the thread's CAS expecting `(p, g)`).  The tag advances
    by exactly the number of successful CAS operations on the head in the segment.  Hence, if the CAS finds the tag
    it expects, NO successful CAS on the head happened in between (by anybody), and the head pointer is unchanged
    too: a successful CAS means "unchanged since the load", never "changed and changed back" (no ABA). -/
theorem C21_tagged_cas_means_unchanged (sched : List (Tid × Act)) (s s' : TaggedFreeList.St) (os : List (Tid × Obs))
    (hrun : TaggedFreeList.model.run s sched = some (s', os)) :
    s'.head.2 = s.head.2 + TaggedFreeList.casCount os ∧
    (s'.head.2 = s.head.2 →
      (∀ x ∈ os, ∀ e, x.2 = .ev e → ¬(e.kind = "cas+" ∧ e.loc = "head")) ∧ s'.head = s.head) := by
  refine ⟨(TaggedFreeList.run_tag sched s s' os hrun).1, fun htag => ?_⟩
  obtain ⟨h1, h2⟩ := TaggedFreeList.tag_equal_means_unchanged hrun htag
  refine ⟨fun x hx e he => ?_, h2⟩
  have := h1 x hx
  rw [he] at this
  simpa [TaggedFreeList.isHeadCasOk, TaggedFreeList.headLoc] using this

/-- The tag lemma as a state invariant.  In every reachable state, a thread that is about to execute its CAS with
    the snapshot `(p, g)` (`get`) resp. `(hp, hg)` (`put`) holds a tag that is at most the current tag; and if it is
    EQUAL to the current tag — the CAS is going to succeed — then the head pointer is the snapshot's pointer and,
    for `get`, the successor `nx` the thread has read from `p` is `p`'s current successor. -/
theorem C21_tagged_snapshot (own0 : Nat → Tid) (s : TaggedFreeList.St)
    (hreach : TaggedFreeList.model.Reachable (TaggedFreeList.init own0) s) :
    (∀ t p g nx, s.pc t = .getCas p g nx → g ≤ s.head.2 ∧ (g = s.head.2 → s.head.1 = some p ∧ s.next p = nx)) ∧
    (∀ t n hp hg, s.pc t = .putCas n hp hg → hg ≤ s.head.2 ∧ (hg = s.head.2 → s.head.1 = hp ∧ s.next n = hp)) := by
  obtain ⟨l, w, hl⟩ := TaggedFreeList.tinv_reachable own0 s hreach
  refine ⟨fun t p g nx hpc => ?_, fun t n hp hg hpc => ?_⟩
  · obtain ⟨h1, h2⟩ := hl.snapGetCas t p g nx hpc
    exact ⟨h1, fun hg => ⟨h2 hg, hl.key t p g nx hpc (h2 hg) hg.symm⟩⟩
  · obtain ⟨h1, h2⟩ := hl.snapPutCas t n hp hg hpc
    exact ⟨h1, fun hg' => ⟨h2 hg', hl.linked t n hp hg hpc⟩⟩

/-! ### Evaluated schedules (TaggedFreeList) -/

/-- The classic ABA schedule.  Thread 0 owns all nodes and puts n2, then n1: the list is n1 → n2, head = n1#2.
    Thread 1 (A) starts a `get`: loads head = n1#2 and n1.next = n2.  Thread 2 (B) gets n1, gets n2, and puts n1
    back: the list is n1 alone, head = n1#5, and n2 is OWNED by B.  A's CAS expects n1#2: the pointer matches, the
    tag does not, the CAS FAILS (an untagged CAS would succeed here and make n2 — owned by B — the head).  A goes
    round the loop with the value its CAS has seen (n1#5), reads n1.next = null, and takes n1. -/
def abaSched : List (Tid × Act) :=
  [(0, .invoke ⟨"put", [0, 2]⟩), (0, .step), (0, .step), (0, .step), (0, .ret),
   (0, .invoke ⟨"put", [0, 1]⟩), (0, .step), (0, .step), (0, .step), (0, .ret),
   (1, .invoke ⟨"get", [1]⟩), (1, .step), (1, .step),
   (2, .invoke ⟨"get", [2]⟩), (2, .step), (2, .step), (2, .step), (2, .ret),
   (2, .invoke ⟨"get", [2]⟩), (2, .step), (2, .step), (2, .step), (2, .ret),
   (2, .invoke ⟨"put", [2, 1]⟩), (2, .step), (2, .step), (2, .step), (2, .ret),
   (1, .step), (1, .step), (1, .step), (1, .ret)]

def abaObs : List (Tid × Obs) :=
  [(0, .call ⟨"put", [0, 2]⟩),                     -- T 0 C put [0, 2]
   (0, .ev ⟨"ld", "head", "null#0", ""⟩),          -- T 0 A ld head null#0
   (0, .ev ⟨"st", "n2", "null", ""⟩),              -- T 0 A st n2 null
   (0, .ev ⟨"cas+", "head", "null#0", "n2#1"⟩),    -- T 0 A cas+ head null#0 n2#1
   (0, .ret [1]),
   (0, .call ⟨"put", [0, 1]⟩),                     -- T 0 C put [0, 1]
   (0, .ev ⟨"ld", "head", "n2#1", ""⟩),            -- T 0 A ld head n2#1
   (0, .ev ⟨"st", "n1", "n2", ""⟩),                -- T 0 A st n1 n2
   (0, .ev ⟨"cas+", "head", "n2#1", "n1#2"⟩),      -- T 0 A cas+ head n2#1 n1#2
   (0, .ret [1]),
   (1, .call ⟨"get", [1]⟩),                        -- T 1 C get [1]
   (1, .ev ⟨"ld", "head", "n1#2", ""⟩),            -- T 1 A ld head n1#2          A's snapshot: (n1, 2)
   (1, .ev ⟨"ld", "n1", "n2", ""⟩),                -- T 1 A ld n1 n2              A's successor: n2
   (2, .call ⟨"get", [2]⟩),
   (2, .ev ⟨"ld", "head", "n1#2", ""⟩),
   (2, .ev ⟨"ld", "n1", "n2", ""⟩),
   (2, .ev ⟨"cas+", "head", "n1#2", "n2#3"⟩),      -- T 2 A cas+ head n1#2 n2#3   B takes n1
   (2, .ret [1, 1]),
   (2, .call ⟨"get", [2]⟩),
   (2, .ev ⟨"ld", "head", "n2#3", ""⟩),
   (2, .ev ⟨"ld", "n2", "null", ""⟩),
   (2, .ev ⟨"cas+", "head", "n2#3", "null#4"⟩),    -- T 2 A cas+ head n2#3 null#4 B takes n2
   (2, .ret [1, 2]),
   (2, .call ⟨"put", [2, 1]⟩),
   (2, .ev ⟨"ld", "head", "null#4", ""⟩),
   (2, .ev ⟨"st", "n1", "null", ""⟩),              -- T 2 A st n1 null            n1's successor is no longer n2
   (2, .ev ⟨"cas+", "head", "null#4", "n1#5"⟩),    -- T 2 A cas+ head null#4 n1#5 B puts n1 back
   (2, .ret [1]),
   (1, .ev ⟨"cas-", "head", "n1#5", "n1#2"⟩),      -- T 1 A cas- head n1#5 n1#2   A's CAS: same pointer, other tag: FAILS
   (1, .ev ⟨"ld", "n1", "null", ""⟩),              -- T 1 A ld n1 null
   (1, .ev ⟨"cas+", "head", "n1#5", "null#6"⟩),    -- T 1 A cas+ head n1#5 null#6
   (1, .ret [1, 1])]

example : ((TaggedFreeList.model.run (TaggedFreeList.init (fun _ => 0)) abaSched).map (·.2)) = some abaObs := by
  decide +kernel

/-- At the end of the ABA schedule: the list is empty, n1 is owned by thread 1 only, n2 by thread 2 only. -/
example : ((TaggedFreeList.model.run (TaggedFreeList.init (fun _ => 0)) abaSched).map
    (fun r => (r.1.head, TaggedFreeList.walk r.1.next 8 r.1.head.1,
      [r.1.owns 0 1, r.1.owns 1 1, r.1.owns 2 1], [r.1.owns 0 2, r.1.owns 1 2, r.1.owns 2 2]))) =
    some ((none, 6), [], [false, true, false], [false, false, true]) := by decide +kernel

/-- The discipline is enforced: a thread cannot put a node it does not own. -/
example : TaggedFreeList.model.run (TaggedFreeList.init (fun _ => 0)) [(1, .invoke ⟨"put", [1, 1]⟩)] = none := by
  decide +kernel

/-! ## FreeList (reference-counted) -/

/-- No double hand-out.  In every reachable state a node has at most one owner.  `get` fixes its result `[1, v]`
    only at its `fetch_sub( 2 )` on the node `h = v` it has unlinked; at that instant nobody owns `h`, the word is in
    the shape the code asserts (bit clear, count ≥ 2), and the getter then owns `h`.  A thread is about to execute
    that `fetch_sub( 2 )` only after its successful CAS on the head expecting `h`; at that CAS `h` is the FIRST node
    of the chain, is owned by nobody and is in no operation's hands, and the value written to the head is `h`'s
    CURRENT successor, so that the new chain is the old one without `h`. -/
theorem C21_freelist_no_double_handout (own0 : Nat → Tid) (s : FreeList.St)
    (hreach : FreeList.model.Reachable (FreeList.init own0) s) :
    (∀ n t1 t2, s.owns t1 n = true → s.owns t2 n = true → t1 = t2) ∧
    (∀ t s' ev v, FreeList.step s t = some (s', ev) → s'.pc t = .done [1, v] →
      ∃ h : Nat, v = (h : Int) ∧ s.pc t = .getSub2 h ∧ (∀ t2, s.owns t2 h = false) ∧
        s.shouldBeOn h = false ∧ 2 ≤ s.refs h ∧ s'.owns t h = true ∧
        ev = ⟨"sub", FreeList.rloc h, FreeList.word (s.refs h) false, "2"⟩) ∧
    (∀ t s' ev h, FreeList.step s t = some (s', ev) → s'.pc t = .getSub2 h →
      ∃ nx l, s.pc t = .getCas h nx ∧ ev = ⟨"cas+", "head", FreeList.ptr (some h), FreeList.ptr nx⟩ ∧
        FreeList.Chain s.next s.head (h :: l) ∧ s.next h = nx ∧ (∀ t2, s.owns t2 h = false) ∧
        (∀ t2, FreeList.handNode (s.pc t2) ≠ some h) ∧ s.shouldBeOn h = false ∧
        FreeList.Chain s'.next s'.head l) := by
  have hinv := FreeList.finv_reachable own0 s hreach
  refine ⟨?_, ?_, ?_⟩
  · obtain ⟨l, K, H, hl⟩ := hinv
    exact fun n t1 t2 h1 h2 => hl.own1 h1 h2
  · intro t s' ev v hs hpost
    exact FreeList.get_result_only_by_sub2 hinv hs hpost
  · intro t s' ev h hs hpost
    exact FreeList.get_cas_success hinv hs hpost

/-- Conservation.  In every reachable state the chain from the head is finite and duplicate-free, and every node
    is in exactly one of four places:
    on the chain (nobody owns it, no operation has it in its hands, its bit is clear and its count is ≥ 1);
    owned by exactly one thread (not on the chain, in no operation's hands, bit clear);
    in the hands of exactly one operation in progress - a `put` before its `fetch_add`, an
      `add_knowing_refcount_is_zero`, a `get` between its successful CAS and its `fetch_sub( 2 )` - (not on the chain,
      owned by nobody; if the bit is set the count is 0);
    or WAITING: not on the chain, owned by nobody, in nobody's hands, bit SHOULD_BE_ON_FREELIST set and count ≥ 1, and
      then some getter holds a counted reference to it (the last such getter to drop its reference will see
      `c_ShouldBeOnFreeList + 1` and link the node: the deferred insertion of a `put` that has already returned).
    The four cases are mutually exclusive by what they say about chain membership, owners, hands, bit and count. -/
theorem C21_freelist_conservation (own0 : Nat → Tid) (s : FreeList.St)
    (hreach : FreeList.model.Reachable (FreeList.init own0) s) :
    ∃ l, FreeList.Chain s.next s.head l ∧ l.Nodup ∧
      (∀ n t1 t2, FreeList.handNode (s.pc t1) = some n → FreeList.handNode (s.pc t2) = some n → t1 = t2) ∧
      ∀ n,
      (n ∈ l ∧ (∀ t, s.owns t n = false) ∧ (∀ t, FreeList.handNode (s.pc t) ≠ some n) ∧
        s.shouldBeOn n = false ∧ 1 ≤ s.refs n) ∨
      (n ∉ l ∧ (∃ t, s.owns t n = true ∧ ∀ t2, s.owns t2 n = true → t2 = t) ∧
        (∀ t, FreeList.handNode (s.pc t) ≠ some n) ∧ s.shouldBeOn n = false) ∨
      (n ∉ l ∧ (∀ t, s.owns t n = false) ∧ (∃ t, FreeList.handNode (s.pc t) = some n) ∧
        (s.shouldBeOn n = true → s.refs n = 0)) ∨
      (n ∉ l ∧ (∀ t, s.owns t n = false) ∧ (∀ t, FreeList.handNode (s.pc t) ≠ some n) ∧
        s.shouldBeOn n = true ∧ 1 ≤ s.refs n ∧ ∃ t, FreeList.holdNode (s.pc t) = some n) := by
  obtain ⟨l, K, H, hl⟩ := FreeList.finv_reachable own0 s hreach
  refine ⟨l, hl.chain, hl.nodup, fun n t1 t2 h1 h2 => hl.hand1 h1 h2, fun n => ?_⟩
  rcases hl.place n with h1 | ⟨h2, ⟨t, ht⟩, h3, h4⟩ | h3 | h4
  · exact Or.inl h1
  · exact Or.inr (Or.inl ⟨h2, ⟨t, ht, fun t2 h => hl.own1 h ht⟩, h3, h4⟩)
  · exact Or.inr (Or.inr (Or.inl h3))
  · exact Or.inr (Or.inr (Or.inr h4))

/-- Quiescent completeness.  In a reachable state in which no operation is in progress, no node is waiting or in
    anybody's hands: the chain from the head consists EXACTLY of the nodes owned by nobody (as sets; the chain is
    duplicate-free), every node of the chain has `m_freeListRefs = 1` and every other node `m_freeListRefs = 0`; and
    draining works: `l.length` successive `get()` calls of a thread `t` return the nodes of the chain, every one of
    them, and the next call returns "empty". -/
theorem C21_freelist_quiescent_complete (own0 : Nat → Tid) (s : FreeList.St)
    (hreach : FreeList.model.Reachable (FreeList.init own0) s) (hq : ∀ t, s.pc t = .idle) :
    ∃ l, FreeList.Chain s.next s.head l ∧ l.Nodup ∧ (∀ n, n ∈ l ↔ ∀ t, s.owns t n = false) ∧
      (∀ n ∈ l, s.refs n = 1 ∧ s.shouldBeOn n = false) ∧ (∀ n, n ∉ l → s.refs n = 0 ∧ s.shouldBeOn n = false) ∧
      ∀ t, ∃ s' os, FreeList.model.run s (FreeList.drainSched t l.length) = some (s', os) ∧
        FreeList.retsOf os = l.map (fun (a : Nat) => ([1, (a : Int)] : GRet)) ++ [[0]] ∧
        (∀ a ∈ l, s'.owns t a = true) := by
  have hinv := FreeList.finv_reachable own0 s hreach
  obtain ⟨l, hch, hnd, hmem, hon, hoff⟩ := FreeList.quiescent_chain hinv hq
  refine ⟨l, hch, hnd, hmem, hon, hoff, fun t => ?_⟩
  obtain ⟨s', os, hrun, hret, -, hown, -⟩ := FreeList.drain t l s hinv hq hch
  exact ⟨s', os, hrun, hret, hown⟩

/-- THE REFERENCE-COUNT LEMMA (the counterpart of the tag lemma).  In every reachable state, for a getter that
    holds a counted reference on node `h`, has read `nx` from `h`'s `m_freeListNext` and is about to CAS the head
    from `h` to `nx`: the count of `h` is ≥ 1; no thread is inside `add_knowing_refcount_is_zero( h )` before its
    `store( 1 )` - the only code that writes `h`'s `m_freeListNext` and it requires the count to be 0 -, so `nx` IS
    `h`'s current successor, whatever happened to `h` since the getter loaded the head (`h` may have been taken, be
    owned by a client, have been put back: ABA); and if the CAS is going to succeed (`m_Head == h`) then `h` is the
    first node of the chain. -/
theorem C21_freelist_ref_means_unchanged (own0 : Nat → Tid) (s : FreeList.St)
    (hreach : FreeList.model.Reachable (FreeList.init own0) s) (t : Tid) (h : Nat) (nx : Option Nat)
    (hpc : s.pc t = .getCas h nx) :
    s.next h = nx ∧ 1 ≤ s.refs h ∧ (∀ t2, FreeList.zeroNode (s.pc t2) ≠ some h) ∧
    (s.head = some h → ∃ l, FreeList.Chain s.next s.head (h :: l)) := by
  obtain ⟨l, K, H, hl⟩ := FreeList.finv_reachable own0 s hreach
  obtain ⟨h1, h2, h3, h4⟩ := hl.ref_protects hpc
  refine ⟨h1, h2, h3, fun hh => ?_⟩
  obtain ⟨l0, rfl⟩ := h4 hh
  exact ⟨l0, hl.chain⟩

/-- No borrow.  The model computes `fetch_add` / `fetch_sub` on `m_freeListRefs` modulo 2^32; in every reachable
    state the word has the shape the code relies on: `put`'s `fetch_add( c_ShouldBeOnFreeList )` finds the bit clear;
    the `fetch_add( c_ShouldBeOnFreeList - 1 )` after a failed CAS finds the bit clear and the count ≥ 1; the
    `fetch_sub( 2 )` finds the bit clear (the `assert` in `get`) and the count ≥ 2; the `fetch_sub( 1 )` finds the
    count ≥ 1. -/
theorem C21_freelist_no_borrow (own0 : Nat → Tid) (s : FreeList.St)
    (hreach : FreeList.model.Reachable (FreeList.init own0) s) :
    (∀ t n, s.pc t = .putAdd n → s.shouldBeOn n = false) ∧
    (∀ t n hd k, s.pc t = .addFix n hd k → s.shouldBeOn n = false ∧ 1 ≤ s.refs n) ∧
    (∀ t h, s.pc t = .getSub2 h → s.shouldBeOn h = false ∧ 2 ≤ s.refs h) ∧
    (∀ t h hd, s.pc t = .getDec h hd → 1 ≤ s.refs h) := by
  obtain ⟨l, K, H, hl⟩ := FreeList.finv_reachable own0 s hreach
  exact hl.no_borrow

/-! ### Evaluated schedule (FreeList) -/

/-- A node is put back while a getter holds a reference, and the getter re-adds it.  Thread 0 puts n1 (list: n1,
    word 1).  Thread 1 (G) starts a `get`: loads head = n1, takes a reference (word 2).  Thread 2 gets n1 completely
    (word 3, head := null, `fetch_sub 2`: word 1 = G's reference) and puts it back: its `fetch_add` finds the count 1,
    not 0, so `put` RETURNS without linking the node (word 2147483649: bit set, count 1; the node is "waiting").
    G reads n1.next, its CAS on the head fails (head is null), its `fetch_sub 1` returns 2147483649 =
    c_ShouldBeOnFreeList + 1: G runs `add_knowing_refcount_is_zero( n1 )` and links n1.  G's loop then goes on
    with the value its failed CAS saw (null) and G returns "empty" although it has just linked n1 (documented quirk
    of the code, see harness/clients/freelist.cpp).  Thread 3 then gets n1. -/
def readdSched : List (Tid × Act) :=
  [(0, .invoke ⟨"put", [0, 1]⟩), (0, .step), (0, .step), (0, .step), (0, .step), (0, .step), (0, .ret),
   (1, .invoke ⟨"get", [1]⟩), (1, .step), (1, .step), (1, .step),
   (2, .invoke ⟨"get", [2]⟩), (2, .step), (2, .step), (2, .step), (2, .step), (2, .step), (2, .step), (2, .ret),
   (2, .invoke ⟨"put", [2, 1]⟩), (2, .step), (2, .ret),
   (1, .step), (1, .step), (1, .step), (1, .step), (1, .step), (1, .step), (1, .step), (1, .ret),
   (3, .invoke ⟨"get", [3]⟩), (3, .step), (3, .step), (3, .step), (3, .step), (3, .step), (3, .step), (3, .ret)]

def readdObs : List (Tid × Obs) :=
  [(0, .call ⟨"put", [0, 1]⟩),
   (0, .ev ⟨"add", "n1", "0", "2147483648"⟩),          -- T 0 A add n1 0 2147483648        old word 0: link it
   (0, .ev ⟨"ld", "head", "null", ""⟩),                -- T 0 A ld head null
   (0, .ev ⟨"st", "n1.next", "null", ""⟩),             -- T 0 A st n1.next null
   (0, .ev ⟨"st", "n1", "1", ""⟩),                     -- T 0 A st n1 1
   (0, .ev ⟨"cas+", "head", "null", "n1"⟩),            -- T 0 A cas+ head null n1
   (0, .ret [1]),
   (1, .call ⟨"get", [1]⟩),
   (1, .ev ⟨"ld", "head", "n1", ""⟩),                  -- T 1 A ld head n1
   (1, .ev ⟨"ld", "n1", "1", ""⟩),                     -- T 1 A ld n1 1
   (1, .ev ⟨"cas+", "n1", "1", "2"⟩),                  -- T 1 A cas+ n1 1 2                G holds a reference
   (2, .call ⟨"get", [2]⟩),
   (2, .ev ⟨"ld", "head", "n1", ""⟩),
   (2, .ev ⟨"ld", "n1", "2", ""⟩),
   (2, .ev ⟨"cas+", "n1", "2", "3"⟩),
   (2, .ev ⟨"ld", "n1.next", "null", ""⟩),
   (2, .ev ⟨"cas+", "head", "n1", "null"⟩),            -- T 2 A cas+ head n1 null          thread 2 takes n1
   (2, .ev ⟨"sub", "n1", "3", "2"⟩),                   -- T 2 A sub n1 3 2                 word 1 = G's reference
   (2, .ret [1, 1]),
   (2, .call ⟨"put", [2, 1]⟩),
   (2, .ev ⟨"add", "n1", "1", "2147483648"⟩),          -- T 2 A add n1 1 2147483648        old word 1 ≠ 0: NOT linked
   (2, .ret [1]),
   (1, .ev ⟨"ld", "n1.next", "null", ""⟩),             -- T 1 A ld n1.next null
   (1, .ev ⟨"cas-", "head", "null", "n1"⟩),            -- T 1 A cas- head null n1          G's CAS fails
   (1, .ev ⟨"sub", "n1", "2147483649", "1"⟩),          -- T 1 A sub n1 2147483649 1        = SHOULD_BE_ON_FREELIST + 1
   (1, .ev ⟨"ld", "head", "null", ""⟩),                -- T 1 A ld head null               add_knowing_refcount_is_zero( n1 )
   (1, .ev ⟨"st", "n1.next", "null", ""⟩),
   (1, .ev ⟨"st", "n1", "1", ""⟩),
   (1, .ev ⟨"cas+", "head", "null", "n1"⟩),            -- T 1 A cas+ head null n1          G links n1
   (1, .ret [0]),                                      --                                  ... and returns "empty"
   (3, .call ⟨"get", [3]⟩),
   (3, .ev ⟨"ld", "head", "n1", ""⟩),
   (3, .ev ⟨"ld", "n1", "1", ""⟩),
   (3, .ev ⟨"cas+", "n1", "1", "2"⟩),
   (3, .ev ⟨"ld", "n1.next", "null", ""⟩),
   (3, .ev ⟨"cas+", "head", "n1", "null"⟩),
   (3, .ev ⟨"sub", "n1", "2", "2"⟩),
   (3, .ret [1, 1])]

example : ((FreeList.model.run (FreeList.init (fun _ => 0)) readdSched).map (·.2)) = some readdObs := by
  decide +kernel

/-- After thread 2's `put` has returned (22 actions), n1 is neither on the chain nor owned nor in anybody's hands:
    it is waiting (bit set, count 1), and thread 1 holds the reference. -/
example : ((FreeList.model.run (FreeList.init (fun _ => 0)) (readdSched.take 22)).map
    (fun r => (r.1.head, r.1.refs 1, r.1.shouldBeOn 1, [r.1.owns 0 1, r.1.owns 1 1, r.1.owns 2 1]))) =
    some (none, 1, true, [false, false, false]) := by decide +kernel
example : ((FreeList.model.run (FreeList.init (fun _ => 0)) (readdSched.take 22)).map
    (fun r => (FreeList.holdNode (r.1.pc 1), FreeList.handNode (r.1.pc 2), FreeList.handNode (r.1.pc 1)))) =
    some (some 1, none, none) := by decide +kernel

/-- At the end: the list is empty again, n1 is owned by thread 3 only, its word is 0. -/
example : ((FreeList.model.run (FreeList.init (fun _ => 0)) readdSched).map
    (fun r => (r.1.head, r.1.refs 1, r.1.shouldBeOn 1, [r.1.owns 0 1, r.1.owns 1 1, r.1.owns 2 1, r.1.owns 3 1]))) =
    some (none, 0, false, [false, false, false, true]) := by decide +kernel

/-! ## A `get` racing with a `put`, and the quiescent-completeness theorems on these runs

  The hypotheses of `C21_tagged_quiescent_complete` / `C21_freelist_quiescent_complete` (a reachable state in which EVERY
  thread is idle) are discharged for concrete two-thread runs: threads that are not scheduled stay idle. -/

/-- A thread that is not scheduled does not move (any machine whose actions only change the program counter of the
    acting thread). -/
theorem run_pc_other {σ P : Type} (m : Model σ) (pc : σ → Tid → P)
    (hstep : ∀ s t a s' o, m.apply s t a = some (s', o) → ∀ t', t' ≠ t → pc s' t' = pc s t') :
    ∀ (sched : List (Tid × Act)) (s s' : σ) os, m.run s sched = some (s', os) →
      ∀ t', (∀ x ∈ sched, x.1 ≠ t') → pc s' t' = pc s t' := by
  intro sched
  induction sched with
  | nil => intro s s' os hr t' _; simp [Model.run] at hr; rw [hr.1]
  | cons x rest ih =>
    intro s s' os hr t' hall
    obtain ⟨t, a⟩ := x
    simp only [Model.run] at hr
    cases hap : m.apply s t a with
    | none => simp [hap] at hr
    | some p =>
      obtain ⟨s1, o⟩ := p
      simp only [hap] at hr
      cases hrr : m.run s1 rest with
      | none => simp [hrr] at hr
      | some q =>
        obtain ⟨s2, os2⟩ := q
        simp only [hrr, Option.some.injEq, Prod.mk.injEq] at hr
        obtain ⟨rfl, -⟩ := hr
        rw [ih s1 s2 os2 hrr t' (fun y hy => hall y (List.mem_cons_of_mem _ hy))]
        exact hstep s t a s1 o hap t' (fun e => hall (t, a) List.mem_cons_self e.symm)

theorem tagged_pc_other (s : TaggedFreeList.St) (t : Tid) (a : Act) (s' : TaggedFreeList.St) (o : Obs)
    (h : TaggedFreeList.model.apply s t a = some (s', o)) (t' : Tid) (hne : t' ≠ t) : s'.pc t' = s.pc t' := by
  cases a with
  | invoke op =>
    simp only [Model.apply, TaggedFreeList.model, TaggedFreeList.invoke] at h
    split at h
    · split at h
      · simp at h; rw [← h.1]; simp [upd, hne]
      · simp at h
    · simp at h; rw [← h.1]; simp [upd, hne]
    · simp at h
  | step =>
    simp only [Model.apply, TaggedFreeList.model, TaggedFreeList.step] at h
    split at h <;> (try split at h) <;> simp at h <;> (rw [← h.1]; simp [upd, hne])
  | ret =>
    simp only [Model.apply, TaggedFreeList.model, TaggedFreeList.result] at h
    split at h
    · simp at h; rw [← h.1]; simp [upd, hne]
    · simp at h

theorem freelist_pc_other (s : FreeList.St) (t : Tid) (a : Act) (s' : FreeList.St) (o : Obs)
    (h : FreeList.model.apply s t a = some (s', o)) (t' : Tid) (hne : t' ≠ t) : s'.pc t' = s.pc t' := by
  cases a with
  | invoke op =>
    simp only [Model.apply, FreeList.model, FreeList.invoke] at h
    split at h
    · split at h
      · simp at h; rw [← h.1]; simp [upd, hne]
      · simp at h
    · simp at h; rw [← h.1]; simp [upd, hne]
    · simp at h
  | step =>
    simp only [Model.apply, FreeList.model, FreeList.step] at h
    split at h <;> (try split at h) <;> simp at h <;> (rw [← h.1]; simp [upd, hne])
  | ret =>
    simp only [Model.apply, FreeList.model, FreeList.result] at h
    split at h
    · simp at h; rw [← h.1]; simp [upd, hne]
    · simp at h

/-- TaggedFreeList.  Thread 0 owns all nodes and puts n1 (list: n1, head = n1#1).  Then thread 1 calls `get` and thread 0
    calls `put( n2 )`, interleaved: both load head = n1#1; thread 0 links n2 (`cas+ head n1#1 n2#2`) and returns; thread
    1's CAS, expecting n1#1, FAILS; it goes round the loop with the value seen (n2#2), reads n2.next = n1 and takes n2 —
    the node that was put while its `get` was running. -/
def taggedRaceSched : List (Tid × Act) :=
  [(0, .invoke ⟨"put", [0, 1]⟩), (0, .step), (0, .step), (0, .step), (0, .ret),
   (1, .invoke ⟨"get", [1]⟩), (0, .invoke ⟨"put", [0, 2]⟩),
   (1, .step), (0, .step), (1, .step), (0, .step), (0, .step), (0, .ret),
   (1, .step), (1, .step), (1, .step), (1, .ret)]

example : ((TaggedFreeList.model.run (TaggedFreeList.init (fun _ => 0)) taggedRaceSched).map (fun r => r.2.drop 5)) = some
    [(1, .call ⟨"get", [1]⟩),
     (0, .call ⟨"put", [0, 2]⟩),
     (1, .ev ⟨"ld", "head", "n1#1", ""⟩),
     (0, .ev ⟨"ld", "head", "n1#1", ""⟩),
     (1, .ev ⟨"ld", "n1", "null", ""⟩),
     (0, .ev ⟨"st", "n2", "n1", ""⟩),
     (0, .ev ⟨"cas+", "head", "n1#1", "n2#2"⟩),      -- the put wins the race
     (0, .ret [1]),
     (1, .ev ⟨"cas-", "head", "n2#2", "n1#1"⟩),      -- the get's CAS fails
     (1, .ev ⟨"ld", "n2", "n1", ""⟩),
     (1, .ev ⟨"cas+", "head", "n2#2", "n1#3"⟩),
     (1, .ret [1, 2])] := by decide +kernel

set_option synthInstance.maxSize 4000 in
/-- At the end: both threads idle, the list is n1 alone, n2 is owned by thread 1 only. -/
example : ((TaggedFreeList.model.run (TaggedFreeList.init (fun _ => 0)) taggedRaceSched).map
    (fun r => (r.1.pc 0, r.1.pc 1, r.1.head, TaggedFreeList.walk r.1.next 8 r.1.head.1,
      [r.1.owns 0 1, r.1.owns 1 1], [r.1.owns 0 2, r.1.owns 1 2]))) =
    some (.idle, .idle, (some 1, 3), [1], [false, false], [false, true]) := by decide +kernel

/-- `C21_tagged_quiescent_complete` applied to that run: the run exists, EVERY thread is idle at its end, hence the
    conclusion of the theorem holds of its final state — no hypothesis is left. -/
example : ∃ s os, TaggedFreeList.model.run (TaggedFreeList.init (fun _ => 0)) taggedRaceSched = some (s, os) ∧
    (∀ t, s.pc t = .idle) ∧
    ∃ l, TaggedFreeList.Chain s.next s.head.1 l ∧ l.Nodup ∧ (∀ n, n ∈ l ↔ ∀ t, s.owns t n = false) ∧
      ∀ t, ∃ s' os', TaggedFreeList.model.run s (TaggedFreeList.drainSched t l.length) = some (s', os') ∧
        TaggedFreeList.retsOf os' = l.map (fun (a : Nat) => ([1, (a : Int)] : GRet)) ++ [[0]] ∧
        (∀ a ∈ l, s'.owns t a = true) := by
  have h : (TaggedFreeList.model.run (TaggedFreeList.init (fun _ => 0)) taggedRaceSched).isSome = true := by
    decide +kernel
  obtain ⟨⟨s, os⟩, hr⟩ := Option.isSome_iff_exists.mp h
  have h01 : (TaggedFreeList.model.run (TaggedFreeList.init (fun _ => 0)) taggedRaceSched).map
      (fun r => decide (r.1.pc 0 = .idle ∧ r.1.pc 1 = .idle)) = some true := by decide +kernel
  rw [hr] at h01
  simp only [Option.map_some, Option.some.injEq, decide_eq_true_eq] at h01
  have hsched : ∀ x ∈ taggedRaceSched, x.1 < 2 := by decide +kernel
  have hq : ∀ t, s.pc t = .idle := by
    intro t
    match t with
    | 0 => exact h01.1
    | 1 => exact h01.2
    | t + 2 =>
      exact run_pc_other TaggedFreeList.model (fun s => s.pc) tagged_pc_other taggedRaceSched _ s os hr (t + 2)
        (fun x hx e => absurd (e ▸ hsched x hx : t + 2 < 2) (Nat.not_lt.mpr (Nat.le_add_left 2 t)))
  exact ⟨s, os, hr, hq, C21_tagged_quiescent_complete (fun _ => 0) s ⟨taggedRaceSched, os, hr⟩ hq⟩

/-- The drain of the theorem, evaluated after that run (thread 2 calls `get` twice): n1, then "empty". -/
example : ((TaggedFreeList.model.run (TaggedFreeList.init (fun _ => 0))
    (taggedRaceSched ++ TaggedFreeList.drainSched 2 1)).map (fun r => TaggedFreeList.retsOf (r.2.drop 17))) =
    some [[1, 1], [0]] := by decide +kernel

/-- FreeList.  Thread 0 puts n1 (list: n1, word 1).  Then thread 1 calls `get` and thread 0 calls `put( n2 )`: thread 1
    loads head = n1 and takes a reference (word 2); thread 0 links n2 in front of n1 and returns; thread 1 reads
    n1.next, its CAS on the head FAILS (head is n2), it drops its reference to n1 (`sub n1 2 1`: word 1, n1 stays on the
    list), goes on with the value seen (n2), takes a reference, unlinks n2 and returns it. -/
def freelistRaceSched : List (Tid × Act) :=
  [(0, .invoke ⟨"put", [0, 1]⟩), (0, .step), (0, .step), (0, .step), (0, .step), (0, .step), (0, .ret),
   (1, .invoke ⟨"get", [1]⟩), (0, .invoke ⟨"put", [0, 2]⟩),
   (1, .step), (1, .step), (1, .step),
   (0, .step), (0, .step), (0, .step), (0, .step), (0, .step), (0, .ret),
   (1, .step), (1, .step), (1, .step), (1, .step), (1, .step), (1, .step), (1, .step), (1, .step), (1, .ret)]

example : ((FreeList.model.run (FreeList.init (fun _ => 0)) freelistRaceSched).map (fun r => r.2.drop 7)) = some
    [(1, .call ⟨"get", [1]⟩),
     (0, .call ⟨"put", [0, 2]⟩),
     (1, .ev ⟨"ld", "head", "n1", ""⟩),
     (1, .ev ⟨"ld", "n1", "1", ""⟩),
     (1, .ev ⟨"cas+", "n1", "1", "2"⟩),              -- the getter holds a reference to n1
     (0, .ev ⟨"add", "n2", "0", "2147483648"⟩),
     (0, .ev ⟨"ld", "head", "n1", ""⟩),
     (0, .ev ⟨"st", "n2.next", "n1", ""⟩),
     (0, .ev ⟨"st", "n2", "1", ""⟩),
     (0, .ev ⟨"cas+", "head", "n1", "n2"⟩),          -- the put wins the race
     (0, .ret [1]),
     (1, .ev ⟨"ld", "n1.next", "null", ""⟩),
     (1, .ev ⟨"cas-", "head", "n2", "n1"⟩),          -- the get's CAS fails
     (1, .ev ⟨"sub", "n1", "2", "1"⟩),               -- reference dropped: n1 stays on the list
     (1, .ev ⟨"ld", "n2", "1", ""⟩),
     (1, .ev ⟨"cas+", "n2", "1", "2"⟩),
     (1, .ev ⟨"ld", "n2.next", "n1", ""⟩),
     (1, .ev ⟨"cas+", "head", "n2", "n1"⟩),
     (1, .ev ⟨"sub", "n2", "2", "2"⟩),
     (1, .ret [1, 2])] := by decide +kernel

set_option synthInstance.maxSize 4000 in
/-- At the end: both threads idle, the list is n1 alone with word 1, n2 has word 0 and is owned by thread 1 only. -/
example : ((FreeList.model.run (FreeList.init (fun _ => 0)) freelistRaceSched).map
    (fun r => (r.1.pc 0, r.1.pc 1, r.1.head, FreeList.walk r.1.next 8 r.1.head, (r.1.refs 1, r.1.shouldBeOn 1),
      (r.1.refs 2, r.1.shouldBeOn 2), [r.1.owns 0 2, r.1.owns 1 2]))) =
    some (.idle, .idle, some 1, [1], (1, false), (0, false), [false, true]) := by decide +kernel

/-- `C21_freelist_quiescent_complete` applied to that run — no hypothesis is left. -/
example : ∃ s os, FreeList.model.run (FreeList.init (fun _ => 0)) freelistRaceSched = some (s, os) ∧
    (∀ t, s.pc t = .idle) ∧
    ∃ l, FreeList.Chain s.next s.head l ∧ l.Nodup ∧ (∀ n, n ∈ l ↔ ∀ t, s.owns t n = false) ∧
      (∀ n ∈ l, s.refs n = 1 ∧ s.shouldBeOn n = false) ∧ (∀ n, n ∉ l → s.refs n = 0 ∧ s.shouldBeOn n = false) ∧
      ∀ t, ∃ s' os', FreeList.model.run s (FreeList.drainSched t l.length) = some (s', os') ∧
        FreeList.retsOf os' = l.map (fun (a : Nat) => ([1, (a : Int)] : GRet)) ++ [[0]] ∧
        (∀ a ∈ l, s'.owns t a = true) := by
  have h : (FreeList.model.run (FreeList.init (fun _ => 0)) freelistRaceSched).isSome = true := by decide +kernel
  obtain ⟨⟨s, os⟩, hr⟩ := Option.isSome_iff_exists.mp h
  have h01 : (FreeList.model.run (FreeList.init (fun _ => 0)) freelistRaceSched).map
      (fun r => decide (r.1.pc 0 = .idle ∧ r.1.pc 1 = .idle)) = some true := by decide +kernel
  rw [hr] at h01
  simp only [Option.map_some, Option.some.injEq, decide_eq_true_eq] at h01
  have hsched : ∀ x ∈ freelistRaceSched, x.1 < 2 := by decide +kernel
  have hq : ∀ t, s.pc t = .idle := by
    intro t
    match t with
    | 0 => exact h01.1
    | 1 => exact h01.2
    | t + 2 =>
      exact run_pc_other FreeList.model (fun s => s.pc) freelist_pc_other freelistRaceSched _ s os hr (t + 2)
        (fun x hx e => absurd (e ▸ hsched x hx : t + 2 < 2) (Nat.not_lt.mpr (Nat.le_add_left 2 t)))
  exact ⟨s, os, hr, hq, C21_freelist_quiescent_complete (fun _ => 0) s ⟨freelistRaceSched, os, hr⟩ hq⟩

/-- The drain of the theorem, evaluated after that run (thread 2): n1, then "empty". -/
example : ((FreeList.model.run (FreeList.init (fun _ => 0))
    (freelistRaceSched ++ FreeList.drainSched 2 1)).map (fun r => FreeList.retsOf (r.2.drop 27))) =
    some [[1, 1], [0]] := by decide +kernel

end CdsVerif.Props.C21FreeLists

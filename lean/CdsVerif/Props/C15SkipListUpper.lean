/-
  C15 / C18, the UPPER levels of the lock-free skip list machine (`Algo/SkipList`, repaired fast path).
  Property theorems only; proofs in `Algo/SkipList/{UpperKey,UpperSnap}.lean`.

  The clause of C18 "every skip-list level is an ordered sub-list of the level below", for every reachable state:

  PROVED (every schedule, any number of threads, any keys, any tower heights, `c_nMaxHeight ≥ 1`):
    * `C15_skiplist_links_forward` — an inductive weakening that needs no reasoning about the unlink counter: EVERY
      tower word, on every level, of every item (linked or already unlinked) points forward in the key order,
      non-strictly; the towers of items not allocated yet are null.  Hence (`C15_skiplist_levels_nondecreasing`) the walk
      of EVERY level from the head is non-decreasing in the key and visits published items only.  (Level 0 is STRICTLY
      increasing: `C15_skiplist_level0`.)
    * `C15_skiplist_wf_of_upper_partial` — for a reachable state, the dump of ALL levels (`SkipList.snapOf`, the format of the
      harness) satisfies `skipWf` of C18, with the abstract set of the linearizability theorem as its abstraction, AS
      SOON AS every upper level chain is a sub-list of the chain below (`SkipList.UpperOk`).  Strictness of the upper
      levels is not an extra hypothesis: it follows from the sub-list clause and level 0.
    * `C15_invB_skipWf` — the executable predicate `SkipList.invB`, which `cdsdriver replay skiplist` evaluates on every
      state of every replayed trace of the real code, implies `skipWf` of the full dump: the replay check certifies
      exactly the C18 well-formedness, state by state, quiescent or not.

  NOT PROVED, `_partial`: `SkipList.UpperOk` itself as an invariant (the sub-list relation between consecutive levels,
  and with it strictness on the upper levels).  It holds on every state of every replayed trace (`invB`, > 19 000 traces
  and 65 926 exhaustively enumerated schedules, all non-quiescent states included — so the clean statement, not only a
  quiescent one, is the candidate invariant), and no counterexample run exists in that space.  What a proof needs, and
  why it does not follow from `SInvL` + `KInv`: an item may leave level `l` only when it has left (or will never enter)
  every level above — this is what `m_nUnlink` enforces (`help_remove` unlinks level `l` only if `m_nUnlink == l + 1`;
  `try_remove_at` goes top-down and stops at the first failing CAS; `insert_at_position` subtracts the levels it gives
  up), and an item enters level `l + 1` only while it is still on level `l`.  A ghost-free inductive form is
      for a published item `a` that no thread is linking or holds an undelivered `level_unlinked()` for:
          `a ∈ level l ↔ l < m_nUnlink(a)`           (the levels of `a` form a lower segment counted by the counter)
      while its inserter is active at level `lvl`:   `m_nUnlink(a) = height(a)` and `a ∈ level l ↔ l < lvl`
      between an unlinking CAS and its `level_unlinked()`:   `a ∈ level l ↔ l + 1 < m_nUnlink(a)`
  together with per-level versions of the level-0 clauses of `SInvL` (chain, strict order, "unmarked ⇒ linked").
-/
import CdsVerif.Algo.SkipList.UpperKey
import CdsVerif.Algo.SkipList.UpperSnap
namespace CdsVerif.Props.C15SkipListUpper
open CdsVerif.Machine CdsVerif.Spec CdsVerif.Snapshot CdsVerif.Algo

/-- In every reachable state every tower word of every level points forward in the key order (non-strictly), to a
    published item with a tower that reaches the level; unallocated towers are null. -/
theorem C15_skiplist_links_forward (c : SkipList.Cfg) (hc : 0 < c.maxH) (hmt : c.markTest = true)
    (sched : List (Tid × Act)) (s : SkipList.St) (os : List (Tid × Obs))
    (h : (SkipList.model c).run (SkipList.init c) sched = some (s, os)) :
    (∀ a l b, s.next a l = some b → b ≠ 0 ∧ l < s.ht b ∧ (a = 0 ∨ s.key a ≤ s.key b)) ∧
    (∀ a, s.cnt ≤ a → ∀ l, s.next a l = none) := by
  obtain ⟨L, hl⟩ := SkipList.sinv_run hc hmt sched s os h
  have hk := SkipList.kinv_reachable hc hmt sched s os h
  exact ⟨fun a l b hb => ⟨(hl.g.ptr a l b hb).1, (hl.g.ptr a l b hb).2.2, hk.fwd a l b hb⟩, hk.unalloc⟩

/-- In every reachable state the walk of EVERY level from the head (`levelNodes s l`, what the dump prints) is
    non-decreasing in the key. -/
theorem C15_skiplist_levels_nondecreasing (c : SkipList.Cfg) (hc : 0 < c.maxH) (hmt : c.markTest = true)
    (sched : List (Tid × Act)) (s : SkipList.St) (os : List (Tid × Obs))
    (h : (SkipList.model c).run (SkipList.init c) sched = some (s, os)) (l : Nat) :
    (SkipList.levelNodes s l).Pairwise (fun a b => s.key a ≤ s.key b) := by
  obtain ⟨L, hl⟩ := SkipList.sinv_run hc hmt sched s os h
  exact SkipList.levelNodes_nondecreasing hl (SkipList.kinv_reachable hc hmt sched s os h) l

/-- **C18 for the full dump, conditional on the sub-list clause** (`_partial`: `UpperOk` is the part that is not proved
    inductive).  For a reachable state in which every upper level chain is a sub-list of the chain below, the dump of
    all levels is well-formed and its abstraction is the abstract set of the machine. -/
theorem C15_skiplist_wf_of_upper_partial (c : SkipList.Cfg) (hc : 0 < c.maxH) (hmt : c.markTest = true)
    (sched : List (Tid × Act)) (s : SkipList.St) (os : List (Tid × Obs))
    (h : (SkipList.model c).run (SkipList.init c) sched = some (s, os)) (hu : SkipList.UpperOk c.maxH s) :
    skipWf (SkipList.snapOf c.maxH s) = true ∧ skipAbs (SkipList.snapOf c.maxH s) = SkipList.absKeys s := by
  obtain ⟨L, hl⟩ := SkipList.sinv_run hc hmt sched s os h
  exact ⟨SkipList.skipWf_of_upper c.maxH s hc hl.level0.1 hu, SkipList.skipAbs_snapOf c.maxH s hc⟩

/-- **The replay-time check certifies C18.**  Whenever the executable predicate `invB` holds of a machine state — and
    `cdsdriver replay skiplist` reports `INVARIANT violated` at the first replayed step after which it does not — the dump of all
    levels of that state satisfies `skipWf`, and every upper level is a sub-list of the level below. -/
theorem C15_invB_skipWf (maxH : Nat) (s : SkipList.St) (hm : 0 < maxH) (h : SkipList.invB maxH s = true) :
    skipWf (SkipList.snapOf maxH s) = true ∧ SkipList.UpperOk maxH s :=
  ⟨SkipList.invB_skipWf maxH s hm h, SkipList.upperOk_of_invB maxH s h⟩

end CdsVerif.Props.C15SkipListUpper

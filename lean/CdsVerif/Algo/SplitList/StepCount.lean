/-
  Preservation of the split-list invariant by the steps of `inc_item_count` and by `--m_ItemCounter`: none of them
  touches the list, the table of bucket pointers or a linearization point; `cGrow` doubles the bucket count.
-/
import CdsVerif.Algo.SplitList.Mono
namespace CdsVerif.Algo.SplitList
open CdsVerif.Machine CdsVerif.Spec CdsVerif.Lin
open CdsVerif.Algo.Michael (LPok isRO)

theorem sinvl_step_cLd1 {c : Cfg} {s s' : St} {t : Tid} {ev : Ev} {L : List Nat}
    (h : SInvL c s L) (hpc : s.pc t = .cLd1) (hs : step c s t = some (s', ev)) :
    ∃ L', SInvL c s' L' ∧ StepEff c s t s' L L' := by
  simp only [step, hpc] at hs
  simp only [Option.some.injEq, Prod.mk.injEq] at hs; obtain ⟨rfl, -⟩ := hs
  refine ⟨L, ⟨h.g, forall_upd (P := TOk c (mem! s) L) (fun t2 _ => h.thr t2) ?tok, h.own.upd t _ ?oi ?od ?oe⟩, ?eff⟩
  case tok => tok_close
  case oi => own_close
  case od => own_close
  case oe => own_close
  case eff => eff_close

theorem sinvl_step_cAdd {c : Cfg} {s s' : St} {t : Tid} {ev : Ev} {L : List Nat} {mx : Nat}
    (h : SInvL c s L) (hpc : s.pc t = .cAdd mx) (hs : step c s t = some (s', ev)) :
    ∃ L', SInvL c s' L' ∧ StepEff c s t s' L L' := by
  simp only [step, hpc] at hs
  simp only [Option.some.injEq, Prod.mk.injEq] at hs; obtain ⟨rfl, -⟩ := hs
  refine ⟨L, ⟨h.g, forall_upd (P := TOk c (mem! s) L) (fun t2 _ => h.thr t2) ?tok, h.own.upd t _ ?oi ?od ?oe⟩, ?eff⟩
  case tok => unfold afterAdd; split <;> tok_close
  case oi => own_close
  case od => own_close
  case oe => own_close
  case eff => unfold afterAdd; split <;> eff_close

theorem sinvl_step_cCnt {c : Cfg} (hc : SOHyp c) {s s' : St} {t : Tid} {ev : Ev} {L : List Nat} {mx : Nat}
    (h : SInvL c s L) (hpc : s.pc t = .cCnt mx) (hs : step c s t = some (s', ev)) :
    ∃ L', SInvL c s' L' ∧ StepEff c s t s' L L' := by
  have hgb := grow_bound hc (sz := s.cnt2)
  simp only [step, hpc] at hs
  simp only [Option.some.injEq, Prod.mk.injEq] at hs; obtain ⟨rfl, -⟩ := hs
  refine ⟨L, ⟨h.g, forall_upd (P := TOk c (mem! s) L) (fun t2 _ => h.thr t2) ?tok, h.own.upd t _ ?oi ?od ?oe⟩, ?eff⟩
  case tok => unfold afterCnt; split <;> (try split) <;> tok_close
  case oi => own_close
  case od => own_close
  case oe => own_close
  case eff => unfold afterCnt; split <;> (try split) <;> eff_close

theorem sinvl_step_cMax {c : Cfg} {s s' : St} {t : Tid} {ev : Ev} {L : List Nat} {mx sz : Nat}
    (h : SInvL c s L) (hpc : s.pc t = .cMax mx sz) (hs : step c s t = some (s', ev)) :
    ∃ L', SInvL c s' L' ∧ StepEff c s t s' L L' := by
  have hszb := (h.thr t).szb sz (by simp [hpc, pcSz])
  simp only [step, hpc] at hs
  simp only [Option.some.injEq, Prod.mk.injEq] at hs; obtain ⟨rfl, -⟩ := hs
  refine ⟨L, ⟨h.g, forall_upd (P := TOk c (mem! s) L) (fun t2 _ => h.thr t2) ?tok, h.own.upd t _ ?oi ?od ?oe⟩, ?eff⟩
  case tok => tok_close
  case oi => own_close
  case od => own_close
  case oe => own_close
  case eff => eff_close

theorem sinvl_step_cGrow {c : Cfg} {s s' : St} {t : Tid} {ev : Ev} {L : List Nat} {sz : Nat}
    (h : SInvL c s L) (hpc : s.pc t = .cGrow sz) (hs : step c s t = some (s', ev)) :
    ∃ L', SInvL c s' L' ∧ StepEff c s t s' L L' := by
  have hszb := (h.thr t).szb sz (by simp [hpc, pcSz])
  have hcb := h.g.cntb
  have hcb' : (if s.cnt2 = sz then sz + 1 else s.cnt2) ≤ c.maxLog := by split <;> omega
  simp only [step, hpc] at hs
  simp only [Option.some.injEq, Prod.mk.injEq] at hs; obtain ⟨rfl, -⟩ := hs
  refine ⟨L, ⟨⟨h.g.chain, h.g.sorted, h.g.alloc, h.g.unalloc, h.g.dmark, h.g.regso, h.g.dumso, h.g.succ, h.g.tab, h.g.tab0, hcb'⟩, forall_upd (P := TOk c (mem! s) L) (fun t2 _ => h.thr t2) ?tok, h.own.upd t _ ?oi ?od ?oe⟩, ?eff⟩
  case tok => tok_close
  case oi => own_close
  case od => own_close
  case oe => own_close
  case eff => eff_close

theorem sinvl_step_cSat {c : Cfg} {s s' : St} {t : Tid} {ev : Ev} {L : List Nat}
    (h : SInvL c s L) (hpc : s.pc t = .cSat) (hs : step c s t = some (s', ev)) :
    ∃ L', SInvL c s' L' ∧ StepEff c s t s' L L' := by
  simp only [step, hpc] at hs
  simp only [Option.some.injEq, Prod.mk.injEq] at hs; obtain ⟨rfl, -⟩ := hs
  refine ⟨L, ⟨h.g, forall_upd (P := TOk c (mem! s) L) (fun t2 _ => h.thr t2) ?tok, h.own.upd t _ ?oi ?od ?oe⟩, ?eff⟩
  case tok => tok_close
  case oi => own_close
  case od => own_close
  case oe => own_close
  case eff => eff_close

theorem sinvl_step_cSub {c : Cfg} {s s' : St} {t : Tid} {ev : Ev} {L : List Nat} {v : Int}
    (h : SInvL c s L) (hpc : s.pc t = .cSub v) (hs : step c s t = some (s', ev)) :
    ∃ L', SInvL c s' L' ∧ StepEff c s t s' L L' := by
  simp only [step, hpc] at hs
  simp only [Option.some.injEq, Prod.mk.injEq] at hs; obtain ⟨rfl, -⟩ := hs
  refine ⟨L, ⟨h.g, forall_upd (P := TOk c (mem! s) L) (fun t2 _ => h.thr t2) ?tok, h.own.upd t _ ?oi ?od ?oe⟩, ?eff⟩
  case tok => tok_close
  case oi => own_close
  case od => own_close
  case oe => own_close
  case eff => eff_close

end CdsVerif.Algo.SplitList

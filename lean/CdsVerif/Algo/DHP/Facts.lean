/-
  Facts about the dynamic-hazard-pointer machine on top of its inductive invariant (`Algo/DHP/Inv.lean`):
    * `obj_step` / `obj_apply`: the life cycle fresh -> live -> retired -> disposed only moves forward;
    * `Quiet` and `quiet_step` / `quiet_apply`: "nothing refers to the retired object p any more" is stable;
    * `decide_unguarded`, `disposed_step`, `decide_step`, `use_event`: facts about single steps;
    * `PPlace` (second invariant): a live object is in a cell or in flight, a retired object is in some retired chain;
    * `PAlias` (third invariant): the free lists are duplicate-free, no two Guard objects of a thread are linked to the
      same slot, a slot on the free list is linked to no Guard object;
    * `aheadPC` / `ahead_step`: the slots a reclamation pass will still read, and the progress skeleton "a slot that is
      ahead stays ahead until the pass loads it";
    * `PRoom` (fourth invariant, for `RB >= 4`): outside a pass the retired chain has room for the next `push`.
-/
import CdsVerif.Algo.DHP.Inv
namespace CdsVerif.Algo.DHP
set_option maxHeartbeats 1000000
open CdsVerif.Machine CdsVerif.Spec CdsVerif.Algo.HP

/-! ### The life cycle of an object only moves forward -/

/-- one forward move in the life cycle -/
def ObjSt.Succ : ObjSt → ObjSt → Prop
  | .fresh, .live => True
  | .live, .retired => True
  | .retired, .disposed => True
  | _, _ => False

theorem obj_step {cfg : Cfg} {s s' : St} {t : Tid} {ev : Ev} (h : PInv cfg s)
    (hs : step cfg s t = some (s', ev)) (p : Ptr) :
    s'.obj p = s.obj p ∨ ObjSt.Succ (s.obj p) (s'.obj p) := by
  have hfr := h.fresh_hi s.cnt (Nat.le_refl _)
  cases hpc : s.pc t with
  | idle => simp [step, stepW, hpc] at hs
  | done r => simp [step, stepW, hpc] at hs
  | gallocDo h =>
    simp only [step, stepW, hpc] at hs
    split at hs <;> simp at hs <;> obtain ⟨rfl, -⟩ := hs <;> simp
  | gfreeSt h b i => simp [step, stepW, hpc] at hs; obtain ⟨rfl, -⟩ := hs; simp
  | protLd b i c => simp [step, stepW, hpc] at hs; obtain ⟨rfl, -⟩ := hs; simp
  | protSt b i c q => simp [step, stepW, hpc] at hs; obtain ⟨rfl, -⟩ := hs; simp
  | protChk b i c q =>
    simp only [step, stepW, hpc] at hs
    split at hs <;> simp at hs <;> obtain ⟨rfl, -⟩ := hs <;> simp
  | clearSt b i => simp [step, stepW, hpc] at hs; obtain ⟨rfl, -⟩ := hs; simp
  | swapX c b =>
    cases b
    · simp only [step, stepW, hpc] at hs
      split at hs <;> simp at hs <;> obtain ⟨rfl, -⟩ := hs <;> simp
    · simp only [step, stepW, hpc] at hs
      split at hs <;> simp at hs <;> obtain ⟨rfl, -⟩ := hs <;> dsimp only <;>
        (by_cases e : p = s.cnt
         · subst e; simp [hfr, ObjSt.Succ]
         · simp [upd, e])
  | swapRet q r =>
    have hl := h.flight_live t q r hpc
    simp [step, stepW, hpc] at hs; obtain ⟨rfl, -⟩ := hs; dsimp only
    by_cases e : p = q
    · subst e; simp [hl, ObjSt.Succ]
    · simp [upd, e]
  | scanLd u b i acc r => simp [step, stepW, hpc] at hs; obtain ⟨rfl, -⟩ := hs; simp
  | scanExt u acc r => simp [step, stepW, hpc] at hs; obtain ⟨rfl, -⟩ := hs; simp
  | scanDecide acc r =>
    simp [step, stepW, hpc] at hs; obtain ⟨rfl, -⟩ := hs; dsimp only
    split
    next hm =>
      have := h.ret_st t p ((decision acc _ (h.ret_nodup t)).freed_sub p hm)
      simp [this, ObjSt.Succ]
    next => simp
  | derefRd b i =>
    simp only [step, stepW, hpc] at hs
    split at hs <;> simp at hs
    obtain ⟨rfl, -⟩ := hs; simp

/-- the plist of a scanning thread -/
def accOf : PC → List Ptr
  | .scanLd _ _ _ acc _ => acc
  | .scanExt _ acc _ => acc
  | .scanDecide acc _ => acc
  | _ => []

theorem scanRec_cases (cfg : Cfg) (u : Nat) (acc : List Ptr) (r : GRet) :
    scanRec cfg u acc r = .scanLd u 0 0 acc r ∨ scanRec cfg u acc r = .scanExt u acc r ∨
    scanRec cfg u acc r = .scanDecide acc r := by
  unfold scanRec; split <;> (try split) <;> simp

theorem accOf_scanRec (cfg : Cfg) (u : Nat) (acc : List Ptr) (r : GRet) : accOf (scanRec cfg u acc r) = acc := by
  rcases scanRec_cases cfg u acc r with e | e | e <;> rw [e] <;> rfl

theorem accOf_scanStart (cfg : Cfg) (r : GRet) : accOf (scanStart cfg r) = [] := accOf_scanRec cfg 0 [] r

theorem scanStart_cases (cfg : Cfg) (r : GRet) :
    scanStart cfg r = .scanLd 0 0 0 [] r ∨ scanStart cfg r = .scanExt 0 [] r ∨ scanStart cfg r = .scanDecide [] r :=
  scanRec_cases cfg 0 [] r

theorem accOf_scanNext (cfg : Cfg) (w u b i : Nat) (acc : List Ptr) (r : GRet) :
    accOf (scanNext cfg w u b i acc r) = acc := by
  unfold scanNext
  split
  · split <;> rfl
  · split
    · rfl
    · split
      · rfl
      · exact accOf_scanRec _ _ _ _

theorem accOf_scanAfterExt (cfg : Cfg) (u nb : Nat) (acc : List Ptr) (r : GRet) :
    accOf (scanAfterExt cfg u nb acc r) = acc := by
  unfold scanAfterExt; split
  · rfl
  · exact accOf_scanRec _ _ _ _

/-- An invocation only moves the program counter of an idle thread, to the start of an operation. -/
theorem invoke_frame {cfg : Cfg} {s s' : St} {t : Tid} {op : GOp} (hs : invoke cfg s t op = some s') :
    ∃ q, s' = { s with pc := upd s.pc t q } ∧ s.pc t = .idle ∧ accOf q = [] ∧ (∀ b i c v, q ≠ .protSt b i c v) ∧
      (∀ p r, q ≠ .swapRet p r) := by
  unfold invoke at hs
  split at hs
  · split at hs
    · split at hs <;> simp at hs; subst hs; exact ⟨_, rfl, by assumption, rfl, by simp, by simp⟩
    · split at hs <;> simp at hs; subst hs; exact ⟨_, rfl, by assumption, rfl, by simp, by simp⟩
    · split at hs <;> simp at hs; subst hs; exact ⟨_, rfl, by assumption, rfl, by simp, by simp⟩
    · split at hs <;> simp at hs; subst hs; exact ⟨_, rfl, by assumption, rfl, by simp, by simp⟩
    · simp at hs; subst hs; exact ⟨_, rfl, by assumption, rfl, by simp, by simp⟩
    · simp at hs; subst hs; exact ⟨_, rfl, by assumption, rfl, by simp, by simp⟩
    · simp at hs; subst hs
      refine ⟨_, rfl, by assumption, accOf_scanStart _ _, ?_, ?_⟩
      · intro b i c v; rcases scanStart_cases cfg [] with e | e | e <;> simp [e]
      · intro p r; rcases scanStart_cases cfg [] with e | e | e <;> simp [e]
    · split at hs
      · split at hs <;> simp at hs; subst hs; exact ⟨_, rfl, by assumption, rfl, by simp, by simp⟩
      · simp at hs
    · simp at hs
  · simp at hs

theorem obj_apply {cfg : Cfg} {s s' : St} {t : Tid} {a : Act} {o : Obs} (h : PInv cfg s)
    (hap : (model cfg).apply s t a = some (s', o)) (p : Ptr) :
    s'.obj p = s.obj p ∨ ObjSt.Succ (s.obj p) (s'.obj p) := by
  cases a with
  | invoke op =>
    simp only [Model.apply, model, Option.map_eq_some_iff] at hap
    obtain ⟨s1, hs1, heq⟩ := hap
    simp only [Prod.mk.injEq] at heq
    obtain ⟨rfl, -⟩ := heq
    obtain ⟨q, rfl, -⟩ := invoke_frame hs1
    exact Or.inl rfl
  | step =>
    simp only [Model.apply, model, Option.map_eq_some_iff] at hap
    obtain ⟨⟨s1, ev⟩, hr, heq⟩ := hap
    simp only [Prod.mk.injEq] at heq
    obtain ⟨rfl, -⟩ := heq
    exact obj_step h hr p
  | ret =>
    simp only [Model.apply, model, Option.map_eq_some_iff] at hap
    obtain ⟨⟨s1, r⟩, hr, heq⟩ := hap
    simp only [Prod.mk.injEq] at heq
    obtain ⟨rfl, -⟩ := heq
    unfold result at hr
    split at hr
    · simp at hr; obtain ⟨rfl, -⟩ := hr; exact Or.inl rfl
    · simp at hr

/-! ### A retired object that nothing refers to stays so -/

/-- `p` is retired (or already disposed) and nothing refers to it any more: no hazard slot holds it, no
    `protect` is about to store it, and scanner `sc` has not collected it. -/
structure Quiet (s : St) (sc : Tid) (p : Ptr) : Prop where
  gone : s.obj p = .retired ∨ s.obj p = .disposed
  noslot : ∀ u b i, s.slots u b i ≠ some p
  nocand : ∀ t b i c, s.pc t ≠ .protSt b i c (some p)
  noacc : p ∉ accOf (s.pc sc)

theorem quiet_step {cfg : Cfg} {s s' : St} {t : Tid} {ev : Ev} {sc : Tid} {p : Ptr} (h : PInv cfg s)
    (hq : Quiet s sc p) (hs : step cfg s t = some (s', ev)) : Quiet s' sc p := by
  obtain ⟨q1, q2, q3, q4⟩ := hq
  have hst := obj_step h hs p
  have hgone : s'.obj p = .retired ∨ s'.obj p = .disposed := by
    rcases hst with e | e
    · rw [e]; exact q1
    · rcases q1 with e1 | e1 <;> rw [e1] at e <;> revert e <;> cases s'.obj p <;> simp [ObjSt.Succ]
  have hcell : ∀ c, s.cells c ≠ some p := fun c hc => by
    have := h.cell_live c p hc; rcases q1 with e | e <;> simp_all
  refine ⟨hgone, ?_, ?_, ?_⟩ <;> clear hgone hst
  all_goals
    cases hpc : s.pc t with
    | idle => simp [step, stepW, hpc] at hs
    | done r => simp [step, stepW, hpc] at hs
    | gallocDo h =>
      simp only [step, stepW, hpc] at hs
      split at hs <;> simp at hs <;> obtain ⟨rfl, -⟩ := hs <;> intros <;> dsimp only <;> grind [upd, upd2, upd3, accOf]
    | gfreeSt h b i => simp [step, stepW, hpc] at hs; obtain ⟨rfl, -⟩ := hs; intros; dsimp only; grind [upd, upd2, upd3, accOf]
    | protLd b i c => simp [step, stepW, hpc] at hs; obtain ⟨rfl, -⟩ := hs; intros; dsimp only; grind [upd, upd2, upd3, accOf]
    | protSt b i c q => simp [step, stepW, hpc] at hs; obtain ⟨rfl, -⟩ := hs; intros; dsimp only; grind [upd, upd2, upd3, accOf]
    | protChk b i c q =>
      simp only [step, stepW, hpc] at hs
      split at hs <;> simp at hs <;> obtain ⟨rfl, -⟩ := hs <;> intros <;> dsimp only <;> grind [upd, upd2, upd3, accOf]
    | clearSt b i => simp [step, stepW, hpc] at hs; obtain ⟨rfl, -⟩ := hs; intros; dsimp only; grind [upd, upd2, upd3, accOf]
    | swapX c b =>
      cases b <;> simp only [step, stepW, hpc] at hs <;>
      split at hs <;> simp at hs <;> obtain ⟨rfl, -⟩ := hs <;> intros <;> dsimp only <;> grind [upd, upd2, upd3, accOf]
    | swapRet q r =>
      have := accOf_scanStart cfg r
      have := scanStart_cases cfg r
      simp [step, stepW, hpc] at hs; obtain ⟨rfl, -⟩ := hs; intros; dsimp only; grind [upd, upd2, upd3, accOf]
    | scanLd u b i acc r =>
      have := accOf_scanNext cfg cfg.B u b i (collect acc (s.slots u b i)) r
      have hne : ∀ b' i' c' v', scanNext cfg cfg.B u b i (collect acc (s.slots u b i)) r ≠ .protSt b' i' c' v' := by
        intro b' i' c' v' e; rw [e] at this
        unfold scanNext at e
        rcases scanRec_cases cfg (u + 1) (collect acc (s.slots u b i)) r with e' | e' | e' <;>
          (repeat' split at e) <;> simp_all
      simp [step, stepW, hpc] at hs; obtain ⟨rfl, -⟩ := hs; intros; dsimp only
      grind [upd, upd2, upd3, accOf, mem_collect]
    | scanExt u acc r =>
      have := accOf_scanAfterExt cfg u (s.nblk u) acc r
      have hne : ∀ b' i' c' v', scanAfterExt cfg u (s.nblk u) acc r ≠ .protSt b' i' c' v' := by
        intro b' i' c' v' e
        unfold scanAfterExt at e
        rcases scanRec_cases cfg (u + 1) acc r with e' | e' | e' <;>
          (repeat' split at e) <;> simp_all
      simp [step, stepW, hpc] at hs; obtain ⟨rfl, -⟩ := hs; intros; dsimp only
      grind [upd, upd2, upd3, accOf]
    | scanDecide acc r => simp [step, stepW, hpc] at hs; obtain ⟨rfl, -⟩ := hs; intros; dsimp only; grind [upd, upd2, upd3, accOf]
    | derefRd b i =>
      simp only [step, stepW, hpc] at hs
      split at hs <;> simp at hs
      obtain ⟨rfl, -⟩ := hs; intros; dsimp only; grind [upd, upd2, upd3, accOf]

theorem quiet_apply {cfg : Cfg} {s s' : St} {t : Tid} {a : Act} {o : Obs} {sc : Tid} {p : Ptr} (h : PInv cfg s)
    (hq : Quiet s sc p) (hap : (model cfg).apply s t a = some (s', o)) : Quiet s' sc p := by
  cases a with
  | invoke op =>
    simp only [Model.apply, model, Option.map_eq_some_iff] at hap
    obtain ⟨s1, hs1, heq⟩ := hap
    simp only [Prod.mk.injEq] at heq
    obtain ⟨rfl, -⟩ := heq
    obtain ⟨q, rfl, hidle, hacc, hns, -⟩ := invoke_frame hs1
    obtain ⟨q1, q2, q3, q4⟩ := hq
    refine ⟨q1, q2, ?_, ?_⟩
    · intro t' b i c; dsimp only; grind [upd]
    · dsimp only; grind [upd]
  | step =>
    simp only [Model.apply, model, Option.map_eq_some_iff] at hap
    obtain ⟨⟨s1, ev⟩, hr, heq⟩ := hap
    simp only [Prod.mk.injEq] at heq
    obtain ⟨rfl, -⟩ := heq
    exact quiet_step h hq hr
  | ret =>
    simp only [Model.apply, model, Option.map_eq_some_iff] at hap
    obtain ⟨⟨s1, r⟩, hr, heq⟩ := hap
    simp only [Prod.mk.injEq] at heq
    obtain ⟨rfl, -⟩ := heq
    obtain ⟨q1, q2, q3, q4⟩ := hq
    unfold result at hr
    split at hr
    · simp at hr; obtain ⟨rfl, -⟩ := hr
      refine ⟨q1, q2, ?_, ?_⟩
      · intro t' b i c; dsimp only; grind [upd]
      · dsimp only; grind [upd, accOf]
    · simp at hr

/-- Two-state-and-observation form of `Model.inv_of_inductive`: a property of every action taken from a state
    that satisfies an inductive invariant holds of every entry of the observation list of every run. -/
theorem obs_of_inductive {σ : Type} (m : Model σ) (I : σ → Prop) (P : Tid → Obs → Prop)
    (hstep : ∀ s t a s' o, I s → m.apply s t a = some (s', o) → I s')
    (hobs : ∀ s t a s' o, I s → m.apply s t a = some (s', o) → P t o) :
    ∀ (sched : List (Tid × Act)) (s s' : σ) os, I s → m.run s sched = some (s', os) →
      ∀ x ∈ os, P x.1 x.2 := by
  intro sched
  induction sched with
  | nil => intro s s' os _ hr; simp [Model.run] at hr; simp [hr.2]
  | cons x rest ih =>
    intro s s' os h hr
    obtain ⟨t, a⟩ := x
    simp only [Model.run] at hr
    cases hap : m.apply s t a with
    | none => simp [hap] at hr
    | some q =>
      obtain ⟨s1, o⟩ := q
      simp only [hap] at hr
      cases hrr : m.run s1 rest with
      | none => simp [hrr] at hr
      | some q2 =>
        obtain ⟨s2, os2⟩ := q2
        simp only [hrr, Option.some.injEq, Prod.mk.injEq] at hr
        obtain ⟨-, rfl⟩ := hr
        intro y hy
        rcases List.mem_cons.mp hy with e | e
        · subst e; exact hobs s t a s1 o h hap
        · exact ih s1 s2 os2 (hstep s t a s1 o h hap) hrr y e

/-! ### Facts about single steps used by the property theorems -/

/-- At the decision step of a pass, no validated guard - in an initial array or in an extension block - holds an object
    that the pass hands to the disposer. -/
theorem decide_unguarded {cfg : Cfg} {s : St} {t : Tid} {acc : List Ptr} {r : GRet} (h : PInv cfg s)
    (hpc : s.pc t = .scanDecide acc r) :
    ∀ p ∈ (classicScan acc (s.retired t)).2, ∀ u b i, s.guard u b i ≠ some p := by
  intro p hp u b i hg
  have d := decision acc _ (h.ret_nodup t)
  have hr := d.freed_sub p hp
  have hacc := h.scan_all t acc r u b i p hpc hg hr
  have hne : p ≠ 0 := by
    intro e; have h1 := h.ret_st t p hr; have h0 := h.fresh_zero; rw [e] at h1; rw [h1] at h0; cases h0
  exact d.safe p hp hne hacc

/-- Only the decision step of a pass disposes, and only objects its decision function frees. -/
theorem disposed_step {cfg : Cfg} {s s' : St} {t : Tid} {ev : Ev} {p : Ptr}
    (hs : step cfg s t = some (s', ev)) (h0 : s.obj p ≠ .disposed) (h1 : s'.obj p = .disposed) :
    ∃ acc r, s.pc t = .scanDecide acc r ∧ p ∈ (classicScan acc (s.retired t)).2 := by
  cases hpc : s.pc t with
  | idle => simp [step, stepW, hpc] at hs
  | done r => simp [step, stepW, hpc] at hs
  | gallocDo h =>
    simp only [step, stepW, hpc] at hs
    split at hs <;> simp at hs <;> obtain ⟨rfl, -⟩ := hs <;> exact absurd h1 h0
  | gfreeSt h b i => simp [step, stepW, hpc] at hs; obtain ⟨rfl, -⟩ := hs; exact absurd h1 h0
  | protLd b i c => simp [step, stepW, hpc] at hs; obtain ⟨rfl, -⟩ := hs; exact absurd h1 h0
  | protSt b i c q => simp [step, stepW, hpc] at hs; obtain ⟨rfl, -⟩ := hs; exact absurd h1 h0
  | protChk b i c q =>
    simp only [step, stepW, hpc] at hs
    split at hs <;> simp at hs <;> obtain ⟨rfl, -⟩ := hs <;> exact absurd h1 h0
  | clearSt b i => simp [step, stepW, hpc] at hs; obtain ⟨rfl, -⟩ := hs; exact absurd h1 h0
  | swapX c b =>
    cases b
    · simp only [step, stepW, hpc] at hs
      split at hs <;> simp at hs <;> obtain ⟨rfl, -⟩ := hs <;> exact absurd h1 h0
    · simp only [step, stepW, hpc] at hs
      split at hs <;> simp at hs <;> obtain ⟨rfl, -⟩ := hs <;> dsimp only at h1 <;>
        (by_cases e : p = s.cnt
         · subst e; simp [upd] at h1
         · simp [upd, e] at h1; exact absurd h1 h0)
  | swapRet q r =>
    simp [step, stepW, hpc] at hs; obtain ⟨rfl, -⟩ := hs; dsimp only at h1
    by_cases e : p = q
    · subst e; simp [upd] at h1
    · simp [upd, e] at h1; exact absurd h1 h0
  | scanLd u b i acc r => simp [step, stepW, hpc] at hs; obtain ⟨rfl, -⟩ := hs; exact absurd h1 h0
  | scanExt u acc r => simp [step, stepW, hpc] at hs; obtain ⟨rfl, -⟩ := hs; exact absurd h1 h0
  | scanDecide acc r =>
    simp [step, stepW, hpc] at hs; obtain ⟨rfl, -⟩ := hs; dsimp only at h1
    refine ⟨acc, r, rfl, ?_⟩
    split at h1
    · assumption
    · exact absurd h1 h0
  | derefRd b i =>
    simp only [step, stepW, hpc] at hs
    split at hs <;> simp at hs
    obtain ⟨rfl, -⟩ := hs; exact absurd h1 h0

/-- The effect of the decision step. -/
theorem decide_step {cfg : Cfg} {s s' : St} {t : Tid} {ev : Ev} {acc : List Ptr} {r : GRet}
    (hpc : s.pc t = .scanDecide acc r) (hs : step cfg s t = some (s', ev)) :
    (∀ p, s'.obj p = if p ∈ (classicScan acc (s.retired t)).2 then .disposed else s.obj p) ∧
    s'.retired t = (classicScan acc (s.retired t)).1 ∧ (∀ u, u ≠ t → s'.retired u = s.retired u) ∧
    s'.log = s.log ++ (classicScan acc (s.retired t)).2 ∧ s'.guard = s.guard ∧ s'.pc t = .done r ∧
    s'.rblk t = rblkAfter cfg (s.rblk t) (s.retired t).length (classicScan acc (s.retired t)).2.length := by
  simp [step, stepW, hpc] at hs; obtain ⟨rfl, -⟩ := hs
  refine ⟨fun _ => rfl, by simp, fun u hu => by simp [upd, hu], rfl, rfl, by simp, by simp⟩

/-- A `use` event is the step of a `deref`, on the object the thread's validated guard holds. -/
theorem use_event {cfg : Cfg} {s s' : St} {t : Tid} {e : Ev}
    (hs : step cfg s t = some (s', e)) (hk : e.kind = "use") :
    ∃ b i p, s.pc t = .derefRd b i ∧ s.guard t b i = some p ∧ e = evUse p (s.obj p) ∧
      s'.pc t = .done [objCode (s.obj p)] := by
  cases hpc : s.pc t with
  | idle => simp [step, stepW, hpc] at hs
  | done r => simp [step, stepW, hpc] at hs
  | gallocDo h =>
    simp only [step, stepW, hpc] at hs
    split at hs <;> simp at hs <;> obtain ⟨-, rfl⟩ := hs <;> simp [evGalloc, evStExt] at hk
  | gfreeSt h b i => simp [step, stepW, hpc] at hs; obtain ⟨-, rfl⟩ := hs; simp [evSt] at hk
  | protLd b i c => simp [step, stepW, hpc] at hs; obtain ⟨-, rfl⟩ := hs; simp [evLd] at hk
  | protSt b i c q => simp [step, stepW, hpc] at hs; obtain ⟨-, rfl⟩ := hs; simp [evSt] at hk
  | protChk b i c q =>
    simp only [step, stepW, hpc] at hs
    split at hs <;> simp at hs <;> obtain ⟨-, rfl⟩ := hs <;> simp [evLd] at hk
  | clearSt b i => simp [step, stepW, hpc] at hs; obtain ⟨-, rfl⟩ := hs; simp [evSt] at hk
  | swapX c b =>
    cases b <;> simp only [step, stepW, hpc] at hs <;>
      split at hs <;> simp at hs <;> obtain ⟨-, rfl⟩ := hs <;> simp [evXchg] at hk
  | swapRet q r => simp [step, stepW, hpc] at hs; obtain ⟨-, rfl⟩ := hs; simp [evRetire] at hk
  | scanLd u b i acc r => simp [step, stepW, hpc] at hs; obtain ⟨-, rfl⟩ := hs; simp [evLd] at hk
  | scanExt u acc r => simp [step, stepW, hpc] at hs; obtain ⟨-, rfl⟩ := hs; simp [evLdExt] at hk
  | scanDecide acc r => simp [step, stepW, hpc] at hs; obtain ⟨-, rfl⟩ := hs; simp [evFree] at hk
  | derefRd b i =>
    simp only [step, stepW, hpc] at hs
    split at hs
    next q hq =>
      simp at hs; obtain ⟨rfl, rfl⟩ := hs
      exact ⟨b, i, q, rfl, hq, rfl, by simp⟩
    next => simp at hs

/-! ### Completeness of the places (no object is lost) -/

/-- Every allocated, not yet disposed object is somewhere: a `live` object is in a cell or in flight in the
    `swap`/`take` that unlinked it; a `retired` object is in some thread's retired chain (so that thread's passes
    can free it). -/
structure PPlace (s : St) : Prop where
  live_ex : ∀ p, s.obj p = .live → (∃ c, s.cells c = some p) ∨ (∃ t r, s.pc t = .swapRet p r)
  ret_ex : ∀ p, s.obj p = .retired → ∃ t, p ∈ s.retired t

theorem pplace_init (cfg : Cfg) : PPlace (init cfg) := by
  constructor <;> simp [init]

/-- steps that touch neither objects, cells, retired chains nor an in-flight program counter -/
theorem pplace_frame {s s' : St} (h : PPlace s) (ho : s'.obj = s.obj) (hc : s'.cells = s.cells)
    (hr : s'.retired = s.retired) (hp : ∀ t p r, s.pc t = .swapRet p r → s'.pc t = .swapRet p r) : PPlace s' := by
  obtain ⟨h1, h2⟩ := h
  constructor
  · intro p hl
    rw [ho] at hl
    rcases h1 p hl with ⟨c, hc'⟩ | ⟨t, r, ht⟩
    · exact Or.inl ⟨c, by rw [hc]; exact hc'⟩
    · exact Or.inr ⟨t, r, hp t p r ht⟩
  · intro p hl
    rw [ho] at hl; rw [hr]; exact h2 p hl

theorem pplace_setpc {s : St} {t : Tid} {q : PC} (h : PPlace s) (hpc : ∀ p r, s.pc t ≠ .swapRet p r) :
    PPlace { s with pc := upd s.pc t q } := by
  refine pplace_frame h rfl rfl rfl ?_
  intro t' p r ht
  by_cases e : t' = t
  · subst e; exact absurd ht (hpc p r)
  · simp [upd, e, ht]

theorem pplace_step {cfg : Cfg} {s s' : St} {t : Tid} {ev : Ev} (hI : PInv cfg s) (h : PPlace s)
    (hs : step cfg s t = some (s', ev)) : PPlace s' := by
  cases hpc : s.pc t with
  | idle => simp [step, stepW, hpc] at hs
  | done r => simp [step, stepW, hpc] at hs
  | gallocDo h' =>
    simp only [step, stepW, hpc] at hs
    split at hs <;> simp at hs <;> obtain ⟨rfl, -⟩ := hs <;>
      exact pplace_frame (pplace_setpc (q := .done _) h (by simp [hpc])) rfl rfl rfl (fun _ _ _ h => h)
  | gfreeSt h' b i =>
    simp [step, stepW, hpc] at hs; obtain ⟨rfl, -⟩ := hs
    exact pplace_frame (pplace_setpc (q := .done []) h (by simp [hpc])) rfl rfl rfl (fun _ _ _ h => h)
  | protLd b i c =>
    simp [step, stepW, hpc] at hs; obtain ⟨rfl, -⟩ := hs; exact pplace_setpc h (by simp [hpc])
  | protSt b i c q =>
    simp [step, stepW, hpc] at hs; obtain ⟨rfl, -⟩ := hs
    exact pplace_frame (pplace_setpc (q := .protChk b i c q) h (by simp [hpc])) rfl rfl rfl (fun _ _ _ h => h)
  | protChk b i c q =>
    simp only [step, stepW, hpc] at hs
    split at hs <;> simp at hs <;> obtain ⟨rfl, -⟩ := hs
    · exact pplace_frame (pplace_setpc (q := .done (retPtr q)) h (by simp [hpc])) rfl rfl rfl (fun _ _ _ h => h)
    · exact pplace_setpc h (by simp [hpc])
  | clearSt b i =>
    simp [step, stepW, hpc] at hs; obtain ⟨rfl, -⟩ := hs
    exact pplace_frame (pplace_setpc (q := .done []) h (by simp [hpc])) rfl rfl rfl (fun _ _ _ h => h)
  | scanLd u b i acc r =>
    simp [step, stepW, hpc] at hs; obtain ⟨rfl, -⟩ := hs; exact pplace_setpc h (by simp [hpc])
  | scanExt u acc r =>
    simp [step, stepW, hpc] at hs; obtain ⟨rfl, -⟩ := hs; exact pplace_setpc h (by simp [hpc])
  | derefRd b i =>
    simp only [step, stepW, hpc] at hs
    split at hs <;> simp at hs
    obtain ⟨rfl, -⟩ := hs; exact pplace_setpc h (by simp [hpc])
  | swapX c b =>
    obtain ⟨h1, h2⟩ := h
    have hfr := hI.fresh_hi s.cnt (Nat.le_refl _)
    have hne : ∀ w p r, s.pc w = .swapRet p r → w ≠ t := fun w p r hw e => by rw [e, hpc] at hw; cases hw
    cases b <;> simp only [step, stepW, hpc] at hs <;> split at hs <;> simp at hs <;> obtain ⟨rfl, -⟩ := hs
    · exact pplace_setpc ⟨h1, h2⟩ (by simp [hpc])
    · next a ha =>
      constructor
      · intro p hl
        rcases h1 p hl with ⟨c', hc'⟩ | ⟨w, r', hw⟩
        · by_cases e : c' = c
          · subst e; rw [ha] at hc'; cases hc'; exact Or.inr ⟨t, _, upd_same _ _ _⟩
          · exact Or.inl ⟨c', by simp [upd, e, hc']⟩
        · exact Or.inr ⟨w, r', by simp [upd, hne w p r' hw, hw]⟩
      · exact h2
    · next ha =>
      constructor
      · intro p hl
        dsimp only at hl ⊢
        by_cases ep : p = s.cnt
        · exact Or.inl ⟨c, by simp [ep]⟩
        · rw [upd_other _ _ _ _ ep] at hl
          rcases h1 p hl with ⟨c', hc'⟩ | ⟨w, r', hw⟩
          · have e : c' ≠ c := fun e => by rw [e, ha] at hc'; cases hc'
            exact Or.inl ⟨c', by simp [upd, e, hc']⟩
          · exact Or.inr ⟨w, r', by simp [upd, hne w p r' hw, hw]⟩
      · intro p hl
        dsimp only at hl ⊢
        by_cases ep : p = s.cnt
        · rw [ep] at hl; simp at hl
        · rw [upd_other _ _ _ _ ep] at hl; exact h2 p hl
    · next a ha =>
      constructor
      · intro p hl
        dsimp only at hl ⊢
        by_cases ep : p = s.cnt
        · exact Or.inl ⟨c, by simp [ep]⟩
        · rw [upd_other _ _ _ _ ep] at hl
          rcases h1 p hl with ⟨c', hc'⟩ | ⟨w, r', hw⟩
          · by_cases e : c' = c
            · subst e; rw [ha] at hc'; cases hc'; exact Or.inr ⟨t, _, upd_same _ _ _⟩
            · exact Or.inl ⟨c', by simp [upd, e, hc']⟩
          · exact Or.inr ⟨w, r', by simp [upd, hne w p r' hw, hw]⟩
      · intro p hl
        dsimp only at hl ⊢
        by_cases ep : p = s.cnt
        · rw [ep] at hl; simp at hl
        · rw [upd_other _ _ _ _ ep] at hl; exact h2 p hl
  | swapRet q r =>
    obtain ⟨h1, h2⟩ := h
    simp [step, stepW, hpc] at hs; obtain ⟨rfl, -⟩ := hs
    constructor
    · intro p hl
      dsimp only at hl ⊢
      have ep : p ≠ q := fun e => by rw [e] at hl; simp at hl
      rw [upd_other _ _ _ _ ep] at hl
      rcases h1 p hl with ⟨c', hc'⟩ | ⟨w, r', hw⟩
      · exact Or.inl ⟨c', hc'⟩
      · have e : w ≠ t := fun e => by rw [e, hpc] at hw; cases hw; exact ep rfl
        exact Or.inr ⟨w, r', by simp [upd, e, hw]⟩
    · intro p hl
      dsimp only at hl ⊢
      by_cases ep : p = q
      · exact ⟨t, by simp [ep]⟩
      · rw [upd_other _ _ _ _ ep] at hl
        obtain ⟨u, hu⟩ := h2 p hl
        by_cases e : u = t
        · exact ⟨t, by simp [← e, hu]⟩
        · exact ⟨u, by simp [upd, e, hu]⟩
  | scanDecide acc r =>
    obtain ⟨h1, h2⟩ := h
    have d := decision acc _ (hI.ret_nodup t)
    simp [step, stepW, hpc] at hs; obtain ⟨rfl, -⟩ := hs
    constructor
    · intro p hl
      dsimp only at hl ⊢
      split at hl
      · cases hl
      · rcases h1 p hl with ⟨c', hc'⟩ | ⟨w, r', hw⟩
        · exact Or.inl ⟨c', hc'⟩
        · have e : w ≠ t := fun e => by rw [e, hpc] at hw; cases hw
          exact Or.inr ⟨w, r', by simp [upd, e, hw]⟩
    · intro p hl
      dsimp only at hl ⊢
      split at hl
      · cases hl
      · next hnf =>
        obtain ⟨u, hu⟩ := h2 p hl
        by_cases e : u = t
        · subst e
          rcases d.split p hu with hk | hf
          · exact ⟨u, by simp [hk]⟩
          · exact absurd hf hnf
        · exact ⟨u, by simp [upd, e, hu]⟩

theorem pplace_apply (cfg : Cfg) (s : St) (t : Tid) (a : Act) (s' : St) (o : Obs)
    (h : PInv cfg s ∧ PPlace s) (hap : (model cfg).apply s t a = some (s', o)) : PInv cfg s' ∧ PPlace s' := by
  refine ⟨pinv_apply cfg s t a s' o h.1 hap, ?_⟩
  cases a with
  | invoke op =>
    simp only [Model.apply, model, Option.map_eq_some_iff] at hap
    obtain ⟨s1, hs1, heq⟩ := hap
    simp only [Prod.mk.injEq] at heq
    obtain ⟨rfl, -⟩ := heq
    obtain ⟨q, rfl, hidle, -⟩ := invoke_frame hs1
    exact pplace_setpc h.2 (by simp [hidle])
  | step =>
    simp only [Model.apply, model, Option.map_eq_some_iff] at hap
    obtain ⟨⟨s1, ev⟩, hr, heq⟩ := hap
    simp only [Prod.mk.injEq] at heq
    obtain ⟨rfl, -⟩ := heq
    exact pplace_step h.1 h.2 hr
  | ret =>
    simp only [Model.apply, model, Option.map_eq_some_iff] at hap
    obtain ⟨⟨s1, r⟩, hr, heq⟩ := hap
    simp only [Prod.mk.injEq] at heq
    obtain ⟨rfl, -⟩ := heq
    unfold result at hr
    split at hr
    · next r' hd => simp at hr; obtain ⟨rfl, -⟩ := hr; exact pplace_setpc h.2 (by simp [hd])
    · simp at hr

theorem pplace_reachable (cfg : Cfg) (hB : 0 < cfg.B) (s : St) (hr : (model cfg).Reachable (init cfg) s) : PPlace s :=
  ((model cfg).inv_reachable (fun x => PInv cfg x ∧ PPlace x) (init cfg) ⟨pinv_init cfg hB, pplace_init cfg⟩
    (pplace_apply cfg) s hr).2

/-! ### Frames: what an action of thread `t` leaves alone -/

/-- An action of thread `t` changes nobody else's program counter, and the number of linked extension blocks of a
    record never decreases. -/
theorem apply_frame {cfg : Cfg} {s s' : St} {t : Tid} {a : Act} {o : Obs}
    (hap : (model cfg).apply s t a = some (s', o)) :
    (∀ t', t' ≠ t → s'.pc t' = s.pc t') ∧ (∀ u, s.nblk u ≤ s'.nblk u) := by
  cases a with
  | invoke op =>
    simp only [Model.apply, model, Option.map_eq_some_iff] at hap
    obtain ⟨s1, hs1, heq⟩ := hap
    simp only [Prod.mk.injEq] at heq
    obtain ⟨rfl, -⟩ := heq
    obtain ⟨q, rfl, -⟩ := invoke_frame hs1
    exact ⟨fun t' ht' => by simp [upd, ht'], fun u => Nat.le_refl _⟩
  | ret =>
    simp only [Model.apply, model, Option.map_eq_some_iff] at hap
    obtain ⟨⟨s1, r⟩, hr, heq⟩ := hap
    simp only [Prod.mk.injEq] at heq
    obtain ⟨rfl, -⟩ := heq
    unfold result at hr
    split at hr
    · simp at hr; obtain ⟨rfl, -⟩ := hr
      exact ⟨fun t' ht' => by simp [upd, ht'], fun u => Nat.le_refl _⟩
    · simp at hr
  | step =>
    simp only [Model.apply, model, Option.map_eq_some_iff] at hap
    obtain ⟨⟨s1, ev⟩, hs, heq⟩ := hap
    simp only [Prod.mk.injEq] at heq
    obtain ⟨rfl, -⟩ := heq
    cases hpc : s.pc t with
    | idle => simp [step, stepW, hpc] at hs
    | done r => simp [step, stepW, hpc] at hs
    | gallocDo h =>
      simp only [step, stepW, hpc] at hs
      split at hs <;> simp at hs <;> obtain ⟨rfl, -⟩ := hs
      · exact ⟨fun t' ht' => by simp [upd, ht'], fun u => Nat.le_refl _⟩
      · refine ⟨fun t' ht' => by simp [upd, ht'], fun u => ?_⟩
        dsimp only [upd]; split
        · next e => subst e; omega
        · exact Nat.le_refl _
    | gfreeSt h b i =>
      simp [step, stepW, hpc] at hs; obtain ⟨rfl, -⟩ := hs
      exact ⟨fun t' ht' => by simp [upd, ht'], fun u => Nat.le_refl _⟩
    | protLd b i c =>
      simp [step, stepW, hpc] at hs; obtain ⟨rfl, -⟩ := hs
      exact ⟨fun t' ht' => by simp [upd, ht'], fun u => Nat.le_refl _⟩
    | protSt b i c q =>
      simp [step, stepW, hpc] at hs; obtain ⟨rfl, -⟩ := hs
      exact ⟨fun t' ht' => by simp [upd, ht'], fun u => Nat.le_refl _⟩
    | protChk b i c q =>
      simp only [step, stepW, hpc] at hs
      split at hs <;> simp at hs <;> obtain ⟨rfl, -⟩ := hs <;>
        exact ⟨fun t' ht' => by simp [upd, ht'], fun u => Nat.le_refl _⟩
    | clearSt b i =>
      simp [step, stepW, hpc] at hs; obtain ⟨rfl, -⟩ := hs
      exact ⟨fun t' ht' => by simp [upd, ht'], fun u => Nat.le_refl _⟩
    | swapX c b =>
      cases b <;> simp only [step, stepW, hpc] at hs <;> split at hs <;> simp at hs <;> obtain ⟨rfl, -⟩ := hs <;>
        exact ⟨fun t' ht' => by simp [upd, ht'], fun u => Nat.le_refl _⟩
    | swapRet q r =>
      simp [step, stepW, hpc] at hs; obtain ⟨rfl, -⟩ := hs
      exact ⟨fun t' ht' => by simp [upd, ht'], fun u => Nat.le_refl _⟩
    | scanLd u b i acc r =>
      simp [step, stepW, hpc] at hs; obtain ⟨rfl, -⟩ := hs
      exact ⟨fun t' ht' => by simp [upd, ht'], fun u => Nat.le_refl _⟩
    | scanExt u acc r =>
      simp [step, stepW, hpc] at hs; obtain ⟨rfl, -⟩ := hs
      exact ⟨fun t' ht' => by simp [upd, ht'], fun u => Nat.le_refl _⟩
    | scanDecide acc r =>
      simp [step, stepW, hpc] at hs; obtain ⟨rfl, -⟩ := hs
      exact ⟨fun t' ht' => by simp [upd, ht'], fun u => Nat.le_refl _⟩
    | derefRd b i =>
      simp only [step, stepW, hpc] at hs
      split at hs <;> simp at hs
      obtain ⟨rfl, -⟩ := hs
      exact ⟨fun t' ht' => by simp [upd, ht'], fun u => Nat.le_refl _⟩

/-! ### The slots a reclamation pass will still read -/

/-- Slot (u,b,i) is ahead of the pass whose program counter is `pc` (false when `pc` is not inside the loading phase
    of a pass). -/
def aheadPC (pc : PC) (u b i : Nat) : Prop :=
  match pc with
  | .scanLd su sb si _ _ => AheadLd su sb si u b i
  | .scanExt su _ _ => AheadExt su u b
  | _ => False

/-- The start of a pass on record `su`: every slot of the records `su, su+1, ..` is ahead. -/
theorem ahead_scanRec (cfg : Cfg) (su : Nat) (acc : List Ptr) (r : GRet) (u b i : Nat) (hu : u < cfg.T) (hsu : su ≤ u)
    (hi : i < bsize cfg b) : aheadPC (scanRec cfg su acc r) u b i := by
  unfold scanRec
  have : su < cfg.T := by omega
  simp only [this, if_true]
  unfold bsize at hi
  split
  · simp only [aheadPC, AheadLd, true_and]; omega
  · simp only [aheadPC, AheadExt]
    split at hi <;> omega

/-- Progress skeleton: a slot of a linked block that is ahead of a pass stays ahead until the pass loads it. -/
theorem ahead_step {cfg : Cfg} {s s' : St} {sc : Tid} {ev : Ev} {u b i : Nat}
    (ha : aheadPC (s.pc sc) u b i) (hu : u < cfg.T) (hb : b ≤ s.nblk u) (hi : i < bsize cfg b)
    (hs : step cfg s sc = some (s', ev)) :
    aheadPC (s'.pc sc) u b i ∨ ev = evLd (slotLoc u b i) (s.slots u b i) := by
  cases hpc : s.pc sc with
  | scanLd su sb si acc r =>
    rw [hpc] at ha; simp only [aheadPC] at ha
    simp [step, stepW, hpc] at hs; obtain ⟨rfl, rfl⟩ := hs
    by_cases hEq : su = u ∧ sb = b ∧ si = i
    · obtain ⟨rfl, rfl, rfl⟩ := hEq; exact Or.inr rfl
    · left
      simp only [upd_same]
      unfold scanNext
      have hi' : i < bsize cfg b := hi
      unfold bsize at hi
      split
      · next hb0 =>
        subst hb0
        split
        · simp only [aheadPC, AheadLd] at ha ⊢; grind
        · simp only [aheadPC, AheadLd, AheadExt] at ha ⊢
          grind
      · split
        · simp only [aheadPC, AheadLd] at ha ⊢; grind
        · split
          · simp only [aheadPC, AheadLd] at ha ⊢
            grind
          · apply ahead_scanRec _ _ _ _ _ _ _ hu _ hi'
            simp only [AheadLd] at ha
            grind
  | scanExt su acc r =>
    rw [hpc] at ha; simp only [aheadPC] at ha
    simp [step, stepW, hpc] at hs; obtain ⟨rfl, rfl⟩ := hs
    left
    simp only [upd_same]
    unfold scanAfterExt
    split
    · simp only [aheadPC, AheadLd, AheadExt] at ha ⊢
      grind
    · apply ahead_scanRec _ _ _ _ _ _ _ hu _ hi
      simp only [AheadExt] at ha
      grind
  | idle => rw [hpc] at ha; simp [aheadPC] at ha
  | done r => rw [hpc] at ha; simp [aheadPC] at ha
  | gallocDo h => rw [hpc] at ha; simp [aheadPC] at ha
  | gfreeSt h b i => rw [hpc] at ha; simp [aheadPC] at ha
  | protLd b i c => rw [hpc] at ha; simp [aheadPC] at ha
  | protSt b i c q => rw [hpc] at ha; simp [aheadPC] at ha
  | protChk b i c q => rw [hpc] at ha; simp [aheadPC] at ha
  | clearSt b i => rw [hpc] at ha; simp [aheadPC] at ha
  | swapX c b => rw [hpc] at ha; simp [aheadPC] at ha
  | swapRet q r => rw [hpc] at ha; simp [aheadPC] at ha
  | scanDecide acc r => rw [hpc] at ha; simp [aheadPC] at ha
  | derefRd b i => rw [hpc] at ha; simp [aheadPC] at ha

/-- Run form: along every run, a slot of a linked block that is ahead of the pass of thread `sc` is still ahead at the
    end, or the run contains the load of that slot by `sc`. -/
theorem ahead_run (cfg : Cfg) (sc : Tid) (u b i : Nat) (hu : u < cfg.T) (hi : i < bsize cfg b) :
    ∀ (sched : List (Tid × Act)) (s s' : St) (os : List (Tid × Obs)),
      aheadPC (s.pc sc) u b i → b ≤ s.nblk u → (model cfg).run s sched = some (s', os) →
      aheadPC (s'.pc sc) u b i ∨ ∃ v, (sc, Obs.ev (evLd (slotLoc u b i) v)) ∈ os := by
  intro sched
  induction sched with
  | nil => intro s s' os ha _ hr; simp [Model.run] at hr; exact Or.inl (hr.1 ▸ ha)
  | cons x rest ih =>
    intro s s' os ha hb hr
    obtain ⟨t, a⟩ := x
    simp only [Model.run] at hr
    cases hap : (model cfg).apply s t a with
    | none => simp [hap] at hr
    | some q =>
      obtain ⟨s1, o⟩ := q
      simp only [hap] at hr
      cases hrr : (model cfg).run s1 rest with
      | none => simp [hrr] at hr
      | some q2 =>
        obtain ⟨s2, os2⟩ := q2
        simp only [hrr, Option.some.injEq, Prod.mk.injEq] at hr
        obtain ⟨rfl, rfl⟩ := hr
        obtain ⟨hfr, hmono⟩ := apply_frame hap
        have hb1 : b ≤ s1.nblk u := Nat.le_trans hb (hmono u)
        -- one action: still ahead, or this action is the load
        have h1 : aheadPC (s1.pc sc) u b i ∨ (t = sc ∧ o = Obs.ev (evLd (slotLoc u b i) (s.slots u b i))) := by
          by_cases e : t = sc
          · subst e
            cases a with
            | invoke op =>
              simp only [Model.apply, model, Option.map_eq_some_iff] at hap
              obtain ⟨sx, hs1, heq⟩ := hap
              obtain ⟨q, -, hidle, -⟩ := invoke_frame hs1
              rw [hidle] at ha; simp [aheadPC] at ha
            | ret =>
              simp only [Model.apply, model, Option.map_eq_some_iff] at hap
              obtain ⟨⟨sx, r⟩, hres, heq⟩ := hap
              unfold result at hres
              split at hres
              · next r' hd => rw [hd] at ha; simp [aheadPC] at ha
              · simp at hres
            | step =>
              simp only [Model.apply, model, Option.map_eq_some_iff] at hap
              obtain ⟨⟨sx, ev⟩, hs, heq⟩ := hap
              simp only [Prod.mk.injEq] at heq
              obtain ⟨rfl, rfl⟩ := heq
              rcases ahead_step ha hu hb hi hs with h | h
              · exact Or.inl h
              · exact Or.inr ⟨rfl, by rw [h]⟩
          · left; rw [hfr sc (fun h => e h.symm)]; exact ha
        rcases h1 with h1 | ⟨rfl, rfl⟩
        · rcases ih s1 s2 os2 h1 hb1 hrr with h2 | ⟨v, hv⟩
          · exact Or.inl h2
          · exact Or.inr ⟨v, List.mem_cons_of_mem _ hv⟩
        · exact Or.inr ⟨_, List.mem_cons_self⟩

/-! ### Guard objects never share a slot -/

/-- The free lists are duplicate-free, two Guard objects of a thread are never linked to the same slot, a slot on the
    free list is linked to no Guard object; `gfree` works on the slot its handle is linked to, `galloc` on a handle that
    is not linked. -/
structure PAlias (s : St) : Prop where
  flist_nodup : ∀ t, (s.flist t).Nodup
  hslot_inj : ∀ t h1 h2 b i, s.hslot t h1 = some (b, i) → s.hslot t h2 = some (b, i) → h1 = h2
  free_unlinked : ∀ t h b i, s.hslot t h = some (b, i) → (b, i) ∉ s.flist t
  gfree_link : ∀ t h b i, s.pc t = .gfreeSt h b i → s.hslot t h = some (b, i)
  galloc_unl : ∀ t h, s.pc t = .gallocDo h → s.hslot t h = none

theorem initList_nodup (n : Nat) : (initList n).Nodup := by
  unfold initList
  exact List.Pairwise.map _ (fun a b h => by simp; exact h) List.nodup_range

theorem blockTail_nodup (k B : Nat) : (blockTail k B).Nodup := by
  unfold blockTail
  exact List.Pairwise.map _ (fun a b h => by simp; exact h) List.nodup_range

theorem palias_init (cfg : Cfg) : PAlias (init cfg) := by
  constructor <;> simp [init, initList_nodup]

/-- steps that touch neither the free lists nor the handle table, and neither enter `gfreeSt` nor `gallocDo` -/
theorem palias_frame {s s' : St} (h : PAlias s) (hf : s'.flist = s.flist) (hh : s'.hslot = s.hslot)
    (hp1 : ∀ t h b i, s'.pc t = .gfreeSt h b i → s.pc t = .gfreeSt h b i)
    (hp2 : ∀ t h, s'.pc t = .gallocDo h → s.pc t = .gallocDo h) : PAlias s' := by
  obtain ⟨a1, a2, a3, a4, a5⟩ := h
  constructor
  · rw [hf]; exact a1
  · rw [hh]; exact a2
  · rw [hh, hf]; exact a3
  · intro t h b i hpc; rw [hh]; exact a4 t h b i (hp1 t h b i hpc)
  · intro t h hpc; rw [hh]; exact a5 t h (hp2 t h hpc)

theorem palias_setpc {s : St} {t : Tid} {q : PC} (h : PAlias s) (hq1 : ∀ h b i, q ≠ .gfreeSt h b i)
    (hq2 : ∀ h, q ≠ .gallocDo h) : PAlias { s with pc := upd s.pc t q } := by
  refine palias_frame h rfl rfl ?_ ?_
  · intro t' h b i hpc
    by_cases e : t' = t
    · subst e; simp [upd] at hpc; exact absurd hpc (hq1 h b i)
    · simpa [upd, e] using hpc
  · intro t' h hpc
    by_cases e : t' = t
    · subst e; simp [upd] at hpc; exact absurd hpc (hq2 h)
    · simpa [upd, e] using hpc

theorem scanRec_ne (cfg : Cfg) (u : Nat) (acc : List Ptr) (r : GRet) :
    (∀ h b i, scanRec cfg u acc r ≠ .gfreeSt h b i) ∧ (∀ h, scanRec cfg u acc r ≠ .gallocDo h) := by
  rcases scanRec_cases cfg u acc r with e | e | e <;> rw [e] <;> simp

theorem scanNext_ne (cfg : Cfg) (w u b i : Nat) (acc : List Ptr) (r : GRet) :
    (∀ h b' i', scanNext cfg w u b i acc r ≠ .gfreeSt h b' i') ∧ (∀ h, scanNext cfg w u b i acc r ≠ .gallocDo h) := by
  unfold scanNext
  split
  · split <;> simp
  · split
    · simp
    · split
      · simp
      · exact scanRec_ne _ _ _ _

theorem scanAfterExt_ne (cfg : Cfg) (u nb : Nat) (acc : List Ptr) (r : GRet) :
    (∀ h b' i', scanAfterExt cfg u nb acc r ≠ .gfreeSt h b' i') ∧ (∀ h, scanAfterExt cfg u nb acc r ≠ .gallocDo h) := by
  unfold scanAfterExt
  split
  · simp
  · exact scanRec_ne _ _ _ _

theorem palias_step {cfg : Cfg} {s s' : St} {t : Tid} {ev : Ev} (hI : PInv cfg s) (h : PAlias s)
    (hs : step cfg s t = some (s', ev)) : PAlias s' := by
  cases hpc : s.pc t with
  | idle => simp [step, stepW, hpc] at hs
  | done r => simp [step, stepW, hpc] at hs
  | gallocDo h' =>
    obtain ⟨a1, a2, a3, a4, a5⟩ := h
    have hrng := hI.hslot_rng
    simp only [step, stepW, hpc] at hs
    split at hs
    · next b i rest hfl =>
      simp at hs; obtain ⟨rfl, -⟩ := hs
      have hnd := a1 t; rw [hfl, List.nodup_cons] at hnd
      have hm : ∀ x, x ∈ rest → x ∈ s.flist t := fun x hx => by rw [hfl]; exact List.mem_cons_of_mem _ hx
      have hm0 : (b, i) ∈ s.flist t := by rw [hfl]; exact List.mem_cons_self
      constructor <;> intros <;> (try dsimp only at *) <;> grind [upd, upd2]
    · next hfl =>
      simp at hs; obtain ⟨rfl, -⟩ := hs
      have hnd := blockTail_nodup (s.nblk t + 1) cfg.B
      have hbt : ∀ x y, (x, y) ∈ blockTail (s.nblk t + 1) cfg.B → x = s.nblk t + 1 ∧ 1 ≤ y ∧ y < cfg.B :=
        fun x y hxy => mem_blockTail.mp hxy
      constructor <;> intros <;> (try dsimp only at *) <;> grind [upd, upd2]
  | gfreeSt h' b i =>
    obtain ⟨a1, a2, a3, a4, a5⟩ := h
    simp [step, stepW, hpc] at hs; obtain ⟨rfl, -⟩ := hs
    have hl := a4 t h' b i hpc
    have hnf := a3 t h' b i hl
    have hnd : ((b, i) :: s.flist t).Nodup := List.nodup_cons.mpr ⟨hnf, a1 t⟩
    constructor <;> intros <;> (try dsimp only at *) <;> grind [upd, upd2]
  | protLd b i c =>
    simp [step, stepW, hpc] at hs; obtain ⟨rfl, -⟩ := hs; exact palias_setpc h (by simp) (by simp)
  | protSt b i c q =>
    simp [step, stepW, hpc] at hs; obtain ⟨rfl, -⟩ := hs
    exact palias_frame (palias_setpc (q := .protChk b i c q) h (by simp) (by simp)) rfl rfl (fun _ _ _ _ h => h) (fun _ _ h => h)
  | protChk b i c q =>
    simp only [step, stepW, hpc] at hs
    split at hs <;> simp at hs <;> obtain ⟨rfl, -⟩ := hs
    · exact palias_frame (palias_setpc (q := .done (retPtr q)) h (by simp) (by simp)) rfl rfl (fun _ _ _ _ h => h) (fun _ _ h => h)
    · exact palias_setpc h (by simp) (by simp)
  | clearSt b i =>
    simp [step, stepW, hpc] at hs; obtain ⟨rfl, -⟩ := hs
    exact palias_frame (palias_setpc (q := .done []) h (by simp) (by simp)) rfl rfl (fun _ _ _ _ h => h) (fun _ _ h => h)
  | swapX c b =>
    cases b <;> simp only [step, stepW, hpc] at hs <;> split at hs <;> simp at hs <;> obtain ⟨rfl, -⟩ := hs
    · exact palias_setpc h (by simp) (by simp)
    · exact palias_frame (palias_setpc (q := .swapRet _ _) h (by simp) (by simp)) rfl rfl (fun _ _ _ _ h => h) (fun _ _ h => h)
    · exact palias_frame (palias_setpc (q := .done _) h (by simp) (by simp)) rfl rfl (fun _ _ _ _ h => h) (fun _ _ h => h)
    · exact palias_frame (palias_setpc (q := .swapRet _ _) h (by simp) (by simp)) rfl rfl (fun _ _ _ _ h => h) (fun _ _ h => h)
  | swapRet q r =>
    simp [step, stepW, hpc] at hs; obtain ⟨rfl, -⟩ := hs
    have hne := scanRec_ne cfg 0 [] r
    refine palias_frame (palias_setpc (q := if (s.retired t ++ [q]).length < s.rblk t * cfg.RB then .done r else scanStart cfg r)
      h ?_ ?_) rfl rfl (fun _ _ _ _ h => by simpa using h) (fun _ _ h => by simpa using h)
    · intro h' b i; split
      · simp
      · exact hne.1 h' b i
    · intro h'; split
      · simp
      · exact hne.2 h'
  | scanLd u b i acc r =>
    simp [step, stepW, hpc] at hs; obtain ⟨rfl, -⟩ := hs
    exact palias_setpc h (scanNext_ne _ _ _ _ _ _ _).1 (scanNext_ne _ _ _ _ _ _ _).2
  | scanExt u acc r =>
    simp [step, stepW, hpc] at hs; obtain ⟨rfl, -⟩ := hs
    exact palias_setpc h (scanAfterExt_ne _ _ _ _ _).1 (scanAfterExt_ne _ _ _ _ _).2
  | scanDecide acc r =>
    simp [step, stepW, hpc] at hs; obtain ⟨rfl, -⟩ := hs
    exact palias_frame (palias_setpc (q := .done r) h (by simp) (by simp)) rfl rfl (fun _ _ _ _ h => h) (fun _ _ h => h)
  | derefRd b i =>
    simp only [step, stepW, hpc] at hs
    split at hs <;> simp at hs
    obtain ⟨rfl, -⟩ := hs; exact palias_setpc h (by simp) (by simp)

theorem palias_invoke {cfg : Cfg} {s s' : St} {t : Tid} {op : GOp} (h : PAlias s)
    (hs : invoke cfg s t op = some s') : PAlias s' := by
  obtain ⟨a1, a2, a3, a4, a5⟩ := h
  unfold invoke at hs
  split at hs
  · split at hs
    · split at hs <;> simp at hs; subst hs
      constructor <;> intros <;> (try dsimp only at *) <;> grind [upd]
    · split at hs <;> simp at hs; subst hs
      constructor <;> intros <;> (try dsimp only at *) <;> grind [upd]
    · split at hs <;> simp at hs; subst hs
      exact palias_setpc ⟨a1, a2, a3, a4, a5⟩ (by simp) (by simp)
    · split at hs <;> simp at hs; subst hs
      exact palias_setpc ⟨a1, a2, a3, a4, a5⟩ (by simp) (by simp)
    · simp at hs; subst hs; exact palias_setpc ⟨a1, a2, a3, a4, a5⟩ (by simp) (by simp)
    · simp at hs; subst hs; exact palias_setpc ⟨a1, a2, a3, a4, a5⟩ (by simp) (by simp)
    · simp at hs; subst hs
      exact palias_setpc ⟨a1, a2, a3, a4, a5⟩ (scanRec_ne _ _ _ _).1 (scanRec_ne _ _ _ _).2
    · split at hs
      · split at hs <;> simp at hs; subst hs
        exact palias_setpc ⟨a1, a2, a3, a4, a5⟩ (by simp) (by simp)
      · simp at hs
    · simp at hs
  · simp at hs

theorem palias_apply (cfg : Cfg) (s : St) (t : Tid) (a : Act) (s' : St) (o : Obs)
    (h : PInv cfg s ∧ PAlias s) (hap : (model cfg).apply s t a = some (s', o)) : PInv cfg s' ∧ PAlias s' := by
  refine ⟨pinv_apply cfg s t a s' o h.1 hap, ?_⟩
  cases a with
  | invoke op =>
    simp only [Model.apply, model, Option.map_eq_some_iff] at hap
    obtain ⟨s1, hs1, heq⟩ := hap
    simp only [Prod.mk.injEq] at heq
    obtain ⟨rfl, -⟩ := heq
    exact palias_invoke h.2 hs1
  | step =>
    simp only [Model.apply, model, Option.map_eq_some_iff] at hap
    obtain ⟨⟨s1, ev⟩, hr, heq⟩ := hap
    simp only [Prod.mk.injEq] at heq
    obtain ⟨rfl, -⟩ := heq
    exact palias_step h.1 h.2 hr
  | ret =>
    simp only [Model.apply, model, Option.map_eq_some_iff] at hap
    obtain ⟨⟨s1, r⟩, hr, heq⟩ := hap
    simp only [Prod.mk.injEq] at heq
    obtain ⟨rfl, -⟩ := heq
    unfold result at hr
    split at hr
    · simp at hr; obtain ⟨rfl, -⟩ := hr; exact palias_setpc h.2 (by simp) (by simp)
    · simp at hr

theorem palias_reachable (cfg : Cfg) (hB : 0 < cfg.B) (s : St) (hr : (model cfg).Reachable (init cfg) s) : PAlias s :=
  ((model cfg).inv_reachable (fun x => PInv cfg x ∧ PAlias x) (init cfg) ⟨pinv_init cfg hB, palias_init cfg⟩
    (palias_apply cfg) s hr).2

/-! ### The retired chain always has room for the next push (RB >= 4) -/

/-- inside a reclamation pass -/
def inScan : PC → Prop
  | .scanLd _ _ _ _ _ => True
  | .scanExt _ _ _ => True
  | .scanDecide _ _ => True
  | _ => False

/-- The chain has at least one block; its content fits; and OUTSIDE a pass there is room for one more entry (a push
    that fills the last block is followed by a pass, which frees an entry or adds a block). -/
structure PRoom (cfg : Cfg) (s : St) : Prop where
  rblk_pos : ∀ t, 1 ≤ s.rblk t
  cap : ∀ t, (s.retired t).length ≤ s.rblk t * cfg.RB
  room : ∀ t, ¬ inScan (s.pc t) → (s.retired t).length < s.rblk t * cfg.RB

theorem proom_init (cfg : Cfg) (hRB : 4 ≤ cfg.RB) : PRoom cfg (init cfg) := by
  constructor <;> simp [init] <;> omega

theorem inScan_scanRec (cfg : Cfg) (u : Nat) (acc : List Ptr) (r : GRet) : inScan (scanRec cfg u acc r) := by
  rcases scanRec_cases cfg u acc r with e | e | e <;> rw [e] <;> trivial

theorem inScan_scanNext (cfg : Cfg) (w u b i : Nat) (acc : List Ptr) (r : GRet) : inScan (scanNext cfg w u b i acc r) := by
  unfold scanNext
  split
  · split <;> trivial
  · split
    · trivial
    · split
      · trivial
      · exact inScan_scanRec _ _ _ _

theorem inScan_scanAfterExt (cfg : Cfg) (u nb : Nat) (acc : List Ptr) (r : GRet) : inScan (scanAfterExt cfg u nb acc r) := by
  unfold scanAfterExt
  split
  · trivial
  · exact inScan_scanRec _ _ _ _

/-- steps that change neither the retired chains nor their block counts -/
theorem proom_frame {cfg : Cfg} {s s' : St} (h : PRoom cfg s) (hr : s'.retired = s.retired) (hb : s'.rblk = s.rblk)
    (hp : ∀ t', ¬ inScan (s'.pc t') → ¬ inScan (s.pc t')) : PRoom cfg s' := by
  obtain ⟨r1, r2, r3⟩ := h
  refine ⟨?_, ?_, ?_⟩
  · rw [hb]; exact r1
  · rw [hr, hb]; exact r2
  · intro t' hn; rw [hr, hb]; exact r3 t' (hp t' hn)

theorem pc_upd_scan (pc : Tid → PC) (t : Tid) (q : PC) (hq : inScan q ∨ ¬ inScan (pc t)) :
    ∀ t', ¬ inScan (upd pc t q t') → ¬ inScan (pc t') := by
  intro t' hn
  by_cases e : t' = t
  · subst e
    simp only [upd_same] at hn
    rcases hq with hq | hq
    · exact absurd hq hn
    · exact hq
  · simpa [upd, e] using hn

theorem classicScan_length (acc rl : List Ptr) :
    (classicScan acc rl).1.length + (classicScan acc rl).2.length = rl.length := by
  have := (CdsVerif.Props.C03.C03_classic_scan_partition acc rl).length_eq
  simpa using this

/-- the arithmetic of the decision step: what is kept fits into the blocks the chain has afterwards, with room -/
theorem room_after (cfg : Cfg) (hRB : 4 ≤ cfg.RB) (nb len nk nf : Nat) (hnb : 1 ≤ nb) (hlen : len ≤ nb * cfg.RB)
    (hsum : nk + nf = len) : nk < rblkAfter cfg nb len nf * cfg.RB ∧ nb ≤ rblkAfter cfg nb len nf := by
  unfold rblkAfter walked
  have hmul : nb * cfg.RB + cfg.RB = (nb + 1) * cfg.RB := by rw [Nat.add_mul, Nat.one_mul]
  have hcomm : cfg.RB * nb = nb * cfg.RB := Nat.mul_comm _ _
  have hge : 4 ≤ nb * cfg.RB := Nat.le_trans hRB (Nat.le_mul_of_pos_left _ hnb)
  by_cases hfull : len = nb * cfg.RB
  · simp only [hfull, if_true, and_true]
    rw [hcomm]
    split
    · constructor <;> omega
    · constructor <;> omega
  · have : ¬ (nf < cfg.RB * (if len = nb * cfg.RB then nb else len / cfg.RB + 1) / 4 ∧ len = nb * cfg.RB) := fun h => hfull h.2
    simp only [this, if_false]
    constructor <;> omega

theorem proom_step {cfg : Cfg} (hRB : 4 ≤ cfg.RB) {s s' : St} {t : Tid} {ev : Ev} (h : PRoom cfg s)
    (hs : step cfg s t = some (s', ev)) : PRoom cfg s' := by
  cases hpc : s.pc t with
  | idle => simp [step, stepW, hpc] at hs
  | done r => simp [step, stepW, hpc] at hs
  | gallocDo h' =>
    simp only [step, stepW, hpc] at hs
    split at hs <;> simp at hs <;> obtain ⟨rfl, -⟩ := hs <;>
      exact proom_frame h rfl rfl (pc_upd_scan _ t _ (Or.inr (by simp [hpc, inScan])))
  | gfreeSt h' b i =>
    simp [step, stepW, hpc] at hs; obtain ⟨rfl, -⟩ := hs
    exact proom_frame h rfl rfl (pc_upd_scan _ t _ (Or.inr (by simp [hpc, inScan])))
  | protLd b i c =>
    simp [step, stepW, hpc] at hs; obtain ⟨rfl, -⟩ := hs
    exact proom_frame h rfl rfl (pc_upd_scan _ t _ (Or.inr (by simp [hpc, inScan])))
  | protSt b i c q =>
    simp [step, stepW, hpc] at hs; obtain ⟨rfl, -⟩ := hs
    exact proom_frame h rfl rfl (pc_upd_scan _ t _ (Or.inr (by simp [hpc, inScan])))
  | protChk b i c q =>
    simp only [step, stepW, hpc] at hs
    split at hs <;> simp at hs <;> obtain ⟨rfl, -⟩ := hs
    · exact proom_frame h rfl rfl (pc_upd_scan _ t _ (Or.inr (by simp [hpc, inScan])))
    · exact proom_frame h rfl rfl (pc_upd_scan _ t _ (Or.inr (by simp [hpc, inScan])))
  | clearSt b i =>
    simp [step, stepW, hpc] at hs; obtain ⟨rfl, -⟩ := hs
    exact proom_frame h rfl rfl (pc_upd_scan _ t _ (Or.inr (by simp [hpc, inScan])))
  | swapX c b =>
    cases b <;> simp only [step, stepW, hpc] at hs <;> split at hs <;> simp at hs <;> obtain ⟨rfl, -⟩ := hs
    · exact proom_frame h rfl rfl (pc_upd_scan _ t _ (Or.inr (by simp [hpc, inScan])))
    · exact proom_frame h rfl rfl (pc_upd_scan _ t _ (Or.inr (by simp [hpc, inScan])))
    · exact proom_frame h rfl rfl (pc_upd_scan _ t _ (Or.inr (by simp [hpc, inScan])))
    · exact proom_frame h rfl rfl (pc_upd_scan _ t _ (Or.inr (by simp [hpc, inScan])))
  | scanLd u b i acc r =>
    simp [step, stepW, hpc] at hs; obtain ⟨rfl, -⟩ := hs
    exact proom_frame h rfl rfl (pc_upd_scan _ t _ (Or.inl (inScan_scanNext _ _ _ _ _ _ _)))
  | scanExt u acc r =>
    simp [step, stepW, hpc] at hs; obtain ⟨rfl, -⟩ := hs
    exact proom_frame h rfl rfl (pc_upd_scan _ t _ (Or.inl (inScan_scanAfterExt _ _ _ _ _)))
  | derefRd b i =>
    simp only [step, stepW, hpc] at hs
    split at hs <;> simp at hs
    obtain ⟨rfl, -⟩ := hs
    exact proom_frame h rfl rfl (pc_upd_scan _ t _ (Or.inr (by simp [hpc, inScan])))
  | swapRet q r =>
    obtain ⟨r1, r2, r3⟩ := h
    have hroom := r3 t (by simp [hpc, inScan])
    simp [step, stepW, hpc] at hs; obtain ⟨rfl, -⟩ := hs
    refine ⟨r1, ?_, ?_⟩
    · intro t'; dsimp only [upd]; split
      · next e => subst e; simp; omega
      · exact r2 t'
    · intro t' hn
      by_cases e : t' = t
      · subst e
        simp only [upd_same] at hn ⊢
        split at hn
        · next hlt => simpa using hlt
        · exact absurd (inScan_scanRec _ _ _ _) hn
      · simp only [upd, e, if_false] at hn ⊢; exact r3 t' hn
  | scanDecide acc r =>
    obtain ⟨r1, r2, r3⟩ := h
    have hsum := classicScan_length acc (s.retired t)
    have hra := room_after cfg hRB (s.rblk t) (s.retired t).length _ _ (r1 t) (r2 t) hsum
    simp [step, stepW, hpc] at hs; obtain ⟨rfl, -⟩ := hs
    refine ⟨?_, ?_, ?_⟩
    · intro t'; dsimp only [upd]; split
      · next e => subst e; have := r1 t'; omega
      · exact r1 t'
    · intro t'; dsimp only [upd]; split
      · next e => subst e; exact Nat.le_of_lt hra.1
      · exact r2 t'
    · intro t' hn
      by_cases e : t' = t
      · subst e; simp only [upd_same]; exact hra.1
      · simp only [upd, e, if_false] at hn ⊢; exact r3 t' hn

theorem proom_apply (cfg : Cfg) (hRB : 4 ≤ cfg.RB) (s : St) (t : Tid) (a : Act) (s' : St) (o : Obs)
    (h : PRoom cfg s) (hap : (model cfg).apply s t a = some (s', o)) : PRoom cfg s' := by
  cases a with
  | invoke op =>
    simp only [Model.apply, model, Option.map_eq_some_iff] at hap
    obtain ⟨s1, hs1, heq⟩ := hap
    simp only [Prod.mk.injEq] at heq
    obtain ⟨rfl, -⟩ := heq
    obtain ⟨q, rfl, hidle, -⟩ := invoke_frame hs1
    exact proom_frame h rfl rfl (pc_upd_scan _ t _ (Or.inr (by simp [hidle, inScan])))
  | step =>
    simp only [Model.apply, model, Option.map_eq_some_iff] at hap
    obtain ⟨⟨s1, ev⟩, hr, heq⟩ := hap
    simp only [Prod.mk.injEq] at heq
    obtain ⟨rfl, -⟩ := heq
    exact proom_step hRB h hr
  | ret =>
    simp only [Model.apply, model, Option.map_eq_some_iff] at hap
    obtain ⟨⟨s1, r⟩, hr, heq⟩ := hap
    simp only [Prod.mk.injEq] at heq
    obtain ⟨rfl, -⟩ := heq
    unfold result at hr
    split at hr
    · next r' hd => simp at hr; obtain ⟨rfl, -⟩ := hr; exact proom_frame h rfl rfl (pc_upd_scan _ t _ (Or.inr (by simp [hd, inScan])))
    · simp at hr

theorem proom_reachable (cfg : Cfg) (hRB : 4 ≤ cfg.RB) (s : St) (hr : (model cfg).Reachable (init cfg) s) : PRoom cfg s :=
  (model cfg).inv_reachable (PRoom cfg) (init cfg) (proom_init cfg hRB) (proom_apply cfg hRB) s hr

end CdsVerif.Algo.DHP

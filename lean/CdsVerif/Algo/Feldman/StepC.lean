/-
  Preservation of `SInv` by the steps of `expand_slot`: allocation, conversion CAS, copy, publication.
-/
import CdsVerif.Algo.Feldman.StepB
namespace CdsVerif.Algo.Feldman
open CdsVerif.Machine CdsVerif.Spec CdsVerif.Lin

set_option maxHeartbeats 1000000 in
theorem sinv_xAlloc {c : Cfg} {s s' : St} {t : Tid} {ev : Ev} {op : Op} {a lvl : Nat} {n : Node} (h : SInv c s)
    (hpc : s.pc t = .xAlloc op a lvl n) (hs : step c s t = some (s', ev)) : SInv c s' := by
  have hpo := h.pos t op a lvl (by simp [hpc, posOf])
  have hxa := h.xA t op a lvl n hpc
  simp only [step, hpc, Option.some.injEq, Prod.mk.injEq] at hs; obtain ⟨rfl, -⟩ := hs
  obtain ⟨pre0, acpos, fresh, arrp, onp, pos, casI, casE, casU, xA, own, ownd, xNull, xConvd, xUniq, xFull⟩ := h
  have hfr : ∀ a1 i1, s.cell a1 i1 ≠ .null → a1 < s.acnt := by
    intro a1 i1 hne
    apply Classical.byContradiction; intro hge
    exact hne (fresh a1 i1 (by omega))
  constructor
  · grind [upd]
  · grind
  · intro b j hb; exact fresh b j (by grind)
  · intro a1 i1 b1 hc
    have := arrp a1 i1 b1 hc
    have h1 : a1 ≠ s.acnt := by omega
    have h2 : b1 ≠ s.acnt := by omega
    refine ⟨by simp [upd, h2, this.1], by simp [upd, h2, this.2.1], by simp [upd, h1, h2, this.2.2.1], this.2.2.2.1,
      by simp; omega, ?_, by simp [upd, h1]; exact this.2.2.2.2.2.2⟩
    have hp := this.2.2.2.2.2.1
    unfold Pub at hp ⊢
    simp only [upd, if_neg h1]; exact hp
  · intro a1 i1 n1 hc
    have h1 : a1 ≠ s.acnt := by
      have := hfr a1 i1 (by rcases hc with e | e <;> (dsimp only at e; simp [e])); omega
    simp only [upd, if_neg h1]; exact onp a1 i1 n1 hc
  · intro t2 op2 a2 l2 hpo2
    have key : posOf (s.pc t2) = some (op2, a2, l2) := by
      by_cases ht : t2 = t
      · subst ht; simp only [upd_same, posOf] at hpo2; simp [hpc, posOf]; simpa using hpo2
      · simpa only [upd, if_neg ht] using hpo2
    have := pos t2 op2 a2 l2 key
    have h1 : a2 ≠ s.acnt := by omega
    refine ⟨?_, by simp; omega, this.2.2.1, by simp only [upd, if_neg h1]; exact this.2.2.2⟩
    have hp := this.1
    unfold Pub at hp ⊢
    simp only [upd, if_neg h1]; exact hp
  · intro t2 op2 a2 l2 hpc2
    by_cases ht : t2 = t
    · subst ht; simp at hpc2
    · simp only [upd, if_neg ht] at hpc2; exact casI t2 op2 a2 l2 hpc2
  · intro t2 op2 a2 l2 n2 hpc2
    by_cases ht : t2 = t
    · subst ht; simp at hpc2
    · simp only [upd, if_neg ht] at hpc2; exact casE t2 op2 a2 l2 n2 hpc2
  · intro t2 op2 a2 l2 n2 hpc2
    by_cases ht : t2 = t
    · subst ht; simp at hpc2
    · simp only [upd, if_neg ht] at hpc2; exact casU t2 op2 a2 l2 n2 hpc2
  · intro t2 op2 a2 l2 n2 hpc2
    by_cases ht : t2 = t
    · subst ht; simp at hpc2
    · simp only [upd, if_neg ht] at hpc2; exact xA t2 op2 a2 l2 n2 hpc2
  · intro t2 op2 a2 l2 n2 b2 hpc2
    by_cases ht : t2 = t
    · subst ht
      simp only [upd_same, ownOf, Option.some.injEq, Prod.mk.injEq] at hpc2
      obtain ⟨rfl, rfl, rfl, rfl, rfl⟩ := hpc2
      have h1 : a ≠ s.acnt := by omega
      refine ⟨acpos, by simp, hpo.2.1, ?_, hxa, by simp, by simp, by simp [upd, h1]⟩
      simp only [upd_same]
      intro hc
      have := arrp _ _ _ hc
      omega
    · simp only [upd, if_neg ht] at hpc2
      have := own t2 op2 a2 l2 n2 b2 hpc2
      have h1 : b2 ≠ s.acnt := by omega
      have h2 : a2 ≠ s.acnt := by omega
      refine ⟨this.1, by simp; omega, this.2.2.1, ?_, this.2.2.2.2.1, ?_, ?_, ?_⟩
      · simp only [upd, if_neg h1]; exact this.2.2.2.1
      · simp only [upd, if_neg h1]; exact this.2.2.2.2.2.1
      · simp only [upd, if_neg h1]; exact this.2.2.2.2.2.2.1
      · simp only [upd, if_neg h1, if_neg h2]; exact this.2.2.2.2.2.2.2
  · intro t2 t3 op2 a2 l2 n2 b2 op3 a3 l3 n3 hne h2 h3
    by_cases ht : t2 = t
    · subst ht
      simp only [upd_same, ownOf, Option.some.injEq, Prod.mk.injEq] at h2
      obtain ⟨rfl, rfl, rfl, rfl, rfl⟩ := h2
      have ht3 : t3 ≠ t2 := fun e => hne e.symm
      simp only [upd, if_neg ht3] at h3
      have := own t3 _ _ _ _ _ h3
      omega
    · by_cases ht3 : t3 = t
      · subst ht3
        simp only [upd_same, ownOf, Option.some.injEq, Prod.mk.injEq] at h3
        obtain ⟨rfl, rfl, rfl, rfl, rfl⟩ := h3
        simp only [upd, if_neg ht] at h2
        have := own t2 _ _ _ _ _ h2
        omega
      · simp only [upd, if_neg ht] at h2; simp only [upd, if_neg ht3] at h3
        exact ownd t2 t3 op2 a2 l2 n2 b2 op3 a3 l3 n3 hne h2 h3
  · intro t2 op2 a2 l2 n2 b2 hpc2 j
    by_cases ht : t2 = t
    · subst ht
      simp only [upd_same] at hpc2
      rcases hpc2 with e | e
      · simp only [PC.xConv.injEq] at e; obtain ⟨-, -, -, -, rfl⟩ := e
        exact fresh _ j (Nat.le_refl _)
      · simp at e
    · simp only [upd, if_neg ht] at hpc2; exact xNull t2 op2 a2 l2 n2 b2 hpc2 j
  · intro t2 a2 i2 n2 hpc2
    by_cases ht : t2 = t
    · subst ht; simp [cvOf] at hpc2
    · simp only [upd, if_neg ht] at hpc2; exact xConvd t2 a2 i2 n2 hpc2
  · intro t2 t3 a2 i2 n2 n3 hne h2 h3
    by_cases ht : t2 = t
    · subst ht; simp [cvOf] at h2
    · by_cases ht3 : t3 = t
      · subst ht3; simp [cvOf] at h3
      · simp only [upd, if_neg ht] at h2; simp only [upd, if_neg ht3] at h3
        exact xUniq t2 t3 a2 i2 n2 n3 hne h2 h3
  · intro t2 op2 a2 l2 n2 b2 hpc2
    by_cases ht : t2 = t
    · subst ht; simp at hpc2
    · simp only [upd, if_neg ht] at hpc2; exact xFull t2 op2 a2 l2 n2 b2 hpc2

theorem sinv_xConv {c : Cfg} {s s' : St} {t : Tid} {ev : Ev} {op : Op} {a lvl : Nat} {n : Node} {b : Nat}
    (hcf : c.copyFirst = true) (h : SInv c s)
    (hpc : s.pc t = .xConv op a lvl n b) (hs : step c s t = some (s', ev)) : SInv c s' := by
  have hpo := h.pos t op a lvl (by simp [hpc, posOf])
  have hnull := h.xNull t op a lvl n b (Or.inl hpc)
  simp only [step, hpc, hcf, if_true] at hs
  split at hs
  · next hd =>
    simp only [Option.some.injEq, Prod.mk.injEq] at hs; obtain ⟨rfl, -⟩ := hs
    have hpf := h.onp a _ n (Or.inl hd)
    apply sinv_write_leaf h hpo.1 hpo.2.1 (Or.inr ⟨n, hd⟩) (Or.inr ⟨n, Or.inr rfl, hpf⟩)
    · intro x hx; simp only [posOf] at hx; simp [hpc, posOf]; simpa using hx
    · intro x hx; simp only [ownOf] at hx; simp [hpc, ownOf]; simpa using hx
    · intro x hx; simp only [cvOf, Option.some.injEq] at hx; exact ⟨n, hx.symm, rfl⟩
    · exact Or.inr ⟨op, lvl, n, b, rfl, hnull⟩
  · simp only [Option.some.injEq, Prod.mk.injEq] at hs; obtain ⟨rfl, -⟩ := hs
    exact sinv_to_trav h (by simp [hpc, posOf])

end CdsVerif.Algo.Feldman
